/* native side of vh.h: value table lookup + main() */
#include "vh.h"
#include <stdio.h>
#include <string.h>
#include <stdlib.h>
int vh_failed = 0;
static int vh_lookup(const char* name, unsigned long long* out) {
    const struct vh_value* v;
    int found = 0;
    for (v = vh_values; v->name; v++) {
        if (strcmp(v->name, name) == 0) { *out = v->bits; found = 1; }
    }
    return found;
}
/* the k-th execution of ND(T, name) takes the k-th value the counterexample assigned to `name` */
#define VH_MAXNAMES 256
static const char* vh_seen[VH_MAXNAMES]; static int vh_seen_n[VH_MAXNAMES]; static int vh_nseen = 0;
static int vh_occurrence(const char* name) {
    int i;
    for (i = 0; i < vh_nseen; i++) if (strcmp(vh_seen[i], name) == 0) return vh_seen_n[i]++;
    if (vh_nseen < VH_MAXNAMES) { vh_seen[vh_nseen] = name; vh_seen_n[vh_nseen] = 1; vh_nseen++; }
    return 0;
}
void vh_nd(void* p, size_t n, const char* name) {
    unsigned long long bits = 0;
    char buf[256];
    snprintf(buf, sizeof buf, "%s#%d", name, vh_occurrence(name));
    if (vh_lookup(buf, &bits)) { memset(p, 0, n); memcpy(p, &bits, n < sizeof(bits) ? n : sizeof(bits)); return; }
    if (!vh_lookup(name, &bits)) { printf("NATIVE-NOTE no counterexample value for %s, using 0\n", name); }
    memset(p, 0, n);
    memcpy(p, &bits, n < sizeof(bits) ? n : sizeof(bits));
}
void vh_nd_arr(void* p, size_t elsize, size_t count, const char* name) {
    size_t i; char buf[256];
    for (i = 0; i < count; i++) {
        unsigned long long bits = 0;
        snprintf(buf, sizeof buf, "%s[%lu]", name, (unsigned long)i);
        if (!vh_lookup(buf, &bits)) { snprintf(buf, sizeof buf, "%s[%lul]", name, (unsigned long)i);
            if (!vh_lookup(buf, &bits)) { snprintf(buf, sizeof buf, "%s[%luul]", name, (unsigned long)i); vh_lookup(buf, &bits); } }
        memset((char*)p + i * elsize, 0, elsize);
        memcpy((char*)p + i * elsize, &bits, elsize < sizeof(bits) ? elsize : sizeof(bits));
    }
}
#ifndef VH_ENTRY
#define VH_ENTRY harness
#endif
void VH_ENTRY(void);
int main(void) { setvbuf(stdout, 0, _IONBF, 0); VH_ENTRY(); return vh_failed ? 1 : 0; }
