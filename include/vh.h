/* Dual-mode harness vocabulary.
 *  - under CBMC (VERIF_CBMC): ND() declares a nondeterministic value, ASSUME/OBL/CANARY are
 *    __CPROVER_assume/assert.
 *  - natively (VERIF_NATIVE, used by counterexample replay): ND() fills the variable with the bits
 *    the counterexample assigned to the variable of that name, ASSUME aborts the replay if the
 *    counterexample does not satisfy it, OBL prints NATIVE-FAIL/NATIVE-OK.
 * The harness text, the spec functions and the code under test are the same in both modes. */
#ifndef VH_H
#define VH_H
#include <stddef.h>

struct vh_value { const char* name; unsigned long long bits; };

#ifdef VERIF_NATIVE
#include <stdio.h>
#include <stdlib.h>
#include <string.h>
extern const struct vh_value vh_values[];
extern int vh_failed;
void vh_nd(void* p, size_t n, const char* name);
void vh_nd_arr(void* p, size_t elsize, size_t count, const char* name);
#define ND(T, name) T name; vh_nd(&name, sizeof(name), #name)
#define ND_ARR(T, name, n) T name[n]; vh_nd_arr(name, sizeof(T), n, #name)
#define ND_INTO(lv, name) vh_nd(&(lv), sizeof(lv), name)
#define ASSUME(c) do { if (!(c)) { printf("NATIVE-ASSUME-FALSE %s\n", #c); exit(3); } } while (0)
#define OBL(c, name) do { if (!(c)) { printf("NATIVE-FAIL %s\n", name); vh_failed = 1; } else { printf("NATIVE-OK %s\n", name); } } while (0)
#define CANARY(name) do { printf("NATIVE-REACHED %s\n", name); } while (0)
#define VH_STOP() exit(vh_failed ? 1 : 0)
#else
#define ND(T, name) T name
/* element-wise copy from uninitialised (= nondeterministic) locals, so that the counterexample trace
 * contains one assignment per element (needed for native replay) */
#define ND_ARR(T, name, n) T name[n]; { unsigned long vh_i_; for (vh_i_ = 0; vh_i_ < (n); vh_i_++) { T vh_e_; name[vh_i_] = vh_e_; } }
#define ND_INTO(lv, name) do { } while (0)
#define ASSUME(c) __CPROVER_assume(c)
#define OBL(c, name) __CPROVER_assert(c, "OBL " name)
#define CANARY(name) __CPROVER_assert(0, "canary " name)
#define VH_STOP() __CPROVER_assume(0)
#endif

#endif
