/* The embedder's trap handler, as a checking stub.  The harness stores the specification's verdict
 * for the inputs at hand in g_spec_trap before calling the code under test; the handler then
 * discharges "entered only when the specification traps, with the specified code" and ends the
 * path (a real handler never returns).  "No specified trap is missed" is the obligation placed
 * after the call / in the ensures clause. */
#ifndef TRAPSTUB_H
#define TRAPSTUB_H
#include "vh.h"
#include "wasm_int.h"
int g_spec_trap = SPEC_NOTRAP;
void trap(Trap t) {
    OBL(g_spec_trap != SPEC_NOTRAP, "trap handler is entered only when the specification traps");
    OBL(g_spec_trap == SPEC_NOTRAP || SPEC_TRAP_MATCHES(g_spec_trap, t), "the reported trap kind is the specified one");
    CANARY("trap path reachable");
    VH_STOP();
#ifdef VERIF_NATIVE
    for (;;) { }
#endif
}
typedef union vh_pun32 { float f; unsigned int u; } vh_pun32;
typedef union vh_pun64 { double f; unsigned long long u; } vh_pun64;
static unsigned int vh_f32bits(float f) { vh_pun32 p; p.f = f; return p.u; }
static unsigned long long vh_f64bits(double f) { vh_pun64 p; p.f = f; return p.u; }
static float vh_bitsf32(unsigned int u) { vh_pun32 p; p.u = u; return p.f; }
static double vh_bitsf64(unsigned long long u) { vh_pun64 p; p.u = u; return p.f; }
#endif
