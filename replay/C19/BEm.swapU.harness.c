/* C19: byte-swap helpers of w2c2_base.h on the big-endian host model, and the translator's float
 * immediate readers of buffer.h */
#include "w2c2_base.h"
#include "buffer.h"
#include "vh.h"
#include "wasm_int.h"
#include "wasm_mem.h"
#include "trapstub.h"

static U64 rev(U64 v, int w) { U64 r = 0; int i; for (i = 0; i < w; i++) r |= ((v >> (8 * i)) & 0xFF) << (8 * (w - 1 - i)); return r; }

void h_swapU(void) {
    ND(U16, a); ND(U32, b); ND(U64, c);
    OBL((U16)swapU16(a) == (U16)rev(a, 2), "swapU16 reverses exactly 2 bytes");
    OBL((U32)swapU32(b) == (U32)rev(b, 4), "swapU32 reverses exactly 4 bytes");
    OBL((U64)swapU64(c) == rev(c, 8), "swapU64 reverses exactly 8 bytes");
    CANARY("swapU");
}
#define H_SWAP(sfx, T, W) void h_swap_##sfx(void) { ND_ARR(U8, b, sizeof(T)); U8 o[sizeof(T)]; T v; ND(U32, k); ASSUME(k < sizeof(T)); \
    memcpy(o, b, sizeof(T)); memcpy(&v, b, sizeof(T)); swap_##sfx(&v); memcpy(b, &v, sizeof(T)); \
    OBL(b[k] == (k < W ? o[W - 1 - k] : o[k]), "swap_" #sfx ": reverses exactly the first " #W " bytes of the object in place"); CANARY("swap_" #sfx); }
H_SWAP(s, short, 2) H_SWAP(S, unsigned short, 2) H_SWAP(i, int, 4) H_SWAP(I, unsigned int, 4)
H_SWAP(q, long long, 8) H_SWAP(Q, unsigned long long, 8) H_SWAP(f, float, 4) H_SWAP(d, double, 8)

void h_bufferReadF32(void) {
    ND_ARR(U8, bytes, 8); Buffer buf; I32 r; bool ok;
    buf.data = bytes; buf.length = 8;
    ok = bufferReadF32(&buf, &r);
    OBL(ok && (U32)r == (U32)spec_le_read(bytes, 0, 4), "bufferReadF32: the immediate is the little-endian value of the 4 bytes, whatever the host byte order");
    OBL(buf.data == bytes + 4 && buf.length == 4, "bufferReadF32: consumes exactly 4 bytes");
    CANARY("bufferReadF32");
}
void h_bufferReadF64(void) {
    ND_ARR(U8, bytes, 12); Buffer buf; I64 r; bool ok;
    buf.data = bytes; buf.length = 12;
    ok = bufferReadF64(&buf, &r);
    OBL(ok && (U64)r == spec_le_read(bytes, 0, 8), "bufferReadF64: the immediate is the little-endian value of the 8 bytes, whatever the host byte order");
    OBL(buf.data == bytes + 8 && buf.length == 4, "bufferReadF64: consumes exactly 8 bytes");
    CANARY("bufferReadF64");
}
