#include "w2c2_base.h"
#include "vh.h"
#include "wasm_int.h"
#include "trapstub.h"

U32 w_I32_CLZ(U32 a0) { return I32_CLZ(a0); }
#ifndef VERIF_NATIVE
U32 c_I32_CLZ(U32 a0)
  __CPROVER_requires(g_spec_trap == SPEC_NOTRAP)
  __CPROVER_ensures(g_spec_trap == SPEC_NOTRAP)
  __CPROVER_ensures(((__CPROVER_return_value) == (spec_i32_clz(a0))))
  __CPROVER_assigns();
#endif
void h_I32_CLZ(void) {
  ND(U32, a0);
  U32 r;
  g_spec_trap = SPEC_NOTRAP;
  r = w_I32_CLZ(a0);
#ifdef VERIF_NATIVE
  OBL(g_spec_trap == SPEC_NOTRAP, "I32_CLZ: returned normally only if the specification does not trap");
  OBL(((r) == (spec_i32_clz(a0))), "I32_CLZ: result equals the specified value");
#else
  (void)r;
#endif
  CANARY("I32_CLZ returns");
}
U32 w_I32_CTZ(U32 a0) { return I32_CTZ(a0); }
#ifndef VERIF_NATIVE
U32 c_I32_CTZ(U32 a0)
  __CPROVER_requires(g_spec_trap == SPEC_NOTRAP)
  __CPROVER_ensures(g_spec_trap == SPEC_NOTRAP)
  __CPROVER_ensures(((__CPROVER_return_value) == (spec_i32_ctz(a0))))
  __CPROVER_assigns();
#endif
void h_I32_CTZ(void) {
  ND(U32, a0);
  U32 r;
  g_spec_trap = SPEC_NOTRAP;
  r = w_I32_CTZ(a0);
#ifdef VERIF_NATIVE
  OBL(g_spec_trap == SPEC_NOTRAP, "I32_CTZ: returned normally only if the specification does not trap");
  OBL(((r) == (spec_i32_ctz(a0))), "I32_CTZ: result equals the specified value");
#else
  (void)r;
#endif
  CANARY("I32_CTZ returns");
}
U32 w_I32_POPCNT(U32 a0) { return I32_POPCNT(a0); }
#ifndef VERIF_NATIVE
U32 c_I32_POPCNT(U32 a0)
  __CPROVER_requires(g_spec_trap == SPEC_NOTRAP)
  __CPROVER_ensures(g_spec_trap == SPEC_NOTRAP)
  __CPROVER_ensures(((__CPROVER_return_value) == (spec_i32_popcnt(a0))))
  __CPROVER_assigns();
#endif
void h_I32_POPCNT(void) {
  ND(U32, a0);
  U32 r;
  g_spec_trap = SPEC_NOTRAP;
  r = w_I32_POPCNT(a0);
#ifdef VERIF_NATIVE
  OBL(g_spec_trap == SPEC_NOTRAP, "I32_POPCNT: returned normally only if the specification does not trap");
  OBL(((r) == (spec_i32_popcnt(a0))), "I32_POPCNT: result equals the specified value");
#else
  (void)r;
#endif
  CANARY("I32_POPCNT returns");
}
U64 w_I64_CLZ(U64 a0) { return I64_CLZ(a0); }
#ifndef VERIF_NATIVE
U64 c_I64_CLZ(U64 a0)
  __CPROVER_requires(g_spec_trap == SPEC_NOTRAP)
  __CPROVER_ensures(g_spec_trap == SPEC_NOTRAP)
  __CPROVER_ensures(((__CPROVER_return_value) == (spec_i64_clz(a0))))
  __CPROVER_assigns();
#endif
void h_I64_CLZ(void) {
  ND(U64, a0);
  U64 r;
  g_spec_trap = SPEC_NOTRAP;
  r = w_I64_CLZ(a0);
#ifdef VERIF_NATIVE
  OBL(g_spec_trap == SPEC_NOTRAP, "I64_CLZ: returned normally only if the specification does not trap");
  OBL(((r) == (spec_i64_clz(a0))), "I64_CLZ: result equals the specified value");
#else
  (void)r;
#endif
  CANARY("I64_CLZ returns");
}
U64 w_I64_CTZ(U64 a0) { return I64_CTZ(a0); }
#ifndef VERIF_NATIVE
U64 c_I64_CTZ(U64 a0)
  __CPROVER_requires(g_spec_trap == SPEC_NOTRAP)
  __CPROVER_ensures(g_spec_trap == SPEC_NOTRAP)
  __CPROVER_ensures(((__CPROVER_return_value) == (spec_i64_ctz(a0))))
  __CPROVER_assigns();
#endif
void h_I64_CTZ(void) {
  ND(U64, a0);
  U64 r;
  g_spec_trap = SPEC_NOTRAP;
  r = w_I64_CTZ(a0);
#ifdef VERIF_NATIVE
  OBL(g_spec_trap == SPEC_NOTRAP, "I64_CTZ: returned normally only if the specification does not trap");
  OBL(((r) == (spec_i64_ctz(a0))), "I64_CTZ: result equals the specified value");
#else
  (void)r;
#endif
  CANARY("I64_CTZ returns");
}
U64 w_I64_POPCNT(U64 a0) { return I64_POPCNT(a0); }
#ifndef VERIF_NATIVE
U64 c_I64_POPCNT(U64 a0)
  __CPROVER_requires(g_spec_trap == SPEC_NOTRAP)
  __CPROVER_ensures(g_spec_trap == SPEC_NOTRAP)
  __CPROVER_ensures(((__CPROVER_return_value) == (spec_i64_popcnt(a0))))
  __CPROVER_assigns();
#endif
void h_I64_POPCNT(void) {
  ND(U64, a0);
  U64 r;
  g_spec_trap = SPEC_NOTRAP;
  r = w_I64_POPCNT(a0);
#ifdef VERIF_NATIVE
  OBL(g_spec_trap == SPEC_NOTRAP, "I64_POPCNT: returned normally only if the specification does not trap");
  OBL(((r) == (spec_i64_popcnt(a0))), "I64_POPCNT: result equals the specified value");
#else
  (void)r;
#endif
  CANARY("I64_POPCNT returns");
}
