#include "w2c2_base.h"
#include "vh.h"
#include "wasm_int.h"
#include "trapstub.h"

U32 w_I32_DIV_S(U32 a0, U32 a1) { return I32_DIV_S(a0, a1); }
#ifndef VERIF_NATIVE
U32 c_I32_DIV_S(U32 a0, U32 a1)
  __CPROVER_requires(g_spec_trap == spec_div_s_trap32(a0, a1))
  __CPROVER_ensures(g_spec_trap == SPEC_NOTRAP)
  __CPROVER_ensures(((__CPROVER_return_value) == (spec_i32_div_s(a0, a1))))
  __CPROVER_assigns();
#endif
void h_I32_DIV_S(void) {
  ND(U32, a0);
  ND(U32, a1);
  U32 r;
  g_spec_trap = spec_div_s_trap32(a0, a1);
  r = w_I32_DIV_S(a0, a1);
#ifdef VERIF_NATIVE
  OBL(g_spec_trap == SPEC_NOTRAP, "I32_DIV_S: returned normally only if the specification does not trap");
  OBL(((r) == (spec_i32_div_s(a0, a1))), "I32_DIV_S: result equals the specified value");
#else
  (void)r;
#endif
  CANARY("I32_DIV_S returns");
}
U32 w_I32_REM_S(U32 a0, U32 a1) { return I32_REM_S(a0, a1); }
#ifndef VERIF_NATIVE
U32 c_I32_REM_S(U32 a0, U32 a1)
  __CPROVER_requires(g_spec_trap == spec_rem_s_trap32(a0, a1))
  __CPROVER_ensures(g_spec_trap == SPEC_NOTRAP)
  __CPROVER_ensures(((__CPROVER_return_value) == (spec_i32_rem_s(a0, a1))))
  __CPROVER_assigns();
#endif
void h_I32_REM_S(void) {
  ND(U32, a0);
  ND(U32, a1);
  U32 r;
  g_spec_trap = spec_rem_s_trap32(a0, a1);
  r = w_I32_REM_S(a0, a1);
#ifdef VERIF_NATIVE
  OBL(g_spec_trap == SPEC_NOTRAP, "I32_REM_S: returned normally only if the specification does not trap");
  OBL(((r) == (spec_i32_rem_s(a0, a1))), "I32_REM_S: result equals the specified value");
#else
  (void)r;
#endif
  CANARY("I32_REM_S returns");
}
U32 w_DIV_U_32(U32 a0, U32 a1) { return DIV_U(a0, a1); }
#ifndef VERIF_NATIVE
U32 c_DIV_U_32(U32 a0, U32 a1)
  __CPROVER_requires(g_spec_trap == spec_divrem_u_trap32(a0, a1))
  __CPROVER_ensures(g_spec_trap == SPEC_NOTRAP)
  __CPROVER_ensures(((__CPROVER_return_value) == (spec_i32_div_u(a0, a1))))
  __CPROVER_assigns();
#endif
void h_DIV_U_32(void) {
  ND(U32, a0);
  ND(U32, a1);
  U32 r;
  g_spec_trap = spec_divrem_u_trap32(a0, a1);
  r = w_DIV_U_32(a0, a1);
#ifdef VERIF_NATIVE
  OBL(g_spec_trap == SPEC_NOTRAP, "DIV_U_32: returned normally only if the specification does not trap");
  OBL(((r) == (spec_i32_div_u(a0, a1))), "DIV_U_32: result equals the specified value");
#else
  (void)r;
#endif
  CANARY("DIV_U_32 returns");
}
U32 w_REM_U_32(U32 a0, U32 a1) { return REM_U(a0, a1); }
#ifndef VERIF_NATIVE
U32 c_REM_U_32(U32 a0, U32 a1)
  __CPROVER_requires(g_spec_trap == spec_divrem_u_trap32(a0, a1))
  __CPROVER_ensures(g_spec_trap == SPEC_NOTRAP)
  __CPROVER_ensures(((__CPROVER_return_value) == (spec_i32_rem_u(a0, a1))))
  __CPROVER_assigns();
#endif
void h_REM_U_32(void) {
  ND(U32, a0);
  ND(U32, a1);
  U32 r;
  g_spec_trap = spec_divrem_u_trap32(a0, a1);
  r = w_REM_U_32(a0, a1);
#ifdef VERIF_NATIVE
  OBL(g_spec_trap == SPEC_NOTRAP, "REM_U_32: returned normally only if the specification does not trap");
  OBL(((r) == (spec_i32_rem_u(a0, a1))), "REM_U_32: result equals the specified value");
#else
  (void)r;
#endif
  CANARY("REM_U_32 returns");
}
U32 w_I32_ROTL(U32 a0, U32 a1) { return I32_ROTL(a0, a1); }
#ifndef VERIF_NATIVE
U32 c_I32_ROTL(U32 a0, U32 a1)
  __CPROVER_requires(g_spec_trap == SPEC_NOTRAP)
  __CPROVER_ensures(g_spec_trap == SPEC_NOTRAP)
  __CPROVER_ensures(((__CPROVER_return_value) == (spec_i32_rotl(a0, a1))))
  __CPROVER_assigns();
#endif
void h_I32_ROTL(void) {
  ND(U32, a0);
  ND(U32, a1);
  U32 r;
  g_spec_trap = SPEC_NOTRAP;
  r = w_I32_ROTL(a0, a1);
#ifdef VERIF_NATIVE
  OBL(g_spec_trap == SPEC_NOTRAP, "I32_ROTL: returned normally only if the specification does not trap");
  OBL(((r) == (spec_i32_rotl(a0, a1))), "I32_ROTL: result equals the specified value");
#else
  (void)r;
#endif
  CANARY("I32_ROTL returns");
}
U32 w_I32_ROTR(U32 a0, U32 a1) { return I32_ROTR(a0, a1); }
#ifndef VERIF_NATIVE
U32 c_I32_ROTR(U32 a0, U32 a1)
  __CPROVER_requires(g_spec_trap == SPEC_NOTRAP)
  __CPROVER_ensures(g_spec_trap == SPEC_NOTRAP)
  __CPROVER_ensures(((__CPROVER_return_value) == (spec_i32_rotr(a0, a1))))
  __CPROVER_assigns();
#endif
void h_I32_ROTR(void) {
  ND(U32, a0);
  ND(U32, a1);
  U32 r;
  g_spec_trap = SPEC_NOTRAP;
  r = w_I32_ROTR(a0, a1);
#ifdef VERIF_NATIVE
  OBL(g_spec_trap == SPEC_NOTRAP, "I32_ROTR: returned normally only if the specification does not trap");
  OBL(((r) == (spec_i32_rotr(a0, a1))), "I32_ROTR: result equals the specified value");
#else
  (void)r;
#endif
  CANARY("I32_ROTR returns");
}
U32 w_I32_CLZ(U32 a0) { return I32_CLZ(a0); }
#ifndef VERIF_NATIVE
U32 c_I32_CLZ(U32 a0)
  __CPROVER_requires(g_spec_trap == SPEC_NOTRAP)
  __CPROVER_ensures(g_spec_trap == SPEC_NOTRAP)
  __CPROVER_ensures(((__CPROVER_return_value) == (spec_i32_clz(a0))))
  __CPROVER_assigns();
#endif
void h_I32_CLZ(void) {
  ND(U32, a0);
  U32 r;
  g_spec_trap = SPEC_NOTRAP;
  r = w_I32_CLZ(a0);
#ifdef VERIF_NATIVE
  OBL(g_spec_trap == SPEC_NOTRAP, "I32_CLZ: returned normally only if the specification does not trap");
  OBL(((r) == (spec_i32_clz(a0))), "I32_CLZ: result equals the specified value");
#else
  (void)r;
#endif
  CANARY("I32_CLZ returns");
}
U32 w_I32_CTZ(U32 a0) { return I32_CTZ(a0); }
#ifndef VERIF_NATIVE
U32 c_I32_CTZ(U32 a0)
  __CPROVER_requires(g_spec_trap == SPEC_NOTRAP)
  __CPROVER_ensures(g_spec_trap == SPEC_NOTRAP)
  __CPROVER_ensures(((__CPROVER_return_value) == (spec_i32_ctz(a0))))
  __CPROVER_assigns();
#endif
void h_I32_CTZ(void) {
  ND(U32, a0);
  U32 r;
  g_spec_trap = SPEC_NOTRAP;
  r = w_I32_CTZ(a0);
#ifdef VERIF_NATIVE
  OBL(g_spec_trap == SPEC_NOTRAP, "I32_CTZ: returned normally only if the specification does not trap");
  OBL(((r) == (spec_i32_ctz(a0))), "I32_CTZ: result equals the specified value");
#else
  (void)r;
#endif
  CANARY("I32_CTZ returns");
}
U32 w_I32_POPCNT(U32 a0) { return I32_POPCNT(a0); }
#ifndef VERIF_NATIVE
U32 c_I32_POPCNT(U32 a0)
  __CPROVER_requires(g_spec_trap == SPEC_NOTRAP)
  __CPROVER_ensures(g_spec_trap == SPEC_NOTRAP)
  __CPROVER_ensures(((__CPROVER_return_value) == (spec_i32_popcnt(a0))))
  __CPROVER_assigns();
#endif
void h_I32_POPCNT(void) {
  ND(U32, a0);
  U32 r;
  g_spec_trap = SPEC_NOTRAP;
  r = w_I32_POPCNT(a0);
#ifdef VERIF_NATIVE
  OBL(g_spec_trap == SPEC_NOTRAP, "I32_POPCNT: returned normally only if the specification does not trap");
  OBL(((r) == (spec_i32_popcnt(a0))), "I32_POPCNT: result equals the specified value");
#else
  (void)r;
#endif
  CANARY("I32_POPCNT returns");
}
U64 w_I64_DIV_S(U64 a0, U64 a1) { return I64_DIV_S(a0, a1); }
#ifndef VERIF_NATIVE
U64 c_I64_DIV_S(U64 a0, U64 a1)
  __CPROVER_requires(g_spec_trap == spec_div_s_trap64(a0, a1))
  __CPROVER_ensures(g_spec_trap == SPEC_NOTRAP)
  __CPROVER_ensures(((__CPROVER_return_value) == (spec_i64_div_s(a0, a1))))
  __CPROVER_assigns();
#endif
void h_I64_DIV_S(void) {
  ND(U64, a0);
  ND(U64, a1);
  U64 r;
  g_spec_trap = spec_div_s_trap64(a0, a1);
  r = w_I64_DIV_S(a0, a1);
#ifdef VERIF_NATIVE
  OBL(g_spec_trap == SPEC_NOTRAP, "I64_DIV_S: returned normally only if the specification does not trap");
  OBL(((r) == (spec_i64_div_s(a0, a1))), "I64_DIV_S: result equals the specified value");
#else
  (void)r;
#endif
  CANARY("I64_DIV_S returns");
}
U64 w_I64_REM_S(U64 a0, U64 a1) { return I64_REM_S(a0, a1); }
#ifndef VERIF_NATIVE
U64 c_I64_REM_S(U64 a0, U64 a1)
  __CPROVER_requires(g_spec_trap == spec_rem_s_trap64(a0, a1))
  __CPROVER_ensures(g_spec_trap == SPEC_NOTRAP)
  __CPROVER_ensures(((__CPROVER_return_value) == (spec_i64_rem_s(a0, a1))))
  __CPROVER_assigns();
#endif
void h_I64_REM_S(void) {
  ND(U64, a0);
  ND(U64, a1);
  U64 r;
  g_spec_trap = spec_rem_s_trap64(a0, a1);
  r = w_I64_REM_S(a0, a1);
#ifdef VERIF_NATIVE
  OBL(g_spec_trap == SPEC_NOTRAP, "I64_REM_S: returned normally only if the specification does not trap");
  OBL(((r) == (spec_i64_rem_s(a0, a1))), "I64_REM_S: result equals the specified value");
#else
  (void)r;
#endif
  CANARY("I64_REM_S returns");
}
U64 w_DIV_U_64(U64 a0, U64 a1) { return DIV_U(a0, a1); }
#ifndef VERIF_NATIVE
U64 c_DIV_U_64(U64 a0, U64 a1)
  __CPROVER_requires(g_spec_trap == spec_divrem_u_trap64(a0, a1))
  __CPROVER_ensures(g_spec_trap == SPEC_NOTRAP)
  __CPROVER_ensures(((__CPROVER_return_value) == (spec_i64_div_u(a0, a1))))
  __CPROVER_assigns();
#endif
void h_DIV_U_64(void) {
  ND(U64, a0);
  ND(U64, a1);
  U64 r;
  g_spec_trap = spec_divrem_u_trap64(a0, a1);
  r = w_DIV_U_64(a0, a1);
#ifdef VERIF_NATIVE
  OBL(g_spec_trap == SPEC_NOTRAP, "DIV_U_64: returned normally only if the specification does not trap");
  OBL(((r) == (spec_i64_div_u(a0, a1))), "DIV_U_64: result equals the specified value");
#else
  (void)r;
#endif
  CANARY("DIV_U_64 returns");
}
U64 w_REM_U_64(U64 a0, U64 a1) { return REM_U(a0, a1); }
#ifndef VERIF_NATIVE
U64 c_REM_U_64(U64 a0, U64 a1)
  __CPROVER_requires(g_spec_trap == spec_divrem_u_trap64(a0, a1))
  __CPROVER_ensures(g_spec_trap == SPEC_NOTRAP)
  __CPROVER_ensures(((__CPROVER_return_value) == (spec_i64_rem_u(a0, a1))))
  __CPROVER_assigns();
#endif
void h_REM_U_64(void) {
  ND(U64, a0);
  ND(U64, a1);
  U64 r;
  g_spec_trap = spec_divrem_u_trap64(a0, a1);
  r = w_REM_U_64(a0, a1);
#ifdef VERIF_NATIVE
  OBL(g_spec_trap == SPEC_NOTRAP, "REM_U_64: returned normally only if the specification does not trap");
  OBL(((r) == (spec_i64_rem_u(a0, a1))), "REM_U_64: result equals the specified value");
#else
  (void)r;
#endif
  CANARY("REM_U_64 returns");
}
U64 w_I64_ROTL(U64 a0, U64 a1) { return I64_ROTL(a0, a1); }
#ifndef VERIF_NATIVE
U64 c_I64_ROTL(U64 a0, U64 a1)
  __CPROVER_requires(g_spec_trap == SPEC_NOTRAP)
  __CPROVER_ensures(g_spec_trap == SPEC_NOTRAP)
  __CPROVER_ensures(((__CPROVER_return_value) == (spec_i64_rotl(a0, a1))))
  __CPROVER_assigns();
#endif
void h_I64_ROTL(void) {
  ND(U64, a0);
  ND(U64, a1);
  U64 r;
  g_spec_trap = SPEC_NOTRAP;
  r = w_I64_ROTL(a0, a1);
#ifdef VERIF_NATIVE
  OBL(g_spec_trap == SPEC_NOTRAP, "I64_ROTL: returned normally only if the specification does not trap");
  OBL(((r) == (spec_i64_rotl(a0, a1))), "I64_ROTL: result equals the specified value");
#else
  (void)r;
#endif
  CANARY("I64_ROTL returns");
}
U64 w_I64_ROTR(U64 a0, U64 a1) { return I64_ROTR(a0, a1); }
#ifndef VERIF_NATIVE
U64 c_I64_ROTR(U64 a0, U64 a1)
  __CPROVER_requires(g_spec_trap == SPEC_NOTRAP)
  __CPROVER_ensures(g_spec_trap == SPEC_NOTRAP)
  __CPROVER_ensures(((__CPROVER_return_value) == (spec_i64_rotr(a0, a1))))
  __CPROVER_assigns();
#endif
void h_I64_ROTR(void) {
  ND(U64, a0);
  ND(U64, a1);
  U64 r;
  g_spec_trap = SPEC_NOTRAP;
  r = w_I64_ROTR(a0, a1);
#ifdef VERIF_NATIVE
  OBL(g_spec_trap == SPEC_NOTRAP, "I64_ROTR: returned normally only if the specification does not trap");
  OBL(((r) == (spec_i64_rotr(a0, a1))), "I64_ROTR: result equals the specified value");
#else
  (void)r;
#endif
  CANARY("I64_ROTR returns");
}
U64 w_I64_CLZ(U64 a0) { return I64_CLZ(a0); }
#ifndef VERIF_NATIVE
U64 c_I64_CLZ(U64 a0)
  __CPROVER_requires(g_spec_trap == SPEC_NOTRAP)
  __CPROVER_ensures(g_spec_trap == SPEC_NOTRAP)
  __CPROVER_ensures(((__CPROVER_return_value) == (spec_i64_clz(a0))))
  __CPROVER_assigns();
#endif
void h_I64_CLZ(void) {
  ND(U64, a0);
  U64 r;
  g_spec_trap = SPEC_NOTRAP;
  r = w_I64_CLZ(a0);
#ifdef VERIF_NATIVE
  OBL(g_spec_trap == SPEC_NOTRAP, "I64_CLZ: returned normally only if the specification does not trap");
  OBL(((r) == (spec_i64_clz(a0))), "I64_CLZ: result equals the specified value");
#else
  (void)r;
#endif
  CANARY("I64_CLZ returns");
}
U64 w_I64_CTZ(U64 a0) { return I64_CTZ(a0); }
#ifndef VERIF_NATIVE
U64 c_I64_CTZ(U64 a0)
  __CPROVER_requires(g_spec_trap == SPEC_NOTRAP)
  __CPROVER_ensures(g_spec_trap == SPEC_NOTRAP)
  __CPROVER_ensures(((__CPROVER_return_value) == (spec_i64_ctz(a0))))
  __CPROVER_assigns();
#endif
void h_I64_CTZ(void) {
  ND(U64, a0);
  U64 r;
  g_spec_trap = SPEC_NOTRAP;
  r = w_I64_CTZ(a0);
#ifdef VERIF_NATIVE
  OBL(g_spec_trap == SPEC_NOTRAP, "I64_CTZ: returned normally only if the specification does not trap");
  OBL(((r) == (spec_i64_ctz(a0))), "I64_CTZ: result equals the specified value");
#else
  (void)r;
#endif
  CANARY("I64_CTZ returns");
}
U64 w_I64_POPCNT(U64 a0) { return I64_POPCNT(a0); }
#ifndef VERIF_NATIVE
U64 c_I64_POPCNT(U64 a0)
  __CPROVER_requires(g_spec_trap == SPEC_NOTRAP)
  __CPROVER_ensures(g_spec_trap == SPEC_NOTRAP)
  __CPROVER_ensures(((__CPROVER_return_value) == (spec_i64_popcnt(a0))))
  __CPROVER_assigns();
#endif
void h_I64_POPCNT(void) {
  ND(U64, a0);
  U64 r;
  g_spec_trap = SPEC_NOTRAP;
  r = w_I64_POPCNT(a0);
#ifdef VERIF_NATIVE
  OBL(g_spec_trap == SPEC_NOTRAP, "I64_POPCNT: returned normally only if the specification does not trap");
  OBL(((r) == (spec_i64_popcnt(a0))), "I64_POPCNT: result equals the specified value");
#else
  (void)r;
#endif
  CANARY("I64_POPCNT returns");
}
