#include "vh.h"
#include "c01int.c"
#include "wasm_int.h"
#include "libm_markers.h"
#include "trapstub.h"
static c01intInstance inst;
void h_i32addc0(void) {
  ND(U32, a0);
  ND(U32, a1);
  U32 r;
  g_libm_calls = 0;
  g_spec_trap = SPEC_NOTRAP;
  r = c01int_i32addc0(&inst, a0, a1);
  OBL(g_spec_trap == SPEC_NOTRAP, "i32addc0: returned normally only if the specification does not trap");
  OBL(((r) == (spec_i32_add(a0, a1))), "i32addc0: result equals the specified value");
  OBL(g_libm_calls == 0, "i32addc0: no library call is involved");
  CANARY("i32addc0 returns");
}
void h_i32addc1(void) {
  ND(U32, a0);
  ND(U32, a1);
  ND(U64, a2);
  ND(F32, a3);
  U32 r;
  g_libm_calls = 0;
  g_spec_trap = SPEC_NOTRAP;
  r = c01int_i32addc1(&inst, a0, a1, a2, a3);
  OBL(g_spec_trap == SPEC_NOTRAP, "i32addc1: returned normally only if the specification does not trap");
  OBL(((r) == (spec_i32_add(a0, a1))), "i32addc1: result equals the specified value");
  OBL(((inst.g1) == (a2)), "i32addc1: value two below the operands survives");
  OBL((vh_f32bits(inst.g2) == vh_f32bits(a3)), "i32addc1: value directly below the operands survives");
  OBL(g_libm_calls == 0, "i32addc1: no library call is involved");
  CANARY("i32addc1 returns");
}
void h_i32addc2(void) {
  ND(U32, a0);
  ND(U32, a1);
  ND(U32, a2);
  U32 r;
  g_libm_calls = 0;
  g_spec_trap = SPEC_NOTRAP;
  r = c01int_i32addc2(&inst, a0, a1, a2);
  OBL(g_spec_trap == SPEC_NOTRAP, "i32addc2: returned normally only if the specification does not trap");
  OBL(((r) == ((a2 ^ spec_i32_add(a0, a1)))), "i32addc2: result equals the specified value");
  OBL(g_libm_calls == 0, "i32addc2: no library call is involved");
  CANARY("i32addc2 returns");
}
void h_i32subc0(void) {
  ND(U32, a0);
  ND(U32, a1);
  U32 r;
  g_libm_calls = 0;
  g_spec_trap = SPEC_NOTRAP;
  r = c01int_i32subc0(&inst, a0, a1);
  OBL(g_spec_trap == SPEC_NOTRAP, "i32subc0: returned normally only if the specification does not trap");
  OBL(((r) == (spec_i32_sub(a0, a1))), "i32subc0: result equals the specified value");
  OBL(g_libm_calls == 0, "i32subc0: no library call is involved");
  CANARY("i32subc0 returns");
}
void h_i32subc1(void) {
  ND(U32, a0);
  ND(U32, a1);
  ND(U64, a2);
  ND(F32, a3);
  U32 r;
  g_libm_calls = 0;
  g_spec_trap = SPEC_NOTRAP;
  r = c01int_i32subc1(&inst, a0, a1, a2, a3);
  OBL(g_spec_trap == SPEC_NOTRAP, "i32subc1: returned normally only if the specification does not trap");
  OBL(((r) == (spec_i32_sub(a0, a1))), "i32subc1: result equals the specified value");
  OBL(((inst.g1) == (a2)), "i32subc1: value two below the operands survives");
  OBL((vh_f32bits(inst.g2) == vh_f32bits(a3)), "i32subc1: value directly below the operands survives");
  OBL(g_libm_calls == 0, "i32subc1: no library call is involved");
  CANARY("i32subc1 returns");
}
void h_i32subc2(void) {
  ND(U32, a0);
  ND(U32, a1);
  ND(U32, a2);
  U32 r;
  g_libm_calls = 0;
  g_spec_trap = SPEC_NOTRAP;
  r = c01int_i32subc2(&inst, a0, a1, a2);
  OBL(g_spec_trap == SPEC_NOTRAP, "i32subc2: returned normally only if the specification does not trap");
  OBL(((r) == ((a2 ^ spec_i32_sub(a0, a1)))), "i32subc2: result equals the specified value");
  OBL(g_libm_calls == 0, "i32subc2: no library call is involved");
  CANARY("i32subc2 returns");
}
void h_i32mulc0(void) {
  ND(U32, a0);
  ND(U32, a1);
  U32 r;
  g_libm_calls = 0;
  g_spec_trap = SPEC_NOTRAP;
  r = c01int_i32mulc0(&inst, a0, a1);
  OBL(g_spec_trap == SPEC_NOTRAP, "i32mulc0: returned normally only if the specification does not trap");
  OBL(((r) == (spec_i32_mul(a0, a1))), "i32mulc0: result equals the specified value");
  OBL(g_libm_calls == 0, "i32mulc0: no library call is involved");
  CANARY("i32mulc0 returns");
}
void h_i32mulc1(void) {
  ND(U32, a0);
  ND(U32, a1);
  ND(U64, a2);
  ND(F32, a3);
  U32 r;
  g_libm_calls = 0;
  g_spec_trap = SPEC_NOTRAP;
  r = c01int_i32mulc1(&inst, a0, a1, a2, a3);
  OBL(g_spec_trap == SPEC_NOTRAP, "i32mulc1: returned normally only if the specification does not trap");
  OBL(((r) == (spec_i32_mul(a0, a1))), "i32mulc1: result equals the specified value");
  OBL(((inst.g1) == (a2)), "i32mulc1: value two below the operands survives");
  OBL((vh_f32bits(inst.g2) == vh_f32bits(a3)), "i32mulc1: value directly below the operands survives");
  OBL(g_libm_calls == 0, "i32mulc1: no library call is involved");
  CANARY("i32mulc1 returns");
}
void h_i32mulc2(void) {
  ND(U32, a0);
  ND(U32, a1);
  ND(U32, a2);
  U32 r;
  g_libm_calls = 0;
  g_spec_trap = SPEC_NOTRAP;
  r = c01int_i32mulc2(&inst, a0, a1, a2);
  OBL(g_spec_trap == SPEC_NOTRAP, "i32mulc2: returned normally only if the specification does not trap");
  OBL(((r) == ((a2 ^ spec_i32_mul(a0, a1)))), "i32mulc2: result equals the specified value");
  OBL(g_libm_calls == 0, "i32mulc2: no library call is involved");
  CANARY("i32mulc2 returns");
}
void h_i32andc0(void) {
  ND(U32, a0);
  ND(U32, a1);
  U32 r;
  g_libm_calls = 0;
  g_spec_trap = SPEC_NOTRAP;
  r = c01int_i32andc0(&inst, a0, a1);
  OBL(g_spec_trap == SPEC_NOTRAP, "i32andc0: returned normally only if the specification does not trap");
  OBL(((r) == (spec_i32_and(a0, a1))), "i32andc0: result equals the specified value");
  OBL(g_libm_calls == 0, "i32andc0: no library call is involved");
  CANARY("i32andc0 returns");
}
void h_i32andc1(void) {
  ND(U32, a0);
  ND(U32, a1);
  ND(U64, a2);
  ND(F32, a3);
  U32 r;
  g_libm_calls = 0;
  g_spec_trap = SPEC_NOTRAP;
  r = c01int_i32andc1(&inst, a0, a1, a2, a3);
  OBL(g_spec_trap == SPEC_NOTRAP, "i32andc1: returned normally only if the specification does not trap");
  OBL(((r) == (spec_i32_and(a0, a1))), "i32andc1: result equals the specified value");
  OBL(((inst.g1) == (a2)), "i32andc1: value two below the operands survives");
  OBL((vh_f32bits(inst.g2) == vh_f32bits(a3)), "i32andc1: value directly below the operands survives");
  OBL(g_libm_calls == 0, "i32andc1: no library call is involved");
  CANARY("i32andc1 returns");
}
void h_i32andc2(void) {
  ND(U32, a0);
  ND(U32, a1);
  ND(U32, a2);
  U32 r;
  g_libm_calls = 0;
  g_spec_trap = SPEC_NOTRAP;
  r = c01int_i32andc2(&inst, a0, a1, a2);
  OBL(g_spec_trap == SPEC_NOTRAP, "i32andc2: returned normally only if the specification does not trap");
  OBL(((r) == ((a2 ^ spec_i32_and(a0, a1)))), "i32andc2: result equals the specified value");
  OBL(g_libm_calls == 0, "i32andc2: no library call is involved");
  CANARY("i32andc2 returns");
}
void h_i32orc0(void) {
  ND(U32, a0);
  ND(U32, a1);
  U32 r;
  g_libm_calls = 0;
  g_spec_trap = SPEC_NOTRAP;
  r = c01int_i32orc0(&inst, a0, a1);
  OBL(g_spec_trap == SPEC_NOTRAP, "i32orc0: returned normally only if the specification does not trap");
  OBL(((r) == (spec_i32_or(a0, a1))), "i32orc0: result equals the specified value");
  OBL(g_libm_calls == 0, "i32orc0: no library call is involved");
  CANARY("i32orc0 returns");
}
void h_i32orc1(void) {
  ND(U32, a0);
  ND(U32, a1);
  ND(U64, a2);
  ND(F32, a3);
  U32 r;
  g_libm_calls = 0;
  g_spec_trap = SPEC_NOTRAP;
  r = c01int_i32orc1(&inst, a0, a1, a2, a3);
  OBL(g_spec_trap == SPEC_NOTRAP, "i32orc1: returned normally only if the specification does not trap");
  OBL(((r) == (spec_i32_or(a0, a1))), "i32orc1: result equals the specified value");
  OBL(((inst.g1) == (a2)), "i32orc1: value two below the operands survives");
  OBL((vh_f32bits(inst.g2) == vh_f32bits(a3)), "i32orc1: value directly below the operands survives");
  OBL(g_libm_calls == 0, "i32orc1: no library call is involved");
  CANARY("i32orc1 returns");
}
void h_i32orc2(void) {
  ND(U32, a0);
  ND(U32, a1);
  ND(U32, a2);
  U32 r;
  g_libm_calls = 0;
  g_spec_trap = SPEC_NOTRAP;
  r = c01int_i32orc2(&inst, a0, a1, a2);
  OBL(g_spec_trap == SPEC_NOTRAP, "i32orc2: returned normally only if the specification does not trap");
  OBL(((r) == ((a2 ^ spec_i32_or(a0, a1)))), "i32orc2: result equals the specified value");
  OBL(g_libm_calls == 0, "i32orc2: no library call is involved");
  CANARY("i32orc2 returns");
}
void h_i32xorc0(void) {
  ND(U32, a0);
  ND(U32, a1);
  U32 r;
  g_libm_calls = 0;
  g_spec_trap = SPEC_NOTRAP;
  r = c01int_i32xorc0(&inst, a0, a1);
  OBL(g_spec_trap == SPEC_NOTRAP, "i32xorc0: returned normally only if the specification does not trap");
  OBL(((r) == (spec_i32_xor(a0, a1))), "i32xorc0: result equals the specified value");
  OBL(g_libm_calls == 0, "i32xorc0: no library call is involved");
  CANARY("i32xorc0 returns");
}
void h_i32xorc1(void) {
  ND(U32, a0);
  ND(U32, a1);
  ND(U64, a2);
  ND(F32, a3);
  U32 r;
  g_libm_calls = 0;
  g_spec_trap = SPEC_NOTRAP;
  r = c01int_i32xorc1(&inst, a0, a1, a2, a3);
  OBL(g_spec_trap == SPEC_NOTRAP, "i32xorc1: returned normally only if the specification does not trap");
  OBL(((r) == (spec_i32_xor(a0, a1))), "i32xorc1: result equals the specified value");
  OBL(((inst.g1) == (a2)), "i32xorc1: value two below the operands survives");
  OBL((vh_f32bits(inst.g2) == vh_f32bits(a3)), "i32xorc1: value directly below the operands survives");
  OBL(g_libm_calls == 0, "i32xorc1: no library call is involved");
  CANARY("i32xorc1 returns");
}
void h_i32xorc2(void) {
  ND(U32, a0);
  ND(U32, a1);
  ND(U32, a2);
  U32 r;
  g_libm_calls = 0;
  g_spec_trap = SPEC_NOTRAP;
  r = c01int_i32xorc2(&inst, a0, a1, a2);
  OBL(g_spec_trap == SPEC_NOTRAP, "i32xorc2: returned normally only if the specification does not trap");
  OBL(((r) == ((a2 ^ spec_i32_xor(a0, a1)))), "i32xorc2: result equals the specified value");
  OBL(g_libm_calls == 0, "i32xorc2: no library call is involved");
  CANARY("i32xorc2 returns");
}
void h_i32shlc0(void) {
  ND(U32, a0);
  ND(U32, a1);
  U32 r;
  g_libm_calls = 0;
  g_spec_trap = SPEC_NOTRAP;
  r = c01int_i32shlc0(&inst, a0, a1);
  OBL(g_spec_trap == SPEC_NOTRAP, "i32shlc0: returned normally only if the specification does not trap");
  OBL(((r) == (spec_i32_shl(a0, a1))), "i32shlc0: result equals the specified value");
  OBL(g_libm_calls == 0, "i32shlc0: no library call is involved");
  CANARY("i32shlc0 returns");
}
void h_i32shlc1(void) {
  ND(U32, a0);
  ND(U32, a1);
  ND(U64, a2);
  ND(F32, a3);
  U32 r;
  g_libm_calls = 0;
  g_spec_trap = SPEC_NOTRAP;
  r = c01int_i32shlc1(&inst, a0, a1, a2, a3);
  OBL(g_spec_trap == SPEC_NOTRAP, "i32shlc1: returned normally only if the specification does not trap");
  OBL(((r) == (spec_i32_shl(a0, a1))), "i32shlc1: result equals the specified value");
  OBL(((inst.g1) == (a2)), "i32shlc1: value two below the operands survives");
  OBL((vh_f32bits(inst.g2) == vh_f32bits(a3)), "i32shlc1: value directly below the operands survives");
  OBL(g_libm_calls == 0, "i32shlc1: no library call is involved");
  CANARY("i32shlc1 returns");
}
void h_i32shlc2(void) {
  ND(U32, a0);
  ND(U32, a1);
  ND(U32, a2);
  U32 r;
  g_libm_calls = 0;
  g_spec_trap = SPEC_NOTRAP;
  r = c01int_i32shlc2(&inst, a0, a1, a2);
  OBL(g_spec_trap == SPEC_NOTRAP, "i32shlc2: returned normally only if the specification does not trap");
  OBL(((r) == ((a2 ^ spec_i32_shl(a0, a1)))), "i32shlc2: result equals the specified value");
  OBL(g_libm_calls == 0, "i32shlc2: no library call is involved");
  CANARY("i32shlc2 returns");
}
void h_i32shrsc0(void) {
  ND(U32, a0);
  ND(U32, a1);
  U32 r;
  g_libm_calls = 0;
  g_spec_trap = SPEC_NOTRAP;
  r = c01int_i32shrsc0(&inst, a0, a1);
  OBL(g_spec_trap == SPEC_NOTRAP, "i32shrsc0: returned normally only if the specification does not trap");
  OBL(((r) == (spec_i32_shr_s(a0, a1))), "i32shrsc0: result equals the specified value");
  OBL(g_libm_calls == 0, "i32shrsc0: no library call is involved");
  CANARY("i32shrsc0 returns");
}
void h_i32shrsc1(void) {
  ND(U32, a0);
  ND(U32, a1);
  ND(U64, a2);
  ND(F32, a3);
  U32 r;
  g_libm_calls = 0;
  g_spec_trap = SPEC_NOTRAP;
  r = c01int_i32shrsc1(&inst, a0, a1, a2, a3);
  OBL(g_spec_trap == SPEC_NOTRAP, "i32shrsc1: returned normally only if the specification does not trap");
  OBL(((r) == (spec_i32_shr_s(a0, a1))), "i32shrsc1: result equals the specified value");
  OBL(((inst.g1) == (a2)), "i32shrsc1: value two below the operands survives");
  OBL((vh_f32bits(inst.g2) == vh_f32bits(a3)), "i32shrsc1: value directly below the operands survives");
  OBL(g_libm_calls == 0, "i32shrsc1: no library call is involved");
  CANARY("i32shrsc1 returns");
}
void h_i32shrsc2(void) {
  ND(U32, a0);
  ND(U32, a1);
  ND(U32, a2);
  U32 r;
  g_libm_calls = 0;
  g_spec_trap = SPEC_NOTRAP;
  r = c01int_i32shrsc2(&inst, a0, a1, a2);
  OBL(g_spec_trap == SPEC_NOTRAP, "i32shrsc2: returned normally only if the specification does not trap");
  OBL(((r) == ((a2 ^ spec_i32_shr_s(a0, a1)))), "i32shrsc2: result equals the specified value");
  OBL(g_libm_calls == 0, "i32shrsc2: no library call is involved");
  CANARY("i32shrsc2 returns");
}
void h_i32shruc0(void) {
  ND(U32, a0);
  ND(U32, a1);
  U32 r;
  g_libm_calls = 0;
  g_spec_trap = SPEC_NOTRAP;
  r = c01int_i32shruc0(&inst, a0, a1);
  OBL(g_spec_trap == SPEC_NOTRAP, "i32shruc0: returned normally only if the specification does not trap");
  OBL(((r) == (spec_i32_shr_u(a0, a1))), "i32shruc0: result equals the specified value");
  OBL(g_libm_calls == 0, "i32shruc0: no library call is involved");
  CANARY("i32shruc0 returns");
}
void h_i32shruc1(void) {
  ND(U32, a0);
  ND(U32, a1);
  ND(U64, a2);
  ND(F32, a3);
  U32 r;
  g_libm_calls = 0;
  g_spec_trap = SPEC_NOTRAP;
  r = c01int_i32shruc1(&inst, a0, a1, a2, a3);
  OBL(g_spec_trap == SPEC_NOTRAP, "i32shruc1: returned normally only if the specification does not trap");
  OBL(((r) == (spec_i32_shr_u(a0, a1))), "i32shruc1: result equals the specified value");
  OBL(((inst.g1) == (a2)), "i32shruc1: value two below the operands survives");
  OBL((vh_f32bits(inst.g2) == vh_f32bits(a3)), "i32shruc1: value directly below the operands survives");
  OBL(g_libm_calls == 0, "i32shruc1: no library call is involved");
  CANARY("i32shruc1 returns");
}
void h_i32shruc2(void) {
  ND(U32, a0);
  ND(U32, a1);
  ND(U32, a2);
  U32 r;
  g_libm_calls = 0;
  g_spec_trap = SPEC_NOTRAP;
  r = c01int_i32shruc2(&inst, a0, a1, a2);
  OBL(g_spec_trap == SPEC_NOTRAP, "i32shruc2: returned normally only if the specification does not trap");
  OBL(((r) == ((a2 ^ spec_i32_shr_u(a0, a1)))), "i32shruc2: result equals the specified value");
  OBL(g_libm_calls == 0, "i32shruc2: no library call is involved");
  CANARY("i32shruc2 returns");
}
void h_i32rotlc0(void) {
  ND(U32, a0);
  ND(U32, a1);
  U32 r;
  g_libm_calls = 0;
  g_spec_trap = SPEC_NOTRAP;
  r = c01int_i32rotlc0(&inst, a0, a1);
  OBL(g_spec_trap == SPEC_NOTRAP, "i32rotlc0: returned normally only if the specification does not trap");
  OBL(((r) == (spec_i32_rotl(a0, a1))), "i32rotlc0: result equals the specified value");
  OBL(g_libm_calls == 0, "i32rotlc0: no library call is involved");
  CANARY("i32rotlc0 returns");
}
void h_i32rotlc1(void) {
  ND(U32, a0);
  ND(U32, a1);
  ND(U64, a2);
  ND(F32, a3);
  U32 r;
  g_libm_calls = 0;
  g_spec_trap = SPEC_NOTRAP;
  r = c01int_i32rotlc1(&inst, a0, a1, a2, a3);
  OBL(g_spec_trap == SPEC_NOTRAP, "i32rotlc1: returned normally only if the specification does not trap");
  OBL(((r) == (spec_i32_rotl(a0, a1))), "i32rotlc1: result equals the specified value");
  OBL(((inst.g1) == (a2)), "i32rotlc1: value two below the operands survives");
  OBL((vh_f32bits(inst.g2) == vh_f32bits(a3)), "i32rotlc1: value directly below the operands survives");
  OBL(g_libm_calls == 0, "i32rotlc1: no library call is involved");
  CANARY("i32rotlc1 returns");
}
void h_i32rotlc2(void) {
  ND(U32, a0);
  ND(U32, a1);
  ND(U32, a2);
  U32 r;
  g_libm_calls = 0;
  g_spec_trap = SPEC_NOTRAP;
  r = c01int_i32rotlc2(&inst, a0, a1, a2);
  OBL(g_spec_trap == SPEC_NOTRAP, "i32rotlc2: returned normally only if the specification does not trap");
  OBL(((r) == ((a2 ^ spec_i32_rotl(a0, a1)))), "i32rotlc2: result equals the specified value");
  OBL(g_libm_calls == 0, "i32rotlc2: no library call is involved");
  CANARY("i32rotlc2 returns");
}
void h_i32rotrc0(void) {
  ND(U32, a0);
  ND(U32, a1);
  U32 r;
  g_libm_calls = 0;
  g_spec_trap = SPEC_NOTRAP;
  r = c01int_i32rotrc0(&inst, a0, a1);
  OBL(g_spec_trap == SPEC_NOTRAP, "i32rotrc0: returned normally only if the specification does not trap");
  OBL(((r) == (spec_i32_rotr(a0, a1))), "i32rotrc0: result equals the specified value");
  OBL(g_libm_calls == 0, "i32rotrc0: no library call is involved");
  CANARY("i32rotrc0 returns");
}
void h_i32rotrc1(void) {
  ND(U32, a0);
  ND(U32, a1);
  ND(U64, a2);
  ND(F32, a3);
  U32 r;
  g_libm_calls = 0;
  g_spec_trap = SPEC_NOTRAP;
  r = c01int_i32rotrc1(&inst, a0, a1, a2, a3);
  OBL(g_spec_trap == SPEC_NOTRAP, "i32rotrc1: returned normally only if the specification does not trap");
  OBL(((r) == (spec_i32_rotr(a0, a1))), "i32rotrc1: result equals the specified value");
  OBL(((inst.g1) == (a2)), "i32rotrc1: value two below the operands survives");
  OBL((vh_f32bits(inst.g2) == vh_f32bits(a3)), "i32rotrc1: value directly below the operands survives");
  OBL(g_libm_calls == 0, "i32rotrc1: no library call is involved");
  CANARY("i32rotrc1 returns");
}
void h_i32rotrc2(void) {
  ND(U32, a0);
  ND(U32, a1);
  ND(U32, a2);
  U32 r;
  g_libm_calls = 0;
  g_spec_trap = SPEC_NOTRAP;
  r = c01int_i32rotrc2(&inst, a0, a1, a2);
  OBL(g_spec_trap == SPEC_NOTRAP, "i32rotrc2: returned normally only if the specification does not trap");
  OBL(((r) == ((a2 ^ spec_i32_rotr(a0, a1)))), "i32rotrc2: result equals the specified value");
  OBL(g_libm_calls == 0, "i32rotrc2: no library call is involved");
  CANARY("i32rotrc2 returns");
}
void h_i32divsc0(void) {
  ND(U32, a0);
  ND(U32, a1);
  U32 r;
  g_libm_calls = 0;
  g_spec_trap = spec_div_s_trap32(a0, a1);
  r = c01int_i32divsc0(&inst, a0, a1);
  OBL(g_spec_trap == SPEC_NOTRAP, "i32divsc0: returned normally only if the specification does not trap");
  OBL(((r) == (spec_i32_div_s(a0, a1))), "i32divsc0: result equals the specified value");
  OBL(g_libm_calls == 0, "i32divsc0: no library call is involved");
  CANARY("i32divsc0 returns");
}
void h_i32divsc1(void) {
  ND(U32, a0);
  ND(U32, a1);
  ND(U64, a2);
  ND(F32, a3);
  U32 r;
  g_libm_calls = 0;
  g_spec_trap = spec_div_s_trap32(a0, a1);
  r = c01int_i32divsc1(&inst, a0, a1, a2, a3);
  OBL(g_spec_trap == SPEC_NOTRAP, "i32divsc1: returned normally only if the specification does not trap");
  OBL(((r) == (spec_i32_div_s(a0, a1))), "i32divsc1: result equals the specified value");
  OBL(((inst.g1) == (a2)), "i32divsc1: value two below the operands survives");
  OBL((vh_f32bits(inst.g2) == vh_f32bits(a3)), "i32divsc1: value directly below the operands survives");
  OBL(g_libm_calls == 0, "i32divsc1: no library call is involved");
  CANARY("i32divsc1 returns");
}
void h_i32divsc2(void) {
  ND(U32, a0);
  ND(U32, a1);
  ND(U32, a2);
  U32 r;
  g_libm_calls = 0;
  g_spec_trap = spec_div_s_trap32(a0, a1);
  r = c01int_i32divsc2(&inst, a0, a1, a2);
  OBL(g_spec_trap == SPEC_NOTRAP, "i32divsc2: returned normally only if the specification does not trap");
  OBL(((r) == ((a2 ^ spec_i32_div_s(a0, a1)))), "i32divsc2: result equals the specified value");
  OBL(g_libm_calls == 0, "i32divsc2: no library call is involved");
  CANARY("i32divsc2 returns");
}
void h_i32divuc0(void) {
  ND(U32, a0);
  ND(U32, a1);
  U32 r;
  g_libm_calls = 0;
  g_spec_trap = spec_divrem_u_trap32(a0, a1);
  r = c01int_i32divuc0(&inst, a0, a1);
  OBL(g_spec_trap == SPEC_NOTRAP, "i32divuc0: returned normally only if the specification does not trap");
  OBL(((r) == (spec_i32_div_u(a0, a1))), "i32divuc0: result equals the specified value");
  OBL(g_libm_calls == 0, "i32divuc0: no library call is involved");
  CANARY("i32divuc0 returns");
}
void h_i32divuc1(void) {
  ND(U32, a0);
  ND(U32, a1);
  ND(U64, a2);
  ND(F32, a3);
  U32 r;
  g_libm_calls = 0;
  g_spec_trap = spec_divrem_u_trap32(a0, a1);
  r = c01int_i32divuc1(&inst, a0, a1, a2, a3);
  OBL(g_spec_trap == SPEC_NOTRAP, "i32divuc1: returned normally only if the specification does not trap");
  OBL(((r) == (spec_i32_div_u(a0, a1))), "i32divuc1: result equals the specified value");
  OBL(((inst.g1) == (a2)), "i32divuc1: value two below the operands survives");
  OBL((vh_f32bits(inst.g2) == vh_f32bits(a3)), "i32divuc1: value directly below the operands survives");
  OBL(g_libm_calls == 0, "i32divuc1: no library call is involved");
  CANARY("i32divuc1 returns");
}
void h_i32divuc2(void) {
  ND(U32, a0);
  ND(U32, a1);
  ND(U32, a2);
  U32 r;
  g_libm_calls = 0;
  g_spec_trap = spec_divrem_u_trap32(a0, a1);
  r = c01int_i32divuc2(&inst, a0, a1, a2);
  OBL(g_spec_trap == SPEC_NOTRAP, "i32divuc2: returned normally only if the specification does not trap");
  OBL(((r) == ((a2 ^ spec_i32_div_u(a0, a1)))), "i32divuc2: result equals the specified value");
  OBL(g_libm_calls == 0, "i32divuc2: no library call is involved");
  CANARY("i32divuc2 returns");
}
void h_i32remsc0(void) {
  ND(U32, a0);
  ND(U32, a1);
  U32 r;
  g_libm_calls = 0;
  g_spec_trap = spec_rem_s_trap32(a0, a1);
  r = c01int_i32remsc0(&inst, a0, a1);
  OBL(g_spec_trap == SPEC_NOTRAP, "i32remsc0: returned normally only if the specification does not trap");
  OBL(((r) == (spec_i32_rem_s(a0, a1))), "i32remsc0: result equals the specified value");
  OBL(g_libm_calls == 0, "i32remsc0: no library call is involved");
  CANARY("i32remsc0 returns");
}
void h_i32remsc1(void) {
  ND(U32, a0);
  ND(U32, a1);
  ND(U64, a2);
  ND(F32, a3);
  U32 r;
  g_libm_calls = 0;
  g_spec_trap = spec_rem_s_trap32(a0, a1);
  r = c01int_i32remsc1(&inst, a0, a1, a2, a3);
  OBL(g_spec_trap == SPEC_NOTRAP, "i32remsc1: returned normally only if the specification does not trap");
  OBL(((r) == (spec_i32_rem_s(a0, a1))), "i32remsc1: result equals the specified value");
  OBL(((inst.g1) == (a2)), "i32remsc1: value two below the operands survives");
  OBL((vh_f32bits(inst.g2) == vh_f32bits(a3)), "i32remsc1: value directly below the operands survives");
  OBL(g_libm_calls == 0, "i32remsc1: no library call is involved");
  CANARY("i32remsc1 returns");
}
void h_i32remsc2(void) {
  ND(U32, a0);
  ND(U32, a1);
  ND(U32, a2);
  U32 r;
  g_libm_calls = 0;
  g_spec_trap = spec_rem_s_trap32(a0, a1);
  r = c01int_i32remsc2(&inst, a0, a1, a2);
  OBL(g_spec_trap == SPEC_NOTRAP, "i32remsc2: returned normally only if the specification does not trap");
  OBL(((r) == ((a2 ^ spec_i32_rem_s(a0, a1)))), "i32remsc2: result equals the specified value");
  OBL(g_libm_calls == 0, "i32remsc2: no library call is involved");
  CANARY("i32remsc2 returns");
}
void h_i32remuc0(void) {
  ND(U32, a0);
  ND(U32, a1);
  U32 r;
  g_libm_calls = 0;
  g_spec_trap = spec_divrem_u_trap32(a0, a1);
  r = c01int_i32remuc0(&inst, a0, a1);
  OBL(g_spec_trap == SPEC_NOTRAP, "i32remuc0: returned normally only if the specification does not trap");
  OBL(((r) == (spec_i32_rem_u(a0, a1))), "i32remuc0: result equals the specified value");
  OBL(g_libm_calls == 0, "i32remuc0: no library call is involved");
  CANARY("i32remuc0 returns");
}
void h_i32remuc1(void) {
  ND(U32, a0);
  ND(U32, a1);
  ND(U64, a2);
  ND(F32, a3);
  U32 r;
  g_libm_calls = 0;
  g_spec_trap = spec_divrem_u_trap32(a0, a1);
  r = c01int_i32remuc1(&inst, a0, a1, a2, a3);
  OBL(g_spec_trap == SPEC_NOTRAP, "i32remuc1: returned normally only if the specification does not trap");
  OBL(((r) == (spec_i32_rem_u(a0, a1))), "i32remuc1: result equals the specified value");
  OBL(((inst.g1) == (a2)), "i32remuc1: value two below the operands survives");
  OBL((vh_f32bits(inst.g2) == vh_f32bits(a3)), "i32remuc1: value directly below the operands survives");
  OBL(g_libm_calls == 0, "i32remuc1: no library call is involved");
  CANARY("i32remuc1 returns");
}
void h_i32remuc2(void) {
  ND(U32, a0);
  ND(U32, a1);
  ND(U32, a2);
  U32 r;
  g_libm_calls = 0;
  g_spec_trap = spec_divrem_u_trap32(a0, a1);
  r = c01int_i32remuc2(&inst, a0, a1, a2);
  OBL(g_spec_trap == SPEC_NOTRAP, "i32remuc2: returned normally only if the specification does not trap");
  OBL(((r) == ((a2 ^ spec_i32_rem_u(a0, a1)))), "i32remuc2: result equals the specified value");
  OBL(g_libm_calls == 0, "i32remuc2: no library call is involved");
  CANARY("i32remuc2 returns");
}
void h_i32eqc0(void) {
  ND(U32, a0);
  ND(U32, a1);
  U32 r;
  g_libm_calls = 0;
  g_spec_trap = SPEC_NOTRAP;
  r = c01int_i32eqc0(&inst, a0, a1);
  OBL(g_spec_trap == SPEC_NOTRAP, "i32eqc0: returned normally only if the specification does not trap");
  OBL(((r) == (spec_i32_eq(a0, a1))), "i32eqc0: result equals the specified value");
  OBL(g_libm_calls == 0, "i32eqc0: no library call is involved");
  CANARY("i32eqc0 returns");
}
void h_i32eqc1(void) {
  ND(U32, a0);
  ND(U32, a1);
  ND(U64, a2);
  ND(F32, a3);
  U32 r;
  g_libm_calls = 0;
  g_spec_trap = SPEC_NOTRAP;
  r = c01int_i32eqc1(&inst, a0, a1, a2, a3);
  OBL(g_spec_trap == SPEC_NOTRAP, "i32eqc1: returned normally only if the specification does not trap");
  OBL(((r) == (spec_i32_eq(a0, a1))), "i32eqc1: result equals the specified value");
  OBL(((inst.g1) == (a2)), "i32eqc1: value two below the operands survives");
  OBL((vh_f32bits(inst.g2) == vh_f32bits(a3)), "i32eqc1: value directly below the operands survives");
  OBL(g_libm_calls == 0, "i32eqc1: no library call is involved");
  CANARY("i32eqc1 returns");
}
void h_i32eqc2(void) {
  ND(U32, a0);
  ND(U32, a1);
  ND(U32, a2);
  U32 r;
  g_libm_calls = 0;
  g_spec_trap = SPEC_NOTRAP;
  r = c01int_i32eqc2(&inst, a0, a1, a2);
  OBL(g_spec_trap == SPEC_NOTRAP, "i32eqc2: returned normally only if the specification does not trap");
  OBL(((r) == ((a2 ^ spec_i32_eq(a0, a1)))), "i32eqc2: result equals the specified value");
  OBL(g_libm_calls == 0, "i32eqc2: no library call is involved");
  CANARY("i32eqc2 returns");
}
void h_i32nec0(void) {
  ND(U32, a0);
  ND(U32, a1);
  U32 r;
  g_libm_calls = 0;
  g_spec_trap = SPEC_NOTRAP;
  r = c01int_i32nec0(&inst, a0, a1);
  OBL(g_spec_trap == SPEC_NOTRAP, "i32nec0: returned normally only if the specification does not trap");
  OBL(((r) == (spec_i32_ne(a0, a1))), "i32nec0: result equals the specified value");
  OBL(g_libm_calls == 0, "i32nec0: no library call is involved");
  CANARY("i32nec0 returns");
}
void h_i32nec1(void) {
  ND(U32, a0);
  ND(U32, a1);
  ND(U64, a2);
  ND(F32, a3);
  U32 r;
  g_libm_calls = 0;
  g_spec_trap = SPEC_NOTRAP;
  r = c01int_i32nec1(&inst, a0, a1, a2, a3);
  OBL(g_spec_trap == SPEC_NOTRAP, "i32nec1: returned normally only if the specification does not trap");
  OBL(((r) == (spec_i32_ne(a0, a1))), "i32nec1: result equals the specified value");
  OBL(((inst.g1) == (a2)), "i32nec1: value two below the operands survives");
  OBL((vh_f32bits(inst.g2) == vh_f32bits(a3)), "i32nec1: value directly below the operands survives");
  OBL(g_libm_calls == 0, "i32nec1: no library call is involved");
  CANARY("i32nec1 returns");
}
void h_i32nec2(void) {
  ND(U32, a0);
  ND(U32, a1);
  ND(U32, a2);
  U32 r;
  g_libm_calls = 0;
  g_spec_trap = SPEC_NOTRAP;
  r = c01int_i32nec2(&inst, a0, a1, a2);
  OBL(g_spec_trap == SPEC_NOTRAP, "i32nec2: returned normally only if the specification does not trap");
  OBL(((r) == ((a2 ^ spec_i32_ne(a0, a1)))), "i32nec2: result equals the specified value");
  OBL(g_libm_calls == 0, "i32nec2: no library call is involved");
  CANARY("i32nec2 returns");
}
void h_i32ltsc0(void) {
  ND(U32, a0);
  ND(U32, a1);
  U32 r;
  g_libm_calls = 0;
  g_spec_trap = SPEC_NOTRAP;
  r = c01int_i32ltsc0(&inst, a0, a1);
  OBL(g_spec_trap == SPEC_NOTRAP, "i32ltsc0: returned normally only if the specification does not trap");
  OBL(((r) == (spec_i32_lt_s(a0, a1))), "i32ltsc0: result equals the specified value");
  OBL(g_libm_calls == 0, "i32ltsc0: no library call is involved");
  CANARY("i32ltsc0 returns");
}
void h_i32ltsc1(void) {
  ND(U32, a0);
  ND(U32, a1);
  ND(U64, a2);
  ND(F32, a3);
  U32 r;
  g_libm_calls = 0;
  g_spec_trap = SPEC_NOTRAP;
  r = c01int_i32ltsc1(&inst, a0, a1, a2, a3);
  OBL(g_spec_trap == SPEC_NOTRAP, "i32ltsc1: returned normally only if the specification does not trap");
  OBL(((r) == (spec_i32_lt_s(a0, a1))), "i32ltsc1: result equals the specified value");
  OBL(((inst.g1) == (a2)), "i32ltsc1: value two below the operands survives");
  OBL((vh_f32bits(inst.g2) == vh_f32bits(a3)), "i32ltsc1: value directly below the operands survives");
  OBL(g_libm_calls == 0, "i32ltsc1: no library call is involved");
  CANARY("i32ltsc1 returns");
}
void h_i32ltsc2(void) {
  ND(U32, a0);
  ND(U32, a1);
  ND(U32, a2);
  U32 r;
  g_libm_calls = 0;
  g_spec_trap = SPEC_NOTRAP;
  r = c01int_i32ltsc2(&inst, a0, a1, a2);
  OBL(g_spec_trap == SPEC_NOTRAP, "i32ltsc2: returned normally only if the specification does not trap");
  OBL(((r) == ((a2 ^ spec_i32_lt_s(a0, a1)))), "i32ltsc2: result equals the specified value");
  OBL(g_libm_calls == 0, "i32ltsc2: no library call is involved");
  CANARY("i32ltsc2 returns");
}
void h_i32ltuc0(void) {
  ND(U32, a0);
  ND(U32, a1);
  U32 r;
  g_libm_calls = 0;
  g_spec_trap = SPEC_NOTRAP;
  r = c01int_i32ltuc0(&inst, a0, a1);
  OBL(g_spec_trap == SPEC_NOTRAP, "i32ltuc0: returned normally only if the specification does not trap");
  OBL(((r) == (spec_i32_lt_u(a0, a1))), "i32ltuc0: result equals the specified value");
  OBL(g_libm_calls == 0, "i32ltuc0: no library call is involved");
  CANARY("i32ltuc0 returns");
}
void h_i32ltuc1(void) {
  ND(U32, a0);
  ND(U32, a1);
  ND(U64, a2);
  ND(F32, a3);
  U32 r;
  g_libm_calls = 0;
  g_spec_trap = SPEC_NOTRAP;
  r = c01int_i32ltuc1(&inst, a0, a1, a2, a3);
  OBL(g_spec_trap == SPEC_NOTRAP, "i32ltuc1: returned normally only if the specification does not trap");
  OBL(((r) == (spec_i32_lt_u(a0, a1))), "i32ltuc1: result equals the specified value");
  OBL(((inst.g1) == (a2)), "i32ltuc1: value two below the operands survives");
  OBL((vh_f32bits(inst.g2) == vh_f32bits(a3)), "i32ltuc1: value directly below the operands survives");
  OBL(g_libm_calls == 0, "i32ltuc1: no library call is involved");
  CANARY("i32ltuc1 returns");
}
void h_i32ltuc2(void) {
  ND(U32, a0);
  ND(U32, a1);
  ND(U32, a2);
  U32 r;
  g_libm_calls = 0;
  g_spec_trap = SPEC_NOTRAP;
  r = c01int_i32ltuc2(&inst, a0, a1, a2);
  OBL(g_spec_trap == SPEC_NOTRAP, "i32ltuc2: returned normally only if the specification does not trap");
  OBL(((r) == ((a2 ^ spec_i32_lt_u(a0, a1)))), "i32ltuc2: result equals the specified value");
  OBL(g_libm_calls == 0, "i32ltuc2: no library call is involved");
  CANARY("i32ltuc2 returns");
}
void h_i32gtsc0(void) {
  ND(U32, a0);
  ND(U32, a1);
  U32 r;
  g_libm_calls = 0;
  g_spec_trap = SPEC_NOTRAP;
  r = c01int_i32gtsc0(&inst, a0, a1);
  OBL(g_spec_trap == SPEC_NOTRAP, "i32gtsc0: returned normally only if the specification does not trap");
  OBL(((r) == (spec_i32_gt_s(a0, a1))), "i32gtsc0: result equals the specified value");
  OBL(g_libm_calls == 0, "i32gtsc0: no library call is involved");
  CANARY("i32gtsc0 returns");
}
void h_i32gtsc1(void) {
  ND(U32, a0);
  ND(U32, a1);
  ND(U64, a2);
  ND(F32, a3);
  U32 r;
  g_libm_calls = 0;
  g_spec_trap = SPEC_NOTRAP;
  r = c01int_i32gtsc1(&inst, a0, a1, a2, a3);
  OBL(g_spec_trap == SPEC_NOTRAP, "i32gtsc1: returned normally only if the specification does not trap");
  OBL(((r) == (spec_i32_gt_s(a0, a1))), "i32gtsc1: result equals the specified value");
  OBL(((inst.g1) == (a2)), "i32gtsc1: value two below the operands survives");
  OBL((vh_f32bits(inst.g2) == vh_f32bits(a3)), "i32gtsc1: value directly below the operands survives");
  OBL(g_libm_calls == 0, "i32gtsc1: no library call is involved");
  CANARY("i32gtsc1 returns");
}
void h_i32gtsc2(void) {
  ND(U32, a0);
  ND(U32, a1);
  ND(U32, a2);
  U32 r;
  g_libm_calls = 0;
  g_spec_trap = SPEC_NOTRAP;
  r = c01int_i32gtsc2(&inst, a0, a1, a2);
  OBL(g_spec_trap == SPEC_NOTRAP, "i32gtsc2: returned normally only if the specification does not trap");
  OBL(((r) == ((a2 ^ spec_i32_gt_s(a0, a1)))), "i32gtsc2: result equals the specified value");
  OBL(g_libm_calls == 0, "i32gtsc2: no library call is involved");
  CANARY("i32gtsc2 returns");
}
void h_i32gtuc0(void) {
  ND(U32, a0);
  ND(U32, a1);
  U32 r;
  g_libm_calls = 0;
  g_spec_trap = SPEC_NOTRAP;
  r = c01int_i32gtuc0(&inst, a0, a1);
  OBL(g_spec_trap == SPEC_NOTRAP, "i32gtuc0: returned normally only if the specification does not trap");
  OBL(((r) == (spec_i32_gt_u(a0, a1))), "i32gtuc0: result equals the specified value");
  OBL(g_libm_calls == 0, "i32gtuc0: no library call is involved");
  CANARY("i32gtuc0 returns");
}
void h_i32gtuc1(void) {
  ND(U32, a0);
  ND(U32, a1);
  ND(U64, a2);
  ND(F32, a3);
  U32 r;
  g_libm_calls = 0;
  g_spec_trap = SPEC_NOTRAP;
  r = c01int_i32gtuc1(&inst, a0, a1, a2, a3);
  OBL(g_spec_trap == SPEC_NOTRAP, "i32gtuc1: returned normally only if the specification does not trap");
  OBL(((r) == (spec_i32_gt_u(a0, a1))), "i32gtuc1: result equals the specified value");
  OBL(((inst.g1) == (a2)), "i32gtuc1: value two below the operands survives");
  OBL((vh_f32bits(inst.g2) == vh_f32bits(a3)), "i32gtuc1: value directly below the operands survives");
  OBL(g_libm_calls == 0, "i32gtuc1: no library call is involved");
  CANARY("i32gtuc1 returns");
}
void h_i32gtuc2(void) {
  ND(U32, a0);
  ND(U32, a1);
  ND(U32, a2);
  U32 r;
  g_libm_calls = 0;
  g_spec_trap = SPEC_NOTRAP;
  r = c01int_i32gtuc2(&inst, a0, a1, a2);
  OBL(g_spec_trap == SPEC_NOTRAP, "i32gtuc2: returned normally only if the specification does not trap");
  OBL(((r) == ((a2 ^ spec_i32_gt_u(a0, a1)))), "i32gtuc2: result equals the specified value");
  OBL(g_libm_calls == 0, "i32gtuc2: no library call is involved");
  CANARY("i32gtuc2 returns");
}
void h_i32lesc0(void) {
  ND(U32, a0);
  ND(U32, a1);
  U32 r;
  g_libm_calls = 0;
  g_spec_trap = SPEC_NOTRAP;
  r = c01int_i32lesc0(&inst, a0, a1);
  OBL(g_spec_trap == SPEC_NOTRAP, "i32lesc0: returned normally only if the specification does not trap");
  OBL(((r) == (spec_i32_le_s(a0, a1))), "i32lesc0: result equals the specified value");
  OBL(g_libm_calls == 0, "i32lesc0: no library call is involved");
  CANARY("i32lesc0 returns");
}
void h_i32lesc1(void) {
  ND(U32, a0);
  ND(U32, a1);
  ND(U64, a2);
  ND(F32, a3);
  U32 r;
  g_libm_calls = 0;
  g_spec_trap = SPEC_NOTRAP;
  r = c01int_i32lesc1(&inst, a0, a1, a2, a3);
  OBL(g_spec_trap == SPEC_NOTRAP, "i32lesc1: returned normally only if the specification does not trap");
  OBL(((r) == (spec_i32_le_s(a0, a1))), "i32lesc1: result equals the specified value");
  OBL(((inst.g1) == (a2)), "i32lesc1: value two below the operands survives");
  OBL((vh_f32bits(inst.g2) == vh_f32bits(a3)), "i32lesc1: value directly below the operands survives");
  OBL(g_libm_calls == 0, "i32lesc1: no library call is involved");
  CANARY("i32lesc1 returns");
}
void h_i32lesc2(void) {
  ND(U32, a0);
  ND(U32, a1);
  ND(U32, a2);
  U32 r;
  g_libm_calls = 0;
  g_spec_trap = SPEC_NOTRAP;
  r = c01int_i32lesc2(&inst, a0, a1, a2);
  OBL(g_spec_trap == SPEC_NOTRAP, "i32lesc2: returned normally only if the specification does not trap");
  OBL(((r) == ((a2 ^ spec_i32_le_s(a0, a1)))), "i32lesc2: result equals the specified value");
  OBL(g_libm_calls == 0, "i32lesc2: no library call is involved");
  CANARY("i32lesc2 returns");
}
void h_i32leuc0(void) {
  ND(U32, a0);
  ND(U32, a1);
  U32 r;
  g_libm_calls = 0;
  g_spec_trap = SPEC_NOTRAP;
  r = c01int_i32leuc0(&inst, a0, a1);
  OBL(g_spec_trap == SPEC_NOTRAP, "i32leuc0: returned normally only if the specification does not trap");
  OBL(((r) == (spec_i32_le_u(a0, a1))), "i32leuc0: result equals the specified value");
  OBL(g_libm_calls == 0, "i32leuc0: no library call is involved");
  CANARY("i32leuc0 returns");
}
void h_i32leuc1(void) {
  ND(U32, a0);
  ND(U32, a1);
  ND(U64, a2);
  ND(F32, a3);
  U32 r;
  g_libm_calls = 0;
  g_spec_trap = SPEC_NOTRAP;
  r = c01int_i32leuc1(&inst, a0, a1, a2, a3);
  OBL(g_spec_trap == SPEC_NOTRAP, "i32leuc1: returned normally only if the specification does not trap");
  OBL(((r) == (spec_i32_le_u(a0, a1))), "i32leuc1: result equals the specified value");
  OBL(((inst.g1) == (a2)), "i32leuc1: value two below the operands survives");
  OBL((vh_f32bits(inst.g2) == vh_f32bits(a3)), "i32leuc1: value directly below the operands survives");
  OBL(g_libm_calls == 0, "i32leuc1: no library call is involved");
  CANARY("i32leuc1 returns");
}
void h_i32leuc2(void) {
  ND(U32, a0);
  ND(U32, a1);
  ND(U32, a2);
  U32 r;
  g_libm_calls = 0;
  g_spec_trap = SPEC_NOTRAP;
  r = c01int_i32leuc2(&inst, a0, a1, a2);
  OBL(g_spec_trap == SPEC_NOTRAP, "i32leuc2: returned normally only if the specification does not trap");
  OBL(((r) == ((a2 ^ spec_i32_le_u(a0, a1)))), "i32leuc2: result equals the specified value");
  OBL(g_libm_calls == 0, "i32leuc2: no library call is involved");
  CANARY("i32leuc2 returns");
}
void h_i32gesc0(void) {
  ND(U32, a0);
  ND(U32, a1);
  U32 r;
  g_libm_calls = 0;
  g_spec_trap = SPEC_NOTRAP;
  r = c01int_i32gesc0(&inst, a0, a1);
  OBL(g_spec_trap == SPEC_NOTRAP, "i32gesc0: returned normally only if the specification does not trap");
  OBL(((r) == (spec_i32_ge_s(a0, a1))), "i32gesc0: result equals the specified value");
  OBL(g_libm_calls == 0, "i32gesc0: no library call is involved");
  CANARY("i32gesc0 returns");
}
void h_i32gesc1(void) {
  ND(U32, a0);
  ND(U32, a1);
  ND(U64, a2);
  ND(F32, a3);
  U32 r;
  g_libm_calls = 0;
  g_spec_trap = SPEC_NOTRAP;
  r = c01int_i32gesc1(&inst, a0, a1, a2, a3);
  OBL(g_spec_trap == SPEC_NOTRAP, "i32gesc1: returned normally only if the specification does not trap");
  OBL(((r) == (spec_i32_ge_s(a0, a1))), "i32gesc1: result equals the specified value");
  OBL(((inst.g1) == (a2)), "i32gesc1: value two below the operands survives");
  OBL((vh_f32bits(inst.g2) == vh_f32bits(a3)), "i32gesc1: value directly below the operands survives");
  OBL(g_libm_calls == 0, "i32gesc1: no library call is involved");
  CANARY("i32gesc1 returns");
}
void h_i32gesc2(void) {
  ND(U32, a0);
  ND(U32, a1);
  ND(U32, a2);
  U32 r;
  g_libm_calls = 0;
  g_spec_trap = SPEC_NOTRAP;
  r = c01int_i32gesc2(&inst, a0, a1, a2);
  OBL(g_spec_trap == SPEC_NOTRAP, "i32gesc2: returned normally only if the specification does not trap");
  OBL(((r) == ((a2 ^ spec_i32_ge_s(a0, a1)))), "i32gesc2: result equals the specified value");
  OBL(g_libm_calls == 0, "i32gesc2: no library call is involved");
  CANARY("i32gesc2 returns");
}
void h_i32geuc0(void) {
  ND(U32, a0);
  ND(U32, a1);
  U32 r;
  g_libm_calls = 0;
  g_spec_trap = SPEC_NOTRAP;
  r = c01int_i32geuc0(&inst, a0, a1);
  OBL(g_spec_trap == SPEC_NOTRAP, "i32geuc0: returned normally only if the specification does not trap");
  OBL(((r) == (spec_i32_ge_u(a0, a1))), "i32geuc0: result equals the specified value");
  OBL(g_libm_calls == 0, "i32geuc0: no library call is involved");
  CANARY("i32geuc0 returns");
}
void h_i32geuc1(void) {
  ND(U32, a0);
  ND(U32, a1);
  ND(U64, a2);
  ND(F32, a3);
  U32 r;
  g_libm_calls = 0;
  g_spec_trap = SPEC_NOTRAP;
  r = c01int_i32geuc1(&inst, a0, a1, a2, a3);
  OBL(g_spec_trap == SPEC_NOTRAP, "i32geuc1: returned normally only if the specification does not trap");
  OBL(((r) == (spec_i32_ge_u(a0, a1))), "i32geuc1: result equals the specified value");
  OBL(((inst.g1) == (a2)), "i32geuc1: value two below the operands survives");
  OBL((vh_f32bits(inst.g2) == vh_f32bits(a3)), "i32geuc1: value directly below the operands survives");
  OBL(g_libm_calls == 0, "i32geuc1: no library call is involved");
  CANARY("i32geuc1 returns");
}
void h_i32geuc2(void) {
  ND(U32, a0);
  ND(U32, a1);
  ND(U32, a2);
  U32 r;
  g_libm_calls = 0;
  g_spec_trap = SPEC_NOTRAP;
  r = c01int_i32geuc2(&inst, a0, a1, a2);
  OBL(g_spec_trap == SPEC_NOTRAP, "i32geuc2: returned normally only if the specification does not trap");
  OBL(((r) == ((a2 ^ spec_i32_ge_u(a0, a1)))), "i32geuc2: result equals the specified value");
  OBL(g_libm_calls == 0, "i32geuc2: no library call is involved");
  CANARY("i32geuc2 returns");
}
void h_i32eqzc0(void) {
  ND(U32, a0);
  U32 r;
  g_libm_calls = 0;
  g_spec_trap = SPEC_NOTRAP;
  r = c01int_i32eqzc0(&inst, a0);
  OBL(g_spec_trap == SPEC_NOTRAP, "i32eqzc0: returned normally only if the specification does not trap");
  OBL(((r) == (spec_i32_eqz(a0))), "i32eqzc0: result equals the specified value");
  OBL(g_libm_calls == 0, "i32eqzc0: no library call is involved");
  CANARY("i32eqzc0 returns");
}
void h_i32eqzc1(void) {
  ND(U32, a0);
  ND(U64, a1);
  ND(F32, a2);
  U32 r;
  g_libm_calls = 0;
  g_spec_trap = SPEC_NOTRAP;
  r = c01int_i32eqzc1(&inst, a0, a1, a2);
  OBL(g_spec_trap == SPEC_NOTRAP, "i32eqzc1: returned normally only if the specification does not trap");
  OBL(((r) == (spec_i32_eqz(a0))), "i32eqzc1: result equals the specified value");
  OBL(((inst.g1) == (a1)), "i32eqzc1: value two below the operands survives");
  OBL((vh_f32bits(inst.g2) == vh_f32bits(a2)), "i32eqzc1: value directly below the operands survives");
  OBL(g_libm_calls == 0, "i32eqzc1: no library call is involved");
  CANARY("i32eqzc1 returns");
}
void h_i32eqzc2(void) {
  ND(U32, a0);
  ND(U32, a1);
  U32 r;
  g_libm_calls = 0;
  g_spec_trap = SPEC_NOTRAP;
  r = c01int_i32eqzc2(&inst, a0, a1);
  OBL(g_spec_trap == SPEC_NOTRAP, "i32eqzc2: returned normally only if the specification does not trap");
  OBL(((r) == ((a1 ^ spec_i32_eqz(a0)))), "i32eqzc2: result equals the specified value");
  OBL(g_libm_calls == 0, "i32eqzc2: no library call is involved");
  CANARY("i32eqzc2 returns");
}
void h_i32clzc0(void) {
  ND(U32, a0);
  U32 r;
  g_libm_calls = 0;
  g_spec_trap = SPEC_NOTRAP;
  r = c01int_i32clzc0(&inst, a0);
  OBL(g_spec_trap == SPEC_NOTRAP, "i32clzc0: returned normally only if the specification does not trap");
  OBL(((r) == (spec_i32_clz(a0))), "i32clzc0: result equals the specified value");
  OBL(g_libm_calls == 0, "i32clzc0: no library call is involved");
  CANARY("i32clzc0 returns");
}
void h_i32clzc1(void) {
  ND(U32, a0);
  ND(U64, a1);
  ND(F32, a2);
  U32 r;
  g_libm_calls = 0;
  g_spec_trap = SPEC_NOTRAP;
  r = c01int_i32clzc1(&inst, a0, a1, a2);
  OBL(g_spec_trap == SPEC_NOTRAP, "i32clzc1: returned normally only if the specification does not trap");
  OBL(((r) == (spec_i32_clz(a0))), "i32clzc1: result equals the specified value");
  OBL(((inst.g1) == (a1)), "i32clzc1: value two below the operands survives");
  OBL((vh_f32bits(inst.g2) == vh_f32bits(a2)), "i32clzc1: value directly below the operands survives");
  OBL(g_libm_calls == 0, "i32clzc1: no library call is involved");
  CANARY("i32clzc1 returns");
}
void h_i32clzc2(void) {
  ND(U32, a0);
  ND(U32, a1);
  U32 r;
  g_libm_calls = 0;
  g_spec_trap = SPEC_NOTRAP;
  r = c01int_i32clzc2(&inst, a0, a1);
  OBL(g_spec_trap == SPEC_NOTRAP, "i32clzc2: returned normally only if the specification does not trap");
  OBL(((r) == ((a1 ^ spec_i32_clz(a0)))), "i32clzc2: result equals the specified value");
  OBL(g_libm_calls == 0, "i32clzc2: no library call is involved");
  CANARY("i32clzc2 returns");
}
void h_i32ctzc0(void) {
  ND(U32, a0);
  U32 r;
  g_libm_calls = 0;
  g_spec_trap = SPEC_NOTRAP;
  r = c01int_i32ctzc0(&inst, a0);
  OBL(g_spec_trap == SPEC_NOTRAP, "i32ctzc0: returned normally only if the specification does not trap");
  OBL(((r) == (spec_i32_ctz(a0))), "i32ctzc0: result equals the specified value");
  OBL(g_libm_calls == 0, "i32ctzc0: no library call is involved");
  CANARY("i32ctzc0 returns");
}
void h_i32ctzc1(void) {
  ND(U32, a0);
  ND(U64, a1);
  ND(F32, a2);
  U32 r;
  g_libm_calls = 0;
  g_spec_trap = SPEC_NOTRAP;
  r = c01int_i32ctzc1(&inst, a0, a1, a2);
  OBL(g_spec_trap == SPEC_NOTRAP, "i32ctzc1: returned normally only if the specification does not trap");
  OBL(((r) == (spec_i32_ctz(a0))), "i32ctzc1: result equals the specified value");
  OBL(((inst.g1) == (a1)), "i32ctzc1: value two below the operands survives");
  OBL((vh_f32bits(inst.g2) == vh_f32bits(a2)), "i32ctzc1: value directly below the operands survives");
  OBL(g_libm_calls == 0, "i32ctzc1: no library call is involved");
  CANARY("i32ctzc1 returns");
}
void h_i32ctzc2(void) {
  ND(U32, a0);
  ND(U32, a1);
  U32 r;
  g_libm_calls = 0;
  g_spec_trap = SPEC_NOTRAP;
  r = c01int_i32ctzc2(&inst, a0, a1);
  OBL(g_spec_trap == SPEC_NOTRAP, "i32ctzc2: returned normally only if the specification does not trap");
  OBL(((r) == ((a1 ^ spec_i32_ctz(a0)))), "i32ctzc2: result equals the specified value");
  OBL(g_libm_calls == 0, "i32ctzc2: no library call is involved");
  CANARY("i32ctzc2 returns");
}
void h_i32popcntc0(void) {
  ND(U32, a0);
  U32 r;
  g_libm_calls = 0;
  g_spec_trap = SPEC_NOTRAP;
  r = c01int_i32popcntc0(&inst, a0);
  OBL(g_spec_trap == SPEC_NOTRAP, "i32popcntc0: returned normally only if the specification does not trap");
  OBL(((r) == (spec_i32_popcnt(a0))), "i32popcntc0: result equals the specified value");
  OBL(g_libm_calls == 0, "i32popcntc0: no library call is involved");
  CANARY("i32popcntc0 returns");
}
void h_i32popcntc1(void) {
  ND(U32, a0);
  ND(U64, a1);
  ND(F32, a2);
  U32 r;
  g_libm_calls = 0;
  g_spec_trap = SPEC_NOTRAP;
  r = c01int_i32popcntc1(&inst, a0, a1, a2);
  OBL(g_spec_trap == SPEC_NOTRAP, "i32popcntc1: returned normally only if the specification does not trap");
  OBL(((r) == (spec_i32_popcnt(a0))), "i32popcntc1: result equals the specified value");
  OBL(((inst.g1) == (a1)), "i32popcntc1: value two below the operands survives");
  OBL((vh_f32bits(inst.g2) == vh_f32bits(a2)), "i32popcntc1: value directly below the operands survives");
  OBL(g_libm_calls == 0, "i32popcntc1: no library call is involved");
  CANARY("i32popcntc1 returns");
}
void h_i32popcntc2(void) {
  ND(U32, a0);
  ND(U32, a1);
  U32 r;
  g_libm_calls = 0;
  g_spec_trap = SPEC_NOTRAP;
  r = c01int_i32popcntc2(&inst, a0, a1);
  OBL(g_spec_trap == SPEC_NOTRAP, "i32popcntc2: returned normally only if the specification does not trap");
  OBL(((r) == ((a1 ^ spec_i32_popcnt(a0)))), "i32popcntc2: result equals the specified value");
  OBL(g_libm_calls == 0, "i32popcntc2: no library call is involved");
  CANARY("i32popcntc2 returns");
}
void h_i64addc0(void) {
  ND(U64, a0);
  ND(U64, a1);
  U64 r;
  g_libm_calls = 0;
  g_spec_trap = SPEC_NOTRAP;
  r = c01int_i64addc0(&inst, a0, a1);
  OBL(g_spec_trap == SPEC_NOTRAP, "i64addc0: returned normally only if the specification does not trap");
  OBL(((r) == (spec_i64_add(a0, a1))), "i64addc0: result equals the specified value");
  OBL(g_libm_calls == 0, "i64addc0: no library call is involved");
  CANARY("i64addc0 returns");
}
void h_i64addc1(void) {
  ND(U64, a0);
  ND(U64, a1);
  ND(U32, a2);
  ND(F64, a3);
  U64 r;
  g_libm_calls = 0;
  g_spec_trap = SPEC_NOTRAP;
  r = c01int_i64addc1(&inst, a0, a1, a2, a3);
  OBL(g_spec_trap == SPEC_NOTRAP, "i64addc1: returned normally only if the specification does not trap");
  OBL(((r) == (spec_i64_add(a0, a1))), "i64addc1: result equals the specified value");
  OBL(((inst.g0) == (a2)), "i64addc1: value two below the operands survives");
  OBL((vh_f64bits(inst.g3) == vh_f64bits(a3)), "i64addc1: value directly below the operands survives");
  OBL(g_libm_calls == 0, "i64addc1: no library call is involved");
  CANARY("i64addc1 returns");
}
void h_i64addc2(void) {
  ND(U64, a0);
  ND(U64, a1);
  ND(U64, a2);
  U64 r;
  g_libm_calls = 0;
  g_spec_trap = SPEC_NOTRAP;
  r = c01int_i64addc2(&inst, a0, a1, a2);
  OBL(g_spec_trap == SPEC_NOTRAP, "i64addc2: returned normally only if the specification does not trap");
  OBL(((r) == ((a2 ^ spec_i64_add(a0, a1)))), "i64addc2: result equals the specified value");
  OBL(g_libm_calls == 0, "i64addc2: no library call is involved");
  CANARY("i64addc2 returns");
}
void h_i64subc0(void) {
  ND(U64, a0);
  ND(U64, a1);
  U64 r;
  g_libm_calls = 0;
  g_spec_trap = SPEC_NOTRAP;
  r = c01int_i64subc0(&inst, a0, a1);
  OBL(g_spec_trap == SPEC_NOTRAP, "i64subc0: returned normally only if the specification does not trap");
  OBL(((r) == (spec_i64_sub(a0, a1))), "i64subc0: result equals the specified value");
  OBL(g_libm_calls == 0, "i64subc0: no library call is involved");
  CANARY("i64subc0 returns");
}
void h_i64subc1(void) {
  ND(U64, a0);
  ND(U64, a1);
  ND(U32, a2);
  ND(F64, a3);
  U64 r;
  g_libm_calls = 0;
  g_spec_trap = SPEC_NOTRAP;
  r = c01int_i64subc1(&inst, a0, a1, a2, a3);
  OBL(g_spec_trap == SPEC_NOTRAP, "i64subc1: returned normally only if the specification does not trap");
  OBL(((r) == (spec_i64_sub(a0, a1))), "i64subc1: result equals the specified value");
  OBL(((inst.g0) == (a2)), "i64subc1: value two below the operands survives");
  OBL((vh_f64bits(inst.g3) == vh_f64bits(a3)), "i64subc1: value directly below the operands survives");
  OBL(g_libm_calls == 0, "i64subc1: no library call is involved");
  CANARY("i64subc1 returns");
}
void h_i64subc2(void) {
  ND(U64, a0);
  ND(U64, a1);
  ND(U64, a2);
  U64 r;
  g_libm_calls = 0;
  g_spec_trap = SPEC_NOTRAP;
  r = c01int_i64subc2(&inst, a0, a1, a2);
  OBL(g_spec_trap == SPEC_NOTRAP, "i64subc2: returned normally only if the specification does not trap");
  OBL(((r) == ((a2 ^ spec_i64_sub(a0, a1)))), "i64subc2: result equals the specified value");
  OBL(g_libm_calls == 0, "i64subc2: no library call is involved");
  CANARY("i64subc2 returns");
}
void h_i64mulc0(void) {
  ND(U64, a0);
  ND(U64, a1);
  U64 r;
  g_libm_calls = 0;
  g_spec_trap = SPEC_NOTRAP;
  r = c01int_i64mulc0(&inst, a0, a1);
  OBL(g_spec_trap == SPEC_NOTRAP, "i64mulc0: returned normally only if the specification does not trap");
  OBL(((r) == (spec_i64_mul(a0, a1))), "i64mulc0: result equals the specified value");
  OBL(g_libm_calls == 0, "i64mulc0: no library call is involved");
  CANARY("i64mulc0 returns");
}
void h_i64mulc1(void) {
  ND(U64, a0);
  ND(U64, a1);
  ND(U32, a2);
  ND(F64, a3);
  U64 r;
  g_libm_calls = 0;
  g_spec_trap = SPEC_NOTRAP;
  r = c01int_i64mulc1(&inst, a0, a1, a2, a3);
  OBL(g_spec_trap == SPEC_NOTRAP, "i64mulc1: returned normally only if the specification does not trap");
  OBL(((r) == (spec_i64_mul(a0, a1))), "i64mulc1: result equals the specified value");
  OBL(((inst.g0) == (a2)), "i64mulc1: value two below the operands survives");
  OBL((vh_f64bits(inst.g3) == vh_f64bits(a3)), "i64mulc1: value directly below the operands survives");
  OBL(g_libm_calls == 0, "i64mulc1: no library call is involved");
  CANARY("i64mulc1 returns");
}
void h_i64mulc2(void) {
  ND(U64, a0);
  ND(U64, a1);
  ND(U64, a2);
  U64 r;
  g_libm_calls = 0;
  g_spec_trap = SPEC_NOTRAP;
  r = c01int_i64mulc2(&inst, a0, a1, a2);
  OBL(g_spec_trap == SPEC_NOTRAP, "i64mulc2: returned normally only if the specification does not trap");
  OBL(((r) == ((a2 ^ spec_i64_mul(a0, a1)))), "i64mulc2: result equals the specified value");
  OBL(g_libm_calls == 0, "i64mulc2: no library call is involved");
  CANARY("i64mulc2 returns");
}
void h_i64andc0(void) {
  ND(U64, a0);
  ND(U64, a1);
  U64 r;
  g_libm_calls = 0;
  g_spec_trap = SPEC_NOTRAP;
  r = c01int_i64andc0(&inst, a0, a1);
  OBL(g_spec_trap == SPEC_NOTRAP, "i64andc0: returned normally only if the specification does not trap");
  OBL(((r) == (spec_i64_and(a0, a1))), "i64andc0: result equals the specified value");
  OBL(g_libm_calls == 0, "i64andc0: no library call is involved");
  CANARY("i64andc0 returns");
}
void h_i64andc1(void) {
  ND(U64, a0);
  ND(U64, a1);
  ND(U32, a2);
  ND(F64, a3);
  U64 r;
  g_libm_calls = 0;
  g_spec_trap = SPEC_NOTRAP;
  r = c01int_i64andc1(&inst, a0, a1, a2, a3);
  OBL(g_spec_trap == SPEC_NOTRAP, "i64andc1: returned normally only if the specification does not trap");
  OBL(((r) == (spec_i64_and(a0, a1))), "i64andc1: result equals the specified value");
  OBL(((inst.g0) == (a2)), "i64andc1: value two below the operands survives");
  OBL((vh_f64bits(inst.g3) == vh_f64bits(a3)), "i64andc1: value directly below the operands survives");
  OBL(g_libm_calls == 0, "i64andc1: no library call is involved");
  CANARY("i64andc1 returns");
}
void h_i64andc2(void) {
  ND(U64, a0);
  ND(U64, a1);
  ND(U64, a2);
  U64 r;
  g_libm_calls = 0;
  g_spec_trap = SPEC_NOTRAP;
  r = c01int_i64andc2(&inst, a0, a1, a2);
  OBL(g_spec_trap == SPEC_NOTRAP, "i64andc2: returned normally only if the specification does not trap");
  OBL(((r) == ((a2 ^ spec_i64_and(a0, a1)))), "i64andc2: result equals the specified value");
  OBL(g_libm_calls == 0, "i64andc2: no library call is involved");
  CANARY("i64andc2 returns");
}
void h_i64orc0(void) {
  ND(U64, a0);
  ND(U64, a1);
  U64 r;
  g_libm_calls = 0;
  g_spec_trap = SPEC_NOTRAP;
  r = c01int_i64orc0(&inst, a0, a1);
  OBL(g_spec_trap == SPEC_NOTRAP, "i64orc0: returned normally only if the specification does not trap");
  OBL(((r) == (spec_i64_or(a0, a1))), "i64orc0: result equals the specified value");
  OBL(g_libm_calls == 0, "i64orc0: no library call is involved");
  CANARY("i64orc0 returns");
}
void h_i64orc1(void) {
  ND(U64, a0);
  ND(U64, a1);
  ND(U32, a2);
  ND(F64, a3);
  U64 r;
  g_libm_calls = 0;
  g_spec_trap = SPEC_NOTRAP;
  r = c01int_i64orc1(&inst, a0, a1, a2, a3);
  OBL(g_spec_trap == SPEC_NOTRAP, "i64orc1: returned normally only if the specification does not trap");
  OBL(((r) == (spec_i64_or(a0, a1))), "i64orc1: result equals the specified value");
  OBL(((inst.g0) == (a2)), "i64orc1: value two below the operands survives");
  OBL((vh_f64bits(inst.g3) == vh_f64bits(a3)), "i64orc1: value directly below the operands survives");
  OBL(g_libm_calls == 0, "i64orc1: no library call is involved");
  CANARY("i64orc1 returns");
}
void h_i64orc2(void) {
  ND(U64, a0);
  ND(U64, a1);
  ND(U64, a2);
  U64 r;
  g_libm_calls = 0;
  g_spec_trap = SPEC_NOTRAP;
  r = c01int_i64orc2(&inst, a0, a1, a2);
  OBL(g_spec_trap == SPEC_NOTRAP, "i64orc2: returned normally only if the specification does not trap");
  OBL(((r) == ((a2 ^ spec_i64_or(a0, a1)))), "i64orc2: result equals the specified value");
  OBL(g_libm_calls == 0, "i64orc2: no library call is involved");
  CANARY("i64orc2 returns");
}
void h_i64xorc0(void) {
  ND(U64, a0);
  ND(U64, a1);
  U64 r;
  g_libm_calls = 0;
  g_spec_trap = SPEC_NOTRAP;
  r = c01int_i64xorc0(&inst, a0, a1);
  OBL(g_spec_trap == SPEC_NOTRAP, "i64xorc0: returned normally only if the specification does not trap");
  OBL(((r) == (spec_i64_xor(a0, a1))), "i64xorc0: result equals the specified value");
  OBL(g_libm_calls == 0, "i64xorc0: no library call is involved");
  CANARY("i64xorc0 returns");
}
void h_i64xorc1(void) {
  ND(U64, a0);
  ND(U64, a1);
  ND(U32, a2);
  ND(F64, a3);
  U64 r;
  g_libm_calls = 0;
  g_spec_trap = SPEC_NOTRAP;
  r = c01int_i64xorc1(&inst, a0, a1, a2, a3);
  OBL(g_spec_trap == SPEC_NOTRAP, "i64xorc1: returned normally only if the specification does not trap");
  OBL(((r) == (spec_i64_xor(a0, a1))), "i64xorc1: result equals the specified value");
  OBL(((inst.g0) == (a2)), "i64xorc1: value two below the operands survives");
  OBL((vh_f64bits(inst.g3) == vh_f64bits(a3)), "i64xorc1: value directly below the operands survives");
  OBL(g_libm_calls == 0, "i64xorc1: no library call is involved");
  CANARY("i64xorc1 returns");
}
void h_i64xorc2(void) {
  ND(U64, a0);
  ND(U64, a1);
  ND(U64, a2);
  U64 r;
  g_libm_calls = 0;
  g_spec_trap = SPEC_NOTRAP;
  r = c01int_i64xorc2(&inst, a0, a1, a2);
  OBL(g_spec_trap == SPEC_NOTRAP, "i64xorc2: returned normally only if the specification does not trap");
  OBL(((r) == ((a2 ^ spec_i64_xor(a0, a1)))), "i64xorc2: result equals the specified value");
  OBL(g_libm_calls == 0, "i64xorc2: no library call is involved");
  CANARY("i64xorc2 returns");
}
void h_i64shlc0(void) {
  ND(U64, a0);
  ND(U64, a1);
  U64 r;
  g_libm_calls = 0;
  g_spec_trap = SPEC_NOTRAP;
  r = c01int_i64shlc0(&inst, a0, a1);
  OBL(g_spec_trap == SPEC_NOTRAP, "i64shlc0: returned normally only if the specification does not trap");
  OBL(((r) == (spec_i64_shl(a0, a1))), "i64shlc0: result equals the specified value");
  OBL(g_libm_calls == 0, "i64shlc0: no library call is involved");
  CANARY("i64shlc0 returns");
}
void h_i64shlc1(void) {
  ND(U64, a0);
  ND(U64, a1);
  ND(U32, a2);
  ND(F64, a3);
  U64 r;
  g_libm_calls = 0;
  g_spec_trap = SPEC_NOTRAP;
  r = c01int_i64shlc1(&inst, a0, a1, a2, a3);
  OBL(g_spec_trap == SPEC_NOTRAP, "i64shlc1: returned normally only if the specification does not trap");
  OBL(((r) == (spec_i64_shl(a0, a1))), "i64shlc1: result equals the specified value");
  OBL(((inst.g0) == (a2)), "i64shlc1: value two below the operands survives");
  OBL((vh_f64bits(inst.g3) == vh_f64bits(a3)), "i64shlc1: value directly below the operands survives");
  OBL(g_libm_calls == 0, "i64shlc1: no library call is involved");
  CANARY("i64shlc1 returns");
}
void h_i64shlc2(void) {
  ND(U64, a0);
  ND(U64, a1);
  ND(U64, a2);
  U64 r;
  g_libm_calls = 0;
  g_spec_trap = SPEC_NOTRAP;
  r = c01int_i64shlc2(&inst, a0, a1, a2);
  OBL(g_spec_trap == SPEC_NOTRAP, "i64shlc2: returned normally only if the specification does not trap");
  OBL(((r) == ((a2 ^ spec_i64_shl(a0, a1)))), "i64shlc2: result equals the specified value");
  OBL(g_libm_calls == 0, "i64shlc2: no library call is involved");
  CANARY("i64shlc2 returns");
}
void h_i64shrsc0(void) {
  ND(U64, a0);
  ND(U64, a1);
  U64 r;
  g_libm_calls = 0;
  g_spec_trap = SPEC_NOTRAP;
  r = c01int_i64shrsc0(&inst, a0, a1);
  OBL(g_spec_trap == SPEC_NOTRAP, "i64shrsc0: returned normally only if the specification does not trap");
  OBL(((r) == (spec_i64_shr_s(a0, a1))), "i64shrsc0: result equals the specified value");
  OBL(g_libm_calls == 0, "i64shrsc0: no library call is involved");
  CANARY("i64shrsc0 returns");
}
void h_i64shrsc1(void) {
  ND(U64, a0);
  ND(U64, a1);
  ND(U32, a2);
  ND(F64, a3);
  U64 r;
  g_libm_calls = 0;
  g_spec_trap = SPEC_NOTRAP;
  r = c01int_i64shrsc1(&inst, a0, a1, a2, a3);
  OBL(g_spec_trap == SPEC_NOTRAP, "i64shrsc1: returned normally only if the specification does not trap");
  OBL(((r) == (spec_i64_shr_s(a0, a1))), "i64shrsc1: result equals the specified value");
  OBL(((inst.g0) == (a2)), "i64shrsc1: value two below the operands survives");
  OBL((vh_f64bits(inst.g3) == vh_f64bits(a3)), "i64shrsc1: value directly below the operands survives");
  OBL(g_libm_calls == 0, "i64shrsc1: no library call is involved");
  CANARY("i64shrsc1 returns");
}
void h_i64shrsc2(void) {
  ND(U64, a0);
  ND(U64, a1);
  ND(U64, a2);
  U64 r;
  g_libm_calls = 0;
  g_spec_trap = SPEC_NOTRAP;
  r = c01int_i64shrsc2(&inst, a0, a1, a2);
  OBL(g_spec_trap == SPEC_NOTRAP, "i64shrsc2: returned normally only if the specification does not trap");
  OBL(((r) == ((a2 ^ spec_i64_shr_s(a0, a1)))), "i64shrsc2: result equals the specified value");
  OBL(g_libm_calls == 0, "i64shrsc2: no library call is involved");
  CANARY("i64shrsc2 returns");
}
void h_i64shruc0(void) {
  ND(U64, a0);
  ND(U64, a1);
  U64 r;
  g_libm_calls = 0;
  g_spec_trap = SPEC_NOTRAP;
  r = c01int_i64shruc0(&inst, a0, a1);
  OBL(g_spec_trap == SPEC_NOTRAP, "i64shruc0: returned normally only if the specification does not trap");
  OBL(((r) == (spec_i64_shr_u(a0, a1))), "i64shruc0: result equals the specified value");
  OBL(g_libm_calls == 0, "i64shruc0: no library call is involved");
  CANARY("i64shruc0 returns");
}
void h_i64shruc1(void) {
  ND(U64, a0);
  ND(U64, a1);
  ND(U32, a2);
  ND(F64, a3);
  U64 r;
  g_libm_calls = 0;
  g_spec_trap = SPEC_NOTRAP;
  r = c01int_i64shruc1(&inst, a0, a1, a2, a3);
  OBL(g_spec_trap == SPEC_NOTRAP, "i64shruc1: returned normally only if the specification does not trap");
  OBL(((r) == (spec_i64_shr_u(a0, a1))), "i64shruc1: result equals the specified value");
  OBL(((inst.g0) == (a2)), "i64shruc1: value two below the operands survives");
  OBL((vh_f64bits(inst.g3) == vh_f64bits(a3)), "i64shruc1: value directly below the operands survives");
  OBL(g_libm_calls == 0, "i64shruc1: no library call is involved");
  CANARY("i64shruc1 returns");
}
void h_i64shruc2(void) {
  ND(U64, a0);
  ND(U64, a1);
  ND(U64, a2);
  U64 r;
  g_libm_calls = 0;
  g_spec_trap = SPEC_NOTRAP;
  r = c01int_i64shruc2(&inst, a0, a1, a2);
  OBL(g_spec_trap == SPEC_NOTRAP, "i64shruc2: returned normally only if the specification does not trap");
  OBL(((r) == ((a2 ^ spec_i64_shr_u(a0, a1)))), "i64shruc2: result equals the specified value");
  OBL(g_libm_calls == 0, "i64shruc2: no library call is involved");
  CANARY("i64shruc2 returns");
}
void h_i64rotlc0(void) {
  ND(U64, a0);
  ND(U64, a1);
  U64 r;
  g_libm_calls = 0;
  g_spec_trap = SPEC_NOTRAP;
  r = c01int_i64rotlc0(&inst, a0, a1);
  OBL(g_spec_trap == SPEC_NOTRAP, "i64rotlc0: returned normally only if the specification does not trap");
  OBL(((r) == (spec_i64_rotl(a0, a1))), "i64rotlc0: result equals the specified value");
  OBL(g_libm_calls == 0, "i64rotlc0: no library call is involved");
  CANARY("i64rotlc0 returns");
}
void h_i64rotlc1(void) {
  ND(U64, a0);
  ND(U64, a1);
  ND(U32, a2);
  ND(F64, a3);
  U64 r;
  g_libm_calls = 0;
  g_spec_trap = SPEC_NOTRAP;
  r = c01int_i64rotlc1(&inst, a0, a1, a2, a3);
  OBL(g_spec_trap == SPEC_NOTRAP, "i64rotlc1: returned normally only if the specification does not trap");
  OBL(((r) == (spec_i64_rotl(a0, a1))), "i64rotlc1: result equals the specified value");
  OBL(((inst.g0) == (a2)), "i64rotlc1: value two below the operands survives");
  OBL((vh_f64bits(inst.g3) == vh_f64bits(a3)), "i64rotlc1: value directly below the operands survives");
  OBL(g_libm_calls == 0, "i64rotlc1: no library call is involved");
  CANARY("i64rotlc1 returns");
}
void h_i64rotlc2(void) {
  ND(U64, a0);
  ND(U64, a1);
  ND(U64, a2);
  U64 r;
  g_libm_calls = 0;
  g_spec_trap = SPEC_NOTRAP;
  r = c01int_i64rotlc2(&inst, a0, a1, a2);
  OBL(g_spec_trap == SPEC_NOTRAP, "i64rotlc2: returned normally only if the specification does not trap");
  OBL(((r) == ((a2 ^ spec_i64_rotl(a0, a1)))), "i64rotlc2: result equals the specified value");
  OBL(g_libm_calls == 0, "i64rotlc2: no library call is involved");
  CANARY("i64rotlc2 returns");
}
void h_i64rotrc0(void) {
  ND(U64, a0);
  ND(U64, a1);
  U64 r;
  g_libm_calls = 0;
  g_spec_trap = SPEC_NOTRAP;
  r = c01int_i64rotrc0(&inst, a0, a1);
  OBL(g_spec_trap == SPEC_NOTRAP, "i64rotrc0: returned normally only if the specification does not trap");
  OBL(((r) == (spec_i64_rotr(a0, a1))), "i64rotrc0: result equals the specified value");
  OBL(g_libm_calls == 0, "i64rotrc0: no library call is involved");
  CANARY("i64rotrc0 returns");
}
void h_i64rotrc1(void) {
  ND(U64, a0);
  ND(U64, a1);
  ND(U32, a2);
  ND(F64, a3);
  U64 r;
  g_libm_calls = 0;
  g_spec_trap = SPEC_NOTRAP;
  r = c01int_i64rotrc1(&inst, a0, a1, a2, a3);
  OBL(g_spec_trap == SPEC_NOTRAP, "i64rotrc1: returned normally only if the specification does not trap");
  OBL(((r) == (spec_i64_rotr(a0, a1))), "i64rotrc1: result equals the specified value");
  OBL(((inst.g0) == (a2)), "i64rotrc1: value two below the operands survives");
  OBL((vh_f64bits(inst.g3) == vh_f64bits(a3)), "i64rotrc1: value directly below the operands survives");
  OBL(g_libm_calls == 0, "i64rotrc1: no library call is involved");
  CANARY("i64rotrc1 returns");
}
void h_i64rotrc2(void) {
  ND(U64, a0);
  ND(U64, a1);
  ND(U64, a2);
  U64 r;
  g_libm_calls = 0;
  g_spec_trap = SPEC_NOTRAP;
  r = c01int_i64rotrc2(&inst, a0, a1, a2);
  OBL(g_spec_trap == SPEC_NOTRAP, "i64rotrc2: returned normally only if the specification does not trap");
  OBL(((r) == ((a2 ^ spec_i64_rotr(a0, a1)))), "i64rotrc2: result equals the specified value");
  OBL(g_libm_calls == 0, "i64rotrc2: no library call is involved");
  CANARY("i64rotrc2 returns");
}
void h_i64divsc0(void) {
  ND(U64, a0);
  ND(U64, a1);
  U64 r;
  g_libm_calls = 0;
  g_spec_trap = spec_div_s_trap64(a0, a1);
  r = c01int_i64divsc0(&inst, a0, a1);
  OBL(g_spec_trap == SPEC_NOTRAP, "i64divsc0: returned normally only if the specification does not trap");
  OBL(((r) == (spec_i64_div_s(a0, a1))), "i64divsc0: result equals the specified value");
  OBL(g_libm_calls == 0, "i64divsc0: no library call is involved");
  CANARY("i64divsc0 returns");
}
void h_i64divsc1(void) {
  ND(U64, a0);
  ND(U64, a1);
  ND(U32, a2);
  ND(F64, a3);
  U64 r;
  g_libm_calls = 0;
  g_spec_trap = spec_div_s_trap64(a0, a1);
  r = c01int_i64divsc1(&inst, a0, a1, a2, a3);
  OBL(g_spec_trap == SPEC_NOTRAP, "i64divsc1: returned normally only if the specification does not trap");
  OBL(((r) == (spec_i64_div_s(a0, a1))), "i64divsc1: result equals the specified value");
  OBL(((inst.g0) == (a2)), "i64divsc1: value two below the operands survives");
  OBL((vh_f64bits(inst.g3) == vh_f64bits(a3)), "i64divsc1: value directly below the operands survives");
  OBL(g_libm_calls == 0, "i64divsc1: no library call is involved");
  CANARY("i64divsc1 returns");
}
void h_i64divsc2(void) {
  ND(U64, a0);
  ND(U64, a1);
  ND(U64, a2);
  U64 r;
  g_libm_calls = 0;
  g_spec_trap = spec_div_s_trap64(a0, a1);
  r = c01int_i64divsc2(&inst, a0, a1, a2);
  OBL(g_spec_trap == SPEC_NOTRAP, "i64divsc2: returned normally only if the specification does not trap");
  OBL(((r) == ((a2 ^ spec_i64_div_s(a0, a1)))), "i64divsc2: result equals the specified value");
  OBL(g_libm_calls == 0, "i64divsc2: no library call is involved");
  CANARY("i64divsc2 returns");
}
void h_i64divuc0(void) {
  ND(U64, a0);
  ND(U64, a1);
  U64 r;
  g_libm_calls = 0;
  g_spec_trap = spec_divrem_u_trap64(a0, a1);
  r = c01int_i64divuc0(&inst, a0, a1);
  OBL(g_spec_trap == SPEC_NOTRAP, "i64divuc0: returned normally only if the specification does not trap");
  OBL(((r) == (spec_i64_div_u(a0, a1))), "i64divuc0: result equals the specified value");
  OBL(g_libm_calls == 0, "i64divuc0: no library call is involved");
  CANARY("i64divuc0 returns");
}
void h_i64divuc1(void) {
  ND(U64, a0);
  ND(U64, a1);
  ND(U32, a2);
  ND(F64, a3);
  U64 r;
  g_libm_calls = 0;
  g_spec_trap = spec_divrem_u_trap64(a0, a1);
  r = c01int_i64divuc1(&inst, a0, a1, a2, a3);
  OBL(g_spec_trap == SPEC_NOTRAP, "i64divuc1: returned normally only if the specification does not trap");
  OBL(((r) == (spec_i64_div_u(a0, a1))), "i64divuc1: result equals the specified value");
  OBL(((inst.g0) == (a2)), "i64divuc1: value two below the operands survives");
  OBL((vh_f64bits(inst.g3) == vh_f64bits(a3)), "i64divuc1: value directly below the operands survives");
  OBL(g_libm_calls == 0, "i64divuc1: no library call is involved");
  CANARY("i64divuc1 returns");
}
void h_i64divuc2(void) {
  ND(U64, a0);
  ND(U64, a1);
  ND(U64, a2);
  U64 r;
  g_libm_calls = 0;
  g_spec_trap = spec_divrem_u_trap64(a0, a1);
  r = c01int_i64divuc2(&inst, a0, a1, a2);
  OBL(g_spec_trap == SPEC_NOTRAP, "i64divuc2: returned normally only if the specification does not trap");
  OBL(((r) == ((a2 ^ spec_i64_div_u(a0, a1)))), "i64divuc2: result equals the specified value");
  OBL(g_libm_calls == 0, "i64divuc2: no library call is involved");
  CANARY("i64divuc2 returns");
}
void h_i64remsc0(void) {
  ND(U64, a0);
  ND(U64, a1);
  U64 r;
  g_libm_calls = 0;
  g_spec_trap = spec_rem_s_trap64(a0, a1);
  r = c01int_i64remsc0(&inst, a0, a1);
  OBL(g_spec_trap == SPEC_NOTRAP, "i64remsc0: returned normally only if the specification does not trap");
  OBL(((r) == (spec_i64_rem_s(a0, a1))), "i64remsc0: result equals the specified value");
  OBL(g_libm_calls == 0, "i64remsc0: no library call is involved");
  CANARY("i64remsc0 returns");
}
void h_i64remsc1(void) {
  ND(U64, a0);
  ND(U64, a1);
  ND(U32, a2);
  ND(F64, a3);
  U64 r;
  g_libm_calls = 0;
  g_spec_trap = spec_rem_s_trap64(a0, a1);
  r = c01int_i64remsc1(&inst, a0, a1, a2, a3);
  OBL(g_spec_trap == SPEC_NOTRAP, "i64remsc1: returned normally only if the specification does not trap");
  OBL(((r) == (spec_i64_rem_s(a0, a1))), "i64remsc1: result equals the specified value");
  OBL(((inst.g0) == (a2)), "i64remsc1: value two below the operands survives");
  OBL((vh_f64bits(inst.g3) == vh_f64bits(a3)), "i64remsc1: value directly below the operands survives");
  OBL(g_libm_calls == 0, "i64remsc1: no library call is involved");
  CANARY("i64remsc1 returns");
}
void h_i64remsc2(void) {
  ND(U64, a0);
  ND(U64, a1);
  ND(U64, a2);
  U64 r;
  g_libm_calls = 0;
  g_spec_trap = spec_rem_s_trap64(a0, a1);
  r = c01int_i64remsc2(&inst, a0, a1, a2);
  OBL(g_spec_trap == SPEC_NOTRAP, "i64remsc2: returned normally only if the specification does not trap");
  OBL(((r) == ((a2 ^ spec_i64_rem_s(a0, a1)))), "i64remsc2: result equals the specified value");
  OBL(g_libm_calls == 0, "i64remsc2: no library call is involved");
  CANARY("i64remsc2 returns");
}
void h_i64remuc0(void) {
  ND(U64, a0);
  ND(U64, a1);
  U64 r;
  g_libm_calls = 0;
  g_spec_trap = spec_divrem_u_trap64(a0, a1);
  r = c01int_i64remuc0(&inst, a0, a1);
  OBL(g_spec_trap == SPEC_NOTRAP, "i64remuc0: returned normally only if the specification does not trap");
  OBL(((r) == (spec_i64_rem_u(a0, a1))), "i64remuc0: result equals the specified value");
  OBL(g_libm_calls == 0, "i64remuc0: no library call is involved");
  CANARY("i64remuc0 returns");
}
void h_i64remuc1(void) {
  ND(U64, a0);
  ND(U64, a1);
  ND(U32, a2);
  ND(F64, a3);
  U64 r;
  g_libm_calls = 0;
  g_spec_trap = spec_divrem_u_trap64(a0, a1);
  r = c01int_i64remuc1(&inst, a0, a1, a2, a3);
  OBL(g_spec_trap == SPEC_NOTRAP, "i64remuc1: returned normally only if the specification does not trap");
  OBL(((r) == (spec_i64_rem_u(a0, a1))), "i64remuc1: result equals the specified value");
  OBL(((inst.g0) == (a2)), "i64remuc1: value two below the operands survives");
  OBL((vh_f64bits(inst.g3) == vh_f64bits(a3)), "i64remuc1: value directly below the operands survives");
  OBL(g_libm_calls == 0, "i64remuc1: no library call is involved");
  CANARY("i64remuc1 returns");
}
void h_i64remuc2(void) {
  ND(U64, a0);
  ND(U64, a1);
  ND(U64, a2);
  U64 r;
  g_libm_calls = 0;
  g_spec_trap = spec_divrem_u_trap64(a0, a1);
  r = c01int_i64remuc2(&inst, a0, a1, a2);
  OBL(g_spec_trap == SPEC_NOTRAP, "i64remuc2: returned normally only if the specification does not trap");
  OBL(((r) == ((a2 ^ spec_i64_rem_u(a0, a1)))), "i64remuc2: result equals the specified value");
  OBL(g_libm_calls == 0, "i64remuc2: no library call is involved");
  CANARY("i64remuc2 returns");
}
void h_i64eqc0(void) {
  ND(U64, a0);
  ND(U64, a1);
  U32 r;
  g_libm_calls = 0;
  g_spec_trap = SPEC_NOTRAP;
  r = c01int_i64eqc0(&inst, a0, a1);
  OBL(g_spec_trap == SPEC_NOTRAP, "i64eqc0: returned normally only if the specification does not trap");
  OBL(((r) == (spec_i64_eq(a0, a1))), "i64eqc0: result equals the specified value");
  OBL(g_libm_calls == 0, "i64eqc0: no library call is involved");
  CANARY("i64eqc0 returns");
}
void h_i64eqc1(void) {
  ND(U64, a0);
  ND(U64, a1);
  ND(U64, a2);
  ND(F32, a3);
  U32 r;
  g_libm_calls = 0;
  g_spec_trap = SPEC_NOTRAP;
  r = c01int_i64eqc1(&inst, a0, a1, a2, a3);
  OBL(g_spec_trap == SPEC_NOTRAP, "i64eqc1: returned normally only if the specification does not trap");
  OBL(((r) == (spec_i64_eq(a0, a1))), "i64eqc1: result equals the specified value");
  OBL(((inst.g1) == (a2)), "i64eqc1: value two below the operands survives");
  OBL((vh_f32bits(inst.g2) == vh_f32bits(a3)), "i64eqc1: value directly below the operands survives");
  OBL(g_libm_calls == 0, "i64eqc1: no library call is involved");
  CANARY("i64eqc1 returns");
}
void h_i64eqc2(void) {
  ND(U64, a0);
  ND(U64, a1);
  ND(U32, a2);
  U32 r;
  g_libm_calls = 0;
  g_spec_trap = SPEC_NOTRAP;
  r = c01int_i64eqc2(&inst, a0, a1, a2);
  OBL(g_spec_trap == SPEC_NOTRAP, "i64eqc2: returned normally only if the specification does not trap");
  OBL(((r) == ((a2 ^ spec_i64_eq(a0, a1)))), "i64eqc2: result equals the specified value");
  OBL(g_libm_calls == 0, "i64eqc2: no library call is involved");
  CANARY("i64eqc2 returns");
}
void h_i64nec0(void) {
  ND(U64, a0);
  ND(U64, a1);
  U32 r;
  g_libm_calls = 0;
  g_spec_trap = SPEC_NOTRAP;
  r = c01int_i64nec0(&inst, a0, a1);
  OBL(g_spec_trap == SPEC_NOTRAP, "i64nec0: returned normally only if the specification does not trap");
  OBL(((r) == (spec_i64_ne(a0, a1))), "i64nec0: result equals the specified value");
  OBL(g_libm_calls == 0, "i64nec0: no library call is involved");
  CANARY("i64nec0 returns");
}
void h_i64nec1(void) {
  ND(U64, a0);
  ND(U64, a1);
  ND(U64, a2);
  ND(F32, a3);
  U32 r;
  g_libm_calls = 0;
  g_spec_trap = SPEC_NOTRAP;
  r = c01int_i64nec1(&inst, a0, a1, a2, a3);
  OBL(g_spec_trap == SPEC_NOTRAP, "i64nec1: returned normally only if the specification does not trap");
  OBL(((r) == (spec_i64_ne(a0, a1))), "i64nec1: result equals the specified value");
  OBL(((inst.g1) == (a2)), "i64nec1: value two below the operands survives");
  OBL((vh_f32bits(inst.g2) == vh_f32bits(a3)), "i64nec1: value directly below the operands survives");
  OBL(g_libm_calls == 0, "i64nec1: no library call is involved");
  CANARY("i64nec1 returns");
}
void h_i64nec2(void) {
  ND(U64, a0);
  ND(U64, a1);
  ND(U32, a2);
  U32 r;
  g_libm_calls = 0;
  g_spec_trap = SPEC_NOTRAP;
  r = c01int_i64nec2(&inst, a0, a1, a2);
  OBL(g_spec_trap == SPEC_NOTRAP, "i64nec2: returned normally only if the specification does not trap");
  OBL(((r) == ((a2 ^ spec_i64_ne(a0, a1)))), "i64nec2: result equals the specified value");
  OBL(g_libm_calls == 0, "i64nec2: no library call is involved");
  CANARY("i64nec2 returns");
}
void h_i64ltsc0(void) {
  ND(U64, a0);
  ND(U64, a1);
  U32 r;
  g_libm_calls = 0;
  g_spec_trap = SPEC_NOTRAP;
  r = c01int_i64ltsc0(&inst, a0, a1);
  OBL(g_spec_trap == SPEC_NOTRAP, "i64ltsc0: returned normally only if the specification does not trap");
  OBL(((r) == (spec_i64_lt_s(a0, a1))), "i64ltsc0: result equals the specified value");
  OBL(g_libm_calls == 0, "i64ltsc0: no library call is involved");
  CANARY("i64ltsc0 returns");
}
void h_i64ltsc1(void) {
  ND(U64, a0);
  ND(U64, a1);
  ND(U64, a2);
  ND(F32, a3);
  U32 r;
  g_libm_calls = 0;
  g_spec_trap = SPEC_NOTRAP;
  r = c01int_i64ltsc1(&inst, a0, a1, a2, a3);
  OBL(g_spec_trap == SPEC_NOTRAP, "i64ltsc1: returned normally only if the specification does not trap");
  OBL(((r) == (spec_i64_lt_s(a0, a1))), "i64ltsc1: result equals the specified value");
  OBL(((inst.g1) == (a2)), "i64ltsc1: value two below the operands survives");
  OBL((vh_f32bits(inst.g2) == vh_f32bits(a3)), "i64ltsc1: value directly below the operands survives");
  OBL(g_libm_calls == 0, "i64ltsc1: no library call is involved");
  CANARY("i64ltsc1 returns");
}
void h_i64ltsc2(void) {
  ND(U64, a0);
  ND(U64, a1);
  ND(U32, a2);
  U32 r;
  g_libm_calls = 0;
  g_spec_trap = SPEC_NOTRAP;
  r = c01int_i64ltsc2(&inst, a0, a1, a2);
  OBL(g_spec_trap == SPEC_NOTRAP, "i64ltsc2: returned normally only if the specification does not trap");
  OBL(((r) == ((a2 ^ spec_i64_lt_s(a0, a1)))), "i64ltsc2: result equals the specified value");
  OBL(g_libm_calls == 0, "i64ltsc2: no library call is involved");
  CANARY("i64ltsc2 returns");
}
void h_i64ltuc0(void) {
  ND(U64, a0);
  ND(U64, a1);
  U32 r;
  g_libm_calls = 0;
  g_spec_trap = SPEC_NOTRAP;
  r = c01int_i64ltuc0(&inst, a0, a1);
  OBL(g_spec_trap == SPEC_NOTRAP, "i64ltuc0: returned normally only if the specification does not trap");
  OBL(((r) == (spec_i64_lt_u(a0, a1))), "i64ltuc0: result equals the specified value");
  OBL(g_libm_calls == 0, "i64ltuc0: no library call is involved");
  CANARY("i64ltuc0 returns");
}
void h_i64ltuc1(void) {
  ND(U64, a0);
  ND(U64, a1);
  ND(U64, a2);
  ND(F32, a3);
  U32 r;
  g_libm_calls = 0;
  g_spec_trap = SPEC_NOTRAP;
  r = c01int_i64ltuc1(&inst, a0, a1, a2, a3);
  OBL(g_spec_trap == SPEC_NOTRAP, "i64ltuc1: returned normally only if the specification does not trap");
  OBL(((r) == (spec_i64_lt_u(a0, a1))), "i64ltuc1: result equals the specified value");
  OBL(((inst.g1) == (a2)), "i64ltuc1: value two below the operands survives");
  OBL((vh_f32bits(inst.g2) == vh_f32bits(a3)), "i64ltuc1: value directly below the operands survives");
  OBL(g_libm_calls == 0, "i64ltuc1: no library call is involved");
  CANARY("i64ltuc1 returns");
}
void h_i64ltuc2(void) {
  ND(U64, a0);
  ND(U64, a1);
  ND(U32, a2);
  U32 r;
  g_libm_calls = 0;
  g_spec_trap = SPEC_NOTRAP;
  r = c01int_i64ltuc2(&inst, a0, a1, a2);
  OBL(g_spec_trap == SPEC_NOTRAP, "i64ltuc2: returned normally only if the specification does not trap");
  OBL(((r) == ((a2 ^ spec_i64_lt_u(a0, a1)))), "i64ltuc2: result equals the specified value");
  OBL(g_libm_calls == 0, "i64ltuc2: no library call is involved");
  CANARY("i64ltuc2 returns");
}
void h_i64gtsc0(void) {
  ND(U64, a0);
  ND(U64, a1);
  U32 r;
  g_libm_calls = 0;
  g_spec_trap = SPEC_NOTRAP;
  r = c01int_i64gtsc0(&inst, a0, a1);
  OBL(g_spec_trap == SPEC_NOTRAP, "i64gtsc0: returned normally only if the specification does not trap");
  OBL(((r) == (spec_i64_gt_s(a0, a1))), "i64gtsc0: result equals the specified value");
  OBL(g_libm_calls == 0, "i64gtsc0: no library call is involved");
  CANARY("i64gtsc0 returns");
}
void h_i64gtsc1(void) {
  ND(U64, a0);
  ND(U64, a1);
  ND(U64, a2);
  ND(F32, a3);
  U32 r;
  g_libm_calls = 0;
  g_spec_trap = SPEC_NOTRAP;
  r = c01int_i64gtsc1(&inst, a0, a1, a2, a3);
  OBL(g_spec_trap == SPEC_NOTRAP, "i64gtsc1: returned normally only if the specification does not trap");
  OBL(((r) == (spec_i64_gt_s(a0, a1))), "i64gtsc1: result equals the specified value");
  OBL(((inst.g1) == (a2)), "i64gtsc1: value two below the operands survives");
  OBL((vh_f32bits(inst.g2) == vh_f32bits(a3)), "i64gtsc1: value directly below the operands survives");
  OBL(g_libm_calls == 0, "i64gtsc1: no library call is involved");
  CANARY("i64gtsc1 returns");
}
void h_i64gtsc2(void) {
  ND(U64, a0);
  ND(U64, a1);
  ND(U32, a2);
  U32 r;
  g_libm_calls = 0;
  g_spec_trap = SPEC_NOTRAP;
  r = c01int_i64gtsc2(&inst, a0, a1, a2);
  OBL(g_spec_trap == SPEC_NOTRAP, "i64gtsc2: returned normally only if the specification does not trap");
  OBL(((r) == ((a2 ^ spec_i64_gt_s(a0, a1)))), "i64gtsc2: result equals the specified value");
  OBL(g_libm_calls == 0, "i64gtsc2: no library call is involved");
  CANARY("i64gtsc2 returns");
}
void h_i64gtuc0(void) {
  ND(U64, a0);
  ND(U64, a1);
  U32 r;
  g_libm_calls = 0;
  g_spec_trap = SPEC_NOTRAP;
  r = c01int_i64gtuc0(&inst, a0, a1);
  OBL(g_spec_trap == SPEC_NOTRAP, "i64gtuc0: returned normally only if the specification does not trap");
  OBL(((r) == (spec_i64_gt_u(a0, a1))), "i64gtuc0: result equals the specified value");
  OBL(g_libm_calls == 0, "i64gtuc0: no library call is involved");
  CANARY("i64gtuc0 returns");
}
void h_i64gtuc1(void) {
  ND(U64, a0);
  ND(U64, a1);
  ND(U64, a2);
  ND(F32, a3);
  U32 r;
  g_libm_calls = 0;
  g_spec_trap = SPEC_NOTRAP;
  r = c01int_i64gtuc1(&inst, a0, a1, a2, a3);
  OBL(g_spec_trap == SPEC_NOTRAP, "i64gtuc1: returned normally only if the specification does not trap");
  OBL(((r) == (spec_i64_gt_u(a0, a1))), "i64gtuc1: result equals the specified value");
  OBL(((inst.g1) == (a2)), "i64gtuc1: value two below the operands survives");
  OBL((vh_f32bits(inst.g2) == vh_f32bits(a3)), "i64gtuc1: value directly below the operands survives");
  OBL(g_libm_calls == 0, "i64gtuc1: no library call is involved");
  CANARY("i64gtuc1 returns");
}
void h_i64gtuc2(void) {
  ND(U64, a0);
  ND(U64, a1);
  ND(U32, a2);
  U32 r;
  g_libm_calls = 0;
  g_spec_trap = SPEC_NOTRAP;
  r = c01int_i64gtuc2(&inst, a0, a1, a2);
  OBL(g_spec_trap == SPEC_NOTRAP, "i64gtuc2: returned normally only if the specification does not trap");
  OBL(((r) == ((a2 ^ spec_i64_gt_u(a0, a1)))), "i64gtuc2: result equals the specified value");
  OBL(g_libm_calls == 0, "i64gtuc2: no library call is involved");
  CANARY("i64gtuc2 returns");
}
void h_i64lesc0(void) {
  ND(U64, a0);
  ND(U64, a1);
  U32 r;
  g_libm_calls = 0;
  g_spec_trap = SPEC_NOTRAP;
  r = c01int_i64lesc0(&inst, a0, a1);
  OBL(g_spec_trap == SPEC_NOTRAP, "i64lesc0: returned normally only if the specification does not trap");
  OBL(((r) == (spec_i64_le_s(a0, a1))), "i64lesc0: result equals the specified value");
  OBL(g_libm_calls == 0, "i64lesc0: no library call is involved");
  CANARY("i64lesc0 returns");
}
void h_i64lesc1(void) {
  ND(U64, a0);
  ND(U64, a1);
  ND(U64, a2);
  ND(F32, a3);
  U32 r;
  g_libm_calls = 0;
  g_spec_trap = SPEC_NOTRAP;
  r = c01int_i64lesc1(&inst, a0, a1, a2, a3);
  OBL(g_spec_trap == SPEC_NOTRAP, "i64lesc1: returned normally only if the specification does not trap");
  OBL(((r) == (spec_i64_le_s(a0, a1))), "i64lesc1: result equals the specified value");
  OBL(((inst.g1) == (a2)), "i64lesc1: value two below the operands survives");
  OBL((vh_f32bits(inst.g2) == vh_f32bits(a3)), "i64lesc1: value directly below the operands survives");
  OBL(g_libm_calls == 0, "i64lesc1: no library call is involved");
  CANARY("i64lesc1 returns");
}
void h_i64lesc2(void) {
  ND(U64, a0);
  ND(U64, a1);
  ND(U32, a2);
  U32 r;
  g_libm_calls = 0;
  g_spec_trap = SPEC_NOTRAP;
  r = c01int_i64lesc2(&inst, a0, a1, a2);
  OBL(g_spec_trap == SPEC_NOTRAP, "i64lesc2: returned normally only if the specification does not trap");
  OBL(((r) == ((a2 ^ spec_i64_le_s(a0, a1)))), "i64lesc2: result equals the specified value");
  OBL(g_libm_calls == 0, "i64lesc2: no library call is involved");
  CANARY("i64lesc2 returns");
}
void h_i64leuc0(void) {
  ND(U64, a0);
  ND(U64, a1);
  U32 r;
  g_libm_calls = 0;
  g_spec_trap = SPEC_NOTRAP;
  r = c01int_i64leuc0(&inst, a0, a1);
  OBL(g_spec_trap == SPEC_NOTRAP, "i64leuc0: returned normally only if the specification does not trap");
  OBL(((r) == (spec_i64_le_u(a0, a1))), "i64leuc0: result equals the specified value");
  OBL(g_libm_calls == 0, "i64leuc0: no library call is involved");
  CANARY("i64leuc0 returns");
}
void h_i64leuc1(void) {
  ND(U64, a0);
  ND(U64, a1);
  ND(U64, a2);
  ND(F32, a3);
  U32 r;
  g_libm_calls = 0;
  g_spec_trap = SPEC_NOTRAP;
  r = c01int_i64leuc1(&inst, a0, a1, a2, a3);
  OBL(g_spec_trap == SPEC_NOTRAP, "i64leuc1: returned normally only if the specification does not trap");
  OBL(((r) == (spec_i64_le_u(a0, a1))), "i64leuc1: result equals the specified value");
  OBL(((inst.g1) == (a2)), "i64leuc1: value two below the operands survives");
  OBL((vh_f32bits(inst.g2) == vh_f32bits(a3)), "i64leuc1: value directly below the operands survives");
  OBL(g_libm_calls == 0, "i64leuc1: no library call is involved");
  CANARY("i64leuc1 returns");
}
void h_i64leuc2(void) {
  ND(U64, a0);
  ND(U64, a1);
  ND(U32, a2);
  U32 r;
  g_libm_calls = 0;
  g_spec_trap = SPEC_NOTRAP;
  r = c01int_i64leuc2(&inst, a0, a1, a2);
  OBL(g_spec_trap == SPEC_NOTRAP, "i64leuc2: returned normally only if the specification does not trap");
  OBL(((r) == ((a2 ^ spec_i64_le_u(a0, a1)))), "i64leuc2: result equals the specified value");
  OBL(g_libm_calls == 0, "i64leuc2: no library call is involved");
  CANARY("i64leuc2 returns");
}
void h_i64gesc0(void) {
  ND(U64, a0);
  ND(U64, a1);
  U32 r;
  g_libm_calls = 0;
  g_spec_trap = SPEC_NOTRAP;
  r = c01int_i64gesc0(&inst, a0, a1);
  OBL(g_spec_trap == SPEC_NOTRAP, "i64gesc0: returned normally only if the specification does not trap");
  OBL(((r) == (spec_i64_ge_s(a0, a1))), "i64gesc0: result equals the specified value");
  OBL(g_libm_calls == 0, "i64gesc0: no library call is involved");
  CANARY("i64gesc0 returns");
}
void h_i64gesc1(void) {
  ND(U64, a0);
  ND(U64, a1);
  ND(U64, a2);
  ND(F32, a3);
  U32 r;
  g_libm_calls = 0;
  g_spec_trap = SPEC_NOTRAP;
  r = c01int_i64gesc1(&inst, a0, a1, a2, a3);
  OBL(g_spec_trap == SPEC_NOTRAP, "i64gesc1: returned normally only if the specification does not trap");
  OBL(((r) == (spec_i64_ge_s(a0, a1))), "i64gesc1: result equals the specified value");
  OBL(((inst.g1) == (a2)), "i64gesc1: value two below the operands survives");
  OBL((vh_f32bits(inst.g2) == vh_f32bits(a3)), "i64gesc1: value directly below the operands survives");
  OBL(g_libm_calls == 0, "i64gesc1: no library call is involved");
  CANARY("i64gesc1 returns");
}
void h_i64gesc2(void) {
  ND(U64, a0);
  ND(U64, a1);
  ND(U32, a2);
  U32 r;
  g_libm_calls = 0;
  g_spec_trap = SPEC_NOTRAP;
  r = c01int_i64gesc2(&inst, a0, a1, a2);
  OBL(g_spec_trap == SPEC_NOTRAP, "i64gesc2: returned normally only if the specification does not trap");
  OBL(((r) == ((a2 ^ spec_i64_ge_s(a0, a1)))), "i64gesc2: result equals the specified value");
  OBL(g_libm_calls == 0, "i64gesc2: no library call is involved");
  CANARY("i64gesc2 returns");
}
void h_i64geuc0(void) {
  ND(U64, a0);
  ND(U64, a1);
  U32 r;
  g_libm_calls = 0;
  g_spec_trap = SPEC_NOTRAP;
  r = c01int_i64geuc0(&inst, a0, a1);
  OBL(g_spec_trap == SPEC_NOTRAP, "i64geuc0: returned normally only if the specification does not trap");
  OBL(((r) == (spec_i64_ge_u(a0, a1))), "i64geuc0: result equals the specified value");
  OBL(g_libm_calls == 0, "i64geuc0: no library call is involved");
  CANARY("i64geuc0 returns");
}
void h_i64geuc1(void) {
  ND(U64, a0);
  ND(U64, a1);
  ND(U64, a2);
  ND(F32, a3);
  U32 r;
  g_libm_calls = 0;
  g_spec_trap = SPEC_NOTRAP;
  r = c01int_i64geuc1(&inst, a0, a1, a2, a3);
  OBL(g_spec_trap == SPEC_NOTRAP, "i64geuc1: returned normally only if the specification does not trap");
  OBL(((r) == (spec_i64_ge_u(a0, a1))), "i64geuc1: result equals the specified value");
  OBL(((inst.g1) == (a2)), "i64geuc1: value two below the operands survives");
  OBL((vh_f32bits(inst.g2) == vh_f32bits(a3)), "i64geuc1: value directly below the operands survives");
  OBL(g_libm_calls == 0, "i64geuc1: no library call is involved");
  CANARY("i64geuc1 returns");
}
void h_i64geuc2(void) {
  ND(U64, a0);
  ND(U64, a1);
  ND(U32, a2);
  U32 r;
  g_libm_calls = 0;
  g_spec_trap = SPEC_NOTRAP;
  r = c01int_i64geuc2(&inst, a0, a1, a2);
  OBL(g_spec_trap == SPEC_NOTRAP, "i64geuc2: returned normally only if the specification does not trap");
  OBL(((r) == ((a2 ^ spec_i64_ge_u(a0, a1)))), "i64geuc2: result equals the specified value");
  OBL(g_libm_calls == 0, "i64geuc2: no library call is involved");
  CANARY("i64geuc2 returns");
}
void h_i64eqzc0(void) {
  ND(U64, a0);
  U32 r;
  g_libm_calls = 0;
  g_spec_trap = SPEC_NOTRAP;
  r = c01int_i64eqzc0(&inst, a0);
  OBL(g_spec_trap == SPEC_NOTRAP, "i64eqzc0: returned normally only if the specification does not trap");
  OBL(((r) == (spec_i64_eqz(a0))), "i64eqzc0: result equals the specified value");
  OBL(g_libm_calls == 0, "i64eqzc0: no library call is involved");
  CANARY("i64eqzc0 returns");
}
void h_i64eqzc1(void) {
  ND(U64, a0);
  ND(U64, a1);
  ND(F32, a2);
  U32 r;
  g_libm_calls = 0;
  g_spec_trap = SPEC_NOTRAP;
  r = c01int_i64eqzc1(&inst, a0, a1, a2);
  OBL(g_spec_trap == SPEC_NOTRAP, "i64eqzc1: returned normally only if the specification does not trap");
  OBL(((r) == (spec_i64_eqz(a0))), "i64eqzc1: result equals the specified value");
  OBL(((inst.g1) == (a1)), "i64eqzc1: value two below the operands survives");
  OBL((vh_f32bits(inst.g2) == vh_f32bits(a2)), "i64eqzc1: value directly below the operands survives");
  OBL(g_libm_calls == 0, "i64eqzc1: no library call is involved");
  CANARY("i64eqzc1 returns");
}
void h_i64eqzc2(void) {
  ND(U64, a0);
  ND(U32, a1);
  U32 r;
  g_libm_calls = 0;
  g_spec_trap = SPEC_NOTRAP;
  r = c01int_i64eqzc2(&inst, a0, a1);
  OBL(g_spec_trap == SPEC_NOTRAP, "i64eqzc2: returned normally only if the specification does not trap");
  OBL(((r) == ((a1 ^ spec_i64_eqz(a0)))), "i64eqzc2: result equals the specified value");
  OBL(g_libm_calls == 0, "i64eqzc2: no library call is involved");
  CANARY("i64eqzc2 returns");
}
void h_i64clzc0(void) {
  ND(U64, a0);
  U64 r;
  g_libm_calls = 0;
  g_spec_trap = SPEC_NOTRAP;
  r = c01int_i64clzc0(&inst, a0);
  OBL(g_spec_trap == SPEC_NOTRAP, "i64clzc0: returned normally only if the specification does not trap");
  OBL(((r) == (spec_i64_clz(a0))), "i64clzc0: result equals the specified value");
  OBL(g_libm_calls == 0, "i64clzc0: no library call is involved");
  CANARY("i64clzc0 returns");
}
void h_i64clzc1(void) {
  ND(U64, a0);
  ND(U32, a1);
  ND(F64, a2);
  U64 r;
  g_libm_calls = 0;
  g_spec_trap = SPEC_NOTRAP;
  r = c01int_i64clzc1(&inst, a0, a1, a2);
  OBL(g_spec_trap == SPEC_NOTRAP, "i64clzc1: returned normally only if the specification does not trap");
  OBL(((r) == (spec_i64_clz(a0))), "i64clzc1: result equals the specified value");
  OBL(((inst.g0) == (a1)), "i64clzc1: value two below the operands survives");
  OBL((vh_f64bits(inst.g3) == vh_f64bits(a2)), "i64clzc1: value directly below the operands survives");
  OBL(g_libm_calls == 0, "i64clzc1: no library call is involved");
  CANARY("i64clzc1 returns");
}
void h_i64clzc2(void) {
  ND(U64, a0);
  ND(U64, a1);
  U64 r;
  g_libm_calls = 0;
  g_spec_trap = SPEC_NOTRAP;
  r = c01int_i64clzc2(&inst, a0, a1);
  OBL(g_spec_trap == SPEC_NOTRAP, "i64clzc2: returned normally only if the specification does not trap");
  OBL(((r) == ((a1 ^ spec_i64_clz(a0)))), "i64clzc2: result equals the specified value");
  OBL(g_libm_calls == 0, "i64clzc2: no library call is involved");
  CANARY("i64clzc2 returns");
}
void h_i64ctzc0(void) {
  ND(U64, a0);
  U64 r;
  g_libm_calls = 0;
  g_spec_trap = SPEC_NOTRAP;
  r = c01int_i64ctzc0(&inst, a0);
  OBL(g_spec_trap == SPEC_NOTRAP, "i64ctzc0: returned normally only if the specification does not trap");
  OBL(((r) == (spec_i64_ctz(a0))), "i64ctzc0: result equals the specified value");
  OBL(g_libm_calls == 0, "i64ctzc0: no library call is involved");
  CANARY("i64ctzc0 returns");
}
void h_i64ctzc1(void) {
  ND(U64, a0);
  ND(U32, a1);
  ND(F64, a2);
  U64 r;
  g_libm_calls = 0;
  g_spec_trap = SPEC_NOTRAP;
  r = c01int_i64ctzc1(&inst, a0, a1, a2);
  OBL(g_spec_trap == SPEC_NOTRAP, "i64ctzc1: returned normally only if the specification does not trap");
  OBL(((r) == (spec_i64_ctz(a0))), "i64ctzc1: result equals the specified value");
  OBL(((inst.g0) == (a1)), "i64ctzc1: value two below the operands survives");
  OBL((vh_f64bits(inst.g3) == vh_f64bits(a2)), "i64ctzc1: value directly below the operands survives");
  OBL(g_libm_calls == 0, "i64ctzc1: no library call is involved");
  CANARY("i64ctzc1 returns");
}
void h_i64ctzc2(void) {
  ND(U64, a0);
  ND(U64, a1);
  U64 r;
  g_libm_calls = 0;
  g_spec_trap = SPEC_NOTRAP;
  r = c01int_i64ctzc2(&inst, a0, a1);
  OBL(g_spec_trap == SPEC_NOTRAP, "i64ctzc2: returned normally only if the specification does not trap");
  OBL(((r) == ((a1 ^ spec_i64_ctz(a0)))), "i64ctzc2: result equals the specified value");
  OBL(g_libm_calls == 0, "i64ctzc2: no library call is involved");
  CANARY("i64ctzc2 returns");
}
void h_i64popcntc0(void) {
  ND(U64, a0);
  U64 r;
  g_libm_calls = 0;
  g_spec_trap = SPEC_NOTRAP;
  r = c01int_i64popcntc0(&inst, a0);
  OBL(g_spec_trap == SPEC_NOTRAP, "i64popcntc0: returned normally only if the specification does not trap");
  OBL(((r) == (spec_i64_popcnt(a0))), "i64popcntc0: result equals the specified value");
  OBL(g_libm_calls == 0, "i64popcntc0: no library call is involved");
  CANARY("i64popcntc0 returns");
}
void h_i64popcntc1(void) {
  ND(U64, a0);
  ND(U32, a1);
  ND(F64, a2);
  U64 r;
  g_libm_calls = 0;
  g_spec_trap = SPEC_NOTRAP;
  r = c01int_i64popcntc1(&inst, a0, a1, a2);
  OBL(g_spec_trap == SPEC_NOTRAP, "i64popcntc1: returned normally only if the specification does not trap");
  OBL(((r) == (spec_i64_popcnt(a0))), "i64popcntc1: result equals the specified value");
  OBL(((inst.g0) == (a1)), "i64popcntc1: value two below the operands survives");
  OBL((vh_f64bits(inst.g3) == vh_f64bits(a2)), "i64popcntc1: value directly below the operands survives");
  OBL(g_libm_calls == 0, "i64popcntc1: no library call is involved");
  CANARY("i64popcntc1 returns");
}
void h_i64popcntc2(void) {
  ND(U64, a0);
  ND(U64, a1);
  U64 r;
  g_libm_calls = 0;
  g_spec_trap = SPEC_NOTRAP;
  r = c01int_i64popcntc2(&inst, a0, a1);
  OBL(g_spec_trap == SPEC_NOTRAP, "i64popcntc2: returned normally only if the specification does not trap");
  OBL(((r) == ((a1 ^ spec_i64_popcnt(a0)))), "i64popcntc2: result equals the specified value");
  OBL(g_libm_calls == 0, "i64popcntc2: no library call is involved");
  CANARY("i64popcntc2 returns");
}
void h_i32extend8sc0(void) {
  ND(U32, a0);
  U32 r;
  g_libm_calls = 0;
  g_spec_trap = SPEC_NOTRAP;
  r = c01int_i32extend8sc0(&inst, a0);
  OBL(g_spec_trap == SPEC_NOTRAP, "i32extend8sc0: returned normally only if the specification does not trap");
  OBL(((r) == (spec_i32_extend8_s(a0))), "i32extend8sc0: result equals the specified value");
  OBL(g_libm_calls == 0, "i32extend8sc0: no library call is involved");
  CANARY("i32extend8sc0 returns");
}
void h_i32extend8sc1(void) {
  ND(U32, a0);
  ND(U64, a1);
  ND(F32, a2);
  U32 r;
  g_libm_calls = 0;
  g_spec_trap = SPEC_NOTRAP;
  r = c01int_i32extend8sc1(&inst, a0, a1, a2);
  OBL(g_spec_trap == SPEC_NOTRAP, "i32extend8sc1: returned normally only if the specification does not trap");
  OBL(((r) == (spec_i32_extend8_s(a0))), "i32extend8sc1: result equals the specified value");
  OBL(((inst.g1) == (a1)), "i32extend8sc1: value two below the operands survives");
  OBL((vh_f32bits(inst.g2) == vh_f32bits(a2)), "i32extend8sc1: value directly below the operands survives");
  OBL(g_libm_calls == 0, "i32extend8sc1: no library call is involved");
  CANARY("i32extend8sc1 returns");
}
void h_i32extend8sc2(void) {
  ND(U32, a0);
  ND(U32, a1);
  U32 r;
  g_libm_calls = 0;
  g_spec_trap = SPEC_NOTRAP;
  r = c01int_i32extend8sc2(&inst, a0, a1);
  OBL(g_spec_trap == SPEC_NOTRAP, "i32extend8sc2: returned normally only if the specification does not trap");
  OBL(((r) == ((a1 ^ spec_i32_extend8_s(a0)))), "i32extend8sc2: result equals the specified value");
  OBL(g_libm_calls == 0, "i32extend8sc2: no library call is involved");
  CANARY("i32extend8sc2 returns");
}
void h_i32extend16sc0(void) {
  ND(U32, a0);
  U32 r;
  g_libm_calls = 0;
  g_spec_trap = SPEC_NOTRAP;
  r = c01int_i32extend16sc0(&inst, a0);
  OBL(g_spec_trap == SPEC_NOTRAP, "i32extend16sc0: returned normally only if the specification does not trap");
  OBL(((r) == (spec_i32_extend16_s(a0))), "i32extend16sc0: result equals the specified value");
  OBL(g_libm_calls == 0, "i32extend16sc0: no library call is involved");
  CANARY("i32extend16sc0 returns");
}
void h_i32extend16sc1(void) {
  ND(U32, a0);
  ND(U64, a1);
  ND(F32, a2);
  U32 r;
  g_libm_calls = 0;
  g_spec_trap = SPEC_NOTRAP;
  r = c01int_i32extend16sc1(&inst, a0, a1, a2);
  OBL(g_spec_trap == SPEC_NOTRAP, "i32extend16sc1: returned normally only if the specification does not trap");
  OBL(((r) == (spec_i32_extend16_s(a0))), "i32extend16sc1: result equals the specified value");
  OBL(((inst.g1) == (a1)), "i32extend16sc1: value two below the operands survives");
  OBL((vh_f32bits(inst.g2) == vh_f32bits(a2)), "i32extend16sc1: value directly below the operands survives");
  OBL(g_libm_calls == 0, "i32extend16sc1: no library call is involved");
  CANARY("i32extend16sc1 returns");
}
void h_i32extend16sc2(void) {
  ND(U32, a0);
  ND(U32, a1);
  U32 r;
  g_libm_calls = 0;
  g_spec_trap = SPEC_NOTRAP;
  r = c01int_i32extend16sc2(&inst, a0, a1);
  OBL(g_spec_trap == SPEC_NOTRAP, "i32extend16sc2: returned normally only if the specification does not trap");
  OBL(((r) == ((a1 ^ spec_i32_extend16_s(a0)))), "i32extend16sc2: result equals the specified value");
  OBL(g_libm_calls == 0, "i32extend16sc2: no library call is involved");
  CANARY("i32extend16sc2 returns");
}
void h_i64extend8sc0(void) {
  ND(U64, a0);
  U64 r;
  g_libm_calls = 0;
  g_spec_trap = SPEC_NOTRAP;
  r = c01int_i64extend8sc0(&inst, a0);
  OBL(g_spec_trap == SPEC_NOTRAP, "i64extend8sc0: returned normally only if the specification does not trap");
  OBL(((r) == (spec_i64_extend8_s(a0))), "i64extend8sc0: result equals the specified value");
  OBL(g_libm_calls == 0, "i64extend8sc0: no library call is involved");
  CANARY("i64extend8sc0 returns");
}
void h_i64extend8sc1(void) {
  ND(U64, a0);
  ND(U32, a1);
  ND(F64, a2);
  U64 r;
  g_libm_calls = 0;
  g_spec_trap = SPEC_NOTRAP;
  r = c01int_i64extend8sc1(&inst, a0, a1, a2);
  OBL(g_spec_trap == SPEC_NOTRAP, "i64extend8sc1: returned normally only if the specification does not trap");
  OBL(((r) == (spec_i64_extend8_s(a0))), "i64extend8sc1: result equals the specified value");
  OBL(((inst.g0) == (a1)), "i64extend8sc1: value two below the operands survives");
  OBL((vh_f64bits(inst.g3) == vh_f64bits(a2)), "i64extend8sc1: value directly below the operands survives");
  OBL(g_libm_calls == 0, "i64extend8sc1: no library call is involved");
  CANARY("i64extend8sc1 returns");
}
void h_i64extend8sc2(void) {
  ND(U64, a0);
  ND(U64, a1);
  U64 r;
  g_libm_calls = 0;
  g_spec_trap = SPEC_NOTRAP;
  r = c01int_i64extend8sc2(&inst, a0, a1);
  OBL(g_spec_trap == SPEC_NOTRAP, "i64extend8sc2: returned normally only if the specification does not trap");
  OBL(((r) == ((a1 ^ spec_i64_extend8_s(a0)))), "i64extend8sc2: result equals the specified value");
  OBL(g_libm_calls == 0, "i64extend8sc2: no library call is involved");
  CANARY("i64extend8sc2 returns");
}
void h_i64extend16sc0(void) {
  ND(U64, a0);
  U64 r;
  g_libm_calls = 0;
  g_spec_trap = SPEC_NOTRAP;
  r = c01int_i64extend16sc0(&inst, a0);
  OBL(g_spec_trap == SPEC_NOTRAP, "i64extend16sc0: returned normally only if the specification does not trap");
  OBL(((r) == (spec_i64_extend16_s(a0))), "i64extend16sc0: result equals the specified value");
  OBL(g_libm_calls == 0, "i64extend16sc0: no library call is involved");
  CANARY("i64extend16sc0 returns");
}
void h_i64extend16sc1(void) {
  ND(U64, a0);
  ND(U32, a1);
  ND(F64, a2);
  U64 r;
  g_libm_calls = 0;
  g_spec_trap = SPEC_NOTRAP;
  r = c01int_i64extend16sc1(&inst, a0, a1, a2);
  OBL(g_spec_trap == SPEC_NOTRAP, "i64extend16sc1: returned normally only if the specification does not trap");
  OBL(((r) == (spec_i64_extend16_s(a0))), "i64extend16sc1: result equals the specified value");
  OBL(((inst.g0) == (a1)), "i64extend16sc1: value two below the operands survives");
  OBL((vh_f64bits(inst.g3) == vh_f64bits(a2)), "i64extend16sc1: value directly below the operands survives");
  OBL(g_libm_calls == 0, "i64extend16sc1: no library call is involved");
  CANARY("i64extend16sc1 returns");
}
void h_i64extend16sc2(void) {
  ND(U64, a0);
  ND(U64, a1);
  U64 r;
  g_libm_calls = 0;
  g_spec_trap = SPEC_NOTRAP;
  r = c01int_i64extend16sc2(&inst, a0, a1);
  OBL(g_spec_trap == SPEC_NOTRAP, "i64extend16sc2: returned normally only if the specification does not trap");
  OBL(((r) == ((a1 ^ spec_i64_extend16_s(a0)))), "i64extend16sc2: result equals the specified value");
  OBL(g_libm_calls == 0, "i64extend16sc2: no library call is involved");
  CANARY("i64extend16sc2 returns");
}
void h_i64extend32sc0(void) {
  ND(U64, a0);
  U64 r;
  g_libm_calls = 0;
  g_spec_trap = SPEC_NOTRAP;
  r = c01int_i64extend32sc0(&inst, a0);
  OBL(g_spec_trap == SPEC_NOTRAP, "i64extend32sc0: returned normally only if the specification does not trap");
  OBL(((r) == (spec_i64_extend32_s(a0))), "i64extend32sc0: result equals the specified value");
  OBL(g_libm_calls == 0, "i64extend32sc0: no library call is involved");
  CANARY("i64extend32sc0 returns");
}
void h_i64extend32sc1(void) {
  ND(U64, a0);
  ND(U32, a1);
  ND(F64, a2);
  U64 r;
  g_libm_calls = 0;
  g_spec_trap = SPEC_NOTRAP;
  r = c01int_i64extend32sc1(&inst, a0, a1, a2);
  OBL(g_spec_trap == SPEC_NOTRAP, "i64extend32sc1: returned normally only if the specification does not trap");
  OBL(((r) == (spec_i64_extend32_s(a0))), "i64extend32sc1: result equals the specified value");
  OBL(((inst.g0) == (a1)), "i64extend32sc1: value two below the operands survives");
  OBL((vh_f64bits(inst.g3) == vh_f64bits(a2)), "i64extend32sc1: value directly below the operands survives");
  OBL(g_libm_calls == 0, "i64extend32sc1: no library call is involved");
  CANARY("i64extend32sc1 returns");
}
void h_i64extend32sc2(void) {
  ND(U64, a0);
  ND(U64, a1);
  U64 r;
  g_libm_calls = 0;
  g_spec_trap = SPEC_NOTRAP;
  r = c01int_i64extend32sc2(&inst, a0, a1);
  OBL(g_spec_trap == SPEC_NOTRAP, "i64extend32sc2: returned normally only if the specification does not trap");
  OBL(((r) == ((a1 ^ spec_i64_extend32_s(a0)))), "i64extend32sc2: result equals the specified value");
  OBL(g_libm_calls == 0, "i64extend32sc2: no library call is involved");
  CANARY("i64extend32sc2 returns");
}
void h_i32wrapi64c0(void) {
  ND(U64, a0);
  U32 r;
  g_libm_calls = 0;
  g_spec_trap = SPEC_NOTRAP;
  r = c01int_i32wrapi64c0(&inst, a0);
  OBL(g_spec_trap == SPEC_NOTRAP, "i32wrapi64c0: returned normally only if the specification does not trap");
  OBL(((r) == (spec_i32_wrap_i64(a0))), "i32wrapi64c0: result equals the specified value");
  OBL(g_libm_calls == 0, "i32wrapi64c0: no library call is involved");
  CANARY("i32wrapi64c0 returns");
}
void h_i32wrapi64c1(void) {
  ND(U64, a0);
  ND(U64, a1);
  ND(F32, a2);
  U32 r;
  g_libm_calls = 0;
  g_spec_trap = SPEC_NOTRAP;
  r = c01int_i32wrapi64c1(&inst, a0, a1, a2);
  OBL(g_spec_trap == SPEC_NOTRAP, "i32wrapi64c1: returned normally only if the specification does not trap");
  OBL(((r) == (spec_i32_wrap_i64(a0))), "i32wrapi64c1: result equals the specified value");
  OBL(((inst.g1) == (a1)), "i32wrapi64c1: value two below the operands survives");
  OBL((vh_f32bits(inst.g2) == vh_f32bits(a2)), "i32wrapi64c1: value directly below the operands survives");
  OBL(g_libm_calls == 0, "i32wrapi64c1: no library call is involved");
  CANARY("i32wrapi64c1 returns");
}
void h_i32wrapi64c2(void) {
  ND(U64, a0);
  ND(U32, a1);
  U32 r;
  g_libm_calls = 0;
  g_spec_trap = SPEC_NOTRAP;
  r = c01int_i32wrapi64c2(&inst, a0, a1);
  OBL(g_spec_trap == SPEC_NOTRAP, "i32wrapi64c2: returned normally only if the specification does not trap");
  OBL(((r) == ((a1 ^ spec_i32_wrap_i64(a0)))), "i32wrapi64c2: result equals the specified value");
  OBL(g_libm_calls == 0, "i32wrapi64c2: no library call is involved");
  CANARY("i32wrapi64c2 returns");
}
void h_i64extendi32sc0(void) {
  ND(U32, a0);
  U64 r;
  g_libm_calls = 0;
  g_spec_trap = SPEC_NOTRAP;
  r = c01int_i64extendi32sc0(&inst, a0);
  OBL(g_spec_trap == SPEC_NOTRAP, "i64extendi32sc0: returned normally only if the specification does not trap");
  OBL(((r) == (spec_i64_extend_i32_s(a0))), "i64extendi32sc0: result equals the specified value");
  OBL(g_libm_calls == 0, "i64extendi32sc0: no library call is involved");
  CANARY("i64extendi32sc0 returns");
}
void h_i64extendi32sc1(void) {
  ND(U32, a0);
  ND(U32, a1);
  ND(F64, a2);
  U64 r;
  g_libm_calls = 0;
  g_spec_trap = SPEC_NOTRAP;
  r = c01int_i64extendi32sc1(&inst, a0, a1, a2);
  OBL(g_spec_trap == SPEC_NOTRAP, "i64extendi32sc1: returned normally only if the specification does not trap");
  OBL(((r) == (spec_i64_extend_i32_s(a0))), "i64extendi32sc1: result equals the specified value");
  OBL(((inst.g0) == (a1)), "i64extendi32sc1: value two below the operands survives");
  OBL((vh_f64bits(inst.g3) == vh_f64bits(a2)), "i64extendi32sc1: value directly below the operands survives");
  OBL(g_libm_calls == 0, "i64extendi32sc1: no library call is involved");
  CANARY("i64extendi32sc1 returns");
}
void h_i64extendi32sc2(void) {
  ND(U32, a0);
  ND(U64, a1);
  U64 r;
  g_libm_calls = 0;
  g_spec_trap = SPEC_NOTRAP;
  r = c01int_i64extendi32sc2(&inst, a0, a1);
  OBL(g_spec_trap == SPEC_NOTRAP, "i64extendi32sc2: returned normally only if the specification does not trap");
  OBL(((r) == ((a1 ^ spec_i64_extend_i32_s(a0)))), "i64extendi32sc2: result equals the specified value");
  OBL(g_libm_calls == 0, "i64extendi32sc2: no library call is involved");
  CANARY("i64extendi32sc2 returns");
}
void h_i64extendi32uc0(void) {
  ND(U32, a0);
  U64 r;
  g_libm_calls = 0;
  g_spec_trap = SPEC_NOTRAP;
  r = c01int_i64extendi32uc0(&inst, a0);
  OBL(g_spec_trap == SPEC_NOTRAP, "i64extendi32uc0: returned normally only if the specification does not trap");
  OBL(((r) == (spec_i64_extend_i32_u(a0))), "i64extendi32uc0: result equals the specified value");
  OBL(g_libm_calls == 0, "i64extendi32uc0: no library call is involved");
  CANARY("i64extendi32uc0 returns");
}
void h_i64extendi32uc1(void) {
  ND(U32, a0);
  ND(U32, a1);
  ND(F64, a2);
  U64 r;
  g_libm_calls = 0;
  g_spec_trap = SPEC_NOTRAP;
  r = c01int_i64extendi32uc1(&inst, a0, a1, a2);
  OBL(g_spec_trap == SPEC_NOTRAP, "i64extendi32uc1: returned normally only if the specification does not trap");
  OBL(((r) == (spec_i64_extend_i32_u(a0))), "i64extendi32uc1: result equals the specified value");
  OBL(((inst.g0) == (a1)), "i64extendi32uc1: value two below the operands survives");
  OBL((vh_f64bits(inst.g3) == vh_f64bits(a2)), "i64extendi32uc1: value directly below the operands survives");
  OBL(g_libm_calls == 0, "i64extendi32uc1: no library call is involved");
  CANARY("i64extendi32uc1 returns");
}
void h_i64extendi32uc2(void) {
  ND(U32, a0);
  ND(U64, a1);
  U64 r;
  g_libm_calls = 0;
  g_spec_trap = SPEC_NOTRAP;
  r = c01int_i64extendi32uc2(&inst, a0, a1);
  OBL(g_spec_trap == SPEC_NOTRAP, "i64extendi32uc2: returned normally only if the specification does not trap");
  OBL(((r) == ((a1 ^ spec_i64_extend_i32_u(a0)))), "i64extendi32uc2: result equals the specified value");
  OBL(g_libm_calls == 0, "i64extendi32uc2: no library call is involved");
  CANARY("i64extendi32uc2 returns");
}
