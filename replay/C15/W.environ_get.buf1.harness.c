/* C15: args/environ, clocks, random_get, proc_exit, thread-spawn of the real wasi/wasi.c */
#include "wasi_common.h"
#include "wasi_spec.h"

#define NSTR 3
#ifndef SLEN
#define SLEN 3
#endif
static char g_str[NSTR][SLEN]; static char* g_vec[NSTR + 1];
#define MK_STR(i) { ND_ARR(char, sc##i, SLEN); memcpy(g_str[i], sc##i, SLEN); g_str[i][SLEN - 1] = 0; g_vec[i] = g_str[i]; }
static unsigned mk_vec(unsigned count) { unsigned i, total = 0; MK_STR(0) MK_STR(1) MK_STR(2)
    for (i = 0; i < count; i++) total += (unsigned)strlen(g_vec[i]) + 1; g_vec[count] = 0; return total; }

#ifndef ARGS_BP
#define ARGS_BP 20u
#endif
#ifdef ENVIRON
#define SIZES_GET wasi_snapshot_preview1__environ_sizes_get
#define VEC_GET wasi_snapshot_preview1__environ_get
#define SET_VEC(c) { wasi.envc = (int)(c); wasi.envp = g_vec; }
#else
#define SIZES_GET wasi_snapshot_preview1__args_sizes_get
#define VEC_GET wasi_snapshot_preview1__args_get
#define SET_VEC(c) { wasi.argc = (int)(c); wasi.argv = g_vec; }
#endif

/* wasiInit: "exactly the argument and environment vectors given at initialisation": the environment ends at its NULL entry and nowhere else
 * (strings of any content, also empty ones) */
void h_init_vectors(void) {
    ND(unsigned, count); ND(unsigned, ac); bool ok;
    ASSUME(count <= NSTR && ac <= NSTR); (void)mk_vec(count);
    wasi.fds.fds = 0; wasi.fds.length = 0; wasi.fds.capacity = 0;
    ok = wasiInit((int)ac, g_vec, g_vec);
    ASSUME(ok);
    OBL(wasi.envc == (int)count && wasi.envp == g_vec, "init: the environment has as many entries as precede its NULL terminator, whatever the strings contain (an empty string is an entry)");
    OBL(wasi.argc == (int)ac && wasi.argv == g_vec, "init: argument count and vector are taken as given");
    CANARY("init vectors returns");
}
void h_sizes(void) {
    ND(unsigned, count); ND(U32, cp); ND(U32, sp); ND(U32, k); unsigned total; U32 r; U8 old[GMEM];
    ASSUME(count <= NSTR); total = mk_vec(count); SET_VEC(count); mem_init();
    ASSUME(cp <= GMEM - 4 && sp <= GMEM - 4 && (cp + 4 <= sp || sp + 4 <= cp) && k < GMEM);
    memcpy(old, g_data, GMEM);
    r = SIZES_GET(0, cp, sp);
    OBL(r == SW_SUCCESS, "sizes_get: succeeds");
    OBL((U32)spec_le_read(g_data, cp, 4) == count, "sizes_get: the number of strings, little-endian u32");
    OBL((U32)spec_le_read(g_data, sp, 4) == total, "sizes_get: the total size = sum of (length + 1 terminator)");
    OBL((k >= cp && k < cp + 4) || (k >= sp && k < sp + 4) || g_data[k] == old[k], "sizes_get: nothing else is written");
    CANARY("sizes returns");
}
void h_vec_get(void) {
    /* the string buffer address is a build-time constant of the harness (two placements are run: before and after the pointer array);
     * the code only computes memory->data + pointer, uniformly */
    ND(unsigned, count); ND(U32, vp); U32 bp = ARGS_BP; ND(U32, k); ND(unsigned, i); ND(unsigned, c); unsigned total, off = 0, q; U32 r; U8 old[GMEM];
    ASSUME(count <= NSTR); total = mk_vec(count); SET_VEC(count); mem_init();
    ASSUME(vp <= GMEM - 4 * NSTR && bp <= GMEM - NSTR * SLEN && (vp + 4 * count <= bp || bp + total <= vp) && k < GMEM);
    ASSUME(i < count && c <= strlen(g_vec[i]));
    memcpy(old, g_data, GMEM);
    r = VEC_GET(0, vp, bp);
    for (q = 0; q < i; q++) off += (unsigned)strlen(g_vec[q]) + 1;
    OBL(r == SW_SUCCESS, "get: succeeds");
    OBL(count == 0 || (U32)spec_le_read(g_data, vp + 4 * i, 4) == bp + off, "get: pointer i (little-endian u32 at vector + 4i) addresses string i; strings are laid out contiguously from the buffer start");
    OBL(count == 0 || g_data[bp + off + c] == (U8)g_vec[i][c], "get: string i is copied byte for byte INCLUDING its NUL terminator");
    OBL((k >= vp && k < vp + 4 * count) || (k >= bp && k < bp + total) || g_data[k] == old[k], "get: exactly the pointer array and the string area are written");
    CANARY("vec_get returns");
}

/* ---------- clock_time_get / clock_res_get ---------- */
static int spec_clock(U32 id) { return id == 0 ? CLOCK_REALTIME : id == 1 ? CLOCK_MONOTONIC : id == 2 ? CLOCK_PROCESS_CPUTIME_ID : id == 3 ? CLOCK_THREAD_CPUTIME_ID : -1; }
void h_clock(void) {
    ND(U32, id); ND(U64, prec); ND(U32, rp); ND(U32, k); ND(long, s); ND(long, ns); U32 r; U8 old[GMEM]; I64 want;
    mem_init(); ASSUME(rp <= GMEM - 8 && k < GMEM);
#ifndef SEC_MAX
#define SEC_MAX 16
#endif
    ASSUME(ns >= 0 && ns < 1000000000L && s >= 0 && s < SEC_MAX);   /* value range of the conversion: W.convertTimespec (all values, SMT) */
    g_ev_ts.tv_sec = s; g_ev_ts.tv_nsec = ns; want = (I64)s * 1000000000LL + (I64)ns;
    memcpy(old, g_data, GMEM); ev_reset();
#ifdef CLOCK_RES
    r = wasi_snapshot_preview1__clock_res_get(0, id, rp);
#define CLK_EV EV_clock_getres
#else
    r = wasi_snapshot_preview1__clock_time_get(0, id, prec, rp);
#define CLK_EV EV_clock_gettime
#endif
    if (spec_clock(id) < 0) {
        OBL(r == SW_INVAL && g_ev_calls == 0, "clock: an unknown clock identifier yields EINVAL without a host call");
        OBL(g_data[k] == old[k], "clock: nothing is stored for an unknown clock");
    } else {
        OBL(g_ev_calls == 1 && g_ev_last == CLK_EV && g_ev_clockid == spec_clock(id), "clock: exactly the requested host clock is read (realtime, monotonic, process cputime, thread cputime)");
        if (r == SW_SUCCESS) OBL(g_data[k] == ((k >= rp && k < rp + 8) ? spec_le_byte((U64)want, k - rp) : old[k]), "clock: seconds * 10^9 + nanoseconds stored as little-endian 64-bit value, nothing else written");
        else OBL(g_data[k] == old[k], "clock: failure stores nothing");
    }
    CANARY("clock returns");
}
void h_convert_timespec(void) {
    struct timespec t; ND(long, s); ND(long, ns); I64 r;
    ASSUME(ns >= 0 && ns < 1000000000L && s >= 0 && s <= 9223372035L);
    t.tv_sec = s; t.tv_nsec = ns;
    r = convertTimespec(t);
    OBL(r == (I64)s * 1000000000LL + (I64)ns, "convertTimespec: seconds * 10^9 + nanoseconds");
    OBL(r >= 0, "convertTimespec: no overflow for times before year 2262");
    CANARY("convertTimespec returns");
}

/* the conversion used by the fallback clock sources (gettimeofday / getrusage: builds with WASI_FALLBACK_TIMERS_ENABLED or without POSIX timers) */
void h_convert_timeval(void) {
    struct timeval t; ND(long, s); ND(long, us); I64 r;
    ASSUME(us >= 0 && us < 1000000L && s >= 0 && s <= 9223372035L);
    t.tv_sec = s; t.tv_usec = us;
    r = convertTimeval(t);
    OBL(r == (I64)s * 1000000000LL + (I64)us * 1000LL, "convertTimeval: seconds * 10^9 + microseconds * 10^3 (nanoseconds)");
    CANARY("convertTimeval returns");
}
void h_add_timevals(void) {
    struct timeval a, b, c; ND(long, s1); ND(long, u1); ND(long, s2); ND(long, u2);
    ASSUME(u1 >= 0 && u1 < 1000000L && u2 >= 0 && u2 < 1000000L && s1 >= 0 && s2 >= 0 && s1 <= 4000000000L && s2 <= 4000000000L);
    a.tv_sec = s1; a.tv_usec = u1; b.tv_sec = s2; b.tv_usec = u2;
    addTimevals(&a, &b, &c);
    { long carry = (u1 + u2 >= 1000000L) ? 1 : 0;     /* stated without multiplication: carry form */
      OBL(c.tv_usec >= 0 && c.tv_usec < 1000000L && c.tv_sec == s1 + s2 + carry && c.tv_usec == u1 + u2 - (carry ? 1000000L : 0), "addTimevals: user + system time, normalised (process CPU time of the fallback clock source)"); }
    CANARY("addTimevals returns");
}

/* ---------- random_get ---------- */
#ifndef RANDOM_MAX
#define RANDOM_MAX 300u
#endif
#ifndef RANDOM_BP
#define RANDOM_BP 5u
#endif
void h_random(void) {
    /* the buffer address is a build-time constant of the harness (RANDOM_BP): after unwinding every access has a constant
     * index, which keeps the SAT encoding linear in the length; the code only computes memory->data + bufferPointer */
    U32 bp = RANDOM_BP; ND(U32, len); ND(U32, k); U32 r; static U8 buf[RANDOM_BP + RANDOM_MAX + 8]; U8 before_k, after_k;
    ASSUME(len <= RANDOM_MAX && k < bp + RANDOM_MAX + 8);
    g_mem.data = buf; g_mem.size = sizeof buf; g_mem.pages = 1; g_mem.maxPages = 1; g_mem.shared = 0;
    before_k = buf[k];
    ev_reset(); g_ev_entropy_lo = 0; g_ev_entropy_hi = 0; g_ev_entropy_gap = 0; g_ev_entropy_total = 0;
    r = wasi_snapshot_preview1__random_get(0, bp, len);
    after_k = buf[k];
    OBL(r == SW_SUCCESS, "random_get: succeeds for every length (the host's getentropy accepts at most 256 bytes per call)");
    OBL(g_ev_entropy_total == len && !g_ev_entropy_gap, "random_get: exactly the requested number of bytes is filled by the entropy source, in adjacent chunks");
    OBL(len == 0 || (g_ev_entropy_lo == buf + bp && g_ev_entropy_hi == buf + bp + len), "random_get: exactly the range [buffer, buffer+length) is filled");
    OBL((k >= bp && k < bp + len) || after_k == before_k, "random_get: no byte outside [buffer, buffer+length) is written");
    CANARY("random returns");
}

/* ---------- proc_exit ---------- */
void h_exit(void) {
    ND(U32, code);
    g_ev_exit_expected = (int)code; ev_reset();
    wasi_snapshot_preview1__proc_exit(0, code);
    OBL(0, "proc_exit: never returns to the caller");
}

/* ---------- thread-spawn ---------- */
static wasmModuleInstance g_parent, g_child[2]; static int g_newchild_calls = 0; static int g_nest = 0; static U32 g_inner_id = 0; static int g_inner_done = 0;
static int g_start_calls = 0; static void* g_start_inst = 0; static U32 g_start_tid = 0, g_start_arg = 0;
static void start_fn(void* inst, U32 tid, U32 arg) { g_start_calls++; g_start_inst = inst; g_start_tid = tid; g_start_arg = arg; }
static void other_fn(void) { }
static wasmFuncExport g_exports[4];
static struct wasmModuleInstance* new_child(struct wasmModuleInstance* self) {
    int me = g_newchild_calls++;
    OBL(self == &g_parent, "thread-spawn: the child is created from the calling (parent) instance");
#ifdef SPAWN_INTERFERENCE
    /* rely/guarantee: while this spawn is in progress another thread completes a whole spawn (modelled at the callback) */
    if (g_nest == 0) { ND(int, interfere); if (interfere) { g_nest = 1; g_inner_id = wasi__threadX2Dspawn(&g_parent, 7u); g_inner_done = 1; g_nest = 0; } }
#endif
    return &g_child[me & 1];
}
void h_spawn(void) {
    ND(int, pos); ND(int, nexp); ND(U32, arg); U32 id1, id2; int i; void* (*fn1)(void*); void* a1;
    ASSUME(nexp >= 0 && nexp <= 3 && pos >= -1 && pos < nexp);      /* pos = index of the wasi_thread_start export, -1 = missing */
    for (i = 0; i < 3; i++) { g_exports[i].func = (i == pos) ? (wasmFunc)start_fn : (wasmFunc)other_fn; g_exports[i].name = (i == pos) ? "wasi_thread_start" : "memory_grow"; }
    g_exports[nexp].func = 0; g_exports[nexp].name = 0;
    g_parent.funcExports = g_exports; g_parent.newChild = new_child; g_parent.resolveImports = 0;
    g_newchild_calls = 0; g_start_calls = 0; g_inner_done = 0; ev_reset();
    id1 = wasi__threadX2Dspawn(&g_parent, arg);
    if (pos < 0) {
        OBL((I32)id1 < 0, "thread-spawn: a negative value when the module does not export wasi_thread_start");
        OBL(g_newchild_calls == 0 && g_ev_calls == 0, "thread-spawn: without the export no instance and no thread is created");
    } else if ((I32)id1 >= 0) {
#ifdef SPAWN_INTERFERENCE
        OBL(!g_inner_done || (I32)g_inner_id < 0 || g_inner_id != id1, "thread-spawn: identifiers are distinct even if another spawn completes while this one is in progress");
#else
        OBL(id1 > 0, "thread-spawn: a successful spawn returns a positive identifier");
        OBL(g_newchild_calls == 1, "thread-spawn: exactly one child instance is created per spawn");
        OBL(g_ev_n[EV_pthread_create] == 1 && g_ev_thread_fn == wasiThreadSpawn, "thread-spawn: exactly one native thread is created");
        fn1 = g_ev_thread_fn; a1 = g_ev_thread_arg;
        fn1(a1);                                   /* the new thread runs */
        OBL(g_start_calls == 1 && g_start_inst == (void*)&g_child[0] && g_start_tid == id1 && g_start_arg == arg,
            "thread-spawn: wasi_thread_start runs exactly once, on the child instance, with the returned identifier and the start argument");
        id2 = wasi__threadX2Dspawn(&g_parent, arg);
        OBL((I32)id2 < 0 || (id2 != id1 && id2 > 0), "thread-spawn: consecutive spawns return distinct positive identifiers");
#endif
    }
    CANARY("spawn returns");
}
