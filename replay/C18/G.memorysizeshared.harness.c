#include "vh.h"
#include "w2c2_base.h"
#include "wasm_int.h"
#include "trapstub.h"
#include "/verif/.work_wt/C18-29002/memrec/memrec.h"
#include "c18size.c"
#include "wasm_int.h"
#include "libm_markers.h"
#include "trapstub.h"
static c18sizeInstance inst;
static wasmMemory g_mem;
void h_memorysizeshared(void) {
  U32 r;
  g_mr_calls = 0; g_libm_calls = 0;
  inst.m0 = &g_mem;
  ND(U32, m_pages); ND(U32, m_size); g_mem.pages = m_pages; g_mem.size = m_size; g_mem.maxPages = 4; g_mem.shared = 1;
  g_spec_trap = SPEC_NOTRAP;
  r = c18size_memorysizeshared(&inst);
  OBL(g_spec_trap == SPEC_NOTRAP, "memorysizeshared: returned normally only if the specification does not trap");
  OBL(((r) == (m_pages)), "memorysizeshared: result equals the specified value");
  OBL(g_mr_calls == 0 && g_mem.pages == m_pages, "memorysizeshared: memory.size only reads the page count (not the reserved byte size)");
  CANARY("memorysizeshared returns");
}
