/* C18: wasmMemoryGrow on a SHARED memory as a rely/guarantee obligation (DESIGN.md 2.5).
 * pthread_mutex_lock is the monitor model: at acquisition the protected descriptor fields are havocked
 * under the rely condition (other threads only grow: pages' >= pages, pages' <= maxPages,
 * size' = pages' * 64KiB, data and maxPages stable) and the havocked state is the linearization-point
 * snapshot.  The sequential specification must hold relative to that snapshot. */
#include <stddef.h>
#include <stdlib.h>
#include <string.h>
#include "vh.h"
static int g_realloc_calls, g_calloc_calls; static size_t g_calloc_n[2], g_calloc_sz[2]; static void* g_calloc_result[2];
static void* vh_realloc(void* p, size_t n) { (void)n; g_realloc_calls++; return p; }
static void* vh_calloc(size_t n, size_t sz) { int i = g_calloc_calls++; if (i < 2) { g_calloc_n[i] = n; g_calloc_sz[i] = sz; return g_calloc_result[i]; } return 0; }
#define MON_HOOK mon_hook
#define MON_UNLOCK_HOOK mon_unlock_hook
#define MON_NO_DATA
#include "mutex_monitor.h"
#define realloc vh_realloc
#define calloc vh_calloc
#include "w2c2_base.h"
#undef realloc
#undef calloc
#include "wasm_int.h"
#include "trapstub.h"

static wasmMemory mem;
static U32 g_snap_pages; static int g_snapped;
static U32 g_unl_pages, g_unl_size; static int g_unlocked;
static void mon_unlock_hook(void) { g_unl_pages = mem.pages; g_unl_size = mem.size; g_unlocked = 1; }
static void mon_hook(void) {
    /* interference by other threads up to the moment we own the lock */
    ND(U32, other_pages);
    ASSUME(other_pages >= mem.pages && other_pages <= mem.maxPages);
    mem.pages = other_pages; mem.size = other_pages * 65536u;
    g_snap_pages = other_pages; g_snapped = 1;
}
#ifndef VERIF_NATIVE
U32 c_wasmMemoryGrow(wasmMemory* memory, const U32 delta)
  __CPROVER_requires(1) __CPROVER_ensures(1)
  __CPROVER_assigns(memory->pages, memory->size, memory->data, g_mutex_held, g_mutex_locks, g_snap_pages, g_snapped, g_realloc_calls, g_unl_pages, g_unl_size, g_unlocked);
#endif

void h_grow_shared(void) {
    static U8 buf[8];
    ND(U32, pages); ND(U32, maxPages); ND(U32, delta);
    U32 r, before;
    ASSUME(pages <= maxPages && maxPages <= 65535u);     /* shared memories always declare a maximum; 4 GiB excluded (C05 finding) */
    mem.data = buf; mem.pages = pages; mem.maxPages = maxPages; mem.size = pages * 65536u; mem.shared = 1; mem.futex = 0; mem.futexFree = 0;
    g_mutex_held = 0; g_mutex_locks = 0; g_snapped = 0; g_realloc_calls = 0; g_unlocked = 0;
    r = wasmMemoryGrow(&mem, delta);
    OBL(g_unlocked && mem.pages == g_unl_pages && mem.size == g_unl_size, "shared grow: the descriptor is complete when the lock is released and is not written afterwards (another thread may already be growing again)");
    OBL(g_mutex_held == 0, "shared grow: the memory mutex is released on every path");
    OBL(mem.data == buf && g_realloc_calls == 0, "shared grow: the buffer is never moved or reallocated (max-sized reservation)");
    OBL(mem.maxPages == maxPages, "shared grow: the declared maximum is unchanged");
    before = g_snapped ? g_snap_pages : pages;          /* page count at the linearization point */
    if (r != (U32)-1) {
        OBL(g_snapped && g_mutex_locks == 1, "shared grow: a successful grow happens inside exactly one critical section");
        OBL(r == before, "shared grow: returns the page count AT LOCK ACQUISITION (distinct old sizes, linearizable)");
        OBL((U64)mem.pages == (U64)before + (U64)delta, "shared grow: new page count = count at acquisition + delta (no lost update)");
        OBL(mem.pages <= mem.maxPages && (U64)mem.size == (U64)mem.pages * 65536u, "shared grow: never exceeds the declared maximum, size consistent");
    } else {
        OBL(mem.pages == before && (U64)mem.size == (U64)before * 65536u, "shared grow: a failed grow changes nothing");
        /* (the specification lets memory.grow fail for other reasons too; the property only asks that a failed grow changes nothing) */
    }
    CANARY("shared grow returns");
}

void h_allocate_shared(void) {
    ND(U32, initial); ND(U32, maxPages);
    static wasmMemory mstore; static U8 dbuf[8];
    wasmMemory* m;
    ASSUME(initial <= maxPages && maxPages <= 65535u);
    g_calloc_calls = 0; g_calloc_result[0] = &mstore; g_calloc_result[1] = dbuf;
    m = wasmMemoryAllocate(initial, maxPages, true);
    OBL(m == &mstore && g_calloc_calls == 2, "shared allocate: descriptor and buffer allocated");
    OBL((U64)g_calloc_n[1] * (U64)g_calloc_sz[1] == (U64)maxPages * 65536u, "shared allocate: the buffer reserves the declared MAXIMUM (so growth never moves it)");
    OBL(m->pages == initial && m->maxPages == maxPages && m->shared && m->data == dbuf, "shared allocate: reports the declared MINIMUM as current size");
    CANARY("shared allocate returns");
}
