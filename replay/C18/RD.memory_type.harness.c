/* C08: the binary reader of the real w2c2 (reader.c, instruction.c, array.c #included whole).
 * Relational obligations: two spec-equivalent encodings (independent redundant LEB128 paddings, flag 0 vs flag 2/memory 0)
 * decode to the same result, which also equals the encoded field values.  Frame of custom sections. */
#include "reader.c"
#include "instruction.c"
#include "array.c"
#include "debug.c"
#include "sha1.c"
#include "section.c"
#include "opcode.c"
#include "valuetype.c"
#include "export.c"
#include "vh.h"
#include "wasm_int.h"
#include "trapstub.h"

static unsigned put_u(U8* out, unsigned at, U64 v, unsigned L) { unsigned i; for (i = 0; i < L; i++) { out[at + i] = (U8)((v & 0x7F) | (i + 1 < L ? 0x80 : 0)); v >>= 7; } return at + L; }
static int fits_u(U64 v, unsigned L) { return (v >> (7 * L)) == 0; }
static unsigned put_s32(U8* out, unsigned at, U32 v, unsigned L) { unsigned i; U64 x = spec_i64_extend_i32_s(v); int neg = (int)(x >> 63);
    for (i = 0; i < L; i++) { out[at + i] = (U8)((x & 0x7F) | (i + 1 < L ? 0x80 : 0)); x = (x >> 7) | (neg ? (0x7Full << 57) : 0); } return at + L; }
static int fits_s(U32 v, unsigned L) { U64 x = spec_i64_extend_i32_s(v); U64 top; if (L >= 10) return 1; top = (U64)((I64)x >> (7 * L - 1)); return top == 0 || top == ~0ull; }
#define PAD(name) ND(unsigned, name); ASSUME(name >= 1 && name <= 5)
#define BUFSZ 48

/* ---------- limits / memory type / table type ---------- */
static void enc_limits(U8* b, unsigned* n, unsigned kind, U32 mn, U32 mx, unsigned Lmin, unsigned Lmax) {
    b[(*n)++] = (U8)kind; *n = put_u(b, *n, mn, Lmin); if (kind != 0) *n = put_u(b, *n, mx, Lmax);
}
void h_limits(void) {
    ND(unsigned, kind); ND(U32, mn); ND(U32, mx); PAD(L1); PAD(L2); PAD(M1); PAD(M2); ND_ARR(U8, tail, 2);
    U8 e1[BUFSZ], e2[BUFSZ]; unsigned n1 = 0, n2 = 0; WasmModuleReader r1, r2; WasmModuleReaderError* err1 = 0; WasmModuleReaderError* err2 = 0;
    U32 min1 = 7, max1 = 7, min2 = 9, max2 = 9; bool sh1 = false, sh2 = true;
    ASSUME((kind == 0 || kind == 1 || kind == 3) && fits_u(mn, L1) && fits_u(mn, M1) && fits_u(mx, L2) && fits_u(mx, M2));
    enc_limits(e1, &n1, kind, mn, mx, L1, L2); enc_limits(e2, &n2, kind, mn, mx, M1, M2);
    e1[n1] = tail[0]; e1[n1 + 1] = tail[1]; e2[n2] = tail[0]; e2[n2 + 1] = tail[1];
    memset(&r1, 0, sizeof r1); memset(&r2, 0, sizeof r2);
    r1.buffer.data = e1; r1.buffer.length = n1 + 2; r2.buffer.data = e2; r2.buffer.length = n2 + 2;
#if defined(LIM_MEMORY)
    wasmReadMemoryType(&r1, &min1, &max1, &sh1, &err1); wasmReadMemoryType(&r2, &min2, &max2, &sh2, &err2);
#elif defined(LIM_TABLE)
    { U8 t1[BUFSZ], t2[BUFSZ]; t1[0] = 0x70; t2[0] = 0x70; memcpy(t1 + 1, e1, n1 + 2); memcpy(t2 + 1, e2, n2 + 2);
      r1.buffer.data = t1; r1.buffer.length = n1 + 3; r2.buffer.data = t2; r2.buffer.length = n2 + 3;
      wasmReadTableType(&r1, &min1, &max1, &sh1, &err1); wasmReadTableType(&r2, &min2, &max2, &sh2, &err2); }
#else
    { bool hm1 = false, hm2 = true; wasmReadLimits(&r1, &min1, &max1, &hm1, &sh1, &err1); wasmReadLimits(&r2, &min2, &max2, &hm2, &sh2, &err2);
      OBL(hm1 == (kind != 0) && hm2 == hm1, "limits: whether a maximum is declared is reported"); }
#endif
    OBL(err1 == 0 && err2 == 0, "limits: every valid encoding (flags 0, 1, 3; every padding) is accepted");
    OBL(min1 == min2 && max1 == max2 && sh1 == sh2, "limits: two encodings that differ only in LEB128 padding decode identically");
    OBL(min1 == mn && sh1 == (kind == 3), "limits: minimum and shared flag are the encoded ones");
    OBL(r1.buffer.length == 2 && r2.buffer.length == 2, "limits: exactly the encoding is consumed");
#if defined(LIM_MEMORY)
    OBL(kind == 0 ? max1 == 65535u : 1, "memory type: without a declared maximum the limit is the largest representable page count");
#ifndef LIM_CLASS_MAX0
    ASSUME(!(kind != 0 && mx == 0));
#endif
    OBL(kind == 0 || max1 == mx, "memory type: a declared maximum is kept as declared");
#elif defined(LIM_TABLE)
    OBL(kind == 0 ? max1 == 0xFFFFFFFFu : max1 == mx, "table type: declared maximum kept (0 included), none = unbounded");
#else
    OBL(kind == 0 || max1 == mx, "limits: the declared maximum is the encoded one");
#endif
    CANARY("limits");
}

/* ---------- data segment: flag 0 == flag 2 with memory index 0; passive flag 1 ---------- */
static unsigned enc_dataseg(U8* b, unsigned flag, U32 off, const U8* payload, unsigned plen, unsigned Lflag, unsigned Lmem, unsigned Loff, unsigned Llen) {
    unsigned n = 0, i;
    n = put_u(b, n, flag, Lflag);
    if (flag == 2) n = put_u(b, n, 0, Lmem);
    if (flag != 1) { b[n++] = 0x41; n = put_s32(b, n, off, Loff); b[n++] = 0x0B; }     /* i32.const off; end */
    n = put_u(b, n, plen, Llen);
    for (i = 0; i < plen; i++) b[n++] = payload[i];
    return n;
}
void h_dataseg(void) {
    ND(unsigned, fa); ND(unsigned, fb); ND(U32, off); ND(unsigned, plen); ND_ARR(U8, payload, 3);
    PAD(A1); PAD(A2); PAD(A3); PAD(A4); PAD(B1); PAD(B2); PAD(B3); PAD(B4); ND(unsigned, k);
    U8 e1[BUFSZ], e2[BUFSZ]; unsigned n1, n2; WasmModuleReader r1, r2; WasmModuleReaderError* err1 = 0; WasmModuleReaderError* err2 = 0; WasmDataSegment s1, s2; U32 v1 = 1, v2 = 2;
    ASSUME(plen <= 2 && k < 2 && fits_s(off, A3) && fits_s(off, B3));
    /* equivalent pairs: both active (flag 0 or 2/memory 0 in any mix), or both passive */
    ASSUME(((fa == 0 || fa == 2) && (fb == 0 || fb == 2)) || (fa == 1 && fb == 1));
    n1 = enc_dataseg(e1, fa, off, payload, plen, A1, A2, A3, A4); n2 = enc_dataseg(e2, fb, off, payload, plen, B1, B2, B3, B4);
    memset(&r1, 0, sizeof r1); memset(&r2, 0, sizeof r2); s1 = wasmEmptyDataSegment; s2 = wasmEmptyDataSegment;
    r1.buffer.data = e1; r1.buffer.length = n1; r2.buffer.data = e2; r2.buffer.length = n2;
    wasmReadDataSegment(&r1, &s1, &err1); wasmReadDataSegment(&r2, &s2, &err2);
    OBL(err1 == 0 && err2 == 0, "data segment: flag 0, flag 1 and flag 2 (memory 0) encodings with any padding are accepted");
    OBL(s1.passive == s2.passive && s1.passive == (fa == 1), "data segment: flag 0 and flag 2 are ACTIVE, flag 1 is passive; equivalent encodings agree");
    OBL(s1.memoryIndex == 0 && s2.memoryIndex == 0, "data segment: memory index 0 in both forms");
    OBL(s1.bytes.length == plen && s2.bytes.length == plen && (k >= plen || (s1.bytes.data[k] == payload[k] && s2.bytes.data[k] == payload[k])), "data segment: the payload bytes are the encoded ones");
    if (fa != 1) {
        Buffer o1 = s1.offset, o2 = s2.offset; WasmOpcode op; WasmConstInstruction c1, c2;
        OBL(wasmOpcodeRead(&o1, &op) && op == wasmOpcodeI32Const && wasmConstInstructionRead(&o1, op, &c1) && (U32)c1.value.i32 == off, "data segment: the offset expression decodes to the encoded constant (first encoding)");
        OBL(wasmOpcodeRead(&o2, &op) && op == wasmOpcodeI32Const && wasmConstInstructionRead(&o2, op, &c2) && (U32)c2.value.i32 == off, "data segment: the offset expression decodes to the encoded constant (second encoding)");
    }
    OBL(r1.buffer.length == 0 && r2.buffer.length == 0, "data segment: exactly the encoding is consumed");
    (void)v1; (void)v2;
    CANARY("dataseg");
}

/* ---------- custom section: skipped by exactly its size, module untouched (debug off) ---------- */
void h_custom(void) {
    ND(unsigned, nlen); ND(unsigned, plen); PAD(Ln); ND_ARR(U8, bytes, 12); ND_ARR(U8, tail, 2); ND(unsigned, tl);   /* tl: 0..2 bytes follow the section (0: it is the last thing in the file) */
    U8 e[BUFSZ]; unsigned n = 0, i, size; WasmModuleReader r; WasmModuleReaderError* err = 0; static WasmModule m; WasmModule before;
    ASSUME(nlen <= 6 && plen <= 6 && fits_u(nlen, Ln) && tl <= 2);
    n = put_u(e, n, nlen, Ln); for (i = 0; i < nlen; i++) e[n++] = bytes[i]; for (i = 0; i < plen; i++) e[n++] = bytes[6 + i];
    size = n; if (tl >= 1) e[n++] = tail[0]; if (tl >= 2) e[n++] = tail[1];
    /* not a debug section, and names are NUL-free (a name is a UTF-8 string) */
    for (i = 0; i < nlen; i++) ASSUME(bytes[i] != 0);
    ASSUME(!(nlen >= 7));
    ASSUME(!(nlen >= 1 && bytes[0] == '.'));
    memset(&m, 0, sizeof m); memset(&r, 0, sizeof r); r.module = &m; r.debug = false; r.buffer.data = e; r.buffer.length = n; before = m;
    wasmReadCustomSection(&r, size, &err);
    OBL(err == 0, "custom section: any custom section (any name, any content, padded name length) is accepted");
    OBL(r.buffer.data == e + size && r.buffer.length == tl, "custom section: exactly the section's bytes are skipped, wherever the section stands (also as the very last bytes of the file, with an empty payload)");
    OBL(memcmp(&before, &m, sizeof m) == 0, "custom section: with debug output off the decoded module is untouched");
    CANARY("custom");
}
