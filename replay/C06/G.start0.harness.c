
#include "vh.h"
#include "w2c2_base.h"
#include "trapstub.h"
#include "c06start0.c"
static c06start0Instance inst;
void h_start0(void) { c06start0Instance fresh_; 
#ifndef VERIF_NATIVE
    inst = fresh_;
#endif
    c06start0Instantiate(&inst, 0);
    OBL(c06start0_get(&inst) == 41u, "instantiate: the start function runs also when it is function 0 of a module without imports (start section payload = one zero byte)");
    CANARY("start0"); }
