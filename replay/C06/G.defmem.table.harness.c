
#include "vh.h"
#include "w2c2_base.h"
#include "wasm_int.h"
#include "wasm_float.h"
#include "libm_markers.h"
#include "trapstub.h"
static int g_started_calls; static void* g_started_inst; static U32 g_started_a, g_started_b; static int g_state_complete_at_start;
void env__started(void* inst, U32 a, U32 b);
#include "c06defmem.c"
static c06defmemInstance inst, inst2;
/* the embedder's instance object is uninitialised storage (the repository's examples declare it on the stack) */
#ifdef VERIF_NATIVE
#define HAVOC_INSTANCE(x) memset(&(x), 0xA5, sizeof(x))
#else
#define HAVOC_INSTANCE(x) do { c06defmemInstance fresh_; (x) = fresh_; } while (0)
#endif
static wasmFunc g_slots[4]; static wasmTable g_hosttab; static void sentinel(void) { }
static wasmMemory g_hostmem; static U8* g_hostdata; static U32 g_base; static U64 g_big; static int g_resolve_calls; static int g_raw_names_seen; static U32 g_punct;
static void* resolve(const char* module, const char* name) {
    g_resolve_calls++;
    if (strcmp(module, "env") == 0 && strcmp(name, "mem") == 0) return &g_hostmem;
    if (strcmp(module, "env") == 0 && strcmp(name, "tab") == 0) return &g_hosttab;
    if (strcmp(module, "env") == 0 && strcmp(name, "base") == 0) return &g_base;
    if (strcmp(module, "env") == 0 && strcmp(name, "big") == 0) return &g_big;
    if (strcmp(module, "e.n-v") == 0 && strcmp(name, "da ta$_") == 0) { g_raw_names_seen++; return &g_punct; }
    return 0;
}
#ifdef IMPORTED_MEMORY
#define MEMP(i) ((i).env__mem)
#else
#define MEMP(i) ((i).m0)
#endif
void env__started(void* instp, U32 a, U32 b) {
    c06defmemInstance* ii = (c06defmemInstance*)instp;
    g_started_calls++; g_started_inst = instp; g_started_a = a; g_started_b = b;
    /* the start function runs after ALL of the initial state has been built */
    g_state_complete_at_start = (MEMP(*ii) != 0 && MEMP(*ii)->data[8] == 'h' && MEMP(*ii)->data[65535] == 'd' && ii->g3 == 5u && ii->g7 == g_base);
}
static void host_setup(U32 base, U64 big) {
    g_base = base; g_big = big; g_started_calls = 0; g_resolve_calls = 0; g_raw_names_seen = 0; g_state_complete_at_start = 0; g_libm_calls = 0; g_spec_trap = SPEC_NOTRAP;
#ifdef IMPORTED_MEMORY
    g_hostdata = (U8*)calloc(65536, 1); ASSUME(g_hostdata != 0);
    { int i; for (i = 0; i < 4; i++) g_slots[i] = (wasmFunc)sentinel; g_hosttab.data = g_slots; g_hosttab.size = 4; g_hosttab.maxSize = 4; }
    g_hostmem.data = g_hostdata; g_hostmem.size = 65536; g_hostmem.pages = 1; g_hostmem.maxPages = 2; g_hostmem.shared = 0; g_hostmem.futex = 0; g_hostmem.futexFree = 0;
#endif
}
/* expected byte k of memory 0 after instantiation: zero, then the active segments applied IN ORDER */
static U8 expected_byte(U32 k, U32 base) {
    U8 v = 0;
    if (k >= 8 && k < 13) v = (U8)"hello"[k - 8];
    if (k >= 10 && k < 12) v = (U8)"XY"[k - 10];
    if (k >= 65533) v = (U8)"end"[k - 65533];
    if (k == base) v = 'Z';
    return v;
}
void h_memory(void) { ND(U32, base); ND(U64, big); ND(U32, k); ASSUME(base >= 20 && base <= 23 && k < 65536); host_setup(base, big);
    HAVOC_INSTANCE(inst); c06defmemInstantiate(&inst, resolve);
#ifdef WASM_THREADS_PTHREADS
    /* a shared memory reserves its declared maximum (so that growth never moves it); its CURRENT size is the declared minimum */
    OBL(MEMP(inst) != 0 && MEMP(inst)->pages == 1 && MEMP(inst)->shared && MEMP(inst)->size == 3u * 65536u, "instantiate: a shared memory 0 reports its declared minimum as current size");
#else
    OBL(MEMP(inst) != 0 && MEMP(inst)->pages == 1 && MEMP(inst)->size == 65536u, "instantiate: memory 0 has its declared minimum size");
#endif
    OBL(MEMP(inst)->data[k] == expected_byte(k, base), "instantiate: every byte of memory 0 is zero except the active data segments, copied to their evaluated offsets (constant or imported global) IN SEGMENT ORDER, into the designated memory whether defined or imported");
#ifdef IMPORTED_MEMORY
    OBL(MEMP(inst) == &g_hostmem, "instantiate: the imported memory is the one the resolver returned");
#else
    OBL(MEMP(inst)->maxPages == 3, "instantiate: the declared maximum is recorded");
#endif
    CANARY("memory"); }
void h_table(void) { ND(U32, base); ND(U64, big); ND(U32, k); ASSUME(base >= 20 && base <= 23 && k < 4); host_setup(base, big);
    HAVOC_INSTANCE(inst); c06defmemInstantiate(&inst, resolve);
#ifdef IMPORTED_MEMORY
    OBL(inst.env__tab == &g_hosttab, "instantiate: the imported table is the one the resolver returned");
    OBL(g_slots[1] != (wasmFunc)sentinel && g_slots[2] != (wasmFunc)sentinel && g_slots[1] != g_slots[2] && g_slots[1] != 0 && g_slots[2] != 0, "instantiate: active element segments are written into an IMPORTED table too");
    OBL((k == 1 || k == 2) || g_slots[k] == (wasmFunc)sentinel, "instantiate: no other slot of the imported table is written");
#else
    OBL(inst.t0.size == 4 && inst.t0.maxSize == 6 && inst.t0.data != 0, "instantiate: a defined table has its declared minimum size and records its maximum");
    OBL(inst.t0.data[1] != 0 && inst.t0.data[2] != 0 && inst.t0.data[1] != inst.t0.data[2], "instantiate: active element segments are written to their offset");
    OBL((k == 1 || k == 2) || inst.t0.data[k] == 0, "instantiate: every other entry of a defined table is null");
#endif
    CANARY("table"); }
/* <module>NewChild: the instance a spawned thread runs on (wasi thread-spawn calls instance->common.newChild) */
void h_newchild(void) { ND(U32, base); ND(U64, big); c06defmemInstance* child; ASSUME(base >= 20 && base <= 23); host_setup(base, big);
    HAVOC_INSTANCE(inst); c06defmemInstantiate(&inst, resolve);
    (void)c06defmem_inc(&inst);                                  /* the parent's mutable global is now 6 */
    child = c06defmemNewChild(&inst);
    ASSUME(child != 0);
    OBL(child != &inst && child->common.funcExports == inst.common.funcExports && child->common.resolveImports == inst.common.resolveImports,
        "new child: a separate instance with the parent's export table and resolver");
    OBL(child->common.newChild == inst.common.newChild && inst.common.newChild != 0, "new child: a child can itself create children (a thread spawned by a spawned thread)");
    OBL(child->g3 == 5u && inst.g3 == 6u, "new child: defined globals are initialised afresh from their initialisers, the parent's are untouched");
    OBL(child->env__base == &g_base && child->g7 == base, "new child: imports are bound through the parent's resolver");
#ifdef WASM_THREADS_PTHREADS
    OBL(MEMP(*child) == MEMP(inst), "new child: a SHARED memory is shared with the parent (same descriptor)");
#endif
    CANARY("newchild"); }
/* <module>FreeInstance releases what the instance owns - never an imported memory, which belongs to (and may still be used by) its owner */
void h_free(void) { ND(U32, base); ND(U64, big); ASSUME(base >= 20 && base <= 23); host_setup(base, big);
    HAVOC_INSTANCE(inst); c06defmemInstantiate(&inst, resolve);
    c06defmemFreeInstance(&inst);
#ifdef IMPORTED_MEMORY
    OBL(g_hostmem.data == g_hostdata && g_hostmem.pages == 1 && g_hostmem.size == 65536u, "free instance: an imported memory is left to its owner (descriptor untouched)");
    OBL(g_hostdata[8] == 'h', "free instance: the imported memory's contents are still there (not released: CBMC's deallocated-object check)");
#endif
    CANARY("free"); }
void h_globals(void) { ND(U32, base); ND(U64, big); ASSUME(base >= 20 && base <= 23); host_setup(base, big);
    HAVOC_INSTANCE(inst); c06defmemInstantiate(&inst, resolve);
    OBL(inst.g3 == 5u && inst.g4 == 0x8000000000000001ull, "instantiate: integer globals hold their constant initialisers");
    OBL(vh_f32bits(inst.g5) == 0x7FA00001u && vh_f64bits(inst.g6) == 0xFFF0000000000123ull, "instantiate: float globals hold the exact bit pattern (NaN payloads) of their initialisers");
    OBL(inst.g9 == 0 && inst.g10 == 0, "instantiate: globals with a zero initialiser are zero (whatever the instance storage held before)");
    OBL(inst.g7 == base && inst.g8 == big, "instantiate: globals initialised by global.get of an imported global take the value the resolver's object holds");
    OBL(inst.env__base == &g_base && inst.env__big == &g_big, "instantiate: imported globals are bound to what the resolver returned");
    OBL(g_raw_names_seen == 1, "instantiate: the resolver is asked for the import's module and field names exactly as they are in the binary (punctuation, blanks and underscores included), once");
    OBL(c06defmem_g64(&inst) == (0x8000000000000001ull ^ big) && vh_f32bits(c06defmem_gf32(&inst)) == 0x7FA00001u && vh_f64bits(c06defmem_gf64(&inst)) == 0xFFF0000000000123ull,
        "instantiate: exported functions are reachable under <module>_<name> and observe the initial state");
    CANARY("globals"); }
void h_start(void) { ND(U32, base); ND(U64, big); ASSUME(base >= 20 && base <= 23); host_setup(base, big);
    HAVOC_INSTANCE(inst); c06defmemInstantiate(&inst, resolve);
#ifdef WITH_START
    OBL(g_started_calls == 1, "instantiate: the start function runs exactly once");
    OBL(g_started_inst == (void*)&inst && g_started_a == 'X' && g_started_b == base, "instantiate: the start function runs on this instance and observes initialised memory and globals");
    OBL(g_state_complete_at_start, "instantiate: the start function runs after memories, data segments and globals are complete");
#else
    OBL(g_started_calls == 0, "instantiate: without a start section nothing is run");
#endif
    CANARY("start"); }
void h_persist_two_instances(void) { ND(U32, base); ND(U64, big); ND(U32, addr); U32 a, b, c; ASSUME(base >= 20 && base <= 23 && addr < 65536); host_setup(base, big);
    HAVOC_INSTANCE(inst); c06defmemInstantiate(&inst, resolve);
    HAVOC_INSTANCE(inst2); c06defmemInstantiate(&inst2, resolve);
    a = c06defmem_inc(&inst); b = c06defmem_inc(&inst); c = c06defmem_inc(&inst2);
    OBL(a == 6 && b == 7, "mutable state persists across calls within an instance");
    OBL(c == 6, "a second instance has its own copy of every defined global");
#ifndef IMPORTED_MEMORY
    OBL(inst.m0 != inst2.m0 && inst.m0->data != inst2.m0->data, "two instances have distinct defined memories");
    c06defmem_poke(&inst2, addr, 0x5A);
    OBL(c06defmem_peek(&inst, addr) == expected_byte(addr, base), "a store through one instance is invisible through the other");
    OBL(c06defmem_mem(&inst) == inst.m0, "exported memory is reachable under <module>_<name>");
#else
    OBL(c06defmem_mem(&inst) == &g_hostmem, "exported (imported) memory is reachable under <module>_<name>");
#endif
    CANARY("persist"); }
