/* C07: wasmCWriteLiteral of the real w2c2/c.c (#included whole) with the string builder replaced by the ghost recorder:
 * classification of every bit pattern into hex-reinterpret / INFINITY / negative zero / decimal printer. */
#include "c.c"
#include "vh.h"
#include "sb_recorder.h"
#include "wasm_int.h"
#include "wasm_float.h"
#include "trapstub.h"
void trap(Trap t);

void h_lit_i32(void) { ND(U32, v); WasmValue val; StringBuilder sb; bool ok; g_sb_n = 0; val.i32 = (I32)v;
    ok = wasmCWriteLiteral(&sb, wasmValueTypeI32, val);
    OBL(ok && g_sb_n == 2 && sb_is(0, SB_I32, v) && sb_is_chr(1, 'U'), "literal i32: the signed decimal of the value followed by the unsigned suffix U (C evaluates -dU modulo 2^32, i.e. to the two's-complement pattern)");
    CANARY("i32"); }
void h_lit_i64(void) { ND(U64, v); WasmValue val; StringBuilder sb; bool ok; g_sb_n = 0; val.i64 = (I64)v;
    ok = wasmCWriteLiteral(&sb, wasmValueTypeI64, val);
    OBL(ok && g_sb_n == 3 && sb_is_str(0, "W2C2_LL(") && sb_is(1, SB_I64, v) && sb_is_str(2, "U)"), "literal i64: W2C2_LL(<signed decimal>U): unsigned long long constant, negation modulo 2^64");
    CANARY("i64"); }
void h_lit_f32(void) { ND(U32, b); WasmValue val; StringBuilder sb; bool ok; g_sb_n = 0; val.i32 = (I32)b;
    ok = wasmCWriteLiteral(&sb, wasmValueTypeF32, val);
    OBL(ok, "literal f32: accepted");
    if (spec_isnan32(b)) OBL(g_sb_n == 3 && sb_is_str(0, "f32_reinterpret_i32(0x") && sb_is(1, SB_HEX32, b) && sb_is_chr(2, ')'), "literal f32: EVERY NaN (any payload, quiet or signalling, either sign) is emitted through the exact bit pattern");
    else if ((b & 0x7FFFFFFFu) == 0x7F800000u) OBL(((b >> 31) ? (g_sb_n == 2 && sb_is_chr(0, '-') && sb_is_str(1, "INFINITY")) : (g_sb_n == 1 && sb_is_str(0, "INFINITY"))), "literal f32: infinities as [-]INFINITY");
    else if (b == 0x80000000u) OBL(g_sb_n == 1 && sb_is_str(0, "-0.f"), "literal f32: negative zero as a negative-zero literal");
    else OBL(g_sb_n == 1 && sb_is(0, SB_F32, b), "literal f32: every other value goes to the 9-significant-digit decimal printer with exactly these bits");
    CANARY("f32"); }
void h_lit_f64(void) { ND(U64, b); WasmValue val; StringBuilder sb; bool ok; g_sb_n = 0; val.i64 = (I64)b;
    ok = wasmCWriteLiteral(&sb, wasmValueTypeF64, val);
    OBL(ok, "literal f64: accepted");
    if (spec_isnan64(b)) OBL(g_sb_n == 3 && sb_is_str(0, "f64_reinterpret_i64(0x") && sb_is(1, SB_HEX64, b) && sb_is_chr(2, ')'), "literal f64: EVERY NaN (all 52 significand bits considered) is emitted through the exact bit pattern");
    else if ((b & 0x7FFFFFFFFFFFFFFFull) == 0x7FF0000000000000ull) OBL(((b >> 63) ? (g_sb_n == 2 && sb_is_chr(0, '-') && sb_is_str(1, "INFINITY")) : (g_sb_n == 1 && sb_is_str(0, "INFINITY"))), "literal f64: infinities as [-]INFINITY");
    else if (b == 0x8000000000000000ull) OBL(g_sb_n == 1 && sb_is_str(0, "-0.f"), "literal f64: negative zero as a negative-zero literal");
    else OBL(g_sb_n == 1 && sb_is(0, SB_F64, b), "literal f64: every other value goes to the 17-significant-digit decimal printer with exactly these bits");
    CANARY("f64"); }
