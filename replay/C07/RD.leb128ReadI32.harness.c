/* LEB128 decoders of the real w2c2/leb128.h against the binary-format specification (5.2.2):
 * for every value and every redundantly padded encoding length, decode(encode_L(v)) = (v, L). */
#include "w2c2_base.h"
#include "buffer.h"
#include "leb128.h"
#include "vh.h"
#include "wasm_int.h"
#include "trapstub.h"

/* spec encoders with padding to exactly L bytes */
static void enc_u(U64 v, unsigned L, U8* out) { unsigned i; for (i = 0; i < L; i++) { out[i] = (U8)((v & 0x7F) | (i + 1 < L ? 0x80 : 0)); v >>= 7; } }
static void enc_s(U64 v /* two's complement, sign-extended to 64 bits */, unsigned L, U8* out) {
    unsigned i; int neg = (int)(v >> 63);
    for (i = 0; i < L; i++) { out[i] = (U8)((v & 0x7F) | (i + 1 < L ? 0x80 : 0)); v = (v >> 7) | (neg ? (0x7Full << 57) : 0); }
}
static int fits_u(U64 v, unsigned L) { return L >= 10 || (v >> (7 * L)) == 0; }
static int fits_s(U64 v, unsigned L) {      /* -(2^(7L-1)) <= v < 2^(7L-1) */
    U64 top; if (L >= 10) return 1; top = (U64)((I64)v >> (7 * L - 1)); return top == 0 || top == ~0ull;
}
#define TAIL 3
void h_u32(void) { ND(U32, v); ND(unsigned, L); ND_ARR(U8, tail, TAIL); U8* b; Buffer buf; U32 r = 0; size_t n; unsigned i;
    ASSUME(L >= 1 && L <= 5 && fits_u(v, L));
    b = (U8*)malloc(L + TAIL); ASSUME(b != 0); enc_u(v, L, b); for (i = 0; i < TAIL; i++) b[L + i] = tail[i];
    buf.data = b; buf.length = L + TAIL;
    n = leb128ReadU32(&buf, &r);
    OBL(r == v && n == L, "leb128ReadU32: every padded encoding of v decodes to v and consumes exactly its length");
    OBL(buf.data == b + L && buf.length == TAIL, "leb128ReadU32: the buffer is advanced by exactly the encoding");
    CANARY("u32"); }
void h_i32(void) { ND(U32, v); ND(unsigned, L); ND_ARR(U8, tail, TAIL); U8* b; Buffer buf; I32 r = 0; size_t n; unsigned i; U64 sx;
    sx = spec_i64_extend_i32_s(v);
    ASSUME(L >= 1 && L <= 5 && fits_s(sx, L));
    b = (U8*)malloc(L + TAIL); ASSUME(b != 0); enc_s(sx, L, b); for (i = 0; i < TAIL; i++) b[L + i] = tail[i];
    buf.data = b; buf.length = L + TAIL;
    n = leb128ReadI32(&buf, &r);
    OBL((U32)r == v && n == L, "leb128ReadI32: every padded encoding of v decodes to v (INT_MIN and -1 included) and consumes exactly its length");
    OBL(buf.data == b + L && buf.length == TAIL, "leb128ReadI32: the buffer is advanced by exactly the encoding");
    CANARY("i32"); }
void h_u64(void) { ND(U64, v); ND(unsigned, L); ND_ARR(U8, tail, TAIL); U8* b; Buffer buf; U64 r = 0; size_t n; unsigned i;
    ASSUME(L >= 1 && L <= 10 && fits_u(v, L));
    b = (U8*)malloc(L + TAIL); ASSUME(b != 0); enc_u(v, L, b); for (i = 0; i < TAIL; i++) b[L + i] = tail[i];
    buf.data = b; buf.length = L + TAIL;
    n = leb128ReadU64(&buf, &r);
    OBL(r == v && n == L, "leb128ReadU64: every padded encoding of v decodes to v");
    OBL(buf.data == b + L && buf.length == TAIL, "leb128ReadU64: the buffer is advanced by exactly the encoding");
    CANARY("u64"); }
void h_i64(void) { ND(U64, v); ND(unsigned, L); ND_ARR(U8, tail, TAIL); U8* b; Buffer buf; I64 r = 0; size_t n; unsigned i;
    ASSUME(L >= 1 && L <= 10 && fits_s(v, L));
    b = (U8*)malloc(L + TAIL); ASSUME(b != 0); enc_s(v, L, b); for (i = 0; i < TAIL; i++) b[L + i] = tail[i];
    buf.data = b; buf.length = L + TAIL;
    n = leb128ReadI64(&buf, &r);
    OBL((U64)r == v && n == L, "leb128ReadI64: every padded encoding of v decodes to v (INT64_MIN and -1 included)");
    OBL(buf.data == b + L && buf.length == TAIL, "leb128ReadI64: the buffer is advanced by exactly the encoding");
    CANARY("i64"); }
/* truncated input: never reads past the buffer (exact-size heap object => bounds check), reports what it consumed */
void h_trunc(void) { ND(unsigned, len); ND_ARR(U8, src, 10); U8* b; Buffer buf; U32 r32 = 0; I32 ri32 = 0; U64 r64 = 0; I64 ri64 = 0; size_t n; unsigned i; ND(int, which);
    ASSUME(len <= 10);
    b = (U8*)malloc(len ? len : 1); ASSUME(b != 0); for (i = 0; i < len; i++) b[i] = src[i];
    buf.data = b; buf.length = len;
    if (which == 0) n = leb128ReadU32(&buf, &r32); else if (which == 1) n = leb128ReadI32(&buf, &ri32); else if (which == 2) n = leb128ReadU64(&buf, &r64); else n = leb128ReadI64(&buf, &ri64);
    OBL(n <= len && buf.length == len - n && buf.data == b + n, "leb128Read*: on any (possibly truncated) buffer no byte past the end is read and exactly the consumed bytes are accounted for");
    OBL(len != 0 || n == 0, "leb128Read*: an empty buffer yields 0 bytes read");
    CANARY("trunc"); }
