#include "vh.h"
#include "c07const.c"
#include "wasm_int.h"
#include "libm_markers.h"
#include "trapstub.h"
static c07constInstance inst;
void h_f32body1(void) {
  F32 r;
  g_libm_calls = 0;
  g_spec_trap = SPEC_NOTRAP;
  r = c07const_f32body1(&inst);
  OBL(g_spec_trap == SPEC_NOTRAP, "f32body1: returned normally only if the specification does not trap");
  OBL(vh_f32bits(r) == 0x00000000u, "f32body1: the f32 immediate 0x0 in a function body denotes exactly this bit pattern after translation to C text");
  CANARY("f32body1 returns");
}
void h_f32glob1(void) {
  F32 r;
  g_libm_calls = 0;
  c07constInstantiate(&inst, 0);
  g_spec_trap = SPEC_NOTRAP;
  r = c07const_f32glob1(&inst);
  OBL(g_spec_trap == SPEC_NOTRAP, "f32glob1: returned normally only if the specification does not trap");
  OBL(vh_f32bits(r) == 0x00000000u, "f32glob1: the f32 immediate 0x0 as a global initialiser denotes exactly this bit pattern");
  CANARY("f32glob1 returns");
}
void h_f32body2(void) {
  F32 r;
  g_libm_calls = 0;
  g_spec_trap = SPEC_NOTRAP;
  r = c07const_f32body2(&inst);
  OBL(g_spec_trap == SPEC_NOTRAP, "f32body2: returned normally only if the specification does not trap");
  OBL(vh_f32bits(r) == 0x80000000u, "f32body2: the f32 immediate 0x80000000 in a function body denotes exactly this bit pattern after translation to C text");
  CANARY("f32body2 returns");
}
void h_f32glob2(void) {
  F32 r;
  g_libm_calls = 0;
  c07constInstantiate(&inst, 0);
  g_spec_trap = SPEC_NOTRAP;
  r = c07const_f32glob2(&inst);
  OBL(g_spec_trap == SPEC_NOTRAP, "f32glob2: returned normally only if the specification does not trap");
  OBL(vh_f32bits(r) == 0x80000000u, "f32glob2: the f32 immediate 0x80000000 as a global initialiser denotes exactly this bit pattern");
  CANARY("f32glob2 returns");
}
void h_f32body3(void) {
  F32 r;
  g_libm_calls = 0;
  g_spec_trap = SPEC_NOTRAP;
  r = c07const_f32body3(&inst);
  OBL(g_spec_trap == SPEC_NOTRAP, "f32body3: returned normally only if the specification does not trap");
  OBL(vh_f32bits(r) == 0x7F800000u, "f32body3: the f32 immediate 0x7F800000 in a function body denotes exactly this bit pattern after translation to C text");
  CANARY("f32body3 returns");
}
void h_f32glob3(void) {
  F32 r;
  g_libm_calls = 0;
  c07constInstantiate(&inst, 0);
  g_spec_trap = SPEC_NOTRAP;
  r = c07const_f32glob3(&inst);
  OBL(g_spec_trap == SPEC_NOTRAP, "f32glob3: returned normally only if the specification does not trap");
  OBL(vh_f32bits(r) == 0x7F800000u, "f32glob3: the f32 immediate 0x7F800000 as a global initialiser denotes exactly this bit pattern");
  CANARY("f32glob3 returns");
}
void h_f32body4(void) {
  F32 r;
  g_libm_calls = 0;
  g_spec_trap = SPEC_NOTRAP;
  r = c07const_f32body4(&inst);
  OBL(g_spec_trap == SPEC_NOTRAP, "f32body4: returned normally only if the specification does not trap");
  OBL(vh_f32bits(r) == 0xFF800000u, "f32body4: the f32 immediate 0xFF800000 in a function body denotes exactly this bit pattern after translation to C text");
  CANARY("f32body4 returns");
}
void h_f32glob4(void) {
  F32 r;
  g_libm_calls = 0;
  c07constInstantiate(&inst, 0);
  g_spec_trap = SPEC_NOTRAP;
  r = c07const_f32glob4(&inst);
  OBL(g_spec_trap == SPEC_NOTRAP, "f32glob4: returned normally only if the specification does not trap");
  OBL(vh_f32bits(r) == 0xFF800000u, "f32glob4: the f32 immediate 0xFF800000 as a global initialiser denotes exactly this bit pattern");
  CANARY("f32glob4 returns");
}
void h_f32body5(void) {
  F32 r;
  g_libm_calls = 0;
  g_spec_trap = SPEC_NOTRAP;
  r = c07const_f32body5(&inst);
  OBL(g_spec_trap == SPEC_NOTRAP, "f32body5: returned normally only if the specification does not trap");
  OBL(vh_f32bits(r) == 0x7FC00000u, "f32body5: the f32 immediate 0x7FC00000 in a function body denotes exactly this bit pattern after translation to C text");
  CANARY("f32body5 returns");
}
void h_f32glob5(void) {
  F32 r;
  g_libm_calls = 0;
  c07constInstantiate(&inst, 0);
  g_spec_trap = SPEC_NOTRAP;
  r = c07const_f32glob5(&inst);
  OBL(g_spec_trap == SPEC_NOTRAP, "f32glob5: returned normally only if the specification does not trap");
  OBL(vh_f32bits(r) == 0x7FC00000u, "f32glob5: the f32 immediate 0x7FC00000 as a global initialiser denotes exactly this bit pattern");
  CANARY("f32glob5 returns");
}
void h_f32body6(void) {
  F32 r;
  g_libm_calls = 0;
  g_spec_trap = SPEC_NOTRAP;
  r = c07const_f32body6(&inst);
  OBL(g_spec_trap == SPEC_NOTRAP, "f32body6: returned normally only if the specification does not trap");
  OBL(vh_f32bits(r) == 0xFFC00000u, "f32body6: the f32 immediate 0xFFC00000 in a function body denotes exactly this bit pattern after translation to C text");
  CANARY("f32body6 returns");
}
void h_f32glob6(void) {
  F32 r;
  g_libm_calls = 0;
  c07constInstantiate(&inst, 0);
  g_spec_trap = SPEC_NOTRAP;
  r = c07const_f32glob6(&inst);
  OBL(g_spec_trap == SPEC_NOTRAP, "f32glob6: returned normally only if the specification does not trap");
  OBL(vh_f32bits(r) == 0xFFC00000u, "f32glob6: the f32 immediate 0xFFC00000 as a global initialiser denotes exactly this bit pattern");
  CANARY("f32glob6 returns");
}
void h_f32body7(void) {
  F32 r;
  g_libm_calls = 0;
  g_spec_trap = SPEC_NOTRAP;
  r = c07const_f32body7(&inst);
  OBL(g_spec_trap == SPEC_NOTRAP, "f32body7: returned normally only if the specification does not trap");
  OBL(vh_f32bits(r) == 0x7FA00000u, "f32body7: the f32 immediate 0x7FA00000 in a function body denotes exactly this bit pattern after translation to C text");
  CANARY("f32body7 returns");
}
void h_f32glob7(void) {
  F32 r;
  g_libm_calls = 0;
  c07constInstantiate(&inst, 0);
  g_spec_trap = SPEC_NOTRAP;
  r = c07const_f32glob7(&inst);
  OBL(g_spec_trap == SPEC_NOTRAP, "f32glob7: returned normally only if the specification does not trap");
  OBL(vh_f32bits(r) == 0x7FA00000u, "f32glob7: the f32 immediate 0x7FA00000 as a global initialiser denotes exactly this bit pattern");
  CANARY("f32glob7 returns");
}
void h_f32body8(void) {
  F32 r;
  g_libm_calls = 0;
  g_spec_trap = SPEC_NOTRAP;
  r = c07const_f32body8(&inst);
  OBL(g_spec_trap == SPEC_NOTRAP, "f32body8: returned normally only if the specification does not trap");
  OBL(vh_f32bits(r) == 0x7F800001u, "f32body8: the f32 immediate 0x7F800001 in a function body denotes exactly this bit pattern after translation to C text");
  CANARY("f32body8 returns");
}
void h_f32glob8(void) {
  F32 r;
  g_libm_calls = 0;
  c07constInstantiate(&inst, 0);
  g_spec_trap = SPEC_NOTRAP;
  r = c07const_f32glob8(&inst);
  OBL(g_spec_trap == SPEC_NOTRAP, "f32glob8: returned normally only if the specification does not trap");
  OBL(vh_f32bits(r) == 0x7F800001u, "f32glob8: the f32 immediate 0x7F800001 as a global initialiser denotes exactly this bit pattern");
  CANARY("f32glob8 returns");
}
void h_f32body9(void) {
  F32 r;
  g_libm_calls = 0;
  g_spec_trap = SPEC_NOTRAP;
  r = c07const_f32body9(&inst);
  OBL(g_spec_trap == SPEC_NOTRAP, "f32body9: returned normally only if the specification does not trap");
  OBL(vh_f32bits(r) == 0xFF800001u, "f32body9: the f32 immediate 0xFF800001 in a function body denotes exactly this bit pattern after translation to C text");
  CANARY("f32body9 returns");
}
void h_f32glob9(void) {
  F32 r;
  g_libm_calls = 0;
  c07constInstantiate(&inst, 0);
  g_spec_trap = SPEC_NOTRAP;
  r = c07const_f32glob9(&inst);
  OBL(g_spec_trap == SPEC_NOTRAP, "f32glob9: returned normally only if the specification does not trap");
  OBL(vh_f32bits(r) == 0xFF800001u, "f32glob9: the f32 immediate 0xFF800001 as a global initialiser denotes exactly this bit pattern");
  CANARY("f32glob9 returns");
}
void h_f32body10(void) {
  F32 r;
  g_libm_calls = 0;
  g_spec_trap = SPEC_NOTRAP;
  r = c07const_f32body10(&inst);
  OBL(g_spec_trap == SPEC_NOTRAP, "f32body10: returned normally only if the specification does not trap");
  OBL(vh_f32bits(r) == 0x7FFFFFFFu, "f32body10: the f32 immediate 0x7FFFFFFF in a function body denotes exactly this bit pattern after translation to C text");
  CANARY("f32body10 returns");
}
void h_f32glob10(void) {
  F32 r;
  g_libm_calls = 0;
  c07constInstantiate(&inst, 0);
  g_spec_trap = SPEC_NOTRAP;
  r = c07const_f32glob10(&inst);
  OBL(g_spec_trap == SPEC_NOTRAP, "f32glob10: returned normally only if the specification does not trap");
  OBL(vh_f32bits(r) == 0x7FFFFFFFu, "f32glob10: the f32 immediate 0x7FFFFFFF as a global initialiser denotes exactly this bit pattern");
  CANARY("f32glob10 returns");
}
void h_f32body11(void) {
  F32 r;
  g_libm_calls = 0;
  g_spec_trap = SPEC_NOTRAP;
  r = c07const_f32body11(&inst);
  OBL(g_spec_trap == SPEC_NOTRAP, "f32body11: returned normally only if the specification does not trap");
  OBL(vh_f32bits(r) == 0xFFFFFFFFu, "f32body11: the f32 immediate 0xFFFFFFFF in a function body denotes exactly this bit pattern after translation to C text");
  CANARY("f32body11 returns");
}
void h_f32glob11(void) {
  F32 r;
  g_libm_calls = 0;
  c07constInstantiate(&inst, 0);
  g_spec_trap = SPEC_NOTRAP;
  r = c07const_f32glob11(&inst);
  OBL(g_spec_trap == SPEC_NOTRAP, "f32glob11: returned normally only if the specification does not trap");
  OBL(vh_f32bits(r) == 0xFFFFFFFFu, "f32glob11: the f32 immediate 0xFFFFFFFF as a global initialiser denotes exactly this bit pattern");
  CANARY("f32glob11 returns");
}
void h_f32body12(void) {
  F32 r;
  g_libm_calls = 0;
  g_spec_trap = SPEC_NOTRAP;
  r = c07const_f32body12(&inst);
  OBL(g_spec_trap == SPEC_NOTRAP, "f32body12: returned normally only if the specification does not trap");
  OBL(vh_f32bits(r) == 0x7F900000u, "f32body12: the f32 immediate 0x7F900000 in a function body denotes exactly this bit pattern after translation to C text");
  CANARY("f32body12 returns");
}
void h_f32glob12(void) {
  F32 r;
  g_libm_calls = 0;
  c07constInstantiate(&inst, 0);
  g_spec_trap = SPEC_NOTRAP;
  r = c07const_f32glob12(&inst);
  OBL(g_spec_trap == SPEC_NOTRAP, "f32glob12: returned normally only if the specification does not trap");
  OBL(vh_f32bits(r) == 0x7F900000u, "f32glob12: the f32 immediate 0x7F900000 as a global initialiser denotes exactly this bit pattern");
  CANARY("f32glob12 returns");
}
void h_f32body13(void) {
  F32 r;
  g_libm_calls = 0;
  g_spec_trap = SPEC_NOTRAP;
  r = c07const_f32body13(&inst);
  OBL(g_spec_trap == SPEC_NOTRAP, "f32body13: returned normally only if the specification does not trap");
  OBL(vh_f32bits(r) == 0x7FC00001u, "f32body13: the f32 immediate 0x7FC00001 in a function body denotes exactly this bit pattern after translation to C text");
  CANARY("f32body13 returns");
}
void h_f32glob13(void) {
  F32 r;
  g_libm_calls = 0;
  c07constInstantiate(&inst, 0);
  g_spec_trap = SPEC_NOTRAP;
  r = c07const_f32glob13(&inst);
  OBL(g_spec_trap == SPEC_NOTRAP, "f32glob13: returned normally only if the specification does not trap");
  OBL(vh_f32bits(r) == 0x7FC00001u, "f32glob13: the f32 immediate 0x7FC00001 as a global initialiser denotes exactly this bit pattern");
  CANARY("f32glob13 returns");
}
void h_f32body14(void) {
  F32 r;
  g_libm_calls = 0;
  g_spec_trap = SPEC_NOTRAP;
  r = c07const_f32body14(&inst);
  OBL(g_spec_trap == SPEC_NOTRAP, "f32body14: returned normally only if the specification does not trap");
  OBL(vh_f32bits(r) == 0x7F801000u, "f32body14: the f32 immediate 0x7F801000 in a function body denotes exactly this bit pattern after translation to C text");
  CANARY("f32body14 returns");
}
void h_f32glob14(void) {
  F32 r;
  g_libm_calls = 0;
  c07constInstantiate(&inst, 0);
  g_spec_trap = SPEC_NOTRAP;
  r = c07const_f32glob14(&inst);
  OBL(g_spec_trap == SPEC_NOTRAP, "f32glob14: returned normally only if the specification does not trap");
  OBL(vh_f32bits(r) == 0x7F801000u, "f32glob14: the f32 immediate 0x7F801000 as a global initialiser denotes exactly this bit pattern");
  CANARY("f32glob14 returns");
}
void h_f32body15(void) {
  F32 r;
  g_libm_calls = 0;
  g_spec_trap = SPEC_NOTRAP;
  r = c07const_f32body15(&inst);
  OBL(g_spec_trap == SPEC_NOTRAP, "f32body15: returned normally only if the specification does not trap");
  OBL(vh_f32bits(r) == 0x00000001u, "f32body15: the f32 immediate 0x1 in a function body denotes exactly this bit pattern after translation to C text");
  CANARY("f32body15 returns");
}
void h_f32glob15(void) {
  F32 r;
  g_libm_calls = 0;
  c07constInstantiate(&inst, 0);
  g_spec_trap = SPEC_NOTRAP;
  r = c07const_f32glob15(&inst);
  OBL(g_spec_trap == SPEC_NOTRAP, "f32glob15: returned normally only if the specification does not trap");
  OBL(vh_f32bits(r) == 0x00000001u, "f32glob15: the f32 immediate 0x1 as a global initialiser denotes exactly this bit pattern");
  CANARY("f32glob15 returns");
}
void h_f32body16(void) {
  F32 r;
  g_libm_calls = 0;
  g_spec_trap = SPEC_NOTRAP;
  r = c07const_f32body16(&inst);
  OBL(g_spec_trap == SPEC_NOTRAP, "f32body16: returned normally only if the specification does not trap");
  OBL(vh_f32bits(r) == 0x80000001u, "f32body16: the f32 immediate 0x80000001 in a function body denotes exactly this bit pattern after translation to C text");
  CANARY("f32body16 returns");
}
void h_f32glob16(void) {
  F32 r;
  g_libm_calls = 0;
  c07constInstantiate(&inst, 0);
  g_spec_trap = SPEC_NOTRAP;
  r = c07const_f32glob16(&inst);
  OBL(g_spec_trap == SPEC_NOTRAP, "f32glob16: returned normally only if the specification does not trap");
  OBL(vh_f32bits(r) == 0x80000001u, "f32glob16: the f32 immediate 0x80000001 as a global initialiser denotes exactly this bit pattern");
  CANARY("f32glob16 returns");
}
void h_f32body17(void) {
  F32 r;
  g_libm_calls = 0;
  g_spec_trap = SPEC_NOTRAP;
  r = c07const_f32body17(&inst);
  OBL(g_spec_trap == SPEC_NOTRAP, "f32body17: returned normally only if the specification does not trap");
  OBL(vh_f32bits(r) == 0x007FFFFFu, "f32body17: the f32 immediate 0x7FFFFF in a function body denotes exactly this bit pattern after translation to C text");
  CANARY("f32body17 returns");
}
void h_f32glob17(void) {
  F32 r;
  g_libm_calls = 0;
  c07constInstantiate(&inst, 0);
  g_spec_trap = SPEC_NOTRAP;
  r = c07const_f32glob17(&inst);
  OBL(g_spec_trap == SPEC_NOTRAP, "f32glob17: returned normally only if the specification does not trap");
  OBL(vh_f32bits(r) == 0x007FFFFFu, "f32glob17: the f32 immediate 0x7FFFFF as a global initialiser denotes exactly this bit pattern");
  CANARY("f32glob17 returns");
}
void h_f32body18(void) {
  F32 r;
  g_libm_calls = 0;
  g_spec_trap = SPEC_NOTRAP;
  r = c07const_f32body18(&inst);
  OBL(g_spec_trap == SPEC_NOTRAP, "f32body18: returned normally only if the specification does not trap");
  OBL(vh_f32bits(r) == 0x00800000u, "f32body18: the f32 immediate 0x800000 in a function body denotes exactly this bit pattern after translation to C text");
  CANARY("f32body18 returns");
}
void h_f32glob18(void) {
  F32 r;
  g_libm_calls = 0;
  c07constInstantiate(&inst, 0);
  g_spec_trap = SPEC_NOTRAP;
  r = c07const_f32glob18(&inst);
  OBL(g_spec_trap == SPEC_NOTRAP, "f32glob18: returned normally only if the specification does not trap");
  OBL(vh_f32bits(r) == 0x00800000u, "f32glob18: the f32 immediate 0x800000 as a global initialiser denotes exactly this bit pattern");
  CANARY("f32glob18 returns");
}
void h_f32body19(void) {
  F32 r;
  g_libm_calls = 0;
  g_spec_trap = SPEC_NOTRAP;
  r = c07const_f32body19(&inst);
  OBL(g_spec_trap == SPEC_NOTRAP, "f32body19: returned normally only if the specification does not trap");
  OBL(vh_f32bits(r) == 0x7F7FFFFFu, "f32body19: the f32 immediate 0x7F7FFFFF in a function body denotes exactly this bit pattern after translation to C text");
  CANARY("f32body19 returns");
}
void h_f32glob19(void) {
  F32 r;
  g_libm_calls = 0;
  c07constInstantiate(&inst, 0);
  g_spec_trap = SPEC_NOTRAP;
  r = c07const_f32glob19(&inst);
  OBL(g_spec_trap == SPEC_NOTRAP, "f32glob19: returned normally only if the specification does not trap");
  OBL(vh_f32bits(r) == 0x7F7FFFFFu, "f32glob19: the f32 immediate 0x7F7FFFFF as a global initialiser denotes exactly this bit pattern");
  CANARY("f32glob19 returns");
}
void h_f32body20(void) {
  F32 r;
  g_libm_calls = 0;
  g_spec_trap = SPEC_NOTRAP;
  r = c07const_f32body20(&inst);
  OBL(g_spec_trap == SPEC_NOTRAP, "f32body20: returned normally only if the specification does not trap");
  OBL(vh_f32bits(r) == 0xFF7FFFFFu, "f32body20: the f32 immediate 0xFF7FFFFF in a function body denotes exactly this bit pattern after translation to C text");
  CANARY("f32body20 returns");
}
void h_f32glob20(void) {
  F32 r;
  g_libm_calls = 0;
  c07constInstantiate(&inst, 0);
  g_spec_trap = SPEC_NOTRAP;
  r = c07const_f32glob20(&inst);
  OBL(g_spec_trap == SPEC_NOTRAP, "f32glob20: returned normally only if the specification does not trap");
  OBL(vh_f32bits(r) == 0xFF7FFFFFu, "f32glob20: the f32 immediate 0xFF7FFFFF as a global initialiser denotes exactly this bit pattern");
  CANARY("f32glob20 returns");
}
void h_f32body21(void) {
  F32 r;
  g_libm_calls = 0;
  g_spec_trap = SPEC_NOTRAP;
  r = c07const_f32body21(&inst);
  OBL(g_spec_trap == SPEC_NOTRAP, "f32body21: returned normally only if the specification does not trap");
  OBL(vh_f32bits(r) == 0x3F800000u, "f32body21: the f32 immediate 0x3F800000 in a function body denotes exactly this bit pattern after translation to C text");
  CANARY("f32body21 returns");
}
void h_f32glob21(void) {
  F32 r;
  g_libm_calls = 0;
  c07constInstantiate(&inst, 0);
  g_spec_trap = SPEC_NOTRAP;
  r = c07const_f32glob21(&inst);
  OBL(g_spec_trap == SPEC_NOTRAP, "f32glob21: returned normally only if the specification does not trap");
  OBL(vh_f32bits(r) == 0x3F800000u, "f32glob21: the f32 immediate 0x3F800000 as a global initialiser denotes exactly this bit pattern");
  CANARY("f32glob21 returns");
}
void h_f32body22(void) {
  F32 r;
  g_libm_calls = 0;
  g_spec_trap = SPEC_NOTRAP;
  r = c07const_f32body22(&inst);
  OBL(g_spec_trap == SPEC_NOTRAP, "f32body22: returned normally only if the specification does not trap");
  OBL(vh_f32bits(r) == 0xBF800000u, "f32body22: the f32 immediate 0xBF800000 in a function body denotes exactly this bit pattern after translation to C text");
  CANARY("f32body22 returns");
}
void h_f32glob22(void) {
  F32 r;
  g_libm_calls = 0;
  c07constInstantiate(&inst, 0);
  g_spec_trap = SPEC_NOTRAP;
  r = c07const_f32glob22(&inst);
  OBL(g_spec_trap == SPEC_NOTRAP, "f32glob22: returned normally only if the specification does not trap");
  OBL(vh_f32bits(r) == 0xBF800000u, "f32glob22: the f32 immediate 0xBF800000 as a global initialiser denotes exactly this bit pattern");
  CANARY("f32glob22 returns");
}
void h_f32body23(void) {
  F32 r;
  g_libm_calls = 0;
  g_spec_trap = SPEC_NOTRAP;
  r = c07const_f32body23(&inst);
  OBL(g_spec_trap == SPEC_NOTRAP, "f32body23: returned normally only if the specification does not trap");
  OBL(vh_f32bits(r) == 0x3DCCCCCDu, "f32body23: the f32 immediate 0x3DCCCCCD in a function body denotes exactly this bit pattern after translation to C text");
  CANARY("f32body23 returns");
}
void h_f32glob23(void) {
  F32 r;
  g_libm_calls = 0;
  c07constInstantiate(&inst, 0);
  g_spec_trap = SPEC_NOTRAP;
  r = c07const_f32glob23(&inst);
  OBL(g_spec_trap == SPEC_NOTRAP, "f32glob23: returned normally only if the specification does not trap");
  OBL(vh_f32bits(r) == 0x3DCCCCCDu, "f32glob23: the f32 immediate 0x3DCCCCCD as a global initialiser denotes exactly this bit pattern");
  CANARY("f32glob23 returns");
}
void h_f32body24(void) {
  F32 r;
  g_libm_calls = 0;
  g_spec_trap = SPEC_NOTRAP;
  r = c07const_f32body24(&inst);
  OBL(g_spec_trap == SPEC_NOTRAP, "f32body24: returned normally only if the specification does not trap");
  OBL(vh_f32bits(r) == 0x40490FDBu, "f32body24: the f32 immediate 0x40490FDB in a function body denotes exactly this bit pattern after translation to C text");
  CANARY("f32body24 returns");
}
void h_f32glob24(void) {
  F32 r;
  g_libm_calls = 0;
  c07constInstantiate(&inst, 0);
  g_spec_trap = SPEC_NOTRAP;
  r = c07const_f32glob24(&inst);
  OBL(g_spec_trap == SPEC_NOTRAP, "f32glob24: returned normally only if the specification does not trap");
  OBL(vh_f32bits(r) == 0x40490FDBu, "f32glob24: the f32 immediate 0x40490FDB as a global initialiser denotes exactly this bit pattern");
  CANARY("f32glob24 returns");
}
void h_f32body25(void) {
  F32 r;
  g_libm_calls = 0;
  g_spec_trap = SPEC_NOTRAP;
  r = c07const_f32body25(&inst);
  OBL(g_spec_trap == SPEC_NOTRAP, "f32body25: returned normally only if the specification does not trap");
  OBL(vh_f32bits(r) == 0x447FFFFFu, "f32body25: the f32 immediate 0x447FFFFF in a function body denotes exactly this bit pattern after translation to C text");
  CANARY("f32body25 returns");
}
void h_f32glob25(void) {
  F32 r;
  g_libm_calls = 0;
  c07constInstantiate(&inst, 0);
  g_spec_trap = SPEC_NOTRAP;
  r = c07const_f32glob25(&inst);
  OBL(g_spec_trap == SPEC_NOTRAP, "f32glob25: returned normally only if the specification does not trap");
  OBL(vh_f32bits(r) == 0x447FFFFFu, "f32glob25: the f32 immediate 0x447FFFFF as a global initialiser denotes exactly this bit pattern");
  CANARY("f32glob25 returns");
}
void h_f32body26(void) {
  F32 r;
  g_libm_calls = 0;
  g_spec_trap = SPEC_NOTRAP;
  r = c07const_f32body26(&inst);
  OBL(g_spec_trap == SPEC_NOTRAP, "f32body26: returned normally only if the specification does not trap");
  OBL(vh_f32bits(r) == 0x4B800001u, "f32body26: the f32 immediate 0x4B800001 in a function body denotes exactly this bit pattern after translation to C text");
  CANARY("f32body26 returns");
}
void h_f32glob26(void) {
  F32 r;
  g_libm_calls = 0;
  c07constInstantiate(&inst, 0);
  g_spec_trap = SPEC_NOTRAP;
  r = c07const_f32glob26(&inst);
  OBL(g_spec_trap == SPEC_NOTRAP, "f32glob26: returned normally only if the specification does not trap");
  OBL(vh_f32bits(r) == 0x4B800001u, "f32glob26: the f32 immediate 0x4B800001 as a global initialiser denotes exactly this bit pattern");
  CANARY("f32glob26 returns");
}
void h_f32body27(void) {
  F32 r;
  g_libm_calls = 0;
  g_spec_trap = SPEC_NOTRAP;
  r = c07const_f32body27(&inst);
  OBL(g_spec_trap == SPEC_NOTRAP, "f32body27: returned normally only if the specification does not trap");
  OBL(vh_f32bits(r) == 0x4E6E6B28u, "f32body27: the f32 immediate 0x4E6E6B28 in a function body denotes exactly this bit pattern after translation to C text");
  CANARY("f32body27 returns");
}
void h_f32glob27(void) {
  F32 r;
  g_libm_calls = 0;
  c07constInstantiate(&inst, 0);
  g_spec_trap = SPEC_NOTRAP;
  r = c07const_f32glob27(&inst);
  OBL(g_spec_trap == SPEC_NOTRAP, "f32glob27: returned normally only if the specification does not trap");
  OBL(vh_f32bits(r) == 0x4E6E6B28u, "f32glob27: the f32 immediate 0x4E6E6B28 as a global initialiser denotes exactly this bit pattern");
  CANARY("f32glob27 returns");
}
void h_f32body28(void) {
  F32 r;
  g_libm_calls = 0;
  g_spec_trap = SPEC_NOTRAP;
  r = c07const_f32body28(&inst);
  OBL(g_spec_trap == SPEC_NOTRAP, "f32body28: returned normally only if the specification does not trap");
  OBL(vh_f32bits(r) == 0x3F7FFFFFu, "f32body28: the f32 immediate 0x3F7FFFFF in a function body denotes exactly this bit pattern after translation to C text");
  CANARY("f32body28 returns");
}
void h_f32glob28(void) {
  F32 r;
  g_libm_calls = 0;
  c07constInstantiate(&inst, 0);
  g_spec_trap = SPEC_NOTRAP;
  r = c07const_f32glob28(&inst);
  OBL(g_spec_trap == SPEC_NOTRAP, "f32glob28: returned normally only if the specification does not trap");
  OBL(vh_f32bits(r) == 0x3F7FFFFFu, "f32glob28: the f32 immediate 0x3F7FFFFF as a global initialiser denotes exactly this bit pattern");
  CANARY("f32glob28 returns");
}
void h_f32body29(void) {
  F32 r;
  g_libm_calls = 0;
  g_spec_trap = SPEC_NOTRAP;
  r = c07const_f32body29(&inst);
  OBL(g_spec_trap == SPEC_NOTRAP, "f32body29: returned normally only if the specification does not trap");
  OBL(vh_f32bits(r) == 0x3F800001u, "f32body29: the f32 immediate 0x3F800001 in a function body denotes exactly this bit pattern after translation to C text");
  CANARY("f32body29 returns");
}
void h_f32glob29(void) {
  F32 r;
  g_libm_calls = 0;
  c07constInstantiate(&inst, 0);
  g_spec_trap = SPEC_NOTRAP;
  r = c07const_f32glob29(&inst);
  OBL(g_spec_trap == SPEC_NOTRAP, "f32glob29: returned normally only if the specification does not trap");
  OBL(vh_f32bits(r) == 0x3F800001u, "f32glob29: the f32 immediate 0x3F800001 as a global initialiser denotes exactly this bit pattern");
  CANARY("f32glob29 returns");
}
void h_f32body30(void) {
  F32 r;
  g_libm_calls = 0;
  g_spec_trap = SPEC_NOTRAP;
  r = c07const_f32body30(&inst);
  OBL(g_spec_trap == SPEC_NOTRAP, "f32body30: returned normally only if the specification does not trap");
  OBL(vh_f32bits(r) == 0x34000000u, "f32body30: the f32 immediate 0x34000000 in a function body denotes exactly this bit pattern after translation to C text");
  CANARY("f32body30 returns");
}
void h_f32glob30(void) {
  F32 r;
  g_libm_calls = 0;
  c07constInstantiate(&inst, 0);
  g_spec_trap = SPEC_NOTRAP;
  r = c07const_f32glob30(&inst);
  OBL(g_spec_trap == SPEC_NOTRAP, "f32glob30: returned normally only if the specification does not trap");
  OBL(vh_f32bits(r) == 0x34000000u, "f32glob30: the f32 immediate 0x34000000 as a global initialiser denotes exactly this bit pattern");
  CANARY("f32glob30 returns");
}
void h_f32body31(void) {
  F32 r;
  g_libm_calls = 0;
  g_spec_trap = SPEC_NOTRAP;
  r = c07const_f32body31(&inst);
  OBL(g_spec_trap == SPEC_NOTRAP, "f32body31: returned normally only if the specification does not trap");
  OBL(vh_f32bits(r) == 0x33800000u, "f32body31: the f32 immediate 0x33800000 in a function body denotes exactly this bit pattern after translation to C text");
  CANARY("f32body31 returns");
}
void h_f32glob31(void) {
  F32 r;
  g_libm_calls = 0;
  c07constInstantiate(&inst, 0);
  g_spec_trap = SPEC_NOTRAP;
  r = c07const_f32glob31(&inst);
  OBL(g_spec_trap == SPEC_NOTRAP, "f32glob31: returned normally only if the specification does not trap");
  OBL(vh_f32bits(r) == 0x33800000u, "f32glob31: the f32 immediate 0x33800000 as a global initialiser denotes exactly this bit pattern");
  CANARY("f32glob31 returns");
}
void h_f32body32(void) {
  F32 r;
  g_libm_calls = 0;
  g_spec_trap = SPEC_NOTRAP;
  r = c07const_f32body32(&inst);
  OBL(g_spec_trap == SPEC_NOTRAP, "f32body32: returned normally only if the specification does not trap");
  OBL(vh_f32bits(r) == 0x0DA24260u, "f32body32: the f32 immediate 0xDA24260 in a function body denotes exactly this bit pattern after translation to C text");
  CANARY("f32body32 returns");
}
void h_f32glob32(void) {
  F32 r;
  g_libm_calls = 0;
  c07constInstantiate(&inst, 0);
  g_spec_trap = SPEC_NOTRAP;
  r = c07const_f32glob32(&inst);
  OBL(g_spec_trap == SPEC_NOTRAP, "f32glob32: returned normally only if the specification does not trap");
  OBL(vh_f32bits(r) == 0x0DA24260u, "f32glob32: the f32 immediate 0xDA24260 as a global initialiser denotes exactly this bit pattern");
  CANARY("f32glob32 returns");
}
void h_f32body33(void) {
  F32 r;
  g_libm_calls = 0;
  g_spec_trap = SPEC_NOTRAP;
  r = c07const_f32body33(&inst);
  OBL(g_spec_trap == SPEC_NOTRAP, "f32body33: returned normally only if the specification does not trap");
  OBL(vh_f32bits(r) == 0x7149F2CAu, "f32body33: the f32 immediate 0x7149F2CA in a function body denotes exactly this bit pattern after translation to C text");
  CANARY("f32body33 returns");
}
void h_f32glob33(void) {
  F32 r;
  g_libm_calls = 0;
  c07constInstantiate(&inst, 0);
  g_spec_trap = SPEC_NOTRAP;
  r = c07const_f32glob33(&inst);
  OBL(g_spec_trap == SPEC_NOTRAP, "f32glob33: returned normally only if the specification does not trap");
  OBL(vh_f32bits(r) == 0x7149F2CAu, "f32glob33: the f32 immediate 0x7149F2CA as a global initialiser denotes exactly this bit pattern");
  CANARY("f32glob33 returns");
}
void h_f32body34(void) {
  F32 r;
  g_libm_calls = 0;
  g_spec_trap = SPEC_NOTRAP;
  r = c07const_f32body34(&inst);
  OBL(g_spec_trap == SPEC_NOTRAP, "f32body34: returned normally only if the specification does not trap");
  OBL(vh_f32bits(r) == 0x4F000000u, "f32body34: the f32 immediate 0x4F000000 in a function body denotes exactly this bit pattern after translation to C text");
  CANARY("f32body34 returns");
}
void h_f32glob34(void) {
  F32 r;
  g_libm_calls = 0;
  c07constInstantiate(&inst, 0);
  g_spec_trap = SPEC_NOTRAP;
  r = c07const_f32glob34(&inst);
  OBL(g_spec_trap == SPEC_NOTRAP, "f32glob34: returned normally only if the specification does not trap");
  OBL(vh_f32bits(r) == 0x4F000000u, "f32glob34: the f32 immediate 0x4F000000 as a global initialiser denotes exactly this bit pattern");
  CANARY("f32glob34 returns");
}
void h_f32body35(void) {
  F32 r;
  g_libm_calls = 0;
  g_spec_trap = SPEC_NOTRAP;
  r = c07const_f32body35(&inst);
  OBL(g_spec_trap == SPEC_NOTRAP, "f32body35: returned normally only if the specification does not trap");
  OBL(vh_f32bits(r) == 0xCF000000u, "f32body35: the f32 immediate 0xCF000000 in a function body denotes exactly this bit pattern after translation to C text");
  CANARY("f32body35 returns");
}
void h_f32glob35(void) {
  F32 r;
  g_libm_calls = 0;
  c07constInstantiate(&inst, 0);
  g_spec_trap = SPEC_NOTRAP;
  r = c07const_f32glob35(&inst);
  OBL(g_spec_trap == SPEC_NOTRAP, "f32glob35: returned normally only if the specification does not trap");
  OBL(vh_f32bits(r) == 0xCF000000u, "f32glob35: the f32 immediate 0xCF000000 as a global initialiser denotes exactly this bit pattern");
  CANARY("f32glob35 returns");
}
void h_f32body36(void) {
  F32 r;
  g_libm_calls = 0;
  g_spec_trap = SPEC_NOTRAP;
  r = c07const_f32body36(&inst);
  OBL(g_spec_trap == SPEC_NOTRAP, "f32body36: returned normally only if the specification does not trap");
  OBL(vh_f32bits(r) == 0x5F000000u, "f32body36: the f32 immediate 0x5F000000 in a function body denotes exactly this bit pattern after translation to C text");
  CANARY("f32body36 returns");
}
void h_f32glob36(void) {
  F32 r;
  g_libm_calls = 0;
  c07constInstantiate(&inst, 0);
  g_spec_trap = SPEC_NOTRAP;
  r = c07const_f32glob36(&inst);
  OBL(g_spec_trap == SPEC_NOTRAP, "f32glob36: returned normally only if the specification does not trap");
  OBL(vh_f32bits(r) == 0x5F000000u, "f32glob36: the f32 immediate 0x5F000000 as a global initialiser denotes exactly this bit pattern");
  CANARY("f32glob36 returns");
}
void h_f32body37(void) {
  F32 r;
  g_libm_calls = 0;
  g_spec_trap = SPEC_NOTRAP;
  r = c07const_f32body37(&inst);
  OBL(g_spec_trap == SPEC_NOTRAP, "f32body37: returned normally only if the specification does not trap");
  OBL(vh_f32bits(r) == 0x4F800000u, "f32body37: the f32 immediate 0x4F800000 in a function body denotes exactly this bit pattern after translation to C text");
  CANARY("f32body37 returns");
}
void h_f32glob37(void) {
  F32 r;
  g_libm_calls = 0;
  c07constInstantiate(&inst, 0);
  g_spec_trap = SPEC_NOTRAP;
  r = c07const_f32glob37(&inst);
  OBL(g_spec_trap == SPEC_NOTRAP, "f32glob37: returned normally only if the specification does not trap");
  OBL(vh_f32bits(r) == 0x4F800000u, "f32glob37: the f32 immediate 0x4F800000 as a global initialiser denotes exactly this bit pattern");
  CANARY("f32glob37 returns");
}
void h_f32body38(void) {
  F32 r;
  g_libm_calls = 0;
  g_spec_trap = SPEC_NOTRAP;
  r = c07const_f32body38(&inst);
  OBL(g_spec_trap == SPEC_NOTRAP, "f32body38: returned normally only if the specification does not trap");
  OBL(vh_f32bits(r) == 0xD82C07CDu, "f32body38: the f32 immediate 0xD82C07CD in a function body denotes exactly this bit pattern after translation to C text");
  CANARY("f32body38 returns");
}
void h_f32glob38(void) {
  F32 r;
  g_libm_calls = 0;
  c07constInstantiate(&inst, 0);
  g_spec_trap = SPEC_NOTRAP;
  r = c07const_f32glob38(&inst);
  OBL(g_spec_trap == SPEC_NOTRAP, "f32glob38: returned normally only if the specification does not trap");
  OBL(vh_f32bits(r) == 0xD82C07CDu, "f32glob38: the f32 immediate 0xD82C07CD as a global initialiser denotes exactly this bit pattern");
  CANARY("f32glob38 returns");
}
void h_f32body39(void) {
  F32 r;
  g_libm_calls = 0;
  g_spec_trap = SPEC_NOTRAP;
  r = c07const_f32body39(&inst);
  OBL(g_spec_trap == SPEC_NOTRAP, "f32body39: returned normally only if the specification does not trap");
  OBL(vh_f32bits(r) == 0x629F6FBEu, "f32body39: the f32 immediate 0x629F6FBE in a function body denotes exactly this bit pattern after translation to C text");
  CANARY("f32body39 returns");
}
void h_f32glob39(void) {
  F32 r;
  g_libm_calls = 0;
  c07constInstantiate(&inst, 0);
  g_spec_trap = SPEC_NOTRAP;
  r = c07const_f32glob39(&inst);
  OBL(g_spec_trap == SPEC_NOTRAP, "f32glob39: returned normally only if the specification does not trap");
  OBL(vh_f32bits(r) == 0x629F6FBEu, "f32glob39: the f32 immediate 0x629F6FBE as a global initialiser denotes exactly this bit pattern");
  CANARY("f32glob39 returns");
}
void h_f32body40(void) {
  F32 r;
  g_libm_calls = 0;
  g_spec_trap = SPEC_NOTRAP;
  r = c07const_f32body40(&inst);
  OBL(g_spec_trap == SPEC_NOTRAP, "f32body40: returned normally only if the specification does not trap");
  OBL(vh_f32bits(r) == 0xC2094CACu, "f32body40: the f32 immediate 0xC2094CAC in a function body denotes exactly this bit pattern after translation to C text");
  CANARY("f32body40 returns");
}
void h_f32glob40(void) {
  F32 r;
  g_libm_calls = 0;
  c07constInstantiate(&inst, 0);
  g_spec_trap = SPEC_NOTRAP;
  r = c07const_f32glob40(&inst);
  OBL(g_spec_trap == SPEC_NOTRAP, "f32glob40: returned normally only if the specification does not trap");
  OBL(vh_f32bits(r) == 0xC2094CACu, "f32glob40: the f32 immediate 0xC2094CAC as a global initialiser denotes exactly this bit pattern");
  CANARY("f32glob40 returns");
}
void h_f32body41(void) {
  F32 r;
  g_libm_calls = 0;
  g_spec_trap = SPEC_NOTRAP;
  r = c07const_f32body41(&inst);
  OBL(g_spec_trap == SPEC_NOTRAP, "f32body41: returned normally only if the specification does not trap");
  OBL(vh_f32bits(r) == 0xE3E70682u, "f32body41: the f32 immediate 0xE3E70682 in a function body denotes exactly this bit pattern after translation to C text");
  CANARY("f32body41 returns");
}
void h_f32glob41(void) {
  F32 r;
  g_libm_calls = 0;
  c07constInstantiate(&inst, 0);
  g_spec_trap = SPEC_NOTRAP;
  r = c07const_f32glob41(&inst);
  OBL(g_spec_trap == SPEC_NOTRAP, "f32glob41: returned normally only if the specification does not trap");
  OBL(vh_f32bits(r) == 0xE3E70682u, "f32glob41: the f32 immediate 0xE3E70682 as a global initialiser denotes exactly this bit pattern");
  CANARY("f32glob41 returns");
}
void h_f32body42(void) {
  F32 r;
  g_libm_calls = 0;
  g_spec_trap = SPEC_NOTRAP;
  r = c07const_f32body42(&inst);
  OBL(g_spec_trap == SPEC_NOTRAP, "f32body42: returned normally only if the specification does not trap");
  OBL(vh_f32bits(r) == 0x6BAA9455u, "f32body42: the f32 immediate 0x6BAA9455 in a function body denotes exactly this bit pattern after translation to C text");
  CANARY("f32body42 returns");
}
void h_f32glob42(void) {
  F32 r;
  g_libm_calls = 0;
  c07constInstantiate(&inst, 0);
  g_spec_trap = SPEC_NOTRAP;
  r = c07const_f32glob42(&inst);
  OBL(g_spec_trap == SPEC_NOTRAP, "f32glob42: returned normally only if the specification does not trap");
  OBL(vh_f32bits(r) == 0x6BAA9455u, "f32glob42: the f32 immediate 0x6BAA9455 as a global initialiser denotes exactly this bit pattern");
  CANARY("f32glob42 returns");
}
void h_f32body43(void) {
  F32 r;
  g_libm_calls = 0;
  g_spec_trap = SPEC_NOTRAP;
  r = c07const_f32body43(&inst);
  OBL(g_spec_trap == SPEC_NOTRAP, "f32body43: returned normally only if the specification does not trap");
  OBL(vh_f32bits(r) == 0x0A5D2F34u, "f32body43: the f32 immediate 0xA5D2F34 in a function body denotes exactly this bit pattern after translation to C text");
  CANARY("f32body43 returns");
}
void h_f32glob43(void) {
  F32 r;
  g_libm_calls = 0;
  c07constInstantiate(&inst, 0);
  g_spec_trap = SPEC_NOTRAP;
  r = c07const_f32glob43(&inst);
  OBL(g_spec_trap == SPEC_NOTRAP, "f32glob43: returned normally only if the specification does not trap");
  OBL(vh_f32bits(r) == 0x0A5D2F34u, "f32glob43: the f32 immediate 0xA5D2F34 as a global initialiser denotes exactly this bit pattern");
  CANARY("f32glob43 returns");
}
void h_f32body44(void) {
  F32 r;
  g_libm_calls = 0;
  g_spec_trap = SPEC_NOTRAP;
  r = c07const_f32body44(&inst);
  OBL(g_spec_trap == SPEC_NOTRAP, "f32body44: returned normally only if the specification does not trap");
  OBL(vh_f32bits(r) == 0x42485E3Au, "f32body44: the f32 immediate 0x42485E3A in a function body denotes exactly this bit pattern after translation to C text");
  CANARY("f32body44 returns");
}
void h_f32glob44(void) {
  F32 r;
  g_libm_calls = 0;
  c07constInstantiate(&inst, 0);
  g_spec_trap = SPEC_NOTRAP;
  r = c07const_f32glob44(&inst);
  OBL(g_spec_trap == SPEC_NOTRAP, "f32glob44: returned normally only if the specification does not trap");
  OBL(vh_f32bits(r) == 0x42485E3Au, "f32glob44: the f32 immediate 0x42485E3A as a global initialiser denotes exactly this bit pattern");
  CANARY("f32glob44 returns");
}
void h_f32body45(void) {
  F32 r;
  g_libm_calls = 0;
  g_spec_trap = SPEC_NOTRAP;
  r = c07const_f32body45(&inst);
  OBL(g_spec_trap == SPEC_NOTRAP, "f32body45: returned normally only if the specification does not trap");
  OBL(vh_f32bits(r) == 0xF728B4FAu, "f32body45: the f32 immediate 0xF728B4FA in a function body denotes exactly this bit pattern after translation to C text");
  CANARY("f32body45 returns");
}
void h_f32glob45(void) {
  F32 r;
  g_libm_calls = 0;
  c07constInstantiate(&inst, 0);
  g_spec_trap = SPEC_NOTRAP;
  r = c07const_f32glob45(&inst);
  OBL(g_spec_trap == SPEC_NOTRAP, "f32glob45: returned normally only if the specification does not trap");
  OBL(vh_f32bits(r) == 0xF728B4FAu, "f32glob45: the f32 immediate 0xF728B4FA as a global initialiser denotes exactly this bit pattern");
  CANARY("f32glob45 returns");
}
void h_f32body46(void) {
  F32 r;
  g_libm_calls = 0;
  g_spec_trap = SPEC_NOTRAP;
  r = c07const_f32body46(&inst);
  OBL(g_spec_trap == SPEC_NOTRAP, "f32body46: returned normally only if the specification does not trap");
  OBL(vh_f32bits(r) == 0x82E2E662u, "f32body46: the f32 immediate 0x82E2E662 in a function body denotes exactly this bit pattern after translation to C text");
  CANARY("f32body46 returns");
}
void h_f32glob46(void) {
  F32 r;
  g_libm_calls = 0;
  c07constInstantiate(&inst, 0);
  g_spec_trap = SPEC_NOTRAP;
  r = c07const_f32glob46(&inst);
  OBL(g_spec_trap == SPEC_NOTRAP, "f32glob46: returned normally only if the specification does not trap");
  OBL(vh_f32bits(r) == 0x82E2E662u, "f32glob46: the f32 immediate 0x82E2E662 as a global initialiser denotes exactly this bit pattern");
  CANARY("f32glob46 returns");
}
void h_f32body47(void) {
  F32 r;
  g_libm_calls = 0;
  g_spec_trap = SPEC_NOTRAP;
  r = c07const_f32body47(&inst);
  OBL(g_spec_trap == SPEC_NOTRAP, "f32body47: returned normally only if the specification does not trap");
  OBL(vh_f32bits(r) == 0x7C65C1E5u, "f32body47: the f32 immediate 0x7C65C1E5 in a function body denotes exactly this bit pattern after translation to C text");
  CANARY("f32body47 returns");
}
void h_f32glob47(void) {
  F32 r;
  g_libm_calls = 0;
  c07constInstantiate(&inst, 0);
  g_spec_trap = SPEC_NOTRAP;
  r = c07const_f32glob47(&inst);
  OBL(g_spec_trap == SPEC_NOTRAP, "f32glob47: returned normally only if the specification does not trap");
  OBL(vh_f32bits(r) == 0x7C65C1E5u, "f32glob47: the f32 immediate 0x7C65C1E5 as a global initialiser denotes exactly this bit pattern");
  CANARY("f32glob47 returns");
}
void h_f32body48(void) {
  F32 r;
  g_libm_calls = 0;
  g_spec_trap = SPEC_NOTRAP;
  r = c07const_f32body48(&inst);
  OBL(g_spec_trap == SPEC_NOTRAP, "f32body48: returned normally only if the specification does not trap");
  OBL(vh_f32bits(r) == 0x67A9C378u, "f32body48: the f32 immediate 0x67A9C378 in a function body denotes exactly this bit pattern after translation to C text");
  CANARY("f32body48 returns");
}
void h_f32glob48(void) {
  F32 r;
  g_libm_calls = 0;
  c07constInstantiate(&inst, 0);
  g_spec_trap = SPEC_NOTRAP;
  r = c07const_f32glob48(&inst);
  OBL(g_spec_trap == SPEC_NOTRAP, "f32glob48: returned normally only if the specification does not trap");
  OBL(vh_f32bits(r) == 0x67A9C378u, "f32glob48: the f32 immediate 0x67A9C378 as a global initialiser denotes exactly this bit pattern");
  CANARY("f32glob48 returns");
}
void h_f32body49(void) {
  F32 r;
  g_libm_calls = 0;
  g_spec_trap = SPEC_NOTRAP;
  r = c07const_f32body49(&inst);
  OBL(g_spec_trap == SPEC_NOTRAP, "f32body49: returned normally only if the specification does not trap");
  OBL(vh_f32bits(r) == 0xEB1167B3u, "f32body49: the f32 immediate 0xEB1167B3 in a function body denotes exactly this bit pattern after translation to C text");
  CANARY("f32body49 returns");
}
void h_f32glob49(void) {
  F32 r;
  g_libm_calls = 0;
  c07constInstantiate(&inst, 0);
  g_spec_trap = SPEC_NOTRAP;
  r = c07const_f32glob49(&inst);
  OBL(g_spec_trap == SPEC_NOTRAP, "f32glob49: returned normally only if the specification does not trap");
  OBL(vh_f32bits(r) == 0xEB1167B3u, "f32glob49: the f32 immediate 0xEB1167B3 as a global initialiser denotes exactly this bit pattern");
  CANARY("f32glob49 returns");
}
void h_f32body50(void) {
  F32 r;
  g_libm_calls = 0;
  g_spec_trap = SPEC_NOTRAP;
  r = c07const_f32body50(&inst);
  OBL(g_spec_trap == SPEC_NOTRAP, "f32body50: returned normally only if the specification does not trap");
  OBL(vh_f32bits(r) == 0xC8A70639u, "f32body50: the f32 immediate 0xC8A70639 in a function body denotes exactly this bit pattern after translation to C text");
  CANARY("f32body50 returns");
}
void h_f32glob50(void) {
  F32 r;
  g_libm_calls = 0;
  c07constInstantiate(&inst, 0);
  g_spec_trap = SPEC_NOTRAP;
  r = c07const_f32glob50(&inst);
  OBL(g_spec_trap == SPEC_NOTRAP, "f32glob50: returned normally only if the specification does not trap");
  OBL(vh_f32bits(r) == 0xC8A70639u, "f32glob50: the f32 immediate 0xC8A70639 as a global initialiser denotes exactly this bit pattern");
  CANARY("f32glob50 returns");
}
void h_f32body51(void) {
  F32 r;
  g_libm_calls = 0;
  g_spec_trap = SPEC_NOTRAP;
  r = c07const_f32body51(&inst);
  OBL(g_spec_trap == SPEC_NOTRAP, "f32body51: returned normally only if the specification does not trap");
  OBL(vh_f32bits(r) == 0xD4713D60u, "f32body51: the f32 immediate 0xD4713D60 in a function body denotes exactly this bit pattern after translation to C text");
  CANARY("f32body51 returns");
}
void h_f32glob51(void) {
  F32 r;
  g_libm_calls = 0;
  c07constInstantiate(&inst, 0);
  g_spec_trap = SPEC_NOTRAP;
  r = c07const_f32glob51(&inst);
  OBL(g_spec_trap == SPEC_NOTRAP, "f32glob51: returned normally only if the specification does not trap");
  OBL(vh_f32bits(r) == 0xD4713D60u, "f32glob51: the f32 immediate 0xD4713D60 as a global initialiser denotes exactly this bit pattern");
  CANARY("f32glob51 returns");
}
void h_f32body52(void) {
  F32 r;
  g_libm_calls = 0;
  g_spec_trap = SPEC_NOTRAP;
  r = c07const_f32body52(&inst);
  OBL(g_spec_trap == SPEC_NOTRAP, "f32body52: returned normally only if the specification does not trap");
  OBL(vh_f32bits(r) == 0x4DA5E709u, "f32body52: the f32 immediate 0x4DA5E709 in a function body denotes exactly this bit pattern after translation to C text");
  CANARY("f32body52 returns");
}
void h_f32glob52(void) {
  F32 r;
  g_libm_calls = 0;
  c07constInstantiate(&inst, 0);
  g_spec_trap = SPEC_NOTRAP;
  r = c07const_f32glob52(&inst);
  OBL(g_spec_trap == SPEC_NOTRAP, "f32glob52: returned normally only if the specification does not trap");
  OBL(vh_f32bits(r) == 0x4DA5E709u, "f32glob52: the f32 immediate 0x4DA5E709 as a global initialiser denotes exactly this bit pattern");
  CANARY("f32glob52 returns");
}
void h_f32body53(void) {
  F32 r;
  g_libm_calls = 0;
  g_spec_trap = SPEC_NOTRAP;
  r = c07const_f32body53(&inst);
  OBL(g_spec_trap == SPEC_NOTRAP, "f32body53: returned normally only if the specification does not trap");
  OBL(vh_f32bits(r) == 0xF7C1BD87u, "f32body53: the f32 immediate 0xF7C1BD87 in a function body denotes exactly this bit pattern after translation to C text");
  CANARY("f32body53 returns");
}
void h_f32glob53(void) {
  F32 r;
  g_libm_calls = 0;
  c07constInstantiate(&inst, 0);
  g_spec_trap = SPEC_NOTRAP;
  r = c07const_f32glob53(&inst);
  OBL(g_spec_trap == SPEC_NOTRAP, "f32glob53: returned normally only if the specification does not trap");
  OBL(vh_f32bits(r) == 0xF7C1BD87u, "f32glob53: the f32 immediate 0xF7C1BD87 as a global initialiser denotes exactly this bit pattern");
  CANARY("f32glob53 returns");
}
void h_f32body54(void) {
  F32 r;
  g_libm_calls = 0;
  g_spec_trap = SPEC_NOTRAP;
  r = c07const_f32body54(&inst);
  OBL(g_spec_trap == SPEC_NOTRAP, "f32body54: returned normally only if the specification does not trap");
  OBL(vh_f32bits(r) == 0x7A024204u, "f32body54: the f32 immediate 0x7A024204 in a function body denotes exactly this bit pattern after translation to C text");
  CANARY("f32body54 returns");
}
void h_f32glob54(void) {
  F32 r;
  g_libm_calls = 0;
  c07constInstantiate(&inst, 0);
  g_spec_trap = SPEC_NOTRAP;
  r = c07const_f32glob54(&inst);
  OBL(g_spec_trap == SPEC_NOTRAP, "f32glob54: returned normally only if the specification does not trap");
  OBL(vh_f32bits(r) == 0x7A024204u, "f32glob54: the f32 immediate 0x7A024204 as a global initialiser denotes exactly this bit pattern");
  CANARY("f32glob54 returns");
}
void h_f32body55(void) {
  F32 r;
  g_libm_calls = 0;
  g_spec_trap = SPEC_NOTRAP;
  r = c07const_f32body55(&inst);
  OBL(g_spec_trap == SPEC_NOTRAP, "f32body55: returned normally only if the specification does not trap");
  OBL(vh_f32bits(r) == 0x5BA91FAFu, "f32body55: the f32 immediate 0x5BA91FAF in a function body denotes exactly this bit pattern after translation to C text");
  CANARY("f32body55 returns");
}
void h_f32glob55(void) {
  F32 r;
  g_libm_calls = 0;
  c07constInstantiate(&inst, 0);
  g_spec_trap = SPEC_NOTRAP;
  r = c07const_f32glob55(&inst);
  OBL(g_spec_trap == SPEC_NOTRAP, "f32glob55: returned normally only if the specification does not trap");
  OBL(vh_f32bits(r) == 0x5BA91FAFu, "f32glob55: the f32 immediate 0x5BA91FAF as a global initialiser denotes exactly this bit pattern");
  CANARY("f32glob55 returns");
}
void h_f32body56(void) {
  F32 r;
  g_libm_calls = 0;
  g_spec_trap = SPEC_NOTRAP;
  r = c07const_f32body56(&inst);
  OBL(g_spec_trap == SPEC_NOTRAP, "f32body56: returned normally only if the specification does not trap");
  OBL(vh_f32bits(r) == 0x9558867Fu, "f32body56: the f32 immediate 0x9558867F in a function body denotes exactly this bit pattern after translation to C text");
  CANARY("f32body56 returns");
}
void h_f32glob56(void) {
  F32 r;
  g_libm_calls = 0;
  c07constInstantiate(&inst, 0);
  g_spec_trap = SPEC_NOTRAP;
  r = c07const_f32glob56(&inst);
  OBL(g_spec_trap == SPEC_NOTRAP, "f32glob56: returned normally only if the specification does not trap");
  OBL(vh_f32bits(r) == 0x9558867Fu, "f32glob56: the f32 immediate 0x9558867F as a global initialiser denotes exactly this bit pattern");
  CANARY("f32glob56 returns");
}
void h_f32body57(void) {
  F32 r;
  g_libm_calls = 0;
  g_spec_trap = SPEC_NOTRAP;
  r = c07const_f32body57(&inst);
  OBL(g_spec_trap == SPEC_NOTRAP, "f32body57: returned normally only if the specification does not trap");
  OBL(vh_f32bits(r) == 0xE443DF78u, "f32body57: the f32 immediate 0xE443DF78 in a function body denotes exactly this bit pattern after translation to C text");
  CANARY("f32body57 returns");
}
void h_f32glob57(void) {
  F32 r;
  g_libm_calls = 0;
  c07constInstantiate(&inst, 0);
  g_spec_trap = SPEC_NOTRAP;
  r = c07const_f32glob57(&inst);
  OBL(g_spec_trap == SPEC_NOTRAP, "f32glob57: returned normally only if the specification does not trap");
  OBL(vh_f32bits(r) == 0xE443DF78u, "f32glob57: the f32 immediate 0xE443DF78 as a global initialiser denotes exactly this bit pattern");
  CANARY("f32glob57 returns");
}
void h_f32body58(void) {
  F32 r;
  g_libm_calls = 0;
  g_spec_trap = SPEC_NOTRAP;
  r = c07const_f32body58(&inst);
  OBL(g_spec_trap == SPEC_NOTRAP, "f32body58: returned normally only if the specification does not trap");
  OBL(vh_f32bits(r) == 0xE87A1613u, "f32body58: the f32 immediate 0xE87A1613 in a function body denotes exactly this bit pattern after translation to C text");
  CANARY("f32body58 returns");
}
void h_f32glob58(void) {
  F32 r;
  g_libm_calls = 0;
  c07constInstantiate(&inst, 0);
  g_spec_trap = SPEC_NOTRAP;
  r = c07const_f32glob58(&inst);
  OBL(g_spec_trap == SPEC_NOTRAP, "f32glob58: returned normally only if the specification does not trap");
  OBL(vh_f32bits(r) == 0xE87A1613u, "f32glob58: the f32 immediate 0xE87A1613 as a global initialiser denotes exactly this bit pattern");
  CANARY("f32glob58 returns");
}
void h_f32body59(void) {
  F32 r;
  g_libm_calls = 0;
  g_spec_trap = SPEC_NOTRAP;
  r = c07const_f32body59(&inst);
  OBL(g_spec_trap == SPEC_NOTRAP, "f32body59: returned normally only if the specification does not trap");
  OBL(vh_f32bits(r) == 0x37EBDCD9u, "f32body59: the f32 immediate 0x37EBDCD9 in a function body denotes exactly this bit pattern after translation to C text");
  CANARY("f32body59 returns");
}
void h_f32glob59(void) {
  F32 r;
  g_libm_calls = 0;
  c07constInstantiate(&inst, 0);
  g_spec_trap = SPEC_NOTRAP;
  r = c07const_f32glob59(&inst);
  OBL(g_spec_trap == SPEC_NOTRAP, "f32glob59: returned normally only if the specification does not trap");
  OBL(vh_f32bits(r) == 0x37EBDCD9u, "f32glob59: the f32 immediate 0x37EBDCD9 as a global initialiser denotes exactly this bit pattern");
  CANARY("f32glob59 returns");
}
void h_f32body60(void) {
  F32 r;
  g_libm_calls = 0;
  g_spec_trap = SPEC_NOTRAP;
  r = c07const_f32body60(&inst);
  OBL(g_spec_trap == SPEC_NOTRAP, "f32body60: returned normally only if the specification does not trap");
  OBL(vh_f32bits(r) == 0x81332876u, "f32body60: the f32 immediate 0x81332876 in a function body denotes exactly this bit pattern after translation to C text");
  CANARY("f32body60 returns");
}
void h_f32glob60(void) {
  F32 r;
  g_libm_calls = 0;
  c07constInstantiate(&inst, 0);
  g_spec_trap = SPEC_NOTRAP;
  r = c07const_f32glob60(&inst);
  OBL(g_spec_trap == SPEC_NOTRAP, "f32glob60: returned normally only if the specification does not trap");
  OBL(vh_f32bits(r) == 0x81332876u, "f32glob60: the f32 immediate 0x81332876 as a global initialiser denotes exactly this bit pattern");
  CANARY("f32glob60 returns");
}
void h_f32body61(void) {
  F32 r;
  g_libm_calls = 0;
  g_spec_trap = SPEC_NOTRAP;
  r = c07const_f32body61(&inst);
  OBL(g_spec_trap == SPEC_NOTRAP, "f32body61: returned normally only if the specification does not trap");
  OBL(vh_f32bits(r) == 0x23A7711Au, "f32body61: the f32 immediate 0x23A7711A in a function body denotes exactly this bit pattern after translation to C text");
  CANARY("f32body61 returns");
}
void h_f32glob61(void) {
  F32 r;
  g_libm_calls = 0;
  c07constInstantiate(&inst, 0);
  g_spec_trap = SPEC_NOTRAP;
  r = c07const_f32glob61(&inst);
  OBL(g_spec_trap == SPEC_NOTRAP, "f32glob61: returned normally only if the specification does not trap");
  OBL(vh_f32bits(r) == 0x23A7711Au, "f32glob61: the f32 immediate 0x23A7711A as a global initialiser denotes exactly this bit pattern");
  CANARY("f32glob61 returns");
}
void h_f64body62(void) {
  F64 r;
  g_libm_calls = 0;
  g_spec_trap = SPEC_NOTRAP;
  r = c07const_f64body62(&inst);
  OBL(g_spec_trap == SPEC_NOTRAP, "f64body62: returned normally only if the specification does not trap");
  OBL(vh_f64bits(r) == 0x0000000000000000ull, "f64body62: the f64 immediate 0x0 in a function body denotes exactly this bit pattern after translation to C text");
  CANARY("f64body62 returns");
}
void h_f64glob62(void) {
  F64 r;
  g_libm_calls = 0;
  c07constInstantiate(&inst, 0);
  g_spec_trap = SPEC_NOTRAP;
  r = c07const_f64glob62(&inst);
  OBL(g_spec_trap == SPEC_NOTRAP, "f64glob62: returned normally only if the specification does not trap");
  OBL(vh_f64bits(r) == 0x0000000000000000ull, "f64glob62: the f64 immediate 0x0 as a global initialiser denotes exactly this bit pattern");
  CANARY("f64glob62 returns");
}
void h_f64body63(void) {
  F64 r;
  g_libm_calls = 0;
  g_spec_trap = SPEC_NOTRAP;
  r = c07const_f64body63(&inst);
  OBL(g_spec_trap == SPEC_NOTRAP, "f64body63: returned normally only if the specification does not trap");
  OBL(vh_f64bits(r) == 0x8000000000000000ull, "f64body63: the f64 immediate 0x8000000000000000 in a function body denotes exactly this bit pattern after translation to C text");
  CANARY("f64body63 returns");
}
void h_f64glob63(void) {
  F64 r;
  g_libm_calls = 0;
  c07constInstantiate(&inst, 0);
  g_spec_trap = SPEC_NOTRAP;
  r = c07const_f64glob63(&inst);
  OBL(g_spec_trap == SPEC_NOTRAP, "f64glob63: returned normally only if the specification does not trap");
  OBL(vh_f64bits(r) == 0x8000000000000000ull, "f64glob63: the f64 immediate 0x8000000000000000 as a global initialiser denotes exactly this bit pattern");
  CANARY("f64glob63 returns");
}
void h_f64body64(void) {
  F64 r;
  g_libm_calls = 0;
  g_spec_trap = SPEC_NOTRAP;
  r = c07const_f64body64(&inst);
  OBL(g_spec_trap == SPEC_NOTRAP, "f64body64: returned normally only if the specification does not trap");
  OBL(vh_f64bits(r) == 0x7FF0000000000000ull, "f64body64: the f64 immediate 0x7FF0000000000000 in a function body denotes exactly this bit pattern after translation to C text");
  CANARY("f64body64 returns");
}
void h_f64glob64(void) {
  F64 r;
  g_libm_calls = 0;
  c07constInstantiate(&inst, 0);
  g_spec_trap = SPEC_NOTRAP;
  r = c07const_f64glob64(&inst);
  OBL(g_spec_trap == SPEC_NOTRAP, "f64glob64: returned normally only if the specification does not trap");
  OBL(vh_f64bits(r) == 0x7FF0000000000000ull, "f64glob64: the f64 immediate 0x7FF0000000000000 as a global initialiser denotes exactly this bit pattern");
  CANARY("f64glob64 returns");
}
void h_f64body65(void) {
  F64 r;
  g_libm_calls = 0;
  g_spec_trap = SPEC_NOTRAP;
  r = c07const_f64body65(&inst);
  OBL(g_spec_trap == SPEC_NOTRAP, "f64body65: returned normally only if the specification does not trap");
  OBL(vh_f64bits(r) == 0xFFF0000000000000ull, "f64body65: the f64 immediate 0xFFF0000000000000 in a function body denotes exactly this bit pattern after translation to C text");
  CANARY("f64body65 returns");
}
void h_f64glob65(void) {
  F64 r;
  g_libm_calls = 0;
  c07constInstantiate(&inst, 0);
  g_spec_trap = SPEC_NOTRAP;
  r = c07const_f64glob65(&inst);
  OBL(g_spec_trap == SPEC_NOTRAP, "f64glob65: returned normally only if the specification does not trap");
  OBL(vh_f64bits(r) == 0xFFF0000000000000ull, "f64glob65: the f64 immediate 0xFFF0000000000000 as a global initialiser denotes exactly this bit pattern");
  CANARY("f64glob65 returns");
}
void h_f64body66(void) {
  F64 r;
  g_libm_calls = 0;
  g_spec_trap = SPEC_NOTRAP;
  r = c07const_f64body66(&inst);
  OBL(g_spec_trap == SPEC_NOTRAP, "f64body66: returned normally only if the specification does not trap");
  OBL(vh_f64bits(r) == 0x7FF8000000000000ull, "f64body66: the f64 immediate 0x7FF8000000000000 in a function body denotes exactly this bit pattern after translation to C text");
  CANARY("f64body66 returns");
}
void h_f64glob66(void) {
  F64 r;
  g_libm_calls = 0;
  c07constInstantiate(&inst, 0);
  g_spec_trap = SPEC_NOTRAP;
  r = c07const_f64glob66(&inst);
  OBL(g_spec_trap == SPEC_NOTRAP, "f64glob66: returned normally only if the specification does not trap");
  OBL(vh_f64bits(r) == 0x7FF8000000000000ull, "f64glob66: the f64 immediate 0x7FF8000000000000 as a global initialiser denotes exactly this bit pattern");
  CANARY("f64glob66 returns");
}
void h_f64body67(void) {
  F64 r;
  g_libm_calls = 0;
  g_spec_trap = SPEC_NOTRAP;
  r = c07const_f64body67(&inst);
  OBL(g_spec_trap == SPEC_NOTRAP, "f64body67: returned normally only if the specification does not trap");
  OBL(vh_f64bits(r) == 0xFFF8000000000000ull, "f64body67: the f64 immediate 0xFFF8000000000000 in a function body denotes exactly this bit pattern after translation to C text");
  CANARY("f64body67 returns");
}
void h_f64glob67(void) {
  F64 r;
  g_libm_calls = 0;
  c07constInstantiate(&inst, 0);
  g_spec_trap = SPEC_NOTRAP;
  r = c07const_f64glob67(&inst);
  OBL(g_spec_trap == SPEC_NOTRAP, "f64glob67: returned normally only if the specification does not trap");
  OBL(vh_f64bits(r) == 0xFFF8000000000000ull, "f64glob67: the f64 immediate 0xFFF8000000000000 as a global initialiser denotes exactly this bit pattern");
  CANARY("f64glob67 returns");
}
void h_f64body68(void) {
  F64 r;
  g_libm_calls = 0;
  g_spec_trap = SPEC_NOTRAP;
  r = c07const_f64body68(&inst);
  OBL(g_spec_trap == SPEC_NOTRAP, "f64body68: returned normally only if the specification does not trap");
  OBL(vh_f64bits(r) == 0x7FF4000000000000ull, "f64body68: the f64 immediate 0x7FF4000000000000 in a function body denotes exactly this bit pattern after translation to C text");
  CANARY("f64body68 returns");
}
void h_f64glob68(void) {
  F64 r;
  g_libm_calls = 0;
  c07constInstantiate(&inst, 0);
  g_spec_trap = SPEC_NOTRAP;
  r = c07const_f64glob68(&inst);
  OBL(g_spec_trap == SPEC_NOTRAP, "f64glob68: returned normally only if the specification does not trap");
  OBL(vh_f64bits(r) == 0x7FF4000000000000ull, "f64glob68: the f64 immediate 0x7FF4000000000000 as a global initialiser denotes exactly this bit pattern");
  CANARY("f64glob68 returns");
}
void h_f64body69(void) {
  F64 r;
  g_libm_calls = 0;
  g_spec_trap = SPEC_NOTRAP;
  r = c07const_f64body69(&inst);
  OBL(g_spec_trap == SPEC_NOTRAP, "f64body69: returned normally only if the specification does not trap");
  OBL(vh_f64bits(r) == 0x7FF0000000000001ull, "f64body69: the f64 immediate 0x7FF0000000000001 in a function body denotes exactly this bit pattern after translation to C text");
  CANARY("f64body69 returns");
}
void h_f64glob69(void) {
  F64 r;
  g_libm_calls = 0;
  c07constInstantiate(&inst, 0);
  g_spec_trap = SPEC_NOTRAP;
  r = c07const_f64glob69(&inst);
  OBL(g_spec_trap == SPEC_NOTRAP, "f64glob69: returned normally only if the specification does not trap");
  OBL(vh_f64bits(r) == 0x7FF0000000000001ull, "f64glob69: the f64 immediate 0x7FF0000000000001 as a global initialiser denotes exactly this bit pattern");
  CANARY("f64glob69 returns");
}
void h_f64body70(void) {
  F64 r;
  g_libm_calls = 0;
  g_spec_trap = SPEC_NOTRAP;
  r = c07const_f64body70(&inst);
  OBL(g_spec_trap == SPEC_NOTRAP, "f64body70: returned normally only if the specification does not trap");
  OBL(vh_f64bits(r) == 0xFFF0000000000001ull, "f64body70: the f64 immediate 0xFFF0000000000001 in a function body denotes exactly this bit pattern after translation to C text");
  CANARY("f64body70 returns");
}
void h_f64glob70(void) {
  F64 r;
  g_libm_calls = 0;
  c07constInstantiate(&inst, 0);
  g_spec_trap = SPEC_NOTRAP;
  r = c07const_f64glob70(&inst);
  OBL(g_spec_trap == SPEC_NOTRAP, "f64glob70: returned normally only if the specification does not trap");
  OBL(vh_f64bits(r) == 0xFFF0000000000001ull, "f64glob70: the f64 immediate 0xFFF0000000000001 as a global initialiser denotes exactly this bit pattern");
  CANARY("f64glob70 returns");
}
void h_f64body71(void) {
  F64 r;
  g_libm_calls = 0;
  g_spec_trap = SPEC_NOTRAP;
  r = c07const_f64body71(&inst);
  OBL(g_spec_trap == SPEC_NOTRAP, "f64body71: returned normally only if the specification does not trap");
  OBL(vh_f64bits(r) == 0x7FFFFFFFFFFFFFFFull, "f64body71: the f64 immediate 0x7FFFFFFFFFFFFFFF in a function body denotes exactly this bit pattern after translation to C text");
  CANARY("f64body71 returns");
}
void h_f64glob71(void) {
  F64 r;
  g_libm_calls = 0;
  c07constInstantiate(&inst, 0);
  g_spec_trap = SPEC_NOTRAP;
  r = c07const_f64glob71(&inst);
  OBL(g_spec_trap == SPEC_NOTRAP, "f64glob71: returned normally only if the specification does not trap");
  OBL(vh_f64bits(r) == 0x7FFFFFFFFFFFFFFFull, "f64glob71: the f64 immediate 0x7FFFFFFFFFFFFFFF as a global initialiser denotes exactly this bit pattern");
  CANARY("f64glob71 returns");
}
void h_f64body72(void) {
  F64 r;
  g_libm_calls = 0;
  g_spec_trap = SPEC_NOTRAP;
  r = c07const_f64body72(&inst);
  OBL(g_spec_trap == SPEC_NOTRAP, "f64body72: returned normally only if the specification does not trap");
  OBL(vh_f64bits(r) == 0x7FF0000000800000ull, "f64body72: the f64 immediate 0x7FF0000000800000 in a function body denotes exactly this bit pattern after translation to C text");
  CANARY("f64body72 returns");
}
void h_f64glob72(void) {
  F64 r;
  g_libm_calls = 0;
  c07constInstantiate(&inst, 0);
  g_spec_trap = SPEC_NOTRAP;
  r = c07const_f64glob72(&inst);
  OBL(g_spec_trap == SPEC_NOTRAP, "f64glob72: returned normally only if the specification does not trap");
  OBL(vh_f64bits(r) == 0x7FF0000000800000ull, "f64glob72: the f64 immediate 0x7FF0000000800000 as a global initialiser denotes exactly this bit pattern");
  CANARY("f64glob72 returns");
}
void h_f64body73(void) {
  F64 r;
  g_libm_calls = 0;
  g_spec_trap = SPEC_NOTRAP;
  r = c07const_f64body73(&inst);
  OBL(g_spec_trap == SPEC_NOTRAP, "f64body73: returned normally only if the specification does not trap");
  OBL(vh_f64bits(r) == 0x7FF0000100000000ull, "f64body73: the f64 immediate 0x7FF0000100000000 in a function body denotes exactly this bit pattern after translation to C text");
  CANARY("f64body73 returns");
}
void h_f64glob73(void) {
  F64 r;
  g_libm_calls = 0;
  c07constInstantiate(&inst, 0);
  g_spec_trap = SPEC_NOTRAP;
  r = c07const_f64glob73(&inst);
  OBL(g_spec_trap == SPEC_NOTRAP, "f64glob73: returned normally only if the specification does not trap");
  OBL(vh_f64bits(r) == 0x7FF0000100000000ull, "f64glob73: the f64 immediate 0x7FF0000100000000 as a global initialiser denotes exactly this bit pattern");
  CANARY("f64glob73 returns");
}
void h_f64body74(void) {
  F64 r;
  g_libm_calls = 0;
  g_spec_trap = SPEC_NOTRAP;
  r = c07const_f64body74(&inst);
  OBL(g_spec_trap == SPEC_NOTRAP, "f64body74: returned normally only if the specification does not trap");
  OBL(vh_f64bits(r) == 0x7FF8000000000001ull, "f64body74: the f64 immediate 0x7FF8000000000001 in a function body denotes exactly this bit pattern after translation to C text");
  CANARY("f64body74 returns");
}
void h_f64glob74(void) {
  F64 r;
  g_libm_calls = 0;
  c07constInstantiate(&inst, 0);
  g_spec_trap = SPEC_NOTRAP;
  r = c07const_f64glob74(&inst);
  OBL(g_spec_trap == SPEC_NOTRAP, "f64glob74: returned normally only if the specification does not trap");
  OBL(vh_f64bits(r) == 0x7FF8000000000001ull, "f64glob74: the f64 immediate 0x7FF8000000000001 as a global initialiser denotes exactly this bit pattern");
  CANARY("f64glob74 returns");
}
void h_f64body75(void) {
  F64 r;
  g_libm_calls = 0;
  g_spec_trap = SPEC_NOTRAP;
  r = c07const_f64body75(&inst);
  OBL(g_spec_trap == SPEC_NOTRAP, "f64body75: returned normally only if the specification does not trap");
  OBL(vh_f64bits(r) == 0x7FF0000000400000ull, "f64body75: the f64 immediate 0x7FF0000000400000 in a function body denotes exactly this bit pattern after translation to C text");
  CANARY("f64body75 returns");
}
void h_f64glob75(void) {
  F64 r;
  g_libm_calls = 0;
  c07constInstantiate(&inst, 0);
  g_spec_trap = SPEC_NOTRAP;
  r = c07const_f64glob75(&inst);
  OBL(g_spec_trap == SPEC_NOTRAP, "f64glob75: returned normally only if the specification does not trap");
  OBL(vh_f64bits(r) == 0x7FF0000000400000ull, "f64glob75: the f64 immediate 0x7FF0000000400000 as a global initialiser denotes exactly this bit pattern");
  CANARY("f64glob75 returns");
}
void h_f64body76(void) {
  F64 r;
  g_libm_calls = 0;
  g_spec_trap = SPEC_NOTRAP;
  r = c07const_f64body76(&inst);
  OBL(g_spec_trap == SPEC_NOTRAP, "f64body76: returned normally only if the specification does not trap");
  OBL(vh_f64bits(r) == 0xFFF0000080000000ull, "f64body76: the f64 immediate 0xFFF0000080000000 in a function body denotes exactly this bit pattern after translation to C text");
  CANARY("f64body76 returns");
}
void h_f64glob76(void) {
  F64 r;
  g_libm_calls = 0;
  c07constInstantiate(&inst, 0);
  g_spec_trap = SPEC_NOTRAP;
  r = c07const_f64glob76(&inst);
  OBL(g_spec_trap == SPEC_NOTRAP, "f64glob76: returned normally only if the specification does not trap");
  OBL(vh_f64bits(r) == 0xFFF0000080000000ull, "f64glob76: the f64 immediate 0xFFF0000080000000 as a global initialiser denotes exactly this bit pattern");
  CANARY("f64glob76 returns");
}
void h_f64body77(void) {
  F64 r;
  g_libm_calls = 0;
  g_spec_trap = SPEC_NOTRAP;
  r = c07const_f64body77(&inst);
  OBL(g_spec_trap == SPEC_NOTRAP, "f64body77: returned normally only if the specification does not trap");
  OBL(vh_f64bits(r) == 0x0000000000000001ull, "f64body77: the f64 immediate 0x1 in a function body denotes exactly this bit pattern after translation to C text");
  CANARY("f64body77 returns");
}
void h_f64glob77(void) {
  F64 r;
  g_libm_calls = 0;
  c07constInstantiate(&inst, 0);
  g_spec_trap = SPEC_NOTRAP;
  r = c07const_f64glob77(&inst);
  OBL(g_spec_trap == SPEC_NOTRAP, "f64glob77: returned normally only if the specification does not trap");
  OBL(vh_f64bits(r) == 0x0000000000000001ull, "f64glob77: the f64 immediate 0x1 as a global initialiser denotes exactly this bit pattern");
  CANARY("f64glob77 returns");
}
void h_f64body78(void) {
  F64 r;
  g_libm_calls = 0;
  g_spec_trap = SPEC_NOTRAP;
  r = c07const_f64body78(&inst);
  OBL(g_spec_trap == SPEC_NOTRAP, "f64body78: returned normally only if the specification does not trap");
  OBL(vh_f64bits(r) == 0x8000000000000001ull, "f64body78: the f64 immediate 0x8000000000000001 in a function body denotes exactly this bit pattern after translation to C text");
  CANARY("f64body78 returns");
}
void h_f64glob78(void) {
  F64 r;
  g_libm_calls = 0;
  c07constInstantiate(&inst, 0);
  g_spec_trap = SPEC_NOTRAP;
  r = c07const_f64glob78(&inst);
  OBL(g_spec_trap == SPEC_NOTRAP, "f64glob78: returned normally only if the specification does not trap");
  OBL(vh_f64bits(r) == 0x8000000000000001ull, "f64glob78: the f64 immediate 0x8000000000000001 as a global initialiser denotes exactly this bit pattern");
  CANARY("f64glob78 returns");
}
void h_f64body79(void) {
  F64 r;
  g_libm_calls = 0;
  g_spec_trap = SPEC_NOTRAP;
  r = c07const_f64body79(&inst);
  OBL(g_spec_trap == SPEC_NOTRAP, "f64body79: returned normally only if the specification does not trap");
  OBL(vh_f64bits(r) == 0x000FFFFFFFFFFFFFull, "f64body79: the f64 immediate 0xFFFFFFFFFFFFF in a function body denotes exactly this bit pattern after translation to C text");
  CANARY("f64body79 returns");
}
void h_f64glob79(void) {
  F64 r;
  g_libm_calls = 0;
  c07constInstantiate(&inst, 0);
  g_spec_trap = SPEC_NOTRAP;
  r = c07const_f64glob79(&inst);
  OBL(g_spec_trap == SPEC_NOTRAP, "f64glob79: returned normally only if the specification does not trap");
  OBL(vh_f64bits(r) == 0x000FFFFFFFFFFFFFull, "f64glob79: the f64 immediate 0xFFFFFFFFFFFFF as a global initialiser denotes exactly this bit pattern");
  CANARY("f64glob79 returns");
}
void h_f64body80(void) {
  F64 r;
  g_libm_calls = 0;
  g_spec_trap = SPEC_NOTRAP;
  r = c07const_f64body80(&inst);
  OBL(g_spec_trap == SPEC_NOTRAP, "f64body80: returned normally only if the specification does not trap");
  OBL(vh_f64bits(r) == 0x0010000000000000ull, "f64body80: the f64 immediate 0x10000000000000 in a function body denotes exactly this bit pattern after translation to C text");
  CANARY("f64body80 returns");
}
void h_f64glob80(void) {
  F64 r;
  g_libm_calls = 0;
  c07constInstantiate(&inst, 0);
  g_spec_trap = SPEC_NOTRAP;
  r = c07const_f64glob80(&inst);
  OBL(g_spec_trap == SPEC_NOTRAP, "f64glob80: returned normally only if the specification does not trap");
  OBL(vh_f64bits(r) == 0x0010000000000000ull, "f64glob80: the f64 immediate 0x10000000000000 as a global initialiser denotes exactly this bit pattern");
  CANARY("f64glob80 returns");
}
void h_f64body81(void) {
  F64 r;
  g_libm_calls = 0;
  g_spec_trap = SPEC_NOTRAP;
  r = c07const_f64body81(&inst);
  OBL(g_spec_trap == SPEC_NOTRAP, "f64body81: returned normally only if the specification does not trap");
  OBL(vh_f64bits(r) == 0x7FEFFFFFFFFFFFFFull, "f64body81: the f64 immediate 0x7FEFFFFFFFFFFFFF in a function body denotes exactly this bit pattern after translation to C text");
  CANARY("f64body81 returns");
}
void h_f64glob81(void) {
  F64 r;
  g_libm_calls = 0;
  c07constInstantiate(&inst, 0);
  g_spec_trap = SPEC_NOTRAP;
  r = c07const_f64glob81(&inst);
  OBL(g_spec_trap == SPEC_NOTRAP, "f64glob81: returned normally only if the specification does not trap");
  OBL(vh_f64bits(r) == 0x7FEFFFFFFFFFFFFFull, "f64glob81: the f64 immediate 0x7FEFFFFFFFFFFFFF as a global initialiser denotes exactly this bit pattern");
  CANARY("f64glob81 returns");
}
void h_f64body82(void) {
  F64 r;
  g_libm_calls = 0;
  g_spec_trap = SPEC_NOTRAP;
  r = c07const_f64body82(&inst);
  OBL(g_spec_trap == SPEC_NOTRAP, "f64body82: returned normally only if the specification does not trap");
  OBL(vh_f64bits(r) == 0xFFEFFFFFFFFFFFFFull, "f64body82: the f64 immediate 0xFFEFFFFFFFFFFFFF in a function body denotes exactly this bit pattern after translation to C text");
  CANARY("f64body82 returns");
}
void h_f64glob82(void) {
  F64 r;
  g_libm_calls = 0;
  c07constInstantiate(&inst, 0);
  g_spec_trap = SPEC_NOTRAP;
  r = c07const_f64glob82(&inst);
  OBL(g_spec_trap == SPEC_NOTRAP, "f64glob82: returned normally only if the specification does not trap");
  OBL(vh_f64bits(r) == 0xFFEFFFFFFFFFFFFFull, "f64glob82: the f64 immediate 0xFFEFFFFFFFFFFFFF as a global initialiser denotes exactly this bit pattern");
  CANARY("f64glob82 returns");
}
void h_f64body83(void) {
  F64 r;
  g_libm_calls = 0;
  g_spec_trap = SPEC_NOTRAP;
  r = c07const_f64body83(&inst);
  OBL(g_spec_trap == SPEC_NOTRAP, "f64body83: returned normally only if the specification does not trap");
  OBL(vh_f64bits(r) == 0x3FF0000000000000ull, "f64body83: the f64 immediate 0x3FF0000000000000 in a function body denotes exactly this bit pattern after translation to C text");
  CANARY("f64body83 returns");
}
void h_f64glob83(void) {
  F64 r;
  g_libm_calls = 0;
  c07constInstantiate(&inst, 0);
  g_spec_trap = SPEC_NOTRAP;
  r = c07const_f64glob83(&inst);
  OBL(g_spec_trap == SPEC_NOTRAP, "f64glob83: returned normally only if the specification does not trap");
  OBL(vh_f64bits(r) == 0x3FF0000000000000ull, "f64glob83: the f64 immediate 0x3FF0000000000000 as a global initialiser denotes exactly this bit pattern");
  CANARY("f64glob83 returns");
}
void h_f64body84(void) {
  F64 r;
  g_libm_calls = 0;
  g_spec_trap = SPEC_NOTRAP;
  r = c07const_f64body84(&inst);
  OBL(g_spec_trap == SPEC_NOTRAP, "f64body84: returned normally only if the specification does not trap");
  OBL(vh_f64bits(r) == 0x3FB999999999999Aull, "f64body84: the f64 immediate 0x3FB999999999999A in a function body denotes exactly this bit pattern after translation to C text");
  CANARY("f64body84 returns");
}
void h_f64glob84(void) {
  F64 r;
  g_libm_calls = 0;
  c07constInstantiate(&inst, 0);
  g_spec_trap = SPEC_NOTRAP;
  r = c07const_f64glob84(&inst);
  OBL(g_spec_trap == SPEC_NOTRAP, "f64glob84: returned normally only if the specification does not trap");
  OBL(vh_f64bits(r) == 0x3FB999999999999Aull, "f64glob84: the f64 immediate 0x3FB999999999999A as a global initialiser denotes exactly this bit pattern");
  CANARY("f64glob84 returns");
}
void h_f64body85(void) {
  F64 r;
  g_libm_calls = 0;
  g_spec_trap = SPEC_NOTRAP;
  r = c07const_f64body85(&inst);
  OBL(g_spec_trap == SPEC_NOTRAP, "f64body85: returned normally only if the specification does not trap");
  OBL(vh_f64bits(r) == 0x400921FB54442D18ull, "f64body85: the f64 immediate 0x400921FB54442D18 in a function body denotes exactly this bit pattern after translation to C text");
  CANARY("f64body85 returns");
}
void h_f64glob85(void) {
  F64 r;
  g_libm_calls = 0;
  c07constInstantiate(&inst, 0);
  g_spec_trap = SPEC_NOTRAP;
  r = c07const_f64glob85(&inst);
  OBL(g_spec_trap == SPEC_NOTRAP, "f64glob85: returned normally only if the specification does not trap");
  OBL(vh_f64bits(r) == 0x400921FB54442D18ull, "f64glob85: the f64 immediate 0x400921FB54442D18 as a global initialiser denotes exactly this bit pattern");
  CANARY("f64glob85 returns");
}
void h_f64body86(void) {
  F64 r;
  g_libm_calls = 0;
  g_spec_trap = SPEC_NOTRAP;
  r = c07const_f64body86(&inst);
  OBL(g_spec_trap == SPEC_NOTRAP, "f64body86: returned normally only if the specification does not trap");
  OBL(vh_f64bits(r) == 0x3FEFFFFFFFFFFFFFull, "f64body86: the f64 immediate 0x3FEFFFFFFFFFFFFF in a function body denotes exactly this bit pattern after translation to C text");
  CANARY("f64body86 returns");
}
void h_f64glob86(void) {
  F64 r;
  g_libm_calls = 0;
  c07constInstantiate(&inst, 0);
  g_spec_trap = SPEC_NOTRAP;
  r = c07const_f64glob86(&inst);
  OBL(g_spec_trap == SPEC_NOTRAP, "f64glob86: returned normally only if the specification does not trap");
  OBL(vh_f64bits(r) == 0x3FEFFFFFFFFFFFFFull, "f64glob86: the f64 immediate 0x3FEFFFFFFFFFFFFF as a global initialiser denotes exactly this bit pattern");
  CANARY("f64glob86 returns");
}
void h_f64body87(void) {
  F64 r;
  g_libm_calls = 0;
  g_spec_trap = SPEC_NOTRAP;
  r = c07const_f64body87(&inst);
  OBL(g_spec_trap == SPEC_NOTRAP, "f64body87: returned normally only if the specification does not trap");
  OBL(vh_f64bits(r) == 0x3FF0000000000001ull, "f64body87: the f64 immediate 0x3FF0000000000001 in a function body denotes exactly this bit pattern after translation to C text");
  CANARY("f64body87 returns");
}
void h_f64glob87(void) {
  F64 r;
  g_libm_calls = 0;
  c07constInstantiate(&inst, 0);
  g_spec_trap = SPEC_NOTRAP;
  r = c07const_f64glob87(&inst);
  OBL(g_spec_trap == SPEC_NOTRAP, "f64glob87: returned normally only if the specification does not trap");
  OBL(vh_f64bits(r) == 0x3FF0000000000001ull, "f64glob87: the f64 immediate 0x3FF0000000000001 as a global initialiser denotes exactly this bit pattern");
  CANARY("f64glob87 returns");
}
void h_f64body88(void) {
  F64 r;
  g_libm_calls = 0;
  g_spec_trap = SPEC_NOTRAP;
  r = c07const_f64body88(&inst);
  OBL(g_spec_trap == SPEC_NOTRAP, "f64body88: returned normally only if the specification does not trap");
  OBL(vh_f64bits(r) == 0x4340000000000001ull, "f64body88: the f64 immediate 0x4340000000000001 in a function body denotes exactly this bit pattern after translation to C text");
  CANARY("f64body88 returns");
}
void h_f64glob88(void) {
  F64 r;
  g_libm_calls = 0;
  c07constInstantiate(&inst, 0);
  g_spec_trap = SPEC_NOTRAP;
  r = c07const_f64glob88(&inst);
  OBL(g_spec_trap == SPEC_NOTRAP, "f64glob88: returned normally only if the specification does not trap");
  OBL(vh_f64bits(r) == 0x4340000000000001ull, "f64glob88: the f64 immediate 0x4340000000000001 as a global initialiser denotes exactly this bit pattern");
  CANARY("f64glob88 returns");
}
void h_f64body89(void) {
  F64 r;
  g_libm_calls = 0;
  g_spec_trap = SPEC_NOTRAP;
  r = c07const_f64body89(&inst);
  OBL(g_spec_trap == SPEC_NOTRAP, "f64body89: returned normally only if the specification does not trap");
  OBL(vh_f64bits(r) == 0x41DFFFFFFFC00000ull, "f64body89: the f64 immediate 0x41DFFFFFFFC00000 in a function body denotes exactly this bit pattern after translation to C text");
  CANARY("f64body89 returns");
}
void h_f64glob89(void) {
  F64 r;
  g_libm_calls = 0;
  c07constInstantiate(&inst, 0);
  g_spec_trap = SPEC_NOTRAP;
  r = c07const_f64glob89(&inst);
  OBL(g_spec_trap == SPEC_NOTRAP, "f64glob89: returned normally only if the specification does not trap");
  OBL(vh_f64bits(r) == 0x41DFFFFFFFC00000ull, "f64glob89: the f64 immediate 0x41DFFFFFFFC00000 as a global initialiser denotes exactly this bit pattern");
  CANARY("f64glob89 returns");
}
void h_f64body90(void) {
  F64 r;
  g_libm_calls = 0;
  g_spec_trap = SPEC_NOTRAP;
  r = c07const_f64body90(&inst);
  OBL(g_spec_trap == SPEC_NOTRAP, "f64body90: returned normally only if the specification does not trap");
  OBL(vh_f64bits(r) == 0xC1E0000000000000ull, "f64body90: the f64 immediate 0xC1E0000000000000 in a function body denotes exactly this bit pattern after translation to C text");
  CANARY("f64body90 returns");
}
void h_f64glob90(void) {
  F64 r;
  g_libm_calls = 0;
  c07constInstantiate(&inst, 0);
  g_spec_trap = SPEC_NOTRAP;
  r = c07const_f64glob90(&inst);
  OBL(g_spec_trap == SPEC_NOTRAP, "f64glob90: returned normally only if the specification does not trap");
  OBL(vh_f64bits(r) == 0xC1E0000000000000ull, "f64glob90: the f64 immediate 0xC1E0000000000000 as a global initialiser denotes exactly this bit pattern");
  CANARY("f64glob90 returns");
}
void h_f64body91(void) {
  F64 r;
  g_libm_calls = 0;
  g_spec_trap = SPEC_NOTRAP;
  r = c07const_f64body91(&inst);
  OBL(g_spec_trap == SPEC_NOTRAP, "f64body91: returned normally only if the specification does not trap");
  OBL(vh_f64bits(r) == 0x43E0000000000000ull, "f64body91: the f64 immediate 0x43E0000000000000 in a function body denotes exactly this bit pattern after translation to C text");
  CANARY("f64body91 returns");
}
void h_f64glob91(void) {
  F64 r;
  g_libm_calls = 0;
  c07constInstantiate(&inst, 0);
  g_spec_trap = SPEC_NOTRAP;
  r = c07const_f64glob91(&inst);
  OBL(g_spec_trap == SPEC_NOTRAP, "f64glob91: returned normally only if the specification does not trap");
  OBL(vh_f64bits(r) == 0x43E0000000000000ull, "f64glob91: the f64 immediate 0x43E0000000000000 as a global initialiser denotes exactly this bit pattern");
  CANARY("f64glob91 returns");
}
void h_f64body92(void) {
  F64 r;
  g_libm_calls = 0;
  g_spec_trap = SPEC_NOTRAP;
  r = c07const_f64body92(&inst);
  OBL(g_spec_trap == SPEC_NOTRAP, "f64body92: returned normally only if the specification does not trap");
  OBL(vh_f64bits(r) == 0x43F0000000000000ull, "f64body92: the f64 immediate 0x43F0000000000000 in a function body denotes exactly this bit pattern after translation to C text");
  CANARY("f64body92 returns");
}
void h_f64glob92(void) {
  F64 r;
  g_libm_calls = 0;
  c07constInstantiate(&inst, 0);
  g_spec_trap = SPEC_NOTRAP;
  r = c07const_f64glob92(&inst);
  OBL(g_spec_trap == SPEC_NOTRAP, "f64glob92: returned normally only if the specification does not trap");
  OBL(vh_f64bits(r) == 0x43F0000000000000ull, "f64glob92: the f64 immediate 0x43F0000000000000 as a global initialiser denotes exactly this bit pattern");
  CANARY("f64glob92 returns");
}
void h_f64body93(void) {
  F64 r;
  g_libm_calls = 0;
  g_spec_trap = SPEC_NOTRAP;
  r = c07const_f64body93(&inst);
  OBL(g_spec_trap == SPEC_NOTRAP, "f64body93: returned normally only if the specification does not trap");
  OBL(vh_f64bits(r) == 0x3E7AD7F29ABCAF48ull, "f64body93: the f64 immediate 0x3E7AD7F29ABCAF48 in a function body denotes exactly this bit pattern after translation to C text");
  CANARY("f64body93 returns");
}
void h_f64glob93(void) {
  F64 r;
  g_libm_calls = 0;
  c07constInstantiate(&inst, 0);
  g_spec_trap = SPEC_NOTRAP;
  r = c07const_f64glob93(&inst);
  OBL(g_spec_trap == SPEC_NOTRAP, "f64glob93: returned normally only if the specification does not trap");
  OBL(vh_f64bits(r) == 0x3E7AD7F29ABCAF48ull, "f64glob93: the f64 immediate 0x3E7AD7F29ABCAF48 as a global initialiser denotes exactly this bit pattern");
  CANARY("f64glob93 returns");
}
void h_f64body94(void) {
  F64 r;
  g_libm_calls = 0;
  g_spec_trap = SPEC_NOTRAP;
  r = c07const_f64body94(&inst);
  OBL(g_spec_trap == SPEC_NOTRAP, "f64body94: returned normally only if the specification does not trap");
  OBL(vh_f64bits(r) == 0x7E37E43C8800759Cull, "f64body94: the f64 immediate 0x7E37E43C8800759C in a function body denotes exactly this bit pattern after translation to C text");
  CANARY("f64body94 returns");
}
void h_f64glob94(void) {
  F64 r;
  g_libm_calls = 0;
  c07constInstantiate(&inst, 0);
  g_spec_trap = SPEC_NOTRAP;
  r = c07const_f64glob94(&inst);
  OBL(g_spec_trap == SPEC_NOTRAP, "f64glob94: returned normally only if the specification does not trap");
  OBL(vh_f64bits(r) == 0x7E37E43C8800759Cull, "f64glob94: the f64 immediate 0x7E37E43C8800759C as a global initialiser denotes exactly this bit pattern");
  CANARY("f64glob94 returns");
}
void h_f64body95(void) {
  F64 r;
  g_libm_calls = 0;
  g_spec_trap = SPEC_NOTRAP;
  r = c07const_f64body95(&inst);
  OBL(g_spec_trap == SPEC_NOTRAP, "f64body95: returned normally only if the specification does not trap");
  OBL(vh_f64bits(r) == 0x91B7584A2265B1F5ull, "f64body95: the f64 immediate 0x91B7584A2265B1F5 in a function body denotes exactly this bit pattern after translation to C text");
  CANARY("f64body95 returns");
}
void h_f64glob95(void) {
  F64 r;
  g_libm_calls = 0;
  c07constInstantiate(&inst, 0);
  g_spec_trap = SPEC_NOTRAP;
  r = c07const_f64glob95(&inst);
  OBL(g_spec_trap == SPEC_NOTRAP, "f64glob95: returned normally only if the specification does not trap");
  OBL(vh_f64bits(r) == 0x91B7584A2265B1F5ull, "f64glob95: the f64 immediate 0x91B7584A2265B1F5 as a global initialiser denotes exactly this bit pattern");
  CANARY("f64glob95 returns");
}
void h_f64body96(void) {
  F64 r;
  g_libm_calls = 0;
  g_spec_trap = SPEC_NOTRAP;
  r = c07const_f64body96(&inst);
  OBL(g_spec_trap == SPEC_NOTRAP, "f64body96: returned normally only if the specification does not trap");
  OBL(vh_f64bits(r) == 0xCD613E30D8F16ADFull, "f64body96: the f64 immediate 0xCD613E30D8F16ADF in a function body denotes exactly this bit pattern after translation to C text");
  CANARY("f64body96 returns");
}
void h_f64glob96(void) {
  F64 r;
  g_libm_calls = 0;
  c07constInstantiate(&inst, 0);
  g_spec_trap = SPEC_NOTRAP;
  r = c07const_f64glob96(&inst);
  OBL(g_spec_trap == SPEC_NOTRAP, "f64glob96: returned normally only if the specification does not trap");
  OBL(vh_f64bits(r) == 0xCD613E30D8F16ADFull, "f64glob96: the f64 immediate 0xCD613E30D8F16ADF as a global initialiser denotes exactly this bit pattern");
  CANARY("f64glob96 returns");
}
void h_f64body97(void) {
  F64 r;
  g_libm_calls = 0;
  g_spec_trap = SPEC_NOTRAP;
  r = c07const_f64body97(&inst);
  OBL(g_spec_trap == SPEC_NOTRAP, "f64body97: returned normally only if the specification does not trap");
  OBL(vh_f64bits(r) == 0x1027C4D1C386BBC4ull, "f64body97: the f64 immediate 0x1027C4D1C386BBC4 in a function body denotes exactly this bit pattern after translation to C text");
  CANARY("f64body97 returns");
}
void h_f64glob97(void) {
  F64 r;
  g_libm_calls = 0;
  c07constInstantiate(&inst, 0);
  g_spec_trap = SPEC_NOTRAP;
  r = c07const_f64glob97(&inst);
  OBL(g_spec_trap == SPEC_NOTRAP, "f64glob97: returned normally only if the specification does not trap");
  OBL(vh_f64bits(r) == 0x1027C4D1C386BBC4ull, "f64glob97: the f64 immediate 0x1027C4D1C386BBC4 as a global initialiser denotes exactly this bit pattern");
  CANARY("f64glob97 returns");
}
void h_f64body98(void) {
  F64 r;
  g_libm_calls = 0;
  g_spec_trap = SPEC_NOTRAP;
  r = c07const_f64body98(&inst);
  OBL(g_spec_trap == SPEC_NOTRAP, "f64body98: returned normally only if the specification does not trap");
  OBL(vh_f64bits(r) == 0x1E2FEB89414C343Cull, "f64body98: the f64 immediate 0x1E2FEB89414C343C in a function body denotes exactly this bit pattern after translation to C text");
  CANARY("f64body98 returns");
}
void h_f64glob98(void) {
  F64 r;
  g_libm_calls = 0;
  c07constInstantiate(&inst, 0);
  g_spec_trap = SPEC_NOTRAP;
  r = c07const_f64glob98(&inst);
  OBL(g_spec_trap == SPEC_NOTRAP, "f64glob98: returned normally only if the specification does not trap");
  OBL(vh_f64bits(r) == 0x1E2FEB89414C343Cull, "f64glob98: the f64 immediate 0x1E2FEB89414C343C as a global initialiser denotes exactly this bit pattern");
  CANARY("f64glob98 returns");
}
void h_f64body99(void) {
  F64 r;
  g_libm_calls = 0;
  g_spec_trap = SPEC_NOTRAP;
  r = c07const_f64body99(&inst);
  OBL(g_spec_trap == SPEC_NOTRAP, "f64body99: returned normally only if the specification does not trap");
  OBL(vh_f64bits(r) == 0xC2CE6F447ED4D57Bull, "f64body99: the f64 immediate 0xC2CE6F447ED4D57B in a function body denotes exactly this bit pattern after translation to C text");
  CANARY("f64body99 returns");
}
void h_f64glob99(void) {
  F64 r;
  g_libm_calls = 0;
  c07constInstantiate(&inst, 0);
  g_spec_trap = SPEC_NOTRAP;
  r = c07const_f64glob99(&inst);
  OBL(g_spec_trap == SPEC_NOTRAP, "f64glob99: returned normally only if the specification does not trap");
  OBL(vh_f64bits(r) == 0xC2CE6F447ED4D57Bull, "f64glob99: the f64 immediate 0xC2CE6F447ED4D57B as a global initialiser denotes exactly this bit pattern");
  CANARY("f64glob99 returns");
}
void h_f64body100(void) {
  F64 r;
  g_libm_calls = 0;
  g_spec_trap = SPEC_NOTRAP;
  r = c07const_f64body100(&inst);
  OBL(g_spec_trap == SPEC_NOTRAP, "f64body100: returned normally only if the specification does not trap");
  OBL(vh_f64bits(r) == 0x78E510617311D8A3ull, "f64body100: the f64 immediate 0x78E510617311D8A3 in a function body denotes exactly this bit pattern after translation to C text");
  CANARY("f64body100 returns");
}
void h_f64glob100(void) {
  F64 r;
  g_libm_calls = 0;
  c07constInstantiate(&inst, 0);
  g_spec_trap = SPEC_NOTRAP;
  r = c07const_f64glob100(&inst);
  OBL(g_spec_trap == SPEC_NOTRAP, "f64glob100: returned normally only if the specification does not trap");
  OBL(vh_f64bits(r) == 0x78E510617311D8A3ull, "f64glob100: the f64 immediate 0x78E510617311D8A3 as a global initialiser denotes exactly this bit pattern");
  CANARY("f64glob100 returns");
}
void h_f64body101(void) {
  F64 r;
  g_libm_calls = 0;
  g_spec_trap = SPEC_NOTRAP;
  r = c07const_f64body101(&inst);
  OBL(g_spec_trap == SPEC_NOTRAP, "f64body101: returned normally only if the specification does not trap");
  OBL(vh_f64bits(r) == 0x612E7696A6CECC1Bull, "f64body101: the f64 immediate 0x612E7696A6CECC1B in a function body denotes exactly this bit pattern after translation to C text");
  CANARY("f64body101 returns");
}
void h_f64glob101(void) {
  F64 r;
  g_libm_calls = 0;
  c07constInstantiate(&inst, 0);
  g_spec_trap = SPEC_NOTRAP;
  r = c07const_f64glob101(&inst);
  OBL(g_spec_trap == SPEC_NOTRAP, "f64glob101: returned normally only if the specification does not trap");
  OBL(vh_f64bits(r) == 0x612E7696A6CECC1Bull, "f64glob101: the f64 immediate 0x612E7696A6CECC1B as a global initialiser denotes exactly this bit pattern");
  CANARY("f64glob101 returns");
}
void h_f64body102(void) {
  F64 r;
  g_libm_calls = 0;
  g_spec_trap = SPEC_NOTRAP;
  r = c07const_f64body102(&inst);
  OBL(g_spec_trap == SPEC_NOTRAP, "f64body102: returned normally only if the specification does not trap");
  OBL(vh_f64bits(r) == 0x35BF992DC9E9C616ull, "f64body102: the f64 immediate 0x35BF992DC9E9C616 in a function body denotes exactly this bit pattern after translation to C text");
  CANARY("f64body102 returns");
}
void h_f64glob102(void) {
  F64 r;
  g_libm_calls = 0;
  c07constInstantiate(&inst, 0);
  g_spec_trap = SPEC_NOTRAP;
  r = c07const_f64glob102(&inst);
  OBL(g_spec_trap == SPEC_NOTRAP, "f64glob102: returned normally only if the specification does not trap");
  OBL(vh_f64bits(r) == 0x35BF992DC9E9C616ull, "f64glob102: the f64 immediate 0x35BF992DC9E9C616 as a global initialiser denotes exactly this bit pattern");
  CANARY("f64glob102 returns");
}
void h_f64body103(void) {
  F64 r;
  g_libm_calls = 0;
  g_spec_trap = SPEC_NOTRAP;
  r = c07const_f64body103(&inst);
  OBL(g_spec_trap == SPEC_NOTRAP, "f64body103: returned normally only if the specification does not trap");
  OBL(vh_f64bits(r) == 0x7CE42C8218072E8Cull, "f64body103: the f64 immediate 0x7CE42C8218072E8C in a function body denotes exactly this bit pattern after translation to C text");
  CANARY("f64body103 returns");
}
void h_f64glob103(void) {
  F64 r;
  g_libm_calls = 0;
  c07constInstantiate(&inst, 0);
  g_spec_trap = SPEC_NOTRAP;
  r = c07const_f64glob103(&inst);
  OBL(g_spec_trap == SPEC_NOTRAP, "f64glob103: returned normally only if the specification does not trap");
  OBL(vh_f64bits(r) == 0x7CE42C8218072E8Cull, "f64glob103: the f64 immediate 0x7CE42C8218072E8C as a global initialiser denotes exactly this bit pattern");
  CANARY("f64glob103 returns");
}
void h_f64body104(void) {
  F64 r;
  g_libm_calls = 0;
  g_spec_trap = SPEC_NOTRAP;
  r = c07const_f64body104(&inst);
  OBL(g_spec_trap == SPEC_NOTRAP, "f64body104: returned normally only if the specification does not trap");
  OBL(vh_f64bits(r) == 0xE4B06CE60741C7A8ull, "f64body104: the f64 immediate 0xE4B06CE60741C7A8 in a function body denotes exactly this bit pattern after translation to C text");
  CANARY("f64body104 returns");
}
void h_f64glob104(void) {
  F64 r;
  g_libm_calls = 0;
  c07constInstantiate(&inst, 0);
  g_spec_trap = SPEC_NOTRAP;
  r = c07const_f64glob104(&inst);
  OBL(g_spec_trap == SPEC_NOTRAP, "f64glob104: returned normally only if the specification does not trap");
  OBL(vh_f64bits(r) == 0xE4B06CE60741C7A8ull, "f64glob104: the f64 immediate 0xE4B06CE60741C7A8 as a global initialiser denotes exactly this bit pattern");
  CANARY("f64glob104 returns");
}
void h_f64body105(void) {
  F64 r;
  g_libm_calls = 0;
  g_spec_trap = SPEC_NOTRAP;
  r = c07const_f64body105(&inst);
  OBL(g_spec_trap == SPEC_NOTRAP, "f64body105: returned normally only if the specification does not trap");
  OBL(vh_f64bits(r) == 0x63CA828DD5F4B3B2ull, "f64body105: the f64 immediate 0x63CA828DD5F4B3B2 in a function body denotes exactly this bit pattern after translation to C text");
  CANARY("f64body105 returns");
}
void h_f64glob105(void) {
  F64 r;
  g_libm_calls = 0;
  c07constInstantiate(&inst, 0);
  g_spec_trap = SPEC_NOTRAP;
  r = c07const_f64glob105(&inst);
  OBL(g_spec_trap == SPEC_NOTRAP, "f64glob105: returned normally only if the specification does not trap");
  OBL(vh_f64bits(r) == 0x63CA828DD5F4B3B2ull, "f64glob105: the f64 immediate 0x63CA828DD5F4B3B2 as a global initialiser denotes exactly this bit pattern");
  CANARY("f64glob105 returns");
}
void h_f64body106(void) {
  F64 r;
  g_libm_calls = 0;
  g_spec_trap = SPEC_NOTRAP;
  r = c07const_f64body106(&inst);
  OBL(g_spec_trap == SPEC_NOTRAP, "f64body106: returned normally only if the specification does not trap");
  OBL(vh_f64bits(r) == 0x9B810E766EC9D286ull, "f64body106: the f64 immediate 0x9B810E766EC9D286 in a function body denotes exactly this bit pattern after translation to C text");
  CANARY("f64body106 returns");
}
void h_f64glob106(void) {
  F64 r;
  g_libm_calls = 0;
  c07constInstantiate(&inst, 0);
  g_spec_trap = SPEC_NOTRAP;
  r = c07const_f64glob106(&inst);
  OBL(g_spec_trap == SPEC_NOTRAP, "f64glob106: returned normally only if the specification does not trap");
  OBL(vh_f64bits(r) == 0x9B810E766EC9D286ull, "f64glob106: the f64 immediate 0x9B810E766EC9D286 as a global initialiser denotes exactly this bit pattern");
  CANARY("f64glob106 returns");
}
void h_f64body107(void) {
  F64 r;
  g_libm_calls = 0;
  g_spec_trap = SPEC_NOTRAP;
  r = c07const_f64body107(&inst);
  OBL(g_spec_trap == SPEC_NOTRAP, "f64body107: returned normally only if the specification does not trap");
  OBL(vh_f64bits(r) == 0xC4647159C324C985ull, "f64body107: the f64 immediate 0xC4647159C324C985 in a function body denotes exactly this bit pattern after translation to C text");
  CANARY("f64body107 returns");
}
void h_f64glob107(void) {
  F64 r;
  g_libm_calls = 0;
  c07constInstantiate(&inst, 0);
  g_spec_trap = SPEC_NOTRAP;
  r = c07const_f64glob107(&inst);
  OBL(g_spec_trap == SPEC_NOTRAP, "f64glob107: returned normally only if the specification does not trap");
  OBL(vh_f64bits(r) == 0xC4647159C324C985ull, "f64glob107: the f64 immediate 0xC4647159C324C985 as a global initialiser denotes exactly this bit pattern");
  CANARY("f64glob107 returns");
}
void h_f64body108(void) {
  F64 r;
  g_libm_calls = 0;
  g_spec_trap = SPEC_NOTRAP;
  r = c07const_f64body108(&inst);
  OBL(g_spec_trap == SPEC_NOTRAP, "f64body108: returned normally only if the specification does not trap");
  OBL(vh_f64bits(r) == 0xB2221A58008A05A6ull, "f64body108: the f64 immediate 0xB2221A58008A05A6 in a function body denotes exactly this bit pattern after translation to C text");
  CANARY("f64body108 returns");
}
void h_f64glob108(void) {
  F64 r;
  g_libm_calls = 0;
  c07constInstantiate(&inst, 0);
  g_spec_trap = SPEC_NOTRAP;
  r = c07const_f64glob108(&inst);
  OBL(g_spec_trap == SPEC_NOTRAP, "f64glob108: returned normally only if the specification does not trap");
  OBL(vh_f64bits(r) == 0xB2221A58008A05A6ull, "f64glob108: the f64 immediate 0xB2221A58008A05A6 as a global initialiser denotes exactly this bit pattern");
  CANARY("f64glob108 returns");
}
void h_f64body109(void) {
  F64 r;
  g_libm_calls = 0;
  g_spec_trap = SPEC_NOTRAP;
  r = c07const_f64body109(&inst);
  OBL(g_spec_trap == SPEC_NOTRAP, "f64body109: returned normally only if the specification does not trap");
  OBL(vh_f64bits(r) == 0x442E3D437204E52Dull, "f64body109: the f64 immediate 0x442E3D437204E52D in a function body denotes exactly this bit pattern after translation to C text");
  CANARY("f64body109 returns");
}
void h_f64glob109(void) {
  F64 r;
  g_libm_calls = 0;
  c07constInstantiate(&inst, 0);
  g_spec_trap = SPEC_NOTRAP;
  r = c07const_f64glob109(&inst);
  OBL(g_spec_trap == SPEC_NOTRAP, "f64glob109: returned normally only if the specification does not trap");
  OBL(vh_f64bits(r) == 0x442E3D437204E52Dull, "f64glob109: the f64 immediate 0x442E3D437204E52D as a global initialiser denotes exactly this bit pattern");
  CANARY("f64glob109 returns");
}
void h_f64body110(void) {
  F64 r;
  g_libm_calls = 0;
  g_spec_trap = SPEC_NOTRAP;
  r = c07const_f64body110(&inst);
  OBL(g_spec_trap == SPEC_NOTRAP, "f64body110: returned normally only if the specification does not trap");
  OBL(vh_f64bits(r) == 0xCD447E35B8B6D8FEull, "f64body110: the f64 immediate 0xCD447E35B8B6D8FE in a function body denotes exactly this bit pattern after translation to C text");
  CANARY("f64body110 returns");
}
void h_f64glob110(void) {
  F64 r;
  g_libm_calls = 0;
  c07constInstantiate(&inst, 0);
  g_spec_trap = SPEC_NOTRAP;
  r = c07const_f64glob110(&inst);
  OBL(g_spec_trap == SPEC_NOTRAP, "f64glob110: returned normally only if the specification does not trap");
  OBL(vh_f64bits(r) == 0xCD447E35B8B6D8FEull, "f64glob110: the f64 immediate 0xCD447E35B8B6D8FE as a global initialiser denotes exactly this bit pattern");
  CANARY("f64glob110 returns");
}
void h_f64body111(void) {
  F64 r;
  g_libm_calls = 0;
  g_spec_trap = SPEC_NOTRAP;
  r = c07const_f64body111(&inst);
  OBL(g_spec_trap == SPEC_NOTRAP, "f64body111: returned normally only if the specification does not trap");
  OBL(vh_f64bits(r) == 0x9755D4C13A902931ull, "f64body111: the f64 immediate 0x9755D4C13A902931 in a function body denotes exactly this bit pattern after translation to C text");
  CANARY("f64body111 returns");
}
void h_f64glob111(void) {
  F64 r;
  g_libm_calls = 0;
  c07constInstantiate(&inst, 0);
  g_spec_trap = SPEC_NOTRAP;
  r = c07const_f64glob111(&inst);
  OBL(g_spec_trap == SPEC_NOTRAP, "f64glob111: returned normally only if the specification does not trap");
  OBL(vh_f64bits(r) == 0x9755D4C13A902931ull, "f64glob111: the f64 immediate 0x9755D4C13A902931 as a global initialiser denotes exactly this bit pattern");
  CANARY("f64glob111 returns");
}
void h_f64body112(void) {
  F64 r;
  g_libm_calls = 0;
  g_spec_trap = SPEC_NOTRAP;
  r = c07const_f64body112(&inst);
  OBL(g_spec_trap == SPEC_NOTRAP, "f64body112: returned normally only if the specification does not trap");
  OBL(vh_f64bits(r) == 0x1A2B8F1FF1FD42A2ull, "f64body112: the f64 immediate 0x1A2B8F1FF1FD42A2 in a function body denotes exactly this bit pattern after translation to C text");
  CANARY("f64body112 returns");
}
void h_f64glob112(void) {
  F64 r;
  g_libm_calls = 0;
  c07constInstantiate(&inst, 0);
  g_spec_trap = SPEC_NOTRAP;
  r = c07const_f64glob112(&inst);
  OBL(g_spec_trap == SPEC_NOTRAP, "f64glob112: returned normally only if the specification does not trap");
  OBL(vh_f64bits(r) == 0x1A2B8F1FF1FD42A2ull, "f64glob112: the f64 immediate 0x1A2B8F1FF1FD42A2 as a global initialiser denotes exactly this bit pattern");
  CANARY("f64glob112 returns");
}
void h_f64body113(void) {
  F64 r;
  g_libm_calls = 0;
  g_spec_trap = SPEC_NOTRAP;
  r = c07const_f64body113(&inst);
  OBL(g_spec_trap == SPEC_NOTRAP, "f64body113: returned normally only if the specification does not trap");
  OBL(vh_f64bits(r) == 0x51431193E6C3F339ull, "f64body113: the f64 immediate 0x51431193E6C3F339 in a function body denotes exactly this bit pattern after translation to C text");
  CANARY("f64body113 returns");
}
void h_f64glob113(void) {
  F64 r;
  g_libm_calls = 0;
  c07constInstantiate(&inst, 0);
  g_spec_trap = SPEC_NOTRAP;
  r = c07const_f64glob113(&inst);
  OBL(g_spec_trap == SPEC_NOTRAP, "f64glob113: returned normally only if the specification does not trap");
  OBL(vh_f64bits(r) == 0x51431193E6C3F339ull, "f64glob113: the f64 immediate 0x51431193E6C3F339 as a global initialiser denotes exactly this bit pattern");
  CANARY("f64glob113 returns");
}
void h_f64body114(void) {
  F64 r;
  g_libm_calls = 0;
  g_spec_trap = SPEC_NOTRAP;
  r = c07const_f64body114(&inst);
  OBL(g_spec_trap == SPEC_NOTRAP, "f64body114: returned normally only if the specification does not trap");
  OBL(vh_f64bits(r) == 0x05B6E6E307D4BEDCull, "f64body114: the f64 immediate 0x5B6E6E307D4BEDC in a function body denotes exactly this bit pattern after translation to C text");
  CANARY("f64body114 returns");
}
void h_f64glob114(void) {
  F64 r;
  g_libm_calls = 0;
  c07constInstantiate(&inst, 0);
  g_spec_trap = SPEC_NOTRAP;
  r = c07const_f64glob114(&inst);
  OBL(g_spec_trap == SPEC_NOTRAP, "f64glob114: returned normally only if the specification does not trap");
  OBL(vh_f64bits(r) == 0x05B6E6E307D4BEDCull, "f64glob114: the f64 immediate 0x5B6E6E307D4BEDC as a global initialiser denotes exactly this bit pattern");
  CANARY("f64glob114 returns");
}
void h_f64body115(void) {
  F64 r;
  g_libm_calls = 0;
  g_spec_trap = SPEC_NOTRAP;
  r = c07const_f64body115(&inst);
  OBL(g_spec_trap == SPEC_NOTRAP, "f64body115: returned normally only if the specification does not trap");
  OBL(vh_f64bits(r) == 0xA648A7DD06839EB9ull, "f64body115: the f64 immediate 0xA648A7DD06839EB9 in a function body denotes exactly this bit pattern after translation to C text");
  CANARY("f64body115 returns");
}
void h_f64glob115(void) {
  F64 r;
  g_libm_calls = 0;
  c07constInstantiate(&inst, 0);
  g_spec_trap = SPEC_NOTRAP;
  r = c07const_f64glob115(&inst);
  OBL(g_spec_trap == SPEC_NOTRAP, "f64glob115: returned normally only if the specification does not trap");
  OBL(vh_f64bits(r) == 0xA648A7DD06839EB9ull, "f64glob115: the f64 immediate 0xA648A7DD06839EB9 as a global initialiser denotes exactly this bit pattern");
  CANARY("f64glob115 returns");
}
void h_f64body116(void) {
  F64 r;
  g_libm_calls = 0;
  g_spec_trap = SPEC_NOTRAP;
  r = c07const_f64body116(&inst);
  OBL(g_spec_trap == SPEC_NOTRAP, "f64body116: returned normally only if the specification does not trap");
  OBL(vh_f64bits(r) == 0x025B413F8A9A021Eull, "f64body116: the f64 immediate 0x25B413F8A9A021E in a function body denotes exactly this bit pattern after translation to C text");
  CANARY("f64body116 returns");
}
void h_f64glob116(void) {
  F64 r;
  g_libm_calls = 0;
  c07constInstantiate(&inst, 0);
  g_spec_trap = SPEC_NOTRAP;
  r = c07const_f64glob116(&inst);
  OBL(g_spec_trap == SPEC_NOTRAP, "f64glob116: returned normally only if the specification does not trap");
  OBL(vh_f64bits(r) == 0x025B413F8A9A021Eull, "f64glob116: the f64 immediate 0x25B413F8A9A021E as a global initialiser denotes exactly this bit pattern");
  CANARY("f64glob116 returns");
}
void h_f64body117(void) {
  F64 r;
  g_libm_calls = 0;
  g_spec_trap = SPEC_NOTRAP;
  r = c07const_f64body117(&inst);
  OBL(g_spec_trap == SPEC_NOTRAP, "f64body117: returned normally only if the specification does not trap");
  OBL(vh_f64bits(r) == 0xE1988AD9F06C144Aull, "f64body117: the f64 immediate 0xE1988AD9F06C144A in a function body denotes exactly this bit pattern after translation to C text");
  CANARY("f64body117 returns");
}
void h_f64glob117(void) {
  F64 r;
  g_libm_calls = 0;
  c07constInstantiate(&inst, 0);
  g_spec_trap = SPEC_NOTRAP;
  r = c07const_f64glob117(&inst);
  OBL(g_spec_trap == SPEC_NOTRAP, "f64glob117: returned normally only if the specification does not trap");
  OBL(vh_f64bits(r) == 0xE1988AD9F06C144Aull, "f64glob117: the f64 immediate 0xE1988AD9F06C144A as a global initialiser denotes exactly this bit pattern");
  CANARY("f64glob117 returns");
}
void h_f64body118(void) {
  F64 r;
  g_libm_calls = 0;
  g_spec_trap = SPEC_NOTRAP;
  r = c07const_f64body118(&inst);
  OBL(g_spec_trap == SPEC_NOTRAP, "f64body118: returned normally only if the specification does not trap");
  OBL(vh_f64bits(r) == 0xAFBD67F9619699CFull, "f64body118: the f64 immediate 0xAFBD67F9619699CF in a function body denotes exactly this bit pattern after translation to C text");
  CANARY("f64body118 returns");
}
void h_f64glob118(void) {
  F64 r;
  g_libm_calls = 0;
  c07constInstantiate(&inst, 0);
  g_spec_trap = SPEC_NOTRAP;
  r = c07const_f64glob118(&inst);
  OBL(g_spec_trap == SPEC_NOTRAP, "f64glob118: returned normally only if the specification does not trap");
  OBL(vh_f64bits(r) == 0xAFBD67F9619699CFull, "f64glob118: the f64 immediate 0xAFBD67F9619699CF as a global initialiser denotes exactly this bit pattern");
  CANARY("f64glob118 returns");
}
void h_i32body119(void) {
  U32 r;
  g_libm_calls = 0;
  g_spec_trap = SPEC_NOTRAP;
  r = c07const_i32body119(&inst);
  OBL(g_spec_trap == SPEC_NOTRAP, "i32body119: returned normally only if the specification does not trap");
  OBL((U64)r == 0x00000000u, "i32body119: the i32 immediate 0x0 in a function body denotes exactly this bit pattern after translation to C text");
  CANARY("i32body119 returns");
}
void h_i32glob119(void) {
  U32 r;
  g_libm_calls = 0;
  c07constInstantiate(&inst, 0);
  g_spec_trap = SPEC_NOTRAP;
  r = c07const_i32glob119(&inst);
  OBL(g_spec_trap == SPEC_NOTRAP, "i32glob119: returned normally only if the specification does not trap");
  OBL((U64)r == 0x00000000u, "i32glob119: the i32 immediate 0x0 as a global initialiser denotes exactly this bit pattern");
  CANARY("i32glob119 returns");
}
void h_i32body120(void) {
  U32 r;
  g_libm_calls = 0;
  g_spec_trap = SPEC_NOTRAP;
  r = c07const_i32body120(&inst);
  OBL(g_spec_trap == SPEC_NOTRAP, "i32body120: returned normally only if the specification does not trap");
  OBL((U64)r == 0x00000001u, "i32body120: the i32 immediate 0x1 in a function body denotes exactly this bit pattern after translation to C text");
  CANARY("i32body120 returns");
}
void h_i32glob120(void) {
  U32 r;
  g_libm_calls = 0;
  c07constInstantiate(&inst, 0);
  g_spec_trap = SPEC_NOTRAP;
  r = c07const_i32glob120(&inst);
  OBL(g_spec_trap == SPEC_NOTRAP, "i32glob120: returned normally only if the specification does not trap");
  OBL((U64)r == 0x00000001u, "i32glob120: the i32 immediate 0x1 as a global initialiser denotes exactly this bit pattern");
  CANARY("i32glob120 returns");
}
void h_i32body121(void) {
  U32 r;
  g_libm_calls = 0;
  g_spec_trap = SPEC_NOTRAP;
  r = c07const_i32body121(&inst);
  OBL(g_spec_trap == SPEC_NOTRAP, "i32body121: returned normally only if the specification does not trap");
  OBL((U64)r == 0xFFFFFFFFu, "i32body121: the i32 immediate 0xFFFFFFFF in a function body denotes exactly this bit pattern after translation to C text");
  CANARY("i32body121 returns");
}
void h_i32glob121(void) {
  U32 r;
  g_libm_calls = 0;
  c07constInstantiate(&inst, 0);
  g_spec_trap = SPEC_NOTRAP;
  r = c07const_i32glob121(&inst);
  OBL(g_spec_trap == SPEC_NOTRAP, "i32glob121: returned normally only if the specification does not trap");
  OBL((U64)r == 0xFFFFFFFFu, "i32glob121: the i32 immediate 0xFFFFFFFF as a global initialiser denotes exactly this bit pattern");
  CANARY("i32glob121 returns");
}
void h_i32body122(void) {
  U32 r;
  g_libm_calls = 0;
  g_spec_trap = SPEC_NOTRAP;
  r = c07const_i32body122(&inst);
  OBL(g_spec_trap == SPEC_NOTRAP, "i32body122: returned normally only if the specification does not trap");
  OBL((U64)r == 0x80000000u, "i32body122: the i32 immediate 0x80000000 in a function body denotes exactly this bit pattern after translation to C text");
  CANARY("i32body122 returns");
}
void h_i32glob122(void) {
  U32 r;
  g_libm_calls = 0;
  c07constInstantiate(&inst, 0);
  g_spec_trap = SPEC_NOTRAP;
  r = c07const_i32glob122(&inst);
  OBL(g_spec_trap == SPEC_NOTRAP, "i32glob122: returned normally only if the specification does not trap");
  OBL((U64)r == 0x80000000u, "i32glob122: the i32 immediate 0x80000000 as a global initialiser denotes exactly this bit pattern");
  CANARY("i32glob122 returns");
}
void h_i32body123(void) {
  U32 r;
  g_libm_calls = 0;
  g_spec_trap = SPEC_NOTRAP;
  r = c07const_i32body123(&inst);
  OBL(g_spec_trap == SPEC_NOTRAP, "i32body123: returned normally only if the specification does not trap");
  OBL((U64)r == 0x7FFFFFFFu, "i32body123: the i32 immediate 0x7FFFFFFF in a function body denotes exactly this bit pattern after translation to C text");
  CANARY("i32body123 returns");
}
void h_i32glob123(void) {
  U32 r;
  g_libm_calls = 0;
  c07constInstantiate(&inst, 0);
  g_spec_trap = SPEC_NOTRAP;
  r = c07const_i32glob123(&inst);
  OBL(g_spec_trap == SPEC_NOTRAP, "i32glob123: returned normally only if the specification does not trap");
  OBL((U64)r == 0x7FFFFFFFu, "i32glob123: the i32 immediate 0x7FFFFFFF as a global initialiser denotes exactly this bit pattern");
  CANARY("i32glob123 returns");
}
void h_i32body124(void) {
  U32 r;
  g_libm_calls = 0;
  g_spec_trap = SPEC_NOTRAP;
  r = c07const_i32body124(&inst);
  OBL(g_spec_trap == SPEC_NOTRAP, "i32body124: returned normally only if the specification does not trap");
  OBL((U64)r == 0x80000001u, "i32body124: the i32 immediate 0x80000001 in a function body denotes exactly this bit pattern after translation to C text");
  CANARY("i32body124 returns");
}
void h_i32glob124(void) {
  U32 r;
  g_libm_calls = 0;
  c07constInstantiate(&inst, 0);
  g_spec_trap = SPEC_NOTRAP;
  r = c07const_i32glob124(&inst);
  OBL(g_spec_trap == SPEC_NOTRAP, "i32glob124: returned normally only if the specification does not trap");
  OBL((U64)r == 0x80000001u, "i32glob124: the i32 immediate 0x80000001 as a global initialiser denotes exactly this bit pattern");
  CANARY("i32glob124 returns");
}
void h_i32body125(void) {
  U32 r;
  g_libm_calls = 0;
  g_spec_trap = SPEC_NOTRAP;
  r = c07const_i32body125(&inst);
  OBL(g_spec_trap == SPEC_NOTRAP, "i32body125: returned normally only if the specification does not trap");
  OBL((U64)r == 0x0000003Fu, "i32body125: the i32 immediate 0x3F in a function body denotes exactly this bit pattern after translation to C text");
  CANARY("i32body125 returns");
}
void h_i32glob125(void) {
  U32 r;
  g_libm_calls = 0;
  c07constInstantiate(&inst, 0);
  g_spec_trap = SPEC_NOTRAP;
  r = c07const_i32glob125(&inst);
  OBL(g_spec_trap == SPEC_NOTRAP, "i32glob125: returned normally only if the specification does not trap");
  OBL((U64)r == 0x0000003Fu, "i32glob125: the i32 immediate 0x3F as a global initialiser denotes exactly this bit pattern");
  CANARY("i32glob125 returns");
}
void h_i32body126(void) {
  U32 r;
  g_libm_calls = 0;
  g_spec_trap = SPEC_NOTRAP;
  r = c07const_i32body126(&inst);
  OBL(g_spec_trap == SPEC_NOTRAP, "i32body126: returned normally only if the specification does not trap");
  OBL((U64)r == 0x00000040u, "i32body126: the i32 immediate 0x40 in a function body denotes exactly this bit pattern after translation to C text");
  CANARY("i32body126 returns");
}
void h_i32glob126(void) {
  U32 r;
  g_libm_calls = 0;
  c07constInstantiate(&inst, 0);
  g_spec_trap = SPEC_NOTRAP;
  r = c07const_i32glob126(&inst);
  OBL(g_spec_trap == SPEC_NOTRAP, "i32glob126: returned normally only if the specification does not trap");
  OBL((U64)r == 0x00000040u, "i32glob126: the i32 immediate 0x40 as a global initialiser denotes exactly this bit pattern");
  CANARY("i32glob126 returns");
}
void h_i32body127(void) {
  U32 r;
  g_libm_calls = 0;
  g_spec_trap = SPEC_NOTRAP;
  r = c07const_i32body127(&inst);
  OBL(g_spec_trap == SPEC_NOTRAP, "i32body127: returned normally only if the specification does not trap");
  OBL((U64)r == 0xFFFFFFC0u, "i32body127: the i32 immediate 0xFFFFFFC0 in a function body denotes exactly this bit pattern after translation to C text");
  CANARY("i32body127 returns");
}
void h_i32glob127(void) {
  U32 r;
  g_libm_calls = 0;
  c07constInstantiate(&inst, 0);
  g_spec_trap = SPEC_NOTRAP;
  r = c07const_i32glob127(&inst);
  OBL(g_spec_trap == SPEC_NOTRAP, "i32glob127: returned normally only if the specification does not trap");
  OBL((U64)r == 0xFFFFFFC0u, "i32glob127: the i32 immediate 0xFFFFFFC0 as a global initialiser denotes exactly this bit pattern");
  CANARY("i32glob127 returns");
}
void h_i32body128(void) {
  U32 r;
  g_libm_calls = 0;
  g_spec_trap = SPEC_NOTRAP;
  r = c07const_i32body128(&inst);
  OBL(g_spec_trap == SPEC_NOTRAP, "i32body128: returned normally only if the specification does not trap");
  OBL((U64)r == 0xFFFFFFBFu, "i32body128: the i32 immediate 0xFFFFFFBF in a function body denotes exactly this bit pattern after translation to C text");
  CANARY("i32body128 returns");
}
void h_i32glob128(void) {
  U32 r;
  g_libm_calls = 0;
  c07constInstantiate(&inst, 0);
  g_spec_trap = SPEC_NOTRAP;
  r = c07const_i32glob128(&inst);
  OBL(g_spec_trap == SPEC_NOTRAP, "i32glob128: returned normally only if the specification does not trap");
  OBL((U64)r == 0xFFFFFFBFu, "i32glob128: the i32 immediate 0xFFFFFFBF as a global initialiser denotes exactly this bit pattern");
  CANARY("i32glob128 returns");
}
void h_i32body129(void) {
  U32 r;
  g_libm_calls = 0;
  g_spec_trap = SPEC_NOTRAP;
  r = c07const_i32body129(&inst);
  OBL(g_spec_trap == SPEC_NOTRAP, "i32body129: returned normally only if the specification does not trap");
  OBL((U64)r == 0x12345678u, "i32body129: the i32 immediate 0x12345678 in a function body denotes exactly this bit pattern after translation to C text");
  CANARY("i32body129 returns");
}
void h_i32glob129(void) {
  U32 r;
  g_libm_calls = 0;
  c07constInstantiate(&inst, 0);
  g_spec_trap = SPEC_NOTRAP;
  r = c07const_i32glob129(&inst);
  OBL(g_spec_trap == SPEC_NOTRAP, "i32glob129: returned normally only if the specification does not trap");
  OBL((U64)r == 0x12345678u, "i32glob129: the i32 immediate 0x12345678 as a global initialiser denotes exactly this bit pattern");
  CANARY("i32glob129 returns");
}
void h_i32body130(void) {
  U32 r;
  g_libm_calls = 0;
  g_spec_trap = SPEC_NOTRAP;
  r = c07const_i32body130(&inst);
  OBL(g_spec_trap == SPEC_NOTRAP, "i32body130: returned normally only if the specification does not trap");
  OBL((U64)r == 0xF4BEA973u, "i32body130: the i32 immediate 0xF4BEA973 in a function body denotes exactly this bit pattern after translation to C text");
  CANARY("i32body130 returns");
}
void h_i32glob130(void) {
  U32 r;
  g_libm_calls = 0;
  c07constInstantiate(&inst, 0);
  g_spec_trap = SPEC_NOTRAP;
  r = c07const_i32glob130(&inst);
  OBL(g_spec_trap == SPEC_NOTRAP, "i32glob130: returned normally only if the specification does not trap");
  OBL((U64)r == 0xF4BEA973u, "i32glob130: the i32 immediate 0xF4BEA973 as a global initialiser denotes exactly this bit pattern");
  CANARY("i32glob130 returns");
}
void h_i32body131(void) {
  U32 r;
  g_libm_calls = 0;
  g_spec_trap = SPEC_NOTRAP;
  r = c07const_i32body131(&inst);
  OBL(g_spec_trap == SPEC_NOTRAP, "i32body131: returned normally only if the specification does not trap");
  OBL((U64)r == 0xDCF4BB99u, "i32body131: the i32 immediate 0xDCF4BB99 in a function body denotes exactly this bit pattern after translation to C text");
  CANARY("i32body131 returns");
}
void h_i32glob131(void) {
  U32 r;
  g_libm_calls = 0;
  c07constInstantiate(&inst, 0);
  g_spec_trap = SPEC_NOTRAP;
  r = c07const_i32glob131(&inst);
  OBL(g_spec_trap == SPEC_NOTRAP, "i32glob131: returned normally only if the specification does not trap");
  OBL((U64)r == 0xDCF4BB99u, "i32glob131: the i32 immediate 0xDCF4BB99 as a global initialiser denotes exactly this bit pattern");
  CANARY("i32glob131 returns");
}
void h_i32body132(void) {
  U32 r;
  g_libm_calls = 0;
  g_spec_trap = SPEC_NOTRAP;
  r = c07const_i32body132(&inst);
  OBL(g_spec_trap == SPEC_NOTRAP, "i32body132: returned normally only if the specification does not trap");
  OBL((U64)r == 0xF2A4D27Bu, "i32body132: the i32 immediate 0xF2A4D27B in a function body denotes exactly this bit pattern after translation to C text");
  CANARY("i32body132 returns");
}
void h_i32glob132(void) {
  U32 r;
  g_libm_calls = 0;
  c07constInstantiate(&inst, 0);
  g_spec_trap = SPEC_NOTRAP;
  r = c07const_i32glob132(&inst);
  OBL(g_spec_trap == SPEC_NOTRAP, "i32glob132: returned normally only if the specification does not trap");
  OBL((U64)r == 0xF2A4D27Bu, "i32glob132: the i32 immediate 0xF2A4D27B as a global initialiser denotes exactly this bit pattern");
  CANARY("i32glob132 returns");
}
void h_i32body133(void) {
  U32 r;
  g_libm_calls = 0;
  g_spec_trap = SPEC_NOTRAP;
  r = c07const_i32body133(&inst);
  OBL(g_spec_trap == SPEC_NOTRAP, "i32body133: returned normally only if the specification does not trap");
  OBL((U64)r == 0xD95BAFC8u, "i32body133: the i32 immediate 0xD95BAFC8 in a function body denotes exactly this bit pattern after translation to C text");
  CANARY("i32body133 returns");
}
void h_i32glob133(void) {
  U32 r;
  g_libm_calls = 0;
  c07constInstantiate(&inst, 0);
  g_spec_trap = SPEC_NOTRAP;
  r = c07const_i32glob133(&inst);
  OBL(g_spec_trap == SPEC_NOTRAP, "i32glob133: returned normally only if the specification does not trap");
  OBL((U64)r == 0xD95BAFC8u, "i32glob133: the i32 immediate 0xD95BAFC8 as a global initialiser denotes exactly this bit pattern");
  CANARY("i32glob133 returns");
}
void h_i32body134(void) {
  U32 r;
  g_libm_calls = 0;
  g_spec_trap = SPEC_NOTRAP;
  r = c07const_i32body134(&inst);
  OBL(g_spec_trap == SPEC_NOTRAP, "i32body134: returned normally only if the specification does not trap");
  OBL((U64)r == 0x0E7A269Fu, "i32body134: the i32 immediate 0xE7A269F in a function body denotes exactly this bit pattern after translation to C text");
  CANARY("i32body134 returns");
}
void h_i32glob134(void) {
  U32 r;
  g_libm_calls = 0;
  c07constInstantiate(&inst, 0);
  g_spec_trap = SPEC_NOTRAP;
  r = c07const_i32glob134(&inst);
  OBL(g_spec_trap == SPEC_NOTRAP, "i32glob134: returned normally only if the specification does not trap");
  OBL((U64)r == 0x0E7A269Fu, "i32glob134: the i32 immediate 0xE7A269F as a global initialiser denotes exactly this bit pattern");
  CANARY("i32glob134 returns");
}
void h_i32body135(void) {
  U32 r;
  g_libm_calls = 0;
  g_spec_trap = SPEC_NOTRAP;
  r = c07const_i32body135(&inst);
  OBL(g_spec_trap == SPEC_NOTRAP, "i32body135: returned normally only if the specification does not trap");
  OBL((U64)r == 0x177219D3u, "i32body135: the i32 immediate 0x177219D3 in a function body denotes exactly this bit pattern after translation to C text");
  CANARY("i32body135 returns");
}
void h_i32glob135(void) {
  U32 r;
  g_libm_calls = 0;
  c07constInstantiate(&inst, 0);
  g_spec_trap = SPEC_NOTRAP;
  r = c07const_i32glob135(&inst);
  OBL(g_spec_trap == SPEC_NOTRAP, "i32glob135: returned normally only if the specification does not trap");
  OBL((U64)r == 0x177219D3u, "i32glob135: the i32 immediate 0x177219D3 as a global initialiser denotes exactly this bit pattern");
  CANARY("i32glob135 returns");
}
void h_i32body136(void) {
  U32 r;
  g_libm_calls = 0;
  g_spec_trap = SPEC_NOTRAP;
  r = c07const_i32body136(&inst);
  OBL(g_spec_trap == SPEC_NOTRAP, "i32body136: returned normally only if the specification does not trap");
  OBL((U64)r == 0x15BA2BDDu, "i32body136: the i32 immediate 0x15BA2BDD in a function body denotes exactly this bit pattern after translation to C text");
  CANARY("i32body136 returns");
}
void h_i32glob136(void) {
  U32 r;
  g_libm_calls = 0;
  c07constInstantiate(&inst, 0);
  g_spec_trap = SPEC_NOTRAP;
  r = c07const_i32glob136(&inst);
  OBL(g_spec_trap == SPEC_NOTRAP, "i32glob136: returned normally only if the specification does not trap");
  OBL((U64)r == 0x15BA2BDDu, "i32glob136: the i32 immediate 0x15BA2BDD as a global initialiser denotes exactly this bit pattern");
  CANARY("i32glob136 returns");
}
void h_i32body137(void) {
  U32 r;
  g_libm_calls = 0;
  g_spec_trap = SPEC_NOTRAP;
  r = c07const_i32body137(&inst);
  OBL(g_spec_trap == SPEC_NOTRAP, "i32body137: returned normally only if the specification does not trap");
  OBL((U64)r == 0x5C6E4337u, "i32body137: the i32 immediate 0x5C6E4337 in a function body denotes exactly this bit pattern after translation to C text");
  CANARY("i32body137 returns");
}
void h_i32glob137(void) {
  U32 r;
  g_libm_calls = 0;
  c07constInstantiate(&inst, 0);
  g_spec_trap = SPEC_NOTRAP;
  r = c07const_i32glob137(&inst);
  OBL(g_spec_trap == SPEC_NOTRAP, "i32glob137: returned normally only if the specification does not trap");
  OBL((U64)r == 0x5C6E4337u, "i32glob137: the i32 immediate 0x5C6E4337 as a global initialiser denotes exactly this bit pattern");
  CANARY("i32glob137 returns");
}
void h_i64body138(void) {
  U64 r;
  g_libm_calls = 0;
  g_spec_trap = SPEC_NOTRAP;
  r = c07const_i64body138(&inst);
  OBL(g_spec_trap == SPEC_NOTRAP, "i64body138: returned normally only if the specification does not trap");
  OBL((U64)r == 0x0000000000000000ull, "i64body138: the i64 immediate 0x0 in a function body denotes exactly this bit pattern after translation to C text");
  CANARY("i64body138 returns");
}
void h_i64glob138(void) {
  U64 r;
  g_libm_calls = 0;
  c07constInstantiate(&inst, 0);
  g_spec_trap = SPEC_NOTRAP;
  r = c07const_i64glob138(&inst);
  OBL(g_spec_trap == SPEC_NOTRAP, "i64glob138: returned normally only if the specification does not trap");
  OBL((U64)r == 0x0000000000000000ull, "i64glob138: the i64 immediate 0x0 as a global initialiser denotes exactly this bit pattern");
  CANARY("i64glob138 returns");
}
void h_i64body139(void) {
  U64 r;
  g_libm_calls = 0;
  g_spec_trap = SPEC_NOTRAP;
  r = c07const_i64body139(&inst);
  OBL(g_spec_trap == SPEC_NOTRAP, "i64body139: returned normally only if the specification does not trap");
  OBL((U64)r == 0x0000000000000001ull, "i64body139: the i64 immediate 0x1 in a function body denotes exactly this bit pattern after translation to C text");
  CANARY("i64body139 returns");
}
void h_i64glob139(void) {
  U64 r;
  g_libm_calls = 0;
  c07constInstantiate(&inst, 0);
  g_spec_trap = SPEC_NOTRAP;
  r = c07const_i64glob139(&inst);
  OBL(g_spec_trap == SPEC_NOTRAP, "i64glob139: returned normally only if the specification does not trap");
  OBL((U64)r == 0x0000000000000001ull, "i64glob139: the i64 immediate 0x1 as a global initialiser denotes exactly this bit pattern");
  CANARY("i64glob139 returns");
}
void h_i64body140(void) {
  U64 r;
  g_libm_calls = 0;
  g_spec_trap = SPEC_NOTRAP;
  r = c07const_i64body140(&inst);
  OBL(g_spec_trap == SPEC_NOTRAP, "i64body140: returned normally only if the specification does not trap");
  OBL((U64)r == 0xFFFFFFFFFFFFFFFFull, "i64body140: the i64 immediate 0xFFFFFFFFFFFFFFFF in a function body denotes exactly this bit pattern after translation to C text");
  CANARY("i64body140 returns");
}
void h_i64glob140(void) {
  U64 r;
  g_libm_calls = 0;
  c07constInstantiate(&inst, 0);
  g_spec_trap = SPEC_NOTRAP;
  r = c07const_i64glob140(&inst);
  OBL(g_spec_trap == SPEC_NOTRAP, "i64glob140: returned normally only if the specification does not trap");
  OBL((U64)r == 0xFFFFFFFFFFFFFFFFull, "i64glob140: the i64 immediate 0xFFFFFFFFFFFFFFFF as a global initialiser denotes exactly this bit pattern");
  CANARY("i64glob140 returns");
}
void h_i64body141(void) {
  U64 r;
  g_libm_calls = 0;
  g_spec_trap = SPEC_NOTRAP;
  r = c07const_i64body141(&inst);
  OBL(g_spec_trap == SPEC_NOTRAP, "i64body141: returned normally only if the specification does not trap");
  OBL((U64)r == 0x8000000000000000ull, "i64body141: the i64 immediate 0x8000000000000000 in a function body denotes exactly this bit pattern after translation to C text");
  CANARY("i64body141 returns");
}
void h_i64glob141(void) {
  U64 r;
  g_libm_calls = 0;
  c07constInstantiate(&inst, 0);
  g_spec_trap = SPEC_NOTRAP;
  r = c07const_i64glob141(&inst);
  OBL(g_spec_trap == SPEC_NOTRAP, "i64glob141: returned normally only if the specification does not trap");
  OBL((U64)r == 0x8000000000000000ull, "i64glob141: the i64 immediate 0x8000000000000000 as a global initialiser denotes exactly this bit pattern");
  CANARY("i64glob141 returns");
}
void h_i64body142(void) {
  U64 r;
  g_libm_calls = 0;
  g_spec_trap = SPEC_NOTRAP;
  r = c07const_i64body142(&inst);
  OBL(g_spec_trap == SPEC_NOTRAP, "i64body142: returned normally only if the specification does not trap");
  OBL((U64)r == 0x7FFFFFFFFFFFFFFFull, "i64body142: the i64 immediate 0x7FFFFFFFFFFFFFFF in a function body denotes exactly this bit pattern after translation to C text");
  CANARY("i64body142 returns");
}
void h_i64glob142(void) {
  U64 r;
  g_libm_calls = 0;
  c07constInstantiate(&inst, 0);
  g_spec_trap = SPEC_NOTRAP;
  r = c07const_i64glob142(&inst);
  OBL(g_spec_trap == SPEC_NOTRAP, "i64glob142: returned normally only if the specification does not trap");
  OBL((U64)r == 0x7FFFFFFFFFFFFFFFull, "i64glob142: the i64 immediate 0x7FFFFFFFFFFFFFFF as a global initialiser denotes exactly this bit pattern");
  CANARY("i64glob142 returns");
}
void h_i64body143(void) {
  U64 r;
  g_libm_calls = 0;
  g_spec_trap = SPEC_NOTRAP;
  r = c07const_i64body143(&inst);
  OBL(g_spec_trap == SPEC_NOTRAP, "i64body143: returned normally only if the specification does not trap");
  OBL((U64)r == 0x8000000000000001ull, "i64body143: the i64 immediate 0x8000000000000001 in a function body denotes exactly this bit pattern after translation to C text");
  CANARY("i64body143 returns");
}
void h_i64glob143(void) {
  U64 r;
  g_libm_calls = 0;
  c07constInstantiate(&inst, 0);
  g_spec_trap = SPEC_NOTRAP;
  r = c07const_i64glob143(&inst);
  OBL(g_spec_trap == SPEC_NOTRAP, "i64glob143: returned normally only if the specification does not trap");
  OBL((U64)r == 0x8000000000000001ull, "i64glob143: the i64 immediate 0x8000000000000001 as a global initialiser denotes exactly this bit pattern");
  CANARY("i64glob143 returns");
}
void h_i64body144(void) {
  U64 r;
  g_libm_calls = 0;
  g_spec_trap = SPEC_NOTRAP;
  r = c07const_i64body144(&inst);
  OBL(g_spec_trap == SPEC_NOTRAP, "i64body144: returned normally only if the specification does not trap");
  OBL((U64)r == 0x0000000100000000ull, "i64body144: the i64 immediate 0x100000000 in a function body denotes exactly this bit pattern after translation to C text");
  CANARY("i64body144 returns");
}
void h_i64glob144(void) {
  U64 r;
  g_libm_calls = 0;
  c07constInstantiate(&inst, 0);
  g_spec_trap = SPEC_NOTRAP;
  r = c07const_i64glob144(&inst);
  OBL(g_spec_trap == SPEC_NOTRAP, "i64glob144: returned normally only if the specification does not trap");
  OBL((U64)r == 0x0000000100000000ull, "i64glob144: the i64 immediate 0x100000000 as a global initialiser denotes exactly this bit pattern");
  CANARY("i64glob144 returns");
}
void h_i64body145(void) {
  U64 r;
  g_libm_calls = 0;
  g_spec_trap = SPEC_NOTRAP;
  r = c07const_i64body145(&inst);
  OBL(g_spec_trap == SPEC_NOTRAP, "i64body145: returned normally only if the specification does not trap");
  OBL((U64)r == 0x00000000FFFFFFFFull, "i64body145: the i64 immediate 0xFFFFFFFF in a function body denotes exactly this bit pattern after translation to C text");
  CANARY("i64body145 returns");
}
void h_i64glob145(void) {
  U64 r;
  g_libm_calls = 0;
  c07constInstantiate(&inst, 0);
  g_spec_trap = SPEC_NOTRAP;
  r = c07const_i64glob145(&inst);
  OBL(g_spec_trap == SPEC_NOTRAP, "i64glob145: returned normally only if the specification does not trap");
  OBL((U64)r == 0x00000000FFFFFFFFull, "i64glob145: the i64 immediate 0xFFFFFFFF as a global initialiser denotes exactly this bit pattern");
  CANARY("i64glob145 returns");
}
void h_i64body146(void) {
  U64 r;
  g_libm_calls = 0;
  g_spec_trap = SPEC_NOTRAP;
  r = c07const_i64body146(&inst);
  OBL(g_spec_trap == SPEC_NOTRAP, "i64body146: returned normally only if the specification does not trap");
  OBL((U64)r == 0xFFFFFFFF00000000ull, "i64body146: the i64 immediate 0xFFFFFFFF00000000 in a function body denotes exactly this bit pattern after translation to C text");
  CANARY("i64body146 returns");
}
void h_i64glob146(void) {
  U64 r;
  g_libm_calls = 0;
  c07constInstantiate(&inst, 0);
  g_spec_trap = SPEC_NOTRAP;
  r = c07const_i64glob146(&inst);
  OBL(g_spec_trap == SPEC_NOTRAP, "i64glob146: returned normally only if the specification does not trap");
  OBL((U64)r == 0xFFFFFFFF00000000ull, "i64glob146: the i64 immediate 0xFFFFFFFF00000000 as a global initialiser denotes exactly this bit pattern");
  CANARY("i64glob146 returns");
}
void h_i64body147(void) {
  U64 r;
  g_libm_calls = 0;
  g_spec_trap = SPEC_NOTRAP;
  r = c07const_i64body147(&inst);
  OBL(g_spec_trap == SPEC_NOTRAP, "i64body147: returned normally only if the specification does not trap");
  OBL((U64)r == 0x123456789ABCDEF0ull, "i64body147: the i64 immediate 0x123456789ABCDEF0 in a function body denotes exactly this bit pattern after translation to C text");
  CANARY("i64body147 returns");
}
void h_i64glob147(void) {
  U64 r;
  g_libm_calls = 0;
  c07constInstantiate(&inst, 0);
  g_spec_trap = SPEC_NOTRAP;
  r = c07const_i64glob147(&inst);
  OBL(g_spec_trap == SPEC_NOTRAP, "i64glob147: returned normally only if the specification does not trap");
  OBL((U64)r == 0x123456789ABCDEF0ull, "i64glob147: the i64 immediate 0x123456789ABCDEF0 as a global initialiser denotes exactly this bit pattern");
  CANARY("i64glob147 returns");
}
void h_i64body148(void) {
  U64 r;
  g_libm_calls = 0;
  g_spec_trap = SPEC_NOTRAP;
  r = c07const_i64body148(&inst);
  OBL(g_spec_trap == SPEC_NOTRAP, "i64body148: returned normally only if the specification does not trap");
  OBL((U64)r == 0x97B750923CEB3FFDull, "i64body148: the i64 immediate 0x97B750923CEB3FFD in a function body denotes exactly this bit pattern after translation to C text");
  CANARY("i64body148 returns");
}
void h_i64glob148(void) {
  U64 r;
  g_libm_calls = 0;
  c07constInstantiate(&inst, 0);
  g_spec_trap = SPEC_NOTRAP;
  r = c07const_i64glob148(&inst);
  OBL(g_spec_trap == SPEC_NOTRAP, "i64glob148: returned normally only if the specification does not trap");
  OBL((U64)r == 0x97B750923CEB3FFDull, "i64glob148: the i64 immediate 0x97B750923CEB3FFD as a global initialiser denotes exactly this bit pattern");
  CANARY("i64glob148 returns");
}
void h_i64body149(void) {
  U64 r;
  g_libm_calls = 0;
  g_spec_trap = SPEC_NOTRAP;
  r = c07const_i64body149(&inst);
  OBL(g_spec_trap == SPEC_NOTRAP, "i64body149: returned normally only if the specification does not trap");
  OBL((U64)r == 0x216363698B529B4Aull, "i64body149: the i64 immediate 0x216363698B529B4A in a function body denotes exactly this bit pattern after translation to C text");
  CANARY("i64body149 returns");
}
void h_i64glob149(void) {
  U64 r;
  g_libm_calls = 0;
  c07constInstantiate(&inst, 0);
  g_spec_trap = SPEC_NOTRAP;
  r = c07const_i64glob149(&inst);
  OBL(g_spec_trap == SPEC_NOTRAP, "i64glob149: returned normally only if the specification does not trap");
  OBL((U64)r == 0x216363698B529B4Aull, "i64glob149: the i64 immediate 0x216363698B529B4A as a global initialiser denotes exactly this bit pattern");
  CANARY("i64glob149 returns");
}
void h_i64body150(void) {
  U64 r;
  g_libm_calls = 0;
  g_spec_trap = SPEC_NOTRAP;
  r = c07const_i64body150(&inst);
  OBL(g_spec_trap == SPEC_NOTRAP, "i64body150: returned normally only if the specification does not trap");
  OBL((U64)r == 0xEA7B5BF55EB561A4ull, "i64body150: the i64 immediate 0xEA7B5BF55EB561A4 in a function body denotes exactly this bit pattern after translation to C text");
  CANARY("i64body150 returns");
}
void h_i64glob150(void) {
  U64 r;
  g_libm_calls = 0;
  c07constInstantiate(&inst, 0);
  g_spec_trap = SPEC_NOTRAP;
  r = c07const_i64glob150(&inst);
  OBL(g_spec_trap == SPEC_NOTRAP, "i64glob150: returned normally only if the specification does not trap");
  OBL((U64)r == 0xEA7B5BF55EB561A4ull, "i64glob150: the i64 immediate 0xEA7B5BF55EB561A4 as a global initialiser denotes exactly this bit pattern");
  CANARY("i64glob150 returns");
}
void h_i64body151(void) {
  U64 r;
  g_libm_calls = 0;
  g_spec_trap = SPEC_NOTRAP;
  r = c07const_i64body151(&inst);
  OBL(g_spec_trap == SPEC_NOTRAP, "i64body151: returned normally only if the specification does not trap");
  OBL((U64)r == 0x795B929E9A9A80FDull, "i64body151: the i64 immediate 0x795B929E9A9A80FD in a function body denotes exactly this bit pattern after translation to C text");
  CANARY("i64body151 returns");
}
void h_i64glob151(void) {
  U64 r;
  g_libm_calls = 0;
  c07constInstantiate(&inst, 0);
  g_spec_trap = SPEC_NOTRAP;
  r = c07const_i64glob151(&inst);
  OBL(g_spec_trap == SPEC_NOTRAP, "i64glob151: returned normally only if the specification does not trap");
  OBL((U64)r == 0x795B929E9A9A80FDull, "i64glob151: the i64 immediate 0x795B929E9A9A80FD as a global initialiser denotes exactly this bit pattern");
  CANARY("i64glob151 returns");
}
void h_i64body152(void) {
  U64 r;
  g_libm_calls = 0;
  g_spec_trap = SPEC_NOTRAP;
  r = c07const_i64body152(&inst);
  OBL(g_spec_trap == SPEC_NOTRAP, "i64body152: returned normally only if the specification does not trap");
  OBL((U64)r == 0x94B2B8FDA02F34A6ull, "i64body152: the i64 immediate 0x94B2B8FDA02F34A6 in a function body denotes exactly this bit pattern after translation to C text");
  CANARY("i64body152 returns");
}
void h_i64glob152(void) {
  U64 r;
  g_libm_calls = 0;
  c07constInstantiate(&inst, 0);
  g_spec_trap = SPEC_NOTRAP;
  r = c07const_i64glob152(&inst);
  OBL(g_spec_trap == SPEC_NOTRAP, "i64glob152: returned normally only if the specification does not trap");
  OBL((U64)r == 0x94B2B8FDA02F34A6ull, "i64glob152: the i64 immediate 0x94B2B8FDA02F34A6 as a global initialiser denotes exactly this bit pattern");
  CANARY("i64glob152 returns");
}
void h_i64body153(void) {
  U64 r;
  g_libm_calls = 0;
  g_spec_trap = SPEC_NOTRAP;
  r = c07const_i64body153(&inst);
  OBL(g_spec_trap == SPEC_NOTRAP, "i64body153: returned normally only if the specification does not trap");
  OBL((U64)r == 0x9B08923D10C67FD9ull, "i64body153: the i64 immediate 0x9B08923D10C67FD9 in a function body denotes exactly this bit pattern after translation to C text");
  CANARY("i64body153 returns");
}
void h_i64glob153(void) {
  U64 r;
  g_libm_calls = 0;
  c07constInstantiate(&inst, 0);
  g_spec_trap = SPEC_NOTRAP;
  r = c07const_i64glob153(&inst);
  OBL(g_spec_trap == SPEC_NOTRAP, "i64glob153: returned normally only if the specification does not trap");
  OBL((U64)r == 0x9B08923D10C67FD9ull, "i64glob153: the i64 immediate 0x9B08923D10C67FD9 as a global initialiser denotes exactly this bit pattern");
  CANARY("i64glob153 returns");
}
void h_i64body154(void) {
  U64 r;
  g_libm_calls = 0;
  g_spec_trap = SPEC_NOTRAP;
  r = c07const_i64body154(&inst);
  OBL(g_spec_trap == SPEC_NOTRAP, "i64body154: returned normally only if the specification does not trap");
  OBL((U64)r == 0xE8A8529F035EFA25ull, "i64body154: the i64 immediate 0xE8A8529F035EFA25 in a function body denotes exactly this bit pattern after translation to C text");
  CANARY("i64body154 returns");
}
void h_i64glob154(void) {
  U64 r;
  g_libm_calls = 0;
  c07constInstantiate(&inst, 0);
  g_spec_trap = SPEC_NOTRAP;
  r = c07const_i64glob154(&inst);
  OBL(g_spec_trap == SPEC_NOTRAP, "i64glob154: returned normally only if the specification does not trap");
  OBL((U64)r == 0xE8A8529F035EFA25ull, "i64glob154: the i64 immediate 0xE8A8529F035EFA25 as a global initialiser denotes exactly this bit pattern");
  CANARY("i64glob154 returns");
}
void h_i64body155(void) {
  U64 r;
  g_libm_calls = 0;
  g_spec_trap = SPEC_NOTRAP;
  r = c07const_i64body155(&inst);
  OBL(g_spec_trap == SPEC_NOTRAP, "i64body155: returned normally only if the specification does not trap");
  OBL((U64)r == 0x781F9C58D6645FA9ull, "i64body155: the i64 immediate 0x781F9C58D6645FA9 in a function body denotes exactly this bit pattern after translation to C text");
  CANARY("i64body155 returns");
}
void h_i64glob155(void) {
  U64 r;
  g_libm_calls = 0;
  c07constInstantiate(&inst, 0);
  g_spec_trap = SPEC_NOTRAP;
  r = c07const_i64glob155(&inst);
  OBL(g_spec_trap == SPEC_NOTRAP, "i64glob155: returned normally only if the specification does not trap");
  OBL((U64)r == 0x781F9C58D6645FA9ull, "i64glob155: the i64 immediate 0x781F9C58D6645FA9 as a global initialiser denotes exactly this bit pattern");
  CANARY("i64glob155 returns");
}
void h_segoffsets(void) {
  U32 r;
  g_libm_calls = 0;
  c07constInstantiate(&inst, 0);
  g_spec_trap = SPEC_NOTRAP;
  r = c07const_segoffsets(&inst);
  OBL(g_spec_trap == SPEC_NOTRAP, "segoffsets: returned normally only if the specification does not trap");
  OBL(((r) == (0u)), "segoffsets: result equals the specified value");
  OBL(inst.m0->data[0] == 0xA0 && inst.m0->data[1] == 0xA1 && inst.m0->data[65535] == 0xA2 && inst.m0->data[4096] == 0xA3, "segoffsets: i32 constants used as data-segment offsets place the segments at exactly these addresses");
  CANARY("segoffsets returns");
}
