/* Names in generated C: the two identifier escapers of the real w2c2/c.c - wasmCWriteFileEscaped (declarations, written to the FILE)
 * and wasmCWriteStringEscaped (uses inside function bodies, written to the string builder) - must produce the SAME text for every
 * name, that text must be a C identifier fragment, and neither may read outside the name.
 * Both output channels are event recorders; events are compared one to one (a character, the literal "__", or a byte printed in hex:
 * "%02X" of an unsigned value v prints exactly the two digits that stringBuilderAppendCharHex prints iff v < 256 - contract SB.charhex of C10). */
#include <stdio.h>
#include <stdlib.h>
#include <string.h>
#include <ctype.h>
#include "vh.h"
enum { F_CHR = 1, F_STR, F_HEX };
typedef struct FEv { int kind; unsigned long long v; const char* s; } FEv;
#define F_MAX 8
static FEv g_f[F_MAX]; static int g_f_n, g_f_bad;
static void f_ev(int kind, unsigned long long v, const char* s) { if (g_f_n < F_MAX) { g_f[g_f_n].kind = kind; g_f[g_f_n].v = v; g_f[g_f_n].s = s; g_f_n++; } else g_f_bad = 1; }
static int vh_fputc(int c, FILE* f) { (void)f; f_ev(F_CHR, (unsigned char)c, 0); return c; }
static int vh_fputs(const char* s, FILE* f) { (void)f; f_ev(F_STR, 0, s); return 0; }
/* fprintf: arguments are captured BY VALUE through the macro below (value-preserving conversion to long long = what default argument promotion keeps) */
static int vh_fpr(FILE* f, const char* fmt, long long a, long long b) { (void)f;
    if (fmt[0] == '%' && fmt[1] == 'c' && fmt[2] == '%' && fmt[3] == '0' && fmt[4] == '2' && fmt[5] == 'X' && fmt[6] == 0) { f_ev(F_CHR, (unsigned char)a, 0); f_ev(F_HEX, (unsigned)b, 0); }
    else g_f_bad = 1;
    return 0; }
#define VH_FPR_(s, fmt, a, b, ...) vh_fpr(s, fmt, (long long)(a), (long long)(b))
#define fprintf(s, ...) VH_FPR_(s, __VA_ARGS__, 0, 0, 0)
#define fputc vh_fputc
#define fputs vh_fputs
/* <ctype.h> of the "C" locale as a function (glibc's table lookup has no body for CBMC): only ASCII letters and digits are alphanumeric */
static int vh_isalnum(int c) { return (c >= '0' && c <= '9') || (c >= 'A' && c <= 'Z') || (c >= 'a' && c <= 'z'); }
#ifdef VERIF_CBMC
#undef isalnum
#define isalnum(c) vh_isalnum(c)
#endif
#include "c.c"
#undef fprintf
#undef fputc
#undef fputs
#define SB_MAX 8
#include "sb_recorder.h"
#ifndef NLEN
#define NLEN 2
#endif
static int ident_char(unsigned long long c) { return (c >= '0' && c <= '9') || (c >= 'A' && c <= 'Z') || (c >= 'a' && c <= 'z') || c == '_'; }
static int is_uu(const char* s, size_t n) { return n == 2 && s[0] == '_' && s[1] == '_'; }
void h_escape(void) { ND_ARR(char, chars, NLEN); char* name; StringBuilder sb; unsigned i; bool ok;
    name = malloc(NLEN + 1); ASSUME(name != 0);              /* exactly as long as the name: any read outside it is an error */
    for (i = 0; i < NLEN; i++) { ASSUME(chars[i] != 0); name[i] = chars[i]; }
    name[NLEN] = 0;
    g_f_n = 0; g_f_bad = 0; g_sb_n = 0;
    wasmCWriteFileEscaped((FILE*)0, name);
    ok = wasmCWriteStringEscaped(&sb, name);
    OBL(ok && !g_f_bad && !g_sb_overflow, "escaping: succeeds with the modelled output calls only");
    OBL(g_f_n == g_sb_n, "escaping: declarations (FILE) and uses (string builder) get the same number of pieces");
    for (i = 0; i < F_MAX; i++) if (i < (unsigned)g_f_n && i < (unsigned)g_sb_n) {
        int same = (g_f[i].kind == F_CHR && g_sb[i].kind == SB_CHR && g_f[i].v == g_sb[i].bits)
                || (g_f[i].kind == F_STR && g_sb[i].kind == SB_STR && is_uu(g_f[i].s, strlen(g_f[i].s)) && is_uu(g_sb[i].str, g_sb[i].len))
                || (g_f[i].kind == F_HEX && g_sb[i].kind == SB_CHARHEX && g_f[i].v == g_sb[i].bits);
        OBL(same, "escaping: the name written into declarations and the name written at its uses are the same text for EVERY byte value (also >= 0x80: UTF-8)");
        OBL(g_f[i].kind != F_CHR || ident_char(g_f[i].v), "escaping: only identifier characters are written unescaped");
        OBL(g_f[i].kind != F_HEX || g_f[i].v < 256, "escaping: an escaped byte is printed as exactly two hexadecimal digits");
    }
    CANARY("escape"); }

/* ---- injectivity of the identifier mangling: two different names must not become the same C identifier (else two imports share one
 * host symbol, or two exports one wrapper).  Names are rendered from the string-side events (the FILE side agrees: h_escape). ---- */
#define TXT_MAX 16
typedef struct Txt { char c[TXT_MAX]; int n; int bad; } Txt;
static void txt_put(Txt* t, int ch) { if (t->n < TXT_MAX) t->c[t->n++] = (char)ch; else t->bad = 1; }
static void txt_events(Txt* t, int from) { int i;
    for (i = from; i < SB_MAX; i++) if (i < g_sb_n) {
        if (g_sb[i].kind == SB_CHR) txt_put(t, (int)g_sb[i].bits);
        else if (g_sb[i].kind == SB_STR && is_uu(g_sb[i].str, g_sb[i].len)) { txt_put(t, '_'); txt_put(t, '_'); }
        else if (g_sb[i].kind == SB_CHARHEX) { txt_put(t, "0123456789ABCDEF"[(g_sb[i].bits >> 4) & 15]); txt_put(t, "0123456789ABCDEF"[g_sb[i].bits & 15]); }
        else t->bad = 1; } }
static void mangle(Txt* t, const char* name) { StringBuilder sb; bool ok; g_sb_n = 0; ok = wasmCWriteStringEscaped(&sb, name); ASSUME(ok && !g_sb_overflow); txt_events(t, 0); }
static int txt_eq(const Txt* a, const Txt* b) { int i; if (a->n != b->n) return 0; for (i = 0; i < TXT_MAX; i++) if (i < a->n && a->c[i] != b->c[i]) return 0; return 1; }
#ifndef ILEN
#define ILEN 2
#endif
static void mk_name(char* d, unsigned* len) { ND_ARR(char, ch, ILEN); ND(unsigned, n); unsigned i; ASSUME(n <= ILEN); for (i = 0; i < ILEN; i++) { if (i < n) ASSUME(ch[i] != 0); d[i] = i < n ? ch[i] : 0; } d[ILEN] = 0; *len = n; }
static int same_name(const char* a, const char* b) { unsigned i; for (i = 0; i <= ILEN; i++) if (a[i] != b[i]) return 0; return 1; }
void h_injective(void) { char a[ILEN + 1], b[ILEN + 1]; unsigned la, lb; Txt ta, tb;
    mk_name(a, &la); mk_name(b, &lb); ASSUME(!same_name(a, b));
    ta.n = 0; ta.bad = 0; tb.n = 0; tb.bad = 0; mangle(&ta, a); mangle(&tb, b);
    OBL(!ta.bad && !tb.bad, "mangling: output bounded");
    OBL(!txt_eq(&ta, &tb), "mangling: two different names never become the same identifier text (every byte value; the escape letter itself is escaped)");
    CANARY("injective"); }
/* import symbol = mangle(module) "__" mangle(name).  PAIR_CLASS 0: no module ends in '_' and no name starts with '_' ; 1: the complement */
#ifndef PAIR_CLASS
#define PAIR_CLASS 0
#endif
void h_injective_pair(void) { char m1[ILEN + 1], n1[ILEN + 1], m2[ILEN + 1], n2[ILEN + 1]; unsigned lm1, ln1, lm2, ln2; Txt t1, t2; int edge;
    mk_name(m1, &lm1); mk_name(n1, &ln1); mk_name(m2, &lm2); mk_name(n2, &ln2);
    ASSUME(!(same_name(m1, m2) && same_name(n1, n2)));
    edge = (lm1 > 0 && m1[lm1 - 1] == '_') || (lm2 > 0 && m2[lm2 - 1] == '_') || n1[0] == '_' || n2[0] == '_' || lm1 == 0 || lm2 == 0 || ln1 == 0 || ln2 == 0;
    ASSUME(PAIR_CLASS ? edge : !edge);
    t1.n = 0; t1.bad = 0; t2.n = 0; t2.bad = 0;
    mangle(&t1, m1); txt_put(&t1, '_'); txt_put(&t1, '_'); mangle(&t1, n1);
    mangle(&t2, m2); txt_put(&t2, '_'); txt_put(&t2, '_'); mangle(&t2, n2);
    OBL(!t1.bad && !t2.bad, "import symbols: output bounded");
    OBL(!txt_eq(&t1, &t2), "import symbols: two different (module, name) pairs never share one C symbol");
    CANARY("injective_pair"); }
