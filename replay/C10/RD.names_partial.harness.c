/* C10: the reader on ARBITRARY bytes (this is the truncation quantifier at function level: any proper prefix of a valid
 * file is one particular arbitrary byte string): no memory error, terminates, reports an error or succeeds. */
#include "reader.c"
#include "instruction.c"
#include "array.c"
#include "debug.c"
#include "sha1.c"
#include "section.c"
#include "opcode.c"
#include "valuetype.c"
#include "export.c"
#include "vh.h"
#include "wasm_int.h"
#include "trapstub.h"
#ifndef NBYTES
#define NBYTES 14
#endif
/* ENV qsort: insertion sort through the comparator (bounded by the array length) */
void qsort(void* base, size_t n, size_t sz, int (*cmp)(const void*, const void*)) {
    size_t i, j; char* b = (char*)base; char t[32];
    for (i = 1; i < n; i++) for (j = i; j > 0 && cmp(b + (j - 1) * sz, b + j * sz) > 0; j--) { memcpy(t, b + (j - 1) * sz, sz); memcpy(b + (j - 1) * sz, b + j * sz, sz); memcpy(b + j * sz, t, sz); }
}
void h_module_read(void) {
    ND_ARR(U8, bytes, NBYTES); ND(unsigned, len); ND(int, dbg); U8* b; unsigned i; WasmModuleReader r; static WasmModule m; WasmModuleReaderError* err = 0;
    ASSUME(len <= NBYTES);
    b = (U8*)malloc(8 + len); ASSUME(b != 0);                 /* exact-size object: any read past the end is a bounds violation */
    b[0] = 0; b[1] = 'a'; b[2] = 's'; b[3] = 'm'; b[4] = 1; b[5] = 0; b[6] = 0; b[7] = 0;
    for (i = 0; i < len; i++) b[8 + i] = bytes[i];
#ifdef SECTION_ID
    ASSUME(len >= 2); b[8] = SECTION_ID;                      /* a constant section id: the exploration goes into exactly one section reader */
#endif
    memset(&m, 0, sizeof m); memset(&r, 0, sizeof r); r.module = &m; r.debug = dbg ? true : false; r.buffer.data = b; r.buffer.length = 8 + len;
    wasmModuleRead(&r, &err);
    OBL(r.buffer.length <= 8 + len, "reader: never consumes more than the file holds");
    CANARY("module read returns");
}
/* one section reader called directly on arbitrary bytes (the module is empty, or prepared with SECTION_PREP) */
#ifdef SECTION_FN
void h_section(void) {
    ND_ARR(U8, bytes, NBYTES); ND(unsigned, len); ND(U32, size); U8* b; unsigned i; WasmModuleReader r; static WasmModule m; WasmModuleReaderError* err = 0;
    ASSUME(len <= NBYTES && size <= len);                     /* the dispatcher hands over a size that lies within the file (wasmModuleReadSection checks it) */
    b = (U8*)malloc(len ? len : 1); ASSUME(b != 0);
    for (i = 0; i < len; i++) b[i] = bytes[i];
    memset(&m, 0, sizeof m); memset(&r, 0, sizeof r); r.module = &m; r.debug = false; r.buffer.data = b; r.buffer.length = len;
#ifdef SECTION_PREP_FUNCTIONS
    { static WasmFunction fs[2]; ND(U32, nf); ASSUME(nf <= 2); m.functions.functions = fs; m.functions.count = nf; }
#endif
    SECTION_FN(&r, size, &err);
    OBL(r.buffer.length <= len, "section reader: never consumes more than the buffer holds");
    CANARY("section returns");
}
#endif
/* name / byte-vector primitives on arbitrary bytes */
void h_name_bytes(void) {
    ND_ARR(U8, bytes, NBYTES); ND(unsigned, len); ND(int, which); U8* b; unsigned i; Buffer buf; char* name = 0; Buffer out = {0, 0}; bool ok;
    ASSUME(len <= NBYTES);
    b = (U8*)malloc(len ? len : 1); ASSUME(b != 0);
    for (i = 0; i < len; i++) b[i] = bytes[i];
    buf.data = b; buf.length = len;
    if (which) { ok = wasmReadName(&buf, &name); OBL(!ok || (name != 0 && strlen(name) <= len), "wasmReadName: on success a terminated copy no longer than the input"); }
    else { ok = wasmReadBytes(&buf, &out); OBL(!ok || out.length <= len, "wasmReadBytes: on success a copy no longer than the input"); }
    OBL(buf.length <= len, "wasmReadName/Bytes: never consume more than the buffer holds (a declared length beyond the end is rejected)");
    CANARY("name_bytes returns");
}
/* function-name deduplication with a PARTIAL name set (unnamed functions have no name) */
void h_names(void) {
    static char n0[3], n1[3], n2[3]; char* names[3]; WasmNames fn; WasmModuleReaderError* err = 0; ND(int, has0); ND(int, has1); ND(int, has2); ND(unsigned, cnt);
    ND_ARR(char, c0, 3); ND_ARR(char, c1, 3); ND_ARR(char, c2, 3);
    ASSUME(cnt <= 3);
    memcpy(n0, c0, 3); memcpy(n1, c1, 3); memcpy(n2, c2, 3); n0[2] = n1[2] = n2[2] = 0;
    names[0] = has0 ? (char*)n0 : (char*)0; names[1] = has1 ? (char*)n1 : (char*)0; names[2] = has2 ? (char*)n2 : (char*)0;
    fn.names = names; fn.length = cnt;
    wasmFunctionNamesRemoveDuplicates(&fn, &err);
    OBL(cnt < 2 || !(has0 && has1 && strcmp(n0, n1) == 0) || (names[0] == 0 && names[1] == 0), "names: duplicate names are dropped");
    OBL(!(has0 && cnt >= 1) || names[0] == 0 || names[0] == n0, "names: a name is either kept or dropped, never replaced");
    CANARY("names returns");
}
