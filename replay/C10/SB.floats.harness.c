/* C10: memory safety of the real w2c2/stringbuilder.c (capacity arithmetic, NUL termination, local sprintf buffers)
 * with the ENV sprintf model; identifier escaping reaches stringBuilderAppendCharHex for every byte value. */
#include <stdio.h>
#include <stdlib.h>
#include <string.h>
#include "vh.h"
#include "sprintf_model.h"
#define sprintf(b, f, ...) VH_SPRINTF(b, f, __VA_ARGS__)
#include "stringbuilder.c"
#undef sprintf
#include "wasm_int.h"
#include "trapstub.h"

static void mk(StringBuilder* sb) { sb->string = 0; sb->length = 0; sb->capacity = 0; ASSUME(stringBuilderInitialize(sb)); }
void h_charhex(void) { ND(char, c); StringBuilder sb; bool ok; mk(&sb);
    ok = stringBuilderAppendCharHex(&sb, c);
    OBL(ok && sb.length == 2, "AppendCharHex: EVERY byte value (also >= 0x80, i.e. non-ASCII UTF-8 in names) is written as exactly two hexadecimal digits");
    OBL(sb.string[0] == "0123456789ABCDEF"[((unsigned char)c) >> 4] && sb.string[1] == "0123456789ABCDEF"[((unsigned char)c) & 15] && sb.string[2] == 0, "AppendCharHex: the two digits are the byte's value; the string stays terminated");
    CANARY("charhex"); }
#define H_INT(nm, T, call) void h_##nm(void) { ND(T, v); StringBuilder sb; bool ok; mk(&sb); ok = call(&sb, v); \
    OBL(ok && sb.string[sb.length] == 0 && sb.length + 1 <= sb.capacity && sb.length >= 1, #call ": for every value the local buffer suffices, the builder stays NUL-terminated and within capacity"); CANARY(#nm); }
H_INT(u32, U32, stringBuilderAppendU32) H_INT(i32, I32, stringBuilderAppendI32) H_INT(u64, U64, stringBuilderAppendU64) H_INT(i64, I64, stringBuilderAppendI64)
H_INT(u32hex, U32, stringBuilderAppendU32Hex) H_INT(u64hex, U64, stringBuilderAppendU64Hex)
/* (that the decimal text of AppendU32/I32/U64/I64 denotes the value is checked natively in tools/decimal_roundtrip.c: rendering and parsing back
 * - divide by ten, multiply by ten - did not finish on any installed solver, neither as parse-back nor against a second rendering) */
void h_floats(void) { ND(F32, f); ND(F64, g); StringBuilder sb; bool ok; mk(&sb);
    ok = stringBuilderAppendF32(&sb, f) && stringBuilderAppendF64(&sb, g);
    OBL(ok && sb.string[sb.length] == 0 && sb.length + 1 <= sb.capacity, "AppendF32/F64: the 32-byte buffers hold the longest %.9g / %.17g output");
    CANARY("floats"); }
void h_append_any(void) { ND_ARR(char, src, 4); ND(unsigned, n1); ND(unsigned, n2); StringBuilder sb; bool ok; mk(&sb);
    ASSUME(n1 <= 4 && n2 <= 4);
    ok = stringBuilderAppendSized(&sb, src, n1) && stringBuilderAppendChar(&sb, 'x') && stringBuilderAppendSized(&sb, src, n2);
    OBL(ok && sb.length == n1 + 1 + n2 && sb.string[sb.length] == 0 && sb.length + 1 <= sb.capacity, "AppendSized/AppendChar: length accounting, termination and capacity growth are consistent for every length");
    CANARY("append"); }
