#include "vh.h"
#include "c11flt.c"
#include "wasm_int.h"
#include "wasm_float.h"
#include "libm_markers.h"
#include "trapstub.h"
static c11fltInstance inst;
void h_f32addc0(void) {
  ND(F32, a0);
  ND(F32, a1);
  F32 r;
  g_libm_calls = 0;
  g_spec_trap = SPEC_NOTRAP;
  r = c11flt_f32addc0(&inst, a0, a1);
  OBL(g_spec_trap == SPEC_NOTRAP, "f32addc0: returned normally only if the specification does not trap");
  { F32 s_ = spec_f32_add(a0, a1);
  OBL(spec_isnan32(spec_f32_bits(s_)) || spec_f32_bits(r) == spec_f32_bits(s_), "f32addc0: a non-NaN specified result is delivered bit-exactly");
  OBL(!spec_isnan32(spec_f32_bits(s_)) || spec_isnan32(spec_f32_bits(r)), "f32addc0: the result is a NaN where the specification yields a NaN"); }
  OBL(g_libm_calls == 0, "f32addc0: no library call is involved");
  CANARY("f32addc0 returns");
}
void h_f32subc0(void) {
  ND(F32, a0);
  ND(F32, a1);
  F32 r;
  g_libm_calls = 0;
  g_spec_trap = SPEC_NOTRAP;
  r = c11flt_f32subc0(&inst, a0, a1);
  OBL(g_spec_trap == SPEC_NOTRAP, "f32subc0: returned normally only if the specification does not trap");
  { F32 s_ = spec_f32_sub(a0, a1);
  OBL(spec_isnan32(spec_f32_bits(s_)) || spec_f32_bits(r) == spec_f32_bits(s_), "f32subc0: a non-NaN specified result is delivered bit-exactly");
  OBL(!spec_isnan32(spec_f32_bits(s_)) || spec_isnan32(spec_f32_bits(r)), "f32subc0: the result is a NaN where the specification yields a NaN"); }
  OBL(g_libm_calls == 0, "f32subc0: no library call is involved");
  CANARY("f32subc0 returns");
}
void h_f32mulc0(void) {
  ND(F32, a0);
  ND(F32, a1);
  F32 r;
  g_libm_calls = 0;
  g_spec_trap = SPEC_NOTRAP;
  r = c11flt_f32mulc0(&inst, a0, a1);
  OBL(g_spec_trap == SPEC_NOTRAP, "f32mulc0: returned normally only if the specification does not trap");
  { F32 s_ = spec_f32_mul(a0, a1);
  OBL(spec_isnan32(spec_f32_bits(s_)) || spec_f32_bits(r) == spec_f32_bits(s_), "f32mulc0: a non-NaN specified result is delivered bit-exactly");
  OBL(!spec_isnan32(spec_f32_bits(s_)) || spec_isnan32(spec_f32_bits(r)), "f32mulc0: the result is a NaN where the specification yields a NaN"); }
  OBL(g_libm_calls == 0, "f32mulc0: no library call is involved");
  CANARY("f32mulc0 returns");
}
void h_f32divc0(void) {
  ND(F32, a0);
  ND(F32, a1);
  F32 r;
  g_libm_calls = 0;
  g_spec_trap = SPEC_NOTRAP;
  r = c11flt_f32divc0(&inst, a0, a1);
  OBL(g_spec_trap == SPEC_NOTRAP, "f32divc0: returned normally only if the specification does not trap");
  { F32 s_ = spec_f32_div(a0, a1);
  OBL(spec_isnan32(spec_f32_bits(s_)) || spec_f32_bits(r) == spec_f32_bits(s_), "f32divc0: a non-NaN specified result is delivered bit-exactly");
  OBL(!spec_isnan32(spec_f32_bits(s_)) || spec_isnan32(spec_f32_bits(r)), "f32divc0: the result is a NaN where the specification yields a NaN"); }
  OBL(g_libm_calls == 0, "f32divc0: no library call is involved");
  CANARY("f32divc0 returns");
}
void h_f32minc0(void) {
  ND(F32, a0);
  ND(F32, a1);
  F32 r;
  g_libm_calls = 0;
  g_spec_trap = SPEC_NOTRAP;
  r = c11flt_f32minc0(&inst, a0, a1);
  OBL(g_spec_trap == SPEC_NOTRAP, "f32minc0: returned normally only if the specification does not trap");
  { F32 s_ = spec_f32_min(a0, a1);
  OBL(spec_isnan32(spec_f32_bits(s_)) || spec_f32_bits(r) == spec_f32_bits(s_), "f32minc0: a non-NaN specified result is delivered bit-exactly");
  OBL(!spec_isnan32(spec_f32_bits(s_)) || spec_isnan32(spec_f32_bits(r)), "f32minc0: the result is a NaN where the specification yields a NaN"); }
  OBL(g_libm_calls == 0, "f32minc0: no library call is involved");
  CANARY("f32minc0 returns");
}
void h_f32maxc0(void) {
  ND(F32, a0);
  ND(F32, a1);
  F32 r;
  g_libm_calls = 0;
  g_spec_trap = SPEC_NOTRAP;
  r = c11flt_f32maxc0(&inst, a0, a1);
  OBL(g_spec_trap == SPEC_NOTRAP, "f32maxc0: returned normally only if the specification does not trap");
  { F32 s_ = spec_f32_max(a0, a1);
  OBL(spec_isnan32(spec_f32_bits(s_)) || spec_f32_bits(r) == spec_f32_bits(s_), "f32maxc0: a non-NaN specified result is delivered bit-exactly");
  OBL(!spec_isnan32(spec_f32_bits(s_)) || spec_isnan32(spec_f32_bits(r)), "f32maxc0: the result is a NaN where the specification yields a NaN"); }
  OBL(g_libm_calls == 0, "f32maxc0: no library call is involved");
  CANARY("f32maxc0 returns");
}
void h_f32negc0(void) {
  ND(F32, a0);
  F32 r;
  g_libm_calls = 0;
  g_spec_trap = SPEC_NOTRAP;
  r = c11flt_f32negc0(&inst, a0);
  OBL(g_spec_trap == SPEC_NOTRAP, "f32negc0: returned normally only if the specification does not trap");
  OBL((vh_f32bits(r) == vh_f32bits(spec_f32_neg(a0))), "f32negc0: result equals the specified value");
  OBL(g_libm_calls == 0, "f32negc0: no library call is involved");
  CANARY("f32negc0 returns");
}
void h_f32ceilc0(void) {
  ND(F32, a0);
  F32 r;
  g_libm_calls = 0;
  g_spec_trap = SPEC_NOTRAP;
  r = c11flt_f32ceilc0(&inst, a0);
  OBL(g_spec_trap == SPEC_NOTRAP, "f32ceilc0: returned normally only if the specification does not trap");
  OBL(LIBM_USED_EXACTLY(LIBM_CEILF, vh_f32bits(a0), 0, vh_f32bits(r)), "f32ceilc0: exactly one call of the specified libm function on the operands' bits, result passed on bit-identically");
  CANARY("f32ceilc0 returns");
}
void h_f32floorc0(void) {
  ND(F32, a0);
  F32 r;
  g_libm_calls = 0;
  g_spec_trap = SPEC_NOTRAP;
  r = c11flt_f32floorc0(&inst, a0);
  OBL(g_spec_trap == SPEC_NOTRAP, "f32floorc0: returned normally only if the specification does not trap");
  OBL(LIBM_USED_EXACTLY(LIBM_FLOORF, vh_f32bits(a0), 0, vh_f32bits(r)), "f32floorc0: exactly one call of the specified libm function on the operands' bits, result passed on bit-identically");
  CANARY("f32floorc0 returns");
}
void h_f32truncc0(void) {
  ND(F32, a0);
  F32 r;
  g_libm_calls = 0;
  g_spec_trap = SPEC_NOTRAP;
  r = c11flt_f32truncc0(&inst, a0);
  OBL(g_spec_trap == SPEC_NOTRAP, "f32truncc0: returned normally only if the specification does not trap");
  OBL(LIBM_USED_EXACTLY(LIBM_TRUNCF, vh_f32bits(a0), 0, vh_f32bits(r)), "f32truncc0: exactly one call of the specified libm function on the operands' bits, result passed on bit-identically");
  CANARY("f32truncc0 returns");
}
void h_f32nearestc0(void) {
  ND(F32, a0);
  F32 r;
  g_libm_calls = 0;
  g_spec_trap = SPEC_NOTRAP;
  r = c11flt_f32nearestc0(&inst, a0);
  OBL(g_spec_trap == SPEC_NOTRAP, "f32nearestc0: returned normally only if the specification does not trap");
  OBL(LIBM_USED_EXACTLY(LIBM_NEARBYINTF, vh_f32bits(a0), 0, vh_f32bits(r)), "f32nearestc0: exactly one call of the specified libm function on the operands' bits, result passed on bit-identically");
  CANARY("f32nearestc0 returns");
}
void h_f32sqrtc0(void) {
  ND(F32, a0);
  F32 r;
  g_libm_calls = 0;
  g_spec_trap = SPEC_NOTRAP;
  r = c11flt_f32sqrtc0(&inst, a0);
  OBL(g_spec_trap == SPEC_NOTRAP, "f32sqrtc0: returned normally only if the specification does not trap");
  OBL(LIBM_USED_EXACTLY(LIBM_SQRTF, vh_f32bits(a0), 0, vh_f32bits(r)), "f32sqrtc0: exactly one call of the specified libm function on the operands' bits, result passed on bit-identically");
  CANARY("f32sqrtc0 returns");
}
void h_f32absc0(void) {
  ND(F32, a0);
  F32 r;
  g_libm_calls = 0;
  g_spec_trap = SPEC_NOTRAP;
  r = c11flt_f32absc0(&inst, a0);
  OBL(g_spec_trap == SPEC_NOTRAP, "f32absc0: returned normally only if the specification does not trap");
  OBL(LIBM_USED_EXACTLY(LIBM_FABSF, vh_f32bits(a0), 0, vh_f32bits(r)), "f32absc0: exactly one call of the specified libm function on the operands' bits, result passed on bit-identically");
  CANARY("f32absc0 returns");
}
void h_f32copysignc0(void) {
  ND(F32, a0);
  ND(F32, a1);
  F32 r;
  g_libm_calls = 0;
  g_spec_trap = SPEC_NOTRAP;
  r = c11flt_f32copysignc0(&inst, a0, a1);
  OBL(g_spec_trap == SPEC_NOTRAP, "f32copysignc0: returned normally only if the specification does not trap");
  OBL(LIBM_USED_EXACTLY(LIBM_COPYSIGNF, vh_f32bits(a0), vh_f32bits(a1), vh_f32bits(r)), "f32copysignc0: exactly one call of the specified libm function on the operands' bits, result passed on bit-identically");
  CANARY("f32copysignc0 returns");
}
void h_f32eqc0(void) {
  ND(F32, a0);
  ND(F32, a1);
  U32 r;
  g_libm_calls = 0;
  g_spec_trap = SPEC_NOTRAP;
  r = c11flt_f32eqc0(&inst, a0, a1);
  OBL(g_spec_trap == SPEC_NOTRAP, "f32eqc0: returned normally only if the specification does not trap");
  OBL(((r) == (spec_f32_eq(a0, a1))), "f32eqc0: result equals the specified value");
  OBL(g_libm_calls == 0, "f32eqc0: no library call is involved");
  CANARY("f32eqc0 returns");
}
void h_f32nec0(void) {
  ND(F32, a0);
  ND(F32, a1);
  U32 r;
  g_libm_calls = 0;
  g_spec_trap = SPEC_NOTRAP;
  r = c11flt_f32nec0(&inst, a0, a1);
  OBL(g_spec_trap == SPEC_NOTRAP, "f32nec0: returned normally only if the specification does not trap");
  OBL(((r) == (spec_f32_ne(a0, a1))), "f32nec0: result equals the specified value");
  OBL(g_libm_calls == 0, "f32nec0: no library call is involved");
  CANARY("f32nec0 returns");
}
void h_f32ltc0(void) {
  ND(F32, a0);
  ND(F32, a1);
  U32 r;
  g_libm_calls = 0;
  g_spec_trap = SPEC_NOTRAP;
  r = c11flt_f32ltc0(&inst, a0, a1);
  OBL(g_spec_trap == SPEC_NOTRAP, "f32ltc0: returned normally only if the specification does not trap");
  OBL(((r) == (spec_f32_lt(a0, a1))), "f32ltc0: result equals the specified value");
  OBL(g_libm_calls == 0, "f32ltc0: no library call is involved");
  CANARY("f32ltc0 returns");
}
void h_f32gtc0(void) {
  ND(F32, a0);
  ND(F32, a1);
  U32 r;
  g_libm_calls = 0;
  g_spec_trap = SPEC_NOTRAP;
  r = c11flt_f32gtc0(&inst, a0, a1);
  OBL(g_spec_trap == SPEC_NOTRAP, "f32gtc0: returned normally only if the specification does not trap");
  OBL(((r) == (spec_f32_gt(a0, a1))), "f32gtc0: result equals the specified value");
  OBL(g_libm_calls == 0, "f32gtc0: no library call is involved");
  CANARY("f32gtc0 returns");
}
void h_f32lec0(void) {
  ND(F32, a0);
  ND(F32, a1);
  U32 r;
  g_libm_calls = 0;
  g_spec_trap = SPEC_NOTRAP;
  r = c11flt_f32lec0(&inst, a0, a1);
  OBL(g_spec_trap == SPEC_NOTRAP, "f32lec0: returned normally only if the specification does not trap");
  OBL(((r) == (spec_f32_le(a0, a1))), "f32lec0: result equals the specified value");
  OBL(g_libm_calls == 0, "f32lec0: no library call is involved");
  CANARY("f32lec0 returns");
}
void h_f32gec0(void) {
  ND(F32, a0);
  ND(F32, a1);
  U32 r;
  g_libm_calls = 0;
  g_spec_trap = SPEC_NOTRAP;
  r = c11flt_f32gec0(&inst, a0, a1);
  OBL(g_spec_trap == SPEC_NOTRAP, "f32gec0: returned normally only if the specification does not trap");
  OBL(((r) == (spec_f32_ge(a0, a1))), "f32gec0: result equals the specified value");
  OBL(g_libm_calls == 0, "f32gec0: no library call is involved");
  CANARY("f32gec0 returns");
}
void h_f64addc0(void) {
  ND(F64, a0);
  ND(F64, a1);
  F64 r;
  g_libm_calls = 0;
  g_spec_trap = SPEC_NOTRAP;
  r = c11flt_f64addc0(&inst, a0, a1);
  OBL(g_spec_trap == SPEC_NOTRAP, "f64addc0: returned normally only if the specification does not trap");
  { F64 s_ = spec_f64_add(a0, a1);
  OBL(spec_isnan64(spec_f64_bits(s_)) || spec_f64_bits(r) == spec_f64_bits(s_), "f64addc0: a non-NaN specified result is delivered bit-exactly");
  OBL(!spec_isnan64(spec_f64_bits(s_)) || spec_isnan64(spec_f64_bits(r)), "f64addc0: the result is a NaN where the specification yields a NaN"); }
  OBL(g_libm_calls == 0, "f64addc0: no library call is involved");
  CANARY("f64addc0 returns");
}
void h_f64subc0(void) {
  ND(F64, a0);
  ND(F64, a1);
  F64 r;
  g_libm_calls = 0;
  g_spec_trap = SPEC_NOTRAP;
  r = c11flt_f64subc0(&inst, a0, a1);
  OBL(g_spec_trap == SPEC_NOTRAP, "f64subc0: returned normally only if the specification does not trap");
  { F64 s_ = spec_f64_sub(a0, a1);
  OBL(spec_isnan64(spec_f64_bits(s_)) || spec_f64_bits(r) == spec_f64_bits(s_), "f64subc0: a non-NaN specified result is delivered bit-exactly");
  OBL(!spec_isnan64(spec_f64_bits(s_)) || spec_isnan64(spec_f64_bits(r)), "f64subc0: the result is a NaN where the specification yields a NaN"); }
  OBL(g_libm_calls == 0, "f64subc0: no library call is involved");
  CANARY("f64subc0 returns");
}
void h_f64mulc0(void) {
  ND(F64, a0);
  ND(F64, a1);
  F64 r;
  g_libm_calls = 0;
  g_spec_trap = SPEC_NOTRAP;
  r = c11flt_f64mulc0(&inst, a0, a1);
  OBL(g_spec_trap == SPEC_NOTRAP, "f64mulc0: returned normally only if the specification does not trap");
  { F64 s_ = spec_f64_mul(a0, a1);
  OBL(spec_isnan64(spec_f64_bits(s_)) || spec_f64_bits(r) == spec_f64_bits(s_), "f64mulc0: a non-NaN specified result is delivered bit-exactly");
  OBL(!spec_isnan64(spec_f64_bits(s_)) || spec_isnan64(spec_f64_bits(r)), "f64mulc0: the result is a NaN where the specification yields a NaN"); }
  OBL(g_libm_calls == 0, "f64mulc0: no library call is involved");
  CANARY("f64mulc0 returns");
}
void h_f64divc0v(void) {
  ND(F64, a0);
  ND(F64, a1);
  F64 r;
  g_libm_calls = 0;
  ASSUME(!spec_isnan64(spec_f64_bits(spec_f64_div(a0, a1))));
  g_spec_trap = SPEC_NOTRAP;
  r = c11flt_f64divc0(&inst, a0, a1);
  OBL(g_spec_trap == SPEC_NOTRAP, "f64divc0v: returned normally only if the specification does not trap");
  { F64 s_ = spec_f64_div(a0, a1);
  OBL(spec_isnan64(spec_f64_bits(s_)) || spec_f64_bits(r) == spec_f64_bits(s_), "f64divc0v: a non-NaN specified result is delivered bit-exactly");
  OBL(!spec_isnan64(spec_f64_bits(s_)) || spec_isnan64(spec_f64_bits(r)), "f64divc0v: the result is a NaN where the specification yields a NaN"); }
  OBL(g_libm_calls == 0, "f64divc0v: no library call is involved");
  CANARY("f64divc0v returns");
}
void h_f64divc0n(void) {
  ND(F64, a0);
  ND(F64, a1);
  F64 r;
  g_libm_calls = 0;
  ASSUME(spec_isnan64(spec_f64_bits(spec_f64_div(a0, a1))));
  g_spec_trap = SPEC_NOTRAP;
  r = c11flt_f64divc0(&inst, a0, a1);
  OBL(g_spec_trap == SPEC_NOTRAP, "f64divc0n: returned normally only if the specification does not trap");
  { F64 s_ = spec_f64_div(a0, a1);
  OBL(spec_isnan64(spec_f64_bits(s_)) || spec_f64_bits(r) == spec_f64_bits(s_), "f64divc0n: a non-NaN specified result is delivered bit-exactly");
  OBL(!spec_isnan64(spec_f64_bits(s_)) || spec_isnan64(spec_f64_bits(r)), "f64divc0n: the result is a NaN where the specification yields a NaN"); }
  OBL(g_libm_calls == 0, "f64divc0n: no library call is involved");
  CANARY("f64divc0n returns");
}
void h_f64minc0(void) {
  ND(F64, a0);
  ND(F64, a1);
  F64 r;
  g_libm_calls = 0;
  g_spec_trap = SPEC_NOTRAP;
  r = c11flt_f64minc0(&inst, a0, a1);
  OBL(g_spec_trap == SPEC_NOTRAP, "f64minc0: returned normally only if the specification does not trap");
  { F64 s_ = spec_f64_min(a0, a1);
  OBL(spec_isnan64(spec_f64_bits(s_)) || spec_f64_bits(r) == spec_f64_bits(s_), "f64minc0: a non-NaN specified result is delivered bit-exactly");
  OBL(!spec_isnan64(spec_f64_bits(s_)) || spec_isnan64(spec_f64_bits(r)), "f64minc0: the result is a NaN where the specification yields a NaN"); }
  OBL(g_libm_calls == 0, "f64minc0: no library call is involved");
  CANARY("f64minc0 returns");
}
void h_f64maxc0(void) {
  ND(F64, a0);
  ND(F64, a1);
  F64 r;
  g_libm_calls = 0;
  g_spec_trap = SPEC_NOTRAP;
  r = c11flt_f64maxc0(&inst, a0, a1);
  OBL(g_spec_trap == SPEC_NOTRAP, "f64maxc0: returned normally only if the specification does not trap");
  { F64 s_ = spec_f64_max(a0, a1);
  OBL(spec_isnan64(spec_f64_bits(s_)) || spec_f64_bits(r) == spec_f64_bits(s_), "f64maxc0: a non-NaN specified result is delivered bit-exactly");
  OBL(!spec_isnan64(spec_f64_bits(s_)) || spec_isnan64(spec_f64_bits(r)), "f64maxc0: the result is a NaN where the specification yields a NaN"); }
  OBL(g_libm_calls == 0, "f64maxc0: no library call is involved");
  CANARY("f64maxc0 returns");
}
void h_f64negc0(void) {
  ND(F64, a0);
  F64 r;
  g_libm_calls = 0;
  g_spec_trap = SPEC_NOTRAP;
  r = c11flt_f64negc0(&inst, a0);
  OBL(g_spec_trap == SPEC_NOTRAP, "f64negc0: returned normally only if the specification does not trap");
  OBL((vh_f64bits(r) == vh_f64bits(spec_f64_neg(a0))), "f64negc0: result equals the specified value");
  OBL(g_libm_calls == 0, "f64negc0: no library call is involved");
  CANARY("f64negc0 returns");
}
void h_f64ceilc0(void) {
  ND(F64, a0);
  F64 r;
  g_libm_calls = 0;
  g_spec_trap = SPEC_NOTRAP;
  r = c11flt_f64ceilc0(&inst, a0);
  OBL(g_spec_trap == SPEC_NOTRAP, "f64ceilc0: returned normally only if the specification does not trap");
  OBL(LIBM_USED_EXACTLY(LIBM_CEIL, vh_f64bits(a0), 0, vh_f64bits(r)), "f64ceilc0: exactly one call of the specified libm function on the operands' bits, result passed on bit-identically");
  CANARY("f64ceilc0 returns");
}
void h_f64floorc0(void) {
  ND(F64, a0);
  F64 r;
  g_libm_calls = 0;
  g_spec_trap = SPEC_NOTRAP;
  r = c11flt_f64floorc0(&inst, a0);
  OBL(g_spec_trap == SPEC_NOTRAP, "f64floorc0: returned normally only if the specification does not trap");
  OBL(LIBM_USED_EXACTLY(LIBM_FLOOR, vh_f64bits(a0), 0, vh_f64bits(r)), "f64floorc0: exactly one call of the specified libm function on the operands' bits, result passed on bit-identically");
  CANARY("f64floorc0 returns");
}
void h_f64truncc0(void) {
  ND(F64, a0);
  F64 r;
  g_libm_calls = 0;
  g_spec_trap = SPEC_NOTRAP;
  r = c11flt_f64truncc0(&inst, a0);
  OBL(g_spec_trap == SPEC_NOTRAP, "f64truncc0: returned normally only if the specification does not trap");
  OBL(LIBM_USED_EXACTLY(LIBM_TRUNC, vh_f64bits(a0), 0, vh_f64bits(r)), "f64truncc0: exactly one call of the specified libm function on the operands' bits, result passed on bit-identically");
  CANARY("f64truncc0 returns");
}
void h_f64nearestc0(void) {
  ND(F64, a0);
  F64 r;
  g_libm_calls = 0;
  g_spec_trap = SPEC_NOTRAP;
  r = c11flt_f64nearestc0(&inst, a0);
  OBL(g_spec_trap == SPEC_NOTRAP, "f64nearestc0: returned normally only if the specification does not trap");
  OBL(LIBM_USED_EXACTLY(LIBM_NEARBYINT, vh_f64bits(a0), 0, vh_f64bits(r)), "f64nearestc0: exactly one call of the specified libm function on the operands' bits, result passed on bit-identically");
  CANARY("f64nearestc0 returns");
}
void h_f64sqrtc0(void) {
  ND(F64, a0);
  F64 r;
  g_libm_calls = 0;
  g_spec_trap = SPEC_NOTRAP;
  r = c11flt_f64sqrtc0(&inst, a0);
  OBL(g_spec_trap == SPEC_NOTRAP, "f64sqrtc0: returned normally only if the specification does not trap");
  OBL(LIBM_USED_EXACTLY(LIBM_SQRT, vh_f64bits(a0), 0, vh_f64bits(r)), "f64sqrtc0: exactly one call of the specified libm function on the operands' bits, result passed on bit-identically");
  CANARY("f64sqrtc0 returns");
}
void h_f64absc0(void) {
  ND(F64, a0);
  F64 r;
  g_libm_calls = 0;
  g_spec_trap = SPEC_NOTRAP;
  r = c11flt_f64absc0(&inst, a0);
  OBL(g_spec_trap == SPEC_NOTRAP, "f64absc0: returned normally only if the specification does not trap");
  OBL(LIBM_USED_EXACTLY(LIBM_FABS, vh_f64bits(a0), 0, vh_f64bits(r)), "f64absc0: exactly one call of the specified libm function on the operands' bits, result passed on bit-identically");
  CANARY("f64absc0 returns");
}
void h_f64copysignc0(void) {
  ND(F64, a0);
  ND(F64, a1);
  F64 r;
  g_libm_calls = 0;
  g_spec_trap = SPEC_NOTRAP;
  r = c11flt_f64copysignc0(&inst, a0, a1);
  OBL(g_spec_trap == SPEC_NOTRAP, "f64copysignc0: returned normally only if the specification does not trap");
  OBL(LIBM_USED_EXACTLY(LIBM_COPYSIGN, vh_f64bits(a0), vh_f64bits(a1), vh_f64bits(r)), "f64copysignc0: exactly one call of the specified libm function on the operands' bits, result passed on bit-identically");
  CANARY("f64copysignc0 returns");
}
void h_f64eqc0(void) {
  ND(F64, a0);
  ND(F64, a1);
  U32 r;
  g_libm_calls = 0;
  g_spec_trap = SPEC_NOTRAP;
  r = c11flt_f64eqc0(&inst, a0, a1);
  OBL(g_spec_trap == SPEC_NOTRAP, "f64eqc0: returned normally only if the specification does not trap");
  OBL(((r) == (spec_f64_eq(a0, a1))), "f64eqc0: result equals the specified value");
  OBL(g_libm_calls == 0, "f64eqc0: no library call is involved");
  CANARY("f64eqc0 returns");
}
void h_f64nec0(void) {
  ND(F64, a0);
  ND(F64, a1);
  U32 r;
  g_libm_calls = 0;
  g_spec_trap = SPEC_NOTRAP;
  r = c11flt_f64nec0(&inst, a0, a1);
  OBL(g_spec_trap == SPEC_NOTRAP, "f64nec0: returned normally only if the specification does not trap");
  OBL(((r) == (spec_f64_ne(a0, a1))), "f64nec0: result equals the specified value");
  OBL(g_libm_calls == 0, "f64nec0: no library call is involved");
  CANARY("f64nec0 returns");
}
void h_f64ltc0(void) {
  ND(F64, a0);
  ND(F64, a1);
  U32 r;
  g_libm_calls = 0;
  g_spec_trap = SPEC_NOTRAP;
  r = c11flt_f64ltc0(&inst, a0, a1);
  OBL(g_spec_trap == SPEC_NOTRAP, "f64ltc0: returned normally only if the specification does not trap");
  OBL(((r) == (spec_f64_lt(a0, a1))), "f64ltc0: result equals the specified value");
  OBL(g_libm_calls == 0, "f64ltc0: no library call is involved");
  CANARY("f64ltc0 returns");
}
void h_f64gtc0(void) {
  ND(F64, a0);
  ND(F64, a1);
  U32 r;
  g_libm_calls = 0;
  g_spec_trap = SPEC_NOTRAP;
  r = c11flt_f64gtc0(&inst, a0, a1);
  OBL(g_spec_trap == SPEC_NOTRAP, "f64gtc0: returned normally only if the specification does not trap");
  OBL(((r) == (spec_f64_gt(a0, a1))), "f64gtc0: result equals the specified value");
  OBL(g_libm_calls == 0, "f64gtc0: no library call is involved");
  CANARY("f64gtc0 returns");
}
void h_f64lec0(void) {
  ND(F64, a0);
  ND(F64, a1);
  U32 r;
  g_libm_calls = 0;
  g_spec_trap = SPEC_NOTRAP;
  r = c11flt_f64lec0(&inst, a0, a1);
  OBL(g_spec_trap == SPEC_NOTRAP, "f64lec0: returned normally only if the specification does not trap");
  OBL(((r) == (spec_f64_le(a0, a1))), "f64lec0: result equals the specified value");
  OBL(g_libm_calls == 0, "f64lec0: no library call is involved");
  CANARY("f64lec0 returns");
}
void h_f64gec0(void) {
  ND(F64, a0);
  ND(F64, a1);
  U32 r;
  g_libm_calls = 0;
  g_spec_trap = SPEC_NOTRAP;
  r = c11flt_f64gec0(&inst, a0, a1);
  OBL(g_spec_trap == SPEC_NOTRAP, "f64gec0: returned normally only if the specification does not trap");
  OBL(((r) == (spec_f64_ge(a0, a1))), "f64gec0: result equals the specified value");
  OBL(g_libm_calls == 0, "f64gec0: no library call is involved");
  CANARY("f64gec0 returns");
}
void h_i32truncf32sc0(void) {
  ND(F32, a0);
  U32 r;
  g_libm_calls = 0;
  g_spec_trap = spec_i32_trunc_f32_s_trap(a0);
  r = c11flt_i32truncf32sc0(&inst, a0);
  OBL(g_spec_trap == SPEC_NOTRAP, "i32truncf32sc0: returned normally only if the specification does not trap");
  OBL(((r) == (spec_i32_trunc_f32_s(a0))), "i32truncf32sc0: result equals the specified value");
  OBL(g_libm_calls == 0, "i32truncf32sc0: no library call is involved");
  CANARY("i32truncf32sc0 returns");
}
void h_i32truncsatf32sc0(void) {
  ND(F32, a0);
  U32 r;
  g_libm_calls = 0;
  g_spec_trap = SPEC_NOTRAP;
  r = c11flt_i32truncsatf32sc0(&inst, a0);
  OBL(g_spec_trap == SPEC_NOTRAP, "i32truncsatf32sc0: returned normally only if the specification does not trap");
  OBL(((r) == (spec_i32_trunc_sat_f32_s(a0))), "i32truncsatf32sc0: result equals the specified value");
  OBL(g_libm_calls == 0, "i32truncsatf32sc0: no library call is involved");
  CANARY("i32truncsatf32sc0 returns");
}
void h_f32converti32sc0(void) {
  ND(U32, a0);
  F32 r;
  g_libm_calls = 0;
  g_spec_trap = SPEC_NOTRAP;
  r = c11flt_f32converti32sc0(&inst, a0);
  OBL(g_spec_trap == SPEC_NOTRAP, "f32converti32sc0: returned normally only if the specification does not trap");
  { F32 s_ = spec_f32_convert_i32_s(a0);
  OBL(spec_isnan32(spec_f32_bits(s_)) || spec_f32_bits(r) == spec_f32_bits(s_), "f32converti32sc0: a non-NaN specified result is delivered bit-exactly");
  OBL(!spec_isnan32(spec_f32_bits(s_)) || spec_isnan32(spec_f32_bits(r)), "f32converti32sc0: the result is a NaN where the specification yields a NaN"); }
  OBL(g_libm_calls == 0, "f32converti32sc0: no library call is involved");
  CANARY("f32converti32sc0 returns");
}
void h_i32truncf32uc0(void) {
  ND(F32, a0);
  U32 r;
  g_libm_calls = 0;
  g_spec_trap = spec_i32_trunc_f32_u_trap(a0);
  r = c11flt_i32truncf32uc0(&inst, a0);
  OBL(g_spec_trap == SPEC_NOTRAP, "i32truncf32uc0: returned normally only if the specification does not trap");
  OBL(((r) == (spec_i32_trunc_f32_u(a0))), "i32truncf32uc0: result equals the specified value");
  OBL(g_libm_calls == 0, "i32truncf32uc0: no library call is involved");
  CANARY("i32truncf32uc0 returns");
}
void h_i32truncsatf32uc0(void) {
  ND(F32, a0);
  U32 r;
  g_libm_calls = 0;
  g_spec_trap = SPEC_NOTRAP;
  r = c11flt_i32truncsatf32uc0(&inst, a0);
  OBL(g_spec_trap == SPEC_NOTRAP, "i32truncsatf32uc0: returned normally only if the specification does not trap");
  OBL(((r) == (spec_i32_trunc_sat_f32_u(a0))), "i32truncsatf32uc0: result equals the specified value");
  OBL(g_libm_calls == 0, "i32truncsatf32uc0: no library call is involved");
  CANARY("i32truncsatf32uc0 returns");
}
void h_f32converti32uc0(void) {
  ND(U32, a0);
  F32 r;
  g_libm_calls = 0;
  g_spec_trap = SPEC_NOTRAP;
  r = c11flt_f32converti32uc0(&inst, a0);
  OBL(g_spec_trap == SPEC_NOTRAP, "f32converti32uc0: returned normally only if the specification does not trap");
  { F32 s_ = spec_f32_convert_i32_u(a0);
  OBL(spec_isnan32(spec_f32_bits(s_)) || spec_f32_bits(r) == spec_f32_bits(s_), "f32converti32uc0: a non-NaN specified result is delivered bit-exactly");
  OBL(!spec_isnan32(spec_f32_bits(s_)) || spec_isnan32(spec_f32_bits(r)), "f32converti32uc0: the result is a NaN where the specification yields a NaN"); }
  OBL(g_libm_calls == 0, "f32converti32uc0: no library call is involved");
  CANARY("f32converti32uc0 returns");
}
void h_i32truncf64sc0(void) {
  ND(F64, a0);
  U32 r;
  g_libm_calls = 0;
  g_spec_trap = spec_i32_trunc_f64_s_trap(a0);
  r = c11flt_i32truncf64sc0(&inst, a0);
  OBL(g_spec_trap == SPEC_NOTRAP, "i32truncf64sc0: returned normally only if the specification does not trap");
  OBL(((r) == (spec_i32_trunc_f64_s(a0))), "i32truncf64sc0: result equals the specified value");
  OBL(g_libm_calls == 0, "i32truncf64sc0: no library call is involved");
  CANARY("i32truncf64sc0 returns");
}
void h_i32truncsatf64sc0(void) {
  ND(F64, a0);
  U32 r;
  g_libm_calls = 0;
  g_spec_trap = SPEC_NOTRAP;
  r = c11flt_i32truncsatf64sc0(&inst, a0);
  OBL(g_spec_trap == SPEC_NOTRAP, "i32truncsatf64sc0: returned normally only if the specification does not trap");
  OBL(((r) == (spec_i32_trunc_sat_f64_s(a0))), "i32truncsatf64sc0: result equals the specified value");
  OBL(g_libm_calls == 0, "i32truncsatf64sc0: no library call is involved");
  CANARY("i32truncsatf64sc0 returns");
}
void h_f64converti32sc0(void) {
  ND(U32, a0);
  F64 r;
  g_libm_calls = 0;
  g_spec_trap = SPEC_NOTRAP;
  r = c11flt_f64converti32sc0(&inst, a0);
  OBL(g_spec_trap == SPEC_NOTRAP, "f64converti32sc0: returned normally only if the specification does not trap");
  { F64 s_ = spec_f64_convert_i32_s(a0);
  OBL(spec_isnan64(spec_f64_bits(s_)) || spec_f64_bits(r) == spec_f64_bits(s_), "f64converti32sc0: a non-NaN specified result is delivered bit-exactly");
  OBL(!spec_isnan64(spec_f64_bits(s_)) || spec_isnan64(spec_f64_bits(r)), "f64converti32sc0: the result is a NaN where the specification yields a NaN"); }
  OBL(g_libm_calls == 0, "f64converti32sc0: no library call is involved");
  CANARY("f64converti32sc0 returns");
}
void h_i32truncf64uc0(void) {
  ND(F64, a0);
  U32 r;
  g_libm_calls = 0;
  g_spec_trap = spec_i32_trunc_f64_u_trap(a0);
  r = c11flt_i32truncf64uc0(&inst, a0);
  OBL(g_spec_trap == SPEC_NOTRAP, "i32truncf64uc0: returned normally only if the specification does not trap");
  OBL(((r) == (spec_i32_trunc_f64_u(a0))), "i32truncf64uc0: result equals the specified value");
  OBL(g_libm_calls == 0, "i32truncf64uc0: no library call is involved");
  CANARY("i32truncf64uc0 returns");
}
void h_i32truncsatf64uc0(void) {
  ND(F64, a0);
  U32 r;
  g_libm_calls = 0;
  g_spec_trap = SPEC_NOTRAP;
  r = c11flt_i32truncsatf64uc0(&inst, a0);
  OBL(g_spec_trap == SPEC_NOTRAP, "i32truncsatf64uc0: returned normally only if the specification does not trap");
  OBL(((r) == (spec_i32_trunc_sat_f64_u(a0))), "i32truncsatf64uc0: result equals the specified value");
  OBL(g_libm_calls == 0, "i32truncsatf64uc0: no library call is involved");
  CANARY("i32truncsatf64uc0 returns");
}
void h_f64converti32uc0(void) {
  ND(U32, a0);
  F64 r;
  g_libm_calls = 0;
  g_spec_trap = SPEC_NOTRAP;
  r = c11flt_f64converti32uc0(&inst, a0);
  OBL(g_spec_trap == SPEC_NOTRAP, "f64converti32uc0: returned normally only if the specification does not trap");
  { F64 s_ = spec_f64_convert_i32_u(a0);
  OBL(spec_isnan64(spec_f64_bits(s_)) || spec_f64_bits(r) == spec_f64_bits(s_), "f64converti32uc0: a non-NaN specified result is delivered bit-exactly");
  OBL(!spec_isnan64(spec_f64_bits(s_)) || spec_isnan64(spec_f64_bits(r)), "f64converti32uc0: the result is a NaN where the specification yields a NaN"); }
  OBL(g_libm_calls == 0, "f64converti32uc0: no library call is involved");
  CANARY("f64converti32uc0 returns");
}
void h_i64truncf32sc0(void) {
  ND(F32, a0);
  U64 r;
  g_libm_calls = 0;
  g_spec_trap = spec_i64_trunc_f32_s_trap(a0);
  r = c11flt_i64truncf32sc0(&inst, a0);
  OBL(g_spec_trap == SPEC_NOTRAP, "i64truncf32sc0: returned normally only if the specification does not trap");
  OBL(((r) == (spec_i64_trunc_f32_s(a0))), "i64truncf32sc0: result equals the specified value");
  OBL(g_libm_calls == 0, "i64truncf32sc0: no library call is involved");
  CANARY("i64truncf32sc0 returns");
}
void h_i64truncsatf32sc0(void) {
  ND(F32, a0);
  U64 r;
  g_libm_calls = 0;
  g_spec_trap = SPEC_NOTRAP;
  r = c11flt_i64truncsatf32sc0(&inst, a0);
  OBL(g_spec_trap == SPEC_NOTRAP, "i64truncsatf32sc0: returned normally only if the specification does not trap");
  OBL(((r) == (spec_i64_trunc_sat_f32_s(a0))), "i64truncsatf32sc0: result equals the specified value");
  OBL(g_libm_calls == 0, "i64truncsatf32sc0: no library call is involved");
  CANARY("i64truncsatf32sc0 returns");
}
void h_f32converti64sc0(void) {
  ND(U64, a0);
  F32 r;
  g_libm_calls = 0;
  g_spec_trap = SPEC_NOTRAP;
  r = c11flt_f32converti64sc0(&inst, a0);
  OBL(g_spec_trap == SPEC_NOTRAP, "f32converti64sc0: returned normally only if the specification does not trap");
  { F32 s_ = spec_f32_convert_i64_s(a0);
  OBL(spec_isnan32(spec_f32_bits(s_)) || spec_f32_bits(r) == spec_f32_bits(s_), "f32converti64sc0: a non-NaN specified result is delivered bit-exactly");
  OBL(!spec_isnan32(spec_f32_bits(s_)) || spec_isnan32(spec_f32_bits(r)), "f32converti64sc0: the result is a NaN where the specification yields a NaN"); }
  OBL(g_libm_calls == 0, "f32converti64sc0: no library call is involved");
  CANARY("f32converti64sc0 returns");
}
void h_i64truncf32uc0(void) {
  ND(F32, a0);
  U64 r;
  g_libm_calls = 0;
  g_spec_trap = spec_i64_trunc_f32_u_trap(a0);
  r = c11flt_i64truncf32uc0(&inst, a0);
  OBL(g_spec_trap == SPEC_NOTRAP, "i64truncf32uc0: returned normally only if the specification does not trap");
  OBL(((r) == (spec_i64_trunc_f32_u(a0))), "i64truncf32uc0: result equals the specified value");
  OBL(g_libm_calls == 0, "i64truncf32uc0: no library call is involved");
  CANARY("i64truncf32uc0 returns");
}
void h_i64truncsatf32uc0(void) {
  ND(F32, a0);
  U64 r;
  g_libm_calls = 0;
  g_spec_trap = SPEC_NOTRAP;
  r = c11flt_i64truncsatf32uc0(&inst, a0);
  OBL(g_spec_trap == SPEC_NOTRAP, "i64truncsatf32uc0: returned normally only if the specification does not trap");
  OBL(((r) == (spec_i64_trunc_sat_f32_u(a0))), "i64truncsatf32uc0: result equals the specified value");
  OBL(g_libm_calls == 0, "i64truncsatf32uc0: no library call is involved");
  CANARY("i64truncsatf32uc0 returns");
}
void h_f32converti64uc0(void) {
  ND(U64, a0);
  F32 r;
  g_libm_calls = 0;
  g_spec_trap = SPEC_NOTRAP;
  r = c11flt_f32converti64uc0(&inst, a0);
  OBL(g_spec_trap == SPEC_NOTRAP, "f32converti64uc0: returned normally only if the specification does not trap");
  { F32 s_ = spec_f32_convert_i64_u(a0);
  OBL(spec_isnan32(spec_f32_bits(s_)) || spec_f32_bits(r) == spec_f32_bits(s_), "f32converti64uc0: a non-NaN specified result is delivered bit-exactly");
  OBL(!spec_isnan32(spec_f32_bits(s_)) || spec_isnan32(spec_f32_bits(r)), "f32converti64uc0: the result is a NaN where the specification yields a NaN"); }
  OBL(g_libm_calls == 0, "f32converti64uc0: no library call is involved");
  CANARY("f32converti64uc0 returns");
}
void h_i64truncf64sc0(void) {
  ND(F64, a0);
  U64 r;
  g_libm_calls = 0;
  g_spec_trap = spec_i64_trunc_f64_s_trap(a0);
  r = c11flt_i64truncf64sc0(&inst, a0);
  OBL(g_spec_trap == SPEC_NOTRAP, "i64truncf64sc0: returned normally only if the specification does not trap");
  OBL(((r) == (spec_i64_trunc_f64_s(a0))), "i64truncf64sc0: result equals the specified value");
  OBL(g_libm_calls == 0, "i64truncf64sc0: no library call is involved");
  CANARY("i64truncf64sc0 returns");
}
void h_i64truncsatf64sc0(void) {
  ND(F64, a0);
  U64 r;
  g_libm_calls = 0;
  g_spec_trap = SPEC_NOTRAP;
  r = c11flt_i64truncsatf64sc0(&inst, a0);
  OBL(g_spec_trap == SPEC_NOTRAP, "i64truncsatf64sc0: returned normally only if the specification does not trap");
  OBL(((r) == (spec_i64_trunc_sat_f64_s(a0))), "i64truncsatf64sc0: result equals the specified value");
  OBL(g_libm_calls == 0, "i64truncsatf64sc0: no library call is involved");
  CANARY("i64truncsatf64sc0 returns");
}
void h_f64converti64sc0(void) {
  ND(U64, a0);
  F64 r;
  g_libm_calls = 0;
  g_spec_trap = SPEC_NOTRAP;
  r = c11flt_f64converti64sc0(&inst, a0);
  OBL(g_spec_trap == SPEC_NOTRAP, "f64converti64sc0: returned normally only if the specification does not trap");
  { F64 s_ = spec_f64_convert_i64_s(a0);
  OBL(spec_isnan64(spec_f64_bits(s_)) || spec_f64_bits(r) == spec_f64_bits(s_), "f64converti64sc0: a non-NaN specified result is delivered bit-exactly");
  OBL(!spec_isnan64(spec_f64_bits(s_)) || spec_isnan64(spec_f64_bits(r)), "f64converti64sc0: the result is a NaN where the specification yields a NaN"); }
  OBL(g_libm_calls == 0, "f64converti64sc0: no library call is involved");
  CANARY("f64converti64sc0 returns");
}
void h_i64truncf64uc0(void) {
  ND(F64, a0);
  U64 r;
  g_libm_calls = 0;
  g_spec_trap = spec_i64_trunc_f64_u_trap(a0);
  r = c11flt_i64truncf64uc0(&inst, a0);
  OBL(g_spec_trap == SPEC_NOTRAP, "i64truncf64uc0: returned normally only if the specification does not trap");
  OBL(((r) == (spec_i64_trunc_f64_u(a0))), "i64truncf64uc0: result equals the specified value");
  OBL(g_libm_calls == 0, "i64truncf64uc0: no library call is involved");
  CANARY("i64truncf64uc0 returns");
}
void h_i64truncsatf64uc0(void) {
  ND(F64, a0);
  U64 r;
  g_libm_calls = 0;
  g_spec_trap = SPEC_NOTRAP;
  r = c11flt_i64truncsatf64uc0(&inst, a0);
  OBL(g_spec_trap == SPEC_NOTRAP, "i64truncsatf64uc0: returned normally only if the specification does not trap");
  OBL(((r) == (spec_i64_trunc_sat_f64_u(a0))), "i64truncsatf64uc0: result equals the specified value");
  OBL(g_libm_calls == 0, "i64truncsatf64uc0: no library call is involved");
  CANARY("i64truncsatf64uc0 returns");
}
void h_f64converti64uc0(void) {
  ND(U64, a0);
  F64 r;
  g_libm_calls = 0;
  g_spec_trap = SPEC_NOTRAP;
  r = c11flt_f64converti64uc0(&inst, a0);
  OBL(g_spec_trap == SPEC_NOTRAP, "f64converti64uc0: returned normally only if the specification does not trap");
  { F64 s_ = spec_f64_convert_i64_u(a0);
  OBL(spec_isnan64(spec_f64_bits(s_)) || spec_f64_bits(r) == spec_f64_bits(s_), "f64converti64uc0: a non-NaN specified result is delivered bit-exactly");
  OBL(!spec_isnan64(spec_f64_bits(s_)) || spec_isnan64(spec_f64_bits(r)), "f64converti64uc0: the result is a NaN where the specification yields a NaN"); }
  OBL(g_libm_calls == 0, "f64converti64uc0: no library call is involved");
  CANARY("f64converti64uc0 returns");
}
void h_f32demotef64c0(void) {
  ND(F64, a0);
  F32 r;
  g_libm_calls = 0;
  g_spec_trap = SPEC_NOTRAP;
  r = c11flt_f32demotef64c0(&inst, a0);
  OBL(g_spec_trap == SPEC_NOTRAP, "f32demotef64c0: returned normally only if the specification does not trap");
  { F32 s_ = spec_f32_demote_f64(a0);
  OBL(spec_isnan32(spec_f32_bits(s_)) || spec_f32_bits(r) == spec_f32_bits(s_), "f32demotef64c0: a non-NaN specified result is delivered bit-exactly");
  OBL(!spec_isnan32(spec_f32_bits(s_)) || spec_isnan32(spec_f32_bits(r)), "f32demotef64c0: the result is a NaN where the specification yields a NaN"); }
  OBL(g_libm_calls == 0, "f32demotef64c0: no library call is involved");
  CANARY("f32demotef64c0 returns");
}
void h_f64promotef32c0(void) {
  ND(F32, a0);
  F64 r;
  g_libm_calls = 0;
  g_spec_trap = SPEC_NOTRAP;
  r = c11flt_f64promotef32c0(&inst, a0);
  OBL(g_spec_trap == SPEC_NOTRAP, "f64promotef32c0: returned normally only if the specification does not trap");
  { F64 s_ = spec_f64_promote_f32(a0);
  OBL(spec_isnan64(spec_f64_bits(s_)) || spec_f64_bits(r) == spec_f64_bits(s_), "f64promotef32c0: a non-NaN specified result is delivered bit-exactly");
  OBL(!spec_isnan64(spec_f64_bits(s_)) || spec_isnan64(spec_f64_bits(r)), "f64promotef32c0: the result is a NaN where the specification yields a NaN"); }
  OBL(g_libm_calls == 0, "f64promotef32c0: no library call is involved");
  CANARY("f64promotef32c0 returns");
}
void h_i32reinterpretf32c0(void) {
  ND(F32, a0);
  U32 r;
  g_libm_calls = 0;
  g_spec_trap = SPEC_NOTRAP;
  r = c11flt_i32reinterpretf32c0(&inst, a0);
  OBL(g_spec_trap == SPEC_NOTRAP, "i32reinterpretf32c0: returned normally only if the specification does not trap");
  OBL(((r) == (spec_i32_reinterpret_f32(a0))), "i32reinterpretf32c0: result equals the specified value");
  OBL(g_libm_calls == 0, "i32reinterpretf32c0: no library call is involved");
  CANARY("i32reinterpretf32c0 returns");
}
void h_i64reinterpretf64c0(void) {
  ND(F64, a0);
  U64 r;
  g_libm_calls = 0;
  g_spec_trap = SPEC_NOTRAP;
  r = c11flt_i64reinterpretf64c0(&inst, a0);
  OBL(g_spec_trap == SPEC_NOTRAP, "i64reinterpretf64c0: returned normally only if the specification does not trap");
  OBL(((r) == (spec_i64_reinterpret_f64(a0))), "i64reinterpretf64c0: result equals the specified value");
  OBL(g_libm_calls == 0, "i64reinterpretf64c0: no library call is involved");
  CANARY("i64reinterpretf64c0 returns");
}
void h_f32reinterpreti32c0(void) {
  ND(U32, a0);
  F32 r;
  g_libm_calls = 0;
  g_spec_trap = SPEC_NOTRAP;
  r = c11flt_f32reinterpreti32c0(&inst, a0);
  OBL(g_spec_trap == SPEC_NOTRAP, "f32reinterpreti32c0: returned normally only if the specification does not trap");
  OBL((vh_f32bits(r) == vh_f32bits(spec_f32_reinterpret_i32(a0))), "f32reinterpreti32c0: result equals the specified value");
  OBL(g_libm_calls == 0, "f32reinterpreti32c0: no library call is involved");
  CANARY("f32reinterpreti32c0 returns");
}
void h_f64reinterpreti64c0(void) {
  ND(U64, a0);
  F64 r;
  g_libm_calls = 0;
  g_spec_trap = SPEC_NOTRAP;
  r = c11flt_f64reinterpreti64c0(&inst, a0);
  OBL(g_spec_trap == SPEC_NOTRAP, "f64reinterpreti64c0: returned normally only if the specification does not trap");
  OBL((vh_f64bits(r) == vh_f64bits(spec_f64_reinterpret_i64(a0))), "f64reinterpreti64c0: result equals the specified value");
  OBL(g_libm_calls == 0, "f64reinterpreti64c0: no library call is involved");
  CANARY("f64reinterpreti64c0 returns");
}
