/* Layer E: contracts on the expression emitters of the real w2c2/c.c (#included whole) for EVERY operand-stack height and
 * EVERY type context below the operands (both symbolic), with the string builder replaced by the ghost recorder.
 * The contract of an emitter of arity n and result type R, on a type stack of height h:
 *   - the C statement it writes assigns to the slot (h-n, R) and reads exactly the slots (h-n+i, type of entry h-n+i),
 *     in operand order, combined by the given operator text (whitespace is not part of the contract);
 *   - afterwards the type stack has height h-n+1, its top is R, every entry below is unchanged (ghost index k);
 *   - the declaration bit (h-n, R) is set and no other declaration entry changes (ghost index kd).
 * This is what makes the per-opcode G-layer contracts (checked in 3 enumerated stack contexts) hold at every height. */
#include "c.c"
#include "array.c"
#include "opcode.c"
#include "vh.h"
#define SB_MAX 40
#include "sb_recorder.h"
#include "trapstub.h"
void trap(Trap t);

#ifndef PRETTY
#define PRETTY 0
#endif
#ifndef INDENT
#define INDENT 0
#endif
#define HMAX (1u << 24)

/* ---- token matcher over the recorded events; blanks and newlines are skipped on both sides ---- */
typedef struct Cur { int ev; size_t off; } Cur;
static int isws(unsigned long long c) { return c == ' ' || c == '\n'; }
static void cur_skip(Cur* c) {
    for (;;) {
        if (c->ev >= g_sb_n) return;
        if (g_sb[c->ev].kind == SB_STR) {
            while (c->off < g_sb[c->ev].len && isws((unsigned char)g_sb[c->ev].str[c->off])) c->off++;
            if (c->off == g_sb[c->ev].len) { c->ev++; c->off = 0; continue; }
            return;
        }
        if (g_sb[c->ev].kind == SB_CHR && isws(g_sb[c->ev].bits)) { c->ev++; continue; }
        return;
    }
}
static int m_lit(Cur* c, const char* lit) {
    size_t i;
    for (i = 0; lit[i]; i++) {
        if (isws((unsigned char)lit[i])) continue;
        cur_skip(c);
        if (c->ev >= g_sb_n) return 0;
        if (g_sb[c->ev].kind == SB_STR) {
            if (g_sb[c->ev].str[c->off] != lit[i]) return 0;
            c->off++;
            if (c->off == g_sb[c->ev].len) { c->ev++; c->off = 0; }
        } else if (g_sb[c->ev].kind == SB_CHR) {
            if (g_sb[c->ev].bits != (unsigned char)lit[i]) return 0;
            c->ev++;
        } else return 0;
    }
    return 1;
}
static const char slotLetters[4] = { 'i', 'j', 'f', 'd' };
static int m_slot(Cur* c, size_t idx, WasmValueType t) {
    cur_skip(c);
    if (c->off != 0 || (unsigned)t > 3) return 0;
    if (!(sb_is_chr(c->ev, 's') && sb_is_chr(c->ev + 1, slotLetters[t]) && sb_is(c->ev + 2, SB_U32, (U32)idx))) return 0;
    c->ev += 3;
    return 1;
}
static int m_end(Cur* c) { cur_skip(c); return c->ev == g_sb_n && !g_sb_overflow; }

/* ---- the writer under test ---- */
static WasmTypeStack ts, decl;
static WasmLabelStack ls;
static StringBuilder sbuf;
static WasmCFunctionWriter w;
static size_t H0, K, KD, DLEN0; static int HAS_KD;
static WasmValueType T[3], OLDK, OLDKD, OLDD;

static int valid_t(WasmValueType t) { return (unsigned)t <= 3; }

/* n operands on top of a stack of symbolic height h; entry types symbolic; declarations as after any prefix of a function */
static void setup(unsigned n) {
    ND(size_t, h); ND(size_t, cap); ND(size_t, dlen); ND(size_t, dcap); ND(size_t, k); ND(size_t, kd);
    ND(int, haskd); ND(unsigned, t0); ND(unsigned, t1); ND(unsigned, t2); ND(unsigned, oldk); ND(unsigned, oldkd); ND(unsigned, oldd);
    unsigned i;
    ASSUME(h >= n && h <= HMAX && cap >= h && cap >= 1 && cap <= HMAX + 4);
    /* every push declares its slot, so declarations reach at least up to the operands; the destination slot h-n may be new */
    ASSUME(dlen + n >= h && dlen <= HMAX && dcap >= dlen && dcap >= 1 && dcap <= HMAX + 4);
#ifdef NO_GROW
    ASSUME(dcap > h && cap > h);
#endif
    ASSUME(t0 <= 3 && t1 <= 3 && t2 <= 3 && oldkd <= 15 && oldd <= 15);
    ts.valueTypes = malloc(cap * sizeof(WasmValueType)); ASSUME(ts.valueTypes != 0);
    decl.valueTypes = malloc(dcap * sizeof(WasmValueType)); ASSUME(decl.valueTypes != 0);
    ts.length = h; ts.capacity = cap; decl.length = dlen; decl.capacity = dcap;
    T[0] = (WasmValueType)t0; T[1] = (WasmValueType)t1; T[2] = (WasmValueType)t2;
    for (i = 0; i < n; i++) ts.valueTypes[h - 1 - i] = T[i];
    /* ghost entries: one below the operands in the type stack, one anywhere in the declarations, and the destination's old declaration word */
    K = k; KD = kd; H0 = h; DLEN0 = dlen;
    if (h > n) { ASSUME(k < h - n); ts.valueTypes[k] = (WasmValueType)oldk; OLDK = (WasmValueType)oldk; }
    HAS_KD = haskd != 0;
    if (HAS_KD) { ASSUME(kd < dlen && kd != h - n); decl.valueTypes[kd] = (WasmValueType)oldkd; OLDKD = (WasmValueType)oldkd; }
    if (h - n < dlen) { decl.valueTypes[h - n] = (WasmValueType)oldd; OLDD = (WasmValueType)oldd; } else OLDD = (WasmValueType)0;
    memset(&w, 0, sizeof w);
    w.builder = &sbuf; w.typeStack = &ts; w.stackDeclarations = &decl; w.labelStack = &ls;
    w.pretty = PRETTY; w.indent = INDENT;
    g_sb_n = 0;
}
/* common postcondition: n operands replaced by one value of type r in slot h-n */
static void post_stack(unsigned n, WasmValueType r, const char* what) {
    (void)what;
    OBL(ts.length == H0 - n + 1 && ts.capacity >= ts.length, "type stack: the n operands are replaced by exactly one entry");
    OBL(ts.valueTypes[H0 - n] == r, "type stack: the new top entry is the result type");
    if (H0 > n) OBL(ts.valueTypes[K] == OLDK, "type stack: every entry below the operands is unchanged (ghost index)");
    OBL(decl.length >= H0 - n + 1 && decl.length >= DLEN0 && decl.capacity >= decl.length, "declarations: cover the destination slot and never shrink");
    OBL(decl.valueTypes[H0 - n] == (WasmValueType)(OLDD | (1u << r)), "declarations: the (slot, result type) variable is declared, earlier declarations of the slot are kept");
    if (HAS_KD) OBL(decl.valueTypes[KD] == OLDKD, "declarations: no other slot's declarations change (ghost index)");
}

void h_unary(void) { ND(unsigned, r); Cur c = {0, 0}; bool ok; setup(1); ASSUME(r <= 3);
    ok = wasmCWriteUnaryExpr(&w, (WasmValueType)r, "OP");
    OBL(ok, "unary: succeeds");
    OBL(m_slot(&c, H0 - 1, (WasmValueType)r) && m_lit(&c, "=OP(") && m_slot(&c, H0 - 1, T[0]) && m_lit(&c, ");") && m_end(&c),
        "unary: writes  s<R><h-1> = OP(s<T0><h-1>);  for every height h and operand type");
    post_stack(1, (WasmValueType)r, "unary"); CANARY("unary"); }

void h_prefix(void) { ND(unsigned, r); Cur c = {0, 0}; bool ok; setup(2); ASSUME(r <= 3);
    ok = wasmCWritePrefixBinaryExpr(&w, (WasmValueType)r, "OP");
    OBL(ok, "prefix binary: succeeds");
    OBL(m_slot(&c, H0 - 2, (WasmValueType)r) && m_lit(&c, "=OP(") && m_slot(&c, H0 - 2, T[1]) && m_lit(&c, ",") && m_slot(&c, H0 - 1, T[0]) && m_lit(&c, ");") && m_end(&c),
        "prefix binary: writes  s<R><h-2> = OP(s<T1><h-2>, s<T0><h-1>);  first operand is the deeper one");
    post_stack(2, (WasmValueType)r, "prefix"); CANARY("prefix"); }

void h_infix(void) { ND(unsigned, r); Cur c = {0, 0}; bool ok; setup(2); ASSUME(r <= 3);
    ok = wasmCWriteInfixBinaryExpr(&w, (WasmValueType)r, "OP", false);
    OBL(ok, "infix binary: succeeds");
    OBL(m_slot(&c, H0 - 2, (WasmValueType)r) && m_lit(&c, "=") && m_slot(&c, H0 - 2, T[1]) && m_lit(&c, "OP") && m_slot(&c, H0 - 1, T[0]) && m_lit(&c, ";") && m_end(&c),
        "infix binary: writes  s<R><h-2> = s<T1><h-2> OP s<T0><h-1>;  left operand is the deeper one");
    post_stack(2, (WasmValueType)r, "infix"); CANARY("infix"); }

void h_infix_assign(void) { ND(unsigned, r); Cur c = {0, 0}; bool ok; setup(2); ASSUME(r <= 3);
    /* call-site precondition of the compound form (c.c uses it for add/sub/mul/and/or/xor only): result type = left operand type */
    ASSUME(T[1] == (WasmValueType)r);
    ok = wasmCWriteInfixBinaryExpr(&w, (WasmValueType)r, "OP", true);
    OBL(ok, "infix compound: succeeds");
    OBL(m_slot(&c, H0 - 2, T[1]) && m_lit(&c, "OP=") && m_slot(&c, H0 - 1, T[0]) && m_lit(&c, ";") && m_end(&c),
        "infix compound: writes  s<T1><h-2> OP= s<T0><h-1>;");
    post_stack(2, (WasmValueType)r, "infix="); CANARY("infix_assign"); }

static const WasmOpcode signedOps[8] = { wasmOpcodeI32LtS, wasmOpcodeI64LtS, wasmOpcodeI32LeS, wasmOpcodeI64LeS, wasmOpcodeI32GtS, wasmOpcodeI64GtS, wasmOpcodeI32GeS, wasmOpcodeI64GeS };
void h_signed_infix(void) { ND(unsigned, oi); Cur c = {0, 0}; bool ok; WasmOpcode op; int is64; setup(2); ASSUME(oi < 8);
    op = signedOps[oi]; is64 = (oi & 1);
    ok = wasmCWriteSignedInfixBinaryExpr(&w, op, "OP");
    OBL(ok, "signed infix: succeeds");
    OBL(m_slot(&c, H0 - 2, wasmValueTypeI32) && m_lit(&c, is64 ? "=(U64)((I64)" : "=(U32)((I32)") && m_slot(&c, H0 - 2, T[1]) && m_lit(&c, is64 ? "OP(I64)" : "OP(I32)") && m_slot(&c, H0 - 1, T[0]) && m_lit(&c, ");") && m_end(&c),
        "signed comparison: writes  si<h-2> = (Uw)((Iw)s<T1><h-2> OP (Iw)s<T0><h-1>);  both operands reinterpreted as signed of the opcode's width, result an i32");
    post_stack(2, wasmValueTypeI32, "signed"); CANARY("signed_infix"); }

/* shifts keep the left operand's slot: destination type = type of entry h-2 (= the opcode's type in a validated module) */
#define H_SHIFT(nm, fn, opc32, opc64, pat32a, pat32b, pat64a, pat64b, tail32, tail64) \
void h_##nm(void) { ND(unsigned, is64); Cur c = {0, 0}; bool ok; WasmValueType r; setup(2); ASSUME(is64 <= 1); \
    r = is64 ? wasmValueTypeI64 : wasmValueTypeI32; ASSUME(T[1] == r); \
    ok = fn(&w, is64 ? opc64 : opc32); \
    OBL(ok, #nm ": succeeds"); \
    OBL(m_slot(&c, H0 - 2, r) && m_lit(&c, is64 ? pat64a : pat32a) && (pat32b[0] == 0 || (m_slot(&c, H0 - 2, T[1]) && m_lit(&c, is64 ? pat64b : pat32b))) \
        && m_slot(&c, H0 - 1, T[0]) && m_lit(&c, is64 ? tail64 : tail32) && m_end(&c), \
        #nm ": the shift count is the top slot masked to the operand width (31 / 63), the shifted value the slot below"); \
    post_stack(2, r, #nm); CANARY(#nm); }
H_SHIFT(shl, wasmCWriteShiftLeftExpr, wasmOpcodeI32Shl, wasmOpcodeI64Shl, "<<=(", "", "<<=(", "", "&31);", "&63);")
H_SHIFT(shr_u, wasmCWriteUnsignedShiftRightExpr, wasmOpcodeI32ShrU, wasmOpcodeI64ShrU, ">>=(", "", ">>=(", "", "&31);", "&63);")
H_SHIFT(shr_s, wasmCWriteSignedShiftRightExpr, wasmOpcodeI32ShrS, wasmOpcodeI64ShrS, "=(U32)((I32)", ">>(", "=(U64)((I64)", ">>(", "&31));", "&63));")
