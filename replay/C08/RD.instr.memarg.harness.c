/* C08: the immediate readers of the real w2c2/instruction.c accept EVERY spec-equivalent encoding of their fields (each LEB128 field
 * padded to any length up to its maximum), decode the same values and consume exactly the field bytes. */
#include <stdlib.h>
#include <string.h>
#include "instruction.c"
#include "vh.h"
static U8 g_buf[40]; static size_t g_pos;
/* value v written in exactly len bytes (len symbolic; shorter encodings need v to fit) */
static void put_u32(U32 v, unsigned len) { unsigned i;
    ASSUME(len >= 1 && len <= 5 && (len == 5 || v < (1u << (7 * len))));
    for (i = 0; i < 5; i++) if (i < len) { g_buf[g_pos++] = (U8)(((v >> (7 * i)) & 0x7f) | (i + 1 < len ? 0x80 : 0)); } }
static void put_i32(I32 sv, unsigned len) { unsigned i; I64 x = sv;
    ASSUME(len >= 1 && len <= 5 && (len == 5 || (x >= -((I64)1 << (7 * len - 1)) && x < ((I64)1 << (7 * len - 1)))));
    for (i = 0; i < 5; i++) if (i < len) { g_buf[g_pos++] = (U8)((((U64)x >> (7 * i)) & 0x7f) | (i + 1 < len ? 0x80 : 0)); } }
static void put_i64(I64 x, unsigned len) { unsigned i;
    ASSUME(len >= 1 && len <= 10 && (len == 10 || (x >= -((I64)1 << (7 * len - 1)) && x < ((I64)1 << (7 * len - 1)))));
    for (i = 0; i < 10; i++) if (i < len) { g_buf[g_pos++] = (U8)((i < 9 ? (((U64)x >> (7 * i)) & 0x7f) : ((x >> 63) & 0x7f)) | (i + 1 < len ? 0x80 : 0)); } }
static Buffer mkbuf(void) { Buffer b; ND(U8, trailer); g_buf[g_pos] = trailer; b.data = g_buf; b.length = g_pos + 1; return b; }   /* one more byte follows: the next opcode */
#define CONSUMED(b) ((b).length == 1 && (b).data == g_buf + g_pos)

#define H1(nm, T, fn, field) void h_##nm(void) { ND(U32, v); ND(unsigned, len); T r; Buffer b; bool ok; g_pos = 0; put_u32(v, len); b = mkbuf(); \
    ok = fn(&b, &r); OBL(ok && r.field == v, #fn ": every padded encoding of the index is accepted and decodes to the same value"); \
    OBL(CONSUMED(b), #fn ": consumes exactly the immediate"); CANARY(#nm); }
#define H2(nm, T, fn, f1, f2) void h_##nm(void) { ND(U32, v1); ND(U32, v2); ND(unsigned, len1); ND(unsigned, len2); T r; Buffer b; bool ok; g_pos = 0; put_u32(v1, len1); put_u32(v2, len2); b = mkbuf(); \
    ok = fn(&b, &r); OBL(ok && r.f1 == v1 && r.f2 == v2, #fn ": every padded encoding of both fields is accepted and decodes to the same values, in order"); \
    OBL(CONSUMED(b), #fn ": consumes exactly the immediates"); CANARY(#nm); }
H1(local, WasmLocalInstruction, wasmLocalInstructionRead, localIndex)
H1(global, WasmGlobalInstruction, wasmGlobalInstructionRead, globalIndex)
H1(call, WasmCallInstruction, wasmCallInstructionRead, funcIndex)
H1(branch, WasmBranchInstruction, wasmBranchInstructionRead, labelIndex)
H1(memory, WasmMemoryInstruction, wasmMemoryInstructionRead, memoryIndex)
H2(memarg, WasmMemoryArgumentInstruction, wasmMemoryArgumentInstructionRead, align, offset)
H2(call_indirect, WasmCallIndirectInstruction, wasmCallIndirectInstructionRead, functionTypeIndex, tableIndex)
H2(memory_copy, WasmMemoryCopyInstruction, wasmMemoryCopyInstructionRead, memoryIndex1, memoryIndex2)
H2(memory_init, WasmMemoryInitInstruction, wasmMemoryInitInstructionRead, dataSegmentIndex, memoryIndex)
void h_br_table(void) { ND(U32, n); ND(U32, l0); ND(U32, l1); ND(U32, dflt); ND(unsigned, len0); ND(unsigned, len1); ND(unsigned, len2); ND(unsigned, len3);
    WasmBranchTableInstruction r; Buffer b; bool ok; g_pos = 0; ASSUME(n <= 2);
    put_u32(n, len0); if (n > 0) put_u32(l0, len1); if (n > 1) put_u32(l1, len2); put_u32(dflt, len3); b = mkbuf();
    ok = wasmBranchTableInstructionRead(&b, &r);
    OBL(ok && r.labelIndexCount == n && r.defaultLabelIndex == dflt && (n < 1 || r.labelIndices[0] == l0) && (n < 2 || r.labelIndices[1] == l1),
        "wasmBranchTableInstructionRead: count, every label and the default decode to the same values from every padded encoding");
    OBL(CONSUMED(b), "wasmBranchTableInstructionRead: consumes exactly the immediates"); CANARY("br_table"); }
void h_const_i32(void) { ND(I32, v); ND(unsigned, len); WasmConstInstruction r; Buffer b; bool ok; g_pos = 0; put_i32(v, len); b = mkbuf();
    ok = wasmConstInstructionRead(&b, wasmOpcodeI32Const, &r);
    OBL(ok && r.value.i32 == v, "wasmConstInstructionRead(i32.const): every sign-consistent padded encoding decodes to the same value");
    OBL(CONSUMED(b), "wasmConstInstructionRead(i32.const): consumes exactly the immediate"); CANARY("const_i32"); }
void h_const_i64(void) { ND(I64, v); ND(unsigned, len); WasmConstInstruction r; Buffer b; bool ok; g_pos = 0; put_i64(v, len); b = mkbuf();
    ok = wasmConstInstructionRead(&b, wasmOpcodeI64Const, &r);
    OBL(ok && r.value.i64 == v, "wasmConstInstructionRead(i64.const): every sign-consistent padded encoding decodes to the same value");
    OBL(CONSUMED(b), "wasmConstInstructionRead(i64.const): consumes exactly the immediate"); CANARY("const_i64"); }
