/* Layer E: contracts on the expression emitters of the real w2c2/c.c (#included whole) for EVERY operand-stack height and
 * EVERY type context below the operands (both symbolic), with the string builder replaced by the ghost recorder.
 * The contract of an emitter of arity n and result type R, on a type stack of height h:
 *   - the C statement it writes assigns to the slot (h-n, R) and reads exactly the slots (h-n+i, type of entry h-n+i),
 *     in operand order, combined by the given operator text (whitespace is not part of the contract);
 *   - afterwards the type stack has height h-n+1, its top is R, every entry below is unchanged (ghost index k);
 *   - the declaration bit (h-n, R) is set and no other declaration entry changes (ghost index kd).
 * This is what makes the per-opcode G-layer contracts (checked in 3 enumerated stack contexts) hold at every height. */
#include "c.c"
#include "vh.h"
#ifndef HMAX
#define HMAX (1u << 24)
#endif
/* array.c's growth step enters through its CONTRACT (discharged on the real array.c by job A.ensure_capacity in harness/array_grow.c):
 * success => capacity >= requested length, a fresh buffer of capacity*itemSize bytes, every old element preserved
 * (here: the ghost elements G_KEEP[], which are the only old elements the postconditions read); failure => nothing changes.
 * The native replay links the real array.c instead. */
#ifdef VERIF_NATIVE
#include "array.c"
static int g_grow_failed;
#else
static size_t G_KEEP[3]; static int G_NKEEP; static int g_grow_failed;
bool arrayEnsureCapacitySlowPath(void** items, const size_t length, size_t* capacity, const size_t itemSize) {
    ND(int, fails); ND(size_t, ncap); unsigned* n; int i;
    OBL(length > *capacity && itemSize == sizeof(unsigned), "call-site precondition of the slow path");
    if (fails) { g_grow_failed = 1; return false; }
    ASSUME(ncap >= length && ncap <= HMAX + 8);
    n = malloc(ncap * sizeof(unsigned)); ASSUME(n != 0);
    for (i = 0; i < G_NKEEP; i++) if (G_KEEP[i] < *capacity) n[G_KEEP[i]] = ((unsigned*)*items)[G_KEEP[i]];
    *items = n; *capacity = ncap;
    return true;
}
#endif
#include "opcode.c"
#include "trapstub.h"
void trap(Trap t);

#ifndef PRETTY
#define PRETTY 0
#endif
#ifndef INDENT
#define INDENT 0
#endif

static void x_event(int kind, const char* s, size_t len, unsigned long long bits);
#define SB_HOOK(kind, s, len, bits) x_event(kind, s, len, bits)
#define SB_MAX 40
#include "sb_recorder.h"

/* ---- ONLINE token matcher: the expected statement is laid down before the call as a list of tokens; every recorder event
 * advances it.  (Matching after the call would make the matcher's control state depend on the merged success/failure paths
 * of the emitter; online, the state is concrete along the emitter's straight-line path and only the verdict is merged.)
 * Blanks and newlines are not part of the contract. ---- */
enum { X_LIT = 1, X_SLOT, X_EV, X_PTR };
typedef struct Tok { int kind; const char* lit; size_t idx; unsigned t; } Tok;
#define X_MAX 32
static Tok g_exp[X_MAX]; static int g_exp_n, g_ti, g_stage; static size_t g_off; static int g_bad;
static const char slotLetters[4] = { 'i', 'j', 'f', 'd' };
static void x_reset(void) { g_exp_n = 0; g_ti = 0; g_stage = 0; g_off = 0; g_bad = 0; }
static void X_LITERAL(const char* l) { g_exp[g_exp_n].kind = X_LIT; g_exp[g_exp_n].lit = l; g_exp_n++; }
/* one non-text event of the given kind and value (a number printed by the builder) */
static void X_EVENT(int kind, unsigned long long bits) { g_exp[g_exp_n].kind = X_EV; g_exp[g_exp_n].t = (unsigned)kind; g_exp[g_exp_n].idx = (size_t)bits; g_exp_n++; }
/* one string event that is exactly the given string object (a type name from the translator's table: compared by identity) */
static void X_STRING_OBJECT(const char* sp) { g_exp[g_exp_n].kind = X_PTR; g_exp[g_exp_n].lit = sp; g_exp_n++; }
static void X_SLOTREF(size_t idx, unsigned t) { g_exp[g_exp_n].kind = X_SLOT; g_exp[g_exp_n].idx = idx; g_exp[g_exp_n].t = t; g_exp_n++; }
static int isws(unsigned long long c) { return c == ' ' || c == '\n'; }
static void x_char(char ch) {   /* one non-blank character of output text */
    if (g_ti >= g_exp_n) { g_bad = 1; return; }
    if (g_exp[g_ti].kind == X_LIT) {
        if (g_exp[g_ti].lit[g_off] != ch) g_bad = 1;
        g_off++;
        if (g_exp[g_ti].lit[g_off] == 0) { g_ti++; g_off = 0; }
    } else if (g_stage == 0) { if (ch != 's') g_bad = 1; g_stage = 1; }
    else g_bad = 1;
}
static void x_event(int kind, const char* s, size_t len, unsigned long long bits) {
    size_t i;
    if (g_ti < g_exp_n && g_exp[g_ti].kind == X_SLOT && g_stage == 1) {   /* the type letter (symbolic): compared as data, no branching on it */
        g_bad |= !(kind == SB_CHR && g_exp[g_ti].t <= 3 && bits == (unsigned char)slotLetters[g_exp[g_ti].t & 3]); g_stage = 2; return; }
    if (g_ti < g_exp_n && g_exp[g_ti].kind == X_SLOT && g_stage == 2) {   /* the slot number (symbolic) */
        g_bad |= !(kind == SB_U32 && bits == (U32)g_exp[g_ti].idx); g_stage = 0; g_ti++; return; }
    if (g_ti < g_exp_n && g_exp[g_ti].kind == X_PTR) { g_bad |= !(kind == SB_STR && s == g_exp[g_ti].lit); g_ti++; return; }
    if (g_ti < g_exp_n && g_exp[g_ti].kind == X_EV) { g_bad |= !(kind == (int)g_exp[g_ti].t && bits == (unsigned long long)g_exp[g_ti].idx); g_ti++; return; }
    if (kind == SB_STR) { for (i = 0; i < len; i++) if (!isws((unsigned char)s[i])) x_char(s[i]); }
    else if (kind == SB_CHR) { if (!isws(bits)) x_char((char)bits); }
    else g_bad = 1;
}
#define X_MATCHED (!g_bad && g_ti == g_exp_n && g_stage == 0 && g_off == 0 && !g_sb_overflow)

/* ---- the writer under test ---- */
static WasmTypeStack ts, decl;
static WasmLabelStack ls;
static StringBuilder sbuf;
static WasmCFunctionWriter w;
static size_t H0, K, KD, DLEN0; static int HAS_KD;
static WasmValueType T[4], OLDK, OLDKD, OLDD;

static int valid_t(WasmValueType t) { return (unsigned)t <= 3; }

/* n operands on top of a stack of symbolic height h; entry types symbolic; declarations as after any prefix of a function */
static void setup(unsigned n) {
    ND(size_t, h); ND(size_t, cap); ND(size_t, dlen); ND(size_t, dcap); ND(size_t, k); ND(size_t, kd);
    ND(int, haskd); ND(unsigned, t0); ND(unsigned, t1); ND(unsigned, t2); ND(unsigned, t3); ND(unsigned, oldk); ND(unsigned, oldkd); ND(unsigned, oldd);
    unsigned i;
    ASSUME(h >= n && h <= HMAX && cap >= h && cap >= 1 && cap <= HMAX + 4);
    /* every push declares its slot, so declarations reach at least up to the operands; the destination slot h-n may be new */
    ASSUME(dlen + n >= h && dlen <= HMAX && dcap >= dlen && dcap >= 1 && dcap <= HMAX + 4);
#ifdef NO_GROW
    ASSUME(dcap > h && cap > h);
#endif
    ASSUME(t0 <= 3 && t1 <= 3 && t2 <= 3 && t3 <= 3 && oldkd <= 15 && oldd <= 15);
#ifdef CONST_OBJ   /* objects of constant (maximal) size, symbolic capacity fields */
    ts.valueTypes = malloc((HMAX + 4) * sizeof(WasmValueType)); ASSUME(ts.valueTypes != 0);
    decl.valueTypes = malloc((HMAX + 4) * sizeof(WasmValueType)); ASSUME(decl.valueTypes != 0);
#else
    ts.valueTypes = malloc(cap * sizeof(WasmValueType)); ASSUME(ts.valueTypes != 0);
    decl.valueTypes = malloc(dcap * sizeof(WasmValueType)); ASSUME(decl.valueTypes != 0);
#endif
    ts.length = h; ts.capacity = cap; decl.length = dlen; decl.capacity = dcap;
    T[0] = (WasmValueType)t0; T[1] = (WasmValueType)t1; T[2] = (WasmValueType)t2; T[3] = (WasmValueType)t3;
    for (i = 0; i < n; i++) ts.valueTypes[h - 1 - i] = T[i];
    /* ghost entries: one below the operands in the type stack, one anywhere in the declarations, and the destination's old declaration word */
    K = k; KD = kd; H0 = h; DLEN0 = dlen;
#ifndef VERIF_NATIVE
    G_KEEP[0] = k; G_KEEP[1] = kd; G_KEEP[2] = h - n; G_NKEEP = 3;
#endif
    if (h > n) { ASSUME(k < h - n); ts.valueTypes[k] = (WasmValueType)oldk; OLDK = (WasmValueType)oldk; }
    HAS_KD = haskd != 0;
    if (HAS_KD) { ASSUME(kd < dlen && kd != h - n); decl.valueTypes[kd] = (WasmValueType)oldkd; OLDKD = (WasmValueType)oldkd; }
    if (h - n < dlen) { decl.valueTypes[h - n] = (WasmValueType)oldd; OLDD = (WasmValueType)oldd; } else OLDD = (WasmValueType)0;
    memset(&w, 0, sizeof w);
    w.builder = &sbuf; w.typeStack = &ts; w.stackDeclarations = &decl; w.labelStack = &ls;
    w.pretty = PRETTY; w.indent = INDENT;
    g_sb_n = 0; g_sb_overflow = 0; g_grow_failed = 0; x_reset();   /* explicit: goto-instrument --dfcc leaves statics unconstrained */
}
/* common postcondition: n operands replaced by `push` (0/1) values of type r in slot h-n */
static void post_stack_n(unsigned n, unsigned push, WasmValueType r) {
    OBL(ts.length == H0 - n + push && ts.capacity >= ts.length, "type stack: the n operands are replaced by exactly the instruction's results");
    if (push) OBL(ts.valueTypes[H0 - n] == r, "type stack: the new top entry is the result type");
    if (H0 > n) OBL(ts.valueTypes[K] == OLDK, "type stack: every entry below the operands is unchanged (ghost index)");
    OBL(decl.length >= DLEN0 && decl.capacity >= decl.length, "declarations: never shrink");
    if (push) {
        OBL(decl.length >= H0 - n + 1, "declarations: cover the destination slot");
        OBL(decl.valueTypes[H0 - n] == (WasmValueType)(OLDD | (1u << r)), "declarations: the (slot, result type) variable is declared, earlier declarations of the slot are kept");
    } else if (H0 - n < DLEN0) OBL((decl.valueTypes[H0 - n] & OLDD) == OLDD, "declarations: earlier declarations of the slot are kept");
    if (HAS_KD) OBL(decl.valueTypes[KD] == OLDKD, "declarations: no other slot's declarations change (ghost index)");
}
static void post_stack(unsigned n, WasmValueType r, const char* what) { (void)what; post_stack_n(n, 1, r); }

#define RT ((WasmValueType)r)
/* the only permitted failure is an allocation failure of the growth step, and then nothing below is claimed */
#define SUCCEEDS(ok, nm) do { OBL((ok) || g_grow_failed, nm ": fails only when an allocation fails"); ASSUME(ok); } while (0)
void h_unary(void) { ND(unsigned, r); bool ok; setup(1); ASSUME(r <= 3);
    X_SLOTREF(H0 - 1, r); X_LITERAL("=OP("); X_SLOTREF(H0 - 1, T[0]); X_LITERAL(");");
    ok = wasmCWriteUnaryExpr(&w, RT, "OP");
    SUCCEEDS(ok, "unary");
    OBL(X_MATCHED, "unary: writes  s<R><h-1> = OP(s<T0><h-1>);  for every height h and operand type");
    post_stack(1, RT, "unary"); CANARY("unary"); }

void h_prefix(void) { ND(unsigned, r); bool ok; setup(2); ASSUME(r <= 3);
    X_SLOTREF(H0 - 2, r); X_LITERAL("=OP("); X_SLOTREF(H0 - 2, T[1]); X_LITERAL(","); X_SLOTREF(H0 - 1, T[0]); X_LITERAL(");");
    ok = wasmCWritePrefixBinaryExpr(&w, RT, "OP");
    SUCCEEDS(ok, "prefix binary");
    OBL(X_MATCHED, "prefix binary: writes  s<R><h-2> = OP(s<T1><h-2>, s<T0><h-1>);  first operand is the deeper one");
    post_stack(2, RT, "prefix"); CANARY("prefix"); }

void h_infix(void) { ND(unsigned, r); bool ok; setup(2); ASSUME(r <= 3);
    X_SLOTREF(H0 - 2, r); X_LITERAL("="); X_SLOTREF(H0 - 2, T[1]); X_LITERAL("OP"); X_SLOTREF(H0 - 1, T[0]); X_LITERAL(";");
    ok = wasmCWriteInfixBinaryExpr(&w, RT, "OP", false);
    SUCCEEDS(ok, "infix binary");
    OBL(X_MATCHED, "infix binary: writes  s<R><h-2> = s<T1><h-2> OP s<T0><h-1>;  left operand is the deeper one");
    post_stack(2, RT, "infix"); CANARY("infix"); }

void h_infix_assign(void) { ND(unsigned, r); bool ok; setup(2); ASSUME(r <= 3);
    /* call-site precondition of the compound form (c.c uses it for add/sub/mul/and/or/xor only): result type = left operand type */
    ASSUME(T[1] == RT);
    X_SLOTREF(H0 - 2, T[1]); X_LITERAL("OP="); X_SLOTREF(H0 - 1, T[0]); X_LITERAL(";");
    ok = wasmCWriteInfixBinaryExpr(&w, RT, "OP", true);
    SUCCEEDS(ok, "infix compound");
    OBL(X_MATCHED, "infix compound: writes  s<T1><h-2> OP= s<T0><h-1>;");
    post_stack(2, RT, "infix="); CANARY("infix_assign"); }

/* opcode-indexed emitters: one job per opcode (OPC/W64 defines), so that the expected text is concrete */
#ifndef OPC
#define OPC wasmOpcodeI32LtS
#define W64 0
#endif
#if W64
#define RW wasmValueTypeI64
#define SU "U64"
#define SI "I64"
#define MASK "63"
#else
#define RW wasmValueTypeI32
#define SU "U32"
#define SI "I32"
#define MASK "31"
#endif
void h_signed_infix(void) { bool ok; setup(2);
    X_SLOTREF(H0 - 2, wasmValueTypeI32); X_LITERAL("=(" SU ")((" SI ")"); X_SLOTREF(H0 - 2, T[1]); X_LITERAL("OP(" SI ")"); X_SLOTREF(H0 - 1, T[0]); X_LITERAL(");");
    ok = wasmCWriteSignedInfixBinaryExpr(&w, OPC, "OP");
    SUCCEEDS(ok, "signed infix");
    OBL(X_MATCHED, "signed comparison: writes  si<h-2> = (Uw)((Iw)s<T1><h-2> OP (Iw)s<T0><h-1>);  both operands reinterpreted as signed of the opcode's width, result an i32");
    post_stack(2, wasmValueTypeI32, "signed"); CANARY("signed_infix"); }

/* shifts keep the left operand's slot: destination type = type of entry h-2 (= the opcode's type in a validated module) */
void h_shl(void) { bool ok; setup(2); ASSUME(T[1] == RW);
    X_SLOTREF(H0 - 2, RW); X_LITERAL("<<=("); X_SLOTREF(H0 - 1, T[0]); X_LITERAL("&" MASK ");");
    ok = wasmCWriteShiftLeftExpr(&w, OPC);
    SUCCEEDS(ok, "shl");
    OBL(X_MATCHED, "shl: writes  s<h-2> <<= (s<h-1> & 31|63);  the count is the top slot masked to the operand width");
    post_stack(2, RW, "shl"); CANARY("shl"); }
void h_shr_u(void) { bool ok; setup(2); ASSUME(T[1] == RW);
    X_SLOTREF(H0 - 2, RW); X_LITERAL(">>=("); X_SLOTREF(H0 - 1, T[0]); X_LITERAL("&" MASK ");");
    ok = wasmCWriteUnsignedShiftRightExpr(&w, OPC);
    SUCCEEDS(ok, "shr_u");
    OBL(X_MATCHED, "shr_u: writes  s<h-2> >>= (s<h-1> & 31|63);  on the unsigned slot variable");
    post_stack(2, RW, "shr_u"); CANARY("shr_u"); }
void h_shr_s(void) { bool ok; setup(2); ASSUME(T[1] == RW);
    X_SLOTREF(H0 - 2, RW); X_LITERAL("=(" SU ")((" SI ")"); X_SLOTREF(H0 - 2, T[1]); X_LITERAL(">>("); X_SLOTREF(H0 - 1, T[0]); X_LITERAL("&" MASK "));");
    ok = wasmCWriteSignedShiftRightExpr(&w, OPC);
    SUCCEEDS(ok, "shr_s");
    OBL(X_MATCHED, "shr_s: writes  s<h-2> = (Uw)((Iw)s<h-2> >> (s<h-1> & 31|63));  arithmetic shift on the signed reinterpretation, count masked");
    post_stack(2, RW, "shr_s"); CANARY("shr_s"); }

/* ---- select ---- */
void h_select(void) { bool ok; setup(3);
    X_SLOTREF(H0 - 3, T[1]); X_LITERAL("="); X_SLOTREF(H0 - 1, T[0]); X_LITERAL("?"); X_SLOTREF(H0 - 3, T[2]); X_LITERAL(":"); X_SLOTREF(H0 - 2, T[1]); X_LITERAL(";");
    ok = wasmCWriteSelectExpr(&w);
    SUCCEEDS(ok, "select");
    OBL(X_MATCHED, "select: writes  s<T1><h-3> = s<T0><h-1> ? s<T2><h-3> : s<T1><h-2>;  condition is the top slot, first operand the deepest");
    post_stack(3, T[1], "select"); CANARY("select"); }

/* ---- loads and stores: address operand widened to 64 bit BEFORE the static offset is added (no wrap at 2^32) ---- */
static WasmModule g_mod;   /* no imports: memory 0 is  i->m0 */
#ifndef OFFZ
#define OFFZ 0
#endif
static void mem_setup(WasmMemoryArgumentInstruction* mi) { ND(U32, off); ND(U32, align);
    memset(&g_mod, 0, sizeof g_mod); w.module = &g_mod;
#if OFFZ
    ASSUME(off == 0);
#else
    ASSUME(off != 0);
#endif
    mi->offset = off; mi->align = align; }
static void x_addr(size_t idx, unsigned t, U32 off) { X_LITERAL("(i->m"); X_EVENT(SB_U32, 0); X_LITERAL(",(U64)"); X_SLOTREF(idx, t);
    if (!OFFZ) { X_LITERAL("+"); X_EVENT(SB_U32, off); X_LITERAL("U"); } }
void h_load(void) { ND(unsigned, r); bool ok; WasmMemoryArgumentInstruction mi; setup(1); mem_setup(&mi); ASSUME(r <= 3);
    X_SLOTREF(H0 - 1, r); X_LITERAL("=FN"); x_addr(H0 - 1, T[0], mi.offset); X_LITERAL(");");
    ok = wasmCWriteLoad(&w, mi, "FN", RT);
    SUCCEEDS(ok, "load");
    OBL(X_MATCHED, "load: writes  s<R><h-1> = FN(i->m0, (U64)s<T0><h-1> [+ <offset>U]);  the 33-bit effective address is formed in 64 bits from the full static offset");
    post_stack(1, RT, "load"); CANARY("load"); }
void h_store(void) { bool ok; WasmMemoryArgumentInstruction mi; setup(2); mem_setup(&mi);
    X_LITERAL("FN"); x_addr(H0 - 2, T[1], mi.offset); X_LITERAL(","); X_SLOTREF(H0 - 1, T[0]); X_LITERAL(");");
    ok = wasmCWriteStore(&w, mi, "FN");
    SUCCEEDS(ok, "store");
    OBL(X_MATCHED, "store: writes  FN(i->m0, (U64)s<T1><h-2> [+ <offset>U], s<T0><h-1>);  address is the deeper operand, value the top one");
    post_stack_n(2, 0, wasmValueTypeI32); CANARY("store"); }

/* ---- locals: parameters first, then the declared groups (any counts, also empty groups), any index ---- */
#include "instruction.c"
static WasmFunctionType g_ft; static WasmValueType g_ptypes[2]; static WasmLocalsDeclaration g_groups[3];
static U8 g_code[8]; static Buffer g_codebuf;
static U32 LIDX; static int LVALID; static WasmValueType LTYPE;
static void local_setup(void) { ND(U32, idx); ND(U32, pc); ND(U32, c0); ND(U32, c1); ND(U32, c2); ND(unsigned, lt0); ND(unsigned, lt1); ND(unsigned, lt2); ND(unsigned, pt0); ND(unsigned, pt1);
    U64 j;
    ASSUME(pc <= 2 && lt0 <= 3 && lt1 <= 3 && lt2 <= 3 && pt0 <= 3 && pt1 <= 3);
    ASSUME((U64)pc + c0 + c1 + c2 <= 0xFFFFFFFFull);   /* a valid function declares fewer than 2^32 locals */
    memset(&g_mod, 0, sizeof g_mod); w.module = &g_mod;
    g_ptypes[0] = (WasmValueType)pt0; g_ptypes[1] = (WasmValueType)pt1;
    g_ft.parameterCount = pc; g_ft.parameterTypes = g_ptypes; g_ft.resultCount = 0; g_ft.resultTypes = 0;
    g_mod.functionTypes.functionTypes = &g_ft; g_mod.functionTypes.count = 1;
    g_groups[0].type = (WasmValueType)lt0; g_groups[0].count = c0; g_groups[1].type = (WasmValueType)lt1; g_groups[1].count = c1; g_groups[2].type = (WasmValueType)lt2; g_groups[2].count = c2;
    memset(&w.function, 0, sizeof w.function);
    w.function.functionTypeIndex = 0; w.function.localsDeclarations.declarations = g_groups; w.function.localsDeclarations.declarationCount = 3;
    /* the immediate: padded 5-byte LEB128 of the index */
    g_code[0] = (U8)((idx & 0x7f) | 0x80); g_code[1] = (U8)(((idx >> 7) & 0x7f) | 0x80); g_code[2] = (U8)(((idx >> 14) & 0x7f) | 0x80); g_code[3] = (U8)(((idx >> 21) & 0x7f) | 0x80); g_code[4] = (U8)(idx >> 28);
    g_codebuf.data = g_code; g_codebuf.length = 5; w.code = &g_codebuf; w.ignore = false;
    /* specification: index space = parameters, then group 0, group 1, group 2 */
    LIDX = idx; j = idx; LVALID = 1;
    if (j < pc) LTYPE = g_ptypes[j];
    else if ((j -= pc) < c0) LTYPE = (WasmValueType)lt0;
    else if ((j -= c0) < c1) LTYPE = (WasmValueType)lt1;
    else if ((j -= c1) < c2) LTYPE = (WasmValueType)lt2;
    else { LVALID = 0; LTYPE = wasmValueTypeI32; }
}
void h_local_get(void) { bool ok; setup(0); local_setup(); ASSUME(LVALID);
    X_SLOTREF(H0, LTYPE); X_LITERAL("=l"); X_EVENT(SB_U32, LIDX); X_LITERAL(";");
    ok = wasmCWriteLocalGetExpr(&w);
    SUCCEEDS(ok, "local.get");
    OBL(X_MATCHED, "local.get: writes  s<T><h> = l<index>;  with T the declared type of that local (parameters, then groups in order; empty groups skipped)");
    OBL(g_codebuf.length == 0, "local.get: consumes exactly its immediate");
    post_stack(0, LTYPE, "local.get"); CANARY("local_get"); }
void h_local_get_invalid(void) { bool ok; setup(0); local_setup(); ASSUME(!LVALID);
    ok = wasmCWriteLocalGetExpr(&w);
    OBL(!ok && g_sb_n == 0, "local.get: an index beyond the declared locals is rejected and nothing is written");
    CANARY("local_get_invalid"); }
#ifndef LOCAL_OPC
#define LOCAL_OPC wasmOpcodeLocalSet
#endif
void h_local_assign(void) { bool ok; setup(1); local_setup(); ASSUME(LVALID);
    ASSUME(T[0] == LTYPE);   /* validation: the operand has the local's type */
    X_LITERAL("l"); X_EVENT(SB_U32, LIDX); X_LITERAL("="); X_SLOTREF(H0 - 1, LTYPE); X_LITERAL(";");
    ok = wasmCWriteLocalAssignmentExpr(&w, LOCAL_OPC);
    SUCCEEDS(ok, "local.set/tee");
    OBL(X_MATCHED, "local.set/tee: writes  l<index> = s<T><h-1>;");
    OBL(g_codebuf.length == 0, "local.set/tee: consumes exactly its immediate");
    if (LOCAL_OPC == wasmOpcodeLocalSet) { OBL(ts.length == H0 - 1, "local.set: pops its operand"); }
    else { OBL(ts.length == H0 && ts.valueTypes[H0 - 1] == LTYPE, "local.tee: leaves its operand on the stack"); }
    if (H0 > 1) OBL(ts.valueTypes[K] == OLDK, "local.set/tee: entries below are unchanged (ghost index)");
    if (HAS_KD) OBL(decl.valueTypes[KD] == OLDKD, "local.set/tee: no other slot's declarations change (ghost index)");
    CANARY("local_assign"); }

/* ---- i32.const / i64.const: the immediate reaches the literal printer unchanged (the literal's text is C07's contract) ---- */
#ifndef CONST64
#define CONST64 0
#endif
void h_const(void) { bool ok; int i; setup(0);
    memset(&g_mod, 0, sizeof g_mod); w.module = &g_mod; w.ignore = false;
#if CONST64
    { ND(U64, v); static U8 c64[10];   /* padded 10-byte signed LEB128 */
      for (i = 0; i < 9; i++) c64[i] = (U8)(((v >> (7 * i)) & 0x7f) | 0x80);
      c64[9] = (U8)((v >> 63) ? 0x7f : 0x00);
      g_codebuf.data = c64; g_codebuf.length = 10; w.code = &g_codebuf;
      X_SLOTREF(H0, wasmValueTypeI64); X_LITERAL("=W2C2_LL("); X_EVENT(SB_I64, v); X_LITERAL("U);");
      ok = wasmCWriteConstExpr(&w, wasmOpcodeI64Const); }
#else
    { ND(U32, v); for (i = 0; i < 4; i++) g_code[i] = (U8)(((v >> (7 * i)) & 0x7f) | 0x80); g_code[4] = (U8)(((v >> 28) & 0x0f) | ((v >> 31) ? 0x70 : 0));
      g_codebuf.data = g_code; g_codebuf.length = 5; w.code = &g_codebuf;
      X_SLOTREF(H0, wasmValueTypeI32); X_LITERAL("="); X_EVENT(SB_I32, v); X_LITERAL("U;");
      ok = wasmCWriteConstExpr(&w, wasmOpcodeI32Const); }
#endif
    SUCCEEDS(ok, "const");
    OBL(X_MATCHED, "const: writes  s<T><h> = <literal of exactly the immediate's value>;  every 32/64-bit value, padded LEB128 accepted");
    OBL(g_codebuf.length == 0, "const: consumes exactly its immediate");
    post_stack(0, CONST64 ? wasmValueTypeI64 : wasmValueTypeI32, "const"); CANARY("const"); }

/* ---- unreachable code (writer->ignore): an instruction still CONSUMES its immediate (whatever bytes it consists of, e.g. 0x0B),
 * writes nothing and leaves both stacks alone ---- */
#ifndef IGN_WHICH
#define IGN_WHICH 0
#endif
void h_ignored(void) { bool ok; size_t len0, dl0; setup(1); local_setup(); w.ignore = true;
    len0 = ts.length; dl0 = decl.length;
#if IGN_WHICH == 0
    ok = wasmCWriteLocalGetExpr(&w);
#elif IGN_WHICH == 1
    ok = wasmCWriteLocalAssignmentExpr(&w, wasmOpcodeLocalSet);
#elif IGN_WHICH == 2
    ok = wasmCWriteLocalAssignmentExpr(&w, wasmOpcodeLocalTee);
#elif IGN_WHICH == 3
    ok = wasmCWriteConstExpr(&w, wasmOpcodeI32Const);
#elif 0
    { g_code[5] = g_code[0]; g_codebuf.length = 6; ok = wasmCWriteLoadExpr(&w, wasmOpcodeI32Load); ASSUME(g_codebuf.length == 0 || !ok); }   /* align (5 bytes) + offset (1 byte < 0x80 enforced below) */
#endif
    OBL(ok, "dead code: the instruction is accepted (any local index / immediate value, nothing is looked up)");
    OBL(g_codebuf.length == 0, "dead code: the immediate is consumed exactly, so the following opcode is decoded at the right byte");
    OBL(g_sb_n == 0, "dead code: nothing is written");
    OBL(ts.length == len0 && decl.length == dl0 && ts.valueTypes[H0 - 1] == T[0], "dead code: both stacks are untouched");
    CANARY("ignored"); }

/* ---- calls: the arguments are the top P slots in declaration order (deepest = first parameter), named with the DECLARED parameter types;
 * the result lands in the slot of the first argument (or the next free slot when there is none) ---- */
#ifndef NPAR
#define NPAR 2
#endif
#ifndef NRES
#define NRES 1
#endif
static WasmFunctionType g_cft; static WasmValueType g_cpt[4]; static WasmValueType g_crt[1]; static WasmFunction g_fns[4];
static U32 CALL_F; static unsigned CALL_R;
#ifndef CALL_FIDX
#define CALL_FIDX 3
#endif
static void call_setup(int indirect) { U32 f = CALL_FIDX; U32 nf = 4;   /* the function index is a job constant: a symbolic index into the array of (large) function records exhausted the solver's memory */
    ND(unsigned, r); ND(unsigned, q0); ND(unsigned, q1); ND(unsigned, q2); unsigned L;
    ASSUME(r <= 3 && q0 <= 3 && q1 <= 3 && q2 <= 3);
    memset(&g_mod, 0, sizeof g_mod); w.module = &g_mod; w.ignore = false; w.moduleName = "mod"; w.multipleModules = false;
    g_cpt[0] = (WasmValueType)q0; g_cpt[1] = (WasmValueType)q1; g_cpt[2] = (WasmValueType)q2; g_crt[0] = (WasmValueType)r;
    g_cft.parameterCount = NPAR; g_cft.parameterTypes = g_cpt; g_cft.resultCount = NRES; g_cft.resultTypes = g_crt;
    g_mod.functionTypes.functionTypes = &g_cft; g_mod.functionTypes.count = 1;
    g_fns[0].functionTypeIndex = 0; g_fns[1].functionTypeIndex = 0; g_fns[2].functionTypeIndex = 0; g_fns[3].functionTypeIndex = 0;
    g_mod.functions.functions = g_fns; g_mod.functions.count = nf;
    CALL_F = f; CALL_R = r;
    /* immediates: call f | call_indirect typeidx 0, table 0 - padded LEB128 */
    if (!indirect) { g_code[0] = (U8)((f & 0x7f) | 0x80); g_code[1] = (U8)(((f >> 7) & 0x7f) | 0x80); g_code[2] = (U8)(((f >> 14) & 0x7f) | 0x80); g_code[3] = (U8)(((f >> 21) & 0x7f) | 0x80); g_code[4] = (U8)(f >> 28); L = 5; }
    else { g_code[0] = 0x80; g_code[1] = 0x00; g_code[2] = 0x80; g_code[3] = 0x80; g_code[4] = 0x00; L = 5; }
    g_codebuf.data = g_code; g_codebuf.length = L; w.code = &g_codebuf; }
void h_call(void) { bool ok; unsigned j; setup(NPAR); call_setup(0);
    if (NRES) { X_SLOTREF(H0 - NPAR, CALL_R); X_LITERAL("="); }
    X_LITERAL("f"); X_EVENT(SB_U32, CALL_F); X_LITERAL("(i");
    for (j = 0; j < NPAR; j++) { X_LITERAL(","); X_SLOTREF(H0 - NPAR + j, g_cpt[j]); }
    X_LITERAL(");");
    ok = wasmCWriteCallExpr(&w);
    SUCCEEDS(ok, "call");
    OBL(X_MATCHED, "call: writes  [s<R><h-P> =] f<index>(i, s<PT0><h-P>, ..., s<PT(P-1)><h-1>);  arguments in declaration order from the deepest slot, declared parameter types, result in the first argument's slot");
    OBL(g_codebuf.length == 0, "call: consumes exactly its immediate");
    post_stack_n(NPAR, NRES, (WasmValueType)CALL_R); CANARY("call"); }
void h_call_indirect(void) { bool ok; unsigned j; setup(NPAR + 1); call_setup(1);
    if (NRES) { X_SLOTREF(H0 - 1 - NPAR, CALL_R); X_LITERAL("="); }
    X_LITERAL("TF(i->t"); X_EVENT(SB_U32, 0); X_LITERAL(","); X_SLOTREF(H0 - 1, T[0]); X_LITERAL(",");
    if (NRES) X_STRING_OBJECT(valueTypeNames[CALL_R & 3]); else X_LITERAL("void");
    X_LITERAL("(*)(modInstance*");
    for (j = 0; j < NPAR; j++) { X_LITERAL(","); X_STRING_OBJECT(valueTypeNames[g_cpt[j] & 3]); }
    X_LITERAL("))(i");
    for (j = 0; j < NPAR; j++) { X_LITERAL(","); X_SLOTREF(H0 - 1 - NPAR + j, g_cpt[j]); }
    X_LITERAL(");");
    ok = wasmCWriteCallIndirectExpr(&w);
    SUCCEEDS(ok, "call_indirect");
    OBL(X_MATCHED, "call_indirect: writes  [s<R><h-1-P> =] TF(i->t0, s<T0><h-1>, R (*)(modInstance*, PT...))(i, s<PT0><h-1-P>, ...);  the table index is the TOP slot, the arguments lie below it in order, the cast spells the declared signature");
    OBL(g_codebuf.length == 0, "call_indirect: consumes exactly its immediates (padded encodings too)");
    post_stack_n(NPAR + 1, NRES, (WasmValueType)CALL_R); CANARY("call_indirect"); }

/* ---- branches: br / br_if to a label at ANY relative depth of a label stack of ANY length, from ANY stack height: the carried value
 * (if the label has a result type) is copied from the top slot to the label's result slot - the slot at the height recorded when the
 * label was pushed - unless it already is that slot; the operand stack itself is not changed by the jump (the `end` restores it) ---- */
#ifndef BR_CLASS
#define BR_CLASS 0      /* 0: typed label, value must be copied; 1: typed label, value already in place; 2: label without result */
#endif
static WasmLabel* g_labels; static WasmValueType g_ltype; static size_t BR_D; static U32 BR_LI; static unsigned BR_R; static WasmValueType BR_OLDD;
static void br_setup(size_t top_after_pops) { ND(size_t, ln); ND(U32, rel); ND(U32, li); ND(size_t, dd); ND(unsigned, r); ND(unsigned, oldd); size_t pos;
    ASSUME(ln >= 1 && ln <= (1u << 16) && rel < ln && r <= 3 && oldd <= 15);
    g_labels = (WasmLabel*)malloc(ln * sizeof(WasmLabel)); ASSUME(g_labels != 0);
    ls.labels.labels = g_labels; ls.labels.length = ln; ls.labels.capacity = ln; ls.nextLabelIndex = 0;
    pos = ln - 1 - rel; g_ltype = (WasmValueType)r;
    /* validation: a label's height is at most the height of the stack below the carried value */
#if BR_CLASS == 0
    ASSUME(dd < top_after_pops);
#elif BR_CLASS == 1
    ASSUME(dd == top_after_pops);
#else
    ASSUME(dd <= top_after_pops + 1);
#endif
    g_labels[pos].index = li; g_labels[pos].typeStackLength = dd; g_labels[pos].type = (BR_CLASS == 2) ? (WasmValueType*)0 : &g_ltype;
    BR_D = dd; BR_LI = li; BR_R = r;
    if (BR_CLASS == 0) { ASSUME(!HAS_KD || KD != dd); if (dd < decl.length) { decl.valueTypes[dd] = (WasmValueType)oldd; BR_OLDD = (WasmValueType)oldd; } else BR_OLDD = (WasmValueType)0; }
    memset(&g_mod, 0, sizeof g_mod); w.module = &g_mod; w.ignore = false;
    /* immediate: relative depth, padded LEB128 */
    g_code[0] = (U8)((rel & 0x7f) | 0x80); g_code[1] = (U8)(((rel >> 7) & 0x7f) | 0x80); g_code[2] = (U8)(((rel >> 14) & 0x7f) | 0x80); g_code[3] = (U8)(((rel >> 21) & 0x7f) | 0x80); g_code[4] = (U8)(rel >> 28);
    g_codebuf.data = g_code; g_codebuf.length = 5; w.code = &g_codebuf; }
static void x_goto(size_t src_idx, unsigned src_t) {
    if (BR_CLASS == 0) { X_SLOTREF(BR_D, BR_R); X_LITERAL("="); X_SLOTREF(src_idx, src_t); X_LITERAL(";"); }
    X_LITERAL("gotoL"); X_EVENT(SB_U32, BR_LI); X_LITERAL(";"); }
static void br_post(size_t newlen) {
    OBL(g_codebuf.length == 0, "branch: consumes exactly its immediate");
    OBL(ts.length == newlen, "branch: the operand stack is left as it is for the code that follows in the same block (apart from br_if's condition)");
    if (newlen > 0) OBL(ts.valueTypes[newlen - 1] == T[H0 - newlen], "branch: the carried value stays on the stack");
    if (H0 > 2) OBL(ts.valueTypes[K] == OLDK, "branch: entries below are unchanged (ghost index)");
    if (BR_CLASS == 0) OBL(decl.valueTypes[BR_D] == (WasmValueType)(BR_OLDD | (1u << BR_R)), "branch: the label's result variable (slot at the label's height, label's result type) is declared");
    if (HAS_KD) OBL(decl.valueTypes[KD] == OLDKD, "branch: no other slot's declarations change (ghost index)");
    OBL(ls.labels.length > 0 && g_labels[ls.labels.length - 1 - 0].index == g_labels[ls.labels.length - 1].index, "branch: the label stack is not changed"); }
void h_br(void) { bool ok; setup(1); ASSUME(H0 >= 1); br_setup(H0 - 1);
    x_goto(H0 - 1, T[0]);
    ok = wasmCWriteBranchExpr(&w);
    SUCCEEDS(ok, "br");
    OBL(X_MATCHED, "br: writes  [s<R><label height> = s<T0><h-1>;] goto L<label index>;  the label is the one at the given RELATIVE depth from the top of the label stack");
    br_post(H0); CANARY("br"); }
void h_br_if(void) { bool ok; setup(2); ASSUME(H0 >= 2); br_setup(H0 - 2);
    X_LITERAL("if("); X_SLOTREF(H0 - 1, T[0]); X_LITERAL("){"); x_goto(H0 - 2, T[1]); X_LITERAL("}");
    ok = wasmCWriteBranchIfExpr(&w);
    SUCCEEDS(ok, "br_if");
    OBL(X_MATCHED, "br_if: writes  if (s<T0><h-1>) { [s<R><label height> = s<T1><h-2>;] goto L<label index>; }  the condition is popped first, the copy and the jump are BOTH inside the braces");
    br_post(H0 - 1); CANARY("br_if"); }
