/* C17: futex/list.c, futex/map.c, futex/futex.c of the repository (#included whole).
 *  - ADT contracts for the list and the map (colliding keys included),
 *  - monitor (rely/guarantee) obligations on wasmMemoryAtomicWait / wasmMemoryAtomicNotify:
 *    pthread_mutex_* is env/mutex_monitor.h, the condition variable is modelled here. */
#define MON_MAX 16
#include "mutex_monitor.h"
#include <time.h>
#include <errno.h>
/* ---- condition variable model ---- */
static int g_cond_waits = 0, g_signals = 0; static void* g_signalled[4];
static void cw_hook(pthread_cond_t* c, int timed);
int pthread_cond_init(pthread_cond_t* c, const pthread_condattr_t* a) { (void)c; (void)a; return 0; }
int pthread_cond_destroy(pthread_cond_t* c) { (void)c; return 0; }
int pthread_cond_signal(pthread_cond_t* c) { OBL(g_mutex_held, "notify: condition variables are signalled while holding the memory mutex"); if (g_signals < 4) g_signalled[g_signals] = c; g_signals++; return 0; }
static int g_timed_out = 0;
int pthread_cond_wait(pthread_cond_t* c, pthread_mutex_t* m) { (void)m; cw_hook(c, 0); return 0; }
int pthread_cond_timedwait(pthread_cond_t* c, pthread_mutex_t* m, const struct timespec* t) { (void)m; (void)t; cw_hook(c, 1); return g_timed_out ? ETIMEDOUT : 0; }
int clock_gettime(clockid_t id, struct timespec* ts) { (void)id; ts->tv_sec = 1; ts->tv_nsec = 0; return 0; }

#include "futex.c"
#include "list.c"
#include "map.c"
#include "wasm_int.h"
#include "trapstub.h"

/* ================= list ADT ================= */
static int list_wf(ListLink* head, ListLink** elems, int n) {   /* head..: exactly elems[0..n) in order, prev/next consistent */
    int i; ListLink* p = head; ListLink* prev = 0;
    for (i = 0; i < n; i++) { if (p != elems[i] || p->prev != prev) return 0; prev = p; p = p->next; }
    return p == 0;
}
void h_list(void) {
    static ListLink a, b, c, x; ListLink* e[4]; ListLink* head; ND(int, n); ND(int, which); ListLink* r;
    ASSUME(n >= 0 && n <= 3 && which >= 0 && which < 4);
    listInitialize(&a); listInitialize(&b); listInitialize(&c); listInitialize(&x);
    head = 0;
    if (n >= 3) head = listPrepend(head, &c);
    if (n >= 2) head = listPrepend(head, &b);
    if (n >= 1) head = listPrepend(head, &a);
    e[0] = &a; e[1] = &b; e[2] = &c;
    OBL(list_wf(head, e, n), "list: prepend builds the sequence in reverse insertion order with consistent prev/next links");
    r = listPrepend(head, &x);
    { ListLink* e2[4]; e2[0] = &x; e2[1] = &a; e2[2] = &b; e2[3] = &c; OBL(r == &x && list_wf(r, e2, n + 1), "listPrepend: the new element becomes the head, the rest is unchanged"); }
    /* remove element `which` of x,a,b,c (if present) */
    if (which <= n) {
        ListLink* all[4]; ListLink* rest[4]; int i, m = 0; ListLink* victim;
        all[0] = &x; all[1] = &a; all[2] = &b; all[3] = &c;
        victim = all[which];
        for (i = 0; i <= n; i++) if (i != which) rest[m++] = all[i];
        r = listRemove(r, victim);
        OBL(list_wf(r, rest, n), "listRemove: exactly the element is unlinked (head, middle or tail), the result is the head of the remaining sequence");
        OBL(victim->prev == 0 && victim->next == 0, "listRemove: the removed element is detached");
    }
    CANARY("list returns");
}

/* ================= map ADT (bucket collisions) ================= */
#define MB 4u
void h_map(void) {
    Map map; ND(U32, k0); ND(int, n); ND(int, which); ND(U32, probe); U32 keys[3]; void** slot[3]; static int v0, v1, v2; void* vals[3]; int i; void* rv;
    ASSUME(n >= 1 && n <= 3 && which >= 0 && which < n && k0 <= 0xFFFFFF00u);
    keys[0] = k0; keys[1] = k0 + MB; keys[2] = k0 + 2 * MB;            /* all in the same bucket */
    vals[0] = &v0; vals[1] = &v1; vals[2] = &v2;
    mapInitialize(&map, MB); ASSUME(map.buckets != 0);
    for (i = 0; i < n; i++) { slot[i] = mapInsert(&map, keys[i]); ASSUME(slot[i] != 0); *slot[i] = vals[i]; }
    for (i = 0; i < n; i++) { void** g = mapGet(&map, keys[i]); OBL(g == slot[i] && *g == vals[i], "mapGet: finds exactly the inserted key's value cell, also when keys collide in a bucket"); }
    OBL((probe == keys[0] || (n > 1 && probe == keys[1]) || (n > 2 && probe == keys[2])) || mapGet(&map, probe) == 0, "mapGet: a key that was not inserted is not found");
    rv = mapRemove(&map, keys[which]);
    OBL(rv == vals[which], "mapRemove: returns the removed key's value");
    OBL(mapGet(&map, keys[which]) == 0, "mapRemove: the key is gone");
    for (i = 0; i < n; i++) if (i != which) { void** g = mapGet(&map, keys[i]); OBL(g == slot[i] && *g == vals[i], "mapRemove: every other key of the bucket is still found with its value (head or non-head removal)"); }
    { MapNode* hd = map.buckets[k0 % MB]; OBL(hd == 0 || hd->link.prev == 0, "mapRemove: the bucket head has no predecessor"); OBL((n == 1) == (hd == 0), "mapRemove: the bucket is empty iff its last key was removed"); }
    CANARY("map returns");
}

/* ================= monitor obligations ================= */
static wasmMemory g_m; static U8 g_cells[16]; static Map* g_fm;
static Wait g_w1, g_w2, g_w3;                 /* other threads' waiters: w1,w2 on address A (w1 is the list head), w3 on a colliding address */
static U32 g_A; static int g_nA, g_nB;
static void setup(U32 A, int nA, int nB, int s1, int s2, int s3) {
    g_m.data = g_cells; g_m.size = 16; g_m.pages = 1; g_m.maxPages = 1; g_m.shared = 1; g_m.futex = 0; g_m.futexFree = 0;
    g_A = A; g_nA = nA; g_nB = nB; g_fm = 0;
    g_mutex_held = 0; g_mutex_locks = 0; g_cond_waits = 0; g_signals = 0;
    if (nA > 0 || nB > 0) {
        g_fm = (Map*)calloc(1, sizeof(Map)); ASSUME(g_fm != 0); mapInitialize(g_fm, FUTEX_BUCKET_COUNT); ASSUME(g_fm->buckets != 0);
        g_m.futex = g_fm; g_m.futexFree = futexMapFree;
    }
    listInitialize(&g_w1.link); listInitialize(&g_w2.link); listInitialize(&g_w3.link);
    g_w1.status = (WaitStatus)s1; g_w2.status = (WaitStatus)s2; g_w3.status = (WaitStatus)s3;
    if (nB > 0) { Wait** l = (Wait**)mapInsert(g_fm, A + FUTEX_BUCKET_COUNT); ASSUME(l != 0); *l = (Wait*)listPrepend((ListLink*)*l, &g_w3.link); }
    if (nA > 0) { Wait** l = (Wait**)mapInsert(g_fm, A); ASSUME(l != 0);
        if (nA > 1) *l = (Wait*)listPrepend((ListLink*)*l, &g_w2.link);
        *l = (Wait*)listPrepend((ListLink*)*l, &g_w1.link); }
}
static Wait* list_of(U32 addr) { void** v; if (!g_m.futex) return 0; v = mapGet((Map*)g_m.futex, addr); return v ? (Wait*)*v : 0; }

#ifndef WAIT_ADDR
#define WAIT_ADDR 8u
#endif
void h_notify(void) {
    U32 A = WAIT_ADDR; ND(int, nA); ND(int, nB); ND(int, s1); ND(int, s2); ND(int, s3); ND(U32, count); ND(int, shared); U32 r, want = 0; int o1, o2, o3;
    ASSUME(A <= 8 && nA >= 0 && nA <= 2 && nB >= 0 && nB <= 1 && s1 >= 0 && s1 <= 1 && s2 >= 0 && s2 <= 1 && s3 >= 0 && s3 <= 1);
    setup(A, nA, nB, s1, s2, s3); g_m.shared = shared ? true : false; o1 = s1; o2 = s2; o3 = s3;
    r = wasmMemoryAtomicNotify(&g_m, A, count);
    if (!shared) { OBL(r == 0 && g_mutex_locks == 0 && g_signals == 0, "notify: on a non-shared memory nothing is woken"); CANARY("notify returns"); return; }
    /* specification: walk the list of exactly this address in order, wake Waiting nodes until `count` are woken */
    if (nA >= 1 && o1 == waitStatusWaiting && want < count) want++;
    { int w1woken = (nA >= 1 && o1 == waitStatusWaiting && count >= 1);
      int w2woken = (nA >= 2 && o2 == waitStatusWaiting && count > (U32)(w1woken ? 1 : 0));
      want = (U32)w1woken + (U32)w2woken;
      OBL(r == want, "notify: returns exactly the number of waiters it woke: min(count, waiters still waiting on this address); already notified waiters are not counted again");
      OBL(nA < 1 || g_w1.status == (WaitStatus)(w1woken ? waitStatusNotified : o1), "notify: first waiter of this address is woken iff it was waiting and count allows");
      OBL(nA < 2 || g_w2.status == (WaitStatus)(w2woken ? waitStatusNotified : o2), "notify: second waiter likewise (at most count waiters are woken)");
      OBL(g_signals == (int)want && (!w1woken || g_signalled[0] == (void*)&g_w1.cond) && (!w2woken || g_signalled[w1woken ? 1 : 0] == (void*)&g_w2.cond), "notify: each woken waiter's condition variable is signalled exactly once"); }
    OBL(g_w3.status == (WaitStatus)o3, "notify: waiters of another address are never woken, even when it collides in the hash bucket");
    OBL(g_mutex_locks == 1 && g_mutex_held == 0, "notify: runs inside one critical section and releases the mutex on every path");
    OBL(list_of(A) == (nA >= 1 ? &g_w1 : 0) && list_of(A + FUTEX_BUCKET_COUNT) == (nB ? &g_w3 : 0), "notify: the wait lists themselves are unchanged");
    CANARY("notify returns");
}

/* wait: what another thread / the OS does while we are blocked */
#ifndef SPURIOUS_MAX
#define SPURIOUS_MAX 1
#endif
static U32 g_wait_addr; static int g_first_block_ok = 0; static Wait* g_me = 0; static int g_last_notified = 0;
static void cw_hook(pthread_cond_t* c, int timed) {
    Wait* me = (Wait*)((char*)c - offsetof(Wait, cond)); Wait* l; int found = 0, i;
    OBL(g_mutex_held, "wait: blocks only while holding the memory mutex (it is released atomically by the condition wait)");
    l = list_of(g_wait_addr);
    for (i = 0; i < 4 && l; i++) { if (l == me) found = 1; l = (Wait*)l->link.next; }
    if (g_cond_waits == 0) {
        OBL(found, "wait: when it first blocks, the waiter is in the wait list of ITS effective address (visible to every later notify)");
        OBL(me->status == waitStatusWaiting, "wait: when it first blocks, the waiter is marked waiting");
        g_me = me; g_first_block_ok = found;
    }
    g_cond_waits++;
    /* while blocked: a notifier may wake us (it flips the status under the mutex); the OS may wake us spuriously; a timed wait may time out */
    { ND(int, notified); ND(int, timeout_now);
      if (g_cond_waits > SPURIOUS_MAX) { if (timed) { ASSUME(notified || timeout_now); } else { ASSUME(notified); } }   /* bounded number of spurious returns */
      if (notified) me->status = waitStatusNotified;
      g_timed_out = (timed && timeout_now && !notified) ? 1 : 0;
      if (timed && timeout_now && notified) { ND(int, both); g_timed_out = both ? 1 : 0; }    /* notified and timed out at the same time */
      g_last_notified = (me->status == waitStatusNotified);
    }
}
void h_wait(void) {
    /* the address is a build-time constant of the harness (bucket index of the 1024-bucket table then is a constant; the
     * address-generic behaviour of the map is the ADT contract h_map); the colliding address is A + 1024 */
    U32 A = WAIT_ADDR; ND(int, nA); ND(int, nB); ND(int, s1); ND(int, s2); ND(int, s3); ND(U64, expect); ND(I64, timeout); ND(int, wait64); ND(U64, c_lo); ND(U64, c_hi);
    U32 r; U64 cur; int i;
    ASSUME(A <= 8 && (A % (wait64 ? 8 : 4)) == 0 && nA >= 0 && nA <= 2 && nB >= 0 && nB <= 1 && s1 >= 0 && s1 <= 1 && s2 >= 0 && s2 <= 1 && s3 >= 0 && s3 <= 1);
    setup(A, nA, nB, s1, s2, s3); memcpy(g_cells, &c_lo, 8); memcpy(g_cells + 8, &c_hi, 8);
    g_wait_addr = A; g_me = 0; g_timed_out = 0;
    /* rely: until we own the mutex other threads may store to the cell; the value that counts is the one at lock acquisition */
    { static U8 snap[16]; g_mon_data = g_cells; g_mon_old = snap; g_mon_len = 16;
      r = wasmMemoryAtomicWait(&g_m, A, expect, timeout, wait64 ? true : false);
      g_mon_data = 0; g_mon_old = 0;
      OBL(g_mutex_locks >= 1, "wait: takes the memory mutex");
      cur = 0; for (i = 0; i < (wait64 ? 8 : 4); i++) cur |= (U64)snap[A + i] << (8 * i); }
    OBL(g_mutex_held == 0, "wait: the memory mutex is released on every path");
    if (cur != (wait64 ? expect : (U64)(U32)expect)) {
        OBL(r == 1 && g_cond_waits == 0, "wait: returns 1 (not-equal) immediately, without blocking, when the cell - as loaded WHILE HOLDING the mutex - differs from the expected value");
        OBL(list_of(A) == (nA ? &g_w1 : 0), "wait: a not-equal wait leaves the wait lists unchanged");
    } else {
        OBL(g_cond_waits >= 1, "wait: blocks when the cell, loaded while holding the mutex, equals the expected value (no notify can slip in between the comparison and the enqueue)");
        OBL(r == 0 || r == 2, "wait: returns 0 (woken) or 2 (timed out)");
        OBL(r != 2 || timeout >= 0, "wait: an infinite wait never times out");
        OBL((r == 0) == (g_last_notified != 0), "wait: returns 0 exactly when a notify marked this waiter (each waiter is counted by the notify that woke it), 2 exactly when it timed out while still waiting");
        OBL(list_of(A) == (nA ? &g_w1 : 0), "wait: on return the waiter is unlinked; the list of its address holds exactly the other waiters; the bucket entry is removed iff the list became empty");
        OBL(nA == 0 || (g_w1.link.prev == 0 && g_w1.link.next == (nA == 2 ? &g_w2.link : 0)), "wait: the remaining list is well-formed and complete");
    }
    OBL(list_of(A + FUTEX_BUCKET_COUNT) == (nB ? &g_w3 : 0) && g_w3.status == (WaitStatus)s3, "wait: wait lists of other (colliding) addresses are untouched");
    CANARY("wait returns");
}
/* return code 0 iff notified: checked with the status observed at the last wake-up */
