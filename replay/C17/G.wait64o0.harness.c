#include "vh.h"
#include "w2c2_base.h"
#include "wasm_int.h"
#include "trapstub.h"
#include "/verif/.work_wt/C17-17254/memrec/memrec.h"
#include "c17wn.c"
#include "wasm_int.h"
#include "libm_markers.h"
#include "trapstub.h"
static c17wnInstance inst;
static wasmMemory g_mem;
void h_notifyo0(void) {
  ND(U32, a0);
  ND(U32, a1);
  U32 r;
  g_mr_calls = 0; g_libm_calls = 0;
  inst.m0 = &g_mem;
  ASSUME((U64)a0 + 0ull <= 0xFFFFFFFFull);
  g_spec_trap = SPEC_NOTRAP;
  r = c17wn_notifyo0(&inst, a0, a1);
  OBL(g_spec_trap == SPEC_NOTRAP, "notifyo0: returned normally only if the specification does not trap");
  OBL(g_mr_calls == 1 && g_mr_id == MR_notify && g_mr_mem == inst.m0 && g_mr_addr == (U64)a0 + 0ull && g_mr_v0 == a1, "notifyo0: memory.atomic.notify is called on the EFFECTIVE address (address operand + static offset) with the count operand");
  OBL(r == (U32)g_mr_ret, "notifyo0: the number of woken waiters is delivered");
  CANARY("notifyo0 returns");
}
void h_wait32o0(void) {
  ND(U32, a0);
  ND(U32, a1);
  ND(U64, a2);
  U32 r;
  g_mr_calls = 0; g_libm_calls = 0;
  inst.m0 = &g_mem;
  ASSUME((U64)a0 + 0ull <= 0xFFFFFFFFull);
  g_spec_trap = SPEC_NOTRAP;
  r = c17wn_wait32o0(&inst, a0, a1, a2);
  OBL(g_spec_trap == SPEC_NOTRAP, "wait32o0: returned normally only if the specification does not trap");
  OBL(g_mr_calls == 1 && g_mr_id == MR_wait && g_mr_mem == inst.m0 && g_mr_addr == (U64)a0 + 0ull && (U32)g_mr_v0 == a1 && g_mr_v1 == a2 && g_mr_v2 == 0, "wait32o0: memory.atomic.wait32 examines the cell at the effective address, with (expected, timeout) in operand order, 32-bit form");
  OBL(r == (U32)g_mr_ret, "wait32o0: the wait result is delivered");
  CANARY("wait32o0 returns");
}
void h_wait64o0(void) {
  ND(U32, a0);
  ND(U64, a1);
  ND(U64, a2);
  U32 r;
  g_mr_calls = 0; g_libm_calls = 0;
  inst.m0 = &g_mem;
  ASSUME((U64)a0 + 0ull <= 0xFFFFFFFFull);
  g_spec_trap = SPEC_NOTRAP;
  r = c17wn_wait64o0(&inst, a0, a1, a2);
  OBL(g_spec_trap == SPEC_NOTRAP, "wait64o0: returned normally only if the specification does not trap");
  OBL(g_mr_calls == 1 && g_mr_id == MR_wait && g_mr_mem == inst.m0 && g_mr_addr == (U64)a0 + 0ull && g_mr_v0 == a1 && g_mr_v1 == a2 && g_mr_v2 == 1, "wait64o0: memory.atomic.wait64 examines the cell at the effective address, 64-bit form");
  OBL(r == (U32)g_mr_ret, "wait64o0: the wait result is delivered");
  CANARY("wait64o0 returns");
}
void h_notifyo10(void) {
  ND(U32, a0);
  ND(U32, a1);
  U32 r;
  g_mr_calls = 0; g_libm_calls = 0;
  inst.m0 = &g_mem;
  ASSUME((U64)a0 + 16ull <= 0xFFFFFFFFull);
  g_spec_trap = SPEC_NOTRAP;
  r = c17wn_notifyo10(&inst, a0, a1);
  OBL(g_spec_trap == SPEC_NOTRAP, "notifyo10: returned normally only if the specification does not trap");
  OBL(g_mr_calls == 1 && g_mr_id == MR_notify && g_mr_mem == inst.m0 && g_mr_addr == (U64)a0 + 16ull && g_mr_v0 == a1, "notifyo10: memory.atomic.notify is called on the EFFECTIVE address (address operand + static offset) with the count operand");
  OBL(r == (U32)g_mr_ret, "notifyo10: the number of woken waiters is delivered");
  CANARY("notifyo10 returns");
}
void h_wait32o10(void) {
  ND(U32, a0);
  ND(U32, a1);
  ND(U64, a2);
  U32 r;
  g_mr_calls = 0; g_libm_calls = 0;
  inst.m0 = &g_mem;
  ASSUME((U64)a0 + 16ull <= 0xFFFFFFFFull);
  g_spec_trap = SPEC_NOTRAP;
  r = c17wn_wait32o10(&inst, a0, a1, a2);
  OBL(g_spec_trap == SPEC_NOTRAP, "wait32o10: returned normally only if the specification does not trap");
  OBL(g_mr_calls == 1 && g_mr_id == MR_wait && g_mr_mem == inst.m0 && g_mr_addr == (U64)a0 + 16ull && (U32)g_mr_v0 == a1 && g_mr_v1 == a2 && g_mr_v2 == 0, "wait32o10: memory.atomic.wait32 examines the cell at the effective address, with (expected, timeout) in operand order, 32-bit form");
  OBL(r == (U32)g_mr_ret, "wait32o10: the wait result is delivered");
  CANARY("wait32o10 returns");
}
void h_wait64o10(void) {
  ND(U32, a0);
  ND(U64, a1);
  ND(U64, a2);
  U32 r;
  g_mr_calls = 0; g_libm_calls = 0;
  inst.m0 = &g_mem;
  ASSUME((U64)a0 + 16ull <= 0xFFFFFFFFull);
  g_spec_trap = SPEC_NOTRAP;
  r = c17wn_wait64o10(&inst, a0, a1, a2);
  OBL(g_spec_trap == SPEC_NOTRAP, "wait64o10: returned normally only if the specification does not trap");
  OBL(g_mr_calls == 1 && g_mr_id == MR_wait && g_mr_mem == inst.m0 && g_mr_addr == (U64)a0 + 16ull && g_mr_v0 == a1 && g_mr_v1 == a2 && g_mr_v2 == 1, "wait64o10: memory.atomic.wait64 examines the cell at the effective address, 64-bit form");
  OBL(r == (U32)g_mr_ret, "wait64o10: the wait result is delivered");
  CANARY("wait64o10 returns");
}
void h_notifyofffffff0(void) {
  ND(U32, a0);
  ND(U32, a1);
  U32 r;
  g_mr_calls = 0; g_libm_calls = 0;
  inst.m0 = &g_mem;
  ASSUME((U64)a0 + 4294967280ull <= 0xFFFFFFFFull);
  g_spec_trap = SPEC_NOTRAP;
  r = c17wn_notifyofffffff0(&inst, a0, a1);
  OBL(g_spec_trap == SPEC_NOTRAP, "notifyofffffff0: returned normally only if the specification does not trap");
  OBL(g_mr_calls == 1 && g_mr_id == MR_notify && g_mr_mem == inst.m0 && g_mr_addr == (U64)a0 + 4294967280ull && g_mr_v0 == a1, "notifyofffffff0: memory.atomic.notify is called on the EFFECTIVE address (address operand + static offset) with the count operand");
  OBL(r == (U32)g_mr_ret, "notifyofffffff0: the number of woken waiters is delivered");
  CANARY("notifyofffffff0 returns");
}
void h_wait32offfffff0(void) {
  ND(U32, a0);
  ND(U32, a1);
  ND(U64, a2);
  U32 r;
  g_mr_calls = 0; g_libm_calls = 0;
  inst.m0 = &g_mem;
  ASSUME((U64)a0 + 4294967280ull <= 0xFFFFFFFFull);
  g_spec_trap = SPEC_NOTRAP;
  r = c17wn_wait32offfffff0(&inst, a0, a1, a2);
  OBL(g_spec_trap == SPEC_NOTRAP, "wait32offfffff0: returned normally only if the specification does not trap");
  OBL(g_mr_calls == 1 && g_mr_id == MR_wait && g_mr_mem == inst.m0 && g_mr_addr == (U64)a0 + 4294967280ull && (U32)g_mr_v0 == a1 && g_mr_v1 == a2 && g_mr_v2 == 0, "wait32offfffff0: memory.atomic.wait32 examines the cell at the effective address, with (expected, timeout) in operand order, 32-bit form");
  OBL(r == (U32)g_mr_ret, "wait32offfffff0: the wait result is delivered");
  CANARY("wait32offfffff0 returns");
}
void h_wait64offfffff0(void) {
  ND(U32, a0);
  ND(U64, a1);
  ND(U64, a2);
  U32 r;
  g_mr_calls = 0; g_libm_calls = 0;
  inst.m0 = &g_mem;
  ASSUME((U64)a0 + 4294967280ull <= 0xFFFFFFFFull);
  g_spec_trap = SPEC_NOTRAP;
  r = c17wn_wait64offfffff0(&inst, a0, a1, a2);
  OBL(g_spec_trap == SPEC_NOTRAP, "wait64offfffff0: returned normally only if the specification does not trap");
  OBL(g_mr_calls == 1 && g_mr_id == MR_wait && g_mr_mem == inst.m0 && g_mr_addr == (U64)a0 + 4294967280ull && g_mr_v0 == a1 && g_mr_v1 == a2 && g_mr_v2 == 1, "wait64offfffff0: memory.atomic.wait64 examines the cell at the effective address, 64-bit form");
  OBL(r == (U32)g_mr_ret, "wait64offfffff0: the wait result is delivered");
  CANARY("wait64offfffff0 returns");
}
