#include "vh.h"
#include "c02flt.c"
#include "wasm_int.h"
#include "wasm_float.h"
#include "libm_markers.h"
#include "trapstub.h"
static c02fltInstance inst;
void h_f32addc0(void) {
  ND(F32, a0);
  ND(F32, a1);
  F32 r;
  g_libm_calls = 0;
  g_spec_trap = SPEC_NOTRAP;
  r = c02flt_f32addc0(&inst, a0, a1);
  OBL(g_spec_trap == SPEC_NOTRAP, "f32addc0: returned normally only if the specification does not trap");
  { F32 s_ = spec_f32_add(a0, a1);
  OBL(spec_isnan32(spec_f32_bits(s_)) || spec_f32_bits(r) == spec_f32_bits(s_), "f32addc0: a non-NaN specified result is delivered bit-exactly");
  OBL(!spec_isnan32(spec_f32_bits(s_)) || spec_isnan32(spec_f32_bits(r)), "f32addc0: the result is a NaN where the specification yields a NaN"); }
  OBL(g_libm_calls == 0, "f32addc0: no library call is involved");
  CANARY("f32addc0 returns");
}
void h_f32addc1(void) {
  ND(F32, a0);
  ND(F32, a1);
  ND(U64, a2);
  ND(F32, a3);
  F32 r;
  g_libm_calls = 0;
  g_spec_trap = SPEC_NOTRAP;
  r = c02flt_f32addc1(&inst, a0, a1, a2, a3);
  OBL(g_spec_trap == SPEC_NOTRAP, "f32addc1: returned normally only if the specification does not trap");
  { F32 s_ = spec_f32_add(a0, a1);
  OBL(spec_isnan32(spec_f32_bits(s_)) || spec_f32_bits(r) == spec_f32_bits(s_), "f32addc1: a non-NaN specified result is delivered bit-exactly");
  OBL(!spec_isnan32(spec_f32_bits(s_)) || spec_isnan32(spec_f32_bits(r)), "f32addc1: the result is a NaN where the specification yields a NaN"); }
  OBL(((inst.g1) == (a2)), "f32addc1: value two below the operands survives");
  OBL((vh_f32bits(inst.g2) == vh_f32bits(a3)), "f32addc1: value directly below the operands survives");
  OBL(g_libm_calls == 0, "f32addc1: no library call is involved");
  CANARY("f32addc1 returns");
}
void h_f32addc2(void) {
  ND(F32, a0);
  ND(F32, a1);
  ND(U32, a2);
  U32 r;
  g_libm_calls = 0;
  ASSUME(!spec_isnan32(vh_f32bits(spec_f32_add(a0, a1))));
  g_spec_trap = SPEC_NOTRAP;
  r = c02flt_f32addc2(&inst, a0, a1, a2);
  OBL(g_spec_trap == SPEC_NOTRAP, "f32addc2: returned normally only if the specification does not trap");
  OBL(((r) == ((a2 ^ vh_f32bits(spec_f32_add(a0, a1))))), "f32addc2: result equals the specified value");
  OBL(g_libm_calls == 0, "f32addc2: no library call is involved");
  CANARY("f32addc2 returns");
}
void h_f32subc0(void) {
  ND(F32, a0);
  ND(F32, a1);
  F32 r;
  g_libm_calls = 0;
  g_spec_trap = SPEC_NOTRAP;
  r = c02flt_f32subc0(&inst, a0, a1);
  OBL(g_spec_trap == SPEC_NOTRAP, "f32subc0: returned normally only if the specification does not trap");
  { F32 s_ = spec_f32_sub(a0, a1);
  OBL(spec_isnan32(spec_f32_bits(s_)) || spec_f32_bits(r) == spec_f32_bits(s_), "f32subc0: a non-NaN specified result is delivered bit-exactly");
  OBL(!spec_isnan32(spec_f32_bits(s_)) || spec_isnan32(spec_f32_bits(r)), "f32subc0: the result is a NaN where the specification yields a NaN"); }
  OBL(g_libm_calls == 0, "f32subc0: no library call is involved");
  CANARY("f32subc0 returns");
}
void h_f32subc1(void) {
  ND(F32, a0);
  ND(F32, a1);
  ND(U64, a2);
  ND(F32, a3);
  F32 r;
  g_libm_calls = 0;
  g_spec_trap = SPEC_NOTRAP;
  r = c02flt_f32subc1(&inst, a0, a1, a2, a3);
  OBL(g_spec_trap == SPEC_NOTRAP, "f32subc1: returned normally only if the specification does not trap");
  { F32 s_ = spec_f32_sub(a0, a1);
  OBL(spec_isnan32(spec_f32_bits(s_)) || spec_f32_bits(r) == spec_f32_bits(s_), "f32subc1: a non-NaN specified result is delivered bit-exactly");
  OBL(!spec_isnan32(spec_f32_bits(s_)) || spec_isnan32(spec_f32_bits(r)), "f32subc1: the result is a NaN where the specification yields a NaN"); }
  OBL(((inst.g1) == (a2)), "f32subc1: value two below the operands survives");
  OBL((vh_f32bits(inst.g2) == vh_f32bits(a3)), "f32subc1: value directly below the operands survives");
  OBL(g_libm_calls == 0, "f32subc1: no library call is involved");
  CANARY("f32subc1 returns");
}
void h_f32subc2(void) {
  ND(F32, a0);
  ND(F32, a1);
  ND(U32, a2);
  U32 r;
  g_libm_calls = 0;
  ASSUME(!spec_isnan32(vh_f32bits(spec_f32_sub(a0, a1))));
  g_spec_trap = SPEC_NOTRAP;
  r = c02flt_f32subc2(&inst, a0, a1, a2);
  OBL(g_spec_trap == SPEC_NOTRAP, "f32subc2: returned normally only if the specification does not trap");
  OBL(((r) == ((a2 ^ vh_f32bits(spec_f32_sub(a0, a1))))), "f32subc2: result equals the specified value");
  OBL(g_libm_calls == 0, "f32subc2: no library call is involved");
  CANARY("f32subc2 returns");
}
void h_f32mulc0(void) {
  ND(F32, a0);
  ND(F32, a1);
  F32 r;
  g_libm_calls = 0;
  g_spec_trap = SPEC_NOTRAP;
  r = c02flt_f32mulc0(&inst, a0, a1);
  OBL(g_spec_trap == SPEC_NOTRAP, "f32mulc0: returned normally only if the specification does not trap");
  { F32 s_ = spec_f32_mul(a0, a1);
  OBL(spec_isnan32(spec_f32_bits(s_)) || spec_f32_bits(r) == spec_f32_bits(s_), "f32mulc0: a non-NaN specified result is delivered bit-exactly");
  OBL(!spec_isnan32(spec_f32_bits(s_)) || spec_isnan32(spec_f32_bits(r)), "f32mulc0: the result is a NaN where the specification yields a NaN"); }
  OBL(g_libm_calls == 0, "f32mulc0: no library call is involved");
  CANARY("f32mulc0 returns");
}
void h_f32mulc1(void) {
  ND(F32, a0);
  ND(F32, a1);
  ND(U64, a2);
  ND(F32, a3);
  F32 r;
  g_libm_calls = 0;
  g_spec_trap = SPEC_NOTRAP;
  r = c02flt_f32mulc1(&inst, a0, a1, a2, a3);
  OBL(g_spec_trap == SPEC_NOTRAP, "f32mulc1: returned normally only if the specification does not trap");
  { F32 s_ = spec_f32_mul(a0, a1);
  OBL(spec_isnan32(spec_f32_bits(s_)) || spec_f32_bits(r) == spec_f32_bits(s_), "f32mulc1: a non-NaN specified result is delivered bit-exactly");
  OBL(!spec_isnan32(spec_f32_bits(s_)) || spec_isnan32(spec_f32_bits(r)), "f32mulc1: the result is a NaN where the specification yields a NaN"); }
  OBL(((inst.g1) == (a2)), "f32mulc1: value two below the operands survives");
  OBL((vh_f32bits(inst.g2) == vh_f32bits(a3)), "f32mulc1: value directly below the operands survives");
  OBL(g_libm_calls == 0, "f32mulc1: no library call is involved");
  CANARY("f32mulc1 returns");
}
void h_f32mulc2(void) {
  ND(F32, a0);
  ND(F32, a1);
  ND(U32, a2);
  U32 r;
  g_libm_calls = 0;
  ASSUME(!spec_isnan32(vh_f32bits(spec_f32_mul(a0, a1))));
  g_spec_trap = SPEC_NOTRAP;
  r = c02flt_f32mulc2(&inst, a0, a1, a2);
  OBL(g_spec_trap == SPEC_NOTRAP, "f32mulc2: returned normally only if the specification does not trap");
  OBL(((r) == ((a2 ^ vh_f32bits(spec_f32_mul(a0, a1))))), "f32mulc2: result equals the specified value");
  OBL(g_libm_calls == 0, "f32mulc2: no library call is involved");
  CANARY("f32mulc2 returns");
}
void h_f32divc0(void) {
  ND(F32, a0);
  ND(F32, a1);
  F32 r;
  g_libm_calls = 0;
  g_spec_trap = SPEC_NOTRAP;
  r = c02flt_f32divc0(&inst, a0, a1);
  OBL(g_spec_trap == SPEC_NOTRAP, "f32divc0: returned normally only if the specification does not trap");
  { F32 s_ = spec_f32_div(a0, a1);
  OBL(spec_isnan32(spec_f32_bits(s_)) || spec_f32_bits(r) == spec_f32_bits(s_), "f32divc0: a non-NaN specified result is delivered bit-exactly");
  OBL(!spec_isnan32(spec_f32_bits(s_)) || spec_isnan32(spec_f32_bits(r)), "f32divc0: the result is a NaN where the specification yields a NaN"); }
  OBL(g_libm_calls == 0, "f32divc0: no library call is involved");
  CANARY("f32divc0 returns");
}
void h_f32divc1(void) {
  ND(F32, a0);
  ND(F32, a1);
  ND(U64, a2);
  ND(F32, a3);
  F32 r;
  g_libm_calls = 0;
  g_spec_trap = SPEC_NOTRAP;
  r = c02flt_f32divc1(&inst, a0, a1, a2, a3);
  OBL(g_spec_trap == SPEC_NOTRAP, "f32divc1: returned normally only if the specification does not trap");
  { F32 s_ = spec_f32_div(a0, a1);
  OBL(spec_isnan32(spec_f32_bits(s_)) || spec_f32_bits(r) == spec_f32_bits(s_), "f32divc1: a non-NaN specified result is delivered bit-exactly");
  OBL(!spec_isnan32(spec_f32_bits(s_)) || spec_isnan32(spec_f32_bits(r)), "f32divc1: the result is a NaN where the specification yields a NaN"); }
  OBL(((inst.g1) == (a2)), "f32divc1: value two below the operands survives");
  OBL((vh_f32bits(inst.g2) == vh_f32bits(a3)), "f32divc1: value directly below the operands survives");
  OBL(g_libm_calls == 0, "f32divc1: no library call is involved");
  CANARY("f32divc1 returns");
}
void h_f32divc2(void) {
  ND(F32, a0);
  ND(F32, a1);
  ND(U32, a2);
  U32 r;
  g_libm_calls = 0;
  ASSUME(!spec_isnan32(vh_f32bits(spec_f32_div(a0, a1))));
  g_spec_trap = SPEC_NOTRAP;
  r = c02flt_f32divc2(&inst, a0, a1, a2);
  OBL(g_spec_trap == SPEC_NOTRAP, "f32divc2: returned normally only if the specification does not trap");
  OBL(((r) == ((a2 ^ vh_f32bits(spec_f32_div(a0, a1))))), "f32divc2: result equals the specified value");
  OBL(g_libm_calls == 0, "f32divc2: no library call is involved");
  CANARY("f32divc2 returns");
}
void h_f32minc0(void) {
  ND(F32, a0);
  ND(F32, a1);
  F32 r;
  g_libm_calls = 0;
  g_spec_trap = SPEC_NOTRAP;
  r = c02flt_f32minc0(&inst, a0, a1);
  OBL(g_spec_trap == SPEC_NOTRAP, "f32minc0: returned normally only if the specification does not trap");
  { F32 s_ = spec_f32_min(a0, a1);
  OBL(spec_isnan32(spec_f32_bits(s_)) || spec_f32_bits(r) == spec_f32_bits(s_), "f32minc0: a non-NaN specified result is delivered bit-exactly");
  OBL(!spec_isnan32(spec_f32_bits(s_)) || spec_isnan32(spec_f32_bits(r)), "f32minc0: the result is a NaN where the specification yields a NaN"); }
  OBL(g_libm_calls == 0, "f32minc0: no library call is involved");
  CANARY("f32minc0 returns");
}
void h_f32minc1(void) {
  ND(F32, a0);
  ND(F32, a1);
  ND(U64, a2);
  ND(F32, a3);
  F32 r;
  g_libm_calls = 0;
  g_spec_trap = SPEC_NOTRAP;
  r = c02flt_f32minc1(&inst, a0, a1, a2, a3);
  OBL(g_spec_trap == SPEC_NOTRAP, "f32minc1: returned normally only if the specification does not trap");
  { F32 s_ = spec_f32_min(a0, a1);
  OBL(spec_isnan32(spec_f32_bits(s_)) || spec_f32_bits(r) == spec_f32_bits(s_), "f32minc1: a non-NaN specified result is delivered bit-exactly");
  OBL(!spec_isnan32(spec_f32_bits(s_)) || spec_isnan32(spec_f32_bits(r)), "f32minc1: the result is a NaN where the specification yields a NaN"); }
  OBL(((inst.g1) == (a2)), "f32minc1: value two below the operands survives");
  OBL((vh_f32bits(inst.g2) == vh_f32bits(a3)), "f32minc1: value directly below the operands survives");
  OBL(g_libm_calls == 0, "f32minc1: no library call is involved");
  CANARY("f32minc1 returns");
}
void h_f32minc2(void) {
  ND(F32, a0);
  ND(F32, a1);
  ND(U32, a2);
  U32 r;
  g_libm_calls = 0;
  ASSUME(!spec_isnan32(vh_f32bits(spec_f32_min(a0, a1))));
  g_spec_trap = SPEC_NOTRAP;
  r = c02flt_f32minc2(&inst, a0, a1, a2);
  OBL(g_spec_trap == SPEC_NOTRAP, "f32minc2: returned normally only if the specification does not trap");
  OBL(((r) == ((a2 ^ vh_f32bits(spec_f32_min(a0, a1))))), "f32minc2: result equals the specified value");
  OBL(g_libm_calls == 0, "f32minc2: no library call is involved");
  CANARY("f32minc2 returns");
}
void h_f32maxc0(void) {
  ND(F32, a0);
  ND(F32, a1);
  F32 r;
  g_libm_calls = 0;
  g_spec_trap = SPEC_NOTRAP;
  r = c02flt_f32maxc0(&inst, a0, a1);
  OBL(g_spec_trap == SPEC_NOTRAP, "f32maxc0: returned normally only if the specification does not trap");
  { F32 s_ = spec_f32_max(a0, a1);
  OBL(spec_isnan32(spec_f32_bits(s_)) || spec_f32_bits(r) == spec_f32_bits(s_), "f32maxc0: a non-NaN specified result is delivered bit-exactly");
  OBL(!spec_isnan32(spec_f32_bits(s_)) || spec_isnan32(spec_f32_bits(r)), "f32maxc0: the result is a NaN where the specification yields a NaN"); }
  OBL(g_libm_calls == 0, "f32maxc0: no library call is involved");
  CANARY("f32maxc0 returns");
}
void h_f32maxc1(void) {
  ND(F32, a0);
  ND(F32, a1);
  ND(U64, a2);
  ND(F32, a3);
  F32 r;
  g_libm_calls = 0;
  g_spec_trap = SPEC_NOTRAP;
  r = c02flt_f32maxc1(&inst, a0, a1, a2, a3);
  OBL(g_spec_trap == SPEC_NOTRAP, "f32maxc1: returned normally only if the specification does not trap");
  { F32 s_ = spec_f32_max(a0, a1);
  OBL(spec_isnan32(spec_f32_bits(s_)) || spec_f32_bits(r) == spec_f32_bits(s_), "f32maxc1: a non-NaN specified result is delivered bit-exactly");
  OBL(!spec_isnan32(spec_f32_bits(s_)) || spec_isnan32(spec_f32_bits(r)), "f32maxc1: the result is a NaN where the specification yields a NaN"); }
  OBL(((inst.g1) == (a2)), "f32maxc1: value two below the operands survives");
  OBL((vh_f32bits(inst.g2) == vh_f32bits(a3)), "f32maxc1: value directly below the operands survives");
  OBL(g_libm_calls == 0, "f32maxc1: no library call is involved");
  CANARY("f32maxc1 returns");
}
void h_f32maxc2(void) {
  ND(F32, a0);
  ND(F32, a1);
  ND(U32, a2);
  U32 r;
  g_libm_calls = 0;
  ASSUME(!spec_isnan32(vh_f32bits(spec_f32_max(a0, a1))));
  g_spec_trap = SPEC_NOTRAP;
  r = c02flt_f32maxc2(&inst, a0, a1, a2);
  OBL(g_spec_trap == SPEC_NOTRAP, "f32maxc2: returned normally only if the specification does not trap");
  OBL(((r) == ((a2 ^ vh_f32bits(spec_f32_max(a0, a1))))), "f32maxc2: result equals the specified value");
  OBL(g_libm_calls == 0, "f32maxc2: no library call is involved");
  CANARY("f32maxc2 returns");
}
void h_f32negc0(void) {
  ND(F32, a0);
  F32 r;
  g_libm_calls = 0;
  g_spec_trap = SPEC_NOTRAP;
  r = c02flt_f32negc0(&inst, a0);
  OBL(g_spec_trap == SPEC_NOTRAP, "f32negc0: returned normally only if the specification does not trap");
  OBL((vh_f32bits(r) == vh_f32bits(spec_f32_neg(a0))), "f32negc0: result equals the specified value");
  OBL(g_libm_calls == 0, "f32negc0: no library call is involved");
  CANARY("f32negc0 returns");
}
void h_f32negc1(void) {
  ND(F32, a0);
  ND(U64, a1);
  ND(F32, a2);
  F32 r;
  g_libm_calls = 0;
  g_spec_trap = SPEC_NOTRAP;
  r = c02flt_f32negc1(&inst, a0, a1, a2);
  OBL(g_spec_trap == SPEC_NOTRAP, "f32negc1: returned normally only if the specification does not trap");
  OBL((vh_f32bits(r) == vh_f32bits(spec_f32_neg(a0))), "f32negc1: result equals the specified value");
  OBL(((inst.g1) == (a1)), "f32negc1: value two below the operands survives");
  OBL((vh_f32bits(inst.g2) == vh_f32bits(a2)), "f32negc1: value directly below the operands survives");
  OBL(g_libm_calls == 0, "f32negc1: no library call is involved");
  CANARY("f32negc1 returns");
}
void h_f32negc2(void) {
  ND(F32, a0);
  ND(U32, a1);
  U32 r;
  g_libm_calls = 0;
  g_spec_trap = SPEC_NOTRAP;
  r = c02flt_f32negc2(&inst, a0, a1);
  OBL(g_spec_trap == SPEC_NOTRAP, "f32negc2: returned normally only if the specification does not trap");
  OBL(((r) == ((a1 ^ vh_f32bits(spec_f32_neg(a0))))), "f32negc2: result equals the specified value");
  OBL(g_libm_calls == 0, "f32negc2: no library call is involved");
  CANARY("f32negc2 returns");
}
void h_f32ceilc0(void) {
  ND(F32, a0);
  F32 r;
  g_libm_calls = 0;
  g_spec_trap = SPEC_NOTRAP;
  r = c02flt_f32ceilc0(&inst, a0);
  OBL(g_spec_trap == SPEC_NOTRAP, "f32ceilc0: returned normally only if the specification does not trap");
  OBL(LIBM_USED_EXACTLY(LIBM_CEILF, vh_f32bits(a0), 0, vh_f32bits(r)), "f32ceilc0: exactly one call of the specified libm function on the operands' bits, result passed on bit-identically");
  CANARY("f32ceilc0 returns");
}
void h_f32ceilc1(void) {
  ND(F32, a0);
  ND(U64, a1);
  ND(F32, a2);
  F32 r;
  g_libm_calls = 0;
  g_spec_trap = SPEC_NOTRAP;
  r = c02flt_f32ceilc1(&inst, a0, a1, a2);
  OBL(g_spec_trap == SPEC_NOTRAP, "f32ceilc1: returned normally only if the specification does not trap");
  OBL(((inst.g1) == (a1)), "f32ceilc1: value two below the operands survives");
  OBL((vh_f32bits(inst.g2) == vh_f32bits(a2)), "f32ceilc1: value directly below the operands survives");
  OBL(LIBM_USED_EXACTLY(LIBM_CEILF, vh_f32bits(a0), 0, vh_f32bits(r)), "f32ceilc1: exactly one call of the specified libm function on the operands' bits, result passed on bit-identically");
  CANARY("f32ceilc1 returns");
}
void h_f32ceilc2(void) {
  ND(F32, a0);
  ND(U32, a1);
  U32 r;
  g_libm_calls = 0;
  g_spec_trap = SPEC_NOTRAP;
  r = c02flt_f32ceilc2(&inst, a0, a1);
  OBL(g_spec_trap == SPEC_NOTRAP, "f32ceilc2: returned normally only if the specification does not trap");
  OBL(((r) == ((a1 ^ g_libm_ret))), "f32ceilc2: result equals the specified value");
  OBL(LIBM_USED_EXACTLY(LIBM_CEILF, vh_f32bits(a0), 0, g_libm_ret), "f32ceilc2: exactly one call of the specified libm function on the operands' bits, result passed on bit-identically");
  CANARY("f32ceilc2 returns");
}
void h_f32floorc0(void) {
  ND(F32, a0);
  F32 r;
  g_libm_calls = 0;
  g_spec_trap = SPEC_NOTRAP;
  r = c02flt_f32floorc0(&inst, a0);
  OBL(g_spec_trap == SPEC_NOTRAP, "f32floorc0: returned normally only if the specification does not trap");
  OBL(LIBM_USED_EXACTLY(LIBM_FLOORF, vh_f32bits(a0), 0, vh_f32bits(r)), "f32floorc0: exactly one call of the specified libm function on the operands' bits, result passed on bit-identically");
  CANARY("f32floorc0 returns");
}
void h_f32floorc1(void) {
  ND(F32, a0);
  ND(U64, a1);
  ND(F32, a2);
  F32 r;
  g_libm_calls = 0;
  g_spec_trap = SPEC_NOTRAP;
  r = c02flt_f32floorc1(&inst, a0, a1, a2);
  OBL(g_spec_trap == SPEC_NOTRAP, "f32floorc1: returned normally only if the specification does not trap");
  OBL(((inst.g1) == (a1)), "f32floorc1: value two below the operands survives");
  OBL((vh_f32bits(inst.g2) == vh_f32bits(a2)), "f32floorc1: value directly below the operands survives");
  OBL(LIBM_USED_EXACTLY(LIBM_FLOORF, vh_f32bits(a0), 0, vh_f32bits(r)), "f32floorc1: exactly one call of the specified libm function on the operands' bits, result passed on bit-identically");
  CANARY("f32floorc1 returns");
}
void h_f32floorc2(void) {
  ND(F32, a0);
  ND(U32, a1);
  U32 r;
  g_libm_calls = 0;
  g_spec_trap = SPEC_NOTRAP;
  r = c02flt_f32floorc2(&inst, a0, a1);
  OBL(g_spec_trap == SPEC_NOTRAP, "f32floorc2: returned normally only if the specification does not trap");
  OBL(((r) == ((a1 ^ g_libm_ret))), "f32floorc2: result equals the specified value");
  OBL(LIBM_USED_EXACTLY(LIBM_FLOORF, vh_f32bits(a0), 0, g_libm_ret), "f32floorc2: exactly one call of the specified libm function on the operands' bits, result passed on bit-identically");
  CANARY("f32floorc2 returns");
}
void h_f32truncc0(void) {
  ND(F32, a0);
  F32 r;
  g_libm_calls = 0;
  g_spec_trap = SPEC_NOTRAP;
  r = c02flt_f32truncc0(&inst, a0);
  OBL(g_spec_trap == SPEC_NOTRAP, "f32truncc0: returned normally only if the specification does not trap");
  OBL(LIBM_USED_EXACTLY(LIBM_TRUNCF, vh_f32bits(a0), 0, vh_f32bits(r)), "f32truncc0: exactly one call of the specified libm function on the operands' bits, result passed on bit-identically");
  CANARY("f32truncc0 returns");
}
void h_f32truncc1(void) {
  ND(F32, a0);
  ND(U64, a1);
  ND(F32, a2);
  F32 r;
  g_libm_calls = 0;
  g_spec_trap = SPEC_NOTRAP;
  r = c02flt_f32truncc1(&inst, a0, a1, a2);
  OBL(g_spec_trap == SPEC_NOTRAP, "f32truncc1: returned normally only if the specification does not trap");
  OBL(((inst.g1) == (a1)), "f32truncc1: value two below the operands survives");
  OBL((vh_f32bits(inst.g2) == vh_f32bits(a2)), "f32truncc1: value directly below the operands survives");
  OBL(LIBM_USED_EXACTLY(LIBM_TRUNCF, vh_f32bits(a0), 0, vh_f32bits(r)), "f32truncc1: exactly one call of the specified libm function on the operands' bits, result passed on bit-identically");
  CANARY("f32truncc1 returns");
}
void h_f32truncc2(void) {
  ND(F32, a0);
  ND(U32, a1);
  U32 r;
  g_libm_calls = 0;
  g_spec_trap = SPEC_NOTRAP;
  r = c02flt_f32truncc2(&inst, a0, a1);
  OBL(g_spec_trap == SPEC_NOTRAP, "f32truncc2: returned normally only if the specification does not trap");
  OBL(((r) == ((a1 ^ g_libm_ret))), "f32truncc2: result equals the specified value");
  OBL(LIBM_USED_EXACTLY(LIBM_TRUNCF, vh_f32bits(a0), 0, g_libm_ret), "f32truncc2: exactly one call of the specified libm function on the operands' bits, result passed on bit-identically");
  CANARY("f32truncc2 returns");
}
void h_f32nearestc0(void) {
  ND(F32, a0);
  F32 r;
  g_libm_calls = 0;
  g_spec_trap = SPEC_NOTRAP;
  r = c02flt_f32nearestc0(&inst, a0);
  OBL(g_spec_trap == SPEC_NOTRAP, "f32nearestc0: returned normally only if the specification does not trap");
  OBL(LIBM_USED_EXACTLY(LIBM_NEARBYINTF, vh_f32bits(a0), 0, vh_f32bits(r)), "f32nearestc0: exactly one call of the specified libm function on the operands' bits, result passed on bit-identically");
  CANARY("f32nearestc0 returns");
}
void h_f32nearestc1(void) {
  ND(F32, a0);
  ND(U64, a1);
  ND(F32, a2);
  F32 r;
  g_libm_calls = 0;
  g_spec_trap = SPEC_NOTRAP;
  r = c02flt_f32nearestc1(&inst, a0, a1, a2);
  OBL(g_spec_trap == SPEC_NOTRAP, "f32nearestc1: returned normally only if the specification does not trap");
  OBL(((inst.g1) == (a1)), "f32nearestc1: value two below the operands survives");
  OBL((vh_f32bits(inst.g2) == vh_f32bits(a2)), "f32nearestc1: value directly below the operands survives");
  OBL(LIBM_USED_EXACTLY(LIBM_NEARBYINTF, vh_f32bits(a0), 0, vh_f32bits(r)), "f32nearestc1: exactly one call of the specified libm function on the operands' bits, result passed on bit-identically");
  CANARY("f32nearestc1 returns");
}
void h_f32nearestc2(void) {
  ND(F32, a0);
  ND(U32, a1);
  U32 r;
  g_libm_calls = 0;
  g_spec_trap = SPEC_NOTRAP;
  r = c02flt_f32nearestc2(&inst, a0, a1);
  OBL(g_spec_trap == SPEC_NOTRAP, "f32nearestc2: returned normally only if the specification does not trap");
  OBL(((r) == ((a1 ^ g_libm_ret))), "f32nearestc2: result equals the specified value");
  OBL(LIBM_USED_EXACTLY(LIBM_NEARBYINTF, vh_f32bits(a0), 0, g_libm_ret), "f32nearestc2: exactly one call of the specified libm function on the operands' bits, result passed on bit-identically");
  CANARY("f32nearestc2 returns");
}
void h_f32sqrtc0(void) {
  ND(F32, a0);
  F32 r;
  g_libm_calls = 0;
  g_spec_trap = SPEC_NOTRAP;
  r = c02flt_f32sqrtc0(&inst, a0);
  OBL(g_spec_trap == SPEC_NOTRAP, "f32sqrtc0: returned normally only if the specification does not trap");
  OBL(LIBM_USED_EXACTLY(LIBM_SQRTF, vh_f32bits(a0), 0, vh_f32bits(r)), "f32sqrtc0: exactly one call of the specified libm function on the operands' bits, result passed on bit-identically");
  CANARY("f32sqrtc0 returns");
}
void h_f32sqrtc1(void) {
  ND(F32, a0);
  ND(U64, a1);
  ND(F32, a2);
  F32 r;
  g_libm_calls = 0;
  g_spec_trap = SPEC_NOTRAP;
  r = c02flt_f32sqrtc1(&inst, a0, a1, a2);
  OBL(g_spec_trap == SPEC_NOTRAP, "f32sqrtc1: returned normally only if the specification does not trap");
  OBL(((inst.g1) == (a1)), "f32sqrtc1: value two below the operands survives");
  OBL((vh_f32bits(inst.g2) == vh_f32bits(a2)), "f32sqrtc1: value directly below the operands survives");
  OBL(LIBM_USED_EXACTLY(LIBM_SQRTF, vh_f32bits(a0), 0, vh_f32bits(r)), "f32sqrtc1: exactly one call of the specified libm function on the operands' bits, result passed on bit-identically");
  CANARY("f32sqrtc1 returns");
}
void h_f32sqrtc2(void) {
  ND(F32, a0);
  ND(U32, a1);
  U32 r;
  g_libm_calls = 0;
  g_spec_trap = SPEC_NOTRAP;
  r = c02flt_f32sqrtc2(&inst, a0, a1);
  OBL(g_spec_trap == SPEC_NOTRAP, "f32sqrtc2: returned normally only if the specification does not trap");
  OBL(((r) == ((a1 ^ g_libm_ret))), "f32sqrtc2: result equals the specified value");
  OBL(LIBM_USED_EXACTLY(LIBM_SQRTF, vh_f32bits(a0), 0, g_libm_ret), "f32sqrtc2: exactly one call of the specified libm function on the operands' bits, result passed on bit-identically");
  CANARY("f32sqrtc2 returns");
}
void h_f32absc0(void) {
  ND(F32, a0);
  F32 r;
  g_libm_calls = 0;
  g_spec_trap = SPEC_NOTRAP;
  r = c02flt_f32absc0(&inst, a0);
  OBL(g_spec_trap == SPEC_NOTRAP, "f32absc0: returned normally only if the specification does not trap");
  OBL(LIBM_USED_EXACTLY(LIBM_FABSF, vh_f32bits(a0), 0, vh_f32bits(r)), "f32absc0: exactly one call of the specified libm function on the operands' bits, result passed on bit-identically");
  CANARY("f32absc0 returns");
}
void h_f32absc1(void) {
  ND(F32, a0);
  ND(U64, a1);
  ND(F32, a2);
  F32 r;
  g_libm_calls = 0;
  g_spec_trap = SPEC_NOTRAP;
  r = c02flt_f32absc1(&inst, a0, a1, a2);
  OBL(g_spec_trap == SPEC_NOTRAP, "f32absc1: returned normally only if the specification does not trap");
  OBL(((inst.g1) == (a1)), "f32absc1: value two below the operands survives");
  OBL((vh_f32bits(inst.g2) == vh_f32bits(a2)), "f32absc1: value directly below the operands survives");
  OBL(LIBM_USED_EXACTLY(LIBM_FABSF, vh_f32bits(a0), 0, vh_f32bits(r)), "f32absc1: exactly one call of the specified libm function on the operands' bits, result passed on bit-identically");
  CANARY("f32absc1 returns");
}
void h_f32absc2(void) {
  ND(F32, a0);
  ND(U32, a1);
  U32 r;
  g_libm_calls = 0;
  g_spec_trap = SPEC_NOTRAP;
  r = c02flt_f32absc2(&inst, a0, a1);
  OBL(g_spec_trap == SPEC_NOTRAP, "f32absc2: returned normally only if the specification does not trap");
  OBL(((r) == ((a1 ^ g_libm_ret))), "f32absc2: result equals the specified value");
  OBL(LIBM_USED_EXACTLY(LIBM_FABSF, vh_f32bits(a0), 0, g_libm_ret), "f32absc2: exactly one call of the specified libm function on the operands' bits, result passed on bit-identically");
  CANARY("f32absc2 returns");
}
void h_f32copysignc0(void) {
  ND(F32, a0);
  ND(F32, a1);
  F32 r;
  g_libm_calls = 0;
  g_spec_trap = SPEC_NOTRAP;
  r = c02flt_f32copysignc0(&inst, a0, a1);
  OBL(g_spec_trap == SPEC_NOTRAP, "f32copysignc0: returned normally only if the specification does not trap");
  OBL(LIBM_USED_EXACTLY(LIBM_COPYSIGNF, vh_f32bits(a0), vh_f32bits(a1), vh_f32bits(r)), "f32copysignc0: exactly one call of the specified libm function on the operands' bits, result passed on bit-identically");
  CANARY("f32copysignc0 returns");
}
void h_f32copysignc1(void) {
  ND(F32, a0);
  ND(F32, a1);
  ND(U64, a2);
  ND(F32, a3);
  F32 r;
  g_libm_calls = 0;
  g_spec_trap = SPEC_NOTRAP;
  r = c02flt_f32copysignc1(&inst, a0, a1, a2, a3);
  OBL(g_spec_trap == SPEC_NOTRAP, "f32copysignc1: returned normally only if the specification does not trap");
  OBL(((inst.g1) == (a2)), "f32copysignc1: value two below the operands survives");
  OBL((vh_f32bits(inst.g2) == vh_f32bits(a3)), "f32copysignc1: value directly below the operands survives");
  OBL(LIBM_USED_EXACTLY(LIBM_COPYSIGNF, vh_f32bits(a0), vh_f32bits(a1), vh_f32bits(r)), "f32copysignc1: exactly one call of the specified libm function on the operands' bits, result passed on bit-identically");
  CANARY("f32copysignc1 returns");
}
void h_f32copysignc2(void) {
  ND(F32, a0);
  ND(F32, a1);
  ND(U32, a2);
  U32 r;
  g_libm_calls = 0;
  g_spec_trap = SPEC_NOTRAP;
  r = c02flt_f32copysignc2(&inst, a0, a1, a2);
  OBL(g_spec_trap == SPEC_NOTRAP, "f32copysignc2: returned normally only if the specification does not trap");
  OBL(((r) == ((a2 ^ g_libm_ret))), "f32copysignc2: result equals the specified value");
  OBL(LIBM_USED_EXACTLY(LIBM_COPYSIGNF, vh_f32bits(a0), vh_f32bits(a1), g_libm_ret), "f32copysignc2: exactly one call of the specified libm function on the operands' bits, result passed on bit-identically");
  CANARY("f32copysignc2 returns");
}
void h_f32eqc0(void) {
  ND(F32, a0);
  ND(F32, a1);
  U32 r;
  g_libm_calls = 0;
  g_spec_trap = SPEC_NOTRAP;
  r = c02flt_f32eqc0(&inst, a0, a1);
  OBL(g_spec_trap == SPEC_NOTRAP, "f32eqc0: returned normally only if the specification does not trap");
  OBL(((r) == (spec_f32_eq(a0, a1))), "f32eqc0: result equals the specified value");
  OBL(g_libm_calls == 0, "f32eqc0: no library call is involved");
  CANARY("f32eqc0 returns");
}
void h_f32eqc1(void) {
  ND(F32, a0);
  ND(F32, a1);
  ND(U64, a2);
  ND(F32, a3);
  U32 r;
  g_libm_calls = 0;
  g_spec_trap = SPEC_NOTRAP;
  r = c02flt_f32eqc1(&inst, a0, a1, a2, a3);
  OBL(g_spec_trap == SPEC_NOTRAP, "f32eqc1: returned normally only if the specification does not trap");
  OBL(((r) == (spec_f32_eq(a0, a1))), "f32eqc1: result equals the specified value");
  OBL(((inst.g1) == (a2)), "f32eqc1: value two below the operands survives");
  OBL((vh_f32bits(inst.g2) == vh_f32bits(a3)), "f32eqc1: value directly below the operands survives");
  OBL(g_libm_calls == 0, "f32eqc1: no library call is involved");
  CANARY("f32eqc1 returns");
}
void h_f32eqc2(void) {
  ND(F32, a0);
  ND(F32, a1);
  ND(U32, a2);
  U32 r;
  g_libm_calls = 0;
  g_spec_trap = SPEC_NOTRAP;
  r = c02flt_f32eqc2(&inst, a0, a1, a2);
  OBL(g_spec_trap == SPEC_NOTRAP, "f32eqc2: returned normally only if the specification does not trap");
  OBL(((r) == ((a2 ^ spec_f32_eq(a0, a1)))), "f32eqc2: result equals the specified value");
  OBL(g_libm_calls == 0, "f32eqc2: no library call is involved");
  CANARY("f32eqc2 returns");
}
void h_f32nec0(void) {
  ND(F32, a0);
  ND(F32, a1);
  U32 r;
  g_libm_calls = 0;
  g_spec_trap = SPEC_NOTRAP;
  r = c02flt_f32nec0(&inst, a0, a1);
  OBL(g_spec_trap == SPEC_NOTRAP, "f32nec0: returned normally only if the specification does not trap");
  OBL(((r) == (spec_f32_ne(a0, a1))), "f32nec0: result equals the specified value");
  OBL(g_libm_calls == 0, "f32nec0: no library call is involved");
  CANARY("f32nec0 returns");
}
void h_f32nec1(void) {
  ND(F32, a0);
  ND(F32, a1);
  ND(U64, a2);
  ND(F32, a3);
  U32 r;
  g_libm_calls = 0;
  g_spec_trap = SPEC_NOTRAP;
  r = c02flt_f32nec1(&inst, a0, a1, a2, a3);
  OBL(g_spec_trap == SPEC_NOTRAP, "f32nec1: returned normally only if the specification does not trap");
  OBL(((r) == (spec_f32_ne(a0, a1))), "f32nec1: result equals the specified value");
  OBL(((inst.g1) == (a2)), "f32nec1: value two below the operands survives");
  OBL((vh_f32bits(inst.g2) == vh_f32bits(a3)), "f32nec1: value directly below the operands survives");
  OBL(g_libm_calls == 0, "f32nec1: no library call is involved");
  CANARY("f32nec1 returns");
}
void h_f32nec2(void) {
  ND(F32, a0);
  ND(F32, a1);
  ND(U32, a2);
  U32 r;
  g_libm_calls = 0;
  g_spec_trap = SPEC_NOTRAP;
  r = c02flt_f32nec2(&inst, a0, a1, a2);
  OBL(g_spec_trap == SPEC_NOTRAP, "f32nec2: returned normally only if the specification does not trap");
  OBL(((r) == ((a2 ^ spec_f32_ne(a0, a1)))), "f32nec2: result equals the specified value");
  OBL(g_libm_calls == 0, "f32nec2: no library call is involved");
  CANARY("f32nec2 returns");
}
void h_f32ltc0(void) {
  ND(F32, a0);
  ND(F32, a1);
  U32 r;
  g_libm_calls = 0;
  g_spec_trap = SPEC_NOTRAP;
  r = c02flt_f32ltc0(&inst, a0, a1);
  OBL(g_spec_trap == SPEC_NOTRAP, "f32ltc0: returned normally only if the specification does not trap");
  OBL(((r) == (spec_f32_lt(a0, a1))), "f32ltc0: result equals the specified value");
  OBL(g_libm_calls == 0, "f32ltc0: no library call is involved");
  CANARY("f32ltc0 returns");
}
void h_f32ltc1(void) {
  ND(F32, a0);
  ND(F32, a1);
  ND(U64, a2);
  ND(F32, a3);
  U32 r;
  g_libm_calls = 0;
  g_spec_trap = SPEC_NOTRAP;
  r = c02flt_f32ltc1(&inst, a0, a1, a2, a3);
  OBL(g_spec_trap == SPEC_NOTRAP, "f32ltc1: returned normally only if the specification does not trap");
  OBL(((r) == (spec_f32_lt(a0, a1))), "f32ltc1: result equals the specified value");
  OBL(((inst.g1) == (a2)), "f32ltc1: value two below the operands survives");
  OBL((vh_f32bits(inst.g2) == vh_f32bits(a3)), "f32ltc1: value directly below the operands survives");
  OBL(g_libm_calls == 0, "f32ltc1: no library call is involved");
  CANARY("f32ltc1 returns");
}
void h_f32ltc2(void) {
  ND(F32, a0);
  ND(F32, a1);
  ND(U32, a2);
  U32 r;
  g_libm_calls = 0;
  g_spec_trap = SPEC_NOTRAP;
  r = c02flt_f32ltc2(&inst, a0, a1, a2);
  OBL(g_spec_trap == SPEC_NOTRAP, "f32ltc2: returned normally only if the specification does not trap");
  OBL(((r) == ((a2 ^ spec_f32_lt(a0, a1)))), "f32ltc2: result equals the specified value");
  OBL(g_libm_calls == 0, "f32ltc2: no library call is involved");
  CANARY("f32ltc2 returns");
}
void h_f32gtc0(void) {
  ND(F32, a0);
  ND(F32, a1);
  U32 r;
  g_libm_calls = 0;
  g_spec_trap = SPEC_NOTRAP;
  r = c02flt_f32gtc0(&inst, a0, a1);
  OBL(g_spec_trap == SPEC_NOTRAP, "f32gtc0: returned normally only if the specification does not trap");
  OBL(((r) == (spec_f32_gt(a0, a1))), "f32gtc0: result equals the specified value");
  OBL(g_libm_calls == 0, "f32gtc0: no library call is involved");
  CANARY("f32gtc0 returns");
}
void h_f32gtc1(void) {
  ND(F32, a0);
  ND(F32, a1);
  ND(U64, a2);
  ND(F32, a3);
  U32 r;
  g_libm_calls = 0;
  g_spec_trap = SPEC_NOTRAP;
  r = c02flt_f32gtc1(&inst, a0, a1, a2, a3);
  OBL(g_spec_trap == SPEC_NOTRAP, "f32gtc1: returned normally only if the specification does not trap");
  OBL(((r) == (spec_f32_gt(a0, a1))), "f32gtc1: result equals the specified value");
  OBL(((inst.g1) == (a2)), "f32gtc1: value two below the operands survives");
  OBL((vh_f32bits(inst.g2) == vh_f32bits(a3)), "f32gtc1: value directly below the operands survives");
  OBL(g_libm_calls == 0, "f32gtc1: no library call is involved");
  CANARY("f32gtc1 returns");
}
void h_f32gtc2(void) {
  ND(F32, a0);
  ND(F32, a1);
  ND(U32, a2);
  U32 r;
  g_libm_calls = 0;
  g_spec_trap = SPEC_NOTRAP;
  r = c02flt_f32gtc2(&inst, a0, a1, a2);
  OBL(g_spec_trap == SPEC_NOTRAP, "f32gtc2: returned normally only if the specification does not trap");
  OBL(((r) == ((a2 ^ spec_f32_gt(a0, a1)))), "f32gtc2: result equals the specified value");
  OBL(g_libm_calls == 0, "f32gtc2: no library call is involved");
  CANARY("f32gtc2 returns");
}
void h_f32lec0(void) {
  ND(F32, a0);
  ND(F32, a1);
  U32 r;
  g_libm_calls = 0;
  g_spec_trap = SPEC_NOTRAP;
  r = c02flt_f32lec0(&inst, a0, a1);
  OBL(g_spec_trap == SPEC_NOTRAP, "f32lec0: returned normally only if the specification does not trap");
  OBL(((r) == (spec_f32_le(a0, a1))), "f32lec0: result equals the specified value");
  OBL(g_libm_calls == 0, "f32lec0: no library call is involved");
  CANARY("f32lec0 returns");
}
void h_f32lec1(void) {
  ND(F32, a0);
  ND(F32, a1);
  ND(U64, a2);
  ND(F32, a3);
  U32 r;
  g_libm_calls = 0;
  g_spec_trap = SPEC_NOTRAP;
  r = c02flt_f32lec1(&inst, a0, a1, a2, a3);
  OBL(g_spec_trap == SPEC_NOTRAP, "f32lec1: returned normally only if the specification does not trap");
  OBL(((r) == (spec_f32_le(a0, a1))), "f32lec1: result equals the specified value");
  OBL(((inst.g1) == (a2)), "f32lec1: value two below the operands survives");
  OBL((vh_f32bits(inst.g2) == vh_f32bits(a3)), "f32lec1: value directly below the operands survives");
  OBL(g_libm_calls == 0, "f32lec1: no library call is involved");
  CANARY("f32lec1 returns");
}
void h_f32lec2(void) {
  ND(F32, a0);
  ND(F32, a1);
  ND(U32, a2);
  U32 r;
  g_libm_calls = 0;
  g_spec_trap = SPEC_NOTRAP;
  r = c02flt_f32lec2(&inst, a0, a1, a2);
  OBL(g_spec_trap == SPEC_NOTRAP, "f32lec2: returned normally only if the specification does not trap");
  OBL(((r) == ((a2 ^ spec_f32_le(a0, a1)))), "f32lec2: result equals the specified value");
  OBL(g_libm_calls == 0, "f32lec2: no library call is involved");
  CANARY("f32lec2 returns");
}
void h_f32gec0(void) {
  ND(F32, a0);
  ND(F32, a1);
  U32 r;
  g_libm_calls = 0;
  g_spec_trap = SPEC_NOTRAP;
  r = c02flt_f32gec0(&inst, a0, a1);
  OBL(g_spec_trap == SPEC_NOTRAP, "f32gec0: returned normally only if the specification does not trap");
  OBL(((r) == (spec_f32_ge(a0, a1))), "f32gec0: result equals the specified value");
  OBL(g_libm_calls == 0, "f32gec0: no library call is involved");
  CANARY("f32gec0 returns");
}
void h_f32gec1(void) {
  ND(F32, a0);
  ND(F32, a1);
  ND(U64, a2);
  ND(F32, a3);
  U32 r;
  g_libm_calls = 0;
  g_spec_trap = SPEC_NOTRAP;
  r = c02flt_f32gec1(&inst, a0, a1, a2, a3);
  OBL(g_spec_trap == SPEC_NOTRAP, "f32gec1: returned normally only if the specification does not trap");
  OBL(((r) == (spec_f32_ge(a0, a1))), "f32gec1: result equals the specified value");
  OBL(((inst.g1) == (a2)), "f32gec1: value two below the operands survives");
  OBL((vh_f32bits(inst.g2) == vh_f32bits(a3)), "f32gec1: value directly below the operands survives");
  OBL(g_libm_calls == 0, "f32gec1: no library call is involved");
  CANARY("f32gec1 returns");
}
void h_f32gec2(void) {
  ND(F32, a0);
  ND(F32, a1);
  ND(U32, a2);
  U32 r;
  g_libm_calls = 0;
  g_spec_trap = SPEC_NOTRAP;
  r = c02flt_f32gec2(&inst, a0, a1, a2);
  OBL(g_spec_trap == SPEC_NOTRAP, "f32gec2: returned normally only if the specification does not trap");
  OBL(((r) == ((a2 ^ spec_f32_ge(a0, a1)))), "f32gec2: result equals the specified value");
  OBL(g_libm_calls == 0, "f32gec2: no library call is involved");
  CANARY("f32gec2 returns");
}
void h_f64addc0(void) {
  ND(F64, a0);
  ND(F64, a1);
  F64 r;
  g_libm_calls = 0;
  g_spec_trap = SPEC_NOTRAP;
  r = c02flt_f64addc0(&inst, a0, a1);
  OBL(g_spec_trap == SPEC_NOTRAP, "f64addc0: returned normally only if the specification does not trap");
  { F64 s_ = spec_f64_add(a0, a1);
  OBL(spec_isnan64(spec_f64_bits(s_)) || spec_f64_bits(r) == spec_f64_bits(s_), "f64addc0: a non-NaN specified result is delivered bit-exactly");
  OBL(!spec_isnan64(spec_f64_bits(s_)) || spec_isnan64(spec_f64_bits(r)), "f64addc0: the result is a NaN where the specification yields a NaN"); }
  OBL(g_libm_calls == 0, "f64addc0: no library call is involved");
  CANARY("f64addc0 returns");
}
void h_f64addc1(void) {
  ND(F64, a0);
  ND(F64, a1);
  ND(U64, a2);
  ND(F32, a3);
  F64 r;
  g_libm_calls = 0;
  g_spec_trap = SPEC_NOTRAP;
  r = c02flt_f64addc1(&inst, a0, a1, a2, a3);
  OBL(g_spec_trap == SPEC_NOTRAP, "f64addc1: returned normally only if the specification does not trap");
  { F64 s_ = spec_f64_add(a0, a1);
  OBL(spec_isnan64(spec_f64_bits(s_)) || spec_f64_bits(r) == spec_f64_bits(s_), "f64addc1: a non-NaN specified result is delivered bit-exactly");
  OBL(!spec_isnan64(spec_f64_bits(s_)) || spec_isnan64(spec_f64_bits(r)), "f64addc1: the result is a NaN where the specification yields a NaN"); }
  OBL(((inst.g1) == (a2)), "f64addc1: value two below the operands survives");
  OBL((vh_f32bits(inst.g2) == vh_f32bits(a3)), "f64addc1: value directly below the operands survives");
  OBL(g_libm_calls == 0, "f64addc1: no library call is involved");
  CANARY("f64addc1 returns");
}
void h_f64addc2(void) {
  ND(F64, a0);
  ND(F64, a1);
  ND(U64, a2);
  U64 r;
  g_libm_calls = 0;
  ASSUME(!spec_isnan64(vh_f64bits(spec_f64_add(a0, a1))));
  g_spec_trap = SPEC_NOTRAP;
  r = c02flt_f64addc2(&inst, a0, a1, a2);
  OBL(g_spec_trap == SPEC_NOTRAP, "f64addc2: returned normally only if the specification does not trap");
  OBL(((r) == ((a2 ^ vh_f64bits(spec_f64_add(a0, a1))))), "f64addc2: result equals the specified value");
  OBL(g_libm_calls == 0, "f64addc2: no library call is involved");
  CANARY("f64addc2 returns");
}
void h_f64subc0(void) {
  ND(F64, a0);
  ND(F64, a1);
  F64 r;
  g_libm_calls = 0;
  g_spec_trap = SPEC_NOTRAP;
  r = c02flt_f64subc0(&inst, a0, a1);
  OBL(g_spec_trap == SPEC_NOTRAP, "f64subc0: returned normally only if the specification does not trap");
  { F64 s_ = spec_f64_sub(a0, a1);
  OBL(spec_isnan64(spec_f64_bits(s_)) || spec_f64_bits(r) == spec_f64_bits(s_), "f64subc0: a non-NaN specified result is delivered bit-exactly");
  OBL(!spec_isnan64(spec_f64_bits(s_)) || spec_isnan64(spec_f64_bits(r)), "f64subc0: the result is a NaN where the specification yields a NaN"); }
  OBL(g_libm_calls == 0, "f64subc0: no library call is involved");
  CANARY("f64subc0 returns");
}
void h_f64subc1(void) {
  ND(F64, a0);
  ND(F64, a1);
  ND(U64, a2);
  ND(F32, a3);
  F64 r;
  g_libm_calls = 0;
  g_spec_trap = SPEC_NOTRAP;
  r = c02flt_f64subc1(&inst, a0, a1, a2, a3);
  OBL(g_spec_trap == SPEC_NOTRAP, "f64subc1: returned normally only if the specification does not trap");
  { F64 s_ = spec_f64_sub(a0, a1);
  OBL(spec_isnan64(spec_f64_bits(s_)) || spec_f64_bits(r) == spec_f64_bits(s_), "f64subc1: a non-NaN specified result is delivered bit-exactly");
  OBL(!spec_isnan64(spec_f64_bits(s_)) || spec_isnan64(spec_f64_bits(r)), "f64subc1: the result is a NaN where the specification yields a NaN"); }
  OBL(((inst.g1) == (a2)), "f64subc1: value two below the operands survives");
  OBL((vh_f32bits(inst.g2) == vh_f32bits(a3)), "f64subc1: value directly below the operands survives");
  OBL(g_libm_calls == 0, "f64subc1: no library call is involved");
  CANARY("f64subc1 returns");
}
void h_f64subc2(void) {
  ND(F64, a0);
  ND(F64, a1);
  ND(U64, a2);
  U64 r;
  g_libm_calls = 0;
  ASSUME(!spec_isnan64(vh_f64bits(spec_f64_sub(a0, a1))));
  g_spec_trap = SPEC_NOTRAP;
  r = c02flt_f64subc2(&inst, a0, a1, a2);
  OBL(g_spec_trap == SPEC_NOTRAP, "f64subc2: returned normally only if the specification does not trap");
  OBL(((r) == ((a2 ^ vh_f64bits(spec_f64_sub(a0, a1))))), "f64subc2: result equals the specified value");
  OBL(g_libm_calls == 0, "f64subc2: no library call is involved");
  CANARY("f64subc2 returns");
}
void h_f64mulc0(void) {
  ND(F64, a0);
  ND(F64, a1);
  F64 r;
  g_libm_calls = 0;
  g_spec_trap = SPEC_NOTRAP;
  r = c02flt_f64mulc0(&inst, a0, a1);
  OBL(g_spec_trap == SPEC_NOTRAP, "f64mulc0: returned normally only if the specification does not trap");
  { F64 s_ = spec_f64_mul(a0, a1);
  OBL(spec_isnan64(spec_f64_bits(s_)) || spec_f64_bits(r) == spec_f64_bits(s_), "f64mulc0: a non-NaN specified result is delivered bit-exactly");
  OBL(!spec_isnan64(spec_f64_bits(s_)) || spec_isnan64(spec_f64_bits(r)), "f64mulc0: the result is a NaN where the specification yields a NaN"); }
  OBL(g_libm_calls == 0, "f64mulc0: no library call is involved");
  CANARY("f64mulc0 returns");
}
void h_f64mulc1(void) {
  ND(F64, a0);
  ND(F64, a1);
  ND(U64, a2);
  ND(F32, a3);
  F64 r;
  g_libm_calls = 0;
  g_spec_trap = SPEC_NOTRAP;
  r = c02flt_f64mulc1(&inst, a0, a1, a2, a3);
  OBL(g_spec_trap == SPEC_NOTRAP, "f64mulc1: returned normally only if the specification does not trap");
  { F64 s_ = spec_f64_mul(a0, a1);
  OBL(spec_isnan64(spec_f64_bits(s_)) || spec_f64_bits(r) == spec_f64_bits(s_), "f64mulc1: a non-NaN specified result is delivered bit-exactly");
  OBL(!spec_isnan64(spec_f64_bits(s_)) || spec_isnan64(spec_f64_bits(r)), "f64mulc1: the result is a NaN where the specification yields a NaN"); }
  OBL(((inst.g1) == (a2)), "f64mulc1: value two below the operands survives");
  OBL((vh_f32bits(inst.g2) == vh_f32bits(a3)), "f64mulc1: value directly below the operands survives");
  OBL(g_libm_calls == 0, "f64mulc1: no library call is involved");
  CANARY("f64mulc1 returns");
}
void h_f64mulc2(void) {
  ND(F64, a0);
  ND(F64, a1);
  ND(U64, a2);
  U64 r;
  g_libm_calls = 0;
  ASSUME(!spec_isnan64(vh_f64bits(spec_f64_mul(a0, a1))));
  g_spec_trap = SPEC_NOTRAP;
  r = c02flt_f64mulc2(&inst, a0, a1, a2);
  OBL(g_spec_trap == SPEC_NOTRAP, "f64mulc2: returned normally only if the specification does not trap");
  OBL(((r) == ((a2 ^ vh_f64bits(spec_f64_mul(a0, a1))))), "f64mulc2: result equals the specified value");
  OBL(g_libm_calls == 0, "f64mulc2: no library call is involved");
  CANARY("f64mulc2 returns");
}
void h_f64divc0v(void) {
  ND(F64, a0);
  ND(F64, a1);
  F64 r;
  g_libm_calls = 0;
  ASSUME(!spec_isnan64(spec_f64_bits(spec_f64_div(a0, a1))));
  g_spec_trap = SPEC_NOTRAP;
  r = c02flt_f64divc0(&inst, a0, a1);
  OBL(g_spec_trap == SPEC_NOTRAP, "f64divc0v: returned normally only if the specification does not trap");
  { F64 s_ = spec_f64_div(a0, a1);
  OBL(spec_isnan64(spec_f64_bits(s_)) || spec_f64_bits(r) == spec_f64_bits(s_), "f64divc0v: a non-NaN specified result is delivered bit-exactly");
  OBL(!spec_isnan64(spec_f64_bits(s_)) || spec_isnan64(spec_f64_bits(r)), "f64divc0v: the result is a NaN where the specification yields a NaN"); }
  OBL(g_libm_calls == 0, "f64divc0v: no library call is involved");
  CANARY("f64divc0v returns");
}
void h_f64divc0n(void) {
  ND(F64, a0);
  ND(F64, a1);
  F64 r;
  g_libm_calls = 0;
  ASSUME(spec_isnan64(spec_f64_bits(spec_f64_div(a0, a1))));
  g_spec_trap = SPEC_NOTRAP;
  r = c02flt_f64divc0(&inst, a0, a1);
  OBL(g_spec_trap == SPEC_NOTRAP, "f64divc0n: returned normally only if the specification does not trap");
  { F64 s_ = spec_f64_div(a0, a1);
  OBL(spec_isnan64(spec_f64_bits(s_)) || spec_f64_bits(r) == spec_f64_bits(s_), "f64divc0n: a non-NaN specified result is delivered bit-exactly");
  OBL(!spec_isnan64(spec_f64_bits(s_)) || spec_isnan64(spec_f64_bits(r)), "f64divc0n: the result is a NaN where the specification yields a NaN"); }
  OBL(g_libm_calls == 0, "f64divc0n: no library call is involved");
  CANARY("f64divc0n returns");
}
void h_f64divc1v(void) {
  ND(F64, a0);
  ND(F64, a1);
  ND(U64, a2);
  ND(F32, a3);
  F64 r;
  g_libm_calls = 0;
  ASSUME(!spec_isnan64(spec_f64_bits(spec_f64_div(a0, a1))));
  g_spec_trap = SPEC_NOTRAP;
  r = c02flt_f64divc1(&inst, a0, a1, a2, a3);
  OBL(g_spec_trap == SPEC_NOTRAP, "f64divc1v: returned normally only if the specification does not trap");
  { F64 s_ = spec_f64_div(a0, a1);
  OBL(spec_isnan64(spec_f64_bits(s_)) || spec_f64_bits(r) == spec_f64_bits(s_), "f64divc1v: a non-NaN specified result is delivered bit-exactly");
  OBL(!spec_isnan64(spec_f64_bits(s_)) || spec_isnan64(spec_f64_bits(r)), "f64divc1v: the result is a NaN where the specification yields a NaN"); }
  OBL(((inst.g1) == (a2)), "f64divc1v: value two below the operands survives");
  OBL((vh_f32bits(inst.g2) == vh_f32bits(a3)), "f64divc1v: value directly below the operands survives");
  OBL(g_libm_calls == 0, "f64divc1v: no library call is involved");
  CANARY("f64divc1v returns");
}
void h_f64divc1n(void) {
  ND(F64, a0);
  ND(F64, a1);
  ND(U64, a2);
  ND(F32, a3);
  F64 r;
  g_libm_calls = 0;
  ASSUME(spec_isnan64(spec_f64_bits(spec_f64_div(a0, a1))));
  g_spec_trap = SPEC_NOTRAP;
  r = c02flt_f64divc1(&inst, a0, a1, a2, a3);
  OBL(g_spec_trap == SPEC_NOTRAP, "f64divc1n: returned normally only if the specification does not trap");
  { F64 s_ = spec_f64_div(a0, a1);
  OBL(spec_isnan64(spec_f64_bits(s_)) || spec_f64_bits(r) == spec_f64_bits(s_), "f64divc1n: a non-NaN specified result is delivered bit-exactly");
  OBL(!spec_isnan64(spec_f64_bits(s_)) || spec_isnan64(spec_f64_bits(r)), "f64divc1n: the result is a NaN where the specification yields a NaN"); }
  OBL(((inst.g1) == (a2)), "f64divc1n: value two below the operands survives");
  OBL((vh_f32bits(inst.g2) == vh_f32bits(a3)), "f64divc1n: value directly below the operands survives");
  OBL(g_libm_calls == 0, "f64divc1n: no library call is involved");
  CANARY("f64divc1n returns");
}
void h_f64divc2(void) {
  ND(F64, a0);
  ND(F64, a1);
  ND(U64, a2);
  U64 r;
  g_libm_calls = 0;
  ASSUME(!spec_isnan64(vh_f64bits(spec_f64_div(a0, a1))));
  g_spec_trap = SPEC_NOTRAP;
  r = c02flt_f64divc2(&inst, a0, a1, a2);
  OBL(g_spec_trap == SPEC_NOTRAP, "f64divc2: returned normally only if the specification does not trap");
  OBL(((r) == ((a2 ^ vh_f64bits(spec_f64_div(a0, a1))))), "f64divc2: result equals the specified value");
  OBL(g_libm_calls == 0, "f64divc2: no library call is involved");
  CANARY("f64divc2 returns");
}
void h_f64minc0(void) {
  ND(F64, a0);
  ND(F64, a1);
  F64 r;
  g_libm_calls = 0;
  g_spec_trap = SPEC_NOTRAP;
  r = c02flt_f64minc0(&inst, a0, a1);
  OBL(g_spec_trap == SPEC_NOTRAP, "f64minc0: returned normally only if the specification does not trap");
  { F64 s_ = spec_f64_min(a0, a1);
  OBL(spec_isnan64(spec_f64_bits(s_)) || spec_f64_bits(r) == spec_f64_bits(s_), "f64minc0: a non-NaN specified result is delivered bit-exactly");
  OBL(!spec_isnan64(spec_f64_bits(s_)) || spec_isnan64(spec_f64_bits(r)), "f64minc0: the result is a NaN where the specification yields a NaN"); }
  OBL(g_libm_calls == 0, "f64minc0: no library call is involved");
  CANARY("f64minc0 returns");
}
void h_f64minc1(void) {
  ND(F64, a0);
  ND(F64, a1);
  ND(U64, a2);
  ND(F32, a3);
  F64 r;
  g_libm_calls = 0;
  g_spec_trap = SPEC_NOTRAP;
  r = c02flt_f64minc1(&inst, a0, a1, a2, a3);
  OBL(g_spec_trap == SPEC_NOTRAP, "f64minc1: returned normally only if the specification does not trap");
  { F64 s_ = spec_f64_min(a0, a1);
  OBL(spec_isnan64(spec_f64_bits(s_)) || spec_f64_bits(r) == spec_f64_bits(s_), "f64minc1: a non-NaN specified result is delivered bit-exactly");
  OBL(!spec_isnan64(spec_f64_bits(s_)) || spec_isnan64(spec_f64_bits(r)), "f64minc1: the result is a NaN where the specification yields a NaN"); }
  OBL(((inst.g1) == (a2)), "f64minc1: value two below the operands survives");
  OBL((vh_f32bits(inst.g2) == vh_f32bits(a3)), "f64minc1: value directly below the operands survives");
  OBL(g_libm_calls == 0, "f64minc1: no library call is involved");
  CANARY("f64minc1 returns");
}
void h_f64minc2(void) {
  ND(F64, a0);
  ND(F64, a1);
  ND(U64, a2);
  U64 r;
  g_libm_calls = 0;
  ASSUME(!spec_isnan64(vh_f64bits(spec_f64_min(a0, a1))));
  g_spec_trap = SPEC_NOTRAP;
  r = c02flt_f64minc2(&inst, a0, a1, a2);
  OBL(g_spec_trap == SPEC_NOTRAP, "f64minc2: returned normally only if the specification does not trap");
  OBL(((r) == ((a2 ^ vh_f64bits(spec_f64_min(a0, a1))))), "f64minc2: result equals the specified value");
  OBL(g_libm_calls == 0, "f64minc2: no library call is involved");
  CANARY("f64minc2 returns");
}
void h_f64maxc0(void) {
  ND(F64, a0);
  ND(F64, a1);
  F64 r;
  g_libm_calls = 0;
  g_spec_trap = SPEC_NOTRAP;
  r = c02flt_f64maxc0(&inst, a0, a1);
  OBL(g_spec_trap == SPEC_NOTRAP, "f64maxc0: returned normally only if the specification does not trap");
  { F64 s_ = spec_f64_max(a0, a1);
  OBL(spec_isnan64(spec_f64_bits(s_)) || spec_f64_bits(r) == spec_f64_bits(s_), "f64maxc0: a non-NaN specified result is delivered bit-exactly");
  OBL(!spec_isnan64(spec_f64_bits(s_)) || spec_isnan64(spec_f64_bits(r)), "f64maxc0: the result is a NaN where the specification yields a NaN"); }
  OBL(g_libm_calls == 0, "f64maxc0: no library call is involved");
  CANARY("f64maxc0 returns");
}
void h_f64maxc1(void) {
  ND(F64, a0);
  ND(F64, a1);
  ND(U64, a2);
  ND(F32, a3);
  F64 r;
  g_libm_calls = 0;
  g_spec_trap = SPEC_NOTRAP;
  r = c02flt_f64maxc1(&inst, a0, a1, a2, a3);
  OBL(g_spec_trap == SPEC_NOTRAP, "f64maxc1: returned normally only if the specification does not trap");
  { F64 s_ = spec_f64_max(a0, a1);
  OBL(spec_isnan64(spec_f64_bits(s_)) || spec_f64_bits(r) == spec_f64_bits(s_), "f64maxc1: a non-NaN specified result is delivered bit-exactly");
  OBL(!spec_isnan64(spec_f64_bits(s_)) || spec_isnan64(spec_f64_bits(r)), "f64maxc1: the result is a NaN where the specification yields a NaN"); }
  OBL(((inst.g1) == (a2)), "f64maxc1: value two below the operands survives");
  OBL((vh_f32bits(inst.g2) == vh_f32bits(a3)), "f64maxc1: value directly below the operands survives");
  OBL(g_libm_calls == 0, "f64maxc1: no library call is involved");
  CANARY("f64maxc1 returns");
}
void h_f64maxc2(void) {
  ND(F64, a0);
  ND(F64, a1);
  ND(U64, a2);
  U64 r;
  g_libm_calls = 0;
  ASSUME(!spec_isnan64(vh_f64bits(spec_f64_max(a0, a1))));
  g_spec_trap = SPEC_NOTRAP;
  r = c02flt_f64maxc2(&inst, a0, a1, a2);
  OBL(g_spec_trap == SPEC_NOTRAP, "f64maxc2: returned normally only if the specification does not trap");
  OBL(((r) == ((a2 ^ vh_f64bits(spec_f64_max(a0, a1))))), "f64maxc2: result equals the specified value");
  OBL(g_libm_calls == 0, "f64maxc2: no library call is involved");
  CANARY("f64maxc2 returns");
}
void h_f64negc0(void) {
  ND(F64, a0);
  F64 r;
  g_libm_calls = 0;
  g_spec_trap = SPEC_NOTRAP;
  r = c02flt_f64negc0(&inst, a0);
  OBL(g_spec_trap == SPEC_NOTRAP, "f64negc0: returned normally only if the specification does not trap");
  OBL((vh_f64bits(r) == vh_f64bits(spec_f64_neg(a0))), "f64negc0: result equals the specified value");
  OBL(g_libm_calls == 0, "f64negc0: no library call is involved");
  CANARY("f64negc0 returns");
}
void h_f64negc1(void) {
  ND(F64, a0);
  ND(U64, a1);
  ND(F32, a2);
  F64 r;
  g_libm_calls = 0;
  g_spec_trap = SPEC_NOTRAP;
  r = c02flt_f64negc1(&inst, a0, a1, a2);
  OBL(g_spec_trap == SPEC_NOTRAP, "f64negc1: returned normally only if the specification does not trap");
  OBL((vh_f64bits(r) == vh_f64bits(spec_f64_neg(a0))), "f64negc1: result equals the specified value");
  OBL(((inst.g1) == (a1)), "f64negc1: value two below the operands survives");
  OBL((vh_f32bits(inst.g2) == vh_f32bits(a2)), "f64negc1: value directly below the operands survives");
  OBL(g_libm_calls == 0, "f64negc1: no library call is involved");
  CANARY("f64negc1 returns");
}
void h_f64negc2(void) {
  ND(F64, a0);
  ND(U64, a1);
  U64 r;
  g_libm_calls = 0;
  g_spec_trap = SPEC_NOTRAP;
  r = c02flt_f64negc2(&inst, a0, a1);
  OBL(g_spec_trap == SPEC_NOTRAP, "f64negc2: returned normally only if the specification does not trap");
  OBL(((r) == ((a1 ^ vh_f64bits(spec_f64_neg(a0))))), "f64negc2: result equals the specified value");
  OBL(g_libm_calls == 0, "f64negc2: no library call is involved");
  CANARY("f64negc2 returns");
}
void h_f64ceilc0(void) {
  ND(F64, a0);
  F64 r;
  g_libm_calls = 0;
  g_spec_trap = SPEC_NOTRAP;
  r = c02flt_f64ceilc0(&inst, a0);
  OBL(g_spec_trap == SPEC_NOTRAP, "f64ceilc0: returned normally only if the specification does not trap");
  OBL(LIBM_USED_EXACTLY(LIBM_CEIL, vh_f64bits(a0), 0, vh_f64bits(r)), "f64ceilc0: exactly one call of the specified libm function on the operands' bits, result passed on bit-identically");
  CANARY("f64ceilc0 returns");
}
void h_f64ceilc1(void) {
  ND(F64, a0);
  ND(U64, a1);
  ND(F32, a2);
  F64 r;
  g_libm_calls = 0;
  g_spec_trap = SPEC_NOTRAP;
  r = c02flt_f64ceilc1(&inst, a0, a1, a2);
  OBL(g_spec_trap == SPEC_NOTRAP, "f64ceilc1: returned normally only if the specification does not trap");
  OBL(((inst.g1) == (a1)), "f64ceilc1: value two below the operands survives");
  OBL((vh_f32bits(inst.g2) == vh_f32bits(a2)), "f64ceilc1: value directly below the operands survives");
  OBL(LIBM_USED_EXACTLY(LIBM_CEIL, vh_f64bits(a0), 0, vh_f64bits(r)), "f64ceilc1: exactly one call of the specified libm function on the operands' bits, result passed on bit-identically");
  CANARY("f64ceilc1 returns");
}
void h_f64ceilc2(void) {
  ND(F64, a0);
  ND(U64, a1);
  U64 r;
  g_libm_calls = 0;
  g_spec_trap = SPEC_NOTRAP;
  r = c02flt_f64ceilc2(&inst, a0, a1);
  OBL(g_spec_trap == SPEC_NOTRAP, "f64ceilc2: returned normally only if the specification does not trap");
  OBL(((r) == ((a1 ^ g_libm_ret))), "f64ceilc2: result equals the specified value");
  OBL(LIBM_USED_EXACTLY(LIBM_CEIL, vh_f64bits(a0), 0, g_libm_ret), "f64ceilc2: exactly one call of the specified libm function on the operands' bits, result passed on bit-identically");
  CANARY("f64ceilc2 returns");
}
void h_f64floorc0(void) {
  ND(F64, a0);
  F64 r;
  g_libm_calls = 0;
  g_spec_trap = SPEC_NOTRAP;
  r = c02flt_f64floorc0(&inst, a0);
  OBL(g_spec_trap == SPEC_NOTRAP, "f64floorc0: returned normally only if the specification does not trap");
  OBL(LIBM_USED_EXACTLY(LIBM_FLOOR, vh_f64bits(a0), 0, vh_f64bits(r)), "f64floorc0: exactly one call of the specified libm function on the operands' bits, result passed on bit-identically");
  CANARY("f64floorc0 returns");
}
void h_f64floorc1(void) {
  ND(F64, a0);
  ND(U64, a1);
  ND(F32, a2);
  F64 r;
  g_libm_calls = 0;
  g_spec_trap = SPEC_NOTRAP;
  r = c02flt_f64floorc1(&inst, a0, a1, a2);
  OBL(g_spec_trap == SPEC_NOTRAP, "f64floorc1: returned normally only if the specification does not trap");
  OBL(((inst.g1) == (a1)), "f64floorc1: value two below the operands survives");
  OBL((vh_f32bits(inst.g2) == vh_f32bits(a2)), "f64floorc1: value directly below the operands survives");
  OBL(LIBM_USED_EXACTLY(LIBM_FLOOR, vh_f64bits(a0), 0, vh_f64bits(r)), "f64floorc1: exactly one call of the specified libm function on the operands' bits, result passed on bit-identically");
  CANARY("f64floorc1 returns");
}
void h_f64floorc2(void) {
  ND(F64, a0);
  ND(U64, a1);
  U64 r;
  g_libm_calls = 0;
  g_spec_trap = SPEC_NOTRAP;
  r = c02flt_f64floorc2(&inst, a0, a1);
  OBL(g_spec_trap == SPEC_NOTRAP, "f64floorc2: returned normally only if the specification does not trap");
  OBL(((r) == ((a1 ^ g_libm_ret))), "f64floorc2: result equals the specified value");
  OBL(LIBM_USED_EXACTLY(LIBM_FLOOR, vh_f64bits(a0), 0, g_libm_ret), "f64floorc2: exactly one call of the specified libm function on the operands' bits, result passed on bit-identically");
  CANARY("f64floorc2 returns");
}
void h_f64truncc0(void) {
  ND(F64, a0);
  F64 r;
  g_libm_calls = 0;
  g_spec_trap = SPEC_NOTRAP;
  r = c02flt_f64truncc0(&inst, a0);
  OBL(g_spec_trap == SPEC_NOTRAP, "f64truncc0: returned normally only if the specification does not trap");
  OBL(LIBM_USED_EXACTLY(LIBM_TRUNC, vh_f64bits(a0), 0, vh_f64bits(r)), "f64truncc0: exactly one call of the specified libm function on the operands' bits, result passed on bit-identically");
  CANARY("f64truncc0 returns");
}
void h_f64truncc1(void) {
  ND(F64, a0);
  ND(U64, a1);
  ND(F32, a2);
  F64 r;
  g_libm_calls = 0;
  g_spec_trap = SPEC_NOTRAP;
  r = c02flt_f64truncc1(&inst, a0, a1, a2);
  OBL(g_spec_trap == SPEC_NOTRAP, "f64truncc1: returned normally only if the specification does not trap");
  OBL(((inst.g1) == (a1)), "f64truncc1: value two below the operands survives");
  OBL((vh_f32bits(inst.g2) == vh_f32bits(a2)), "f64truncc1: value directly below the operands survives");
  OBL(LIBM_USED_EXACTLY(LIBM_TRUNC, vh_f64bits(a0), 0, vh_f64bits(r)), "f64truncc1: exactly one call of the specified libm function on the operands' bits, result passed on bit-identically");
  CANARY("f64truncc1 returns");
}
void h_f64truncc2(void) {
  ND(F64, a0);
  ND(U64, a1);
  U64 r;
  g_libm_calls = 0;
  g_spec_trap = SPEC_NOTRAP;
  r = c02flt_f64truncc2(&inst, a0, a1);
  OBL(g_spec_trap == SPEC_NOTRAP, "f64truncc2: returned normally only if the specification does not trap");
  OBL(((r) == ((a1 ^ g_libm_ret))), "f64truncc2: result equals the specified value");
  OBL(LIBM_USED_EXACTLY(LIBM_TRUNC, vh_f64bits(a0), 0, g_libm_ret), "f64truncc2: exactly one call of the specified libm function on the operands' bits, result passed on bit-identically");
  CANARY("f64truncc2 returns");
}
void h_f64nearestc0(void) {
  ND(F64, a0);
  F64 r;
  g_libm_calls = 0;
  g_spec_trap = SPEC_NOTRAP;
  r = c02flt_f64nearestc0(&inst, a0);
  OBL(g_spec_trap == SPEC_NOTRAP, "f64nearestc0: returned normally only if the specification does not trap");
  OBL(LIBM_USED_EXACTLY(LIBM_NEARBYINT, vh_f64bits(a0), 0, vh_f64bits(r)), "f64nearestc0: exactly one call of the specified libm function on the operands' bits, result passed on bit-identically");
  CANARY("f64nearestc0 returns");
}
void h_f64nearestc1(void) {
  ND(F64, a0);
  ND(U64, a1);
  ND(F32, a2);
  F64 r;
  g_libm_calls = 0;
  g_spec_trap = SPEC_NOTRAP;
  r = c02flt_f64nearestc1(&inst, a0, a1, a2);
  OBL(g_spec_trap == SPEC_NOTRAP, "f64nearestc1: returned normally only if the specification does not trap");
  OBL(((inst.g1) == (a1)), "f64nearestc1: value two below the operands survives");
  OBL((vh_f32bits(inst.g2) == vh_f32bits(a2)), "f64nearestc1: value directly below the operands survives");
  OBL(LIBM_USED_EXACTLY(LIBM_NEARBYINT, vh_f64bits(a0), 0, vh_f64bits(r)), "f64nearestc1: exactly one call of the specified libm function on the operands' bits, result passed on bit-identically");
  CANARY("f64nearestc1 returns");
}
void h_f64nearestc2(void) {
  ND(F64, a0);
  ND(U64, a1);
  U64 r;
  g_libm_calls = 0;
  g_spec_trap = SPEC_NOTRAP;
  r = c02flt_f64nearestc2(&inst, a0, a1);
  OBL(g_spec_trap == SPEC_NOTRAP, "f64nearestc2: returned normally only if the specification does not trap");
  OBL(((r) == ((a1 ^ g_libm_ret))), "f64nearestc2: result equals the specified value");
  OBL(LIBM_USED_EXACTLY(LIBM_NEARBYINT, vh_f64bits(a0), 0, g_libm_ret), "f64nearestc2: exactly one call of the specified libm function on the operands' bits, result passed on bit-identically");
  CANARY("f64nearestc2 returns");
}
void h_f64sqrtc0(void) {
  ND(F64, a0);
  F64 r;
  g_libm_calls = 0;
  g_spec_trap = SPEC_NOTRAP;
  r = c02flt_f64sqrtc0(&inst, a0);
  OBL(g_spec_trap == SPEC_NOTRAP, "f64sqrtc0: returned normally only if the specification does not trap");
  OBL(LIBM_USED_EXACTLY(LIBM_SQRT, vh_f64bits(a0), 0, vh_f64bits(r)), "f64sqrtc0: exactly one call of the specified libm function on the operands' bits, result passed on bit-identically");
  CANARY("f64sqrtc0 returns");
}
void h_f64sqrtc1(void) {
  ND(F64, a0);
  ND(U64, a1);
  ND(F32, a2);
  F64 r;
  g_libm_calls = 0;
  g_spec_trap = SPEC_NOTRAP;
  r = c02flt_f64sqrtc1(&inst, a0, a1, a2);
  OBL(g_spec_trap == SPEC_NOTRAP, "f64sqrtc1: returned normally only if the specification does not trap");
  OBL(((inst.g1) == (a1)), "f64sqrtc1: value two below the operands survives");
  OBL((vh_f32bits(inst.g2) == vh_f32bits(a2)), "f64sqrtc1: value directly below the operands survives");
  OBL(LIBM_USED_EXACTLY(LIBM_SQRT, vh_f64bits(a0), 0, vh_f64bits(r)), "f64sqrtc1: exactly one call of the specified libm function on the operands' bits, result passed on bit-identically");
  CANARY("f64sqrtc1 returns");
}
void h_f64sqrtc2(void) {
  ND(F64, a0);
  ND(U64, a1);
  U64 r;
  g_libm_calls = 0;
  g_spec_trap = SPEC_NOTRAP;
  r = c02flt_f64sqrtc2(&inst, a0, a1);
  OBL(g_spec_trap == SPEC_NOTRAP, "f64sqrtc2: returned normally only if the specification does not trap");
  OBL(((r) == ((a1 ^ g_libm_ret))), "f64sqrtc2: result equals the specified value");
  OBL(LIBM_USED_EXACTLY(LIBM_SQRT, vh_f64bits(a0), 0, g_libm_ret), "f64sqrtc2: exactly one call of the specified libm function on the operands' bits, result passed on bit-identically");
  CANARY("f64sqrtc2 returns");
}
void h_f64absc0(void) {
  ND(F64, a0);
  F64 r;
  g_libm_calls = 0;
  g_spec_trap = SPEC_NOTRAP;
  r = c02flt_f64absc0(&inst, a0);
  OBL(g_spec_trap == SPEC_NOTRAP, "f64absc0: returned normally only if the specification does not trap");
  OBL(LIBM_USED_EXACTLY(LIBM_FABS, vh_f64bits(a0), 0, vh_f64bits(r)), "f64absc0: exactly one call of the specified libm function on the operands' bits, result passed on bit-identically");
  CANARY("f64absc0 returns");
}
void h_f64absc1(void) {
  ND(F64, a0);
  ND(U64, a1);
  ND(F32, a2);
  F64 r;
  g_libm_calls = 0;
  g_spec_trap = SPEC_NOTRAP;
  r = c02flt_f64absc1(&inst, a0, a1, a2);
  OBL(g_spec_trap == SPEC_NOTRAP, "f64absc1: returned normally only if the specification does not trap");
  OBL(((inst.g1) == (a1)), "f64absc1: value two below the operands survives");
  OBL((vh_f32bits(inst.g2) == vh_f32bits(a2)), "f64absc1: value directly below the operands survives");
  OBL(LIBM_USED_EXACTLY(LIBM_FABS, vh_f64bits(a0), 0, vh_f64bits(r)), "f64absc1: exactly one call of the specified libm function on the operands' bits, result passed on bit-identically");
  CANARY("f64absc1 returns");
}
void h_f64absc2(void) {
  ND(F64, a0);
  ND(U64, a1);
  U64 r;
  g_libm_calls = 0;
  g_spec_trap = SPEC_NOTRAP;
  r = c02flt_f64absc2(&inst, a0, a1);
  OBL(g_spec_trap == SPEC_NOTRAP, "f64absc2: returned normally only if the specification does not trap");
  OBL(((r) == ((a1 ^ g_libm_ret))), "f64absc2: result equals the specified value");
  OBL(LIBM_USED_EXACTLY(LIBM_FABS, vh_f64bits(a0), 0, g_libm_ret), "f64absc2: exactly one call of the specified libm function on the operands' bits, result passed on bit-identically");
  CANARY("f64absc2 returns");
}
void h_f64copysignc0(void) {
  ND(F64, a0);
  ND(F64, a1);
  F64 r;
  g_libm_calls = 0;
  g_spec_trap = SPEC_NOTRAP;
  r = c02flt_f64copysignc0(&inst, a0, a1);
  OBL(g_spec_trap == SPEC_NOTRAP, "f64copysignc0: returned normally only if the specification does not trap");
  OBL(LIBM_USED_EXACTLY(LIBM_COPYSIGN, vh_f64bits(a0), vh_f64bits(a1), vh_f64bits(r)), "f64copysignc0: exactly one call of the specified libm function on the operands' bits, result passed on bit-identically");
  CANARY("f64copysignc0 returns");
}
void h_f64copysignc1(void) {
  ND(F64, a0);
  ND(F64, a1);
  ND(U64, a2);
  ND(F32, a3);
  F64 r;
  g_libm_calls = 0;
  g_spec_trap = SPEC_NOTRAP;
  r = c02flt_f64copysignc1(&inst, a0, a1, a2, a3);
  OBL(g_spec_trap == SPEC_NOTRAP, "f64copysignc1: returned normally only if the specification does not trap");
  OBL(((inst.g1) == (a2)), "f64copysignc1: value two below the operands survives");
  OBL((vh_f32bits(inst.g2) == vh_f32bits(a3)), "f64copysignc1: value directly below the operands survives");
  OBL(LIBM_USED_EXACTLY(LIBM_COPYSIGN, vh_f64bits(a0), vh_f64bits(a1), vh_f64bits(r)), "f64copysignc1: exactly one call of the specified libm function on the operands' bits, result passed on bit-identically");
  CANARY("f64copysignc1 returns");
}
void h_f64copysignc2(void) {
  ND(F64, a0);
  ND(F64, a1);
  ND(U64, a2);
  U64 r;
  g_libm_calls = 0;
  g_spec_trap = SPEC_NOTRAP;
  r = c02flt_f64copysignc2(&inst, a0, a1, a2);
  OBL(g_spec_trap == SPEC_NOTRAP, "f64copysignc2: returned normally only if the specification does not trap");
  OBL(((r) == ((a2 ^ g_libm_ret))), "f64copysignc2: result equals the specified value");
  OBL(LIBM_USED_EXACTLY(LIBM_COPYSIGN, vh_f64bits(a0), vh_f64bits(a1), g_libm_ret), "f64copysignc2: exactly one call of the specified libm function on the operands' bits, result passed on bit-identically");
  CANARY("f64copysignc2 returns");
}
void h_f64eqc0(void) {
  ND(F64, a0);
  ND(F64, a1);
  U32 r;
  g_libm_calls = 0;
  g_spec_trap = SPEC_NOTRAP;
  r = c02flt_f64eqc0(&inst, a0, a1);
  OBL(g_spec_trap == SPEC_NOTRAP, "f64eqc0: returned normally only if the specification does not trap");
  OBL(((r) == (spec_f64_eq(a0, a1))), "f64eqc0: result equals the specified value");
  OBL(g_libm_calls == 0, "f64eqc0: no library call is involved");
  CANARY("f64eqc0 returns");
}
void h_f64eqc1(void) {
  ND(F64, a0);
  ND(F64, a1);
  ND(U64, a2);
  ND(F32, a3);
  U32 r;
  g_libm_calls = 0;
  g_spec_trap = SPEC_NOTRAP;
  r = c02flt_f64eqc1(&inst, a0, a1, a2, a3);
  OBL(g_spec_trap == SPEC_NOTRAP, "f64eqc1: returned normally only if the specification does not trap");
  OBL(((r) == (spec_f64_eq(a0, a1))), "f64eqc1: result equals the specified value");
  OBL(((inst.g1) == (a2)), "f64eqc1: value two below the operands survives");
  OBL((vh_f32bits(inst.g2) == vh_f32bits(a3)), "f64eqc1: value directly below the operands survives");
  OBL(g_libm_calls == 0, "f64eqc1: no library call is involved");
  CANARY("f64eqc1 returns");
}
void h_f64eqc2(void) {
  ND(F64, a0);
  ND(F64, a1);
  ND(U32, a2);
  U32 r;
  g_libm_calls = 0;
  g_spec_trap = SPEC_NOTRAP;
  r = c02flt_f64eqc2(&inst, a0, a1, a2);
  OBL(g_spec_trap == SPEC_NOTRAP, "f64eqc2: returned normally only if the specification does not trap");
  OBL(((r) == ((a2 ^ spec_f64_eq(a0, a1)))), "f64eqc2: result equals the specified value");
  OBL(g_libm_calls == 0, "f64eqc2: no library call is involved");
  CANARY("f64eqc2 returns");
}
void h_f64nec0(void) {
  ND(F64, a0);
  ND(F64, a1);
  U32 r;
  g_libm_calls = 0;
  g_spec_trap = SPEC_NOTRAP;
  r = c02flt_f64nec0(&inst, a0, a1);
  OBL(g_spec_trap == SPEC_NOTRAP, "f64nec0: returned normally only if the specification does not trap");
  OBL(((r) == (spec_f64_ne(a0, a1))), "f64nec0: result equals the specified value");
  OBL(g_libm_calls == 0, "f64nec0: no library call is involved");
  CANARY("f64nec0 returns");
}
void h_f64nec1(void) {
  ND(F64, a0);
  ND(F64, a1);
  ND(U64, a2);
  ND(F32, a3);
  U32 r;
  g_libm_calls = 0;
  g_spec_trap = SPEC_NOTRAP;
  r = c02flt_f64nec1(&inst, a0, a1, a2, a3);
  OBL(g_spec_trap == SPEC_NOTRAP, "f64nec1: returned normally only if the specification does not trap");
  OBL(((r) == (spec_f64_ne(a0, a1))), "f64nec1: result equals the specified value");
  OBL(((inst.g1) == (a2)), "f64nec1: value two below the operands survives");
  OBL((vh_f32bits(inst.g2) == vh_f32bits(a3)), "f64nec1: value directly below the operands survives");
  OBL(g_libm_calls == 0, "f64nec1: no library call is involved");
  CANARY("f64nec1 returns");
}
void h_f64nec2(void) {
  ND(F64, a0);
  ND(F64, a1);
  ND(U32, a2);
  U32 r;
  g_libm_calls = 0;
  g_spec_trap = SPEC_NOTRAP;
  r = c02flt_f64nec2(&inst, a0, a1, a2);
  OBL(g_spec_trap == SPEC_NOTRAP, "f64nec2: returned normally only if the specification does not trap");
  OBL(((r) == ((a2 ^ spec_f64_ne(a0, a1)))), "f64nec2: result equals the specified value");
  OBL(g_libm_calls == 0, "f64nec2: no library call is involved");
  CANARY("f64nec2 returns");
}
void h_f64ltc0(void) {
  ND(F64, a0);
  ND(F64, a1);
  U32 r;
  g_libm_calls = 0;
  g_spec_trap = SPEC_NOTRAP;
  r = c02flt_f64ltc0(&inst, a0, a1);
  OBL(g_spec_trap == SPEC_NOTRAP, "f64ltc0: returned normally only if the specification does not trap");
  OBL(((r) == (spec_f64_lt(a0, a1))), "f64ltc0: result equals the specified value");
  OBL(g_libm_calls == 0, "f64ltc0: no library call is involved");
  CANARY("f64ltc0 returns");
}
void h_f64ltc1(void) {
  ND(F64, a0);
  ND(F64, a1);
  ND(U64, a2);
  ND(F32, a3);
  U32 r;
  g_libm_calls = 0;
  g_spec_trap = SPEC_NOTRAP;
  r = c02flt_f64ltc1(&inst, a0, a1, a2, a3);
  OBL(g_spec_trap == SPEC_NOTRAP, "f64ltc1: returned normally only if the specification does not trap");
  OBL(((r) == (spec_f64_lt(a0, a1))), "f64ltc1: result equals the specified value");
  OBL(((inst.g1) == (a2)), "f64ltc1: value two below the operands survives");
  OBL((vh_f32bits(inst.g2) == vh_f32bits(a3)), "f64ltc1: value directly below the operands survives");
  OBL(g_libm_calls == 0, "f64ltc1: no library call is involved");
  CANARY("f64ltc1 returns");
}
void h_f64ltc2(void) {
  ND(F64, a0);
  ND(F64, a1);
  ND(U32, a2);
  U32 r;
  g_libm_calls = 0;
  g_spec_trap = SPEC_NOTRAP;
  r = c02flt_f64ltc2(&inst, a0, a1, a2);
  OBL(g_spec_trap == SPEC_NOTRAP, "f64ltc2: returned normally only if the specification does not trap");
  OBL(((r) == ((a2 ^ spec_f64_lt(a0, a1)))), "f64ltc2: result equals the specified value");
  OBL(g_libm_calls == 0, "f64ltc2: no library call is involved");
  CANARY("f64ltc2 returns");
}
void h_f64gtc0(void) {
  ND(F64, a0);
  ND(F64, a1);
  U32 r;
  g_libm_calls = 0;
  g_spec_trap = SPEC_NOTRAP;
  r = c02flt_f64gtc0(&inst, a0, a1);
  OBL(g_spec_trap == SPEC_NOTRAP, "f64gtc0: returned normally only if the specification does not trap");
  OBL(((r) == (spec_f64_gt(a0, a1))), "f64gtc0: result equals the specified value");
  OBL(g_libm_calls == 0, "f64gtc0: no library call is involved");
  CANARY("f64gtc0 returns");
}
void h_f64gtc1(void) {
  ND(F64, a0);
  ND(F64, a1);
  ND(U64, a2);
  ND(F32, a3);
  U32 r;
  g_libm_calls = 0;
  g_spec_trap = SPEC_NOTRAP;
  r = c02flt_f64gtc1(&inst, a0, a1, a2, a3);
  OBL(g_spec_trap == SPEC_NOTRAP, "f64gtc1: returned normally only if the specification does not trap");
  OBL(((r) == (spec_f64_gt(a0, a1))), "f64gtc1: result equals the specified value");
  OBL(((inst.g1) == (a2)), "f64gtc1: value two below the operands survives");
  OBL((vh_f32bits(inst.g2) == vh_f32bits(a3)), "f64gtc1: value directly below the operands survives");
  OBL(g_libm_calls == 0, "f64gtc1: no library call is involved");
  CANARY("f64gtc1 returns");
}
void h_f64gtc2(void) {
  ND(F64, a0);
  ND(F64, a1);
  ND(U32, a2);
  U32 r;
  g_libm_calls = 0;
  g_spec_trap = SPEC_NOTRAP;
  r = c02flt_f64gtc2(&inst, a0, a1, a2);
  OBL(g_spec_trap == SPEC_NOTRAP, "f64gtc2: returned normally only if the specification does not trap");
  OBL(((r) == ((a2 ^ spec_f64_gt(a0, a1)))), "f64gtc2: result equals the specified value");
  OBL(g_libm_calls == 0, "f64gtc2: no library call is involved");
  CANARY("f64gtc2 returns");
}
void h_f64lec0(void) {
  ND(F64, a0);
  ND(F64, a1);
  U32 r;
  g_libm_calls = 0;
  g_spec_trap = SPEC_NOTRAP;
  r = c02flt_f64lec0(&inst, a0, a1);
  OBL(g_spec_trap == SPEC_NOTRAP, "f64lec0: returned normally only if the specification does not trap");
  OBL(((r) == (spec_f64_le(a0, a1))), "f64lec0: result equals the specified value");
  OBL(g_libm_calls == 0, "f64lec0: no library call is involved");
  CANARY("f64lec0 returns");
}
void h_f64lec1(void) {
  ND(F64, a0);
  ND(F64, a1);
  ND(U64, a2);
  ND(F32, a3);
  U32 r;
  g_libm_calls = 0;
  g_spec_trap = SPEC_NOTRAP;
  r = c02flt_f64lec1(&inst, a0, a1, a2, a3);
  OBL(g_spec_trap == SPEC_NOTRAP, "f64lec1: returned normally only if the specification does not trap");
  OBL(((r) == (spec_f64_le(a0, a1))), "f64lec1: result equals the specified value");
  OBL(((inst.g1) == (a2)), "f64lec1: value two below the operands survives");
  OBL((vh_f32bits(inst.g2) == vh_f32bits(a3)), "f64lec1: value directly below the operands survives");
  OBL(g_libm_calls == 0, "f64lec1: no library call is involved");
  CANARY("f64lec1 returns");
}
void h_f64lec2(void) {
  ND(F64, a0);
  ND(F64, a1);
  ND(U32, a2);
  U32 r;
  g_libm_calls = 0;
  g_spec_trap = SPEC_NOTRAP;
  r = c02flt_f64lec2(&inst, a0, a1, a2);
  OBL(g_spec_trap == SPEC_NOTRAP, "f64lec2: returned normally only if the specification does not trap");
  OBL(((r) == ((a2 ^ spec_f64_le(a0, a1)))), "f64lec2: result equals the specified value");
  OBL(g_libm_calls == 0, "f64lec2: no library call is involved");
  CANARY("f64lec2 returns");
}
void h_f64gec0(void) {
  ND(F64, a0);
  ND(F64, a1);
  U32 r;
  g_libm_calls = 0;
  g_spec_trap = SPEC_NOTRAP;
  r = c02flt_f64gec0(&inst, a0, a1);
  OBL(g_spec_trap == SPEC_NOTRAP, "f64gec0: returned normally only if the specification does not trap");
  OBL(((r) == (spec_f64_ge(a0, a1))), "f64gec0: result equals the specified value");
  OBL(g_libm_calls == 0, "f64gec0: no library call is involved");
  CANARY("f64gec0 returns");
}
void h_f64gec1(void) {
  ND(F64, a0);
  ND(F64, a1);
  ND(U64, a2);
  ND(F32, a3);
  U32 r;
  g_libm_calls = 0;
  g_spec_trap = SPEC_NOTRAP;
  r = c02flt_f64gec1(&inst, a0, a1, a2, a3);
  OBL(g_spec_trap == SPEC_NOTRAP, "f64gec1: returned normally only if the specification does not trap");
  OBL(((r) == (spec_f64_ge(a0, a1))), "f64gec1: result equals the specified value");
  OBL(((inst.g1) == (a2)), "f64gec1: value two below the operands survives");
  OBL((vh_f32bits(inst.g2) == vh_f32bits(a3)), "f64gec1: value directly below the operands survives");
  OBL(g_libm_calls == 0, "f64gec1: no library call is involved");
  CANARY("f64gec1 returns");
}
void h_f64gec2(void) {
  ND(F64, a0);
  ND(F64, a1);
  ND(U32, a2);
  U32 r;
  g_libm_calls = 0;
  g_spec_trap = SPEC_NOTRAP;
  r = c02flt_f64gec2(&inst, a0, a1, a2);
  OBL(g_spec_trap == SPEC_NOTRAP, "f64gec2: returned normally only if the specification does not trap");
  OBL(((r) == ((a2 ^ spec_f64_ge(a0, a1)))), "f64gec2: result equals the specified value");
  OBL(g_libm_calls == 0, "f64gec2: no library call is involved");
  CANARY("f64gec2 returns");
}
void h_i32truncf32sc0(void) {
  ND(F32, a0);
  U32 r;
  g_libm_calls = 0;
  g_spec_trap = spec_i32_trunc_f32_s_trap(a0);
  r = c02flt_i32truncf32sc0(&inst, a0);
  OBL(g_spec_trap == SPEC_NOTRAP, "i32truncf32sc0: returned normally only if the specification does not trap");
  OBL(((r) == (spec_i32_trunc_f32_s(a0))), "i32truncf32sc0: result equals the specified value");
  OBL(g_libm_calls == 0, "i32truncf32sc0: no library call is involved");
  CANARY("i32truncf32sc0 returns");
}
void h_i32truncf32sc1(void) {
  ND(F32, a0);
  ND(U64, a1);
  ND(F32, a2);
  U32 r;
  g_libm_calls = 0;
  g_spec_trap = spec_i32_trunc_f32_s_trap(a0);
  r = c02flt_i32truncf32sc1(&inst, a0, a1, a2);
  OBL(g_spec_trap == SPEC_NOTRAP, "i32truncf32sc1: returned normally only if the specification does not trap");
  OBL(((r) == (spec_i32_trunc_f32_s(a0))), "i32truncf32sc1: result equals the specified value");
  OBL(((inst.g1) == (a1)), "i32truncf32sc1: value two below the operands survives");
  OBL((vh_f32bits(inst.g2) == vh_f32bits(a2)), "i32truncf32sc1: value directly below the operands survives");
  OBL(g_libm_calls == 0, "i32truncf32sc1: no library call is involved");
  CANARY("i32truncf32sc1 returns");
}
void h_i32truncf32sc2(void) {
  ND(F32, a0);
  ND(U32, a1);
  U32 r;
  g_libm_calls = 0;
  g_spec_trap = spec_i32_trunc_f32_s_trap(a0);
  r = c02flt_i32truncf32sc2(&inst, a0, a1);
  OBL(g_spec_trap == SPEC_NOTRAP, "i32truncf32sc2: returned normally only if the specification does not trap");
  OBL(((r) == ((a1 ^ spec_i32_trunc_f32_s(a0)))), "i32truncf32sc2: result equals the specified value");
  OBL(g_libm_calls == 0, "i32truncf32sc2: no library call is involved");
  CANARY("i32truncf32sc2 returns");
}
void h_i32truncsatf32sc0(void) {
  ND(F32, a0);
  U32 r;
  g_libm_calls = 0;
  g_spec_trap = SPEC_NOTRAP;
  r = c02flt_i32truncsatf32sc0(&inst, a0);
  OBL(g_spec_trap == SPEC_NOTRAP, "i32truncsatf32sc0: returned normally only if the specification does not trap");
  OBL(((r) == (spec_i32_trunc_sat_f32_s(a0))), "i32truncsatf32sc0: result equals the specified value");
  OBL(g_libm_calls == 0, "i32truncsatf32sc0: no library call is involved");
  CANARY("i32truncsatf32sc0 returns");
}
void h_i32truncsatf32sc1(void) {
  ND(F32, a0);
  ND(U64, a1);
  ND(F32, a2);
  U32 r;
  g_libm_calls = 0;
  g_spec_trap = SPEC_NOTRAP;
  r = c02flt_i32truncsatf32sc1(&inst, a0, a1, a2);
  OBL(g_spec_trap == SPEC_NOTRAP, "i32truncsatf32sc1: returned normally only if the specification does not trap");
  OBL(((r) == (spec_i32_trunc_sat_f32_s(a0))), "i32truncsatf32sc1: result equals the specified value");
  OBL(((inst.g1) == (a1)), "i32truncsatf32sc1: value two below the operands survives");
  OBL((vh_f32bits(inst.g2) == vh_f32bits(a2)), "i32truncsatf32sc1: value directly below the operands survives");
  OBL(g_libm_calls == 0, "i32truncsatf32sc1: no library call is involved");
  CANARY("i32truncsatf32sc1 returns");
}
void h_i32truncsatf32sc2(void) {
  ND(F32, a0);
  ND(U32, a1);
  U32 r;
  g_libm_calls = 0;
  g_spec_trap = SPEC_NOTRAP;
  r = c02flt_i32truncsatf32sc2(&inst, a0, a1);
  OBL(g_spec_trap == SPEC_NOTRAP, "i32truncsatf32sc2: returned normally only if the specification does not trap");
  OBL(((r) == ((a1 ^ spec_i32_trunc_sat_f32_s(a0)))), "i32truncsatf32sc2: result equals the specified value");
  OBL(g_libm_calls == 0, "i32truncsatf32sc2: no library call is involved");
  CANARY("i32truncsatf32sc2 returns");
}
void h_f32converti32sc0(void) {
  ND(U32, a0);
  F32 r;
  g_libm_calls = 0;
  g_spec_trap = SPEC_NOTRAP;
  r = c02flt_f32converti32sc0(&inst, a0);
  OBL(g_spec_trap == SPEC_NOTRAP, "f32converti32sc0: returned normally only if the specification does not trap");
  { F32 s_ = spec_f32_convert_i32_s(a0);
  OBL(spec_isnan32(spec_f32_bits(s_)) || spec_f32_bits(r) == spec_f32_bits(s_), "f32converti32sc0: a non-NaN specified result is delivered bit-exactly");
  OBL(!spec_isnan32(spec_f32_bits(s_)) || spec_isnan32(spec_f32_bits(r)), "f32converti32sc0: the result is a NaN where the specification yields a NaN"); }
  OBL(g_libm_calls == 0, "f32converti32sc0: no library call is involved");
  CANARY("f32converti32sc0 returns");
}
void h_f32converti32sc1(void) {
  ND(U32, a0);
  ND(U64, a1);
  ND(F32, a2);
  F32 r;
  g_libm_calls = 0;
  g_spec_trap = SPEC_NOTRAP;
  r = c02flt_f32converti32sc1(&inst, a0, a1, a2);
  OBL(g_spec_trap == SPEC_NOTRAP, "f32converti32sc1: returned normally only if the specification does not trap");
  { F32 s_ = spec_f32_convert_i32_s(a0);
  OBL(spec_isnan32(spec_f32_bits(s_)) || spec_f32_bits(r) == spec_f32_bits(s_), "f32converti32sc1: a non-NaN specified result is delivered bit-exactly");
  OBL(!spec_isnan32(spec_f32_bits(s_)) || spec_isnan32(spec_f32_bits(r)), "f32converti32sc1: the result is a NaN where the specification yields a NaN"); }
  OBL(((inst.g1) == (a1)), "f32converti32sc1: value two below the operands survives");
  OBL((vh_f32bits(inst.g2) == vh_f32bits(a2)), "f32converti32sc1: value directly below the operands survives");
  OBL(g_libm_calls == 0, "f32converti32sc1: no library call is involved");
  CANARY("f32converti32sc1 returns");
}
void h_f32converti32sc2(void) {
  ND(U32, a0);
  ND(U32, a1);
  U32 r;
  g_libm_calls = 0;
  ASSUME(!spec_isnan32(vh_f32bits(spec_f32_convert_i32_s(a0))));
  g_spec_trap = SPEC_NOTRAP;
  r = c02flt_f32converti32sc2(&inst, a0, a1);
  OBL(g_spec_trap == SPEC_NOTRAP, "f32converti32sc2: returned normally only if the specification does not trap");
  OBL(((r) == ((a1 ^ vh_f32bits(spec_f32_convert_i32_s(a0))))), "f32converti32sc2: result equals the specified value");
  OBL(g_libm_calls == 0, "f32converti32sc2: no library call is involved");
  CANARY("f32converti32sc2 returns");
}
void h_i32truncf32uc0(void) {
  ND(F32, a0);
  U32 r;
  g_libm_calls = 0;
  g_spec_trap = spec_i32_trunc_f32_u_trap(a0);
  r = c02flt_i32truncf32uc0(&inst, a0);
  OBL(g_spec_trap == SPEC_NOTRAP, "i32truncf32uc0: returned normally only if the specification does not trap");
  OBL(((r) == (spec_i32_trunc_f32_u(a0))), "i32truncf32uc0: result equals the specified value");
  OBL(g_libm_calls == 0, "i32truncf32uc0: no library call is involved");
  CANARY("i32truncf32uc0 returns");
}
void h_i32truncf32uc1(void) {
  ND(F32, a0);
  ND(U64, a1);
  ND(F32, a2);
  U32 r;
  g_libm_calls = 0;
  g_spec_trap = spec_i32_trunc_f32_u_trap(a0);
  r = c02flt_i32truncf32uc1(&inst, a0, a1, a2);
  OBL(g_spec_trap == SPEC_NOTRAP, "i32truncf32uc1: returned normally only if the specification does not trap");
  OBL(((r) == (spec_i32_trunc_f32_u(a0))), "i32truncf32uc1: result equals the specified value");
  OBL(((inst.g1) == (a1)), "i32truncf32uc1: value two below the operands survives");
  OBL((vh_f32bits(inst.g2) == vh_f32bits(a2)), "i32truncf32uc1: value directly below the operands survives");
  OBL(g_libm_calls == 0, "i32truncf32uc1: no library call is involved");
  CANARY("i32truncf32uc1 returns");
}
void h_i32truncf32uc2(void) {
  ND(F32, a0);
  ND(U32, a1);
  U32 r;
  g_libm_calls = 0;
  g_spec_trap = spec_i32_trunc_f32_u_trap(a0);
  r = c02flt_i32truncf32uc2(&inst, a0, a1);
  OBL(g_spec_trap == SPEC_NOTRAP, "i32truncf32uc2: returned normally only if the specification does not trap");
  OBL(((r) == ((a1 ^ spec_i32_trunc_f32_u(a0)))), "i32truncf32uc2: result equals the specified value");
  OBL(g_libm_calls == 0, "i32truncf32uc2: no library call is involved");
  CANARY("i32truncf32uc2 returns");
}
void h_i32truncsatf32uc0(void) {
  ND(F32, a0);
  U32 r;
  g_libm_calls = 0;
  g_spec_trap = SPEC_NOTRAP;
  r = c02flt_i32truncsatf32uc0(&inst, a0);
  OBL(g_spec_trap == SPEC_NOTRAP, "i32truncsatf32uc0: returned normally only if the specification does not trap");
  OBL(((r) == (spec_i32_trunc_sat_f32_u(a0))), "i32truncsatf32uc0: result equals the specified value");
  OBL(g_libm_calls == 0, "i32truncsatf32uc0: no library call is involved");
  CANARY("i32truncsatf32uc0 returns");
}
void h_i32truncsatf32uc1(void) {
  ND(F32, a0);
  ND(U64, a1);
  ND(F32, a2);
  U32 r;
  g_libm_calls = 0;
  g_spec_trap = SPEC_NOTRAP;
  r = c02flt_i32truncsatf32uc1(&inst, a0, a1, a2);
  OBL(g_spec_trap == SPEC_NOTRAP, "i32truncsatf32uc1: returned normally only if the specification does not trap");
  OBL(((r) == (spec_i32_trunc_sat_f32_u(a0))), "i32truncsatf32uc1: result equals the specified value");
  OBL(((inst.g1) == (a1)), "i32truncsatf32uc1: value two below the operands survives");
  OBL((vh_f32bits(inst.g2) == vh_f32bits(a2)), "i32truncsatf32uc1: value directly below the operands survives");
  OBL(g_libm_calls == 0, "i32truncsatf32uc1: no library call is involved");
  CANARY("i32truncsatf32uc1 returns");
}
void h_i32truncsatf32uc2(void) {
  ND(F32, a0);
  ND(U32, a1);
  U32 r;
  g_libm_calls = 0;
  g_spec_trap = SPEC_NOTRAP;
  r = c02flt_i32truncsatf32uc2(&inst, a0, a1);
  OBL(g_spec_trap == SPEC_NOTRAP, "i32truncsatf32uc2: returned normally only if the specification does not trap");
  OBL(((r) == ((a1 ^ spec_i32_trunc_sat_f32_u(a0)))), "i32truncsatf32uc2: result equals the specified value");
  OBL(g_libm_calls == 0, "i32truncsatf32uc2: no library call is involved");
  CANARY("i32truncsatf32uc2 returns");
}
void h_f32converti32uc0(void) {
  ND(U32, a0);
  F32 r;
  g_libm_calls = 0;
  g_spec_trap = SPEC_NOTRAP;
  r = c02flt_f32converti32uc0(&inst, a0);
  OBL(g_spec_trap == SPEC_NOTRAP, "f32converti32uc0: returned normally only if the specification does not trap");
  { F32 s_ = spec_f32_convert_i32_u(a0);
  OBL(spec_isnan32(spec_f32_bits(s_)) || spec_f32_bits(r) == spec_f32_bits(s_), "f32converti32uc0: a non-NaN specified result is delivered bit-exactly");
  OBL(!spec_isnan32(spec_f32_bits(s_)) || spec_isnan32(spec_f32_bits(r)), "f32converti32uc0: the result is a NaN where the specification yields a NaN"); }
  OBL(g_libm_calls == 0, "f32converti32uc0: no library call is involved");
  CANARY("f32converti32uc0 returns");
}
void h_f32converti32uc1(void) {
  ND(U32, a0);
  ND(U64, a1);
  ND(F32, a2);
  F32 r;
  g_libm_calls = 0;
  g_spec_trap = SPEC_NOTRAP;
  r = c02flt_f32converti32uc1(&inst, a0, a1, a2);
  OBL(g_spec_trap == SPEC_NOTRAP, "f32converti32uc1: returned normally only if the specification does not trap");
  { F32 s_ = spec_f32_convert_i32_u(a0);
  OBL(spec_isnan32(spec_f32_bits(s_)) || spec_f32_bits(r) == spec_f32_bits(s_), "f32converti32uc1: a non-NaN specified result is delivered bit-exactly");
  OBL(!spec_isnan32(spec_f32_bits(s_)) || spec_isnan32(spec_f32_bits(r)), "f32converti32uc1: the result is a NaN where the specification yields a NaN"); }
  OBL(((inst.g1) == (a1)), "f32converti32uc1: value two below the operands survives");
  OBL((vh_f32bits(inst.g2) == vh_f32bits(a2)), "f32converti32uc1: value directly below the operands survives");
  OBL(g_libm_calls == 0, "f32converti32uc1: no library call is involved");
  CANARY("f32converti32uc1 returns");
}
void h_f32converti32uc2(void) {
  ND(U32, a0);
  ND(U32, a1);
  U32 r;
  g_libm_calls = 0;
  ASSUME(!spec_isnan32(vh_f32bits(spec_f32_convert_i32_u(a0))));
  g_spec_trap = SPEC_NOTRAP;
  r = c02flt_f32converti32uc2(&inst, a0, a1);
  OBL(g_spec_trap == SPEC_NOTRAP, "f32converti32uc2: returned normally only if the specification does not trap");
  OBL(((r) == ((a1 ^ vh_f32bits(spec_f32_convert_i32_u(a0))))), "f32converti32uc2: result equals the specified value");
  OBL(g_libm_calls == 0, "f32converti32uc2: no library call is involved");
  CANARY("f32converti32uc2 returns");
}
void h_i32truncf64sc0(void) {
  ND(F64, a0);
  U32 r;
  g_libm_calls = 0;
  g_spec_trap = spec_i32_trunc_f64_s_trap(a0);
  r = c02flt_i32truncf64sc0(&inst, a0);
  OBL(g_spec_trap == SPEC_NOTRAP, "i32truncf64sc0: returned normally only if the specification does not trap");
  OBL(((r) == (spec_i32_trunc_f64_s(a0))), "i32truncf64sc0: result equals the specified value");
  OBL(g_libm_calls == 0, "i32truncf64sc0: no library call is involved");
  CANARY("i32truncf64sc0 returns");
}
void h_i32truncf64sc1(void) {
  ND(F64, a0);
  ND(U64, a1);
  ND(F32, a2);
  U32 r;
  g_libm_calls = 0;
  g_spec_trap = spec_i32_trunc_f64_s_trap(a0);
  r = c02flt_i32truncf64sc1(&inst, a0, a1, a2);
  OBL(g_spec_trap == SPEC_NOTRAP, "i32truncf64sc1: returned normally only if the specification does not trap");
  OBL(((r) == (spec_i32_trunc_f64_s(a0))), "i32truncf64sc1: result equals the specified value");
  OBL(((inst.g1) == (a1)), "i32truncf64sc1: value two below the operands survives");
  OBL((vh_f32bits(inst.g2) == vh_f32bits(a2)), "i32truncf64sc1: value directly below the operands survives");
  OBL(g_libm_calls == 0, "i32truncf64sc1: no library call is involved");
  CANARY("i32truncf64sc1 returns");
}
void h_i32truncf64sc2(void) {
  ND(F64, a0);
  ND(U32, a1);
  U32 r;
  g_libm_calls = 0;
  g_spec_trap = spec_i32_trunc_f64_s_trap(a0);
  r = c02flt_i32truncf64sc2(&inst, a0, a1);
  OBL(g_spec_trap == SPEC_NOTRAP, "i32truncf64sc2: returned normally only if the specification does not trap");
  OBL(((r) == ((a1 ^ spec_i32_trunc_f64_s(a0)))), "i32truncf64sc2: result equals the specified value");
  OBL(g_libm_calls == 0, "i32truncf64sc2: no library call is involved");
  CANARY("i32truncf64sc2 returns");
}
void h_i32truncsatf64sc0(void) {
  ND(F64, a0);
  U32 r;
  g_libm_calls = 0;
  g_spec_trap = SPEC_NOTRAP;
  r = c02flt_i32truncsatf64sc0(&inst, a0);
  OBL(g_spec_trap == SPEC_NOTRAP, "i32truncsatf64sc0: returned normally only if the specification does not trap");
  OBL(((r) == (spec_i32_trunc_sat_f64_s(a0))), "i32truncsatf64sc0: result equals the specified value");
  OBL(g_libm_calls == 0, "i32truncsatf64sc0: no library call is involved");
  CANARY("i32truncsatf64sc0 returns");
}
void h_i32truncsatf64sc1(void) {
  ND(F64, a0);
  ND(U64, a1);
  ND(F32, a2);
  U32 r;
  g_libm_calls = 0;
  g_spec_trap = SPEC_NOTRAP;
  r = c02flt_i32truncsatf64sc1(&inst, a0, a1, a2);
  OBL(g_spec_trap == SPEC_NOTRAP, "i32truncsatf64sc1: returned normally only if the specification does not trap");
  OBL(((r) == (spec_i32_trunc_sat_f64_s(a0))), "i32truncsatf64sc1: result equals the specified value");
  OBL(((inst.g1) == (a1)), "i32truncsatf64sc1: value two below the operands survives");
  OBL((vh_f32bits(inst.g2) == vh_f32bits(a2)), "i32truncsatf64sc1: value directly below the operands survives");
  OBL(g_libm_calls == 0, "i32truncsatf64sc1: no library call is involved");
  CANARY("i32truncsatf64sc1 returns");
}
void h_i32truncsatf64sc2(void) {
  ND(F64, a0);
  ND(U32, a1);
  U32 r;
  g_libm_calls = 0;
  g_spec_trap = SPEC_NOTRAP;
  r = c02flt_i32truncsatf64sc2(&inst, a0, a1);
  OBL(g_spec_trap == SPEC_NOTRAP, "i32truncsatf64sc2: returned normally only if the specification does not trap");
  OBL(((r) == ((a1 ^ spec_i32_trunc_sat_f64_s(a0)))), "i32truncsatf64sc2: result equals the specified value");
  OBL(g_libm_calls == 0, "i32truncsatf64sc2: no library call is involved");
  CANARY("i32truncsatf64sc2 returns");
}
void h_f64converti32sc0(void) {
  ND(U32, a0);
  F64 r;
  g_libm_calls = 0;
  g_spec_trap = SPEC_NOTRAP;
  r = c02flt_f64converti32sc0(&inst, a0);
  OBL(g_spec_trap == SPEC_NOTRAP, "f64converti32sc0: returned normally only if the specification does not trap");
  { F64 s_ = spec_f64_convert_i32_s(a0);
  OBL(spec_isnan64(spec_f64_bits(s_)) || spec_f64_bits(r) == spec_f64_bits(s_), "f64converti32sc0: a non-NaN specified result is delivered bit-exactly");
  OBL(!spec_isnan64(spec_f64_bits(s_)) || spec_isnan64(spec_f64_bits(r)), "f64converti32sc0: the result is a NaN where the specification yields a NaN"); }
  OBL(g_libm_calls == 0, "f64converti32sc0: no library call is involved");
  CANARY("f64converti32sc0 returns");
}
void h_f64converti32sc1(void) {
  ND(U32, a0);
  ND(U64, a1);
  ND(F32, a2);
  F64 r;
  g_libm_calls = 0;
  g_spec_trap = SPEC_NOTRAP;
  r = c02flt_f64converti32sc1(&inst, a0, a1, a2);
  OBL(g_spec_trap == SPEC_NOTRAP, "f64converti32sc1: returned normally only if the specification does not trap");
  { F64 s_ = spec_f64_convert_i32_s(a0);
  OBL(spec_isnan64(spec_f64_bits(s_)) || spec_f64_bits(r) == spec_f64_bits(s_), "f64converti32sc1: a non-NaN specified result is delivered bit-exactly");
  OBL(!spec_isnan64(spec_f64_bits(s_)) || spec_isnan64(spec_f64_bits(r)), "f64converti32sc1: the result is a NaN where the specification yields a NaN"); }
  OBL(((inst.g1) == (a1)), "f64converti32sc1: value two below the operands survives");
  OBL((vh_f32bits(inst.g2) == vh_f32bits(a2)), "f64converti32sc1: value directly below the operands survives");
  OBL(g_libm_calls == 0, "f64converti32sc1: no library call is involved");
  CANARY("f64converti32sc1 returns");
}
void h_f64converti32sc2(void) {
  ND(U32, a0);
  ND(U64, a1);
  U64 r;
  g_libm_calls = 0;
  ASSUME(!spec_isnan64(vh_f64bits(spec_f64_convert_i32_s(a0))));
  g_spec_trap = SPEC_NOTRAP;
  r = c02flt_f64converti32sc2(&inst, a0, a1);
  OBL(g_spec_trap == SPEC_NOTRAP, "f64converti32sc2: returned normally only if the specification does not trap");
  OBL(((r) == ((a1 ^ vh_f64bits(spec_f64_convert_i32_s(a0))))), "f64converti32sc2: result equals the specified value");
  OBL(g_libm_calls == 0, "f64converti32sc2: no library call is involved");
  CANARY("f64converti32sc2 returns");
}
void h_i32truncf64uc0(void) {
  ND(F64, a0);
  U32 r;
  g_libm_calls = 0;
  g_spec_trap = spec_i32_trunc_f64_u_trap(a0);
  r = c02flt_i32truncf64uc0(&inst, a0);
  OBL(g_spec_trap == SPEC_NOTRAP, "i32truncf64uc0: returned normally only if the specification does not trap");
  OBL(((r) == (spec_i32_trunc_f64_u(a0))), "i32truncf64uc0: result equals the specified value");
  OBL(g_libm_calls == 0, "i32truncf64uc0: no library call is involved");
  CANARY("i32truncf64uc0 returns");
}
void h_i32truncf64uc1(void) {
  ND(F64, a0);
  ND(U64, a1);
  ND(F32, a2);
  U32 r;
  g_libm_calls = 0;
  g_spec_trap = spec_i32_trunc_f64_u_trap(a0);
  r = c02flt_i32truncf64uc1(&inst, a0, a1, a2);
  OBL(g_spec_trap == SPEC_NOTRAP, "i32truncf64uc1: returned normally only if the specification does not trap");
  OBL(((r) == (spec_i32_trunc_f64_u(a0))), "i32truncf64uc1: result equals the specified value");
  OBL(((inst.g1) == (a1)), "i32truncf64uc1: value two below the operands survives");
  OBL((vh_f32bits(inst.g2) == vh_f32bits(a2)), "i32truncf64uc1: value directly below the operands survives");
  OBL(g_libm_calls == 0, "i32truncf64uc1: no library call is involved");
  CANARY("i32truncf64uc1 returns");
}
void h_i32truncf64uc2(void) {
  ND(F64, a0);
  ND(U32, a1);
  U32 r;
  g_libm_calls = 0;
  g_spec_trap = spec_i32_trunc_f64_u_trap(a0);
  r = c02flt_i32truncf64uc2(&inst, a0, a1);
  OBL(g_spec_trap == SPEC_NOTRAP, "i32truncf64uc2: returned normally only if the specification does not trap");
  OBL(((r) == ((a1 ^ spec_i32_trunc_f64_u(a0)))), "i32truncf64uc2: result equals the specified value");
  OBL(g_libm_calls == 0, "i32truncf64uc2: no library call is involved");
  CANARY("i32truncf64uc2 returns");
}
void h_i32truncsatf64uc0(void) {
  ND(F64, a0);
  U32 r;
  g_libm_calls = 0;
  g_spec_trap = SPEC_NOTRAP;
  r = c02flt_i32truncsatf64uc0(&inst, a0);
  OBL(g_spec_trap == SPEC_NOTRAP, "i32truncsatf64uc0: returned normally only if the specification does not trap");
  OBL(((r) == (spec_i32_trunc_sat_f64_u(a0))), "i32truncsatf64uc0: result equals the specified value");
  OBL(g_libm_calls == 0, "i32truncsatf64uc0: no library call is involved");
  CANARY("i32truncsatf64uc0 returns");
}
void h_i32truncsatf64uc1(void) {
  ND(F64, a0);
  ND(U64, a1);
  ND(F32, a2);
  U32 r;
  g_libm_calls = 0;
  g_spec_trap = SPEC_NOTRAP;
  r = c02flt_i32truncsatf64uc1(&inst, a0, a1, a2);
  OBL(g_spec_trap == SPEC_NOTRAP, "i32truncsatf64uc1: returned normally only if the specification does not trap");
  OBL(((r) == (spec_i32_trunc_sat_f64_u(a0))), "i32truncsatf64uc1: result equals the specified value");
  OBL(((inst.g1) == (a1)), "i32truncsatf64uc1: value two below the operands survives");
  OBL((vh_f32bits(inst.g2) == vh_f32bits(a2)), "i32truncsatf64uc1: value directly below the operands survives");
  OBL(g_libm_calls == 0, "i32truncsatf64uc1: no library call is involved");
  CANARY("i32truncsatf64uc1 returns");
}
void h_i32truncsatf64uc2(void) {
  ND(F64, a0);
  ND(U32, a1);
  U32 r;
  g_libm_calls = 0;
  g_spec_trap = SPEC_NOTRAP;
  r = c02flt_i32truncsatf64uc2(&inst, a0, a1);
  OBL(g_spec_trap == SPEC_NOTRAP, "i32truncsatf64uc2: returned normally only if the specification does not trap");
  OBL(((r) == ((a1 ^ spec_i32_trunc_sat_f64_u(a0)))), "i32truncsatf64uc2: result equals the specified value");
  OBL(g_libm_calls == 0, "i32truncsatf64uc2: no library call is involved");
  CANARY("i32truncsatf64uc2 returns");
}
void h_f64converti32uc0(void) {
  ND(U32, a0);
  F64 r;
  g_libm_calls = 0;
  g_spec_trap = SPEC_NOTRAP;
  r = c02flt_f64converti32uc0(&inst, a0);
  OBL(g_spec_trap == SPEC_NOTRAP, "f64converti32uc0: returned normally only if the specification does not trap");
  { F64 s_ = spec_f64_convert_i32_u(a0);
  OBL(spec_isnan64(spec_f64_bits(s_)) || spec_f64_bits(r) == spec_f64_bits(s_), "f64converti32uc0: a non-NaN specified result is delivered bit-exactly");
  OBL(!spec_isnan64(spec_f64_bits(s_)) || spec_isnan64(spec_f64_bits(r)), "f64converti32uc0: the result is a NaN where the specification yields a NaN"); }
  OBL(g_libm_calls == 0, "f64converti32uc0: no library call is involved");
  CANARY("f64converti32uc0 returns");
}
void h_f64converti32uc1(void) {
  ND(U32, a0);
  ND(U64, a1);
  ND(F32, a2);
  F64 r;
  g_libm_calls = 0;
  g_spec_trap = SPEC_NOTRAP;
  r = c02flt_f64converti32uc1(&inst, a0, a1, a2);
  OBL(g_spec_trap == SPEC_NOTRAP, "f64converti32uc1: returned normally only if the specification does not trap");
  { F64 s_ = spec_f64_convert_i32_u(a0);
  OBL(spec_isnan64(spec_f64_bits(s_)) || spec_f64_bits(r) == spec_f64_bits(s_), "f64converti32uc1: a non-NaN specified result is delivered bit-exactly");
  OBL(!spec_isnan64(spec_f64_bits(s_)) || spec_isnan64(spec_f64_bits(r)), "f64converti32uc1: the result is a NaN where the specification yields a NaN"); }
  OBL(((inst.g1) == (a1)), "f64converti32uc1: value two below the operands survives");
  OBL((vh_f32bits(inst.g2) == vh_f32bits(a2)), "f64converti32uc1: value directly below the operands survives");
  OBL(g_libm_calls == 0, "f64converti32uc1: no library call is involved");
  CANARY("f64converti32uc1 returns");
}
void h_f64converti32uc2(void) {
  ND(U32, a0);
  ND(U64, a1);
  U64 r;
  g_libm_calls = 0;
  ASSUME(!spec_isnan64(vh_f64bits(spec_f64_convert_i32_u(a0))));
  g_spec_trap = SPEC_NOTRAP;
  r = c02flt_f64converti32uc2(&inst, a0, a1);
  OBL(g_spec_trap == SPEC_NOTRAP, "f64converti32uc2: returned normally only if the specification does not trap");
  OBL(((r) == ((a1 ^ vh_f64bits(spec_f64_convert_i32_u(a0))))), "f64converti32uc2: result equals the specified value");
  OBL(g_libm_calls == 0, "f64converti32uc2: no library call is involved");
  CANARY("f64converti32uc2 returns");
}
void h_i64truncf32sc0(void) {
  ND(F32, a0);
  U64 r;
  g_libm_calls = 0;
  g_spec_trap = spec_i64_trunc_f32_s_trap(a0);
  r = c02flt_i64truncf32sc0(&inst, a0);
  OBL(g_spec_trap == SPEC_NOTRAP, "i64truncf32sc0: returned normally only if the specification does not trap");
  OBL(((r) == (spec_i64_trunc_f32_s(a0))), "i64truncf32sc0: result equals the specified value");
  OBL(g_libm_calls == 0, "i64truncf32sc0: no library call is involved");
  CANARY("i64truncf32sc0 returns");
}
void h_i64truncf32sc1(void) {
  ND(F32, a0);
  ND(U32, a1);
  ND(F64, a2);
  U64 r;
  g_libm_calls = 0;
  g_spec_trap = spec_i64_trunc_f32_s_trap(a0);
  r = c02flt_i64truncf32sc1(&inst, a0, a1, a2);
  OBL(g_spec_trap == SPEC_NOTRAP, "i64truncf32sc1: returned normally only if the specification does not trap");
  OBL(((r) == (spec_i64_trunc_f32_s(a0))), "i64truncf32sc1: result equals the specified value");
  OBL(((inst.g0) == (a1)), "i64truncf32sc1: value two below the operands survives");
  OBL((vh_f64bits(inst.g3) == vh_f64bits(a2)), "i64truncf32sc1: value directly below the operands survives");
  OBL(g_libm_calls == 0, "i64truncf32sc1: no library call is involved");
  CANARY("i64truncf32sc1 returns");
}
void h_i64truncf32sc2(void) {
  ND(F32, a0);
  ND(U64, a1);
  U64 r;
  g_libm_calls = 0;
  g_spec_trap = spec_i64_trunc_f32_s_trap(a0);
  r = c02flt_i64truncf32sc2(&inst, a0, a1);
  OBL(g_spec_trap == SPEC_NOTRAP, "i64truncf32sc2: returned normally only if the specification does not trap");
  OBL(((r) == ((a1 ^ spec_i64_trunc_f32_s(a0)))), "i64truncf32sc2: result equals the specified value");
  OBL(g_libm_calls == 0, "i64truncf32sc2: no library call is involved");
  CANARY("i64truncf32sc2 returns");
}
void h_i64truncsatf32sc0(void) {
  ND(F32, a0);
  U64 r;
  g_libm_calls = 0;
  g_spec_trap = SPEC_NOTRAP;
  r = c02flt_i64truncsatf32sc0(&inst, a0);
  OBL(g_spec_trap == SPEC_NOTRAP, "i64truncsatf32sc0: returned normally only if the specification does not trap");
  OBL(((r) == (spec_i64_trunc_sat_f32_s(a0))), "i64truncsatf32sc0: result equals the specified value");
  OBL(g_libm_calls == 0, "i64truncsatf32sc0: no library call is involved");
  CANARY("i64truncsatf32sc0 returns");
}
void h_i64truncsatf32sc1(void) {
  ND(F32, a0);
  ND(U32, a1);
  ND(F64, a2);
  U64 r;
  g_libm_calls = 0;
  g_spec_trap = SPEC_NOTRAP;
  r = c02flt_i64truncsatf32sc1(&inst, a0, a1, a2);
  OBL(g_spec_trap == SPEC_NOTRAP, "i64truncsatf32sc1: returned normally only if the specification does not trap");
  OBL(((r) == (spec_i64_trunc_sat_f32_s(a0))), "i64truncsatf32sc1: result equals the specified value");
  OBL(((inst.g0) == (a1)), "i64truncsatf32sc1: value two below the operands survives");
  OBL((vh_f64bits(inst.g3) == vh_f64bits(a2)), "i64truncsatf32sc1: value directly below the operands survives");
  OBL(g_libm_calls == 0, "i64truncsatf32sc1: no library call is involved");
  CANARY("i64truncsatf32sc1 returns");
}
void h_i64truncsatf32sc2(void) {
  ND(F32, a0);
  ND(U64, a1);
  U64 r;
  g_libm_calls = 0;
  g_spec_trap = SPEC_NOTRAP;
  r = c02flt_i64truncsatf32sc2(&inst, a0, a1);
  OBL(g_spec_trap == SPEC_NOTRAP, "i64truncsatf32sc2: returned normally only if the specification does not trap");
  OBL(((r) == ((a1 ^ spec_i64_trunc_sat_f32_s(a0)))), "i64truncsatf32sc2: result equals the specified value");
  OBL(g_libm_calls == 0, "i64truncsatf32sc2: no library call is involved");
  CANARY("i64truncsatf32sc2 returns");
}
void h_f32converti64sc0(void) {
  ND(U64, a0);
  F32 r;
  g_libm_calls = 0;
  g_spec_trap = SPEC_NOTRAP;
  r = c02flt_f32converti64sc0(&inst, a0);
  OBL(g_spec_trap == SPEC_NOTRAP, "f32converti64sc0: returned normally only if the specification does not trap");
  { F32 s_ = spec_f32_convert_i64_s(a0);
  OBL(spec_isnan32(spec_f32_bits(s_)) || spec_f32_bits(r) == spec_f32_bits(s_), "f32converti64sc0: a non-NaN specified result is delivered bit-exactly");
  OBL(!spec_isnan32(spec_f32_bits(s_)) || spec_isnan32(spec_f32_bits(r)), "f32converti64sc0: the result is a NaN where the specification yields a NaN"); }
  OBL(g_libm_calls == 0, "f32converti64sc0: no library call is involved");
  CANARY("f32converti64sc0 returns");
}
void h_f32converti64sc1(void) {
  ND(U64, a0);
  ND(U64, a1);
  ND(F32, a2);
  F32 r;
  g_libm_calls = 0;
  g_spec_trap = SPEC_NOTRAP;
  r = c02flt_f32converti64sc1(&inst, a0, a1, a2);
  OBL(g_spec_trap == SPEC_NOTRAP, "f32converti64sc1: returned normally only if the specification does not trap");
  { F32 s_ = spec_f32_convert_i64_s(a0);
  OBL(spec_isnan32(spec_f32_bits(s_)) || spec_f32_bits(r) == spec_f32_bits(s_), "f32converti64sc1: a non-NaN specified result is delivered bit-exactly");
  OBL(!spec_isnan32(spec_f32_bits(s_)) || spec_isnan32(spec_f32_bits(r)), "f32converti64sc1: the result is a NaN where the specification yields a NaN"); }
  OBL(((inst.g1) == (a1)), "f32converti64sc1: value two below the operands survives");
  OBL((vh_f32bits(inst.g2) == vh_f32bits(a2)), "f32converti64sc1: value directly below the operands survives");
  OBL(g_libm_calls == 0, "f32converti64sc1: no library call is involved");
  CANARY("f32converti64sc1 returns");
}
void h_f32converti64sc2(void) {
  ND(U64, a0);
  ND(U32, a1);
  U32 r;
  g_libm_calls = 0;
  ASSUME(!spec_isnan32(vh_f32bits(spec_f32_convert_i64_s(a0))));
  g_spec_trap = SPEC_NOTRAP;
  r = c02flt_f32converti64sc2(&inst, a0, a1);
  OBL(g_spec_trap == SPEC_NOTRAP, "f32converti64sc2: returned normally only if the specification does not trap");
  OBL(((r) == ((a1 ^ vh_f32bits(spec_f32_convert_i64_s(a0))))), "f32converti64sc2: result equals the specified value");
  OBL(g_libm_calls == 0, "f32converti64sc2: no library call is involved");
  CANARY("f32converti64sc2 returns");
}
void h_i64truncf32uc0(void) {
  ND(F32, a0);
  U64 r;
  g_libm_calls = 0;
  g_spec_trap = spec_i64_trunc_f32_u_trap(a0);
  r = c02flt_i64truncf32uc0(&inst, a0);
  OBL(g_spec_trap == SPEC_NOTRAP, "i64truncf32uc0: returned normally only if the specification does not trap");
  OBL(((r) == (spec_i64_trunc_f32_u(a0))), "i64truncf32uc0: result equals the specified value");
  OBL(g_libm_calls == 0, "i64truncf32uc0: no library call is involved");
  CANARY("i64truncf32uc0 returns");
}
void h_i64truncf32uc1(void) {
  ND(F32, a0);
  ND(U32, a1);
  ND(F64, a2);
  U64 r;
  g_libm_calls = 0;
  g_spec_trap = spec_i64_trunc_f32_u_trap(a0);
  r = c02flt_i64truncf32uc1(&inst, a0, a1, a2);
  OBL(g_spec_trap == SPEC_NOTRAP, "i64truncf32uc1: returned normally only if the specification does not trap");
  OBL(((r) == (spec_i64_trunc_f32_u(a0))), "i64truncf32uc1: result equals the specified value");
  OBL(((inst.g0) == (a1)), "i64truncf32uc1: value two below the operands survives");
  OBL((vh_f64bits(inst.g3) == vh_f64bits(a2)), "i64truncf32uc1: value directly below the operands survives");
  OBL(g_libm_calls == 0, "i64truncf32uc1: no library call is involved");
  CANARY("i64truncf32uc1 returns");
}
void h_i64truncf32uc2(void) {
  ND(F32, a0);
  ND(U64, a1);
  U64 r;
  g_libm_calls = 0;
  g_spec_trap = spec_i64_trunc_f32_u_trap(a0);
  r = c02flt_i64truncf32uc2(&inst, a0, a1);
  OBL(g_spec_trap == SPEC_NOTRAP, "i64truncf32uc2: returned normally only if the specification does not trap");
  OBL(((r) == ((a1 ^ spec_i64_trunc_f32_u(a0)))), "i64truncf32uc2: result equals the specified value");
  OBL(g_libm_calls == 0, "i64truncf32uc2: no library call is involved");
  CANARY("i64truncf32uc2 returns");
}
void h_i64truncsatf32uc0(void) {
  ND(F32, a0);
  U64 r;
  g_libm_calls = 0;
  g_spec_trap = SPEC_NOTRAP;
  r = c02flt_i64truncsatf32uc0(&inst, a0);
  OBL(g_spec_trap == SPEC_NOTRAP, "i64truncsatf32uc0: returned normally only if the specification does not trap");
  OBL(((r) == (spec_i64_trunc_sat_f32_u(a0))), "i64truncsatf32uc0: result equals the specified value");
  OBL(g_libm_calls == 0, "i64truncsatf32uc0: no library call is involved");
  CANARY("i64truncsatf32uc0 returns");
}
void h_i64truncsatf32uc1(void) {
  ND(F32, a0);
  ND(U32, a1);
  ND(F64, a2);
  U64 r;
  g_libm_calls = 0;
  g_spec_trap = SPEC_NOTRAP;
  r = c02flt_i64truncsatf32uc1(&inst, a0, a1, a2);
  OBL(g_spec_trap == SPEC_NOTRAP, "i64truncsatf32uc1: returned normally only if the specification does not trap");
  OBL(((r) == (spec_i64_trunc_sat_f32_u(a0))), "i64truncsatf32uc1: result equals the specified value");
  OBL(((inst.g0) == (a1)), "i64truncsatf32uc1: value two below the operands survives");
  OBL((vh_f64bits(inst.g3) == vh_f64bits(a2)), "i64truncsatf32uc1: value directly below the operands survives");
  OBL(g_libm_calls == 0, "i64truncsatf32uc1: no library call is involved");
  CANARY("i64truncsatf32uc1 returns");
}
void h_i64truncsatf32uc2(void) {
  ND(F32, a0);
  ND(U64, a1);
  U64 r;
  g_libm_calls = 0;
  g_spec_trap = SPEC_NOTRAP;
  r = c02flt_i64truncsatf32uc2(&inst, a0, a1);
  OBL(g_spec_trap == SPEC_NOTRAP, "i64truncsatf32uc2: returned normally only if the specification does not trap");
  OBL(((r) == ((a1 ^ spec_i64_trunc_sat_f32_u(a0)))), "i64truncsatf32uc2: result equals the specified value");
  OBL(g_libm_calls == 0, "i64truncsatf32uc2: no library call is involved");
  CANARY("i64truncsatf32uc2 returns");
}
void h_f32converti64uc0(void) {
  ND(U64, a0);
  F32 r;
  g_libm_calls = 0;
  g_spec_trap = SPEC_NOTRAP;
  r = c02flt_f32converti64uc0(&inst, a0);
  OBL(g_spec_trap == SPEC_NOTRAP, "f32converti64uc0: returned normally only if the specification does not trap");
  { F32 s_ = spec_f32_convert_i64_u(a0);
  OBL(spec_isnan32(spec_f32_bits(s_)) || spec_f32_bits(r) == spec_f32_bits(s_), "f32converti64uc0: a non-NaN specified result is delivered bit-exactly");
  OBL(!spec_isnan32(spec_f32_bits(s_)) || spec_isnan32(spec_f32_bits(r)), "f32converti64uc0: the result is a NaN where the specification yields a NaN"); }
  OBL(g_libm_calls == 0, "f32converti64uc0: no library call is involved");
  CANARY("f32converti64uc0 returns");
}
void h_f32converti64uc1(void) {
  ND(U64, a0);
  ND(U64, a1);
  ND(F32, a2);
  F32 r;
  g_libm_calls = 0;
  g_spec_trap = SPEC_NOTRAP;
  r = c02flt_f32converti64uc1(&inst, a0, a1, a2);
  OBL(g_spec_trap == SPEC_NOTRAP, "f32converti64uc1: returned normally only if the specification does not trap");
  { F32 s_ = spec_f32_convert_i64_u(a0);
  OBL(spec_isnan32(spec_f32_bits(s_)) || spec_f32_bits(r) == spec_f32_bits(s_), "f32converti64uc1: a non-NaN specified result is delivered bit-exactly");
  OBL(!spec_isnan32(spec_f32_bits(s_)) || spec_isnan32(spec_f32_bits(r)), "f32converti64uc1: the result is a NaN where the specification yields a NaN"); }
  OBL(((inst.g1) == (a1)), "f32converti64uc1: value two below the operands survives");
  OBL((vh_f32bits(inst.g2) == vh_f32bits(a2)), "f32converti64uc1: value directly below the operands survives");
  OBL(g_libm_calls == 0, "f32converti64uc1: no library call is involved");
  CANARY("f32converti64uc1 returns");
}
void h_f32converti64uc2(void) {
  ND(U64, a0);
  ND(U32, a1);
  U32 r;
  g_libm_calls = 0;
  ASSUME(!spec_isnan32(vh_f32bits(spec_f32_convert_i64_u(a0))));
  g_spec_trap = SPEC_NOTRAP;
  r = c02flt_f32converti64uc2(&inst, a0, a1);
  OBL(g_spec_trap == SPEC_NOTRAP, "f32converti64uc2: returned normally only if the specification does not trap");
  OBL(((r) == ((a1 ^ vh_f32bits(spec_f32_convert_i64_u(a0))))), "f32converti64uc2: result equals the specified value");
  OBL(g_libm_calls == 0, "f32converti64uc2: no library call is involved");
  CANARY("f32converti64uc2 returns");
}
void h_i64truncf64sc0(void) {
  ND(F64, a0);
  U64 r;
  g_libm_calls = 0;
  g_spec_trap = spec_i64_trunc_f64_s_trap(a0);
  r = c02flt_i64truncf64sc0(&inst, a0);
  OBL(g_spec_trap == SPEC_NOTRAP, "i64truncf64sc0: returned normally only if the specification does not trap");
  OBL(((r) == (spec_i64_trunc_f64_s(a0))), "i64truncf64sc0: result equals the specified value");
  OBL(g_libm_calls == 0, "i64truncf64sc0: no library call is involved");
  CANARY("i64truncf64sc0 returns");
}
void h_i64truncf64sc1(void) {
  ND(F64, a0);
  ND(U32, a1);
  ND(F64, a2);
  U64 r;
  g_libm_calls = 0;
  g_spec_trap = spec_i64_trunc_f64_s_trap(a0);
  r = c02flt_i64truncf64sc1(&inst, a0, a1, a2);
  OBL(g_spec_trap == SPEC_NOTRAP, "i64truncf64sc1: returned normally only if the specification does not trap");
  OBL(((r) == (spec_i64_trunc_f64_s(a0))), "i64truncf64sc1: result equals the specified value");
  OBL(((inst.g0) == (a1)), "i64truncf64sc1: value two below the operands survives");
  OBL((vh_f64bits(inst.g3) == vh_f64bits(a2)), "i64truncf64sc1: value directly below the operands survives");
  OBL(g_libm_calls == 0, "i64truncf64sc1: no library call is involved");
  CANARY("i64truncf64sc1 returns");
}
void h_i64truncf64sc2(void) {
  ND(F64, a0);
  ND(U64, a1);
  U64 r;
  g_libm_calls = 0;
  g_spec_trap = spec_i64_trunc_f64_s_trap(a0);
  r = c02flt_i64truncf64sc2(&inst, a0, a1);
  OBL(g_spec_trap == SPEC_NOTRAP, "i64truncf64sc2: returned normally only if the specification does not trap");
  OBL(((r) == ((a1 ^ spec_i64_trunc_f64_s(a0)))), "i64truncf64sc2: result equals the specified value");
  OBL(g_libm_calls == 0, "i64truncf64sc2: no library call is involved");
  CANARY("i64truncf64sc2 returns");
}
void h_i64truncsatf64sc0(void) {
  ND(F64, a0);
  U64 r;
  g_libm_calls = 0;
  g_spec_trap = SPEC_NOTRAP;
  r = c02flt_i64truncsatf64sc0(&inst, a0);
  OBL(g_spec_trap == SPEC_NOTRAP, "i64truncsatf64sc0: returned normally only if the specification does not trap");
  OBL(((r) == (spec_i64_trunc_sat_f64_s(a0))), "i64truncsatf64sc0: result equals the specified value");
  OBL(g_libm_calls == 0, "i64truncsatf64sc0: no library call is involved");
  CANARY("i64truncsatf64sc0 returns");
}
void h_i64truncsatf64sc1(void) {
  ND(F64, a0);
  ND(U32, a1);
  ND(F64, a2);
  U64 r;
  g_libm_calls = 0;
  g_spec_trap = SPEC_NOTRAP;
  r = c02flt_i64truncsatf64sc1(&inst, a0, a1, a2);
  OBL(g_spec_trap == SPEC_NOTRAP, "i64truncsatf64sc1: returned normally only if the specification does not trap");
  OBL(((r) == (spec_i64_trunc_sat_f64_s(a0))), "i64truncsatf64sc1: result equals the specified value");
  OBL(((inst.g0) == (a1)), "i64truncsatf64sc1: value two below the operands survives");
  OBL((vh_f64bits(inst.g3) == vh_f64bits(a2)), "i64truncsatf64sc1: value directly below the operands survives");
  OBL(g_libm_calls == 0, "i64truncsatf64sc1: no library call is involved");
  CANARY("i64truncsatf64sc1 returns");
}
void h_i64truncsatf64sc2(void) {
  ND(F64, a0);
  ND(U64, a1);
  U64 r;
  g_libm_calls = 0;
  g_spec_trap = SPEC_NOTRAP;
  r = c02flt_i64truncsatf64sc2(&inst, a0, a1);
  OBL(g_spec_trap == SPEC_NOTRAP, "i64truncsatf64sc2: returned normally only if the specification does not trap");
  OBL(((r) == ((a1 ^ spec_i64_trunc_sat_f64_s(a0)))), "i64truncsatf64sc2: result equals the specified value");
  OBL(g_libm_calls == 0, "i64truncsatf64sc2: no library call is involved");
  CANARY("i64truncsatf64sc2 returns");
}
void h_f64converti64sc0(void) {
  ND(U64, a0);
  F64 r;
  g_libm_calls = 0;
  g_spec_trap = SPEC_NOTRAP;
  r = c02flt_f64converti64sc0(&inst, a0);
  OBL(g_spec_trap == SPEC_NOTRAP, "f64converti64sc0: returned normally only if the specification does not trap");
  { F64 s_ = spec_f64_convert_i64_s(a0);
  OBL(spec_isnan64(spec_f64_bits(s_)) || spec_f64_bits(r) == spec_f64_bits(s_), "f64converti64sc0: a non-NaN specified result is delivered bit-exactly");
  OBL(!spec_isnan64(spec_f64_bits(s_)) || spec_isnan64(spec_f64_bits(r)), "f64converti64sc0: the result is a NaN where the specification yields a NaN"); }
  OBL(g_libm_calls == 0, "f64converti64sc0: no library call is involved");
  CANARY("f64converti64sc0 returns");
}
void h_f64converti64sc1(void) {
  ND(U64, a0);
  ND(U64, a1);
  ND(F32, a2);
  F64 r;
  g_libm_calls = 0;
  g_spec_trap = SPEC_NOTRAP;
  r = c02flt_f64converti64sc1(&inst, a0, a1, a2);
  OBL(g_spec_trap == SPEC_NOTRAP, "f64converti64sc1: returned normally only if the specification does not trap");
  { F64 s_ = spec_f64_convert_i64_s(a0);
  OBL(spec_isnan64(spec_f64_bits(s_)) || spec_f64_bits(r) == spec_f64_bits(s_), "f64converti64sc1: a non-NaN specified result is delivered bit-exactly");
  OBL(!spec_isnan64(spec_f64_bits(s_)) || spec_isnan64(spec_f64_bits(r)), "f64converti64sc1: the result is a NaN where the specification yields a NaN"); }
  OBL(((inst.g1) == (a1)), "f64converti64sc1: value two below the operands survives");
  OBL((vh_f32bits(inst.g2) == vh_f32bits(a2)), "f64converti64sc1: value directly below the operands survives");
  OBL(g_libm_calls == 0, "f64converti64sc1: no library call is involved");
  CANARY("f64converti64sc1 returns");
}
void h_f64converti64sc2(void) {
  ND(U64, a0);
  ND(U64, a1);
  U64 r;
  g_libm_calls = 0;
  ASSUME(!spec_isnan64(vh_f64bits(spec_f64_convert_i64_s(a0))));
  g_spec_trap = SPEC_NOTRAP;
  r = c02flt_f64converti64sc2(&inst, a0, a1);
  OBL(g_spec_trap == SPEC_NOTRAP, "f64converti64sc2: returned normally only if the specification does not trap");
  OBL(((r) == ((a1 ^ vh_f64bits(spec_f64_convert_i64_s(a0))))), "f64converti64sc2: result equals the specified value");
  OBL(g_libm_calls == 0, "f64converti64sc2: no library call is involved");
  CANARY("f64converti64sc2 returns");
}
void h_i64truncf64uc0(void) {
  ND(F64, a0);
  U64 r;
  g_libm_calls = 0;
  g_spec_trap = spec_i64_trunc_f64_u_trap(a0);
  r = c02flt_i64truncf64uc0(&inst, a0);
  OBL(g_spec_trap == SPEC_NOTRAP, "i64truncf64uc0: returned normally only if the specification does not trap");
  OBL(((r) == (spec_i64_trunc_f64_u(a0))), "i64truncf64uc0: result equals the specified value");
  OBL(g_libm_calls == 0, "i64truncf64uc0: no library call is involved");
  CANARY("i64truncf64uc0 returns");
}
void h_i64truncf64uc1(void) {
  ND(F64, a0);
  ND(U32, a1);
  ND(F64, a2);
  U64 r;
  g_libm_calls = 0;
  g_spec_trap = spec_i64_trunc_f64_u_trap(a0);
  r = c02flt_i64truncf64uc1(&inst, a0, a1, a2);
  OBL(g_spec_trap == SPEC_NOTRAP, "i64truncf64uc1: returned normally only if the specification does not trap");
  OBL(((r) == (spec_i64_trunc_f64_u(a0))), "i64truncf64uc1: result equals the specified value");
  OBL(((inst.g0) == (a1)), "i64truncf64uc1: value two below the operands survives");
  OBL((vh_f64bits(inst.g3) == vh_f64bits(a2)), "i64truncf64uc1: value directly below the operands survives");
  OBL(g_libm_calls == 0, "i64truncf64uc1: no library call is involved");
  CANARY("i64truncf64uc1 returns");
}
void h_i64truncf64uc2(void) {
  ND(F64, a0);
  ND(U64, a1);
  U64 r;
  g_libm_calls = 0;
  g_spec_trap = spec_i64_trunc_f64_u_trap(a0);
  r = c02flt_i64truncf64uc2(&inst, a0, a1);
  OBL(g_spec_trap == SPEC_NOTRAP, "i64truncf64uc2: returned normally only if the specification does not trap");
  OBL(((r) == ((a1 ^ spec_i64_trunc_f64_u(a0)))), "i64truncf64uc2: result equals the specified value");
  OBL(g_libm_calls == 0, "i64truncf64uc2: no library call is involved");
  CANARY("i64truncf64uc2 returns");
}
void h_i64truncsatf64uc0(void) {
  ND(F64, a0);
  U64 r;
  g_libm_calls = 0;
  g_spec_trap = SPEC_NOTRAP;
  r = c02flt_i64truncsatf64uc0(&inst, a0);
  OBL(g_spec_trap == SPEC_NOTRAP, "i64truncsatf64uc0: returned normally only if the specification does not trap");
  OBL(((r) == (spec_i64_trunc_sat_f64_u(a0))), "i64truncsatf64uc0: result equals the specified value");
  OBL(g_libm_calls == 0, "i64truncsatf64uc0: no library call is involved");
  CANARY("i64truncsatf64uc0 returns");
}
void h_i64truncsatf64uc1(void) {
  ND(F64, a0);
  ND(U32, a1);
  ND(F64, a2);
  U64 r;
  g_libm_calls = 0;
  g_spec_trap = SPEC_NOTRAP;
  r = c02flt_i64truncsatf64uc1(&inst, a0, a1, a2);
  OBL(g_spec_trap == SPEC_NOTRAP, "i64truncsatf64uc1: returned normally only if the specification does not trap");
  OBL(((r) == (spec_i64_trunc_sat_f64_u(a0))), "i64truncsatf64uc1: result equals the specified value");
  OBL(((inst.g0) == (a1)), "i64truncsatf64uc1: value two below the operands survives");
  OBL((vh_f64bits(inst.g3) == vh_f64bits(a2)), "i64truncsatf64uc1: value directly below the operands survives");
  OBL(g_libm_calls == 0, "i64truncsatf64uc1: no library call is involved");
  CANARY("i64truncsatf64uc1 returns");
}
void h_i64truncsatf64uc2(void) {
  ND(F64, a0);
  ND(U64, a1);
  U64 r;
  g_libm_calls = 0;
  g_spec_trap = SPEC_NOTRAP;
  r = c02flt_i64truncsatf64uc2(&inst, a0, a1);
  OBL(g_spec_trap == SPEC_NOTRAP, "i64truncsatf64uc2: returned normally only if the specification does not trap");
  OBL(((r) == ((a1 ^ spec_i64_trunc_sat_f64_u(a0)))), "i64truncsatf64uc2: result equals the specified value");
  OBL(g_libm_calls == 0, "i64truncsatf64uc2: no library call is involved");
  CANARY("i64truncsatf64uc2 returns");
}
void h_f64converti64uc0(void) {
  ND(U64, a0);
  F64 r;
  g_libm_calls = 0;
  g_spec_trap = SPEC_NOTRAP;
  r = c02flt_f64converti64uc0(&inst, a0);
  OBL(g_spec_trap == SPEC_NOTRAP, "f64converti64uc0: returned normally only if the specification does not trap");
  { F64 s_ = spec_f64_convert_i64_u(a0);
  OBL(spec_isnan64(spec_f64_bits(s_)) || spec_f64_bits(r) == spec_f64_bits(s_), "f64converti64uc0: a non-NaN specified result is delivered bit-exactly");
  OBL(!spec_isnan64(spec_f64_bits(s_)) || spec_isnan64(spec_f64_bits(r)), "f64converti64uc0: the result is a NaN where the specification yields a NaN"); }
  OBL(g_libm_calls == 0, "f64converti64uc0: no library call is involved");
  CANARY("f64converti64uc0 returns");
}
void h_f64converti64uc1(void) {
  ND(U64, a0);
  ND(U64, a1);
  ND(F32, a2);
  F64 r;
  g_libm_calls = 0;
  g_spec_trap = SPEC_NOTRAP;
  r = c02flt_f64converti64uc1(&inst, a0, a1, a2);
  OBL(g_spec_trap == SPEC_NOTRAP, "f64converti64uc1: returned normally only if the specification does not trap");
  { F64 s_ = spec_f64_convert_i64_u(a0);
  OBL(spec_isnan64(spec_f64_bits(s_)) || spec_f64_bits(r) == spec_f64_bits(s_), "f64converti64uc1: a non-NaN specified result is delivered bit-exactly");
  OBL(!spec_isnan64(spec_f64_bits(s_)) || spec_isnan64(spec_f64_bits(r)), "f64converti64uc1: the result is a NaN where the specification yields a NaN"); }
  OBL(((inst.g1) == (a1)), "f64converti64uc1: value two below the operands survives");
  OBL((vh_f32bits(inst.g2) == vh_f32bits(a2)), "f64converti64uc1: value directly below the operands survives");
  OBL(g_libm_calls == 0, "f64converti64uc1: no library call is involved");
  CANARY("f64converti64uc1 returns");
}
void h_f64converti64uc2(void) {
  ND(U64, a0);
  ND(U64, a1);
  U64 r;
  g_libm_calls = 0;
  ASSUME(!spec_isnan64(vh_f64bits(spec_f64_convert_i64_u(a0))));
  g_spec_trap = SPEC_NOTRAP;
  r = c02flt_f64converti64uc2(&inst, a0, a1);
  OBL(g_spec_trap == SPEC_NOTRAP, "f64converti64uc2: returned normally only if the specification does not trap");
  OBL(((r) == ((a1 ^ vh_f64bits(spec_f64_convert_i64_u(a0))))), "f64converti64uc2: result equals the specified value");
  OBL(g_libm_calls == 0, "f64converti64uc2: no library call is involved");
  CANARY("f64converti64uc2 returns");
}
void h_f32demotef64c0(void) {
  ND(F64, a0);
  F32 r;
  g_libm_calls = 0;
  g_spec_trap = SPEC_NOTRAP;
  r = c02flt_f32demotef64c0(&inst, a0);
  OBL(g_spec_trap == SPEC_NOTRAP, "f32demotef64c0: returned normally only if the specification does not trap");
  { F32 s_ = spec_f32_demote_f64(a0);
  OBL(spec_isnan32(spec_f32_bits(s_)) || spec_f32_bits(r) == spec_f32_bits(s_), "f32demotef64c0: a non-NaN specified result is delivered bit-exactly");
  OBL(!spec_isnan32(spec_f32_bits(s_)) || spec_isnan32(spec_f32_bits(r)), "f32demotef64c0: the result is a NaN where the specification yields a NaN"); }
  OBL(g_libm_calls == 0, "f32demotef64c0: no library call is involved");
  CANARY("f32demotef64c0 returns");
}
void h_f32demotef64c1(void) {
  ND(F64, a0);
  ND(U64, a1);
  ND(F32, a2);
  F32 r;
  g_libm_calls = 0;
  g_spec_trap = SPEC_NOTRAP;
  r = c02flt_f32demotef64c1(&inst, a0, a1, a2);
  OBL(g_spec_trap == SPEC_NOTRAP, "f32demotef64c1: returned normally only if the specification does not trap");
  { F32 s_ = spec_f32_demote_f64(a0);
  OBL(spec_isnan32(spec_f32_bits(s_)) || spec_f32_bits(r) == spec_f32_bits(s_), "f32demotef64c1: a non-NaN specified result is delivered bit-exactly");
  OBL(!spec_isnan32(spec_f32_bits(s_)) || spec_isnan32(spec_f32_bits(r)), "f32demotef64c1: the result is a NaN where the specification yields a NaN"); }
  OBL(((inst.g1) == (a1)), "f32demotef64c1: value two below the operands survives");
  OBL((vh_f32bits(inst.g2) == vh_f32bits(a2)), "f32demotef64c1: value directly below the operands survives");
  OBL(g_libm_calls == 0, "f32demotef64c1: no library call is involved");
  CANARY("f32demotef64c1 returns");
}
void h_f32demotef64c2(void) {
  ND(F64, a0);
  ND(U32, a1);
  U32 r;
  g_libm_calls = 0;
  ASSUME(!spec_isnan32(vh_f32bits(spec_f32_demote_f64(a0))));
  g_spec_trap = SPEC_NOTRAP;
  r = c02flt_f32demotef64c2(&inst, a0, a1);
  OBL(g_spec_trap == SPEC_NOTRAP, "f32demotef64c2: returned normally only if the specification does not trap");
  OBL(((r) == ((a1 ^ vh_f32bits(spec_f32_demote_f64(a0))))), "f32demotef64c2: result equals the specified value");
  OBL(g_libm_calls == 0, "f32demotef64c2: no library call is involved");
  CANARY("f32demotef64c2 returns");
}
void h_f64promotef32c0(void) {
  ND(F32, a0);
  F64 r;
  g_libm_calls = 0;
  g_spec_trap = SPEC_NOTRAP;
  r = c02flt_f64promotef32c0(&inst, a0);
  OBL(g_spec_trap == SPEC_NOTRAP, "f64promotef32c0: returned normally only if the specification does not trap");
  { F64 s_ = spec_f64_promote_f32(a0);
  OBL(spec_isnan64(spec_f64_bits(s_)) || spec_f64_bits(r) == spec_f64_bits(s_), "f64promotef32c0: a non-NaN specified result is delivered bit-exactly");
  OBL(!spec_isnan64(spec_f64_bits(s_)) || spec_isnan64(spec_f64_bits(r)), "f64promotef32c0: the result is a NaN where the specification yields a NaN"); }
  OBL(g_libm_calls == 0, "f64promotef32c0: no library call is involved");
  CANARY("f64promotef32c0 returns");
}
void h_f64promotef32c1(void) {
  ND(F32, a0);
  ND(U64, a1);
  ND(F32, a2);
  F64 r;
  g_libm_calls = 0;
  g_spec_trap = SPEC_NOTRAP;
  r = c02flt_f64promotef32c1(&inst, a0, a1, a2);
  OBL(g_spec_trap == SPEC_NOTRAP, "f64promotef32c1: returned normally only if the specification does not trap");
  { F64 s_ = spec_f64_promote_f32(a0);
  OBL(spec_isnan64(spec_f64_bits(s_)) || spec_f64_bits(r) == spec_f64_bits(s_), "f64promotef32c1: a non-NaN specified result is delivered bit-exactly");
  OBL(!spec_isnan64(spec_f64_bits(s_)) || spec_isnan64(spec_f64_bits(r)), "f64promotef32c1: the result is a NaN where the specification yields a NaN"); }
  OBL(((inst.g1) == (a1)), "f64promotef32c1: value two below the operands survives");
  OBL((vh_f32bits(inst.g2) == vh_f32bits(a2)), "f64promotef32c1: value directly below the operands survives");
  OBL(g_libm_calls == 0, "f64promotef32c1: no library call is involved");
  CANARY("f64promotef32c1 returns");
}
void h_f64promotef32c2(void) {
  ND(F32, a0);
  ND(U64, a1);
  U64 r;
  g_libm_calls = 0;
  ASSUME(!spec_isnan64(vh_f64bits(spec_f64_promote_f32(a0))));
  g_spec_trap = SPEC_NOTRAP;
  r = c02flt_f64promotef32c2(&inst, a0, a1);
  OBL(g_spec_trap == SPEC_NOTRAP, "f64promotef32c2: returned normally only if the specification does not trap");
  OBL(((r) == ((a1 ^ vh_f64bits(spec_f64_promote_f32(a0))))), "f64promotef32c2: result equals the specified value");
  OBL(g_libm_calls == 0, "f64promotef32c2: no library call is involved");
  CANARY("f64promotef32c2 returns");
}
void h_i32reinterpretf32c0(void) {
  ND(F32, a0);
  U32 r;
  g_libm_calls = 0;
  g_spec_trap = SPEC_NOTRAP;
  r = c02flt_i32reinterpretf32c0(&inst, a0);
  OBL(g_spec_trap == SPEC_NOTRAP, "i32reinterpretf32c0: returned normally only if the specification does not trap");
  OBL(((r) == (spec_i32_reinterpret_f32(a0))), "i32reinterpretf32c0: result equals the specified value");
  OBL(g_libm_calls == 0, "i32reinterpretf32c0: no library call is involved");
  CANARY("i32reinterpretf32c0 returns");
}
void h_i32reinterpretf32c1(void) {
  ND(F32, a0);
  ND(U64, a1);
  ND(F32, a2);
  U32 r;
  g_libm_calls = 0;
  g_spec_trap = SPEC_NOTRAP;
  r = c02flt_i32reinterpretf32c1(&inst, a0, a1, a2);
  OBL(g_spec_trap == SPEC_NOTRAP, "i32reinterpretf32c1: returned normally only if the specification does not trap");
  OBL(((r) == (spec_i32_reinterpret_f32(a0))), "i32reinterpretf32c1: result equals the specified value");
  OBL(((inst.g1) == (a1)), "i32reinterpretf32c1: value two below the operands survives");
  OBL((vh_f32bits(inst.g2) == vh_f32bits(a2)), "i32reinterpretf32c1: value directly below the operands survives");
  OBL(g_libm_calls == 0, "i32reinterpretf32c1: no library call is involved");
  CANARY("i32reinterpretf32c1 returns");
}
void h_i32reinterpretf32c2(void) {
  ND(F32, a0);
  ND(U32, a1);
  U32 r;
  g_libm_calls = 0;
  g_spec_trap = SPEC_NOTRAP;
  r = c02flt_i32reinterpretf32c2(&inst, a0, a1);
  OBL(g_spec_trap == SPEC_NOTRAP, "i32reinterpretf32c2: returned normally only if the specification does not trap");
  OBL(((r) == ((a1 ^ spec_i32_reinterpret_f32(a0)))), "i32reinterpretf32c2: result equals the specified value");
  OBL(g_libm_calls == 0, "i32reinterpretf32c2: no library call is involved");
  CANARY("i32reinterpretf32c2 returns");
}
void h_i64reinterpretf64c0(void) {
  ND(F64, a0);
  U64 r;
  g_libm_calls = 0;
  g_spec_trap = SPEC_NOTRAP;
  r = c02flt_i64reinterpretf64c0(&inst, a0);
  OBL(g_spec_trap == SPEC_NOTRAP, "i64reinterpretf64c0: returned normally only if the specification does not trap");
  OBL(((r) == (spec_i64_reinterpret_f64(a0))), "i64reinterpretf64c0: result equals the specified value");
  OBL(g_libm_calls == 0, "i64reinterpretf64c0: no library call is involved");
  CANARY("i64reinterpretf64c0 returns");
}
void h_i64reinterpretf64c1(void) {
  ND(F64, a0);
  ND(U32, a1);
  ND(F64, a2);
  U64 r;
  g_libm_calls = 0;
  g_spec_trap = SPEC_NOTRAP;
  r = c02flt_i64reinterpretf64c1(&inst, a0, a1, a2);
  OBL(g_spec_trap == SPEC_NOTRAP, "i64reinterpretf64c1: returned normally only if the specification does not trap");
  OBL(((r) == (spec_i64_reinterpret_f64(a0))), "i64reinterpretf64c1: result equals the specified value");
  OBL(((inst.g0) == (a1)), "i64reinterpretf64c1: value two below the operands survives");
  OBL((vh_f64bits(inst.g3) == vh_f64bits(a2)), "i64reinterpretf64c1: value directly below the operands survives");
  OBL(g_libm_calls == 0, "i64reinterpretf64c1: no library call is involved");
  CANARY("i64reinterpretf64c1 returns");
}
void h_i64reinterpretf64c2(void) {
  ND(F64, a0);
  ND(U64, a1);
  U64 r;
  g_libm_calls = 0;
  g_spec_trap = SPEC_NOTRAP;
  r = c02flt_i64reinterpretf64c2(&inst, a0, a1);
  OBL(g_spec_trap == SPEC_NOTRAP, "i64reinterpretf64c2: returned normally only if the specification does not trap");
  OBL(((r) == ((a1 ^ spec_i64_reinterpret_f64(a0)))), "i64reinterpretf64c2: result equals the specified value");
  OBL(g_libm_calls == 0, "i64reinterpretf64c2: no library call is involved");
  CANARY("i64reinterpretf64c2 returns");
}
void h_f32reinterpreti32c0(void) {
  ND(U32, a0);
  F32 r;
  g_libm_calls = 0;
  g_spec_trap = SPEC_NOTRAP;
  r = c02flt_f32reinterpreti32c0(&inst, a0);
  OBL(g_spec_trap == SPEC_NOTRAP, "f32reinterpreti32c0: returned normally only if the specification does not trap");
  OBL((vh_f32bits(r) == vh_f32bits(spec_f32_reinterpret_i32(a0))), "f32reinterpreti32c0: result equals the specified value");
  OBL(g_libm_calls == 0, "f32reinterpreti32c0: no library call is involved");
  CANARY("f32reinterpreti32c0 returns");
}
void h_f32reinterpreti32c1(void) {
  ND(U32, a0);
  ND(U64, a1);
  ND(F32, a2);
  F32 r;
  g_libm_calls = 0;
  g_spec_trap = SPEC_NOTRAP;
  r = c02flt_f32reinterpreti32c1(&inst, a0, a1, a2);
  OBL(g_spec_trap == SPEC_NOTRAP, "f32reinterpreti32c1: returned normally only if the specification does not trap");
  OBL((vh_f32bits(r) == vh_f32bits(spec_f32_reinterpret_i32(a0))), "f32reinterpreti32c1: result equals the specified value");
  OBL(((inst.g1) == (a1)), "f32reinterpreti32c1: value two below the operands survives");
  OBL((vh_f32bits(inst.g2) == vh_f32bits(a2)), "f32reinterpreti32c1: value directly below the operands survives");
  OBL(g_libm_calls == 0, "f32reinterpreti32c1: no library call is involved");
  CANARY("f32reinterpreti32c1 returns");
}
void h_f32reinterpreti32c2(void) {
  ND(U32, a0);
  ND(U32, a1);
  U32 r;
  g_libm_calls = 0;
  g_spec_trap = SPEC_NOTRAP;
  r = c02flt_f32reinterpreti32c2(&inst, a0, a1);
  OBL(g_spec_trap == SPEC_NOTRAP, "f32reinterpreti32c2: returned normally only if the specification does not trap");
  OBL(((r) == ((a1 ^ vh_f32bits(spec_f32_reinterpret_i32(a0))))), "f32reinterpreti32c2: result equals the specified value");
  OBL(g_libm_calls == 0, "f32reinterpreti32c2: no library call is involved");
  CANARY("f32reinterpreti32c2 returns");
}
void h_f64reinterpreti64c0(void) {
  ND(U64, a0);
  F64 r;
  g_libm_calls = 0;
  g_spec_trap = SPEC_NOTRAP;
  r = c02flt_f64reinterpreti64c0(&inst, a0);
  OBL(g_spec_trap == SPEC_NOTRAP, "f64reinterpreti64c0: returned normally only if the specification does not trap");
  OBL((vh_f64bits(r) == vh_f64bits(spec_f64_reinterpret_i64(a0))), "f64reinterpreti64c0: result equals the specified value");
  OBL(g_libm_calls == 0, "f64reinterpreti64c0: no library call is involved");
  CANARY("f64reinterpreti64c0 returns");
}
void h_f64reinterpreti64c1(void) {
  ND(U64, a0);
  ND(U64, a1);
  ND(F32, a2);
  F64 r;
  g_libm_calls = 0;
  g_spec_trap = SPEC_NOTRAP;
  r = c02flt_f64reinterpreti64c1(&inst, a0, a1, a2);
  OBL(g_spec_trap == SPEC_NOTRAP, "f64reinterpreti64c1: returned normally only if the specification does not trap");
  OBL((vh_f64bits(r) == vh_f64bits(spec_f64_reinterpret_i64(a0))), "f64reinterpreti64c1: result equals the specified value");
  OBL(((inst.g1) == (a1)), "f64reinterpreti64c1: value two below the operands survives");
  OBL((vh_f32bits(inst.g2) == vh_f32bits(a2)), "f64reinterpreti64c1: value directly below the operands survives");
  OBL(g_libm_calls == 0, "f64reinterpreti64c1: no library call is involved");
  CANARY("f64reinterpreti64c1 returns");
}
void h_f64reinterpreti64c2(void) {
  ND(U64, a0);
  ND(U64, a1);
  U64 r;
  g_libm_calls = 0;
  g_spec_trap = SPEC_NOTRAP;
  r = c02flt_f64reinterpreti64c2(&inst, a0, a1);
  OBL(g_spec_trap == SPEC_NOTRAP, "f64reinterpreti64c2: returned normally only if the specification does not trap");
  OBL(((r) == ((a1 ^ vh_f64bits(spec_f64_reinterpret_i64(a0))))), "f64reinterpreti64c2: result equals the specified value");
  OBL(g_libm_calls == 0, "f64reinterpreti64c2: no library call is involved");
  CANARY("f64reinterpreti64c2 returns");
}
