#include "w2c2_base.h"
#include "vh.h"
#include "wasm_int.h"
#include "wasm_float.h"
#include "trapstub.h"

U32 w_I32_TRUNC_S_F32_casts(F32 a0) { return I32_TRUNC_S_F32(a0); }
#ifndef VERIF_NATIVE
U32 c_I32_TRUNC_S_F32_casts(F32 a0)
  __CPROVER_requires(g_spec_trap == spec_i32_trunc_f32_s_trap(a0))
  __CPROVER_requires(a0 != (F32)-2147483648.0)
  __CPROVER_ensures(g_spec_trap == SPEC_NOTRAP)
  __CPROVER_ensures(((__CPROVER_return_value) == (spec_i32_trunc_f32_s(a0))))
  __CPROVER_assigns();
#endif
void h_I32_TRUNC_S_F32_casts(void) {
  ND(F32, a0);
  U32 r;
  ASSUME(a0 != (F32)-2147483648.0);
  g_spec_trap = spec_i32_trunc_f32_s_trap(a0);
  r = w_I32_TRUNC_S_F32_casts(a0);
#ifdef VERIF_NATIVE
  OBL(g_spec_trap == SPEC_NOTRAP, "I32_TRUNC_S_F32_casts: returned normally only if the specification does not trap");
  OBL(((r) == (spec_i32_trunc_f32_s(a0))), "I32_TRUNC_S_F32_casts: result equals the specified value");
#else
  (void)r;
#endif
  CANARY("I32_TRUNC_S_F32_casts returns");
}
U32 w_I32_TRUNC_SAT_S_F32_casts(F32 a0) { return I32_TRUNC_SAT_S_F32(a0); }
#ifndef VERIF_NATIVE
U32 c_I32_TRUNC_SAT_S_F32_casts(F32 a0)
  __CPROVER_requires(g_spec_trap == SPEC_NOTRAP)
  __CPROVER_requires(a0 != (F32)-2147483648.0)
  __CPROVER_ensures(g_spec_trap == SPEC_NOTRAP)
  __CPROVER_ensures(((__CPROVER_return_value) == (spec_i32_trunc_sat_f32_s(a0))))
  __CPROVER_assigns();
#endif
void h_I32_TRUNC_SAT_S_F32_casts(void) {
  ND(F32, a0);
  U32 r;
  ASSUME(a0 != (F32)-2147483648.0);
  g_spec_trap = SPEC_NOTRAP;
  r = w_I32_TRUNC_SAT_S_F32_casts(a0);
#ifdef VERIF_NATIVE
  OBL(g_spec_trap == SPEC_NOTRAP, "I32_TRUNC_SAT_S_F32_casts: returned normally only if the specification does not trap");
  OBL(((r) == (spec_i32_trunc_sat_f32_s(a0))), "I32_TRUNC_SAT_S_F32_casts: result equals the specified value");
#else
  (void)r;
#endif
  CANARY("I32_TRUNC_SAT_S_F32_casts returns");
}
U32 w_I32_TRUNC_U_F32_casts(F32 a0) { return I32_TRUNC_U_F32(a0); }
#ifndef VERIF_NATIVE
U32 c_I32_TRUNC_U_F32_casts(F32 a0)
  __CPROVER_requires(g_spec_trap == spec_i32_trunc_f32_u_trap(a0))
  __CPROVER_ensures(g_spec_trap == SPEC_NOTRAP)
  __CPROVER_ensures(((__CPROVER_return_value) == (spec_i32_trunc_f32_u(a0))))
  __CPROVER_assigns();
#endif
void h_I32_TRUNC_U_F32_casts(void) {
  ND(F32, a0);
  U32 r;
  g_spec_trap = spec_i32_trunc_f32_u_trap(a0);
  r = w_I32_TRUNC_U_F32_casts(a0);
#ifdef VERIF_NATIVE
  OBL(g_spec_trap == SPEC_NOTRAP, "I32_TRUNC_U_F32_casts: returned normally only if the specification does not trap");
  OBL(((r) == (spec_i32_trunc_f32_u(a0))), "I32_TRUNC_U_F32_casts: result equals the specified value");
#else
  (void)r;
#endif
  CANARY("I32_TRUNC_U_F32_casts returns");
}
U32 w_I32_TRUNC_SAT_U_F32_casts(F32 a0) { return I32_TRUNC_SAT_U_F32(a0); }
#ifndef VERIF_NATIVE
U32 c_I32_TRUNC_SAT_U_F32_casts(F32 a0)
  __CPROVER_requires(g_spec_trap == SPEC_NOTRAP)
  __CPROVER_ensures(g_spec_trap == SPEC_NOTRAP)
  __CPROVER_ensures(((__CPROVER_return_value) == (spec_i32_trunc_sat_f32_u(a0))))
  __CPROVER_assigns();
#endif
void h_I32_TRUNC_SAT_U_F32_casts(void) {
  ND(F32, a0);
  U32 r;
  g_spec_trap = SPEC_NOTRAP;
  r = w_I32_TRUNC_SAT_U_F32_casts(a0);
#ifdef VERIF_NATIVE
  OBL(g_spec_trap == SPEC_NOTRAP, "I32_TRUNC_SAT_U_F32_casts: returned normally only if the specification does not trap");
  OBL(((r) == (spec_i32_trunc_sat_f32_u(a0))), "I32_TRUNC_SAT_U_F32_casts: result equals the specified value");
#else
  (void)r;
#endif
  CANARY("I32_TRUNC_SAT_U_F32_casts returns");
}
U32 w_I32_TRUNC_S_F64_casts(F64 a0) { return I32_TRUNC_S_F64(a0); }
#ifndef VERIF_NATIVE
U32 c_I32_TRUNC_S_F64_casts(F64 a0)
  __CPROVER_requires(g_spec_trap == spec_i32_trunc_f64_s_trap(a0))
  __CPROVER_requires(a0 != (F64)-2147483648.0)
  __CPROVER_ensures(g_spec_trap == SPEC_NOTRAP)
  __CPROVER_ensures(((__CPROVER_return_value) == (spec_i32_trunc_f64_s(a0))))
  __CPROVER_assigns();
#endif
void h_I32_TRUNC_S_F64_casts(void) {
  ND(F64, a0);
  U32 r;
  ASSUME(a0 != (F64)-2147483648.0);
  g_spec_trap = spec_i32_trunc_f64_s_trap(a0);
  r = w_I32_TRUNC_S_F64_casts(a0);
#ifdef VERIF_NATIVE
  OBL(g_spec_trap == SPEC_NOTRAP, "I32_TRUNC_S_F64_casts: returned normally only if the specification does not trap");
  OBL(((r) == (spec_i32_trunc_f64_s(a0))), "I32_TRUNC_S_F64_casts: result equals the specified value");
#else
  (void)r;
#endif
  CANARY("I32_TRUNC_S_F64_casts returns");
}
U32 w_I32_TRUNC_SAT_S_F64_casts(F64 a0) { return I32_TRUNC_SAT_S_F64(a0); }
#ifndef VERIF_NATIVE
U32 c_I32_TRUNC_SAT_S_F64_casts(F64 a0)
  __CPROVER_requires(g_spec_trap == SPEC_NOTRAP)
  __CPROVER_requires(a0 != (F64)-2147483648.0)
  __CPROVER_ensures(g_spec_trap == SPEC_NOTRAP)
  __CPROVER_ensures(((__CPROVER_return_value) == (spec_i32_trunc_sat_f64_s(a0))))
  __CPROVER_assigns();
#endif
void h_I32_TRUNC_SAT_S_F64_casts(void) {
  ND(F64, a0);
  U32 r;
  ASSUME(a0 != (F64)-2147483648.0);
  g_spec_trap = SPEC_NOTRAP;
  r = w_I32_TRUNC_SAT_S_F64_casts(a0);
#ifdef VERIF_NATIVE
  OBL(g_spec_trap == SPEC_NOTRAP, "I32_TRUNC_SAT_S_F64_casts: returned normally only if the specification does not trap");
  OBL(((r) == (spec_i32_trunc_sat_f64_s(a0))), "I32_TRUNC_SAT_S_F64_casts: result equals the specified value");
#else
  (void)r;
#endif
  CANARY("I32_TRUNC_SAT_S_F64_casts returns");
}
U32 w_I32_TRUNC_U_F64_casts(F64 a0) { return I32_TRUNC_U_F64(a0); }
#ifndef VERIF_NATIVE
U32 c_I32_TRUNC_U_F64_casts(F64 a0)
  __CPROVER_requires(g_spec_trap == spec_i32_trunc_f64_u_trap(a0))
  __CPROVER_ensures(g_spec_trap == SPEC_NOTRAP)
  __CPROVER_ensures(((__CPROVER_return_value) == (spec_i32_trunc_f64_u(a0))))
  __CPROVER_assigns();
#endif
void h_I32_TRUNC_U_F64_casts(void) {
  ND(F64, a0);
  U32 r;
  g_spec_trap = spec_i32_trunc_f64_u_trap(a0);
  r = w_I32_TRUNC_U_F64_casts(a0);
#ifdef VERIF_NATIVE
  OBL(g_spec_trap == SPEC_NOTRAP, "I32_TRUNC_U_F64_casts: returned normally only if the specification does not trap");
  OBL(((r) == (spec_i32_trunc_f64_u(a0))), "I32_TRUNC_U_F64_casts: result equals the specified value");
#else
  (void)r;
#endif
  CANARY("I32_TRUNC_U_F64_casts returns");
}
U32 w_I32_TRUNC_SAT_U_F64_casts(F64 a0) { return I32_TRUNC_SAT_U_F64(a0); }
#ifndef VERIF_NATIVE
U32 c_I32_TRUNC_SAT_U_F64_casts(F64 a0)
  __CPROVER_requires(g_spec_trap == SPEC_NOTRAP)
  __CPROVER_ensures(g_spec_trap == SPEC_NOTRAP)
  __CPROVER_ensures(((__CPROVER_return_value) == (spec_i32_trunc_sat_f64_u(a0))))
  __CPROVER_assigns();
#endif
void h_I32_TRUNC_SAT_U_F64_casts(void) {
  ND(F64, a0);
  U32 r;
  g_spec_trap = SPEC_NOTRAP;
  r = w_I32_TRUNC_SAT_U_F64_casts(a0);
#ifdef VERIF_NATIVE
  OBL(g_spec_trap == SPEC_NOTRAP, "I32_TRUNC_SAT_U_F64_casts: returned normally only if the specification does not trap");
  OBL(((r) == (spec_i32_trunc_sat_f64_u(a0))), "I32_TRUNC_SAT_U_F64_casts: result equals the specified value");
#else
  (void)r;
#endif
  CANARY("I32_TRUNC_SAT_U_F64_casts returns");
}
U64 w_I64_TRUNC_S_F32_casts(F32 a0) { return I64_TRUNC_S_F32(a0); }
#ifndef VERIF_NATIVE
U64 c_I64_TRUNC_S_F32_casts(F32 a0)
  __CPROVER_requires(g_spec_trap == spec_i64_trunc_f32_s_trap(a0))
  __CPROVER_requires(a0 != (F32)-9223372036854775808.0)
  __CPROVER_ensures(g_spec_trap == SPEC_NOTRAP)
  __CPROVER_ensures(((__CPROVER_return_value) == (spec_i64_trunc_f32_s(a0))))
  __CPROVER_assigns();
#endif
void h_I64_TRUNC_S_F32_casts(void) {
  ND(F32, a0);
  U64 r;
  ASSUME(a0 != (F32)-9223372036854775808.0);
  g_spec_trap = spec_i64_trunc_f32_s_trap(a0);
  r = w_I64_TRUNC_S_F32_casts(a0);
#ifdef VERIF_NATIVE
  OBL(g_spec_trap == SPEC_NOTRAP, "I64_TRUNC_S_F32_casts: returned normally only if the specification does not trap");
  OBL(((r) == (spec_i64_trunc_f32_s(a0))), "I64_TRUNC_S_F32_casts: result equals the specified value");
#else
  (void)r;
#endif
  CANARY("I64_TRUNC_S_F32_casts returns");
}
U64 w_I64_TRUNC_SAT_S_F32_casts(F32 a0) { return I64_TRUNC_SAT_S_F32(a0); }
#ifndef VERIF_NATIVE
U64 c_I64_TRUNC_SAT_S_F32_casts(F32 a0)
  __CPROVER_requires(g_spec_trap == SPEC_NOTRAP)
  __CPROVER_requires(a0 != (F32)-9223372036854775808.0)
  __CPROVER_ensures(g_spec_trap == SPEC_NOTRAP)
  __CPROVER_ensures(((__CPROVER_return_value) == (spec_i64_trunc_sat_f32_s(a0))))
  __CPROVER_assigns();
#endif
void h_I64_TRUNC_SAT_S_F32_casts(void) {
  ND(F32, a0);
  U64 r;
  ASSUME(a0 != (F32)-9223372036854775808.0);
  g_spec_trap = SPEC_NOTRAP;
  r = w_I64_TRUNC_SAT_S_F32_casts(a0);
#ifdef VERIF_NATIVE
  OBL(g_spec_trap == SPEC_NOTRAP, "I64_TRUNC_SAT_S_F32_casts: returned normally only if the specification does not trap");
  OBL(((r) == (spec_i64_trunc_sat_f32_s(a0))), "I64_TRUNC_SAT_S_F32_casts: result equals the specified value");
#else
  (void)r;
#endif
  CANARY("I64_TRUNC_SAT_S_F32_casts returns");
}
U64 w_I64_TRUNC_U_F32_casts(F32 a0) { return I64_TRUNC_U_F32(a0); }
#ifndef VERIF_NATIVE
U64 c_I64_TRUNC_U_F32_casts(F32 a0)
  __CPROVER_requires(g_spec_trap == spec_i64_trunc_f32_u_trap(a0))
  __CPROVER_ensures(g_spec_trap == SPEC_NOTRAP)
  __CPROVER_ensures(((__CPROVER_return_value) == (spec_i64_trunc_f32_u(a0))))
  __CPROVER_assigns();
#endif
void h_I64_TRUNC_U_F32_casts(void) {
  ND(F32, a0);
  U64 r;
  g_spec_trap = spec_i64_trunc_f32_u_trap(a0);
  r = w_I64_TRUNC_U_F32_casts(a0);
#ifdef VERIF_NATIVE
  OBL(g_spec_trap == SPEC_NOTRAP, "I64_TRUNC_U_F32_casts: returned normally only if the specification does not trap");
  OBL(((r) == (spec_i64_trunc_f32_u(a0))), "I64_TRUNC_U_F32_casts: result equals the specified value");
#else
  (void)r;
#endif
  CANARY("I64_TRUNC_U_F32_casts returns");
}
U64 w_I64_TRUNC_SAT_U_F32_casts(F32 a0) { return I64_TRUNC_SAT_U_F32(a0); }
#ifndef VERIF_NATIVE
U64 c_I64_TRUNC_SAT_U_F32_casts(F32 a0)
  __CPROVER_requires(g_spec_trap == SPEC_NOTRAP)
  __CPROVER_ensures(g_spec_trap == SPEC_NOTRAP)
  __CPROVER_ensures(((__CPROVER_return_value) == (spec_i64_trunc_sat_f32_u(a0))))
  __CPROVER_assigns();
#endif
void h_I64_TRUNC_SAT_U_F32_casts(void) {
  ND(F32, a0);
  U64 r;
  g_spec_trap = SPEC_NOTRAP;
  r = w_I64_TRUNC_SAT_U_F32_casts(a0);
#ifdef VERIF_NATIVE
  OBL(g_spec_trap == SPEC_NOTRAP, "I64_TRUNC_SAT_U_F32_casts: returned normally only if the specification does not trap");
  OBL(((r) == (spec_i64_trunc_sat_f32_u(a0))), "I64_TRUNC_SAT_U_F32_casts: result equals the specified value");
#else
  (void)r;
#endif
  CANARY("I64_TRUNC_SAT_U_F32_casts returns");
}
U64 w_I64_TRUNC_S_F64_casts(F64 a0) { return I64_TRUNC_S_F64(a0); }
#ifndef VERIF_NATIVE
U64 c_I64_TRUNC_S_F64_casts(F64 a0)
  __CPROVER_requires(g_spec_trap == spec_i64_trunc_f64_s_trap(a0))
  __CPROVER_requires(a0 != (F64)-9223372036854775808.0)
  __CPROVER_ensures(g_spec_trap == SPEC_NOTRAP)
  __CPROVER_ensures(((__CPROVER_return_value) == (spec_i64_trunc_f64_s(a0))))
  __CPROVER_assigns();
#endif
void h_I64_TRUNC_S_F64_casts(void) {
  ND(F64, a0);
  U64 r;
  ASSUME(a0 != (F64)-9223372036854775808.0);
  g_spec_trap = spec_i64_trunc_f64_s_trap(a0);
  r = w_I64_TRUNC_S_F64_casts(a0);
#ifdef VERIF_NATIVE
  OBL(g_spec_trap == SPEC_NOTRAP, "I64_TRUNC_S_F64_casts: returned normally only if the specification does not trap");
  OBL(((r) == (spec_i64_trunc_f64_s(a0))), "I64_TRUNC_S_F64_casts: result equals the specified value");
#else
  (void)r;
#endif
  CANARY("I64_TRUNC_S_F64_casts returns");
}
U64 w_I64_TRUNC_SAT_S_F64_casts(F64 a0) { return I64_TRUNC_SAT_S_F64(a0); }
#ifndef VERIF_NATIVE
U64 c_I64_TRUNC_SAT_S_F64_casts(F64 a0)
  __CPROVER_requires(g_spec_trap == SPEC_NOTRAP)
  __CPROVER_requires(a0 != (F64)-9223372036854775808.0)
  __CPROVER_ensures(g_spec_trap == SPEC_NOTRAP)
  __CPROVER_ensures(((__CPROVER_return_value) == (spec_i64_trunc_sat_f64_s(a0))))
  __CPROVER_assigns();
#endif
void h_I64_TRUNC_SAT_S_F64_casts(void) {
  ND(F64, a0);
  U64 r;
  ASSUME(a0 != (F64)-9223372036854775808.0);
  g_spec_trap = SPEC_NOTRAP;
  r = w_I64_TRUNC_SAT_S_F64_casts(a0);
#ifdef VERIF_NATIVE
  OBL(g_spec_trap == SPEC_NOTRAP, "I64_TRUNC_SAT_S_F64_casts: returned normally only if the specification does not trap");
  OBL(((r) == (spec_i64_trunc_sat_f64_s(a0))), "I64_TRUNC_SAT_S_F64_casts: result equals the specified value");
#else
  (void)r;
#endif
  CANARY("I64_TRUNC_SAT_S_F64_casts returns");
}
U64 w_I64_TRUNC_U_F64_casts(F64 a0) { return I64_TRUNC_U_F64(a0); }
#ifndef VERIF_NATIVE
U64 c_I64_TRUNC_U_F64_casts(F64 a0)
  __CPROVER_requires(g_spec_trap == spec_i64_trunc_f64_u_trap(a0))
  __CPROVER_ensures(g_spec_trap == SPEC_NOTRAP)
  __CPROVER_ensures(((__CPROVER_return_value) == (spec_i64_trunc_f64_u(a0))))
  __CPROVER_assigns();
#endif
void h_I64_TRUNC_U_F64_casts(void) {
  ND(F64, a0);
  U64 r;
  g_spec_trap = spec_i64_trunc_f64_u_trap(a0);
  r = w_I64_TRUNC_U_F64_casts(a0);
#ifdef VERIF_NATIVE
  OBL(g_spec_trap == SPEC_NOTRAP, "I64_TRUNC_U_F64_casts: returned normally only if the specification does not trap");
  OBL(((r) == (spec_i64_trunc_f64_u(a0))), "I64_TRUNC_U_F64_casts: result equals the specified value");
#else
  (void)r;
#endif
  CANARY("I64_TRUNC_U_F64_casts returns");
}
U64 w_I64_TRUNC_SAT_U_F64_casts(F64 a0) { return I64_TRUNC_SAT_U_F64(a0); }
#ifndef VERIF_NATIVE
U64 c_I64_TRUNC_SAT_U_F64_casts(F64 a0)
  __CPROVER_requires(g_spec_trap == SPEC_NOTRAP)
  __CPROVER_ensures(g_spec_trap == SPEC_NOTRAP)
  __CPROVER_ensures(((__CPROVER_return_value) == (spec_i64_trunc_sat_f64_u(a0))))
  __CPROVER_assigns();
#endif
void h_I64_TRUNC_SAT_U_F64_casts(void) {
  ND(F64, a0);
  U64 r;
  g_spec_trap = SPEC_NOTRAP;
  r = w_I64_TRUNC_SAT_U_F64_casts(a0);
#ifdef VERIF_NATIVE
  OBL(g_spec_trap == SPEC_NOTRAP, "I64_TRUNC_SAT_U_F64_casts: returned normally only if the specification does not trap");
  OBL(((r) == (spec_i64_trunc_sat_f64_u(a0))), "I64_TRUNC_SAT_U_F64_casts: result equals the specified value");
#else
  (void)r;
#endif
  CANARY("I64_TRUNC_SAT_U_F64_casts returns");
}
