#include "w2c2_base.h"
#include "vh.h"
#include "wasm_int.h"
#include "wasm_float.h"
#include "trapstub.h"

F32 w_FMIN_F32(F32 a0, F32 a1) { return FMIN(a0, a1); }
#ifndef VERIF_NATIVE
F32 c_FMIN_F32(F32 a0, F32 a1)
  __CPROVER_requires(g_spec_trap == SPEC_NOTRAP)
  __CPROVER_ensures(g_spec_trap == SPEC_NOTRAP)
  __CPROVER_ensures(SPEC_FEQ32(__CPROVER_return_value, spec_f32_min(a0, a1)))
  __CPROVER_assigns();
#endif
void h_FMIN_F32(void) {
  ND(F32, a0);
  ND(F32, a1);
  F32 r;
  g_spec_trap = SPEC_NOTRAP;
  r = w_FMIN_F32(a0, a1);
#ifdef VERIF_NATIVE
  OBL(g_spec_trap == SPEC_NOTRAP, "FMIN_F32: returned normally only if the specification does not trap");
  OBL(SPEC_FEQ32(r, spec_f32_min(a0, a1)), "FMIN_F32: result equals the specified value");
#else
  (void)r;
#endif
  CANARY("FMIN_F32 returns");
}
F32 w_FMAX_F32(F32 a0, F32 a1) { return FMAX(a0, a1); }
#ifndef VERIF_NATIVE
F32 c_FMAX_F32(F32 a0, F32 a1)
  __CPROVER_requires(g_spec_trap == SPEC_NOTRAP)
  __CPROVER_ensures(g_spec_trap == SPEC_NOTRAP)
  __CPROVER_ensures(SPEC_FEQ32(__CPROVER_return_value, spec_f32_max(a0, a1)))
  __CPROVER_assigns();
#endif
void h_FMAX_F32(void) {
  ND(F32, a0);
  ND(F32, a1);
  F32 r;
  g_spec_trap = SPEC_NOTRAP;
  r = w_FMAX_F32(a0, a1);
#ifdef VERIF_NATIVE
  OBL(g_spec_trap == SPEC_NOTRAP, "FMAX_F32: returned normally only if the specification does not trap");
  OBL(SPEC_FEQ32(r, spec_f32_max(a0, a1)), "FMAX_F32: result equals the specified value");
#else
  (void)r;
#endif
  CANARY("FMAX_F32 returns");
}
F64 w_FMIN_F64(F64 a0, F64 a1) { return FMIN(a0, a1); }
#ifndef VERIF_NATIVE
F64 c_FMIN_F64(F64 a0, F64 a1)
  __CPROVER_requires(g_spec_trap == SPEC_NOTRAP)
  __CPROVER_ensures(g_spec_trap == SPEC_NOTRAP)
  __CPROVER_ensures(SPEC_FEQ64(__CPROVER_return_value, spec_f64_min(a0, a1)))
  __CPROVER_assigns();
#endif
void h_FMIN_F64(void) {
  ND(F64, a0);
  ND(F64, a1);
  F64 r;
  g_spec_trap = SPEC_NOTRAP;
  r = w_FMIN_F64(a0, a1);
#ifdef VERIF_NATIVE
  OBL(g_spec_trap == SPEC_NOTRAP, "FMIN_F64: returned normally only if the specification does not trap");
  OBL(SPEC_FEQ64(r, spec_f64_min(a0, a1)), "FMIN_F64: result equals the specified value");
#else
  (void)r;
#endif
  CANARY("FMIN_F64 returns");
}
F64 w_FMAX_F64(F64 a0, F64 a1) { return FMAX(a0, a1); }
#ifndef VERIF_NATIVE
F64 c_FMAX_F64(F64 a0, F64 a1)
  __CPROVER_requires(g_spec_trap == SPEC_NOTRAP)
  __CPROVER_ensures(g_spec_trap == SPEC_NOTRAP)
  __CPROVER_ensures(SPEC_FEQ64(__CPROVER_return_value, spec_f64_max(a0, a1)))
  __CPROVER_assigns();
#endif
void h_FMAX_F64(void) {
  ND(F64, a0);
  ND(F64, a1);
  F64 r;
  g_spec_trap = SPEC_NOTRAP;
  r = w_FMAX_F64(a0, a1);
#ifdef VERIF_NATIVE
  OBL(g_spec_trap == SPEC_NOTRAP, "FMAX_F64: returned normally only if the specification does not trap");
  OBL(SPEC_FEQ64(r, spec_f64_max(a0, a1)), "FMAX_F64: result equals the specified value");
#else
  (void)r;
#endif
  CANARY("FMAX_F64 returns");
}
U32 w_I32_TRUNC_S_F32(F32 a0) { return I32_TRUNC_S_F32(a0); }
#ifndef VERIF_NATIVE
U32 c_I32_TRUNC_S_F32(F32 a0)
  __CPROVER_requires(g_spec_trap == spec_i32_trunc_f32_s_trap(a0))
  __CPROVER_ensures(g_spec_trap == SPEC_NOTRAP)
  __CPROVER_ensures(((__CPROVER_return_value) == (spec_i32_trunc_f32_s(a0))))
  __CPROVER_assigns();
#endif
void h_I32_TRUNC_S_F32(void) {
  ND(F32, a0);
  U32 r;
  g_spec_trap = spec_i32_trunc_f32_s_trap(a0);
  r = w_I32_TRUNC_S_F32(a0);
#ifdef VERIF_NATIVE
  OBL(g_spec_trap == SPEC_NOTRAP, "I32_TRUNC_S_F32: returned normally only if the specification does not trap");
  OBL(((r) == (spec_i32_trunc_f32_s(a0))), "I32_TRUNC_S_F32: result equals the specified value");
#else
  (void)r;
#endif
  CANARY("I32_TRUNC_S_F32 returns");
}
U32 w_I32_TRUNC_SAT_S_F32(F32 a0) { return I32_TRUNC_SAT_S_F32(a0); }
#ifndef VERIF_NATIVE
U32 c_I32_TRUNC_SAT_S_F32(F32 a0)
  __CPROVER_requires(g_spec_trap == SPEC_NOTRAP)
  __CPROVER_ensures(g_spec_trap == SPEC_NOTRAP)
  __CPROVER_ensures(((__CPROVER_return_value) == (spec_i32_trunc_sat_f32_s(a0))))
  __CPROVER_assigns();
#endif
void h_I32_TRUNC_SAT_S_F32(void) {
  ND(F32, a0);
  U32 r;
  g_spec_trap = SPEC_NOTRAP;
  r = w_I32_TRUNC_SAT_S_F32(a0);
#ifdef VERIF_NATIVE
  OBL(g_spec_trap == SPEC_NOTRAP, "I32_TRUNC_SAT_S_F32: returned normally only if the specification does not trap");
  OBL(((r) == (spec_i32_trunc_sat_f32_s(a0))), "I32_TRUNC_SAT_S_F32: result equals the specified value");
#else
  (void)r;
#endif
  CANARY("I32_TRUNC_SAT_S_F32 returns");
}
U32 w_I32_TRUNC_U_F32(F32 a0) { return I32_TRUNC_U_F32(a0); }
#ifndef VERIF_NATIVE
U32 c_I32_TRUNC_U_F32(F32 a0)
  __CPROVER_requires(g_spec_trap == spec_i32_trunc_f32_u_trap(a0))
  __CPROVER_ensures(g_spec_trap == SPEC_NOTRAP)
  __CPROVER_ensures(((__CPROVER_return_value) == (spec_i32_trunc_f32_u(a0))))
  __CPROVER_assigns();
#endif
void h_I32_TRUNC_U_F32(void) {
  ND(F32, a0);
  U32 r;
  g_spec_trap = spec_i32_trunc_f32_u_trap(a0);
  r = w_I32_TRUNC_U_F32(a0);
#ifdef VERIF_NATIVE
  OBL(g_spec_trap == SPEC_NOTRAP, "I32_TRUNC_U_F32: returned normally only if the specification does not trap");
  OBL(((r) == (spec_i32_trunc_f32_u(a0))), "I32_TRUNC_U_F32: result equals the specified value");
#else
  (void)r;
#endif
  CANARY("I32_TRUNC_U_F32 returns");
}
U32 w_I32_TRUNC_SAT_U_F32(F32 a0) { return I32_TRUNC_SAT_U_F32(a0); }
#ifndef VERIF_NATIVE
U32 c_I32_TRUNC_SAT_U_F32(F32 a0)
  __CPROVER_requires(g_spec_trap == SPEC_NOTRAP)
  __CPROVER_ensures(g_spec_trap == SPEC_NOTRAP)
  __CPROVER_ensures(((__CPROVER_return_value) == (spec_i32_trunc_sat_f32_u(a0))))
  __CPROVER_assigns();
#endif
void h_I32_TRUNC_SAT_U_F32(void) {
  ND(F32, a0);
  U32 r;
  g_spec_trap = SPEC_NOTRAP;
  r = w_I32_TRUNC_SAT_U_F32(a0);
#ifdef VERIF_NATIVE
  OBL(g_spec_trap == SPEC_NOTRAP, "I32_TRUNC_SAT_U_F32: returned normally only if the specification does not trap");
  OBL(((r) == (spec_i32_trunc_sat_f32_u(a0))), "I32_TRUNC_SAT_U_F32: result equals the specified value");
#else
  (void)r;
#endif
  CANARY("I32_TRUNC_SAT_U_F32 returns");
}
U32 w_I32_TRUNC_S_F64(F64 a0) { return I32_TRUNC_S_F64(a0); }
#ifndef VERIF_NATIVE
U32 c_I32_TRUNC_S_F64(F64 a0)
  __CPROVER_requires(g_spec_trap == spec_i32_trunc_f64_s_trap(a0))
  __CPROVER_ensures(g_spec_trap == SPEC_NOTRAP)
  __CPROVER_ensures(((__CPROVER_return_value) == (spec_i32_trunc_f64_s(a0))))
  __CPROVER_assigns();
#endif
void h_I32_TRUNC_S_F64(void) {
  ND(F64, a0);
  U32 r;
  g_spec_trap = spec_i32_trunc_f64_s_trap(a0);
  r = w_I32_TRUNC_S_F64(a0);
#ifdef VERIF_NATIVE
  OBL(g_spec_trap == SPEC_NOTRAP, "I32_TRUNC_S_F64: returned normally only if the specification does not trap");
  OBL(((r) == (spec_i32_trunc_f64_s(a0))), "I32_TRUNC_S_F64: result equals the specified value");
#else
  (void)r;
#endif
  CANARY("I32_TRUNC_S_F64 returns");
}
U32 w_I32_TRUNC_SAT_S_F64(F64 a0) { return I32_TRUNC_SAT_S_F64(a0); }
#ifndef VERIF_NATIVE
U32 c_I32_TRUNC_SAT_S_F64(F64 a0)
  __CPROVER_requires(g_spec_trap == SPEC_NOTRAP)
  __CPROVER_ensures(g_spec_trap == SPEC_NOTRAP)
  __CPROVER_ensures(((__CPROVER_return_value) == (spec_i32_trunc_sat_f64_s(a0))))
  __CPROVER_assigns();
#endif
void h_I32_TRUNC_SAT_S_F64(void) {
  ND(F64, a0);
  U32 r;
  g_spec_trap = SPEC_NOTRAP;
  r = w_I32_TRUNC_SAT_S_F64(a0);
#ifdef VERIF_NATIVE
  OBL(g_spec_trap == SPEC_NOTRAP, "I32_TRUNC_SAT_S_F64: returned normally only if the specification does not trap");
  OBL(((r) == (spec_i32_trunc_sat_f64_s(a0))), "I32_TRUNC_SAT_S_F64: result equals the specified value");
#else
  (void)r;
#endif
  CANARY("I32_TRUNC_SAT_S_F64 returns");
}
U32 w_I32_TRUNC_U_F64(F64 a0) { return I32_TRUNC_U_F64(a0); }
#ifndef VERIF_NATIVE
U32 c_I32_TRUNC_U_F64(F64 a0)
  __CPROVER_requires(g_spec_trap == spec_i32_trunc_f64_u_trap(a0))
  __CPROVER_ensures(g_spec_trap == SPEC_NOTRAP)
  __CPROVER_ensures(((__CPROVER_return_value) == (spec_i32_trunc_f64_u(a0))))
  __CPROVER_assigns();
#endif
void h_I32_TRUNC_U_F64(void) {
  ND(F64, a0);
  U32 r;
  g_spec_trap = spec_i32_trunc_f64_u_trap(a0);
  r = w_I32_TRUNC_U_F64(a0);
#ifdef VERIF_NATIVE
  OBL(g_spec_trap == SPEC_NOTRAP, "I32_TRUNC_U_F64: returned normally only if the specification does not trap");
  OBL(((r) == (spec_i32_trunc_f64_u(a0))), "I32_TRUNC_U_F64: result equals the specified value");
#else
  (void)r;
#endif
  CANARY("I32_TRUNC_U_F64 returns");
}
U32 w_I32_TRUNC_SAT_U_F64(F64 a0) { return I32_TRUNC_SAT_U_F64(a0); }
#ifndef VERIF_NATIVE
U32 c_I32_TRUNC_SAT_U_F64(F64 a0)
  __CPROVER_requires(g_spec_trap == SPEC_NOTRAP)
  __CPROVER_ensures(g_spec_trap == SPEC_NOTRAP)
  __CPROVER_ensures(((__CPROVER_return_value) == (spec_i32_trunc_sat_f64_u(a0))))
  __CPROVER_assigns();
#endif
void h_I32_TRUNC_SAT_U_F64(void) {
  ND(F64, a0);
  U32 r;
  g_spec_trap = SPEC_NOTRAP;
  r = w_I32_TRUNC_SAT_U_F64(a0);
#ifdef VERIF_NATIVE
  OBL(g_spec_trap == SPEC_NOTRAP, "I32_TRUNC_SAT_U_F64: returned normally only if the specification does not trap");
  OBL(((r) == (spec_i32_trunc_sat_f64_u(a0))), "I32_TRUNC_SAT_U_F64: result equals the specified value");
#else
  (void)r;
#endif
  CANARY("I32_TRUNC_SAT_U_F64 returns");
}
U64 w_I64_TRUNC_S_F32(F32 a0) { return I64_TRUNC_S_F32(a0); }
#ifndef VERIF_NATIVE
U64 c_I64_TRUNC_S_F32(F32 a0)
  __CPROVER_requires(g_spec_trap == spec_i64_trunc_f32_s_trap(a0))
  __CPROVER_ensures(g_spec_trap == SPEC_NOTRAP)
  __CPROVER_ensures(((__CPROVER_return_value) == (spec_i64_trunc_f32_s(a0))))
  __CPROVER_assigns();
#endif
void h_I64_TRUNC_S_F32(void) {
  ND(F32, a0);
  U64 r;
  g_spec_trap = spec_i64_trunc_f32_s_trap(a0);
  r = w_I64_TRUNC_S_F32(a0);
#ifdef VERIF_NATIVE
  OBL(g_spec_trap == SPEC_NOTRAP, "I64_TRUNC_S_F32: returned normally only if the specification does not trap");
  OBL(((r) == (spec_i64_trunc_f32_s(a0))), "I64_TRUNC_S_F32: result equals the specified value");
#else
  (void)r;
#endif
  CANARY("I64_TRUNC_S_F32 returns");
}
U64 w_I64_TRUNC_SAT_S_F32(F32 a0) { return I64_TRUNC_SAT_S_F32(a0); }
#ifndef VERIF_NATIVE
U64 c_I64_TRUNC_SAT_S_F32(F32 a0)
  __CPROVER_requires(g_spec_trap == SPEC_NOTRAP)
  __CPROVER_ensures(g_spec_trap == SPEC_NOTRAP)
  __CPROVER_ensures(((__CPROVER_return_value) == (spec_i64_trunc_sat_f32_s(a0))))
  __CPROVER_assigns();
#endif
void h_I64_TRUNC_SAT_S_F32(void) {
  ND(F32, a0);
  U64 r;
  g_spec_trap = SPEC_NOTRAP;
  r = w_I64_TRUNC_SAT_S_F32(a0);
#ifdef VERIF_NATIVE
  OBL(g_spec_trap == SPEC_NOTRAP, "I64_TRUNC_SAT_S_F32: returned normally only if the specification does not trap");
  OBL(((r) == (spec_i64_trunc_sat_f32_s(a0))), "I64_TRUNC_SAT_S_F32: result equals the specified value");
#else
  (void)r;
#endif
  CANARY("I64_TRUNC_SAT_S_F32 returns");
}
U64 w_I64_TRUNC_U_F32(F32 a0) { return I64_TRUNC_U_F32(a0); }
#ifndef VERIF_NATIVE
U64 c_I64_TRUNC_U_F32(F32 a0)
  __CPROVER_requires(g_spec_trap == spec_i64_trunc_f32_u_trap(a0))
  __CPROVER_ensures(g_spec_trap == SPEC_NOTRAP)
  __CPROVER_ensures(((__CPROVER_return_value) == (spec_i64_trunc_f32_u(a0))))
  __CPROVER_assigns();
#endif
void h_I64_TRUNC_U_F32(void) {
  ND(F32, a0);
  U64 r;
  g_spec_trap = spec_i64_trunc_f32_u_trap(a0);
  r = w_I64_TRUNC_U_F32(a0);
#ifdef VERIF_NATIVE
  OBL(g_spec_trap == SPEC_NOTRAP, "I64_TRUNC_U_F32: returned normally only if the specification does not trap");
  OBL(((r) == (spec_i64_trunc_f32_u(a0))), "I64_TRUNC_U_F32: result equals the specified value");
#else
  (void)r;
#endif
  CANARY("I64_TRUNC_U_F32 returns");
}
U64 w_I64_TRUNC_SAT_U_F32(F32 a0) { return I64_TRUNC_SAT_U_F32(a0); }
#ifndef VERIF_NATIVE
U64 c_I64_TRUNC_SAT_U_F32(F32 a0)
  __CPROVER_requires(g_spec_trap == SPEC_NOTRAP)
  __CPROVER_ensures(g_spec_trap == SPEC_NOTRAP)
  __CPROVER_ensures(((__CPROVER_return_value) == (spec_i64_trunc_sat_f32_u(a0))))
  __CPROVER_assigns();
#endif
void h_I64_TRUNC_SAT_U_F32(void) {
  ND(F32, a0);
  U64 r;
  g_spec_trap = SPEC_NOTRAP;
  r = w_I64_TRUNC_SAT_U_F32(a0);
#ifdef VERIF_NATIVE
  OBL(g_spec_trap == SPEC_NOTRAP, "I64_TRUNC_SAT_U_F32: returned normally only if the specification does not trap");
  OBL(((r) == (spec_i64_trunc_sat_f32_u(a0))), "I64_TRUNC_SAT_U_F32: result equals the specified value");
#else
  (void)r;
#endif
  CANARY("I64_TRUNC_SAT_U_F32 returns");
}
U64 w_I64_TRUNC_S_F64(F64 a0) { return I64_TRUNC_S_F64(a0); }
#ifndef VERIF_NATIVE
U64 c_I64_TRUNC_S_F64(F64 a0)
  __CPROVER_requires(g_spec_trap == spec_i64_trunc_f64_s_trap(a0))
  __CPROVER_ensures(g_spec_trap == SPEC_NOTRAP)
  __CPROVER_ensures(((__CPROVER_return_value) == (spec_i64_trunc_f64_s(a0))))
  __CPROVER_assigns();
#endif
void h_I64_TRUNC_S_F64(void) {
  ND(F64, a0);
  U64 r;
  g_spec_trap = spec_i64_trunc_f64_s_trap(a0);
  r = w_I64_TRUNC_S_F64(a0);
#ifdef VERIF_NATIVE
  OBL(g_spec_trap == SPEC_NOTRAP, "I64_TRUNC_S_F64: returned normally only if the specification does not trap");
  OBL(((r) == (spec_i64_trunc_f64_s(a0))), "I64_TRUNC_S_F64: result equals the specified value");
#else
  (void)r;
#endif
  CANARY("I64_TRUNC_S_F64 returns");
}
U64 w_I64_TRUNC_SAT_S_F64(F64 a0) { return I64_TRUNC_SAT_S_F64(a0); }
#ifndef VERIF_NATIVE
U64 c_I64_TRUNC_SAT_S_F64(F64 a0)
  __CPROVER_requires(g_spec_trap == SPEC_NOTRAP)
  __CPROVER_ensures(g_spec_trap == SPEC_NOTRAP)
  __CPROVER_ensures(((__CPROVER_return_value) == (spec_i64_trunc_sat_f64_s(a0))))
  __CPROVER_assigns();
#endif
void h_I64_TRUNC_SAT_S_F64(void) {
  ND(F64, a0);
  U64 r;
  g_spec_trap = SPEC_NOTRAP;
  r = w_I64_TRUNC_SAT_S_F64(a0);
#ifdef VERIF_NATIVE
  OBL(g_spec_trap == SPEC_NOTRAP, "I64_TRUNC_SAT_S_F64: returned normally only if the specification does not trap");
  OBL(((r) == (spec_i64_trunc_sat_f64_s(a0))), "I64_TRUNC_SAT_S_F64: result equals the specified value");
#else
  (void)r;
#endif
  CANARY("I64_TRUNC_SAT_S_F64 returns");
}
U64 w_I64_TRUNC_U_F64(F64 a0) { return I64_TRUNC_U_F64(a0); }
#ifndef VERIF_NATIVE
U64 c_I64_TRUNC_U_F64(F64 a0)
  __CPROVER_requires(g_spec_trap == spec_i64_trunc_f64_u_trap(a0))
  __CPROVER_ensures(g_spec_trap == SPEC_NOTRAP)
  __CPROVER_ensures(((__CPROVER_return_value) == (spec_i64_trunc_f64_u(a0))))
  __CPROVER_assigns();
#endif
void h_I64_TRUNC_U_F64(void) {
  ND(F64, a0);
  U64 r;
  g_spec_trap = spec_i64_trunc_f64_u_trap(a0);
  r = w_I64_TRUNC_U_F64(a0);
#ifdef VERIF_NATIVE
  OBL(g_spec_trap == SPEC_NOTRAP, "I64_TRUNC_U_F64: returned normally only if the specification does not trap");
  OBL(((r) == (spec_i64_trunc_f64_u(a0))), "I64_TRUNC_U_F64: result equals the specified value");
#else
  (void)r;
#endif
  CANARY("I64_TRUNC_U_F64 returns");
}
U64 w_I64_TRUNC_SAT_U_F64(F64 a0) { return I64_TRUNC_SAT_U_F64(a0); }
#ifndef VERIF_NATIVE
U64 c_I64_TRUNC_SAT_U_F64(F64 a0)
  __CPROVER_requires(g_spec_trap == SPEC_NOTRAP)
  __CPROVER_ensures(g_spec_trap == SPEC_NOTRAP)
  __CPROVER_ensures(((__CPROVER_return_value) == (spec_i64_trunc_sat_f64_u(a0))))
  __CPROVER_assigns();
#endif
void h_I64_TRUNC_SAT_U_F64(void) {
  ND(F64, a0);
  U64 r;
  g_spec_trap = SPEC_NOTRAP;
  r = w_I64_TRUNC_SAT_U_F64(a0);
#ifdef VERIF_NATIVE
  OBL(g_spec_trap == SPEC_NOTRAP, "I64_TRUNC_SAT_U_F64: returned normally only if the specification does not trap");
  OBL(((r) == (spec_i64_trunc_sat_f64_u(a0))), "I64_TRUNC_SAT_U_F64: result equals the specified value");
#else
  (void)r;
#endif
  CANARY("I64_TRUNC_SAT_U_F64 returns");
}
F32 w_f32_reinterpret_i32(U32 a0) { return f32_reinterpret_i32(a0); }
#ifndef VERIF_NATIVE
F32 c_f32_reinterpret_i32(U32 a0)
  __CPROVER_requires(g_spec_trap == SPEC_NOTRAP)
  __CPROVER_ensures(g_spec_trap == SPEC_NOTRAP)
  __CPROVER_ensures((vh_f32bits(__CPROVER_return_value) == vh_f32bits(spec_f32_reinterpret_i32(a0))))
  __CPROVER_assigns();
#endif
void h_f32_reinterpret_i32(void) {
  ND(U32, a0);
  F32 r;
  g_spec_trap = SPEC_NOTRAP;
  r = w_f32_reinterpret_i32(a0);
#ifdef VERIF_NATIVE
  OBL(g_spec_trap == SPEC_NOTRAP, "f32_reinterpret_i32: returned normally only if the specification does not trap");
  OBL((vh_f32bits(r) == vh_f32bits(spec_f32_reinterpret_i32(a0))), "f32_reinterpret_i32: result equals the specified value");
#else
  (void)r;
#endif
  CANARY("f32_reinterpret_i32 returns");
}
U32 w_i32_reinterpret_f32(F32 a0) { return i32_reinterpret_f32(a0); }
#ifndef VERIF_NATIVE
U32 c_i32_reinterpret_f32(F32 a0)
  __CPROVER_requires(g_spec_trap == SPEC_NOTRAP)
  __CPROVER_ensures(g_spec_trap == SPEC_NOTRAP)
  __CPROVER_ensures(((__CPROVER_return_value) == (spec_i32_reinterpret_f32(a0))))
  __CPROVER_assigns();
#endif
void h_i32_reinterpret_f32(void) {
  ND(F32, a0);
  U32 r;
  g_spec_trap = SPEC_NOTRAP;
  r = w_i32_reinterpret_f32(a0);
#ifdef VERIF_NATIVE
  OBL(g_spec_trap == SPEC_NOTRAP, "i32_reinterpret_f32: returned normally only if the specification does not trap");
  OBL(((r) == (spec_i32_reinterpret_f32(a0))), "i32_reinterpret_f32: result equals the specified value");
#else
  (void)r;
#endif
  CANARY("i32_reinterpret_f32 returns");
}
F64 w_f64_reinterpret_i64(U64 a0) { return f64_reinterpret_i64(a0); }
#ifndef VERIF_NATIVE
F64 c_f64_reinterpret_i64(U64 a0)
  __CPROVER_requires(g_spec_trap == SPEC_NOTRAP)
  __CPROVER_ensures(g_spec_trap == SPEC_NOTRAP)
  __CPROVER_ensures((vh_f64bits(__CPROVER_return_value) == vh_f64bits(spec_f64_reinterpret_i64(a0))))
  __CPROVER_assigns();
#endif
void h_f64_reinterpret_i64(void) {
  ND(U64, a0);
  F64 r;
  g_spec_trap = SPEC_NOTRAP;
  r = w_f64_reinterpret_i64(a0);
#ifdef VERIF_NATIVE
  OBL(g_spec_trap == SPEC_NOTRAP, "f64_reinterpret_i64: returned normally only if the specification does not trap");
  OBL((vh_f64bits(r) == vh_f64bits(spec_f64_reinterpret_i64(a0))), "f64_reinterpret_i64: result equals the specified value");
#else
  (void)r;
#endif
  CANARY("f64_reinterpret_i64 returns");
}
U64 w_i64_reinterpret_f64(F64 a0) { return i64_reinterpret_f64(a0); }
#ifndef VERIF_NATIVE
U64 c_i64_reinterpret_f64(F64 a0)
  __CPROVER_requires(g_spec_trap == SPEC_NOTRAP)
  __CPROVER_ensures(g_spec_trap == SPEC_NOTRAP)
  __CPROVER_ensures(((__CPROVER_return_value) == (spec_i64_reinterpret_f64(a0))))
  __CPROVER_assigns();
#endif
void h_i64_reinterpret_f64(void) {
  ND(F64, a0);
  U64 r;
  g_spec_trap = SPEC_NOTRAP;
  r = w_i64_reinterpret_f64(a0);
#ifdef VERIF_NATIVE
  OBL(g_spec_trap == SPEC_NOTRAP, "i64_reinterpret_f64: returned normally only if the specification does not trap");
  OBL(((r) == (spec_i64_reinterpret_f64(a0))), "i64_reinterpret_f64: result equals the specified value");
#else
  (void)r;
#endif
  CANARY("i64_reinterpret_f64 returns");
}
