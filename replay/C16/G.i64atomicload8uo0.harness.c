#include "vh.h"
#include "w2c2_base.h"
#include "wasm_int.h"
#include "trapstub.h"
#include "/verif/.work_wt/C16-1636/memrec/memrec.h"
#include "c16atm.c"
#include "wasm_int.h"
#include "libm_markers.h"
#include "trapstub.h"
static c16atmInstance inst;
static wasmMemory g_mem;
void h_i32atomicloado0(void) {
  ND(U32, a0);
  U32 r;
  g_mr_calls = 0; g_libm_calls = 0;
  inst.m0 = &g_mem;
  g_spec_trap = SPEC_NOTRAP;
  r = c16atm_i32atomicloado0(&inst, a0);
  OBL(g_spec_trap == SPEC_NOTRAP, "i32atomicloado0: returned normally only if the specification does not trap");
  OBL(g_mr_calls == 1 && g_mr_id == MR_i32_atomic_load && g_mr_mem == inst.m0 && g_mr_addr == (U64)a0 + 0ull, "i32atomicloado0: exactly one call of i32_atomic_load on memory 0 with base+offset in 64 bits");
  OBL((U64)r == g_mr_ret, "i32atomicloado0: the loaded value is delivered unchanged");
  CANARY("i32atomicloado0 returns");
}
void h_i32atomicloadofffffff8(void) {
  ND(U32, a0);
  U32 r;
  g_mr_calls = 0; g_libm_calls = 0;
  inst.m0 = &g_mem;
  g_spec_trap = SPEC_NOTRAP;
  r = c16atm_i32atomicloadofffffff8(&inst, a0);
  OBL(g_spec_trap == SPEC_NOTRAP, "i32atomicloadofffffff8: returned normally only if the specification does not trap");
  OBL(g_mr_calls == 1 && g_mr_id == MR_i32_atomic_load && g_mr_mem == inst.m0 && g_mr_addr == (U64)a0 + 4294967288ull, "i32atomicloadofffffff8: exactly one call of i32_atomic_load on memory 0 with base+offset in 64 bits");
  OBL((U64)r == g_mr_ret, "i32atomicloadofffffff8: the loaded value is delivered unchanged");
  CANARY("i32atomicloadofffffff8 returns");
}
void h_i64atomicloado0(void) {
  ND(U32, a0);
  U64 r;
  g_mr_calls = 0; g_libm_calls = 0;
  inst.m0 = &g_mem;
  g_spec_trap = SPEC_NOTRAP;
  r = c16atm_i64atomicloado0(&inst, a0);
  OBL(g_spec_trap == SPEC_NOTRAP, "i64atomicloado0: returned normally only if the specification does not trap");
  OBL(g_mr_calls == 1 && g_mr_id == MR_i64_atomic_load && g_mr_mem == inst.m0 && g_mr_addr == (U64)a0 + 0ull, "i64atomicloado0: exactly one call of i64_atomic_load on memory 0 with base+offset in 64 bits");
  OBL((U64)r == g_mr_ret, "i64atomicloado0: the loaded value is delivered unchanged");
  CANARY("i64atomicloado0 returns");
}
void h_i64atomicloadofffffff8(void) {
  ND(U32, a0);
  U64 r;
  g_mr_calls = 0; g_libm_calls = 0;
  inst.m0 = &g_mem;
  g_spec_trap = SPEC_NOTRAP;
  r = c16atm_i64atomicloadofffffff8(&inst, a0);
  OBL(g_spec_trap == SPEC_NOTRAP, "i64atomicloadofffffff8: returned normally only if the specification does not trap");
  OBL(g_mr_calls == 1 && g_mr_id == MR_i64_atomic_load && g_mr_mem == inst.m0 && g_mr_addr == (U64)a0 + 4294967288ull, "i64atomicloadofffffff8: exactly one call of i64_atomic_load on memory 0 with base+offset in 64 bits");
  OBL((U64)r == g_mr_ret, "i64atomicloadofffffff8: the loaded value is delivered unchanged");
  CANARY("i64atomicloadofffffff8 returns");
}
void h_i32atomicload8uo0(void) {
  ND(U32, a0);
  U32 r;
  g_mr_calls = 0; g_libm_calls = 0;
  inst.m0 = &g_mem;
  g_spec_trap = SPEC_NOTRAP;
  r = c16atm_i32atomicload8uo0(&inst, a0);
  OBL(g_spec_trap == SPEC_NOTRAP, "i32atomicload8uo0: returned normally only if the specification does not trap");
  OBL(g_mr_calls == 1 && g_mr_id == MR_i32_atomic_load8_u && g_mr_mem == inst.m0 && g_mr_addr == (U64)a0 + 0ull, "i32atomicload8uo0: exactly one call of i32_atomic_load8_u on memory 0 with base+offset in 64 bits");
  OBL((U64)r == g_mr_ret, "i32atomicload8uo0: the loaded value is delivered unchanged");
  CANARY("i32atomicload8uo0 returns");
}
void h_i32atomicload8uofffffff8(void) {
  ND(U32, a0);
  U32 r;
  g_mr_calls = 0; g_libm_calls = 0;
  inst.m0 = &g_mem;
  g_spec_trap = SPEC_NOTRAP;
  r = c16atm_i32atomicload8uofffffff8(&inst, a0);
  OBL(g_spec_trap == SPEC_NOTRAP, "i32atomicload8uofffffff8: returned normally only if the specification does not trap");
  OBL(g_mr_calls == 1 && g_mr_id == MR_i32_atomic_load8_u && g_mr_mem == inst.m0 && g_mr_addr == (U64)a0 + 4294967288ull, "i32atomicload8uofffffff8: exactly one call of i32_atomic_load8_u on memory 0 with base+offset in 64 bits");
  OBL((U64)r == g_mr_ret, "i32atomicload8uofffffff8: the loaded value is delivered unchanged");
  CANARY("i32atomicload8uofffffff8 returns");
}
void h_i32atomicload16uo0(void) {
  ND(U32, a0);
  U32 r;
  g_mr_calls = 0; g_libm_calls = 0;
  inst.m0 = &g_mem;
  g_spec_trap = SPEC_NOTRAP;
  r = c16atm_i32atomicload16uo0(&inst, a0);
  OBL(g_spec_trap == SPEC_NOTRAP, "i32atomicload16uo0: returned normally only if the specification does not trap");
  OBL(g_mr_calls == 1 && g_mr_id == MR_i32_atomic_load16_u && g_mr_mem == inst.m0 && g_mr_addr == (U64)a0 + 0ull, "i32atomicload16uo0: exactly one call of i32_atomic_load16_u on memory 0 with base+offset in 64 bits");
  OBL((U64)r == g_mr_ret, "i32atomicload16uo0: the loaded value is delivered unchanged");
  CANARY("i32atomicload16uo0 returns");
}
void h_i32atomicload16uofffffff8(void) {
  ND(U32, a0);
  U32 r;
  g_mr_calls = 0; g_libm_calls = 0;
  inst.m0 = &g_mem;
  g_spec_trap = SPEC_NOTRAP;
  r = c16atm_i32atomicload16uofffffff8(&inst, a0);
  OBL(g_spec_trap == SPEC_NOTRAP, "i32atomicload16uofffffff8: returned normally only if the specification does not trap");
  OBL(g_mr_calls == 1 && g_mr_id == MR_i32_atomic_load16_u && g_mr_mem == inst.m0 && g_mr_addr == (U64)a0 + 4294967288ull, "i32atomicload16uofffffff8: exactly one call of i32_atomic_load16_u on memory 0 with base+offset in 64 bits");
  OBL((U64)r == g_mr_ret, "i32atomicload16uofffffff8: the loaded value is delivered unchanged");
  CANARY("i32atomicload16uofffffff8 returns");
}
void h_i64atomicload8uo0(void) {
  ND(U32, a0);
  U64 r;
  g_mr_calls = 0; g_libm_calls = 0;
  inst.m0 = &g_mem;
  g_spec_trap = SPEC_NOTRAP;
  r = c16atm_i64atomicload8uo0(&inst, a0);
  OBL(g_spec_trap == SPEC_NOTRAP, "i64atomicload8uo0: returned normally only if the specification does not trap");
  OBL(g_mr_calls == 1 && g_mr_id == MR_i64_atomic_load8_u && g_mr_mem == inst.m0 && g_mr_addr == (U64)a0 + 0ull, "i64atomicload8uo0: exactly one call of i64_atomic_load8_u on memory 0 with base+offset in 64 bits");
  OBL((U64)r == g_mr_ret, "i64atomicload8uo0: the loaded value is delivered unchanged");
  CANARY("i64atomicload8uo0 returns");
}
void h_i64atomicload8uofffffff8(void) {
  ND(U32, a0);
  U64 r;
  g_mr_calls = 0; g_libm_calls = 0;
  inst.m0 = &g_mem;
  g_spec_trap = SPEC_NOTRAP;
  r = c16atm_i64atomicload8uofffffff8(&inst, a0);
  OBL(g_spec_trap == SPEC_NOTRAP, "i64atomicload8uofffffff8: returned normally only if the specification does not trap");
  OBL(g_mr_calls == 1 && g_mr_id == MR_i64_atomic_load8_u && g_mr_mem == inst.m0 && g_mr_addr == (U64)a0 + 4294967288ull, "i64atomicload8uofffffff8: exactly one call of i64_atomic_load8_u on memory 0 with base+offset in 64 bits");
  OBL((U64)r == g_mr_ret, "i64atomicload8uofffffff8: the loaded value is delivered unchanged");
  CANARY("i64atomicload8uofffffff8 returns");
}
void h_i64atomicload16uo0(void) {
  ND(U32, a0);
  U64 r;
  g_mr_calls = 0; g_libm_calls = 0;
  inst.m0 = &g_mem;
  g_spec_trap = SPEC_NOTRAP;
  r = c16atm_i64atomicload16uo0(&inst, a0);
  OBL(g_spec_trap == SPEC_NOTRAP, "i64atomicload16uo0: returned normally only if the specification does not trap");
  OBL(g_mr_calls == 1 && g_mr_id == MR_i64_atomic_load16_u && g_mr_mem == inst.m0 && g_mr_addr == (U64)a0 + 0ull, "i64atomicload16uo0: exactly one call of i64_atomic_load16_u on memory 0 with base+offset in 64 bits");
  OBL((U64)r == g_mr_ret, "i64atomicload16uo0: the loaded value is delivered unchanged");
  CANARY("i64atomicload16uo0 returns");
}
void h_i64atomicload16uofffffff8(void) {
  ND(U32, a0);
  U64 r;
  g_mr_calls = 0; g_libm_calls = 0;
  inst.m0 = &g_mem;
  g_spec_trap = SPEC_NOTRAP;
  r = c16atm_i64atomicload16uofffffff8(&inst, a0);
  OBL(g_spec_trap == SPEC_NOTRAP, "i64atomicload16uofffffff8: returned normally only if the specification does not trap");
  OBL(g_mr_calls == 1 && g_mr_id == MR_i64_atomic_load16_u && g_mr_mem == inst.m0 && g_mr_addr == (U64)a0 + 4294967288ull, "i64atomicload16uofffffff8: exactly one call of i64_atomic_load16_u on memory 0 with base+offset in 64 bits");
  OBL((U64)r == g_mr_ret, "i64atomicload16uofffffff8: the loaded value is delivered unchanged");
  CANARY("i64atomicload16uofffffff8 returns");
}
void h_i64atomicload32uo0(void) {
  ND(U32, a0);
  U64 r;
  g_mr_calls = 0; g_libm_calls = 0;
  inst.m0 = &g_mem;
  g_spec_trap = SPEC_NOTRAP;
  r = c16atm_i64atomicload32uo0(&inst, a0);
  OBL(g_spec_trap == SPEC_NOTRAP, "i64atomicload32uo0: returned normally only if the specification does not trap");
  OBL(g_mr_calls == 1 && g_mr_id == MR_i64_atomic_load32_u && g_mr_mem == inst.m0 && g_mr_addr == (U64)a0 + 0ull, "i64atomicload32uo0: exactly one call of i64_atomic_load32_u on memory 0 with base+offset in 64 bits");
  OBL((U64)r == g_mr_ret, "i64atomicload32uo0: the loaded value is delivered unchanged");
  CANARY("i64atomicload32uo0 returns");
}
void h_i64atomicload32uofffffff8(void) {
  ND(U32, a0);
  U64 r;
  g_mr_calls = 0; g_libm_calls = 0;
  inst.m0 = &g_mem;
  g_spec_trap = SPEC_NOTRAP;
  r = c16atm_i64atomicload32uofffffff8(&inst, a0);
  OBL(g_spec_trap == SPEC_NOTRAP, "i64atomicload32uofffffff8: returned normally only if the specification does not trap");
  OBL(g_mr_calls == 1 && g_mr_id == MR_i64_atomic_load32_u && g_mr_mem == inst.m0 && g_mr_addr == (U64)a0 + 4294967288ull, "i64atomicload32uofffffff8: exactly one call of i64_atomic_load32_u on memory 0 with base+offset in 64 bits");
  OBL((U64)r == g_mr_ret, "i64atomicload32uofffffff8: the loaded value is delivered unchanged");
  CANARY("i64atomicload32uofffffff8 returns");
}
void h_i32atomicstoreo0(void) {
  ND(U32, a0);
  ND(U32, a1);
  g_mr_calls = 0; g_libm_calls = 0;
  inst.m0 = &g_mem;
  g_spec_trap = SPEC_NOTRAP;
  c16atm_i32atomicstoreo0(&inst, a0, a1);
  OBL(g_spec_trap == SPEC_NOTRAP, "i32atomicstoreo0: returned normally only if the specification does not trap");
  OBL(g_mr_calls == 1 && g_mr_id == MR_i32_atomic_store && g_mr_mem == inst.m0 && g_mr_addr == (U64)a0 + 0ull && g_mr_v0 == (U64)a1, "i32atomicstoreo0: exactly one call of i32_atomic_store: address below, value on top");
  CANARY("i32atomicstoreo0 returns");
}
void h_i32atomicstoreofffffff8(void) {
  ND(U32, a0);
  ND(U32, a1);
  g_mr_calls = 0; g_libm_calls = 0;
  inst.m0 = &g_mem;
  g_spec_trap = SPEC_NOTRAP;
  c16atm_i32atomicstoreofffffff8(&inst, a0, a1);
  OBL(g_spec_trap == SPEC_NOTRAP, "i32atomicstoreofffffff8: returned normally only if the specification does not trap");
  OBL(g_mr_calls == 1 && g_mr_id == MR_i32_atomic_store && g_mr_mem == inst.m0 && g_mr_addr == (U64)a0 + 4294967288ull && g_mr_v0 == (U64)a1, "i32atomicstoreofffffff8: exactly one call of i32_atomic_store: address below, value on top");
  CANARY("i32atomicstoreofffffff8 returns");
}
void h_i64atomicstoreo0(void) {
  ND(U32, a0);
  ND(U64, a1);
  g_mr_calls = 0; g_libm_calls = 0;
  inst.m0 = &g_mem;
  g_spec_trap = SPEC_NOTRAP;
  c16atm_i64atomicstoreo0(&inst, a0, a1);
  OBL(g_spec_trap == SPEC_NOTRAP, "i64atomicstoreo0: returned normally only if the specification does not trap");
  OBL(g_mr_calls == 1 && g_mr_id == MR_i64_atomic_store && g_mr_mem == inst.m0 && g_mr_addr == (U64)a0 + 0ull && g_mr_v0 == (U64)a1, "i64atomicstoreo0: exactly one call of i64_atomic_store: address below, value on top");
  CANARY("i64atomicstoreo0 returns");
}
void h_i64atomicstoreofffffff8(void) {
  ND(U32, a0);
  ND(U64, a1);
  g_mr_calls = 0; g_libm_calls = 0;
  inst.m0 = &g_mem;
  g_spec_trap = SPEC_NOTRAP;
  c16atm_i64atomicstoreofffffff8(&inst, a0, a1);
  OBL(g_spec_trap == SPEC_NOTRAP, "i64atomicstoreofffffff8: returned normally only if the specification does not trap");
  OBL(g_mr_calls == 1 && g_mr_id == MR_i64_atomic_store && g_mr_mem == inst.m0 && g_mr_addr == (U64)a0 + 4294967288ull && g_mr_v0 == (U64)a1, "i64atomicstoreofffffff8: exactly one call of i64_atomic_store: address below, value on top");
  CANARY("i64atomicstoreofffffff8 returns");
}
void h_i32atomicstore8o0(void) {
  ND(U32, a0);
  ND(U32, a1);
  g_mr_calls = 0; g_libm_calls = 0;
  inst.m0 = &g_mem;
  g_spec_trap = SPEC_NOTRAP;
  c16atm_i32atomicstore8o0(&inst, a0, a1);
  OBL(g_spec_trap == SPEC_NOTRAP, "i32atomicstore8o0: returned normally only if the specification does not trap");
  OBL(g_mr_calls == 1 && g_mr_id == MR_i32_atomic_store8 && g_mr_mem == inst.m0 && g_mr_addr == (U64)a0 + 0ull && g_mr_v0 == (U64)a1, "i32atomicstore8o0: exactly one call of i32_atomic_store8: address below, value on top");
  CANARY("i32atomicstore8o0 returns");
}
void h_i32atomicstore8offfffff8(void) {
  ND(U32, a0);
  ND(U32, a1);
  g_mr_calls = 0; g_libm_calls = 0;
  inst.m0 = &g_mem;
  g_spec_trap = SPEC_NOTRAP;
  c16atm_i32atomicstore8offfffff8(&inst, a0, a1);
  OBL(g_spec_trap == SPEC_NOTRAP, "i32atomicstore8offfffff8: returned normally only if the specification does not trap");
  OBL(g_mr_calls == 1 && g_mr_id == MR_i32_atomic_store8 && g_mr_mem == inst.m0 && g_mr_addr == (U64)a0 + 4294967288ull && g_mr_v0 == (U64)a1, "i32atomicstore8offfffff8: exactly one call of i32_atomic_store8: address below, value on top");
  CANARY("i32atomicstore8offfffff8 returns");
}
void h_i32atomicstore16o0(void) {
  ND(U32, a0);
  ND(U32, a1);
  g_mr_calls = 0; g_libm_calls = 0;
  inst.m0 = &g_mem;
  g_spec_trap = SPEC_NOTRAP;
  c16atm_i32atomicstore16o0(&inst, a0, a1);
  OBL(g_spec_trap == SPEC_NOTRAP, "i32atomicstore16o0: returned normally only if the specification does not trap");
  OBL(g_mr_calls == 1 && g_mr_id == MR_i32_atomic_store16 && g_mr_mem == inst.m0 && g_mr_addr == (U64)a0 + 0ull && g_mr_v0 == (U64)a1, "i32atomicstore16o0: exactly one call of i32_atomic_store16: address below, value on top");
  CANARY("i32atomicstore16o0 returns");
}
void h_i32atomicstore16offfffff8(void) {
  ND(U32, a0);
  ND(U32, a1);
  g_mr_calls = 0; g_libm_calls = 0;
  inst.m0 = &g_mem;
  g_spec_trap = SPEC_NOTRAP;
  c16atm_i32atomicstore16offfffff8(&inst, a0, a1);
  OBL(g_spec_trap == SPEC_NOTRAP, "i32atomicstore16offfffff8: returned normally only if the specification does not trap");
  OBL(g_mr_calls == 1 && g_mr_id == MR_i32_atomic_store16 && g_mr_mem == inst.m0 && g_mr_addr == (U64)a0 + 4294967288ull && g_mr_v0 == (U64)a1, "i32atomicstore16offfffff8: exactly one call of i32_atomic_store16: address below, value on top");
  CANARY("i32atomicstore16offfffff8 returns");
}
void h_i64atomicstore8o0(void) {
  ND(U32, a0);
  ND(U64, a1);
  g_mr_calls = 0; g_libm_calls = 0;
  inst.m0 = &g_mem;
  g_spec_trap = SPEC_NOTRAP;
  c16atm_i64atomicstore8o0(&inst, a0, a1);
  OBL(g_spec_trap == SPEC_NOTRAP, "i64atomicstore8o0: returned normally only if the specification does not trap");
  OBL(g_mr_calls == 1 && g_mr_id == MR_i64_atomic_store8 && g_mr_mem == inst.m0 && g_mr_addr == (U64)a0 + 0ull && g_mr_v0 == (U64)a1, "i64atomicstore8o0: exactly one call of i64_atomic_store8: address below, value on top");
  CANARY("i64atomicstore8o0 returns");
}
void h_i64atomicstore8offfffff8(void) {
  ND(U32, a0);
  ND(U64, a1);
  g_mr_calls = 0; g_libm_calls = 0;
  inst.m0 = &g_mem;
  g_spec_trap = SPEC_NOTRAP;
  c16atm_i64atomicstore8offfffff8(&inst, a0, a1);
  OBL(g_spec_trap == SPEC_NOTRAP, "i64atomicstore8offfffff8: returned normally only if the specification does not trap");
  OBL(g_mr_calls == 1 && g_mr_id == MR_i64_atomic_store8 && g_mr_mem == inst.m0 && g_mr_addr == (U64)a0 + 4294967288ull && g_mr_v0 == (U64)a1, "i64atomicstore8offfffff8: exactly one call of i64_atomic_store8: address below, value on top");
  CANARY("i64atomicstore8offfffff8 returns");
}
void h_i64atomicstore16o0(void) {
  ND(U32, a0);
  ND(U64, a1);
  g_mr_calls = 0; g_libm_calls = 0;
  inst.m0 = &g_mem;
  g_spec_trap = SPEC_NOTRAP;
  c16atm_i64atomicstore16o0(&inst, a0, a1);
  OBL(g_spec_trap == SPEC_NOTRAP, "i64atomicstore16o0: returned normally only if the specification does not trap");
  OBL(g_mr_calls == 1 && g_mr_id == MR_i64_atomic_store16 && g_mr_mem == inst.m0 && g_mr_addr == (U64)a0 + 0ull && g_mr_v0 == (U64)a1, "i64atomicstore16o0: exactly one call of i64_atomic_store16: address below, value on top");
  CANARY("i64atomicstore16o0 returns");
}
void h_i64atomicstore16offfffff8(void) {
  ND(U32, a0);
  ND(U64, a1);
  g_mr_calls = 0; g_libm_calls = 0;
  inst.m0 = &g_mem;
  g_spec_trap = SPEC_NOTRAP;
  c16atm_i64atomicstore16offfffff8(&inst, a0, a1);
  OBL(g_spec_trap == SPEC_NOTRAP, "i64atomicstore16offfffff8: returned normally only if the specification does not trap");
  OBL(g_mr_calls == 1 && g_mr_id == MR_i64_atomic_store16 && g_mr_mem == inst.m0 && g_mr_addr == (U64)a0 + 4294967288ull && g_mr_v0 == (U64)a1, "i64atomicstore16offfffff8: exactly one call of i64_atomic_store16: address below, value on top");
  CANARY("i64atomicstore16offfffff8 returns");
}
void h_i64atomicstore32o0(void) {
  ND(U32, a0);
  ND(U64, a1);
  g_mr_calls = 0; g_libm_calls = 0;
  inst.m0 = &g_mem;
  g_spec_trap = SPEC_NOTRAP;
  c16atm_i64atomicstore32o0(&inst, a0, a1);
  OBL(g_spec_trap == SPEC_NOTRAP, "i64atomicstore32o0: returned normally only if the specification does not trap");
  OBL(g_mr_calls == 1 && g_mr_id == MR_i64_atomic_store32 && g_mr_mem == inst.m0 && g_mr_addr == (U64)a0 + 0ull && g_mr_v0 == (U64)a1, "i64atomicstore32o0: exactly one call of i64_atomic_store32: address below, value on top");
  CANARY("i64atomicstore32o0 returns");
}
void h_i64atomicstore32offfffff8(void) {
  ND(U32, a0);
  ND(U64, a1);
  g_mr_calls = 0; g_libm_calls = 0;
  inst.m0 = &g_mem;
  g_spec_trap = SPEC_NOTRAP;
  c16atm_i64atomicstore32offfffff8(&inst, a0, a1);
  OBL(g_spec_trap == SPEC_NOTRAP, "i64atomicstore32offfffff8: returned normally only if the specification does not trap");
  OBL(g_mr_calls == 1 && g_mr_id == MR_i64_atomic_store32 && g_mr_mem == inst.m0 && g_mr_addr == (U64)a0 + 4294967288ull && g_mr_v0 == (U64)a1, "i64atomicstore32offfffff8: exactly one call of i64_atomic_store32: address below, value on top");
  CANARY("i64atomicstore32offfffff8 returns");
}
void h_i32atomicrmwadd(void) {
  ND(U32, a0);
  ND(U32, a1);
  U32 r;
  g_mr_calls = 0; g_libm_calls = 0;
  inst.m0 = &g_mem;
  g_spec_trap = SPEC_NOTRAP;
  r = c16atm_i32atomicrmwadd(&inst, a0, a1);
  OBL(g_spec_trap == SPEC_NOTRAP, "i32atomicrmwadd: returned normally only if the specification does not trap");
  OBL(g_mr_calls == 1 && g_mr_id == MR_i32_atomic_rmw_add && g_mr_mem == inst.m0 && g_mr_addr == (U64)a0 + 8ull && g_mr_v0 == (U64)a1, "i32atomicrmwadd: exactly one call of i32_atomic_rmw_add(memory 0, base+offset, operand)");
  OBL((U64)r == g_mr_ret, "i32atomicrmwadd: the old value is delivered");
  CANARY("i32atomicrmwadd returns");
}
void h_i64atomicrmwadd(void) {
  ND(U32, a0);
  ND(U64, a1);
  U64 r;
  g_mr_calls = 0; g_libm_calls = 0;
  inst.m0 = &g_mem;
  g_spec_trap = SPEC_NOTRAP;
  r = c16atm_i64atomicrmwadd(&inst, a0, a1);
  OBL(g_spec_trap == SPEC_NOTRAP, "i64atomicrmwadd: returned normally only if the specification does not trap");
  OBL(g_mr_calls == 1 && g_mr_id == MR_i64_atomic_rmw_add && g_mr_mem == inst.m0 && g_mr_addr == (U64)a0 + 8ull && g_mr_v0 == (U64)a1, "i64atomicrmwadd: exactly one call of i64_atomic_rmw_add(memory 0, base+offset, operand)");
  OBL((U64)r == g_mr_ret, "i64atomicrmwadd: the old value is delivered");
  CANARY("i64atomicrmwadd returns");
}
void h_i32atomicrmw8addu(void) {
  ND(U32, a0);
  ND(U32, a1);
  U32 r;
  g_mr_calls = 0; g_libm_calls = 0;
  inst.m0 = &g_mem;
  g_spec_trap = SPEC_NOTRAP;
  r = c16atm_i32atomicrmw8addu(&inst, a0, a1);
  OBL(g_spec_trap == SPEC_NOTRAP, "i32atomicrmw8addu: returned normally only if the specification does not trap");
  OBL(g_mr_calls == 1 && g_mr_id == MR_i32_atomic_rmw8_add_u && g_mr_mem == inst.m0 && g_mr_addr == (U64)a0 + 8ull && g_mr_v0 == (U64)a1, "i32atomicrmw8addu: exactly one call of i32_atomic_rmw8_add_u(memory 0, base+offset, operand)");
  OBL((U64)r == g_mr_ret, "i32atomicrmw8addu: the old value is delivered");
  CANARY("i32atomicrmw8addu returns");
}
void h_i32atomicrmw16addu(void) {
  ND(U32, a0);
  ND(U32, a1);
  U32 r;
  g_mr_calls = 0; g_libm_calls = 0;
  inst.m0 = &g_mem;
  g_spec_trap = SPEC_NOTRAP;
  r = c16atm_i32atomicrmw16addu(&inst, a0, a1);
  OBL(g_spec_trap == SPEC_NOTRAP, "i32atomicrmw16addu: returned normally only if the specification does not trap");
  OBL(g_mr_calls == 1 && g_mr_id == MR_i32_atomic_rmw16_add_u && g_mr_mem == inst.m0 && g_mr_addr == (U64)a0 + 8ull && g_mr_v0 == (U64)a1, "i32atomicrmw16addu: exactly one call of i32_atomic_rmw16_add_u(memory 0, base+offset, operand)");
  OBL((U64)r == g_mr_ret, "i32atomicrmw16addu: the old value is delivered");
  CANARY("i32atomicrmw16addu returns");
}
void h_i64atomicrmw8addu(void) {
  ND(U32, a0);
  ND(U64, a1);
  U64 r;
  g_mr_calls = 0; g_libm_calls = 0;
  inst.m0 = &g_mem;
  g_spec_trap = SPEC_NOTRAP;
  r = c16atm_i64atomicrmw8addu(&inst, a0, a1);
  OBL(g_spec_trap == SPEC_NOTRAP, "i64atomicrmw8addu: returned normally only if the specification does not trap");
  OBL(g_mr_calls == 1 && g_mr_id == MR_i64_atomic_rmw8_add_u && g_mr_mem == inst.m0 && g_mr_addr == (U64)a0 + 8ull && g_mr_v0 == (U64)a1, "i64atomicrmw8addu: exactly one call of i64_atomic_rmw8_add_u(memory 0, base+offset, operand)");
  OBL((U64)r == g_mr_ret, "i64atomicrmw8addu: the old value is delivered");
  CANARY("i64atomicrmw8addu returns");
}
void h_i64atomicrmw16addu(void) {
  ND(U32, a0);
  ND(U64, a1);
  U64 r;
  g_mr_calls = 0; g_libm_calls = 0;
  inst.m0 = &g_mem;
  g_spec_trap = SPEC_NOTRAP;
  r = c16atm_i64atomicrmw16addu(&inst, a0, a1);
  OBL(g_spec_trap == SPEC_NOTRAP, "i64atomicrmw16addu: returned normally only if the specification does not trap");
  OBL(g_mr_calls == 1 && g_mr_id == MR_i64_atomic_rmw16_add_u && g_mr_mem == inst.m0 && g_mr_addr == (U64)a0 + 8ull && g_mr_v0 == (U64)a1, "i64atomicrmw16addu: exactly one call of i64_atomic_rmw16_add_u(memory 0, base+offset, operand)");
  OBL((U64)r == g_mr_ret, "i64atomicrmw16addu: the old value is delivered");
  CANARY("i64atomicrmw16addu returns");
}
void h_i64atomicrmw32addu(void) {
  ND(U32, a0);
  ND(U64, a1);
  U64 r;
  g_mr_calls = 0; g_libm_calls = 0;
  inst.m0 = &g_mem;
  g_spec_trap = SPEC_NOTRAP;
  r = c16atm_i64atomicrmw32addu(&inst, a0, a1);
  OBL(g_spec_trap == SPEC_NOTRAP, "i64atomicrmw32addu: returned normally only if the specification does not trap");
  OBL(g_mr_calls == 1 && g_mr_id == MR_i64_atomic_rmw32_add_u && g_mr_mem == inst.m0 && g_mr_addr == (U64)a0 + 8ull && g_mr_v0 == (U64)a1, "i64atomicrmw32addu: exactly one call of i64_atomic_rmw32_add_u(memory 0, base+offset, operand)");
  OBL((U64)r == g_mr_ret, "i64atomicrmw32addu: the old value is delivered");
  CANARY("i64atomicrmw32addu returns");
}
void h_i32atomicrmwsub(void) {
  ND(U32, a0);
  ND(U32, a1);
  U32 r;
  g_mr_calls = 0; g_libm_calls = 0;
  inst.m0 = &g_mem;
  g_spec_trap = SPEC_NOTRAP;
  r = c16atm_i32atomicrmwsub(&inst, a0, a1);
  OBL(g_spec_trap == SPEC_NOTRAP, "i32atomicrmwsub: returned normally only if the specification does not trap");
  OBL(g_mr_calls == 1 && g_mr_id == MR_i32_atomic_rmw_sub && g_mr_mem == inst.m0 && g_mr_addr == (U64)a0 + 8ull && g_mr_v0 == (U64)a1, "i32atomicrmwsub: exactly one call of i32_atomic_rmw_sub(memory 0, base+offset, operand)");
  OBL((U64)r == g_mr_ret, "i32atomicrmwsub: the old value is delivered");
  CANARY("i32atomicrmwsub returns");
}
void h_i64atomicrmwsub(void) {
  ND(U32, a0);
  ND(U64, a1);
  U64 r;
  g_mr_calls = 0; g_libm_calls = 0;
  inst.m0 = &g_mem;
  g_spec_trap = SPEC_NOTRAP;
  r = c16atm_i64atomicrmwsub(&inst, a0, a1);
  OBL(g_spec_trap == SPEC_NOTRAP, "i64atomicrmwsub: returned normally only if the specification does not trap");
  OBL(g_mr_calls == 1 && g_mr_id == MR_i64_atomic_rmw_sub && g_mr_mem == inst.m0 && g_mr_addr == (U64)a0 + 8ull && g_mr_v0 == (U64)a1, "i64atomicrmwsub: exactly one call of i64_atomic_rmw_sub(memory 0, base+offset, operand)");
  OBL((U64)r == g_mr_ret, "i64atomicrmwsub: the old value is delivered");
  CANARY("i64atomicrmwsub returns");
}
void h_i32atomicrmw8subu(void) {
  ND(U32, a0);
  ND(U32, a1);
  U32 r;
  g_mr_calls = 0; g_libm_calls = 0;
  inst.m0 = &g_mem;
  g_spec_trap = SPEC_NOTRAP;
  r = c16atm_i32atomicrmw8subu(&inst, a0, a1);
  OBL(g_spec_trap == SPEC_NOTRAP, "i32atomicrmw8subu: returned normally only if the specification does not trap");
  OBL(g_mr_calls == 1 && g_mr_id == MR_i32_atomic_rmw8_sub_u && g_mr_mem == inst.m0 && g_mr_addr == (U64)a0 + 8ull && g_mr_v0 == (U64)a1, "i32atomicrmw8subu: exactly one call of i32_atomic_rmw8_sub_u(memory 0, base+offset, operand)");
  OBL((U64)r == g_mr_ret, "i32atomicrmw8subu: the old value is delivered");
  CANARY("i32atomicrmw8subu returns");
}
void h_i32atomicrmw16subu(void) {
  ND(U32, a0);
  ND(U32, a1);
  U32 r;
  g_mr_calls = 0; g_libm_calls = 0;
  inst.m0 = &g_mem;
  g_spec_trap = SPEC_NOTRAP;
  r = c16atm_i32atomicrmw16subu(&inst, a0, a1);
  OBL(g_spec_trap == SPEC_NOTRAP, "i32atomicrmw16subu: returned normally only if the specification does not trap");
  OBL(g_mr_calls == 1 && g_mr_id == MR_i32_atomic_rmw16_sub_u && g_mr_mem == inst.m0 && g_mr_addr == (U64)a0 + 8ull && g_mr_v0 == (U64)a1, "i32atomicrmw16subu: exactly one call of i32_atomic_rmw16_sub_u(memory 0, base+offset, operand)");
  OBL((U64)r == g_mr_ret, "i32atomicrmw16subu: the old value is delivered");
  CANARY("i32atomicrmw16subu returns");
}
void h_i64atomicrmw8subu(void) {
  ND(U32, a0);
  ND(U64, a1);
  U64 r;
  g_mr_calls = 0; g_libm_calls = 0;
  inst.m0 = &g_mem;
  g_spec_trap = SPEC_NOTRAP;
  r = c16atm_i64atomicrmw8subu(&inst, a0, a1);
  OBL(g_spec_trap == SPEC_NOTRAP, "i64atomicrmw8subu: returned normally only if the specification does not trap");
  OBL(g_mr_calls == 1 && g_mr_id == MR_i64_atomic_rmw8_sub_u && g_mr_mem == inst.m0 && g_mr_addr == (U64)a0 + 8ull && g_mr_v0 == (U64)a1, "i64atomicrmw8subu: exactly one call of i64_atomic_rmw8_sub_u(memory 0, base+offset, operand)");
  OBL((U64)r == g_mr_ret, "i64atomicrmw8subu: the old value is delivered");
  CANARY("i64atomicrmw8subu returns");
}
void h_i64atomicrmw16subu(void) {
  ND(U32, a0);
  ND(U64, a1);
  U64 r;
  g_mr_calls = 0; g_libm_calls = 0;
  inst.m0 = &g_mem;
  g_spec_trap = SPEC_NOTRAP;
  r = c16atm_i64atomicrmw16subu(&inst, a0, a1);
  OBL(g_spec_trap == SPEC_NOTRAP, "i64atomicrmw16subu: returned normally only if the specification does not trap");
  OBL(g_mr_calls == 1 && g_mr_id == MR_i64_atomic_rmw16_sub_u && g_mr_mem == inst.m0 && g_mr_addr == (U64)a0 + 8ull && g_mr_v0 == (U64)a1, "i64atomicrmw16subu: exactly one call of i64_atomic_rmw16_sub_u(memory 0, base+offset, operand)");
  OBL((U64)r == g_mr_ret, "i64atomicrmw16subu: the old value is delivered");
  CANARY("i64atomicrmw16subu returns");
}
void h_i64atomicrmw32subu(void) {
  ND(U32, a0);
  ND(U64, a1);
  U64 r;
  g_mr_calls = 0; g_libm_calls = 0;
  inst.m0 = &g_mem;
  g_spec_trap = SPEC_NOTRAP;
  r = c16atm_i64atomicrmw32subu(&inst, a0, a1);
  OBL(g_spec_trap == SPEC_NOTRAP, "i64atomicrmw32subu: returned normally only if the specification does not trap");
  OBL(g_mr_calls == 1 && g_mr_id == MR_i64_atomic_rmw32_sub_u && g_mr_mem == inst.m0 && g_mr_addr == (U64)a0 + 8ull && g_mr_v0 == (U64)a1, "i64atomicrmw32subu: exactly one call of i64_atomic_rmw32_sub_u(memory 0, base+offset, operand)");
  OBL((U64)r == g_mr_ret, "i64atomicrmw32subu: the old value is delivered");
  CANARY("i64atomicrmw32subu returns");
}
void h_i32atomicrmwand(void) {
  ND(U32, a0);
  ND(U32, a1);
  U32 r;
  g_mr_calls = 0; g_libm_calls = 0;
  inst.m0 = &g_mem;
  g_spec_trap = SPEC_NOTRAP;
  r = c16atm_i32atomicrmwand(&inst, a0, a1);
  OBL(g_spec_trap == SPEC_NOTRAP, "i32atomicrmwand: returned normally only if the specification does not trap");
  OBL(g_mr_calls == 1 && g_mr_id == MR_i32_atomic_rmw_and && g_mr_mem == inst.m0 && g_mr_addr == (U64)a0 + 8ull && g_mr_v0 == (U64)a1, "i32atomicrmwand: exactly one call of i32_atomic_rmw_and(memory 0, base+offset, operand)");
  OBL((U64)r == g_mr_ret, "i32atomicrmwand: the old value is delivered");
  CANARY("i32atomicrmwand returns");
}
void h_i64atomicrmwand(void) {
  ND(U32, a0);
  ND(U64, a1);
  U64 r;
  g_mr_calls = 0; g_libm_calls = 0;
  inst.m0 = &g_mem;
  g_spec_trap = SPEC_NOTRAP;
  r = c16atm_i64atomicrmwand(&inst, a0, a1);
  OBL(g_spec_trap == SPEC_NOTRAP, "i64atomicrmwand: returned normally only if the specification does not trap");
  OBL(g_mr_calls == 1 && g_mr_id == MR_i64_atomic_rmw_and && g_mr_mem == inst.m0 && g_mr_addr == (U64)a0 + 8ull && g_mr_v0 == (U64)a1, "i64atomicrmwand: exactly one call of i64_atomic_rmw_and(memory 0, base+offset, operand)");
  OBL((U64)r == g_mr_ret, "i64atomicrmwand: the old value is delivered");
  CANARY("i64atomicrmwand returns");
}
void h_i32atomicrmw8andu(void) {
  ND(U32, a0);
  ND(U32, a1);
  U32 r;
  g_mr_calls = 0; g_libm_calls = 0;
  inst.m0 = &g_mem;
  g_spec_trap = SPEC_NOTRAP;
  r = c16atm_i32atomicrmw8andu(&inst, a0, a1);
  OBL(g_spec_trap == SPEC_NOTRAP, "i32atomicrmw8andu: returned normally only if the specification does not trap");
  OBL(g_mr_calls == 1 && g_mr_id == MR_i32_atomic_rmw8_and_u && g_mr_mem == inst.m0 && g_mr_addr == (U64)a0 + 8ull && g_mr_v0 == (U64)a1, "i32atomicrmw8andu: exactly one call of i32_atomic_rmw8_and_u(memory 0, base+offset, operand)");
  OBL((U64)r == g_mr_ret, "i32atomicrmw8andu: the old value is delivered");
  CANARY("i32atomicrmw8andu returns");
}
void h_i32atomicrmw16andu(void) {
  ND(U32, a0);
  ND(U32, a1);
  U32 r;
  g_mr_calls = 0; g_libm_calls = 0;
  inst.m0 = &g_mem;
  g_spec_trap = SPEC_NOTRAP;
  r = c16atm_i32atomicrmw16andu(&inst, a0, a1);
  OBL(g_spec_trap == SPEC_NOTRAP, "i32atomicrmw16andu: returned normally only if the specification does not trap");
  OBL(g_mr_calls == 1 && g_mr_id == MR_i32_atomic_rmw16_and_u && g_mr_mem == inst.m0 && g_mr_addr == (U64)a0 + 8ull && g_mr_v0 == (U64)a1, "i32atomicrmw16andu: exactly one call of i32_atomic_rmw16_and_u(memory 0, base+offset, operand)");
  OBL((U64)r == g_mr_ret, "i32atomicrmw16andu: the old value is delivered");
  CANARY("i32atomicrmw16andu returns");
}
void h_i64atomicrmw8andu(void) {
  ND(U32, a0);
  ND(U64, a1);
  U64 r;
  g_mr_calls = 0; g_libm_calls = 0;
  inst.m0 = &g_mem;
  g_spec_trap = SPEC_NOTRAP;
  r = c16atm_i64atomicrmw8andu(&inst, a0, a1);
  OBL(g_spec_trap == SPEC_NOTRAP, "i64atomicrmw8andu: returned normally only if the specification does not trap");
  OBL(g_mr_calls == 1 && g_mr_id == MR_i64_atomic_rmw8_and_u && g_mr_mem == inst.m0 && g_mr_addr == (U64)a0 + 8ull && g_mr_v0 == (U64)a1, "i64atomicrmw8andu: exactly one call of i64_atomic_rmw8_and_u(memory 0, base+offset, operand)");
  OBL((U64)r == g_mr_ret, "i64atomicrmw8andu: the old value is delivered");
  CANARY("i64atomicrmw8andu returns");
}
void h_i64atomicrmw16andu(void) {
  ND(U32, a0);
  ND(U64, a1);
  U64 r;
  g_mr_calls = 0; g_libm_calls = 0;
  inst.m0 = &g_mem;
  g_spec_trap = SPEC_NOTRAP;
  r = c16atm_i64atomicrmw16andu(&inst, a0, a1);
  OBL(g_spec_trap == SPEC_NOTRAP, "i64atomicrmw16andu: returned normally only if the specification does not trap");
  OBL(g_mr_calls == 1 && g_mr_id == MR_i64_atomic_rmw16_and_u && g_mr_mem == inst.m0 && g_mr_addr == (U64)a0 + 8ull && g_mr_v0 == (U64)a1, "i64atomicrmw16andu: exactly one call of i64_atomic_rmw16_and_u(memory 0, base+offset, operand)");
  OBL((U64)r == g_mr_ret, "i64atomicrmw16andu: the old value is delivered");
  CANARY("i64atomicrmw16andu returns");
}
void h_i64atomicrmw32andu(void) {
  ND(U32, a0);
  ND(U64, a1);
  U64 r;
  g_mr_calls = 0; g_libm_calls = 0;
  inst.m0 = &g_mem;
  g_spec_trap = SPEC_NOTRAP;
  r = c16atm_i64atomicrmw32andu(&inst, a0, a1);
  OBL(g_spec_trap == SPEC_NOTRAP, "i64atomicrmw32andu: returned normally only if the specification does not trap");
  OBL(g_mr_calls == 1 && g_mr_id == MR_i64_atomic_rmw32_and_u && g_mr_mem == inst.m0 && g_mr_addr == (U64)a0 + 8ull && g_mr_v0 == (U64)a1, "i64atomicrmw32andu: exactly one call of i64_atomic_rmw32_and_u(memory 0, base+offset, operand)");
  OBL((U64)r == g_mr_ret, "i64atomicrmw32andu: the old value is delivered");
  CANARY("i64atomicrmw32andu returns");
}
void h_i32atomicrmwor(void) {
  ND(U32, a0);
  ND(U32, a1);
  U32 r;
  g_mr_calls = 0; g_libm_calls = 0;
  inst.m0 = &g_mem;
  g_spec_trap = SPEC_NOTRAP;
  r = c16atm_i32atomicrmwor(&inst, a0, a1);
  OBL(g_spec_trap == SPEC_NOTRAP, "i32atomicrmwor: returned normally only if the specification does not trap");
  OBL(g_mr_calls == 1 && g_mr_id == MR_i32_atomic_rmw_or && g_mr_mem == inst.m0 && g_mr_addr == (U64)a0 + 8ull && g_mr_v0 == (U64)a1, "i32atomicrmwor: exactly one call of i32_atomic_rmw_or(memory 0, base+offset, operand)");
  OBL((U64)r == g_mr_ret, "i32atomicrmwor: the old value is delivered");
  CANARY("i32atomicrmwor returns");
}
void h_i64atomicrmwor(void) {
  ND(U32, a0);
  ND(U64, a1);
  U64 r;
  g_mr_calls = 0; g_libm_calls = 0;
  inst.m0 = &g_mem;
  g_spec_trap = SPEC_NOTRAP;
  r = c16atm_i64atomicrmwor(&inst, a0, a1);
  OBL(g_spec_trap == SPEC_NOTRAP, "i64atomicrmwor: returned normally only if the specification does not trap");
  OBL(g_mr_calls == 1 && g_mr_id == MR_i64_atomic_rmw_or && g_mr_mem == inst.m0 && g_mr_addr == (U64)a0 + 8ull && g_mr_v0 == (U64)a1, "i64atomicrmwor: exactly one call of i64_atomic_rmw_or(memory 0, base+offset, operand)");
  OBL((U64)r == g_mr_ret, "i64atomicrmwor: the old value is delivered");
  CANARY("i64atomicrmwor returns");
}
void h_i32atomicrmw8oru(void) {
  ND(U32, a0);
  ND(U32, a1);
  U32 r;
  g_mr_calls = 0; g_libm_calls = 0;
  inst.m0 = &g_mem;
  g_spec_trap = SPEC_NOTRAP;
  r = c16atm_i32atomicrmw8oru(&inst, a0, a1);
  OBL(g_spec_trap == SPEC_NOTRAP, "i32atomicrmw8oru: returned normally only if the specification does not trap");
  OBL(g_mr_calls == 1 && g_mr_id == MR_i32_atomic_rmw8_or_u && g_mr_mem == inst.m0 && g_mr_addr == (U64)a0 + 8ull && g_mr_v0 == (U64)a1, "i32atomicrmw8oru: exactly one call of i32_atomic_rmw8_or_u(memory 0, base+offset, operand)");
  OBL((U64)r == g_mr_ret, "i32atomicrmw8oru: the old value is delivered");
  CANARY("i32atomicrmw8oru returns");
}
void h_i32atomicrmw16oru(void) {
  ND(U32, a0);
  ND(U32, a1);
  U32 r;
  g_mr_calls = 0; g_libm_calls = 0;
  inst.m0 = &g_mem;
  g_spec_trap = SPEC_NOTRAP;
  r = c16atm_i32atomicrmw16oru(&inst, a0, a1);
  OBL(g_spec_trap == SPEC_NOTRAP, "i32atomicrmw16oru: returned normally only if the specification does not trap");
  OBL(g_mr_calls == 1 && g_mr_id == MR_i32_atomic_rmw16_or_u && g_mr_mem == inst.m0 && g_mr_addr == (U64)a0 + 8ull && g_mr_v0 == (U64)a1, "i32atomicrmw16oru: exactly one call of i32_atomic_rmw16_or_u(memory 0, base+offset, operand)");
  OBL((U64)r == g_mr_ret, "i32atomicrmw16oru: the old value is delivered");
  CANARY("i32atomicrmw16oru returns");
}
void h_i64atomicrmw8oru(void) {
  ND(U32, a0);
  ND(U64, a1);
  U64 r;
  g_mr_calls = 0; g_libm_calls = 0;
  inst.m0 = &g_mem;
  g_spec_trap = SPEC_NOTRAP;
  r = c16atm_i64atomicrmw8oru(&inst, a0, a1);
  OBL(g_spec_trap == SPEC_NOTRAP, "i64atomicrmw8oru: returned normally only if the specification does not trap");
  OBL(g_mr_calls == 1 && g_mr_id == MR_i64_atomic_rmw8_or_u && g_mr_mem == inst.m0 && g_mr_addr == (U64)a0 + 8ull && g_mr_v0 == (U64)a1, "i64atomicrmw8oru: exactly one call of i64_atomic_rmw8_or_u(memory 0, base+offset, operand)");
  OBL((U64)r == g_mr_ret, "i64atomicrmw8oru: the old value is delivered");
  CANARY("i64atomicrmw8oru returns");
}
void h_i64atomicrmw16oru(void) {
  ND(U32, a0);
  ND(U64, a1);
  U64 r;
  g_mr_calls = 0; g_libm_calls = 0;
  inst.m0 = &g_mem;
  g_spec_trap = SPEC_NOTRAP;
  r = c16atm_i64atomicrmw16oru(&inst, a0, a1);
  OBL(g_spec_trap == SPEC_NOTRAP, "i64atomicrmw16oru: returned normally only if the specification does not trap");
  OBL(g_mr_calls == 1 && g_mr_id == MR_i64_atomic_rmw16_or_u && g_mr_mem == inst.m0 && g_mr_addr == (U64)a0 + 8ull && g_mr_v0 == (U64)a1, "i64atomicrmw16oru: exactly one call of i64_atomic_rmw16_or_u(memory 0, base+offset, operand)");
  OBL((U64)r == g_mr_ret, "i64atomicrmw16oru: the old value is delivered");
  CANARY("i64atomicrmw16oru returns");
}
void h_i64atomicrmw32oru(void) {
  ND(U32, a0);
  ND(U64, a1);
  U64 r;
  g_mr_calls = 0; g_libm_calls = 0;
  inst.m0 = &g_mem;
  g_spec_trap = SPEC_NOTRAP;
  r = c16atm_i64atomicrmw32oru(&inst, a0, a1);
  OBL(g_spec_trap == SPEC_NOTRAP, "i64atomicrmw32oru: returned normally only if the specification does not trap");
  OBL(g_mr_calls == 1 && g_mr_id == MR_i64_atomic_rmw32_or_u && g_mr_mem == inst.m0 && g_mr_addr == (U64)a0 + 8ull && g_mr_v0 == (U64)a1, "i64atomicrmw32oru: exactly one call of i64_atomic_rmw32_or_u(memory 0, base+offset, operand)");
  OBL((U64)r == g_mr_ret, "i64atomicrmw32oru: the old value is delivered");
  CANARY("i64atomicrmw32oru returns");
}
void h_i32atomicrmwxor(void) {
  ND(U32, a0);
  ND(U32, a1);
  U32 r;
  g_mr_calls = 0; g_libm_calls = 0;
  inst.m0 = &g_mem;
  g_spec_trap = SPEC_NOTRAP;
  r = c16atm_i32atomicrmwxor(&inst, a0, a1);
  OBL(g_spec_trap == SPEC_NOTRAP, "i32atomicrmwxor: returned normally only if the specification does not trap");
  OBL(g_mr_calls == 1 && g_mr_id == MR_i32_atomic_rmw_xor && g_mr_mem == inst.m0 && g_mr_addr == (U64)a0 + 8ull && g_mr_v0 == (U64)a1, "i32atomicrmwxor: exactly one call of i32_atomic_rmw_xor(memory 0, base+offset, operand)");
  OBL((U64)r == g_mr_ret, "i32atomicrmwxor: the old value is delivered");
  CANARY("i32atomicrmwxor returns");
}
void h_i64atomicrmwxor(void) {
  ND(U32, a0);
  ND(U64, a1);
  U64 r;
  g_mr_calls = 0; g_libm_calls = 0;
  inst.m0 = &g_mem;
  g_spec_trap = SPEC_NOTRAP;
  r = c16atm_i64atomicrmwxor(&inst, a0, a1);
  OBL(g_spec_trap == SPEC_NOTRAP, "i64atomicrmwxor: returned normally only if the specification does not trap");
  OBL(g_mr_calls == 1 && g_mr_id == MR_i64_atomic_rmw_xor && g_mr_mem == inst.m0 && g_mr_addr == (U64)a0 + 8ull && g_mr_v0 == (U64)a1, "i64atomicrmwxor: exactly one call of i64_atomic_rmw_xor(memory 0, base+offset, operand)");
  OBL((U64)r == g_mr_ret, "i64atomicrmwxor: the old value is delivered");
  CANARY("i64atomicrmwxor returns");
}
void h_i32atomicrmw8xoru(void) {
  ND(U32, a0);
  ND(U32, a1);
  U32 r;
  g_mr_calls = 0; g_libm_calls = 0;
  inst.m0 = &g_mem;
  g_spec_trap = SPEC_NOTRAP;
  r = c16atm_i32atomicrmw8xoru(&inst, a0, a1);
  OBL(g_spec_trap == SPEC_NOTRAP, "i32atomicrmw8xoru: returned normally only if the specification does not trap");
  OBL(g_mr_calls == 1 && g_mr_id == MR_i32_atomic_rmw8_xor_u && g_mr_mem == inst.m0 && g_mr_addr == (U64)a0 + 8ull && g_mr_v0 == (U64)a1, "i32atomicrmw8xoru: exactly one call of i32_atomic_rmw8_xor_u(memory 0, base+offset, operand)");
  OBL((U64)r == g_mr_ret, "i32atomicrmw8xoru: the old value is delivered");
  CANARY("i32atomicrmw8xoru returns");
}
void h_i32atomicrmw16xoru(void) {
  ND(U32, a0);
  ND(U32, a1);
  U32 r;
  g_mr_calls = 0; g_libm_calls = 0;
  inst.m0 = &g_mem;
  g_spec_trap = SPEC_NOTRAP;
  r = c16atm_i32atomicrmw16xoru(&inst, a0, a1);
  OBL(g_spec_trap == SPEC_NOTRAP, "i32atomicrmw16xoru: returned normally only if the specification does not trap");
  OBL(g_mr_calls == 1 && g_mr_id == MR_i32_atomic_rmw16_xor_u && g_mr_mem == inst.m0 && g_mr_addr == (U64)a0 + 8ull && g_mr_v0 == (U64)a1, "i32atomicrmw16xoru: exactly one call of i32_atomic_rmw16_xor_u(memory 0, base+offset, operand)");
  OBL((U64)r == g_mr_ret, "i32atomicrmw16xoru: the old value is delivered");
  CANARY("i32atomicrmw16xoru returns");
}
void h_i64atomicrmw8xoru(void) {
  ND(U32, a0);
  ND(U64, a1);
  U64 r;
  g_mr_calls = 0; g_libm_calls = 0;
  inst.m0 = &g_mem;
  g_spec_trap = SPEC_NOTRAP;
  r = c16atm_i64atomicrmw8xoru(&inst, a0, a1);
  OBL(g_spec_trap == SPEC_NOTRAP, "i64atomicrmw8xoru: returned normally only if the specification does not trap");
  OBL(g_mr_calls == 1 && g_mr_id == MR_i64_atomic_rmw8_xor_u && g_mr_mem == inst.m0 && g_mr_addr == (U64)a0 + 8ull && g_mr_v0 == (U64)a1, "i64atomicrmw8xoru: exactly one call of i64_atomic_rmw8_xor_u(memory 0, base+offset, operand)");
  OBL((U64)r == g_mr_ret, "i64atomicrmw8xoru: the old value is delivered");
  CANARY("i64atomicrmw8xoru returns");
}
void h_i64atomicrmw16xoru(void) {
  ND(U32, a0);
  ND(U64, a1);
  U64 r;
  g_mr_calls = 0; g_libm_calls = 0;
  inst.m0 = &g_mem;
  g_spec_trap = SPEC_NOTRAP;
  r = c16atm_i64atomicrmw16xoru(&inst, a0, a1);
  OBL(g_spec_trap == SPEC_NOTRAP, "i64atomicrmw16xoru: returned normally only if the specification does not trap");
  OBL(g_mr_calls == 1 && g_mr_id == MR_i64_atomic_rmw16_xor_u && g_mr_mem == inst.m0 && g_mr_addr == (U64)a0 + 8ull && g_mr_v0 == (U64)a1, "i64atomicrmw16xoru: exactly one call of i64_atomic_rmw16_xor_u(memory 0, base+offset, operand)");
  OBL((U64)r == g_mr_ret, "i64atomicrmw16xoru: the old value is delivered");
  CANARY("i64atomicrmw16xoru returns");
}
void h_i64atomicrmw32xoru(void) {
  ND(U32, a0);
  ND(U64, a1);
  U64 r;
  g_mr_calls = 0; g_libm_calls = 0;
  inst.m0 = &g_mem;
  g_spec_trap = SPEC_NOTRAP;
  r = c16atm_i64atomicrmw32xoru(&inst, a0, a1);
  OBL(g_spec_trap == SPEC_NOTRAP, "i64atomicrmw32xoru: returned normally only if the specification does not trap");
  OBL(g_mr_calls == 1 && g_mr_id == MR_i64_atomic_rmw32_xor_u && g_mr_mem == inst.m0 && g_mr_addr == (U64)a0 + 8ull && g_mr_v0 == (U64)a1, "i64atomicrmw32xoru: exactly one call of i64_atomic_rmw32_xor_u(memory 0, base+offset, operand)");
  OBL((U64)r == g_mr_ret, "i64atomicrmw32xoru: the old value is delivered");
  CANARY("i64atomicrmw32xoru returns");
}
void h_i32atomicrmwxchg(void) {
  ND(U32, a0);
  ND(U32, a1);
  U32 r;
  g_mr_calls = 0; g_libm_calls = 0;
  inst.m0 = &g_mem;
  g_spec_trap = SPEC_NOTRAP;
  r = c16atm_i32atomicrmwxchg(&inst, a0, a1);
  OBL(g_spec_trap == SPEC_NOTRAP, "i32atomicrmwxchg: returned normally only if the specification does not trap");
  OBL(g_mr_calls == 1 && g_mr_id == MR_i32_atomic_rmw_xchg && g_mr_mem == inst.m0 && g_mr_addr == (U64)a0 + 8ull && g_mr_v0 == (U64)a1, "i32atomicrmwxchg: exactly one call of i32_atomic_rmw_xchg(memory 0, base+offset, operand)");
  OBL((U64)r == g_mr_ret, "i32atomicrmwxchg: the old value is delivered");
  CANARY("i32atomicrmwxchg returns");
}
void h_i64atomicrmwxchg(void) {
  ND(U32, a0);
  ND(U64, a1);
  U64 r;
  g_mr_calls = 0; g_libm_calls = 0;
  inst.m0 = &g_mem;
  g_spec_trap = SPEC_NOTRAP;
  r = c16atm_i64atomicrmwxchg(&inst, a0, a1);
  OBL(g_spec_trap == SPEC_NOTRAP, "i64atomicrmwxchg: returned normally only if the specification does not trap");
  OBL(g_mr_calls == 1 && g_mr_id == MR_i64_atomic_rmw_xchg && g_mr_mem == inst.m0 && g_mr_addr == (U64)a0 + 8ull && g_mr_v0 == (U64)a1, "i64atomicrmwxchg: exactly one call of i64_atomic_rmw_xchg(memory 0, base+offset, operand)");
  OBL((U64)r == g_mr_ret, "i64atomicrmwxchg: the old value is delivered");
  CANARY("i64atomicrmwxchg returns");
}
void h_i32atomicrmw8xchgu(void) {
  ND(U32, a0);
  ND(U32, a1);
  U32 r;
  g_mr_calls = 0; g_libm_calls = 0;
  inst.m0 = &g_mem;
  g_spec_trap = SPEC_NOTRAP;
  r = c16atm_i32atomicrmw8xchgu(&inst, a0, a1);
  OBL(g_spec_trap == SPEC_NOTRAP, "i32atomicrmw8xchgu: returned normally only if the specification does not trap");
  OBL(g_mr_calls == 1 && g_mr_id == MR_i32_atomic_rmw8_xchg_u && g_mr_mem == inst.m0 && g_mr_addr == (U64)a0 + 8ull && g_mr_v0 == (U64)a1, "i32atomicrmw8xchgu: exactly one call of i32_atomic_rmw8_xchg_u(memory 0, base+offset, operand)");
  OBL((U64)r == g_mr_ret, "i32atomicrmw8xchgu: the old value is delivered");
  CANARY("i32atomicrmw8xchgu returns");
}
void h_i32atomicrmw16xchgu(void) {
  ND(U32, a0);
  ND(U32, a1);
  U32 r;
  g_mr_calls = 0; g_libm_calls = 0;
  inst.m0 = &g_mem;
  g_spec_trap = SPEC_NOTRAP;
  r = c16atm_i32atomicrmw16xchgu(&inst, a0, a1);
  OBL(g_spec_trap == SPEC_NOTRAP, "i32atomicrmw16xchgu: returned normally only if the specification does not trap");
  OBL(g_mr_calls == 1 && g_mr_id == MR_i32_atomic_rmw16_xchg_u && g_mr_mem == inst.m0 && g_mr_addr == (U64)a0 + 8ull && g_mr_v0 == (U64)a1, "i32atomicrmw16xchgu: exactly one call of i32_atomic_rmw16_xchg_u(memory 0, base+offset, operand)");
  OBL((U64)r == g_mr_ret, "i32atomicrmw16xchgu: the old value is delivered");
  CANARY("i32atomicrmw16xchgu returns");
}
void h_i64atomicrmw8xchgu(void) {
  ND(U32, a0);
  ND(U64, a1);
  U64 r;
  g_mr_calls = 0; g_libm_calls = 0;
  inst.m0 = &g_mem;
  g_spec_trap = SPEC_NOTRAP;
  r = c16atm_i64atomicrmw8xchgu(&inst, a0, a1);
  OBL(g_spec_trap == SPEC_NOTRAP, "i64atomicrmw8xchgu: returned normally only if the specification does not trap");
  OBL(g_mr_calls == 1 && g_mr_id == MR_i64_atomic_rmw8_xchg_u && g_mr_mem == inst.m0 && g_mr_addr == (U64)a0 + 8ull && g_mr_v0 == (U64)a1, "i64atomicrmw8xchgu: exactly one call of i64_atomic_rmw8_xchg_u(memory 0, base+offset, operand)");
  OBL((U64)r == g_mr_ret, "i64atomicrmw8xchgu: the old value is delivered");
  CANARY("i64atomicrmw8xchgu returns");
}
void h_i64atomicrmw16xchgu(void) {
  ND(U32, a0);
  ND(U64, a1);
  U64 r;
  g_mr_calls = 0; g_libm_calls = 0;
  inst.m0 = &g_mem;
  g_spec_trap = SPEC_NOTRAP;
  r = c16atm_i64atomicrmw16xchgu(&inst, a0, a1);
  OBL(g_spec_trap == SPEC_NOTRAP, "i64atomicrmw16xchgu: returned normally only if the specification does not trap");
  OBL(g_mr_calls == 1 && g_mr_id == MR_i64_atomic_rmw16_xchg_u && g_mr_mem == inst.m0 && g_mr_addr == (U64)a0 + 8ull && g_mr_v0 == (U64)a1, "i64atomicrmw16xchgu: exactly one call of i64_atomic_rmw16_xchg_u(memory 0, base+offset, operand)");
  OBL((U64)r == g_mr_ret, "i64atomicrmw16xchgu: the old value is delivered");
  CANARY("i64atomicrmw16xchgu returns");
}
void h_i64atomicrmw32xchgu(void) {
  ND(U32, a0);
  ND(U64, a1);
  U64 r;
  g_mr_calls = 0; g_libm_calls = 0;
  inst.m0 = &g_mem;
  g_spec_trap = SPEC_NOTRAP;
  r = c16atm_i64atomicrmw32xchgu(&inst, a0, a1);
  OBL(g_spec_trap == SPEC_NOTRAP, "i64atomicrmw32xchgu: returned normally only if the specification does not trap");
  OBL(g_mr_calls == 1 && g_mr_id == MR_i64_atomic_rmw32_xchg_u && g_mr_mem == inst.m0 && g_mr_addr == (U64)a0 + 8ull && g_mr_v0 == (U64)a1, "i64atomicrmw32xchgu: exactly one call of i64_atomic_rmw32_xchg_u(memory 0, base+offset, operand)");
  OBL((U64)r == g_mr_ret, "i64atomicrmw32xchgu: the old value is delivered");
  CANARY("i64atomicrmw32xchgu returns");
}
void h_i32atomicrmwcmpxchg(void) {
  ND(U32, a0);
  ND(U32, a1);
  ND(U32, a2);
  U32 r;
  g_mr_calls = 0; g_libm_calls = 0;
  inst.m0 = &g_mem;
  g_spec_trap = SPEC_NOTRAP;
  r = c16atm_i32atomicrmwcmpxchg(&inst, a0, a1, a2);
  OBL(g_spec_trap == SPEC_NOTRAP, "i32atomicrmwcmpxchg: returned normally only if the specification does not trap");
  OBL(g_mr_calls == 1 && g_mr_id == MR_i32_atomic_rmw_cmpxchg && g_mr_mem == inst.m0 && g_mr_addr == (U64)a0 + 8ull && g_mr_v0 == (U64)a1 && g_mr_v1 == (U64)a2, "i32atomicrmwcmpxchg: exactly one call of i32_atomic_rmw_cmpxchg(memory 0, base+offset, expected, replacement) in operand order");
  OBL((U64)r == g_mr_ret, "i32atomicrmwcmpxchg: the old value is delivered");
  CANARY("i32atomicrmwcmpxchg returns");
}
void h_i64atomicrmwcmpxchg(void) {
  ND(U32, a0);
  ND(U64, a1);
  ND(U64, a2);
  U64 r;
  g_mr_calls = 0; g_libm_calls = 0;
  inst.m0 = &g_mem;
  g_spec_trap = SPEC_NOTRAP;
  r = c16atm_i64atomicrmwcmpxchg(&inst, a0, a1, a2);
  OBL(g_spec_trap == SPEC_NOTRAP, "i64atomicrmwcmpxchg: returned normally only if the specification does not trap");
  OBL(g_mr_calls == 1 && g_mr_id == MR_i64_atomic_rmw_cmpxchg && g_mr_mem == inst.m0 && g_mr_addr == (U64)a0 + 8ull && g_mr_v0 == (U64)a1 && g_mr_v1 == (U64)a2, "i64atomicrmwcmpxchg: exactly one call of i64_atomic_rmw_cmpxchg(memory 0, base+offset, expected, replacement) in operand order");
  OBL((U64)r == g_mr_ret, "i64atomicrmwcmpxchg: the old value is delivered");
  CANARY("i64atomicrmwcmpxchg returns");
}
void h_i32atomicrmw8cmpxchgu(void) {
  ND(U32, a0);
  ND(U32, a1);
  ND(U32, a2);
  U32 r;
  g_mr_calls = 0; g_libm_calls = 0;
  inst.m0 = &g_mem;
  g_spec_trap = SPEC_NOTRAP;
  r = c16atm_i32atomicrmw8cmpxchgu(&inst, a0, a1, a2);
  OBL(g_spec_trap == SPEC_NOTRAP, "i32atomicrmw8cmpxchgu: returned normally only if the specification does not trap");
  OBL(g_mr_calls == 1 && g_mr_id == MR_i32_atomic_rmw8_cmpxchg_u && g_mr_mem == inst.m0 && g_mr_addr == (U64)a0 + 8ull && g_mr_v0 == (U64)a1 && g_mr_v1 == (U64)a2, "i32atomicrmw8cmpxchgu: exactly one call of i32_atomic_rmw8_cmpxchg_u(memory 0, base+offset, expected, replacement) in operand order");
  OBL((U64)r == g_mr_ret, "i32atomicrmw8cmpxchgu: the old value is delivered");
  CANARY("i32atomicrmw8cmpxchgu returns");
}
void h_i32atomicrmw16cmpxchgu(void) {
  ND(U32, a0);
  ND(U32, a1);
  ND(U32, a2);
  U32 r;
  g_mr_calls = 0; g_libm_calls = 0;
  inst.m0 = &g_mem;
  g_spec_trap = SPEC_NOTRAP;
  r = c16atm_i32atomicrmw16cmpxchgu(&inst, a0, a1, a2);
  OBL(g_spec_trap == SPEC_NOTRAP, "i32atomicrmw16cmpxchgu: returned normally only if the specification does not trap");
  OBL(g_mr_calls == 1 && g_mr_id == MR_i32_atomic_rmw16_cmpxchg_u && g_mr_mem == inst.m0 && g_mr_addr == (U64)a0 + 8ull && g_mr_v0 == (U64)a1 && g_mr_v1 == (U64)a2, "i32atomicrmw16cmpxchgu: exactly one call of i32_atomic_rmw16_cmpxchg_u(memory 0, base+offset, expected, replacement) in operand order");
  OBL((U64)r == g_mr_ret, "i32atomicrmw16cmpxchgu: the old value is delivered");
  CANARY("i32atomicrmw16cmpxchgu returns");
}
void h_i64atomicrmw8cmpxchgu(void) {
  ND(U32, a0);
  ND(U64, a1);
  ND(U64, a2);
  U64 r;
  g_mr_calls = 0; g_libm_calls = 0;
  inst.m0 = &g_mem;
  g_spec_trap = SPEC_NOTRAP;
  r = c16atm_i64atomicrmw8cmpxchgu(&inst, a0, a1, a2);
  OBL(g_spec_trap == SPEC_NOTRAP, "i64atomicrmw8cmpxchgu: returned normally only if the specification does not trap");
  OBL(g_mr_calls == 1 && g_mr_id == MR_i64_atomic_rmw8_cmpxchg_u && g_mr_mem == inst.m0 && g_mr_addr == (U64)a0 + 8ull && g_mr_v0 == (U64)a1 && g_mr_v1 == (U64)a2, "i64atomicrmw8cmpxchgu: exactly one call of i64_atomic_rmw8_cmpxchg_u(memory 0, base+offset, expected, replacement) in operand order");
  OBL((U64)r == g_mr_ret, "i64atomicrmw8cmpxchgu: the old value is delivered");
  CANARY("i64atomicrmw8cmpxchgu returns");
}
void h_i64atomicrmw16cmpxchgu(void) {
  ND(U32, a0);
  ND(U64, a1);
  ND(U64, a2);
  U64 r;
  g_mr_calls = 0; g_libm_calls = 0;
  inst.m0 = &g_mem;
  g_spec_trap = SPEC_NOTRAP;
  r = c16atm_i64atomicrmw16cmpxchgu(&inst, a0, a1, a2);
  OBL(g_spec_trap == SPEC_NOTRAP, "i64atomicrmw16cmpxchgu: returned normally only if the specification does not trap");
  OBL(g_mr_calls == 1 && g_mr_id == MR_i64_atomic_rmw16_cmpxchg_u && g_mr_mem == inst.m0 && g_mr_addr == (U64)a0 + 8ull && g_mr_v0 == (U64)a1 && g_mr_v1 == (U64)a2, "i64atomicrmw16cmpxchgu: exactly one call of i64_atomic_rmw16_cmpxchg_u(memory 0, base+offset, expected, replacement) in operand order");
  OBL((U64)r == g_mr_ret, "i64atomicrmw16cmpxchgu: the old value is delivered");
  CANARY("i64atomicrmw16cmpxchgu returns");
}
void h_i64atomicrmw32cmpxchgu(void) {
  ND(U32, a0);
  ND(U64, a1);
  ND(U64, a2);
  U64 r;
  g_mr_calls = 0; g_libm_calls = 0;
  inst.m0 = &g_mem;
  g_spec_trap = SPEC_NOTRAP;
  r = c16atm_i64atomicrmw32cmpxchgu(&inst, a0, a1, a2);
  OBL(g_spec_trap == SPEC_NOTRAP, "i64atomicrmw32cmpxchgu: returned normally only if the specification does not trap");
  OBL(g_mr_calls == 1 && g_mr_id == MR_i64_atomic_rmw32_cmpxchg_u && g_mr_mem == inst.m0 && g_mr_addr == (U64)a0 + 8ull && g_mr_v0 == (U64)a1 && g_mr_v1 == (U64)a2, "i64atomicrmw32cmpxchgu: exactly one call of i64_atomic_rmw32_cmpxchg_u(memory 0, base+offset, expected, replacement) in operand order");
  OBL((U64)r == g_mr_ret, "i64atomicrmw32cmpxchgu: the old value is delivered");
  CANARY("i64atomicrmw32cmpxchgu returns");
}
void h_atomicfence(void) {
  ND(U32, a0);
  U32 r;
  g_mr_calls = 0; g_libm_calls = 0;
  inst.m0 = &g_mem;
  g_spec_trap = SPEC_NOTRAP;
  r = c16atm_atomicfence(&inst, a0);
  OBL(g_spec_trap == SPEC_NOTRAP, "atomicfence: returned normally only if the specification does not trap");
  OBL(((r) == (a0)), "atomicfence: result equals the specified value");
  OBL(g_mr_calls == 0, "atomicfence: atomic.fence touches no memory and no operand");
  CANARY("atomicfence returns");
}
