#include "mutex_monitor.h"
#include "w2c2_base.h"
#include "vh.h"
#include "wasm_int.h"
#include "wasm_mem.h"
#include "trapstub.h"
#define MEMSZ 32
#ifndef VERIF_NATIVE
U32 c_i32_atomic_rmw8_add_u(wasmMemory* mem, U64 addr, U32 value) __CPROVER_requires(1) __CPROVER_ensures(1) __CPROVER_assigns(__CPROVER_object_upto(mem->data + addr, 1), g_mutex_held, g_mutex_locks, __CPROVER_object_whole(mem->data), __CPROVER_object_whole(g_mon_old));
#endif
void h_i32_atomic_rmw8_add_u(void) {
  ND_ARR(U8, data, MEMSZ);
  U8 old[MEMSZ];
  wasmMemory mem;
  ND(U64, addr);
  ND(U64, k);
  ND(U32, m_size); ND(U32, m_pages); ND(U32, m_max);
  mem.data = data; mem.size = m_size; mem.pages = m_pages; mem.maxPages = m_max; mem.shared = 0; mem.futex = 0; mem.futexFree = 0;
  ASSUME(k < MEMSZ);
  ASSUME(addr <= MEMSZ - 1);
  ASSUME(addr % 1 == 0);
  memcpy(old, data, MEMSZ);
  ND(U32, value);
  g_mutex_held = 0; g_mutex_locks = 0; mem.shared = 1; g_mon_data = data; g_mon_old = old; g_mon_len = MEMSZ;
  U32 r = i32_atomic_rmw8_add_u(&mem, addr, value);
  { U64 oldv = spec_le_read(old, addr, 1);
  OBL(r == (U32)oldv, "i32_atomic_rmw8_add_u: returns the zero-extended old value");
  OBL(data[k] == spec_after_store(k, addr, 1, spec_rmw(SPEC_RMW_ADD, oldv, spec_wrap((U64)value, 1), 1), old[k]), "i32_atomic_rmw8_add_u: memory holds the wrapped new value in little-endian order, every other byte unchanged"); }
  OBL(g_mutex_held == 0 && g_mutex_locks == 1, "i32_atomic_rmw8_add_u: the memory mutex is taken exactly once and released on return");
  OBL(mem.data == data && mem.size == m_size && mem.pages == m_pages && mem.maxPages == m_max, "i32_atomic_rmw8_add_u: the memory descriptor is unchanged");
  CANARY("i32_atomic_rmw8_add_u returns");
}
#ifndef VERIF_NATIVE
U32 c_i32_atomic_rmw16_add_u(wasmMemory* mem, U64 addr, U32 value) __CPROVER_requires(1) __CPROVER_ensures(1) __CPROVER_assigns(__CPROVER_object_upto(mem->data + addr, 2), g_mutex_held, g_mutex_locks, __CPROVER_object_whole(mem->data), __CPROVER_object_whole(g_mon_old));
#endif
void h_i32_atomic_rmw16_add_u(void) {
  ND_ARR(U8, data, MEMSZ);
  U8 old[MEMSZ];
  wasmMemory mem;
  ND(U64, addr);
  ND(U64, k);
  ND(U32, m_size); ND(U32, m_pages); ND(U32, m_max);
  mem.data = data; mem.size = m_size; mem.pages = m_pages; mem.maxPages = m_max; mem.shared = 0; mem.futex = 0; mem.futexFree = 0;
  ASSUME(k < MEMSZ);
  ASSUME(addr <= MEMSZ - 2);
  ASSUME(addr % 2 == 0);
  memcpy(old, data, MEMSZ);
  ND(U32, value);
  g_mutex_held = 0; g_mutex_locks = 0; mem.shared = 1; g_mon_data = data; g_mon_old = old; g_mon_len = MEMSZ;
  U32 r = i32_atomic_rmw16_add_u(&mem, addr, value);
  { U64 oldv = spec_le_read(old, addr, 2);
  OBL(r == (U32)oldv, "i32_atomic_rmw16_add_u: returns the zero-extended old value");
  OBL(data[k] == spec_after_store(k, addr, 2, spec_rmw(SPEC_RMW_ADD, oldv, spec_wrap((U64)value, 2), 2), old[k]), "i32_atomic_rmw16_add_u: memory holds the wrapped new value in little-endian order, every other byte unchanged"); }
  OBL(g_mutex_held == 0 && g_mutex_locks == 1, "i32_atomic_rmw16_add_u: the memory mutex is taken exactly once and released on return");
  OBL(mem.data == data && mem.size == m_size && mem.pages == m_pages && mem.maxPages == m_max, "i32_atomic_rmw16_add_u: the memory descriptor is unchanged");
  CANARY("i32_atomic_rmw16_add_u returns");
}
#ifndef VERIF_NATIVE
U32 c_i32_atomic_rmw_add(wasmMemory* mem, U64 addr, U32 value) __CPROVER_requires(1) __CPROVER_ensures(1) __CPROVER_assigns(__CPROVER_object_upto(mem->data + addr, 4), g_mutex_held, g_mutex_locks, __CPROVER_object_whole(mem->data), __CPROVER_object_whole(g_mon_old));
#endif
void h_i32_atomic_rmw_add(void) {
  ND_ARR(U8, data, MEMSZ);
  U8 old[MEMSZ];
  wasmMemory mem;
  ND(U64, addr);
  ND(U64, k);
  ND(U32, m_size); ND(U32, m_pages); ND(U32, m_max);
  mem.data = data; mem.size = m_size; mem.pages = m_pages; mem.maxPages = m_max; mem.shared = 0; mem.futex = 0; mem.futexFree = 0;
  ASSUME(k < MEMSZ);
  ASSUME(addr <= MEMSZ - 4);
  ASSUME(addr % 4 == 0);
  memcpy(old, data, MEMSZ);
  ND(U32, value);
  g_mutex_held = 0; g_mutex_locks = 0; mem.shared = 1; g_mon_data = data; g_mon_old = old; g_mon_len = MEMSZ;
  U32 r = i32_atomic_rmw_add(&mem, addr, value);
  { U64 oldv = spec_le_read(old, addr, 4);
  OBL(r == (U32)oldv, "i32_atomic_rmw_add: returns the zero-extended old value");
  OBL(data[k] == spec_after_store(k, addr, 4, spec_rmw(SPEC_RMW_ADD, oldv, spec_wrap((U64)value, 4), 4), old[k]), "i32_atomic_rmw_add: memory holds the wrapped new value in little-endian order, every other byte unchanged"); }
  OBL(g_mutex_held == 0 && g_mutex_locks == 1, "i32_atomic_rmw_add: the memory mutex is taken exactly once and released on return");
  OBL(mem.data == data && mem.size == m_size && mem.pages == m_pages && mem.maxPages == m_max, "i32_atomic_rmw_add: the memory descriptor is unchanged");
  CANARY("i32_atomic_rmw_add returns");
}
#ifndef VERIF_NATIVE
U64 c_i64_atomic_rmw8_add_u(wasmMemory* mem, U64 addr, U64 value) __CPROVER_requires(1) __CPROVER_ensures(1) __CPROVER_assigns(__CPROVER_object_upto(mem->data + addr, 1), g_mutex_held, g_mutex_locks, __CPROVER_object_whole(mem->data), __CPROVER_object_whole(g_mon_old));
#endif
void h_i64_atomic_rmw8_add_u(void) {
  ND_ARR(U8, data, MEMSZ);
  U8 old[MEMSZ];
  wasmMemory mem;
  ND(U64, addr);
  ND(U64, k);
  ND(U32, m_size); ND(U32, m_pages); ND(U32, m_max);
  mem.data = data; mem.size = m_size; mem.pages = m_pages; mem.maxPages = m_max; mem.shared = 0; mem.futex = 0; mem.futexFree = 0;
  ASSUME(k < MEMSZ);
  ASSUME(addr <= MEMSZ - 1);
  ASSUME(addr % 1 == 0);
  memcpy(old, data, MEMSZ);
  ND(U64, value);
  g_mutex_held = 0; g_mutex_locks = 0; mem.shared = 1; g_mon_data = data; g_mon_old = old; g_mon_len = MEMSZ;
  U64 r = i64_atomic_rmw8_add_u(&mem, addr, value);
  { U64 oldv = spec_le_read(old, addr, 1);
  OBL(r == (U64)oldv, "i64_atomic_rmw8_add_u: returns the zero-extended old value");
  OBL(data[k] == spec_after_store(k, addr, 1, spec_rmw(SPEC_RMW_ADD, oldv, spec_wrap((U64)value, 1), 1), old[k]), "i64_atomic_rmw8_add_u: memory holds the wrapped new value in little-endian order, every other byte unchanged"); }
  OBL(g_mutex_held == 0 && g_mutex_locks == 1, "i64_atomic_rmw8_add_u: the memory mutex is taken exactly once and released on return");
  OBL(mem.data == data && mem.size == m_size && mem.pages == m_pages && mem.maxPages == m_max, "i64_atomic_rmw8_add_u: the memory descriptor is unchanged");
  CANARY("i64_atomic_rmw8_add_u returns");
}
#ifndef VERIF_NATIVE
U64 c_i64_atomic_rmw16_add_u(wasmMemory* mem, U64 addr, U64 value) __CPROVER_requires(1) __CPROVER_ensures(1) __CPROVER_assigns(__CPROVER_object_upto(mem->data + addr, 2), g_mutex_held, g_mutex_locks, __CPROVER_object_whole(mem->data), __CPROVER_object_whole(g_mon_old));
#endif
void h_i64_atomic_rmw16_add_u(void) {
  ND_ARR(U8, data, MEMSZ);
  U8 old[MEMSZ];
  wasmMemory mem;
  ND(U64, addr);
  ND(U64, k);
  ND(U32, m_size); ND(U32, m_pages); ND(U32, m_max);
  mem.data = data; mem.size = m_size; mem.pages = m_pages; mem.maxPages = m_max; mem.shared = 0; mem.futex = 0; mem.futexFree = 0;
  ASSUME(k < MEMSZ);
  ASSUME(addr <= MEMSZ - 2);
  ASSUME(addr % 2 == 0);
  memcpy(old, data, MEMSZ);
  ND(U64, value);
  g_mutex_held = 0; g_mutex_locks = 0; mem.shared = 1; g_mon_data = data; g_mon_old = old; g_mon_len = MEMSZ;
  U64 r = i64_atomic_rmw16_add_u(&mem, addr, value);
  { U64 oldv = spec_le_read(old, addr, 2);
  OBL(r == (U64)oldv, "i64_atomic_rmw16_add_u: returns the zero-extended old value");
  OBL(data[k] == spec_after_store(k, addr, 2, spec_rmw(SPEC_RMW_ADD, oldv, spec_wrap((U64)value, 2), 2), old[k]), "i64_atomic_rmw16_add_u: memory holds the wrapped new value in little-endian order, every other byte unchanged"); }
  OBL(g_mutex_held == 0 && g_mutex_locks == 1, "i64_atomic_rmw16_add_u: the memory mutex is taken exactly once and released on return");
  OBL(mem.data == data && mem.size == m_size && mem.pages == m_pages && mem.maxPages == m_max, "i64_atomic_rmw16_add_u: the memory descriptor is unchanged");
  CANARY("i64_atomic_rmw16_add_u returns");
}
#ifndef VERIF_NATIVE
U64 c_i64_atomic_rmw32_add_u(wasmMemory* mem, U64 addr, U64 value) __CPROVER_requires(1) __CPROVER_ensures(1) __CPROVER_assigns(__CPROVER_object_upto(mem->data + addr, 4), g_mutex_held, g_mutex_locks, __CPROVER_object_whole(mem->data), __CPROVER_object_whole(g_mon_old));
#endif
void h_i64_atomic_rmw32_add_u(void) {
  ND_ARR(U8, data, MEMSZ);
  U8 old[MEMSZ];
  wasmMemory mem;
  ND(U64, addr);
  ND(U64, k);
  ND(U32, m_size); ND(U32, m_pages); ND(U32, m_max);
  mem.data = data; mem.size = m_size; mem.pages = m_pages; mem.maxPages = m_max; mem.shared = 0; mem.futex = 0; mem.futexFree = 0;
  ASSUME(k < MEMSZ);
  ASSUME(addr <= MEMSZ - 4);
  ASSUME(addr % 4 == 0);
  memcpy(old, data, MEMSZ);
  ND(U64, value);
  g_mutex_held = 0; g_mutex_locks = 0; mem.shared = 1; g_mon_data = data; g_mon_old = old; g_mon_len = MEMSZ;
  U64 r = i64_atomic_rmw32_add_u(&mem, addr, value);
  { U64 oldv = spec_le_read(old, addr, 4);
  OBL(r == (U64)oldv, "i64_atomic_rmw32_add_u: returns the zero-extended old value");
  OBL(data[k] == spec_after_store(k, addr, 4, spec_rmw(SPEC_RMW_ADD, oldv, spec_wrap((U64)value, 4), 4), old[k]), "i64_atomic_rmw32_add_u: memory holds the wrapped new value in little-endian order, every other byte unchanged"); }
  OBL(g_mutex_held == 0 && g_mutex_locks == 1, "i64_atomic_rmw32_add_u: the memory mutex is taken exactly once and released on return");
  OBL(mem.data == data && mem.size == m_size && mem.pages == m_pages && mem.maxPages == m_max, "i64_atomic_rmw32_add_u: the memory descriptor is unchanged");
  CANARY("i64_atomic_rmw32_add_u returns");
}
#ifndef VERIF_NATIVE
U64 c_i64_atomic_rmw_add(wasmMemory* mem, U64 addr, U64 value) __CPROVER_requires(1) __CPROVER_ensures(1) __CPROVER_assigns(__CPROVER_object_upto(mem->data + addr, 8), g_mutex_held, g_mutex_locks, __CPROVER_object_whole(mem->data), __CPROVER_object_whole(g_mon_old));
#endif
void h_i64_atomic_rmw_add(void) {
  ND_ARR(U8, data, MEMSZ);
  U8 old[MEMSZ];
  wasmMemory mem;
  ND(U64, addr);
  ND(U64, k);
  ND(U32, m_size); ND(U32, m_pages); ND(U32, m_max);
  mem.data = data; mem.size = m_size; mem.pages = m_pages; mem.maxPages = m_max; mem.shared = 0; mem.futex = 0; mem.futexFree = 0;
  ASSUME(k < MEMSZ);
  ASSUME(addr <= MEMSZ - 8);
  ASSUME(addr % 8 == 0);
  memcpy(old, data, MEMSZ);
  ND(U64, value);
  g_mutex_held = 0; g_mutex_locks = 0; mem.shared = 1; g_mon_data = data; g_mon_old = old; g_mon_len = MEMSZ;
  U64 r = i64_atomic_rmw_add(&mem, addr, value);
  { U64 oldv = spec_le_read(old, addr, 8);
  OBL(r == (U64)oldv, "i64_atomic_rmw_add: returns the zero-extended old value");
  OBL(data[k] == spec_after_store(k, addr, 8, spec_rmw(SPEC_RMW_ADD, oldv, spec_wrap((U64)value, 8), 8), old[k]), "i64_atomic_rmw_add: memory holds the wrapped new value in little-endian order, every other byte unchanged"); }
  OBL(g_mutex_held == 0 && g_mutex_locks == 1, "i64_atomic_rmw_add: the memory mutex is taken exactly once and released on return");
  OBL(mem.data == data && mem.size == m_size && mem.pages == m_pages && mem.maxPages == m_max, "i64_atomic_rmw_add: the memory descriptor is unchanged");
  CANARY("i64_atomic_rmw_add returns");
}
#ifndef VERIF_NATIVE
U32 c_i32_atomic_rmw8_sub_u(wasmMemory* mem, U64 addr, U32 value) __CPROVER_requires(1) __CPROVER_ensures(1) __CPROVER_assigns(__CPROVER_object_upto(mem->data + addr, 1), g_mutex_held, g_mutex_locks, __CPROVER_object_whole(mem->data), __CPROVER_object_whole(g_mon_old));
#endif
void h_i32_atomic_rmw8_sub_u(void) {
  ND_ARR(U8, data, MEMSZ);
  U8 old[MEMSZ];
  wasmMemory mem;
  ND(U64, addr);
  ND(U64, k);
  ND(U32, m_size); ND(U32, m_pages); ND(U32, m_max);
  mem.data = data; mem.size = m_size; mem.pages = m_pages; mem.maxPages = m_max; mem.shared = 0; mem.futex = 0; mem.futexFree = 0;
  ASSUME(k < MEMSZ);
  ASSUME(addr <= MEMSZ - 1);
  ASSUME(addr % 1 == 0);
  memcpy(old, data, MEMSZ);
  ND(U32, value);
  g_mutex_held = 0; g_mutex_locks = 0; mem.shared = 1; g_mon_data = data; g_mon_old = old; g_mon_len = MEMSZ;
  U32 r = i32_atomic_rmw8_sub_u(&mem, addr, value);
  { U64 oldv = spec_le_read(old, addr, 1);
  OBL(r == (U32)oldv, "i32_atomic_rmw8_sub_u: returns the zero-extended old value");
  OBL(data[k] == spec_after_store(k, addr, 1, spec_rmw(SPEC_RMW_SUB, oldv, spec_wrap((U64)value, 1), 1), old[k]), "i32_atomic_rmw8_sub_u: memory holds the wrapped new value in little-endian order, every other byte unchanged"); }
  OBL(g_mutex_held == 0 && g_mutex_locks == 1, "i32_atomic_rmw8_sub_u: the memory mutex is taken exactly once and released on return");
  OBL(mem.data == data && mem.size == m_size && mem.pages == m_pages && mem.maxPages == m_max, "i32_atomic_rmw8_sub_u: the memory descriptor is unchanged");
  CANARY("i32_atomic_rmw8_sub_u returns");
}
#ifndef VERIF_NATIVE
U32 c_i32_atomic_rmw16_sub_u(wasmMemory* mem, U64 addr, U32 value) __CPROVER_requires(1) __CPROVER_ensures(1) __CPROVER_assigns(__CPROVER_object_upto(mem->data + addr, 2), g_mutex_held, g_mutex_locks, __CPROVER_object_whole(mem->data), __CPROVER_object_whole(g_mon_old));
#endif
void h_i32_atomic_rmw16_sub_u(void) {
  ND_ARR(U8, data, MEMSZ);
  U8 old[MEMSZ];
  wasmMemory mem;
  ND(U64, addr);
  ND(U64, k);
  ND(U32, m_size); ND(U32, m_pages); ND(U32, m_max);
  mem.data = data; mem.size = m_size; mem.pages = m_pages; mem.maxPages = m_max; mem.shared = 0; mem.futex = 0; mem.futexFree = 0;
  ASSUME(k < MEMSZ);
  ASSUME(addr <= MEMSZ - 2);
  ASSUME(addr % 2 == 0);
  memcpy(old, data, MEMSZ);
  ND(U32, value);
  g_mutex_held = 0; g_mutex_locks = 0; mem.shared = 1; g_mon_data = data; g_mon_old = old; g_mon_len = MEMSZ;
  U32 r = i32_atomic_rmw16_sub_u(&mem, addr, value);
  { U64 oldv = spec_le_read(old, addr, 2);
  OBL(r == (U32)oldv, "i32_atomic_rmw16_sub_u: returns the zero-extended old value");
  OBL(data[k] == spec_after_store(k, addr, 2, spec_rmw(SPEC_RMW_SUB, oldv, spec_wrap((U64)value, 2), 2), old[k]), "i32_atomic_rmw16_sub_u: memory holds the wrapped new value in little-endian order, every other byte unchanged"); }
  OBL(g_mutex_held == 0 && g_mutex_locks == 1, "i32_atomic_rmw16_sub_u: the memory mutex is taken exactly once and released on return");
  OBL(mem.data == data && mem.size == m_size && mem.pages == m_pages && mem.maxPages == m_max, "i32_atomic_rmw16_sub_u: the memory descriptor is unchanged");
  CANARY("i32_atomic_rmw16_sub_u returns");
}
#ifndef VERIF_NATIVE
U32 c_i32_atomic_rmw_sub(wasmMemory* mem, U64 addr, U32 value) __CPROVER_requires(1) __CPROVER_ensures(1) __CPROVER_assigns(__CPROVER_object_upto(mem->data + addr, 4), g_mutex_held, g_mutex_locks, __CPROVER_object_whole(mem->data), __CPROVER_object_whole(g_mon_old));
#endif
void h_i32_atomic_rmw_sub(void) {
  ND_ARR(U8, data, MEMSZ);
  U8 old[MEMSZ];
  wasmMemory mem;
  ND(U64, addr);
  ND(U64, k);
  ND(U32, m_size); ND(U32, m_pages); ND(U32, m_max);
  mem.data = data; mem.size = m_size; mem.pages = m_pages; mem.maxPages = m_max; mem.shared = 0; mem.futex = 0; mem.futexFree = 0;
  ASSUME(k < MEMSZ);
  ASSUME(addr <= MEMSZ - 4);
  ASSUME(addr % 4 == 0);
  memcpy(old, data, MEMSZ);
  ND(U32, value);
  g_mutex_held = 0; g_mutex_locks = 0; mem.shared = 1; g_mon_data = data; g_mon_old = old; g_mon_len = MEMSZ;
  U32 r = i32_atomic_rmw_sub(&mem, addr, value);
  { U64 oldv = spec_le_read(old, addr, 4);
  OBL(r == (U32)oldv, "i32_atomic_rmw_sub: returns the zero-extended old value");
  OBL(data[k] == spec_after_store(k, addr, 4, spec_rmw(SPEC_RMW_SUB, oldv, spec_wrap((U64)value, 4), 4), old[k]), "i32_atomic_rmw_sub: memory holds the wrapped new value in little-endian order, every other byte unchanged"); }
  OBL(g_mutex_held == 0 && g_mutex_locks == 1, "i32_atomic_rmw_sub: the memory mutex is taken exactly once and released on return");
  OBL(mem.data == data && mem.size == m_size && mem.pages == m_pages && mem.maxPages == m_max, "i32_atomic_rmw_sub: the memory descriptor is unchanged");
  CANARY("i32_atomic_rmw_sub returns");
}
#ifndef VERIF_NATIVE
U64 c_i64_atomic_rmw8_sub_u(wasmMemory* mem, U64 addr, U64 value) __CPROVER_requires(1) __CPROVER_ensures(1) __CPROVER_assigns(__CPROVER_object_upto(mem->data + addr, 1), g_mutex_held, g_mutex_locks, __CPROVER_object_whole(mem->data), __CPROVER_object_whole(g_mon_old));
#endif
void h_i64_atomic_rmw8_sub_u(void) {
  ND_ARR(U8, data, MEMSZ);
  U8 old[MEMSZ];
  wasmMemory mem;
  ND(U64, addr);
  ND(U64, k);
  ND(U32, m_size); ND(U32, m_pages); ND(U32, m_max);
  mem.data = data; mem.size = m_size; mem.pages = m_pages; mem.maxPages = m_max; mem.shared = 0; mem.futex = 0; mem.futexFree = 0;
  ASSUME(k < MEMSZ);
  ASSUME(addr <= MEMSZ - 1);
  ASSUME(addr % 1 == 0);
  memcpy(old, data, MEMSZ);
  ND(U64, value);
  g_mutex_held = 0; g_mutex_locks = 0; mem.shared = 1; g_mon_data = data; g_mon_old = old; g_mon_len = MEMSZ;
  U64 r = i64_atomic_rmw8_sub_u(&mem, addr, value);
  { U64 oldv = spec_le_read(old, addr, 1);
  OBL(r == (U64)oldv, "i64_atomic_rmw8_sub_u: returns the zero-extended old value");
  OBL(data[k] == spec_after_store(k, addr, 1, spec_rmw(SPEC_RMW_SUB, oldv, spec_wrap((U64)value, 1), 1), old[k]), "i64_atomic_rmw8_sub_u: memory holds the wrapped new value in little-endian order, every other byte unchanged"); }
  OBL(g_mutex_held == 0 && g_mutex_locks == 1, "i64_atomic_rmw8_sub_u: the memory mutex is taken exactly once and released on return");
  OBL(mem.data == data && mem.size == m_size && mem.pages == m_pages && mem.maxPages == m_max, "i64_atomic_rmw8_sub_u: the memory descriptor is unchanged");
  CANARY("i64_atomic_rmw8_sub_u returns");
}
#ifndef VERIF_NATIVE
U64 c_i64_atomic_rmw16_sub_u(wasmMemory* mem, U64 addr, U64 value) __CPROVER_requires(1) __CPROVER_ensures(1) __CPROVER_assigns(__CPROVER_object_upto(mem->data + addr, 2), g_mutex_held, g_mutex_locks, __CPROVER_object_whole(mem->data), __CPROVER_object_whole(g_mon_old));
#endif
void h_i64_atomic_rmw16_sub_u(void) {
  ND_ARR(U8, data, MEMSZ);
  U8 old[MEMSZ];
  wasmMemory mem;
  ND(U64, addr);
  ND(U64, k);
  ND(U32, m_size); ND(U32, m_pages); ND(U32, m_max);
  mem.data = data; mem.size = m_size; mem.pages = m_pages; mem.maxPages = m_max; mem.shared = 0; mem.futex = 0; mem.futexFree = 0;
  ASSUME(k < MEMSZ);
  ASSUME(addr <= MEMSZ - 2);
  ASSUME(addr % 2 == 0);
  memcpy(old, data, MEMSZ);
  ND(U64, value);
  g_mutex_held = 0; g_mutex_locks = 0; mem.shared = 1; g_mon_data = data; g_mon_old = old; g_mon_len = MEMSZ;
  U64 r = i64_atomic_rmw16_sub_u(&mem, addr, value);
  { U64 oldv = spec_le_read(old, addr, 2);
  OBL(r == (U64)oldv, "i64_atomic_rmw16_sub_u: returns the zero-extended old value");
  OBL(data[k] == spec_after_store(k, addr, 2, spec_rmw(SPEC_RMW_SUB, oldv, spec_wrap((U64)value, 2), 2), old[k]), "i64_atomic_rmw16_sub_u: memory holds the wrapped new value in little-endian order, every other byte unchanged"); }
  OBL(g_mutex_held == 0 && g_mutex_locks == 1, "i64_atomic_rmw16_sub_u: the memory mutex is taken exactly once and released on return");
  OBL(mem.data == data && mem.size == m_size && mem.pages == m_pages && mem.maxPages == m_max, "i64_atomic_rmw16_sub_u: the memory descriptor is unchanged");
  CANARY("i64_atomic_rmw16_sub_u returns");
}
#ifndef VERIF_NATIVE
U64 c_i64_atomic_rmw32_sub_u(wasmMemory* mem, U64 addr, U64 value) __CPROVER_requires(1) __CPROVER_ensures(1) __CPROVER_assigns(__CPROVER_object_upto(mem->data + addr, 4), g_mutex_held, g_mutex_locks, __CPROVER_object_whole(mem->data), __CPROVER_object_whole(g_mon_old));
#endif
void h_i64_atomic_rmw32_sub_u(void) {
  ND_ARR(U8, data, MEMSZ);
  U8 old[MEMSZ];
  wasmMemory mem;
  ND(U64, addr);
  ND(U64, k);
  ND(U32, m_size); ND(U32, m_pages); ND(U32, m_max);
  mem.data = data; mem.size = m_size; mem.pages = m_pages; mem.maxPages = m_max; mem.shared = 0; mem.futex = 0; mem.futexFree = 0;
  ASSUME(k < MEMSZ);
  ASSUME(addr <= MEMSZ - 4);
  ASSUME(addr % 4 == 0);
  memcpy(old, data, MEMSZ);
  ND(U64, value);
  g_mutex_held = 0; g_mutex_locks = 0; mem.shared = 1; g_mon_data = data; g_mon_old = old; g_mon_len = MEMSZ;
  U64 r = i64_atomic_rmw32_sub_u(&mem, addr, value);
  { U64 oldv = spec_le_read(old, addr, 4);
  OBL(r == (U64)oldv, "i64_atomic_rmw32_sub_u: returns the zero-extended old value");
  OBL(data[k] == spec_after_store(k, addr, 4, spec_rmw(SPEC_RMW_SUB, oldv, spec_wrap((U64)value, 4), 4), old[k]), "i64_atomic_rmw32_sub_u: memory holds the wrapped new value in little-endian order, every other byte unchanged"); }
  OBL(g_mutex_held == 0 && g_mutex_locks == 1, "i64_atomic_rmw32_sub_u: the memory mutex is taken exactly once and released on return");
  OBL(mem.data == data && mem.size == m_size && mem.pages == m_pages && mem.maxPages == m_max, "i64_atomic_rmw32_sub_u: the memory descriptor is unchanged");
  CANARY("i64_atomic_rmw32_sub_u returns");
}
#ifndef VERIF_NATIVE
U64 c_i64_atomic_rmw_sub(wasmMemory* mem, U64 addr, U64 value) __CPROVER_requires(1) __CPROVER_ensures(1) __CPROVER_assigns(__CPROVER_object_upto(mem->data + addr, 8), g_mutex_held, g_mutex_locks, __CPROVER_object_whole(mem->data), __CPROVER_object_whole(g_mon_old));
#endif
void h_i64_atomic_rmw_sub(void) {
  ND_ARR(U8, data, MEMSZ);
  U8 old[MEMSZ];
  wasmMemory mem;
  ND(U64, addr);
  ND(U64, k);
  ND(U32, m_size); ND(U32, m_pages); ND(U32, m_max);
  mem.data = data; mem.size = m_size; mem.pages = m_pages; mem.maxPages = m_max; mem.shared = 0; mem.futex = 0; mem.futexFree = 0;
  ASSUME(k < MEMSZ);
  ASSUME(addr <= MEMSZ - 8);
  ASSUME(addr % 8 == 0);
  memcpy(old, data, MEMSZ);
  ND(U64, value);
  g_mutex_held = 0; g_mutex_locks = 0; mem.shared = 1; g_mon_data = data; g_mon_old = old; g_mon_len = MEMSZ;
  U64 r = i64_atomic_rmw_sub(&mem, addr, value);
  { U64 oldv = spec_le_read(old, addr, 8);
  OBL(r == (U64)oldv, "i64_atomic_rmw_sub: returns the zero-extended old value");
  OBL(data[k] == spec_after_store(k, addr, 8, spec_rmw(SPEC_RMW_SUB, oldv, spec_wrap((U64)value, 8), 8), old[k]), "i64_atomic_rmw_sub: memory holds the wrapped new value in little-endian order, every other byte unchanged"); }
  OBL(g_mutex_held == 0 && g_mutex_locks == 1, "i64_atomic_rmw_sub: the memory mutex is taken exactly once and released on return");
  OBL(mem.data == data && mem.size == m_size && mem.pages == m_pages && mem.maxPages == m_max, "i64_atomic_rmw_sub: the memory descriptor is unchanged");
  CANARY("i64_atomic_rmw_sub returns");
}
#ifndef VERIF_NATIVE
U32 c_i32_atomic_rmw8_and_u(wasmMemory* mem, U64 addr, U32 value) __CPROVER_requires(1) __CPROVER_ensures(1) __CPROVER_assigns(__CPROVER_object_upto(mem->data + addr, 1), g_mutex_held, g_mutex_locks, __CPROVER_object_whole(mem->data), __CPROVER_object_whole(g_mon_old));
#endif
void h_i32_atomic_rmw8_and_u(void) {
  ND_ARR(U8, data, MEMSZ);
  U8 old[MEMSZ];
  wasmMemory mem;
  ND(U64, addr);
  ND(U64, k);
  ND(U32, m_size); ND(U32, m_pages); ND(U32, m_max);
  mem.data = data; mem.size = m_size; mem.pages = m_pages; mem.maxPages = m_max; mem.shared = 0; mem.futex = 0; mem.futexFree = 0;
  ASSUME(k < MEMSZ);
  ASSUME(addr <= MEMSZ - 1);
  ASSUME(addr % 1 == 0);
  memcpy(old, data, MEMSZ);
  ND(U32, value);
  g_mutex_held = 0; g_mutex_locks = 0; mem.shared = 1; g_mon_data = data; g_mon_old = old; g_mon_len = MEMSZ;
  U32 r = i32_atomic_rmw8_and_u(&mem, addr, value);
  { U64 oldv = spec_le_read(old, addr, 1);
  OBL(r == (U32)oldv, "i32_atomic_rmw8_and_u: returns the zero-extended old value");
  OBL(data[k] == spec_after_store(k, addr, 1, spec_rmw(SPEC_RMW_AND, oldv, spec_wrap((U64)value, 1), 1), old[k]), "i32_atomic_rmw8_and_u: memory holds the wrapped new value in little-endian order, every other byte unchanged"); }
  OBL(g_mutex_held == 0 && g_mutex_locks == 1, "i32_atomic_rmw8_and_u: the memory mutex is taken exactly once and released on return");
  OBL(mem.data == data && mem.size == m_size && mem.pages == m_pages && mem.maxPages == m_max, "i32_atomic_rmw8_and_u: the memory descriptor is unchanged");
  CANARY("i32_atomic_rmw8_and_u returns");
}
#ifndef VERIF_NATIVE
U32 c_i32_atomic_rmw16_and_u(wasmMemory* mem, U64 addr, U32 value) __CPROVER_requires(1) __CPROVER_ensures(1) __CPROVER_assigns(__CPROVER_object_upto(mem->data + addr, 2), g_mutex_held, g_mutex_locks, __CPROVER_object_whole(mem->data), __CPROVER_object_whole(g_mon_old));
#endif
void h_i32_atomic_rmw16_and_u(void) {
  ND_ARR(U8, data, MEMSZ);
  U8 old[MEMSZ];
  wasmMemory mem;
  ND(U64, addr);
  ND(U64, k);
  ND(U32, m_size); ND(U32, m_pages); ND(U32, m_max);
  mem.data = data; mem.size = m_size; mem.pages = m_pages; mem.maxPages = m_max; mem.shared = 0; mem.futex = 0; mem.futexFree = 0;
  ASSUME(k < MEMSZ);
  ASSUME(addr <= MEMSZ - 2);
  ASSUME(addr % 2 == 0);
  memcpy(old, data, MEMSZ);
  ND(U32, value);
  g_mutex_held = 0; g_mutex_locks = 0; mem.shared = 1; g_mon_data = data; g_mon_old = old; g_mon_len = MEMSZ;
  U32 r = i32_atomic_rmw16_and_u(&mem, addr, value);
  { U64 oldv = spec_le_read(old, addr, 2);
  OBL(r == (U32)oldv, "i32_atomic_rmw16_and_u: returns the zero-extended old value");
  OBL(data[k] == spec_after_store(k, addr, 2, spec_rmw(SPEC_RMW_AND, oldv, spec_wrap((U64)value, 2), 2), old[k]), "i32_atomic_rmw16_and_u: memory holds the wrapped new value in little-endian order, every other byte unchanged"); }
  OBL(g_mutex_held == 0 && g_mutex_locks == 1, "i32_atomic_rmw16_and_u: the memory mutex is taken exactly once and released on return");
  OBL(mem.data == data && mem.size == m_size && mem.pages == m_pages && mem.maxPages == m_max, "i32_atomic_rmw16_and_u: the memory descriptor is unchanged");
  CANARY("i32_atomic_rmw16_and_u returns");
}
#ifndef VERIF_NATIVE
U32 c_i32_atomic_rmw_and(wasmMemory* mem, U64 addr, U32 value) __CPROVER_requires(1) __CPROVER_ensures(1) __CPROVER_assigns(__CPROVER_object_upto(mem->data + addr, 4), g_mutex_held, g_mutex_locks, __CPROVER_object_whole(mem->data), __CPROVER_object_whole(g_mon_old));
#endif
void h_i32_atomic_rmw_and(void) {
  ND_ARR(U8, data, MEMSZ);
  U8 old[MEMSZ];
  wasmMemory mem;
  ND(U64, addr);
  ND(U64, k);
  ND(U32, m_size); ND(U32, m_pages); ND(U32, m_max);
  mem.data = data; mem.size = m_size; mem.pages = m_pages; mem.maxPages = m_max; mem.shared = 0; mem.futex = 0; mem.futexFree = 0;
  ASSUME(k < MEMSZ);
  ASSUME(addr <= MEMSZ - 4);
  ASSUME(addr % 4 == 0);
  memcpy(old, data, MEMSZ);
  ND(U32, value);
  g_mutex_held = 0; g_mutex_locks = 0; mem.shared = 1; g_mon_data = data; g_mon_old = old; g_mon_len = MEMSZ;
  U32 r = i32_atomic_rmw_and(&mem, addr, value);
  { U64 oldv = spec_le_read(old, addr, 4);
  OBL(r == (U32)oldv, "i32_atomic_rmw_and: returns the zero-extended old value");
  OBL(data[k] == spec_after_store(k, addr, 4, spec_rmw(SPEC_RMW_AND, oldv, spec_wrap((U64)value, 4), 4), old[k]), "i32_atomic_rmw_and: memory holds the wrapped new value in little-endian order, every other byte unchanged"); }
  OBL(g_mutex_held == 0 && g_mutex_locks == 1, "i32_atomic_rmw_and: the memory mutex is taken exactly once and released on return");
  OBL(mem.data == data && mem.size == m_size && mem.pages == m_pages && mem.maxPages == m_max, "i32_atomic_rmw_and: the memory descriptor is unchanged");
  CANARY("i32_atomic_rmw_and returns");
}
#ifndef VERIF_NATIVE
U64 c_i64_atomic_rmw8_and_u(wasmMemory* mem, U64 addr, U64 value) __CPROVER_requires(1) __CPROVER_ensures(1) __CPROVER_assigns(__CPROVER_object_upto(mem->data + addr, 1), g_mutex_held, g_mutex_locks, __CPROVER_object_whole(mem->data), __CPROVER_object_whole(g_mon_old));
#endif
void h_i64_atomic_rmw8_and_u(void) {
  ND_ARR(U8, data, MEMSZ);
  U8 old[MEMSZ];
  wasmMemory mem;
  ND(U64, addr);
  ND(U64, k);
  ND(U32, m_size); ND(U32, m_pages); ND(U32, m_max);
  mem.data = data; mem.size = m_size; mem.pages = m_pages; mem.maxPages = m_max; mem.shared = 0; mem.futex = 0; mem.futexFree = 0;
  ASSUME(k < MEMSZ);
  ASSUME(addr <= MEMSZ - 1);
  ASSUME(addr % 1 == 0);
  memcpy(old, data, MEMSZ);
  ND(U64, value);
  g_mutex_held = 0; g_mutex_locks = 0; mem.shared = 1; g_mon_data = data; g_mon_old = old; g_mon_len = MEMSZ;
  U64 r = i64_atomic_rmw8_and_u(&mem, addr, value);
  { U64 oldv = spec_le_read(old, addr, 1);
  OBL(r == (U64)oldv, "i64_atomic_rmw8_and_u: returns the zero-extended old value");
  OBL(data[k] == spec_after_store(k, addr, 1, spec_rmw(SPEC_RMW_AND, oldv, spec_wrap((U64)value, 1), 1), old[k]), "i64_atomic_rmw8_and_u: memory holds the wrapped new value in little-endian order, every other byte unchanged"); }
  OBL(g_mutex_held == 0 && g_mutex_locks == 1, "i64_atomic_rmw8_and_u: the memory mutex is taken exactly once and released on return");
  OBL(mem.data == data && mem.size == m_size && mem.pages == m_pages && mem.maxPages == m_max, "i64_atomic_rmw8_and_u: the memory descriptor is unchanged");
  CANARY("i64_atomic_rmw8_and_u returns");
}
#ifndef VERIF_NATIVE
U64 c_i64_atomic_rmw16_and_u(wasmMemory* mem, U64 addr, U64 value) __CPROVER_requires(1) __CPROVER_ensures(1) __CPROVER_assigns(__CPROVER_object_upto(mem->data + addr, 2), g_mutex_held, g_mutex_locks, __CPROVER_object_whole(mem->data), __CPROVER_object_whole(g_mon_old));
#endif
void h_i64_atomic_rmw16_and_u(void) {
  ND_ARR(U8, data, MEMSZ);
  U8 old[MEMSZ];
  wasmMemory mem;
  ND(U64, addr);
  ND(U64, k);
  ND(U32, m_size); ND(U32, m_pages); ND(U32, m_max);
  mem.data = data; mem.size = m_size; mem.pages = m_pages; mem.maxPages = m_max; mem.shared = 0; mem.futex = 0; mem.futexFree = 0;
  ASSUME(k < MEMSZ);
  ASSUME(addr <= MEMSZ - 2);
  ASSUME(addr % 2 == 0);
  memcpy(old, data, MEMSZ);
  ND(U64, value);
  g_mutex_held = 0; g_mutex_locks = 0; mem.shared = 1; g_mon_data = data; g_mon_old = old; g_mon_len = MEMSZ;
  U64 r = i64_atomic_rmw16_and_u(&mem, addr, value);
  { U64 oldv = spec_le_read(old, addr, 2);
  OBL(r == (U64)oldv, "i64_atomic_rmw16_and_u: returns the zero-extended old value");
  OBL(data[k] == spec_after_store(k, addr, 2, spec_rmw(SPEC_RMW_AND, oldv, spec_wrap((U64)value, 2), 2), old[k]), "i64_atomic_rmw16_and_u: memory holds the wrapped new value in little-endian order, every other byte unchanged"); }
  OBL(g_mutex_held == 0 && g_mutex_locks == 1, "i64_atomic_rmw16_and_u: the memory mutex is taken exactly once and released on return");
  OBL(mem.data == data && mem.size == m_size && mem.pages == m_pages && mem.maxPages == m_max, "i64_atomic_rmw16_and_u: the memory descriptor is unchanged");
  CANARY("i64_atomic_rmw16_and_u returns");
}
#ifndef VERIF_NATIVE
U64 c_i64_atomic_rmw32_and_u(wasmMemory* mem, U64 addr, U64 value) __CPROVER_requires(1) __CPROVER_ensures(1) __CPROVER_assigns(__CPROVER_object_upto(mem->data + addr, 4), g_mutex_held, g_mutex_locks, __CPROVER_object_whole(mem->data), __CPROVER_object_whole(g_mon_old));
#endif
void h_i64_atomic_rmw32_and_u(void) {
  ND_ARR(U8, data, MEMSZ);
  U8 old[MEMSZ];
  wasmMemory mem;
  ND(U64, addr);
  ND(U64, k);
  ND(U32, m_size); ND(U32, m_pages); ND(U32, m_max);
  mem.data = data; mem.size = m_size; mem.pages = m_pages; mem.maxPages = m_max; mem.shared = 0; mem.futex = 0; mem.futexFree = 0;
  ASSUME(k < MEMSZ);
  ASSUME(addr <= MEMSZ - 4);
  ASSUME(addr % 4 == 0);
  memcpy(old, data, MEMSZ);
  ND(U64, value);
  g_mutex_held = 0; g_mutex_locks = 0; mem.shared = 1; g_mon_data = data; g_mon_old = old; g_mon_len = MEMSZ;
  U64 r = i64_atomic_rmw32_and_u(&mem, addr, value);
  { U64 oldv = spec_le_read(old, addr, 4);
  OBL(r == (U64)oldv, "i64_atomic_rmw32_and_u: returns the zero-extended old value");
  OBL(data[k] == spec_after_store(k, addr, 4, spec_rmw(SPEC_RMW_AND, oldv, spec_wrap((U64)value, 4), 4), old[k]), "i64_atomic_rmw32_and_u: memory holds the wrapped new value in little-endian order, every other byte unchanged"); }
  OBL(g_mutex_held == 0 && g_mutex_locks == 1, "i64_atomic_rmw32_and_u: the memory mutex is taken exactly once and released on return");
  OBL(mem.data == data && mem.size == m_size && mem.pages == m_pages && mem.maxPages == m_max, "i64_atomic_rmw32_and_u: the memory descriptor is unchanged");
  CANARY("i64_atomic_rmw32_and_u returns");
}
#ifndef VERIF_NATIVE
U64 c_i64_atomic_rmw_and(wasmMemory* mem, U64 addr, U64 value) __CPROVER_requires(1) __CPROVER_ensures(1) __CPROVER_assigns(__CPROVER_object_upto(mem->data + addr, 8), g_mutex_held, g_mutex_locks, __CPROVER_object_whole(mem->data), __CPROVER_object_whole(g_mon_old));
#endif
void h_i64_atomic_rmw_and(void) {
  ND_ARR(U8, data, MEMSZ);
  U8 old[MEMSZ];
  wasmMemory mem;
  ND(U64, addr);
  ND(U64, k);
  ND(U32, m_size); ND(U32, m_pages); ND(U32, m_max);
  mem.data = data; mem.size = m_size; mem.pages = m_pages; mem.maxPages = m_max; mem.shared = 0; mem.futex = 0; mem.futexFree = 0;
  ASSUME(k < MEMSZ);
  ASSUME(addr <= MEMSZ - 8);
  ASSUME(addr % 8 == 0);
  memcpy(old, data, MEMSZ);
  ND(U64, value);
  g_mutex_held = 0; g_mutex_locks = 0; mem.shared = 1; g_mon_data = data; g_mon_old = old; g_mon_len = MEMSZ;
  U64 r = i64_atomic_rmw_and(&mem, addr, value);
  { U64 oldv = spec_le_read(old, addr, 8);
  OBL(r == (U64)oldv, "i64_atomic_rmw_and: returns the zero-extended old value");
  OBL(data[k] == spec_after_store(k, addr, 8, spec_rmw(SPEC_RMW_AND, oldv, spec_wrap((U64)value, 8), 8), old[k]), "i64_atomic_rmw_and: memory holds the wrapped new value in little-endian order, every other byte unchanged"); }
  OBL(g_mutex_held == 0 && g_mutex_locks == 1, "i64_atomic_rmw_and: the memory mutex is taken exactly once and released on return");
  OBL(mem.data == data && mem.size == m_size && mem.pages == m_pages && mem.maxPages == m_max, "i64_atomic_rmw_and: the memory descriptor is unchanged");
  CANARY("i64_atomic_rmw_and returns");
}
#ifndef VERIF_NATIVE
U32 c_i32_atomic_rmw8_or_u(wasmMemory* mem, U64 addr, U32 value) __CPROVER_requires(1) __CPROVER_ensures(1) __CPROVER_assigns(__CPROVER_object_upto(mem->data + addr, 1), g_mutex_held, g_mutex_locks, __CPROVER_object_whole(mem->data), __CPROVER_object_whole(g_mon_old));
#endif
void h_i32_atomic_rmw8_or_u(void) {
  ND_ARR(U8, data, MEMSZ);
  U8 old[MEMSZ];
  wasmMemory mem;
  ND(U64, addr);
  ND(U64, k);
  ND(U32, m_size); ND(U32, m_pages); ND(U32, m_max);
  mem.data = data; mem.size = m_size; mem.pages = m_pages; mem.maxPages = m_max; mem.shared = 0; mem.futex = 0; mem.futexFree = 0;
  ASSUME(k < MEMSZ);
  ASSUME(addr <= MEMSZ - 1);
  ASSUME(addr % 1 == 0);
  memcpy(old, data, MEMSZ);
  ND(U32, value);
  g_mutex_held = 0; g_mutex_locks = 0; mem.shared = 1; g_mon_data = data; g_mon_old = old; g_mon_len = MEMSZ;
  U32 r = i32_atomic_rmw8_or_u(&mem, addr, value);
  { U64 oldv = spec_le_read(old, addr, 1);
  OBL(r == (U32)oldv, "i32_atomic_rmw8_or_u: returns the zero-extended old value");
  OBL(data[k] == spec_after_store(k, addr, 1, spec_rmw(SPEC_RMW_OR, oldv, spec_wrap((U64)value, 1), 1), old[k]), "i32_atomic_rmw8_or_u: memory holds the wrapped new value in little-endian order, every other byte unchanged"); }
  OBL(g_mutex_held == 0 && g_mutex_locks == 1, "i32_atomic_rmw8_or_u: the memory mutex is taken exactly once and released on return");
  OBL(mem.data == data && mem.size == m_size && mem.pages == m_pages && mem.maxPages == m_max, "i32_atomic_rmw8_or_u: the memory descriptor is unchanged");
  CANARY("i32_atomic_rmw8_or_u returns");
}
#ifndef VERIF_NATIVE
U32 c_i32_atomic_rmw16_or_u(wasmMemory* mem, U64 addr, U32 value) __CPROVER_requires(1) __CPROVER_ensures(1) __CPROVER_assigns(__CPROVER_object_upto(mem->data + addr, 2), g_mutex_held, g_mutex_locks, __CPROVER_object_whole(mem->data), __CPROVER_object_whole(g_mon_old));
#endif
void h_i32_atomic_rmw16_or_u(void) {
  ND_ARR(U8, data, MEMSZ);
  U8 old[MEMSZ];
  wasmMemory mem;
  ND(U64, addr);
  ND(U64, k);
  ND(U32, m_size); ND(U32, m_pages); ND(U32, m_max);
  mem.data = data; mem.size = m_size; mem.pages = m_pages; mem.maxPages = m_max; mem.shared = 0; mem.futex = 0; mem.futexFree = 0;
  ASSUME(k < MEMSZ);
  ASSUME(addr <= MEMSZ - 2);
  ASSUME(addr % 2 == 0);
  memcpy(old, data, MEMSZ);
  ND(U32, value);
  g_mutex_held = 0; g_mutex_locks = 0; mem.shared = 1; g_mon_data = data; g_mon_old = old; g_mon_len = MEMSZ;
  U32 r = i32_atomic_rmw16_or_u(&mem, addr, value);
  { U64 oldv = spec_le_read(old, addr, 2);
  OBL(r == (U32)oldv, "i32_atomic_rmw16_or_u: returns the zero-extended old value");
  OBL(data[k] == spec_after_store(k, addr, 2, spec_rmw(SPEC_RMW_OR, oldv, spec_wrap((U64)value, 2), 2), old[k]), "i32_atomic_rmw16_or_u: memory holds the wrapped new value in little-endian order, every other byte unchanged"); }
  OBL(g_mutex_held == 0 && g_mutex_locks == 1, "i32_atomic_rmw16_or_u: the memory mutex is taken exactly once and released on return");
  OBL(mem.data == data && mem.size == m_size && mem.pages == m_pages && mem.maxPages == m_max, "i32_atomic_rmw16_or_u: the memory descriptor is unchanged");
  CANARY("i32_atomic_rmw16_or_u returns");
}
#ifndef VERIF_NATIVE
U32 c_i32_atomic_rmw_or(wasmMemory* mem, U64 addr, U32 value) __CPROVER_requires(1) __CPROVER_ensures(1) __CPROVER_assigns(__CPROVER_object_upto(mem->data + addr, 4), g_mutex_held, g_mutex_locks, __CPROVER_object_whole(mem->data), __CPROVER_object_whole(g_mon_old));
#endif
void h_i32_atomic_rmw_or(void) {
  ND_ARR(U8, data, MEMSZ);
  U8 old[MEMSZ];
  wasmMemory mem;
  ND(U64, addr);
  ND(U64, k);
  ND(U32, m_size); ND(U32, m_pages); ND(U32, m_max);
  mem.data = data; mem.size = m_size; mem.pages = m_pages; mem.maxPages = m_max; mem.shared = 0; mem.futex = 0; mem.futexFree = 0;
  ASSUME(k < MEMSZ);
  ASSUME(addr <= MEMSZ - 4);
  ASSUME(addr % 4 == 0);
  memcpy(old, data, MEMSZ);
  ND(U32, value);
  g_mutex_held = 0; g_mutex_locks = 0; mem.shared = 1; g_mon_data = data; g_mon_old = old; g_mon_len = MEMSZ;
  U32 r = i32_atomic_rmw_or(&mem, addr, value);
  { U64 oldv = spec_le_read(old, addr, 4);
  OBL(r == (U32)oldv, "i32_atomic_rmw_or: returns the zero-extended old value");
  OBL(data[k] == spec_after_store(k, addr, 4, spec_rmw(SPEC_RMW_OR, oldv, spec_wrap((U64)value, 4), 4), old[k]), "i32_atomic_rmw_or: memory holds the wrapped new value in little-endian order, every other byte unchanged"); }
  OBL(g_mutex_held == 0 && g_mutex_locks == 1, "i32_atomic_rmw_or: the memory mutex is taken exactly once and released on return");
  OBL(mem.data == data && mem.size == m_size && mem.pages == m_pages && mem.maxPages == m_max, "i32_atomic_rmw_or: the memory descriptor is unchanged");
  CANARY("i32_atomic_rmw_or returns");
}
#ifndef VERIF_NATIVE
U64 c_i64_atomic_rmw8_or_u(wasmMemory* mem, U64 addr, U64 value) __CPROVER_requires(1) __CPROVER_ensures(1) __CPROVER_assigns(__CPROVER_object_upto(mem->data + addr, 1), g_mutex_held, g_mutex_locks, __CPROVER_object_whole(mem->data), __CPROVER_object_whole(g_mon_old));
#endif
void h_i64_atomic_rmw8_or_u(void) {
  ND_ARR(U8, data, MEMSZ);
  U8 old[MEMSZ];
  wasmMemory mem;
  ND(U64, addr);
  ND(U64, k);
  ND(U32, m_size); ND(U32, m_pages); ND(U32, m_max);
  mem.data = data; mem.size = m_size; mem.pages = m_pages; mem.maxPages = m_max; mem.shared = 0; mem.futex = 0; mem.futexFree = 0;
  ASSUME(k < MEMSZ);
  ASSUME(addr <= MEMSZ - 1);
  ASSUME(addr % 1 == 0);
  memcpy(old, data, MEMSZ);
  ND(U64, value);
  g_mutex_held = 0; g_mutex_locks = 0; mem.shared = 1; g_mon_data = data; g_mon_old = old; g_mon_len = MEMSZ;
  U64 r = i64_atomic_rmw8_or_u(&mem, addr, value);
  { U64 oldv = spec_le_read(old, addr, 1);
  OBL(r == (U64)oldv, "i64_atomic_rmw8_or_u: returns the zero-extended old value");
  OBL(data[k] == spec_after_store(k, addr, 1, spec_rmw(SPEC_RMW_OR, oldv, spec_wrap((U64)value, 1), 1), old[k]), "i64_atomic_rmw8_or_u: memory holds the wrapped new value in little-endian order, every other byte unchanged"); }
  OBL(g_mutex_held == 0 && g_mutex_locks == 1, "i64_atomic_rmw8_or_u: the memory mutex is taken exactly once and released on return");
  OBL(mem.data == data && mem.size == m_size && mem.pages == m_pages && mem.maxPages == m_max, "i64_atomic_rmw8_or_u: the memory descriptor is unchanged");
  CANARY("i64_atomic_rmw8_or_u returns");
}
#ifndef VERIF_NATIVE
U64 c_i64_atomic_rmw16_or_u(wasmMemory* mem, U64 addr, U64 value) __CPROVER_requires(1) __CPROVER_ensures(1) __CPROVER_assigns(__CPROVER_object_upto(mem->data + addr, 2), g_mutex_held, g_mutex_locks, __CPROVER_object_whole(mem->data), __CPROVER_object_whole(g_mon_old));
#endif
void h_i64_atomic_rmw16_or_u(void) {
  ND_ARR(U8, data, MEMSZ);
  U8 old[MEMSZ];
  wasmMemory mem;
  ND(U64, addr);
  ND(U64, k);
  ND(U32, m_size); ND(U32, m_pages); ND(U32, m_max);
  mem.data = data; mem.size = m_size; mem.pages = m_pages; mem.maxPages = m_max; mem.shared = 0; mem.futex = 0; mem.futexFree = 0;
  ASSUME(k < MEMSZ);
  ASSUME(addr <= MEMSZ - 2);
  ASSUME(addr % 2 == 0);
  memcpy(old, data, MEMSZ);
  ND(U64, value);
  g_mutex_held = 0; g_mutex_locks = 0; mem.shared = 1; g_mon_data = data; g_mon_old = old; g_mon_len = MEMSZ;
  U64 r = i64_atomic_rmw16_or_u(&mem, addr, value);
  { U64 oldv = spec_le_read(old, addr, 2);
  OBL(r == (U64)oldv, "i64_atomic_rmw16_or_u: returns the zero-extended old value");
  OBL(data[k] == spec_after_store(k, addr, 2, spec_rmw(SPEC_RMW_OR, oldv, spec_wrap((U64)value, 2), 2), old[k]), "i64_atomic_rmw16_or_u: memory holds the wrapped new value in little-endian order, every other byte unchanged"); }
  OBL(g_mutex_held == 0 && g_mutex_locks == 1, "i64_atomic_rmw16_or_u: the memory mutex is taken exactly once and released on return");
  OBL(mem.data == data && mem.size == m_size && mem.pages == m_pages && mem.maxPages == m_max, "i64_atomic_rmw16_or_u: the memory descriptor is unchanged");
  CANARY("i64_atomic_rmw16_or_u returns");
}
#ifndef VERIF_NATIVE
U64 c_i64_atomic_rmw32_or_u(wasmMemory* mem, U64 addr, U64 value) __CPROVER_requires(1) __CPROVER_ensures(1) __CPROVER_assigns(__CPROVER_object_upto(mem->data + addr, 4), g_mutex_held, g_mutex_locks, __CPROVER_object_whole(mem->data), __CPROVER_object_whole(g_mon_old));
#endif
void h_i64_atomic_rmw32_or_u(void) {
  ND_ARR(U8, data, MEMSZ);
  U8 old[MEMSZ];
  wasmMemory mem;
  ND(U64, addr);
  ND(U64, k);
  ND(U32, m_size); ND(U32, m_pages); ND(U32, m_max);
  mem.data = data; mem.size = m_size; mem.pages = m_pages; mem.maxPages = m_max; mem.shared = 0; mem.futex = 0; mem.futexFree = 0;
  ASSUME(k < MEMSZ);
  ASSUME(addr <= MEMSZ - 4);
  ASSUME(addr % 4 == 0);
  memcpy(old, data, MEMSZ);
  ND(U64, value);
  g_mutex_held = 0; g_mutex_locks = 0; mem.shared = 1; g_mon_data = data; g_mon_old = old; g_mon_len = MEMSZ;
  U64 r = i64_atomic_rmw32_or_u(&mem, addr, value);
  { U64 oldv = spec_le_read(old, addr, 4);
  OBL(r == (U64)oldv, "i64_atomic_rmw32_or_u: returns the zero-extended old value");
  OBL(data[k] == spec_after_store(k, addr, 4, spec_rmw(SPEC_RMW_OR, oldv, spec_wrap((U64)value, 4), 4), old[k]), "i64_atomic_rmw32_or_u: memory holds the wrapped new value in little-endian order, every other byte unchanged"); }
  OBL(g_mutex_held == 0 && g_mutex_locks == 1, "i64_atomic_rmw32_or_u: the memory mutex is taken exactly once and released on return");
  OBL(mem.data == data && mem.size == m_size && mem.pages == m_pages && mem.maxPages == m_max, "i64_atomic_rmw32_or_u: the memory descriptor is unchanged");
  CANARY("i64_atomic_rmw32_or_u returns");
}
#ifndef VERIF_NATIVE
U64 c_i64_atomic_rmw_or(wasmMemory* mem, U64 addr, U64 value) __CPROVER_requires(1) __CPROVER_ensures(1) __CPROVER_assigns(__CPROVER_object_upto(mem->data + addr, 8), g_mutex_held, g_mutex_locks, __CPROVER_object_whole(mem->data), __CPROVER_object_whole(g_mon_old));
#endif
void h_i64_atomic_rmw_or(void) {
  ND_ARR(U8, data, MEMSZ);
  U8 old[MEMSZ];
  wasmMemory mem;
  ND(U64, addr);
  ND(U64, k);
  ND(U32, m_size); ND(U32, m_pages); ND(U32, m_max);
  mem.data = data; mem.size = m_size; mem.pages = m_pages; mem.maxPages = m_max; mem.shared = 0; mem.futex = 0; mem.futexFree = 0;
  ASSUME(k < MEMSZ);
  ASSUME(addr <= MEMSZ - 8);
  ASSUME(addr % 8 == 0);
  memcpy(old, data, MEMSZ);
  ND(U64, value);
  g_mutex_held = 0; g_mutex_locks = 0; mem.shared = 1; g_mon_data = data; g_mon_old = old; g_mon_len = MEMSZ;
  U64 r = i64_atomic_rmw_or(&mem, addr, value);
  { U64 oldv = spec_le_read(old, addr, 8);
  OBL(r == (U64)oldv, "i64_atomic_rmw_or: returns the zero-extended old value");
  OBL(data[k] == spec_after_store(k, addr, 8, spec_rmw(SPEC_RMW_OR, oldv, spec_wrap((U64)value, 8), 8), old[k]), "i64_atomic_rmw_or: memory holds the wrapped new value in little-endian order, every other byte unchanged"); }
  OBL(g_mutex_held == 0 && g_mutex_locks == 1, "i64_atomic_rmw_or: the memory mutex is taken exactly once and released on return");
  OBL(mem.data == data && mem.size == m_size && mem.pages == m_pages && mem.maxPages == m_max, "i64_atomic_rmw_or: the memory descriptor is unchanged");
  CANARY("i64_atomic_rmw_or returns");
}
#ifndef VERIF_NATIVE
U32 c_i32_atomic_rmw8_xor_u(wasmMemory* mem, U64 addr, U32 value) __CPROVER_requires(1) __CPROVER_ensures(1) __CPROVER_assigns(__CPROVER_object_upto(mem->data + addr, 1), g_mutex_held, g_mutex_locks, __CPROVER_object_whole(mem->data), __CPROVER_object_whole(g_mon_old));
#endif
void h_i32_atomic_rmw8_xor_u(void) {
  ND_ARR(U8, data, MEMSZ);
  U8 old[MEMSZ];
  wasmMemory mem;
  ND(U64, addr);
  ND(U64, k);
  ND(U32, m_size); ND(U32, m_pages); ND(U32, m_max);
  mem.data = data; mem.size = m_size; mem.pages = m_pages; mem.maxPages = m_max; mem.shared = 0; mem.futex = 0; mem.futexFree = 0;
  ASSUME(k < MEMSZ);
  ASSUME(addr <= MEMSZ - 1);
  ASSUME(addr % 1 == 0);
  memcpy(old, data, MEMSZ);
  ND(U32, value);
  g_mutex_held = 0; g_mutex_locks = 0; mem.shared = 1; g_mon_data = data; g_mon_old = old; g_mon_len = MEMSZ;
  U32 r = i32_atomic_rmw8_xor_u(&mem, addr, value);
  { U64 oldv = spec_le_read(old, addr, 1);
  OBL(r == (U32)oldv, "i32_atomic_rmw8_xor_u: returns the zero-extended old value");
  OBL(data[k] == spec_after_store(k, addr, 1, spec_rmw(SPEC_RMW_XOR, oldv, spec_wrap((U64)value, 1), 1), old[k]), "i32_atomic_rmw8_xor_u: memory holds the wrapped new value in little-endian order, every other byte unchanged"); }
  OBL(g_mutex_held == 0 && g_mutex_locks == 1, "i32_atomic_rmw8_xor_u: the memory mutex is taken exactly once and released on return");
  OBL(mem.data == data && mem.size == m_size && mem.pages == m_pages && mem.maxPages == m_max, "i32_atomic_rmw8_xor_u: the memory descriptor is unchanged");
  CANARY("i32_atomic_rmw8_xor_u returns");
}
#ifndef VERIF_NATIVE
U32 c_i32_atomic_rmw16_xor_u(wasmMemory* mem, U64 addr, U32 value) __CPROVER_requires(1) __CPROVER_ensures(1) __CPROVER_assigns(__CPROVER_object_upto(mem->data + addr, 2), g_mutex_held, g_mutex_locks, __CPROVER_object_whole(mem->data), __CPROVER_object_whole(g_mon_old));
#endif
void h_i32_atomic_rmw16_xor_u(void) {
  ND_ARR(U8, data, MEMSZ);
  U8 old[MEMSZ];
  wasmMemory mem;
  ND(U64, addr);
  ND(U64, k);
  ND(U32, m_size); ND(U32, m_pages); ND(U32, m_max);
  mem.data = data; mem.size = m_size; mem.pages = m_pages; mem.maxPages = m_max; mem.shared = 0; mem.futex = 0; mem.futexFree = 0;
  ASSUME(k < MEMSZ);
  ASSUME(addr <= MEMSZ - 2);
  ASSUME(addr % 2 == 0);
  memcpy(old, data, MEMSZ);
  ND(U32, value);
  g_mutex_held = 0; g_mutex_locks = 0; mem.shared = 1; g_mon_data = data; g_mon_old = old; g_mon_len = MEMSZ;
  U32 r = i32_atomic_rmw16_xor_u(&mem, addr, value);
  { U64 oldv = spec_le_read(old, addr, 2);
  OBL(r == (U32)oldv, "i32_atomic_rmw16_xor_u: returns the zero-extended old value");
  OBL(data[k] == spec_after_store(k, addr, 2, spec_rmw(SPEC_RMW_XOR, oldv, spec_wrap((U64)value, 2), 2), old[k]), "i32_atomic_rmw16_xor_u: memory holds the wrapped new value in little-endian order, every other byte unchanged"); }
  OBL(g_mutex_held == 0 && g_mutex_locks == 1, "i32_atomic_rmw16_xor_u: the memory mutex is taken exactly once and released on return");
  OBL(mem.data == data && mem.size == m_size && mem.pages == m_pages && mem.maxPages == m_max, "i32_atomic_rmw16_xor_u: the memory descriptor is unchanged");
  CANARY("i32_atomic_rmw16_xor_u returns");
}
#ifndef VERIF_NATIVE
U32 c_i32_atomic_rmw_xor(wasmMemory* mem, U64 addr, U32 value) __CPROVER_requires(1) __CPROVER_ensures(1) __CPROVER_assigns(__CPROVER_object_upto(mem->data + addr, 4), g_mutex_held, g_mutex_locks, __CPROVER_object_whole(mem->data), __CPROVER_object_whole(g_mon_old));
#endif
void h_i32_atomic_rmw_xor(void) {
  ND_ARR(U8, data, MEMSZ);
  U8 old[MEMSZ];
  wasmMemory mem;
  ND(U64, addr);
  ND(U64, k);
  ND(U32, m_size); ND(U32, m_pages); ND(U32, m_max);
  mem.data = data; mem.size = m_size; mem.pages = m_pages; mem.maxPages = m_max; mem.shared = 0; mem.futex = 0; mem.futexFree = 0;
  ASSUME(k < MEMSZ);
  ASSUME(addr <= MEMSZ - 4);
  ASSUME(addr % 4 == 0);
  memcpy(old, data, MEMSZ);
  ND(U32, value);
  g_mutex_held = 0; g_mutex_locks = 0; mem.shared = 1; g_mon_data = data; g_mon_old = old; g_mon_len = MEMSZ;
  U32 r = i32_atomic_rmw_xor(&mem, addr, value);
  { U64 oldv = spec_le_read(old, addr, 4);
  OBL(r == (U32)oldv, "i32_atomic_rmw_xor: returns the zero-extended old value");
  OBL(data[k] == spec_after_store(k, addr, 4, spec_rmw(SPEC_RMW_XOR, oldv, spec_wrap((U64)value, 4), 4), old[k]), "i32_atomic_rmw_xor: memory holds the wrapped new value in little-endian order, every other byte unchanged"); }
  OBL(g_mutex_held == 0 && g_mutex_locks == 1, "i32_atomic_rmw_xor: the memory mutex is taken exactly once and released on return");
  OBL(mem.data == data && mem.size == m_size && mem.pages == m_pages && mem.maxPages == m_max, "i32_atomic_rmw_xor: the memory descriptor is unchanged");
  CANARY("i32_atomic_rmw_xor returns");
}
#ifndef VERIF_NATIVE
U64 c_i64_atomic_rmw8_xor_u(wasmMemory* mem, U64 addr, U64 value) __CPROVER_requires(1) __CPROVER_ensures(1) __CPROVER_assigns(__CPROVER_object_upto(mem->data + addr, 1), g_mutex_held, g_mutex_locks, __CPROVER_object_whole(mem->data), __CPROVER_object_whole(g_mon_old));
#endif
void h_i64_atomic_rmw8_xor_u(void) {
  ND_ARR(U8, data, MEMSZ);
  U8 old[MEMSZ];
  wasmMemory mem;
  ND(U64, addr);
  ND(U64, k);
  ND(U32, m_size); ND(U32, m_pages); ND(U32, m_max);
  mem.data = data; mem.size = m_size; mem.pages = m_pages; mem.maxPages = m_max; mem.shared = 0; mem.futex = 0; mem.futexFree = 0;
  ASSUME(k < MEMSZ);
  ASSUME(addr <= MEMSZ - 1);
  ASSUME(addr % 1 == 0);
  memcpy(old, data, MEMSZ);
  ND(U64, value);
  g_mutex_held = 0; g_mutex_locks = 0; mem.shared = 1; g_mon_data = data; g_mon_old = old; g_mon_len = MEMSZ;
  U64 r = i64_atomic_rmw8_xor_u(&mem, addr, value);
  { U64 oldv = spec_le_read(old, addr, 1);
  OBL(r == (U64)oldv, "i64_atomic_rmw8_xor_u: returns the zero-extended old value");
  OBL(data[k] == spec_after_store(k, addr, 1, spec_rmw(SPEC_RMW_XOR, oldv, spec_wrap((U64)value, 1), 1), old[k]), "i64_atomic_rmw8_xor_u: memory holds the wrapped new value in little-endian order, every other byte unchanged"); }
  OBL(g_mutex_held == 0 && g_mutex_locks == 1, "i64_atomic_rmw8_xor_u: the memory mutex is taken exactly once and released on return");
  OBL(mem.data == data && mem.size == m_size && mem.pages == m_pages && mem.maxPages == m_max, "i64_atomic_rmw8_xor_u: the memory descriptor is unchanged");
  CANARY("i64_atomic_rmw8_xor_u returns");
}
#ifndef VERIF_NATIVE
U64 c_i64_atomic_rmw16_xor_u(wasmMemory* mem, U64 addr, U64 value) __CPROVER_requires(1) __CPROVER_ensures(1) __CPROVER_assigns(__CPROVER_object_upto(mem->data + addr, 2), g_mutex_held, g_mutex_locks, __CPROVER_object_whole(mem->data), __CPROVER_object_whole(g_mon_old));
#endif
void h_i64_atomic_rmw16_xor_u(void) {
  ND_ARR(U8, data, MEMSZ);
  U8 old[MEMSZ];
  wasmMemory mem;
  ND(U64, addr);
  ND(U64, k);
  ND(U32, m_size); ND(U32, m_pages); ND(U32, m_max);
  mem.data = data; mem.size = m_size; mem.pages = m_pages; mem.maxPages = m_max; mem.shared = 0; mem.futex = 0; mem.futexFree = 0;
  ASSUME(k < MEMSZ);
  ASSUME(addr <= MEMSZ - 2);
  ASSUME(addr % 2 == 0);
  memcpy(old, data, MEMSZ);
  ND(U64, value);
  g_mutex_held = 0; g_mutex_locks = 0; mem.shared = 1; g_mon_data = data; g_mon_old = old; g_mon_len = MEMSZ;
  U64 r = i64_atomic_rmw16_xor_u(&mem, addr, value);
  { U64 oldv = spec_le_read(old, addr, 2);
  OBL(r == (U64)oldv, "i64_atomic_rmw16_xor_u: returns the zero-extended old value");
  OBL(data[k] == spec_after_store(k, addr, 2, spec_rmw(SPEC_RMW_XOR, oldv, spec_wrap((U64)value, 2), 2), old[k]), "i64_atomic_rmw16_xor_u: memory holds the wrapped new value in little-endian order, every other byte unchanged"); }
  OBL(g_mutex_held == 0 && g_mutex_locks == 1, "i64_atomic_rmw16_xor_u: the memory mutex is taken exactly once and released on return");
  OBL(mem.data == data && mem.size == m_size && mem.pages == m_pages && mem.maxPages == m_max, "i64_atomic_rmw16_xor_u: the memory descriptor is unchanged");
  CANARY("i64_atomic_rmw16_xor_u returns");
}
#ifndef VERIF_NATIVE
U64 c_i64_atomic_rmw32_xor_u(wasmMemory* mem, U64 addr, U64 value) __CPROVER_requires(1) __CPROVER_ensures(1) __CPROVER_assigns(__CPROVER_object_upto(mem->data + addr, 4), g_mutex_held, g_mutex_locks, __CPROVER_object_whole(mem->data), __CPROVER_object_whole(g_mon_old));
#endif
void h_i64_atomic_rmw32_xor_u(void) {
  ND_ARR(U8, data, MEMSZ);
  U8 old[MEMSZ];
  wasmMemory mem;
  ND(U64, addr);
  ND(U64, k);
  ND(U32, m_size); ND(U32, m_pages); ND(U32, m_max);
  mem.data = data; mem.size = m_size; mem.pages = m_pages; mem.maxPages = m_max; mem.shared = 0; mem.futex = 0; mem.futexFree = 0;
  ASSUME(k < MEMSZ);
  ASSUME(addr <= MEMSZ - 4);
  ASSUME(addr % 4 == 0);
  memcpy(old, data, MEMSZ);
  ND(U64, value);
  g_mutex_held = 0; g_mutex_locks = 0; mem.shared = 1; g_mon_data = data; g_mon_old = old; g_mon_len = MEMSZ;
  U64 r = i64_atomic_rmw32_xor_u(&mem, addr, value);
  { U64 oldv = spec_le_read(old, addr, 4);
  OBL(r == (U64)oldv, "i64_atomic_rmw32_xor_u: returns the zero-extended old value");
  OBL(data[k] == spec_after_store(k, addr, 4, spec_rmw(SPEC_RMW_XOR, oldv, spec_wrap((U64)value, 4), 4), old[k]), "i64_atomic_rmw32_xor_u: memory holds the wrapped new value in little-endian order, every other byte unchanged"); }
  OBL(g_mutex_held == 0 && g_mutex_locks == 1, "i64_atomic_rmw32_xor_u: the memory mutex is taken exactly once and released on return");
  OBL(mem.data == data && mem.size == m_size && mem.pages == m_pages && mem.maxPages == m_max, "i64_atomic_rmw32_xor_u: the memory descriptor is unchanged");
  CANARY("i64_atomic_rmw32_xor_u returns");
}
#ifndef VERIF_NATIVE
U64 c_i64_atomic_rmw_xor(wasmMemory* mem, U64 addr, U64 value) __CPROVER_requires(1) __CPROVER_ensures(1) __CPROVER_assigns(__CPROVER_object_upto(mem->data + addr, 8), g_mutex_held, g_mutex_locks, __CPROVER_object_whole(mem->data), __CPROVER_object_whole(g_mon_old));
#endif
void h_i64_atomic_rmw_xor(void) {
  ND_ARR(U8, data, MEMSZ);
  U8 old[MEMSZ];
  wasmMemory mem;
  ND(U64, addr);
  ND(U64, k);
  ND(U32, m_size); ND(U32, m_pages); ND(U32, m_max);
  mem.data = data; mem.size = m_size; mem.pages = m_pages; mem.maxPages = m_max; mem.shared = 0; mem.futex = 0; mem.futexFree = 0;
  ASSUME(k < MEMSZ);
  ASSUME(addr <= MEMSZ - 8);
  ASSUME(addr % 8 == 0);
  memcpy(old, data, MEMSZ);
  ND(U64, value);
  g_mutex_held = 0; g_mutex_locks = 0; mem.shared = 1; g_mon_data = data; g_mon_old = old; g_mon_len = MEMSZ;
  U64 r = i64_atomic_rmw_xor(&mem, addr, value);
  { U64 oldv = spec_le_read(old, addr, 8);
  OBL(r == (U64)oldv, "i64_atomic_rmw_xor: returns the zero-extended old value");
  OBL(data[k] == spec_after_store(k, addr, 8, spec_rmw(SPEC_RMW_XOR, oldv, spec_wrap((U64)value, 8), 8), old[k]), "i64_atomic_rmw_xor: memory holds the wrapped new value in little-endian order, every other byte unchanged"); }
  OBL(g_mutex_held == 0 && g_mutex_locks == 1, "i64_atomic_rmw_xor: the memory mutex is taken exactly once and released on return");
  OBL(mem.data == data && mem.size == m_size && mem.pages == m_pages && mem.maxPages == m_max, "i64_atomic_rmw_xor: the memory descriptor is unchanged");
  CANARY("i64_atomic_rmw_xor returns");
}
#ifndef VERIF_NATIVE
U32 c_i32_atomic_rmw8_xchg_u(wasmMemory* mem, U64 addr, U32 value) __CPROVER_requires(1) __CPROVER_ensures(1) __CPROVER_assigns(__CPROVER_object_upto(mem->data + addr, 1), g_mutex_held, g_mutex_locks, __CPROVER_object_whole(mem->data), __CPROVER_object_whole(g_mon_old));
#endif
void h_i32_atomic_rmw8_xchg_u(void) {
  ND_ARR(U8, data, MEMSZ);
  U8 old[MEMSZ];
  wasmMemory mem;
  ND(U64, addr);
  ND(U64, k);
  ND(U32, m_size); ND(U32, m_pages); ND(U32, m_max);
  mem.data = data; mem.size = m_size; mem.pages = m_pages; mem.maxPages = m_max; mem.shared = 0; mem.futex = 0; mem.futexFree = 0;
  ASSUME(k < MEMSZ);
  ASSUME(addr <= MEMSZ - 1);
  ASSUME(addr % 1 == 0);
  memcpy(old, data, MEMSZ);
  ND(U32, value);
  g_mutex_held = 0; g_mutex_locks = 0; mem.shared = 1; g_mon_data = data; g_mon_old = old; g_mon_len = MEMSZ;
  U32 r = i32_atomic_rmw8_xchg_u(&mem, addr, value);
  { U64 oldv = spec_le_read(old, addr, 1);
  OBL(r == (U32)oldv, "i32_atomic_rmw8_xchg_u: returns the zero-extended old value");
  OBL(data[k] == spec_after_store(k, addr, 1, spec_rmw(SPEC_RMW_XCHG, oldv, spec_wrap((U64)value, 1), 1), old[k]), "i32_atomic_rmw8_xchg_u: memory holds the wrapped new value in little-endian order, every other byte unchanged"); }
  OBL(g_mutex_held == 0 && g_mutex_locks == 1, "i32_atomic_rmw8_xchg_u: the memory mutex is taken exactly once and released on return");
  OBL(mem.data == data && mem.size == m_size && mem.pages == m_pages && mem.maxPages == m_max, "i32_atomic_rmw8_xchg_u: the memory descriptor is unchanged");
  CANARY("i32_atomic_rmw8_xchg_u returns");
}
#ifndef VERIF_NATIVE
U32 c_i32_atomic_rmw16_xchg_u(wasmMemory* mem, U64 addr, U32 value) __CPROVER_requires(1) __CPROVER_ensures(1) __CPROVER_assigns(__CPROVER_object_upto(mem->data + addr, 2), g_mutex_held, g_mutex_locks, __CPROVER_object_whole(mem->data), __CPROVER_object_whole(g_mon_old));
#endif
void h_i32_atomic_rmw16_xchg_u(void) {
  ND_ARR(U8, data, MEMSZ);
  U8 old[MEMSZ];
  wasmMemory mem;
  ND(U64, addr);
  ND(U64, k);
  ND(U32, m_size); ND(U32, m_pages); ND(U32, m_max);
  mem.data = data; mem.size = m_size; mem.pages = m_pages; mem.maxPages = m_max; mem.shared = 0; mem.futex = 0; mem.futexFree = 0;
  ASSUME(k < MEMSZ);
  ASSUME(addr <= MEMSZ - 2);
  ASSUME(addr % 2 == 0);
  memcpy(old, data, MEMSZ);
  ND(U32, value);
  g_mutex_held = 0; g_mutex_locks = 0; mem.shared = 1; g_mon_data = data; g_mon_old = old; g_mon_len = MEMSZ;
  U32 r = i32_atomic_rmw16_xchg_u(&mem, addr, value);
  { U64 oldv = spec_le_read(old, addr, 2);
  OBL(r == (U32)oldv, "i32_atomic_rmw16_xchg_u: returns the zero-extended old value");
  OBL(data[k] == spec_after_store(k, addr, 2, spec_rmw(SPEC_RMW_XCHG, oldv, spec_wrap((U64)value, 2), 2), old[k]), "i32_atomic_rmw16_xchg_u: memory holds the wrapped new value in little-endian order, every other byte unchanged"); }
  OBL(g_mutex_held == 0 && g_mutex_locks == 1, "i32_atomic_rmw16_xchg_u: the memory mutex is taken exactly once and released on return");
  OBL(mem.data == data && mem.size == m_size && mem.pages == m_pages && mem.maxPages == m_max, "i32_atomic_rmw16_xchg_u: the memory descriptor is unchanged");
  CANARY("i32_atomic_rmw16_xchg_u returns");
}
#ifndef VERIF_NATIVE
U32 c_i32_atomic_rmw_xchg(wasmMemory* mem, U64 addr, U32 value) __CPROVER_requires(1) __CPROVER_ensures(1) __CPROVER_assigns(__CPROVER_object_upto(mem->data + addr, 4), g_mutex_held, g_mutex_locks, __CPROVER_object_whole(mem->data), __CPROVER_object_whole(g_mon_old));
#endif
void h_i32_atomic_rmw_xchg(void) {
  ND_ARR(U8, data, MEMSZ);
  U8 old[MEMSZ];
  wasmMemory mem;
  ND(U64, addr);
  ND(U64, k);
  ND(U32, m_size); ND(U32, m_pages); ND(U32, m_max);
  mem.data = data; mem.size = m_size; mem.pages = m_pages; mem.maxPages = m_max; mem.shared = 0; mem.futex = 0; mem.futexFree = 0;
  ASSUME(k < MEMSZ);
  ASSUME(addr <= MEMSZ - 4);
  ASSUME(addr % 4 == 0);
  memcpy(old, data, MEMSZ);
  ND(U32, value);
  g_mutex_held = 0; g_mutex_locks = 0; mem.shared = 1; g_mon_data = data; g_mon_old = old; g_mon_len = MEMSZ;
  U32 r = i32_atomic_rmw_xchg(&mem, addr, value);
  { U64 oldv = spec_le_read(old, addr, 4);
  OBL(r == (U32)oldv, "i32_atomic_rmw_xchg: returns the zero-extended old value");
  OBL(data[k] == spec_after_store(k, addr, 4, spec_rmw(SPEC_RMW_XCHG, oldv, spec_wrap((U64)value, 4), 4), old[k]), "i32_atomic_rmw_xchg: memory holds the wrapped new value in little-endian order, every other byte unchanged"); }
  OBL(g_mutex_held == 0 && g_mutex_locks == 1, "i32_atomic_rmw_xchg: the memory mutex is taken exactly once and released on return");
  OBL(mem.data == data && mem.size == m_size && mem.pages == m_pages && mem.maxPages == m_max, "i32_atomic_rmw_xchg: the memory descriptor is unchanged");
  CANARY("i32_atomic_rmw_xchg returns");
}
#ifndef VERIF_NATIVE
U64 c_i64_atomic_rmw8_xchg_u(wasmMemory* mem, U64 addr, U64 value) __CPROVER_requires(1) __CPROVER_ensures(1) __CPROVER_assigns(__CPROVER_object_upto(mem->data + addr, 1), g_mutex_held, g_mutex_locks, __CPROVER_object_whole(mem->data), __CPROVER_object_whole(g_mon_old));
#endif
void h_i64_atomic_rmw8_xchg_u(void) {
  ND_ARR(U8, data, MEMSZ);
  U8 old[MEMSZ];
  wasmMemory mem;
  ND(U64, addr);
  ND(U64, k);
  ND(U32, m_size); ND(U32, m_pages); ND(U32, m_max);
  mem.data = data; mem.size = m_size; mem.pages = m_pages; mem.maxPages = m_max; mem.shared = 0; mem.futex = 0; mem.futexFree = 0;
  ASSUME(k < MEMSZ);
  ASSUME(addr <= MEMSZ - 1);
  ASSUME(addr % 1 == 0);
  memcpy(old, data, MEMSZ);
  ND(U64, value);
  g_mutex_held = 0; g_mutex_locks = 0; mem.shared = 1; g_mon_data = data; g_mon_old = old; g_mon_len = MEMSZ;
  U64 r = i64_atomic_rmw8_xchg_u(&mem, addr, value);
  { U64 oldv = spec_le_read(old, addr, 1);
  OBL(r == (U64)oldv, "i64_atomic_rmw8_xchg_u: returns the zero-extended old value");
  OBL(data[k] == spec_after_store(k, addr, 1, spec_rmw(SPEC_RMW_XCHG, oldv, spec_wrap((U64)value, 1), 1), old[k]), "i64_atomic_rmw8_xchg_u: memory holds the wrapped new value in little-endian order, every other byte unchanged"); }
  OBL(g_mutex_held == 0 && g_mutex_locks == 1, "i64_atomic_rmw8_xchg_u: the memory mutex is taken exactly once and released on return");
  OBL(mem.data == data && mem.size == m_size && mem.pages == m_pages && mem.maxPages == m_max, "i64_atomic_rmw8_xchg_u: the memory descriptor is unchanged");
  CANARY("i64_atomic_rmw8_xchg_u returns");
}
#ifndef VERIF_NATIVE
U64 c_i64_atomic_rmw16_xchg_u(wasmMemory* mem, U64 addr, U64 value) __CPROVER_requires(1) __CPROVER_ensures(1) __CPROVER_assigns(__CPROVER_object_upto(mem->data + addr, 2), g_mutex_held, g_mutex_locks, __CPROVER_object_whole(mem->data), __CPROVER_object_whole(g_mon_old));
#endif
void h_i64_atomic_rmw16_xchg_u(void) {
  ND_ARR(U8, data, MEMSZ);
  U8 old[MEMSZ];
  wasmMemory mem;
  ND(U64, addr);
  ND(U64, k);
  ND(U32, m_size); ND(U32, m_pages); ND(U32, m_max);
  mem.data = data; mem.size = m_size; mem.pages = m_pages; mem.maxPages = m_max; mem.shared = 0; mem.futex = 0; mem.futexFree = 0;
  ASSUME(k < MEMSZ);
  ASSUME(addr <= MEMSZ - 2);
  ASSUME(addr % 2 == 0);
  memcpy(old, data, MEMSZ);
  ND(U64, value);
  g_mutex_held = 0; g_mutex_locks = 0; mem.shared = 1; g_mon_data = data; g_mon_old = old; g_mon_len = MEMSZ;
  U64 r = i64_atomic_rmw16_xchg_u(&mem, addr, value);
  { U64 oldv = spec_le_read(old, addr, 2);
  OBL(r == (U64)oldv, "i64_atomic_rmw16_xchg_u: returns the zero-extended old value");
  OBL(data[k] == spec_after_store(k, addr, 2, spec_rmw(SPEC_RMW_XCHG, oldv, spec_wrap((U64)value, 2), 2), old[k]), "i64_atomic_rmw16_xchg_u: memory holds the wrapped new value in little-endian order, every other byte unchanged"); }
  OBL(g_mutex_held == 0 && g_mutex_locks == 1, "i64_atomic_rmw16_xchg_u: the memory mutex is taken exactly once and released on return");
  OBL(mem.data == data && mem.size == m_size && mem.pages == m_pages && mem.maxPages == m_max, "i64_atomic_rmw16_xchg_u: the memory descriptor is unchanged");
  CANARY("i64_atomic_rmw16_xchg_u returns");
}
#ifndef VERIF_NATIVE
U64 c_i64_atomic_rmw32_xchg_u(wasmMemory* mem, U64 addr, U64 value) __CPROVER_requires(1) __CPROVER_ensures(1) __CPROVER_assigns(__CPROVER_object_upto(mem->data + addr, 4), g_mutex_held, g_mutex_locks, __CPROVER_object_whole(mem->data), __CPROVER_object_whole(g_mon_old));
#endif
void h_i64_atomic_rmw32_xchg_u(void) {
  ND_ARR(U8, data, MEMSZ);
  U8 old[MEMSZ];
  wasmMemory mem;
  ND(U64, addr);
  ND(U64, k);
  ND(U32, m_size); ND(U32, m_pages); ND(U32, m_max);
  mem.data = data; mem.size = m_size; mem.pages = m_pages; mem.maxPages = m_max; mem.shared = 0; mem.futex = 0; mem.futexFree = 0;
  ASSUME(k < MEMSZ);
  ASSUME(addr <= MEMSZ - 4);
  ASSUME(addr % 4 == 0);
  memcpy(old, data, MEMSZ);
  ND(U64, value);
  g_mutex_held = 0; g_mutex_locks = 0; mem.shared = 1; g_mon_data = data; g_mon_old = old; g_mon_len = MEMSZ;
  U64 r = i64_atomic_rmw32_xchg_u(&mem, addr, value);
  { U64 oldv = spec_le_read(old, addr, 4);
  OBL(r == (U64)oldv, "i64_atomic_rmw32_xchg_u: returns the zero-extended old value");
  OBL(data[k] == spec_after_store(k, addr, 4, spec_rmw(SPEC_RMW_XCHG, oldv, spec_wrap((U64)value, 4), 4), old[k]), "i64_atomic_rmw32_xchg_u: memory holds the wrapped new value in little-endian order, every other byte unchanged"); }
  OBL(g_mutex_held == 0 && g_mutex_locks == 1, "i64_atomic_rmw32_xchg_u: the memory mutex is taken exactly once and released on return");
  OBL(mem.data == data && mem.size == m_size && mem.pages == m_pages && mem.maxPages == m_max, "i64_atomic_rmw32_xchg_u: the memory descriptor is unchanged");
  CANARY("i64_atomic_rmw32_xchg_u returns");
}
#ifndef VERIF_NATIVE
U64 c_i64_atomic_rmw_xchg(wasmMemory* mem, U64 addr, U64 value) __CPROVER_requires(1) __CPROVER_ensures(1) __CPROVER_assigns(__CPROVER_object_upto(mem->data + addr, 8), g_mutex_held, g_mutex_locks, __CPROVER_object_whole(mem->data), __CPROVER_object_whole(g_mon_old));
#endif
void h_i64_atomic_rmw_xchg(void) {
  ND_ARR(U8, data, MEMSZ);
  U8 old[MEMSZ];
  wasmMemory mem;
  ND(U64, addr);
  ND(U64, k);
  ND(U32, m_size); ND(U32, m_pages); ND(U32, m_max);
  mem.data = data; mem.size = m_size; mem.pages = m_pages; mem.maxPages = m_max; mem.shared = 0; mem.futex = 0; mem.futexFree = 0;
  ASSUME(k < MEMSZ);
  ASSUME(addr <= MEMSZ - 8);
  ASSUME(addr % 8 == 0);
  memcpy(old, data, MEMSZ);
  ND(U64, value);
  g_mutex_held = 0; g_mutex_locks = 0; mem.shared = 1; g_mon_data = data; g_mon_old = old; g_mon_len = MEMSZ;
  U64 r = i64_atomic_rmw_xchg(&mem, addr, value);
  { U64 oldv = spec_le_read(old, addr, 8);
  OBL(r == (U64)oldv, "i64_atomic_rmw_xchg: returns the zero-extended old value");
  OBL(data[k] == spec_after_store(k, addr, 8, spec_rmw(SPEC_RMW_XCHG, oldv, spec_wrap((U64)value, 8), 8), old[k]), "i64_atomic_rmw_xchg: memory holds the wrapped new value in little-endian order, every other byte unchanged"); }
  OBL(g_mutex_held == 0 && g_mutex_locks == 1, "i64_atomic_rmw_xchg: the memory mutex is taken exactly once and released on return");
  OBL(mem.data == data && mem.size == m_size && mem.pages == m_pages && mem.maxPages == m_max, "i64_atomic_rmw_xchg: the memory descriptor is unchanged");
  CANARY("i64_atomic_rmw_xchg returns");
}
#ifndef VERIF_NATIVE
U32 c_i32_atomic_rmw8_cmpxchg_u(wasmMemory* mem, U64 addr, U32 expected, U32 replacement) __CPROVER_requires(1) __CPROVER_ensures(1) __CPROVER_assigns(__CPROVER_object_upto(mem->data + addr, 1), g_mutex_held, g_mutex_locks, __CPROVER_object_whole(mem->data), __CPROVER_object_whole(g_mon_old));
#endif
void h_i32_atomic_rmw8_cmpxchg_u(void) {
  ND_ARR(U8, data, MEMSZ);
  U8 old[MEMSZ];
  wasmMemory mem;
  ND(U64, addr);
  ND(U64, k);
  ND(U32, m_size); ND(U32, m_pages); ND(U32, m_max);
  mem.data = data; mem.size = m_size; mem.pages = m_pages; mem.maxPages = m_max; mem.shared = 0; mem.futex = 0; mem.futexFree = 0;
  ASSUME(k < MEMSZ);
  ASSUME(addr <= MEMSZ - 1);
  ASSUME(addr % 1 == 0);
  memcpy(old, data, MEMSZ);
  ND(U32, expected); ND(U32, replacement);
  g_mutex_held = 0; g_mutex_locks = 0; mem.shared = 1; g_mon_data = data; g_mon_old = old; g_mon_len = MEMSZ;
  U32 r = i32_atomic_rmw8_cmpxchg_u(&mem, addr, expected, replacement);
  { U64 oldv = spec_le_read(old, addr, 1); int hit = (oldv == spec_wrap((U64)expected, 1));
  OBL(r == (U32)oldv, "i32_atomic_rmw8_cmpxchg_u: returns the zero-extended old value");
  OBL(data[k] == (hit ? spec_after_store(k, addr, 1, spec_wrap((U64)replacement, 1), old[k]) : old[k]), "i32_atomic_rmw8_cmpxchg_u: the wrapped replacement is written iff the old value equals the wrapped expected value"); }
  OBL(g_mutex_held == 0 && g_mutex_locks == 1, "i32_atomic_rmw8_cmpxchg_u: the memory mutex is taken exactly once and released on return");
  OBL(mem.data == data && mem.size == m_size && mem.pages == m_pages && mem.maxPages == m_max, "i32_atomic_rmw8_cmpxchg_u: the memory descriptor is unchanged");
  CANARY("i32_atomic_rmw8_cmpxchg_u returns");
}
#ifndef VERIF_NATIVE
U32 c_i32_atomic_rmw16_cmpxchg_u(wasmMemory* mem, U64 addr, U32 expected, U32 replacement) __CPROVER_requires(1) __CPROVER_ensures(1) __CPROVER_assigns(__CPROVER_object_upto(mem->data + addr, 2), g_mutex_held, g_mutex_locks, __CPROVER_object_whole(mem->data), __CPROVER_object_whole(g_mon_old));
#endif
void h_i32_atomic_rmw16_cmpxchg_u(void) {
  ND_ARR(U8, data, MEMSZ);
  U8 old[MEMSZ];
  wasmMemory mem;
  ND(U64, addr);
  ND(U64, k);
  ND(U32, m_size); ND(U32, m_pages); ND(U32, m_max);
  mem.data = data; mem.size = m_size; mem.pages = m_pages; mem.maxPages = m_max; mem.shared = 0; mem.futex = 0; mem.futexFree = 0;
  ASSUME(k < MEMSZ);
  ASSUME(addr <= MEMSZ - 2);
  ASSUME(addr % 2 == 0);
  memcpy(old, data, MEMSZ);
  ND(U32, expected); ND(U32, replacement);
  g_mutex_held = 0; g_mutex_locks = 0; mem.shared = 1; g_mon_data = data; g_mon_old = old; g_mon_len = MEMSZ;
  U32 r = i32_atomic_rmw16_cmpxchg_u(&mem, addr, expected, replacement);
  { U64 oldv = spec_le_read(old, addr, 2); int hit = (oldv == spec_wrap((U64)expected, 2));
  OBL(r == (U32)oldv, "i32_atomic_rmw16_cmpxchg_u: returns the zero-extended old value");
  OBL(data[k] == (hit ? spec_after_store(k, addr, 2, spec_wrap((U64)replacement, 2), old[k]) : old[k]), "i32_atomic_rmw16_cmpxchg_u: the wrapped replacement is written iff the old value equals the wrapped expected value"); }
  OBL(g_mutex_held == 0 && g_mutex_locks == 1, "i32_atomic_rmw16_cmpxchg_u: the memory mutex is taken exactly once and released on return");
  OBL(mem.data == data && mem.size == m_size && mem.pages == m_pages && mem.maxPages == m_max, "i32_atomic_rmw16_cmpxchg_u: the memory descriptor is unchanged");
  CANARY("i32_atomic_rmw16_cmpxchg_u returns");
}
#ifndef VERIF_NATIVE
U32 c_i32_atomic_rmw_cmpxchg(wasmMemory* mem, U64 addr, U32 expected, U32 replacement) __CPROVER_requires(1) __CPROVER_ensures(1) __CPROVER_assigns(__CPROVER_object_upto(mem->data + addr, 4), g_mutex_held, g_mutex_locks, __CPROVER_object_whole(mem->data), __CPROVER_object_whole(g_mon_old));
#endif
void h_i32_atomic_rmw_cmpxchg(void) {
  ND_ARR(U8, data, MEMSZ);
  U8 old[MEMSZ];
  wasmMemory mem;
  ND(U64, addr);
  ND(U64, k);
  ND(U32, m_size); ND(U32, m_pages); ND(U32, m_max);
  mem.data = data; mem.size = m_size; mem.pages = m_pages; mem.maxPages = m_max; mem.shared = 0; mem.futex = 0; mem.futexFree = 0;
  ASSUME(k < MEMSZ);
  ASSUME(addr <= MEMSZ - 4);
  ASSUME(addr % 4 == 0);
  memcpy(old, data, MEMSZ);
  ND(U32, expected); ND(U32, replacement);
  g_mutex_held = 0; g_mutex_locks = 0; mem.shared = 1; g_mon_data = data; g_mon_old = old; g_mon_len = MEMSZ;
  U32 r = i32_atomic_rmw_cmpxchg(&mem, addr, expected, replacement);
  { U64 oldv = spec_le_read(old, addr, 4); int hit = (oldv == spec_wrap((U64)expected, 4));
  OBL(r == (U32)oldv, "i32_atomic_rmw_cmpxchg: returns the zero-extended old value");
  OBL(data[k] == (hit ? spec_after_store(k, addr, 4, spec_wrap((U64)replacement, 4), old[k]) : old[k]), "i32_atomic_rmw_cmpxchg: the wrapped replacement is written iff the old value equals the wrapped expected value"); }
  OBL(g_mutex_held == 0 && g_mutex_locks == 1, "i32_atomic_rmw_cmpxchg: the memory mutex is taken exactly once and released on return");
  OBL(mem.data == data && mem.size == m_size && mem.pages == m_pages && mem.maxPages == m_max, "i32_atomic_rmw_cmpxchg: the memory descriptor is unchanged");
  CANARY("i32_atomic_rmw_cmpxchg returns");
}
#ifndef VERIF_NATIVE
U64 c_i64_atomic_rmw8_cmpxchg_u(wasmMemory* mem, U64 addr, U64 expected, U64 replacement) __CPROVER_requires(1) __CPROVER_ensures(1) __CPROVER_assigns(__CPROVER_object_upto(mem->data + addr, 1), g_mutex_held, g_mutex_locks, __CPROVER_object_whole(mem->data), __CPROVER_object_whole(g_mon_old));
#endif
void h_i64_atomic_rmw8_cmpxchg_u(void) {
  ND_ARR(U8, data, MEMSZ);
  U8 old[MEMSZ];
  wasmMemory mem;
  ND(U64, addr);
  ND(U64, k);
  ND(U32, m_size); ND(U32, m_pages); ND(U32, m_max);
  mem.data = data; mem.size = m_size; mem.pages = m_pages; mem.maxPages = m_max; mem.shared = 0; mem.futex = 0; mem.futexFree = 0;
  ASSUME(k < MEMSZ);
  ASSUME(addr <= MEMSZ - 1);
  ASSUME(addr % 1 == 0);
  memcpy(old, data, MEMSZ);
  ND(U64, expected); ND(U64, replacement);
  g_mutex_held = 0; g_mutex_locks = 0; mem.shared = 1; g_mon_data = data; g_mon_old = old; g_mon_len = MEMSZ;
  U64 r = i64_atomic_rmw8_cmpxchg_u(&mem, addr, expected, replacement);
  { U64 oldv = spec_le_read(old, addr, 1); int hit = (oldv == spec_wrap((U64)expected, 1));
  OBL(r == (U64)oldv, "i64_atomic_rmw8_cmpxchg_u: returns the zero-extended old value");
  OBL(data[k] == (hit ? spec_after_store(k, addr, 1, spec_wrap((U64)replacement, 1), old[k]) : old[k]), "i64_atomic_rmw8_cmpxchg_u: the wrapped replacement is written iff the old value equals the wrapped expected value"); }
  OBL(g_mutex_held == 0 && g_mutex_locks == 1, "i64_atomic_rmw8_cmpxchg_u: the memory mutex is taken exactly once and released on return");
  OBL(mem.data == data && mem.size == m_size && mem.pages == m_pages && mem.maxPages == m_max, "i64_atomic_rmw8_cmpxchg_u: the memory descriptor is unchanged");
  CANARY("i64_atomic_rmw8_cmpxchg_u returns");
}
#ifndef VERIF_NATIVE
U64 c_i64_atomic_rmw16_cmpxchg_u(wasmMemory* mem, U64 addr, U64 expected, U64 replacement) __CPROVER_requires(1) __CPROVER_ensures(1) __CPROVER_assigns(__CPROVER_object_upto(mem->data + addr, 2), g_mutex_held, g_mutex_locks, __CPROVER_object_whole(mem->data), __CPROVER_object_whole(g_mon_old));
#endif
void h_i64_atomic_rmw16_cmpxchg_u(void) {
  ND_ARR(U8, data, MEMSZ);
  U8 old[MEMSZ];
  wasmMemory mem;
  ND(U64, addr);
  ND(U64, k);
  ND(U32, m_size); ND(U32, m_pages); ND(U32, m_max);
  mem.data = data; mem.size = m_size; mem.pages = m_pages; mem.maxPages = m_max; mem.shared = 0; mem.futex = 0; mem.futexFree = 0;
  ASSUME(k < MEMSZ);
  ASSUME(addr <= MEMSZ - 2);
  ASSUME(addr % 2 == 0);
  memcpy(old, data, MEMSZ);
  ND(U64, expected); ND(U64, replacement);
  g_mutex_held = 0; g_mutex_locks = 0; mem.shared = 1; g_mon_data = data; g_mon_old = old; g_mon_len = MEMSZ;
  U64 r = i64_atomic_rmw16_cmpxchg_u(&mem, addr, expected, replacement);
  { U64 oldv = spec_le_read(old, addr, 2); int hit = (oldv == spec_wrap((U64)expected, 2));
  OBL(r == (U64)oldv, "i64_atomic_rmw16_cmpxchg_u: returns the zero-extended old value");
  OBL(data[k] == (hit ? spec_after_store(k, addr, 2, spec_wrap((U64)replacement, 2), old[k]) : old[k]), "i64_atomic_rmw16_cmpxchg_u: the wrapped replacement is written iff the old value equals the wrapped expected value"); }
  OBL(g_mutex_held == 0 && g_mutex_locks == 1, "i64_atomic_rmw16_cmpxchg_u: the memory mutex is taken exactly once and released on return");
  OBL(mem.data == data && mem.size == m_size && mem.pages == m_pages && mem.maxPages == m_max, "i64_atomic_rmw16_cmpxchg_u: the memory descriptor is unchanged");
  CANARY("i64_atomic_rmw16_cmpxchg_u returns");
}
#ifndef VERIF_NATIVE
U64 c_i64_atomic_rmw32_cmpxchg_u(wasmMemory* mem, U64 addr, U64 expected, U64 replacement) __CPROVER_requires(1) __CPROVER_ensures(1) __CPROVER_assigns(__CPROVER_object_upto(mem->data + addr, 4), g_mutex_held, g_mutex_locks, __CPROVER_object_whole(mem->data), __CPROVER_object_whole(g_mon_old));
#endif
void h_i64_atomic_rmw32_cmpxchg_u(void) {
  ND_ARR(U8, data, MEMSZ);
  U8 old[MEMSZ];
  wasmMemory mem;
  ND(U64, addr);
  ND(U64, k);
  ND(U32, m_size); ND(U32, m_pages); ND(U32, m_max);
  mem.data = data; mem.size = m_size; mem.pages = m_pages; mem.maxPages = m_max; mem.shared = 0; mem.futex = 0; mem.futexFree = 0;
  ASSUME(k < MEMSZ);
  ASSUME(addr <= MEMSZ - 4);
  ASSUME(addr % 4 == 0);
  memcpy(old, data, MEMSZ);
  ND(U64, expected); ND(U64, replacement);
  g_mutex_held = 0; g_mutex_locks = 0; mem.shared = 1; g_mon_data = data; g_mon_old = old; g_mon_len = MEMSZ;
  U64 r = i64_atomic_rmw32_cmpxchg_u(&mem, addr, expected, replacement);
  { U64 oldv = spec_le_read(old, addr, 4); int hit = (oldv == spec_wrap((U64)expected, 4));
  OBL(r == (U64)oldv, "i64_atomic_rmw32_cmpxchg_u: returns the zero-extended old value");
  OBL(data[k] == (hit ? spec_after_store(k, addr, 4, spec_wrap((U64)replacement, 4), old[k]) : old[k]), "i64_atomic_rmw32_cmpxchg_u: the wrapped replacement is written iff the old value equals the wrapped expected value"); }
  OBL(g_mutex_held == 0 && g_mutex_locks == 1, "i64_atomic_rmw32_cmpxchg_u: the memory mutex is taken exactly once and released on return");
  OBL(mem.data == data && mem.size == m_size && mem.pages == m_pages && mem.maxPages == m_max, "i64_atomic_rmw32_cmpxchg_u: the memory descriptor is unchanged");
  CANARY("i64_atomic_rmw32_cmpxchg_u returns");
}
#ifndef VERIF_NATIVE
U64 c_i64_atomic_rmw_cmpxchg(wasmMemory* mem, U64 addr, U64 expected, U64 replacement) __CPROVER_requires(1) __CPROVER_ensures(1) __CPROVER_assigns(__CPROVER_object_upto(mem->data + addr, 8), g_mutex_held, g_mutex_locks, __CPROVER_object_whole(mem->data), __CPROVER_object_whole(g_mon_old));
#endif
void h_i64_atomic_rmw_cmpxchg(void) {
  ND_ARR(U8, data, MEMSZ);
  U8 old[MEMSZ];
  wasmMemory mem;
  ND(U64, addr);
  ND(U64, k);
  ND(U32, m_size); ND(U32, m_pages); ND(U32, m_max);
  mem.data = data; mem.size = m_size; mem.pages = m_pages; mem.maxPages = m_max; mem.shared = 0; mem.futex = 0; mem.futexFree = 0;
  ASSUME(k < MEMSZ);
  ASSUME(addr <= MEMSZ - 8);
  ASSUME(addr % 8 == 0);
  memcpy(old, data, MEMSZ);
  ND(U64, expected); ND(U64, replacement);
  g_mutex_held = 0; g_mutex_locks = 0; mem.shared = 1; g_mon_data = data; g_mon_old = old; g_mon_len = MEMSZ;
  U64 r = i64_atomic_rmw_cmpxchg(&mem, addr, expected, replacement);
  { U64 oldv = spec_le_read(old, addr, 8); int hit = (oldv == spec_wrap((U64)expected, 8));
  OBL(r == (U64)oldv, "i64_atomic_rmw_cmpxchg: returns the zero-extended old value");
  OBL(data[k] == (hit ? spec_after_store(k, addr, 8, spec_wrap((U64)replacement, 8), old[k]) : old[k]), "i64_atomic_rmw_cmpxchg: the wrapped replacement is written iff the old value equals the wrapped expected value"); }
  OBL(g_mutex_held == 0 && g_mutex_locks == 1, "i64_atomic_rmw_cmpxchg: the memory mutex is taken exactly once and released on return");
  OBL(mem.data == data && mem.size == m_size && mem.pages == m_pages && mem.maxPages == m_max, "i64_atomic_rmw_cmpxchg: the memory descriptor is unchanged");
  CANARY("i64_atomic_rmw_cmpxchg returns");
}
