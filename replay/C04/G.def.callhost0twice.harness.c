
#define DEFINED_TABLE 1
#include "vh.h"
#include "w2c2_base.h"
#include "wasm_int.h"
#include "wasm_float.h"
#include "libm_markers.h"
#include "trapstub.h"
/* ---- host side ---- */
static int g_h3_calls, g_h0_calls, g_hv_calls; static void* g_h_inst; static U32 g_h_a0; static U64 g_h_a1; static U32 g_h_a2bits; static U64 g_h_ret;
static U64 g_hv_dbits; static U32 g_hv_i; static U32 g_h0_ret[2];
U64 env__host3(void* inst, U32 a, U64 b, F32 c) { ND(U64, h3ret); g_h3_calls++; g_h_inst = inst; g_h_a0 = a; g_h_a1 = b; g_h_a2bits = vh_f32bits(c); g_h_ret = h3ret; return h3ret; }
U32 env__host0(void* inst) { ND(U32, h0ret); g_h_inst = inst; if (g_h0_calls < 2) g_h0_ret[g_h0_calls] = h0ret; g_h0_calls++; return h0ret; }
void env__hostv(void* inst, F64 d, U32 i) { g_hv_calls++; g_h_inst = inst; g_hv_dbits = vh_f64bits(d); g_hv_i = i; }
#include "c04def.c"
static c04defInstance inst;
static wasmFunc g_slots[8]; static wasmTable g_tab; static U32 g_base;
static void sentinel(void) { }
static void* resolve(const char* module, const char* name) {
    if (strcmp(module, "env") == 0 && strcmp(name, "tab") == 0) return &g_tab;
    if (strcmp(module, "env") == 0 && strcmp(name, "base") == 0) return &g_base;
    return 0;
}
static void setup(U32 base) {
    int i; g_base = base; g_tab.data = g_slots; g_tab.size = 8; g_tab.maxSize = 8;
    for (i = 0; i < 8; i++) g_slots[i] = (wasmFunc)0;
    c04defInstantiate(&inst, resolve);
    g_h3_calls = g_h0_calls = g_hv_calls = 0; g_libm_calls = 0; g_spec_trap = SPEC_NOTRAP;
}
#ifdef DEFINED_TABLE
#define TAB (inst.t0)
#else
#define TAB (*inst.env__tab)
#endif
static U64 spec_mix(U32 a, U64 b, F32 c, F64 d, U32 e) {
    return ((U64)a << 1) ^ spec_i64_rotl(b, 3) ^ ((U64)vh_f32bits(c) << 7) ^ spec_i64_rotl(vh_f64bits(d), 11) ^ ((U64)e << 40);
}
void h_callhost3(void) { ND(U32, a); ND(U64, b); ND(F32, c); ND(U32, base); U64 r; ASSUME(base <= 2); setup(base);
    r = c04def_callhost3(&inst, a, b, c);
    OBL(g_h3_calls == 1 && g_h0_calls == 0 && g_hv_calls == 0, "import call: exactly the designated host function is invoked, once");
    OBL(g_h_inst == (void*)&inst, "import call: the host function receives the calling instance");
    OBL(g_h_a0 == a && g_h_a1 == b && g_h_a2bits == vh_f32bits(c), "import call: arguments arrive in declaration order, bit-exact");
    OBL(r == g_h_ret, "import call: the result is delivered to the caller's operand stack");
    CANARY("callhost3"); }
void h_callhost3dup(void) { ND(U32, a); ND(U64, b); ND(F32, c); ND(U32, base); U64 r; ASSUME(base <= 2); setup(base);
    r = c04def_callhost3dup(&inst, a, b, c);
    OBL(g_h3_calls == 1 && g_h0_calls == 0 && g_hv_calls == 0 && g_h_a0 == a && g_h_a1 == b && g_h_a2bits == vh_f32bits(c) && r == g_h_ret,
        "import call through a SECOND import of the same host function: it has its own function index, all later indices are unaffected");
    CANARY("callhost3dup"); }
void h_reexport(void) { ND(U32, a); ND(U64, b); ND(F32, c); ND(U32, base); U64 r; ASSUME(base <= 2); setup(base);
    r = c04def_rehost3(&inst, a, b, c);
    OBL(g_h3_calls == 1 && g_h_inst == (void*)&inst && g_h_a0 == a && g_h_a1 == b && g_h_a2bits == vh_f32bits(c) && r == g_h_ret,
        "re-exported import: the export wrapper has the import's own signature and passes instance, arguments and result through unchanged");
    CANARY("reexport"); }
void h_callhost0twice(void) { ND(U32, base); U32 r; ASSUME(base <= 2); setup(base);
    r = c04def_callhost0twice(&inst);
    OBL(g_h0_calls == 2 && r == g_h0_ret[0] - g_h0_ret[1], "import call: two calls in sequence, results kept in evaluation order");
    CANARY("callhost0twice"); }
void h_callhostv(void) { ND(F64, d); ND(U32, i); ND(U32, base); U32 r; ASSUME(base <= 2); setup(base);
    r = c04def_callhostv(&inst, d, i);
    OBL(g_hv_calls == 1 && g_hv_dbits == vh_f64bits(d) && g_hv_i == i, "import call without result: arguments in order");
    OBL(r == i, "import call without result: the operand below the arguments survives and nothing is pushed");
    CANARY("callhostv"); }
void h_callmix(void) { ND(U32, a); ND(U64, b); ND(F32, c); ND(F64, d); ND(U32, e); ND(U32, base); U64 r; ASSUME(base <= 2); setup(base);
    r = c04def_callmix(&inst, a, b, c, d, e);
    OBL(r == spec_mix(a, b, c, d, e), "direct call: five arguments of mixed types reach the designated function in declaration order; its result is delivered");
    CANARY("callmix"); }
void h_callmixperm(void) { ND(U32, a); ND(U64, b); ND(F32, c); ND(F64, d); ND(U32, e); ND(U32, base); U64 r; ASSUME(base <= 2); setup(base);
    r = c04def_callmixperm(&inst, a, b, c, d, e);
    OBL(r == 5 + spec_mix(e, b, c, d, a), "direct call under another operand: arguments taken from the top of the stack in order, result lands above the operand below");
    CANARY("callmixperm"); }
void h_tri(void) { ND(U32, n); ND(U32, base); U32 r; ASSUME(base <= 2 && n <= 4); setup(base);
    r = c04def_tri(&inst, n);
    OBL(r == (n == 0 ? 0u : n == 1 ? 1u : n == 2 ? 3u : n == 3 ? 6u : 10u), "recursion: tri(n) = n + tri(n-1)");
    CANARY("tri"); }
void h_evenodd(void) { ND(U32, n); ND(U32, base); U32 r1, r2; ASSUME(base <= 2 && n <= 4); setup(base);
    r1 = c04def_iseven(&inst, n); r2 = c04def_isodd(&inst, n);
    OBL(r1 == ((n & 1) == 0) && r2 == (n & 1), "mutual recursion: even/odd");
    CANARY("evenodd"); }
void h_ind(void) { ND(U32, a); ND(U32, b); ND(U32, idx); ND(U32, base); U32 r; ASSUME(base <= 2); setup(base);
    ASSUME(idx == base || idx == base + 1 || idx == 5 || idx == 6);            /* the initialised range */
    r = c04def_ind(&inst, a, b, idx);
    OBL(r == (idx == base ? a - b : idx == base + 1 ? a + b : idx == 5 ? (a ^ b) : a - b),
        "call_indirect: the table entry selected by the TOP operand is called with the arguments below it in order; element segments put the listed functions at offset+i");
    CANARY("ind"); }
void h_indbelow(void) { ND(U32, a); ND(U32, b); ND(U32, base); ND(U64, below); U64 r; ASSUME(base <= 2); setup(base);
    r = c04def_indbelow(&inst, a, b, base + 1, below);
    OBL(r == (below ^ (U64)(U32)(a + b)), "call_indirect under another operand: result lands above it");
    CANARY("indbelow"); }
void h_ind0(void) { ND(U32, below); ND(U32, base); U32 r; ASSUME(base <= 2); setup(base);
    r = c04def_ind0(&inst, below, 7);
    OBL(r == (below ^ 1111u), "call_indirect of a zero-parameter function: its result replaces the table index (slot h-1) and the operand below survives");
    CANARY("ind0"); }
void h_elem(void) { ND(U32, base); ND(U32, k); ASSUME(base <= 2 && k < 8); setup(base);
    OBL(TAB.data[base] != (wasmFunc)0 && TAB.data[base + 1] != (wasmFunc)0 && TAB.data[5] != (wasmFunc)0 && TAB.data[6] != (wasmFunc)0 && TAB.data[7] != (wasmFunc)0,
        "element segments: every listed slot of the designated (defined or imported) table is initialised, with a constant or an imported-global offset");
    OBL(k == base || k == base + 1 || k == 5 || k == 6 || k == 7 || TAB.data[k] == (wasmFunc)0, "element segments: no other table slot is written");
    OBL(TAB.data[base] == TAB.data[6], "element segments: the same function index denotes the same function in every segment");
    CANARY("elem"); }
