/* Layer S: the dispatch loop wasmCWriteFunctionCode of the real w2c2/c.c on short instruction sequences ending in `end`, at every
 * operand-stack height: the special cases that live in the loop itself - nop, drop, unreachable, return, the `ignore` switch after
 * br, skipping of plain instructions in unreachable code, termination at end / else. */
#include "e_expr.c"
#ifndef DISP
#define DISP 0
#endif
void h_dispatch(void) { bool ok; WasmOpcode opc = wasmOpcodeNop; size_t len0;
#if DISP == 0      /* nop ; end */
    setup(1); memset(&g_mod, 0, sizeof g_mod); w.module = &g_mod; w.ignore = false;
    g_code[0] = 0x01; g_code[1] = 0x0B; g_code[2] = 0x6A; g_codebuf.data = g_code; g_codebuf.length = 3; w.code = &g_codebuf;
    ok = wasmCWriteFunctionCode(&w, &opc);
    SUCCEEDS(ok, "nop");
    OBL(opc == wasmOpcodeEnd && g_codebuf.length == 1, "dispatch: translation of a body stops exactly at its `end`, which is reported to the caller");
    OBL(g_sb_n == 0 && ts.length == H0 && !w.ignore, "nop: no text, no stack change");
#elif DISP == 1    /* drop ; end */
    setup(1); memset(&g_mod, 0, sizeof g_mod); w.module = &g_mod; w.ignore = false;
    g_code[0] = 0x1A; g_code[1] = 0x0B; g_codebuf.data = g_code; g_codebuf.length = 2; w.code = &g_codebuf;
    ok = wasmCWriteFunctionCode(&w, &opc);
    SUCCEEDS(ok, "drop");
    OBL(opc == wasmOpcodeEnd && g_codebuf.length == 0, "dispatch: stops at `end`");
    OBL(g_sb_n == 0 && ts.length == H0 - 1 && !w.ignore, "drop: pops exactly one entry, writes nothing");
    if (H0 > 1) OBL(ts.valueTypes[K] == OLDK, "drop: entries below are unchanged (ghost index)");
#elif DISP == 2    /* unreachable ; i32.add ; drop ; end : everything after unreachable is skipped */
    setup(1); memset(&g_mod, 0, sizeof g_mod); w.module = &g_mod; w.ignore = false;
    g_code[0] = 0x00; g_code[1] = 0x6A; g_code[2] = 0x1A; g_code[3] = 0x0B; g_codebuf.data = g_code; g_codebuf.length = 4; w.code = &g_codebuf;
    X_LITERAL("UNREACHABLE;");
    ok = wasmCWriteFunctionCode(&w, &opc);
    SUCCEEDS(ok, "unreachable");
    OBL(opc == wasmOpcodeEnd && g_codebuf.length == 0, "dispatch: stops at `end`");
    OBL(X_MATCHED, "unreachable: writes  UNREACHABLE;  and nothing for the instructions that follow it up to `end`");
    OBL(ts.length == H0 && ts.valueTypes[H0 - 1] == T[0] && w.ignore, "unreachable: the code after it has no effect on the operand stack; the rest of the body is marked unreachable");
#elif DISP == 3    /* br <rel> ; i32.add ; drop ; end */
    setup(1); ASSUME(H0 >= 1); br_setup(H0 - 1);
    /* relative depth 0 in its one-byte encoding, so that the position of the following opcodes is a constant (any depth / padding: job E.h.br) */
    ASSUME(g_code[0] == 0x80 && g_code[1] == 0x80 && g_code[2] == 0x80 && g_code[3] == 0x80 && g_code[4] == 0x00);
    { static U8 c2[5]; c2[0] = 0x0C; c2[1] = 0x00; c2[2] = 0x6A; c2[3] = 0x1A; c2[4] = 0x0B; g_codebuf.data = c2; g_codebuf.length = 5; }
    x_goto(H0 - 1, T[0]);
    ok = wasmCWriteFunctionCode(&w, &opc);
    SUCCEEDS(ok, "br then dead code");
    OBL(opc == wasmOpcodeEnd && g_codebuf.length == 0, "dispatch: stops at `end`");
    OBL(X_MATCHED, "br: only the branch is written; instructions between an unconditional branch and `end` produce no text");
    OBL(ts.length == H0 && ts.valueTypes[H0 - 1] == T[0] && w.ignore, "br: code made unreachable by it has no effect on the operand stack");
#elif DISP == 4    /* in unreachable code: i32.add ; drop ; unreachable ; nop ; else  -> nothing at all, stops at else */
    setup(1); memset(&g_mod, 0, sizeof g_mod); w.module = &g_mod; w.ignore = true;
    g_code[0] = 0x6A; g_code[1] = 0x1A; g_code[2] = 0x00; g_code[3] = 0x01; g_code[4] = 0x05; g_code[5] = 0x0B; g_codebuf.data = g_code; g_codebuf.length = 6; w.code = &g_codebuf;
    ok = wasmCWriteFunctionCode(&w, &opc);
    SUCCEEDS(ok, "dead code");
    OBL(opc == wasmOpcodeElse && g_codebuf.length == 1, "dispatch: an `else` ends the then-arm and is reported to the caller");
    OBL(g_sb_n == 0 && ts.length == H0 && ts.valueTypes[H0 - 1] == T[0] && w.ignore, "dead code: plain instructions in unreachable code write nothing and leave the stack alone");
#elif DISP == 5    /* return ; i32.add ; end : goto the function-level label (label-stack position 0) with the result copied */
    { ND(size_t, ln); ND(U32, li); ND(unsigned, r); ND(unsigned, oldd);
      setup(1); ASSUME(H0 >= 2 && ln >= 1 && ln <= (1u << 16) && r <= 3 && oldd <= 15);
      g_labels = (WasmLabel*)malloc(ln * sizeof(WasmLabel)); ASSUME(g_labels != 0);
      ls.labels.labels = g_labels; ls.labels.length = ln; ls.labels.capacity = ln; g_ltype = (WasmValueType)r;
      g_labels[0].index = li; g_labels[0].typeStackLength = 0; g_labels[0].type = &g_ltype;     /* the function's own label: height 0, result type */
      ASSUME(!HAS_KD || KD != 0); if (decl.length > 0) { decl.valueTypes[0] = (WasmValueType)oldd; BR_OLDD = (WasmValueType)oldd; } else BR_OLDD = (WasmValueType)0;
      memset(&g_mod, 0, sizeof g_mod); w.module = &g_mod; w.ignore = false;
      g_code[0] = 0x0F; g_code[1] = 0x6A; g_code[2] = 0x0B; g_codebuf.data = g_code; g_codebuf.length = 3; w.code = &g_codebuf;
      X_SLOTREF(0, r); X_LITERAL("="); X_SLOTREF(H0 - 1, T[0]); X_LITERAL(";gotoL"); X_EVENT(SB_U32, li); X_LITERAL(";");
      ok = wasmCWriteFunctionCode(&w, &opc);
      SUCCEEDS(ok, "return");
      OBL(opc == wasmOpcodeEnd && g_codebuf.length == 0, "dispatch: stops at `end`");
      OBL(X_MATCHED, "return: writes  s<R>0 = s<T0><h-1>; goto L<function label>;  from any nesting depth and stack height (the result travels to slot 0)");
      OBL(ts.length == H0 && w.ignore, "return: the rest of the body is unreachable and leaves the stack alone");
      OBL(decl.valueTypes[0] == (WasmValueType)(BR_OLDD | (1u << r)), "return: the result variable (slot 0, result type) is declared"); }
#elif DISP == 6 || DISP == 7 || DISP == 8 || DISP == 9
    /* prefixed instructions (0xFC bulk memory, 0xFE threads) in unreachable code, the sub-opcode in a PADDED LEB128 encoding, on an EMPTY
     * operand stack: accepted, immediates consumed, nothing written, no operand looked up */
    setup(0); ASSUME(H0 == 0); memset(&g_mod, 0, sizeof g_mod); w.module = &g_mod; w.ignore = true;
    { static U8 c2[12]; unsigned n = 0;
#if DISP == 6        /* memory.fill: FC 0B -> FC 8B 00 ; memory index 0 */
      c2[n++] = 0xFC; c2[n++] = 0x8B; c2[n++] = 0x00; c2[n++] = 0x00;
#elif DISP == 7      /* memory.copy: FC 0A -> FC 8A 80 00 ; memory indices 0 0 */
      c2[n++] = 0xFC; c2[n++] = 0x8A; c2[n++] = 0x80; c2[n++] = 0x00; c2[n++] = 0x00; c2[n++] = 0x00;
#elif DISP == 8      /* memory.init: FC 08 -> FC 88 00 ; segment 1, memory 0 */
      c2[n++] = 0xFC; c2[n++] = 0x88; c2[n++] = 0x00; c2[n++] = 0x01; c2[n++] = 0x00;
#else                /* i32.atomic.load: FE 10 -> FE 90 00 ; align 2, offset 0x0B */
      c2[n++] = 0xFE; c2[n++] = 0x90; c2[n++] = 0x00; c2[n++] = 0x02; c2[n++] = 0x0B;
#endif
      c2[n++] = 0x0B; g_codebuf.data = c2; g_codebuf.length = n; w.code = &g_codebuf; }
    ok = wasmCWriteFunctionCode(&w, &opc);
    OBL(ok, "dead prefixed instruction: accepted with a padded sub-opcode and on an empty operand stack");
    ASSUME(ok);
    OBL(opc == wasmOpcodeEnd && g_codebuf.length == 0, "dead prefixed instruction: sub-opcode and immediates consumed exactly, translation stops at `end`");
    OBL(g_sb_n == 0 && ts.length == 0 && w.ignore, "dead prefixed instruction: nothing is written, the stack is not touched");
#endif
    (void)len0;
    CANARY("dispatch"); }

/* ---- function epilogue: the result is returned from slot 0 (where every `return` / branch to the function label put it), whatever is left
 * on the operand stack when the end of the body is unreachable.  wasmTypeStackClear loops over the capacity: heights <= HMAX (job constant). ---- */
void h_function_return(void) { ND(unsigned, r); ND(int, has_result); bool ok; WasmFunctionType ft; WasmValueType rt[1]; setup(0);
    ASSUME(r <= 3 && decl.length >= 1);
#ifndef VERIF_NATIVE
    G_KEEP[2] = 0;      /* the destination is slot 0 */
#endif
    OLDD = decl.valueTypes[0];
    rt[0] = (WasmValueType)r; ft.parameterCount = 0; ft.parameterTypes = 0; ft.resultCount = has_result ? 1 : 0; ft.resultTypes = rt;
    if (has_result) { X_LITERAL("return"); X_SLOTREF(0, r); X_LITERAL(";"); }
    ok = wasmCWriteFunctionReturn(&w, ft);
    SUCCEEDS(ok, "function return");
    if (has_result) {
        OBL(!g_bad && g_ti == g_exp_n && !g_sb_overflow, "function epilogue: writes  return s<R>0;  - slot 0 with the function's result type, at every leftover stack height");
        OBL(ts.length == 1 && ts.valueTypes[0] == (WasmValueType)r, "function epilogue: the operand stack is reset to the single result");
        OBL(decl.valueTypes[0] == (WasmValueType)(OLDD | (1u << r)), "function epilogue: the result variable (slot 0, result type) is declared");
    } else OBL(g_sb_n == 0, "function epilogue: a function without result returns nothing");
    CANARY("function_return"); }
