/* Layer E / S: block, loop and if of the real w2c2/c.c, MODULAR in the code between the opening instruction and its end: the recursive
 * call wasmCWriteFunctionCode is replaced by its contract (goto-instrument --replace-call-with-contract), which is the induction
 * hypothesis of the structural induction over a function body:
 *     inner code returns at its matching `end` (or `else`), leaves the label stack as it found it (pushes and pops balanced, the labels
 *     below untouched), leaves the operand-stack entries below the label's height untouched, and may leave anything above them,
 *     any `ignore` state and any text; started in unreachable code it stays unreachable and changes nothing.
 * Under that hypothesis the opening/closing code must: push a label that records the CURRENT height and the block's result type,
 * declare the label after the body (block, if) or before it (loop), cut the operand stack back to the recorded height, push the
 * result type, pop the label, and clear `ignore`.  Heights, label-stack lengths and types are symbolic. */
#include "e_expr.c"
#ifndef VERIF_NATIVE
/* ghost snapshots of the state in which the enclosed code is started: set A for the first call (then arm / body), set B for the second (else arm) */
typedef struct InSnap { size_t sbn, ln, height, top_height; U32 top_index; WasmValueType* top_type; unsigned top_tval; bool ignore_at, ret; } InSnap;
static InSnap g_inA, g_inB; static size_t g_in_calls; static int g_want_else;
#define SNAP(S) ((S).sbn == (size_t)g_sb_n && (S).ln == ls.labels.length && (S).height == __CPROVER_old(ts.length) && (S).ignore_at == __CPROVER_old(w.ignore) && (S).ret == __CPROVER_return_value \
    && (ls.labels.length == 0 || ((S).top_index == ls.labels.labels[ls.labels.length - 1].index && (S).top_height == ls.labels.labels[ls.labels.length - 1].typeStackLength \
        && (S).top_type == ls.labels.labels[ls.labels.length - 1].type && (ls.labels.labels[ls.labels.length - 1].type == 0 || (S).top_tval == (unsigned)*ls.labels.labels[ls.labels.length - 1].type))))
bool c_inner(WasmCFunctionWriter* writer, WasmOpcode* opcode)
__CPROVER_requires(g_in_calls < 2)
__CPROVER_assigns(*opcode, w.ignore, ts.length, ls.nextLabelIndex, g_in_calls; g_in_calls == 0: g_inA; g_in_calls == 1: g_inB)
__CPROVER_ensures(g_in_calls == __CPROVER_old(g_in_calls) + 1)
__CPROVER_ensures(__CPROVER_old(g_in_calls) == 0 ? SNAP(g_inA) : SNAP(g_inB))
/* induction hypothesis */
__CPROVER_ensures(*opcode == ((g_want_else && __CPROVER_old(g_in_calls) == 0) ? wasmOpcodeElse : wasmOpcodeEnd))
__CPROVER_ensures(ts.length <= ts.capacity && ls.nextLabelIndex >= __CPROVER_old(ls.nextLabelIndex))
/* ... and enclosed code that is started unreachable stays unreachable and changes neither stack nor label numbering */
__CPROVER_ensures(!__CPROVER_old(w.ignore) || (w.ignore && ts.length == __CPROVER_old(ts.length) && ls.nextLabelIndex == __CPROVER_old(ls.nextLabelIndex)))
;
#endif
#ifndef BL_KIND
#define BL_KIND 0        /* 0 block, 1 loop, 2 if, 3 if with else */
#endif
#ifndef BL_TYPED
#define BL_TYPED 1
#endif
#ifndef BL_DEAD
#define BL_DEAD 0        /* the whole construct lies in unreachable code */
#endif
void h_block(void) { ND(size_t, ln); ND(U32, nli); ND(unsigned, bt); bool ok; WasmOpcode opc; size_t hh; WasmLabel below;
    ND(U32, bi); ND(size_t, bh);
    setup(BL_KIND >= 2 ? 1 : 0);
    ASSUME(ln <= (1u << 16) && bt <= 3 && nli < 0xFFFFFF00u);
    g_labels = (WasmLabel*)malloc((ln + 2) * sizeof(WasmLabel)); ASSUME(g_labels != 0);
    ls.labels.labels = g_labels; ls.labels.length = ln; ls.labels.capacity = ln + 2; ls.nextLabelIndex = nli;
    if (ln > 0) { g_labels[ln - 1].index = bi; g_labels[ln - 1].typeStackLength = bh; g_labels[ln - 1].type = 0; below = g_labels[ln - 1]; }
    memset(&g_mod, 0, sizeof g_mod); w.module = &g_mod; w.ignore = BL_DEAD;
    g_code[0] = BL_TYPED ? (U8)(0x7F - bt) : 0x40; g_code[1] = 0x0B; g_codebuf.data = g_code; g_codebuf.length = 2; w.code = &g_codebuf;
#ifndef VERIF_NATIVE
    g_in_calls = 0; g_want_else = (BL_KIND == 3);
#endif
    hh = (BL_KIND >= 2 && !BL_DEAD) ? H0 - 1 : H0;          /* height recorded in the label: after the condition of an `if` has been popped */
    opc = (BL_KIND == 0) ? wasmOpcodeBlock : (BL_KIND == 1) ? wasmOpcodeLoop : wasmOpcodeIf;
#if !BL_DEAD
#if BL_KIND == 0
    if (PRETTY) { X_LITERAL("{"); X_LITERAL("}"); }
    X_LITERAL("L"); X_EVENT(SB_U32, nli); X_LITERAL(":;");
#elif BL_KIND == 1
    X_LITERAL("L"); X_EVENT(SB_U32, nli); X_LITERAL(":;"); X_LITERAL("{"); X_LITERAL("}");
#else
    X_LITERAL("if("); X_SLOTREF(H0 - 1, T[0]); X_LITERAL("){"); X_LITERAL("}"); if (BL_KIND == 3) { X_LITERAL("else{"); X_LITERAL("}"); }
    X_LITERAL("L"); X_EVENT(SB_U32, nli); X_LITERAL(":;");
#endif
#endif
    if (BL_KIND == 0) ok = wasmCWriteBlockExpr(&w, &opc); else if (BL_KIND == 1) ok = wasmCWriteLoopExpr(&w, &opc); else ok = wasmCWriteIfExpr(&w, &opc);
#ifndef VERIF_NATIVE
    OBL(ok || g_grow_failed || (g_in_calls >= 1 && !g_inA.ret) || (g_in_calls >= 2 && !g_inB.ret), "structure: fails only when the enclosed code fails (or an allocation does)"); ASSUME(ok);
#endif
#ifndef VERIF_NATIVE
    OBL(g_in_calls == (BL_KIND == 3 ? 2u : 1u), "structure: the enclosed code is translated exactly once per arm");
    OBL(g_codebuf.length == 1, "structure: exactly the block type is consumed before the enclosed code");
#if BL_DEAD
    OBL(g_sb_n == 0 && ts.length == H0 && ls.labels.length == ln && ls.nextLabelIndex == nli && g_inA.ln == ln && w.ignore, "structure in dead code: nothing is written, no label is pushed, no stack changes, the code stays unreachable (the enclosed code is only skipped)");
#else
    OBL(X_MATCHED, "structure: block = body then  L<n>:;   loop =  L<n>:;  then body in braces;  if =  if (s<T0><h-1>) { then } [else { else }]  L<n>:;");
    /* label seen by the enclosed code */
    OBL(g_inA.ln == ln + 1 && g_inA.top_index == nli && g_inA.top_height == hh, "structure: the enclosed code runs with ONE new label on the label stack, a fresh label number, recording the operand-stack height at entry (after an if's condition is popped)");
    OBL((BL_TYPED && BL_KIND != 1) ? (g_inA.top_type != 0 && g_inA.top_tval == bt) : g_inA.top_type == 0,
        "structure: the label of a block/if carries the block's result type (branches copy their value to slot (recorded height, that type)); a loop's label carries none");
    OBL(g_inA.height == hh && !g_inA.ignore_at, "structure: the enclosed code starts at the recorded height, reachable");
    /* position of the label declaration relative to the body */
    if (BL_KIND == 1) OBL(g_inA.sbn >= 3, "loop: the label is declared BEFORE the body (a branch to it repeats the body)");
    if (BL_KIND == 0 && !PRETTY) OBL(g_inA.sbn == 0, "block: the label is declared AFTER the body (a branch to it leaves the block)");
    if (BL_KIND == 3) { OBL(g_inB.height == hh && !g_inB.ignore_at && g_inB.ln == ln + 1 && g_inB.top_index == nli,
        "if/else: the else arm starts again at the recorded height, reachable (whatever the then arm left), under the same label"); }
    /* afterwards */
    OBL(ts.length == hh + (BL_TYPED ? 1u : 0u), "structure: afterwards the operand stack is cut back to the recorded height plus the result");
    if (BL_TYPED) OBL(ts.valueTypes[hh] == (WasmValueType)bt, "structure: the result slot has the block's result type");
    if (hh > 0 && K < hh) OBL(ts.valueTypes[K] == OLDK, "structure: entries below are unchanged (ghost index)");
    OBL(ls.labels.length == ln && ls.nextLabelIndex > nli, "structure: the label is popped; label numbers are never reused");
    if (ln > 0) OBL(g_labels[ln - 1].index == below.index && g_labels[ln - 1].typeStackLength == below.typeStackLength && g_labels[ln - 1].type == below.type, "structure: the enclosing label is untouched");
    OBL(!w.ignore, "structure: code after the construct is reachable again");
#endif
#endif
    CANARY("block"); }
