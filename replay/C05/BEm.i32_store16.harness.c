#include "w2c2_base.h"
#include "vh.h"
#include "wasm_int.h"
#include "wasm_mem.h"
#include "trapstub.h"
#define MEMSZ 32
#ifndef VERIF_NATIVE
U32 c_i32_load(wasmMemory* mem, U64 addr) __CPROVER_requires(1) __CPROVER_ensures(1) __CPROVER_assigns();
#endif
void h_i32_load(void) {
  ND_ARR(U8, data, MEMSZ);
  U8 old[MEMSZ];
  wasmMemory mem;
  ND(U64, addr);
  ND(U64, k);
  ND(U32, m_size); ND(U32, m_pages); ND(U32, m_max);
  mem.data = data; mem.size = m_size; mem.pages = m_pages; mem.maxPages = m_max; mem.shared = 0; mem.futex = 0; mem.futexFree = 0;
  ASSUME(k < MEMSZ);
  ASSUME(addr <= MEMSZ - 4);
  memcpy(old, data, MEMSZ);
  U32 r = i32_load(&mem, addr);
  OBL(r == (U32)spec_le_read(old, addr, 4), "i32_load: result is the zero-extended little-endian composition of the addressed bytes");
  OBL(data[k] == old[k], "i32_load: memory is unchanged");
  OBL(mem.data == data && mem.size == m_size && mem.pages == m_pages && mem.maxPages == m_max, "i32_load: the memory descriptor is unchanged");
  CANARY("i32_load returns");
}
#ifndef VERIF_NATIVE
U64 c_i64_load(wasmMemory* mem, U64 addr) __CPROVER_requires(1) __CPROVER_ensures(1) __CPROVER_assigns();
#endif
void h_i64_load(void) {
  ND_ARR(U8, data, MEMSZ);
  U8 old[MEMSZ];
  wasmMemory mem;
  ND(U64, addr);
  ND(U64, k);
  ND(U32, m_size); ND(U32, m_pages); ND(U32, m_max);
  mem.data = data; mem.size = m_size; mem.pages = m_pages; mem.maxPages = m_max; mem.shared = 0; mem.futex = 0; mem.futexFree = 0;
  ASSUME(k < MEMSZ);
  ASSUME(addr <= MEMSZ - 8);
  memcpy(old, data, MEMSZ);
  U64 r = i64_load(&mem, addr);
  OBL(r == (U64)spec_le_read(old, addr, 8), "i64_load: result is the zero-extended little-endian composition of the addressed bytes");
  OBL(data[k] == old[k], "i64_load: memory is unchanged");
  OBL(mem.data == data && mem.size == m_size && mem.pages == m_pages && mem.maxPages == m_max, "i64_load: the memory descriptor is unchanged");
  CANARY("i64_load returns");
}
#ifndef VERIF_NATIVE
F32 c_f32_load(wasmMemory* mem, U64 addr) __CPROVER_requires(1) __CPROVER_ensures(1) __CPROVER_assigns();
#endif
void h_f32_load(void) {
  ND_ARR(U8, data, MEMSZ);
  U8 old[MEMSZ];
  wasmMemory mem;
  ND(U64, addr);
  ND(U64, k);
  ND(U32, m_size); ND(U32, m_pages); ND(U32, m_max);
  mem.data = data; mem.size = m_size; mem.pages = m_pages; mem.maxPages = m_max; mem.shared = 0; mem.futex = 0; mem.futexFree = 0;
  ASSUME(k < MEMSZ);
  ASSUME(addr <= MEMSZ - 4);
  memcpy(old, data, MEMSZ);
  F32 r = f32_load(&mem, addr);
  OBL(vh_f32bits(r) == (U32)spec_le_read(old, addr, 4), "f32_load: result is the little-endian composition of the addressed bytes");
  OBL(data[k] == old[k], "f32_load: memory is unchanged");
  OBL(mem.data == data && mem.size == m_size && mem.pages == m_pages && mem.maxPages == m_max, "f32_load: the memory descriptor is unchanged");
  CANARY("f32_load returns");
}
#ifndef VERIF_NATIVE
F64 c_f64_load(wasmMemory* mem, U64 addr) __CPROVER_requires(1) __CPROVER_ensures(1) __CPROVER_assigns();
#endif
void h_f64_load(void) {
  ND_ARR(U8, data, MEMSZ);
  U8 old[MEMSZ];
  wasmMemory mem;
  ND(U64, addr);
  ND(U64, k);
  ND(U32, m_size); ND(U32, m_pages); ND(U32, m_max);
  mem.data = data; mem.size = m_size; mem.pages = m_pages; mem.maxPages = m_max; mem.shared = 0; mem.futex = 0; mem.futexFree = 0;
  ASSUME(k < MEMSZ);
  ASSUME(addr <= MEMSZ - 8);
  memcpy(old, data, MEMSZ);
  F64 r = f64_load(&mem, addr);
  OBL(vh_f64bits(r) == spec_le_read(old, addr, 8), "f64_load: result is the little-endian composition of the addressed bytes");
  OBL(data[k] == old[k], "f64_load: memory is unchanged");
  OBL(mem.data == data && mem.size == m_size && mem.pages == m_pages && mem.maxPages == m_max, "f64_load: the memory descriptor is unchanged");
  CANARY("f64_load returns");
}
#ifndef VERIF_NATIVE
U32 c_i32_load8_s(wasmMemory* mem, U64 addr) __CPROVER_requires(1) __CPROVER_ensures(1) __CPROVER_assigns();
#endif
void h_i32_load8_s(void) {
  ND_ARR(U8, data, MEMSZ);
  U8 old[MEMSZ];
  wasmMemory mem;
  ND(U64, addr);
  ND(U64, k);
  ND(U32, m_size); ND(U32, m_pages); ND(U32, m_max);
  mem.data = data; mem.size = m_size; mem.pages = m_pages; mem.maxPages = m_max; mem.shared = 0; mem.futex = 0; mem.futexFree = 0;
  ASSUME(k < MEMSZ);
  ASSUME(addr <= MEMSZ - 1);
  memcpy(old, data, MEMSZ);
  U32 r = i32_load8_s(&mem, addr);
  OBL(r == (U32)spec_sext(spec_le_read(old, addr, 1), 1), "i32_load8_s: result is the sign-extended little-endian composition of the addressed bytes");
  OBL(data[k] == old[k], "i32_load8_s: memory is unchanged");
  OBL(mem.data == data && mem.size == m_size && mem.pages == m_pages && mem.maxPages == m_max, "i32_load8_s: the memory descriptor is unchanged");
  CANARY("i32_load8_s returns");
}
#ifndef VERIF_NATIVE
U64 c_i64_load8_s(wasmMemory* mem, U64 addr) __CPROVER_requires(1) __CPROVER_ensures(1) __CPROVER_assigns();
#endif
void h_i64_load8_s(void) {
  ND_ARR(U8, data, MEMSZ);
  U8 old[MEMSZ];
  wasmMemory mem;
  ND(U64, addr);
  ND(U64, k);
  ND(U32, m_size); ND(U32, m_pages); ND(U32, m_max);
  mem.data = data; mem.size = m_size; mem.pages = m_pages; mem.maxPages = m_max; mem.shared = 0; mem.futex = 0; mem.futexFree = 0;
  ASSUME(k < MEMSZ);
  ASSUME(addr <= MEMSZ - 1);
  memcpy(old, data, MEMSZ);
  U64 r = i64_load8_s(&mem, addr);
  OBL(r == (U64)spec_sext(spec_le_read(old, addr, 1), 1), "i64_load8_s: result is the sign-extended little-endian composition of the addressed bytes");
  OBL(data[k] == old[k], "i64_load8_s: memory is unchanged");
  OBL(mem.data == data && mem.size == m_size && mem.pages == m_pages && mem.maxPages == m_max, "i64_load8_s: the memory descriptor is unchanged");
  CANARY("i64_load8_s returns");
}
#ifndef VERIF_NATIVE
U32 c_i32_load8_u(wasmMemory* mem, U64 addr) __CPROVER_requires(1) __CPROVER_ensures(1) __CPROVER_assigns();
#endif
void h_i32_load8_u(void) {
  ND_ARR(U8, data, MEMSZ);
  U8 old[MEMSZ];
  wasmMemory mem;
  ND(U64, addr);
  ND(U64, k);
  ND(U32, m_size); ND(U32, m_pages); ND(U32, m_max);
  mem.data = data; mem.size = m_size; mem.pages = m_pages; mem.maxPages = m_max; mem.shared = 0; mem.futex = 0; mem.futexFree = 0;
  ASSUME(k < MEMSZ);
  ASSUME(addr <= MEMSZ - 1);
  memcpy(old, data, MEMSZ);
  U32 r = i32_load8_u(&mem, addr);
  OBL(r == (U32)spec_le_read(old, addr, 1), "i32_load8_u: result is the zero-extended little-endian composition of the addressed bytes");
  OBL(data[k] == old[k], "i32_load8_u: memory is unchanged");
  OBL(mem.data == data && mem.size == m_size && mem.pages == m_pages && mem.maxPages == m_max, "i32_load8_u: the memory descriptor is unchanged");
  CANARY("i32_load8_u returns");
}
#ifndef VERIF_NATIVE
U64 c_i64_load8_u(wasmMemory* mem, U64 addr) __CPROVER_requires(1) __CPROVER_ensures(1) __CPROVER_assigns();
#endif
void h_i64_load8_u(void) {
  ND_ARR(U8, data, MEMSZ);
  U8 old[MEMSZ];
  wasmMemory mem;
  ND(U64, addr);
  ND(U64, k);
  ND(U32, m_size); ND(U32, m_pages); ND(U32, m_max);
  mem.data = data; mem.size = m_size; mem.pages = m_pages; mem.maxPages = m_max; mem.shared = 0; mem.futex = 0; mem.futexFree = 0;
  ASSUME(k < MEMSZ);
  ASSUME(addr <= MEMSZ - 1);
  memcpy(old, data, MEMSZ);
  U64 r = i64_load8_u(&mem, addr);
  OBL(r == (U64)spec_le_read(old, addr, 1), "i64_load8_u: result is the zero-extended little-endian composition of the addressed bytes");
  OBL(data[k] == old[k], "i64_load8_u: memory is unchanged");
  OBL(mem.data == data && mem.size == m_size && mem.pages == m_pages && mem.maxPages == m_max, "i64_load8_u: the memory descriptor is unchanged");
  CANARY("i64_load8_u returns");
}
#ifndef VERIF_NATIVE
U32 c_i32_load16_s(wasmMemory* mem, U64 addr) __CPROVER_requires(1) __CPROVER_ensures(1) __CPROVER_assigns();
#endif
void h_i32_load16_s(void) {
  ND_ARR(U8, data, MEMSZ);
  U8 old[MEMSZ];
  wasmMemory mem;
  ND(U64, addr);
  ND(U64, k);
  ND(U32, m_size); ND(U32, m_pages); ND(U32, m_max);
  mem.data = data; mem.size = m_size; mem.pages = m_pages; mem.maxPages = m_max; mem.shared = 0; mem.futex = 0; mem.futexFree = 0;
  ASSUME(k < MEMSZ);
  ASSUME(addr <= MEMSZ - 2);
  memcpy(old, data, MEMSZ);
  U32 r = i32_load16_s(&mem, addr);
  OBL(r == (U32)spec_sext(spec_le_read(old, addr, 2), 2), "i32_load16_s: result is the sign-extended little-endian composition of the addressed bytes");
  OBL(data[k] == old[k], "i32_load16_s: memory is unchanged");
  OBL(mem.data == data && mem.size == m_size && mem.pages == m_pages && mem.maxPages == m_max, "i32_load16_s: the memory descriptor is unchanged");
  CANARY("i32_load16_s returns");
}
#ifndef VERIF_NATIVE
U64 c_i64_load16_s(wasmMemory* mem, U64 addr) __CPROVER_requires(1) __CPROVER_ensures(1) __CPROVER_assigns();
#endif
void h_i64_load16_s(void) {
  ND_ARR(U8, data, MEMSZ);
  U8 old[MEMSZ];
  wasmMemory mem;
  ND(U64, addr);
  ND(U64, k);
  ND(U32, m_size); ND(U32, m_pages); ND(U32, m_max);
  mem.data = data; mem.size = m_size; mem.pages = m_pages; mem.maxPages = m_max; mem.shared = 0; mem.futex = 0; mem.futexFree = 0;
  ASSUME(k < MEMSZ);
  ASSUME(addr <= MEMSZ - 2);
  memcpy(old, data, MEMSZ);
  U64 r = i64_load16_s(&mem, addr);
  OBL(r == (U64)spec_sext(spec_le_read(old, addr, 2), 2), "i64_load16_s: result is the sign-extended little-endian composition of the addressed bytes");
  OBL(data[k] == old[k], "i64_load16_s: memory is unchanged");
  OBL(mem.data == data && mem.size == m_size && mem.pages == m_pages && mem.maxPages == m_max, "i64_load16_s: the memory descriptor is unchanged");
  CANARY("i64_load16_s returns");
}
#ifndef VERIF_NATIVE
U32 c_i32_load16_u(wasmMemory* mem, U64 addr) __CPROVER_requires(1) __CPROVER_ensures(1) __CPROVER_assigns();
#endif
void h_i32_load16_u(void) {
  ND_ARR(U8, data, MEMSZ);
  U8 old[MEMSZ];
  wasmMemory mem;
  ND(U64, addr);
  ND(U64, k);
  ND(U32, m_size); ND(U32, m_pages); ND(U32, m_max);
  mem.data = data; mem.size = m_size; mem.pages = m_pages; mem.maxPages = m_max; mem.shared = 0; mem.futex = 0; mem.futexFree = 0;
  ASSUME(k < MEMSZ);
  ASSUME(addr <= MEMSZ - 2);
  memcpy(old, data, MEMSZ);
  U32 r = i32_load16_u(&mem, addr);
  OBL(r == (U32)spec_le_read(old, addr, 2), "i32_load16_u: result is the zero-extended little-endian composition of the addressed bytes");
  OBL(data[k] == old[k], "i32_load16_u: memory is unchanged");
  OBL(mem.data == data && mem.size == m_size && mem.pages == m_pages && mem.maxPages == m_max, "i32_load16_u: the memory descriptor is unchanged");
  CANARY("i32_load16_u returns");
}
#ifndef VERIF_NATIVE
U64 c_i64_load16_u(wasmMemory* mem, U64 addr) __CPROVER_requires(1) __CPROVER_ensures(1) __CPROVER_assigns();
#endif
void h_i64_load16_u(void) {
  ND_ARR(U8, data, MEMSZ);
  U8 old[MEMSZ];
  wasmMemory mem;
  ND(U64, addr);
  ND(U64, k);
  ND(U32, m_size); ND(U32, m_pages); ND(U32, m_max);
  mem.data = data; mem.size = m_size; mem.pages = m_pages; mem.maxPages = m_max; mem.shared = 0; mem.futex = 0; mem.futexFree = 0;
  ASSUME(k < MEMSZ);
  ASSUME(addr <= MEMSZ - 2);
  memcpy(old, data, MEMSZ);
  U64 r = i64_load16_u(&mem, addr);
  OBL(r == (U64)spec_le_read(old, addr, 2), "i64_load16_u: result is the zero-extended little-endian composition of the addressed bytes");
  OBL(data[k] == old[k], "i64_load16_u: memory is unchanged");
  OBL(mem.data == data && mem.size == m_size && mem.pages == m_pages && mem.maxPages == m_max, "i64_load16_u: the memory descriptor is unchanged");
  CANARY("i64_load16_u returns");
}
#ifndef VERIF_NATIVE
U64 c_i64_load32_s(wasmMemory* mem, U64 addr) __CPROVER_requires(1) __CPROVER_ensures(1) __CPROVER_assigns();
#endif
void h_i64_load32_s(void) {
  ND_ARR(U8, data, MEMSZ);
  U8 old[MEMSZ];
  wasmMemory mem;
  ND(U64, addr);
  ND(U64, k);
  ND(U32, m_size); ND(U32, m_pages); ND(U32, m_max);
  mem.data = data; mem.size = m_size; mem.pages = m_pages; mem.maxPages = m_max; mem.shared = 0; mem.futex = 0; mem.futexFree = 0;
  ASSUME(k < MEMSZ);
  ASSUME(addr <= MEMSZ - 4);
  memcpy(old, data, MEMSZ);
  U64 r = i64_load32_s(&mem, addr);
  OBL(r == (U64)spec_sext(spec_le_read(old, addr, 4), 4), "i64_load32_s: result is the sign-extended little-endian composition of the addressed bytes");
  OBL(data[k] == old[k], "i64_load32_s: memory is unchanged");
  OBL(mem.data == data && mem.size == m_size && mem.pages == m_pages && mem.maxPages == m_max, "i64_load32_s: the memory descriptor is unchanged");
  CANARY("i64_load32_s returns");
}
#ifndef VERIF_NATIVE
U64 c_i64_load32_u(wasmMemory* mem, U64 addr) __CPROVER_requires(1) __CPROVER_ensures(1) __CPROVER_assigns();
#endif
void h_i64_load32_u(void) {
  ND_ARR(U8, data, MEMSZ);
  U8 old[MEMSZ];
  wasmMemory mem;
  ND(U64, addr);
  ND(U64, k);
  ND(U32, m_size); ND(U32, m_pages); ND(U32, m_max);
  mem.data = data; mem.size = m_size; mem.pages = m_pages; mem.maxPages = m_max; mem.shared = 0; mem.futex = 0; mem.futexFree = 0;
  ASSUME(k < MEMSZ);
  ASSUME(addr <= MEMSZ - 4);
  memcpy(old, data, MEMSZ);
  U64 r = i64_load32_u(&mem, addr);
  OBL(r == (U64)spec_le_read(old, addr, 4), "i64_load32_u: result is the zero-extended little-endian composition of the addressed bytes");
  OBL(data[k] == old[k], "i64_load32_u: memory is unchanged");
  OBL(mem.data == data && mem.size == m_size && mem.pages == m_pages && mem.maxPages == m_max, "i64_load32_u: the memory descriptor is unchanged");
  CANARY("i64_load32_u returns");
}
#ifndef VERIF_NATIVE
void c_i32_store(wasmMemory* mem, U64 addr, U32 value) __CPROVER_requires(1) __CPROVER_ensures(1) __CPROVER_assigns(__CPROVER_object_upto(mem->data + addr, 4));
#endif
void h_i32_store(void) {
  ND_ARR(U8, data, MEMSZ);
  U8 old[MEMSZ];
  wasmMemory mem;
  ND(U64, addr);
  ND(U64, k);
  ND(U32, m_size); ND(U32, m_pages); ND(U32, m_max);
  mem.data = data; mem.size = m_size; mem.pages = m_pages; mem.maxPages = m_max; mem.shared = 0; mem.futex = 0; mem.futexFree = 0;
  ASSUME(k < MEMSZ);
  ASSUME(addr <= MEMSZ - 4);
  memcpy(old, data, MEMSZ);
  ND(U32, value);
  i32_store(&mem, addr, value);
  OBL(data[k] == spec_after_store(k, addr, 4, (U64)value, old[k]), "i32_store: exactly the 4 little-endian bytes of the wrapped value are written, every other byte is unchanged");
  OBL(mem.data == data && mem.size == m_size && mem.pages == m_pages && mem.maxPages == m_max, "i32_store: the memory descriptor is unchanged");
  CANARY("i32_store returns");
}
#ifndef VERIF_NATIVE
void c_i64_store(wasmMemory* mem, U64 addr, U64 value) __CPROVER_requires(1) __CPROVER_ensures(1) __CPROVER_assigns(__CPROVER_object_upto(mem->data + addr, 8));
#endif
void h_i64_store(void) {
  ND_ARR(U8, data, MEMSZ);
  U8 old[MEMSZ];
  wasmMemory mem;
  ND(U64, addr);
  ND(U64, k);
  ND(U32, m_size); ND(U32, m_pages); ND(U32, m_max);
  mem.data = data; mem.size = m_size; mem.pages = m_pages; mem.maxPages = m_max; mem.shared = 0; mem.futex = 0; mem.futexFree = 0;
  ASSUME(k < MEMSZ);
  ASSUME(addr <= MEMSZ - 8);
  memcpy(old, data, MEMSZ);
  ND(U64, value);
  i64_store(&mem, addr, value);
  OBL(data[k] == spec_after_store(k, addr, 8, (U64)value, old[k]), "i64_store: exactly the 8 little-endian bytes of the wrapped value are written, every other byte is unchanged");
  OBL(mem.data == data && mem.size == m_size && mem.pages == m_pages && mem.maxPages == m_max, "i64_store: the memory descriptor is unchanged");
  CANARY("i64_store returns");
}
#ifndef VERIF_NATIVE
void c_f32_store(wasmMemory* mem, U64 addr, F32 value) __CPROVER_requires(1) __CPROVER_ensures(1) __CPROVER_assigns(__CPROVER_object_upto(mem->data + addr, 4));
#endif
void h_f32_store(void) {
  ND_ARR(U8, data, MEMSZ);
  U8 old[MEMSZ];
  wasmMemory mem;
  ND(U64, addr);
  ND(U64, k);
  ND(U32, m_size); ND(U32, m_pages); ND(U32, m_max);
  mem.data = data; mem.size = m_size; mem.pages = m_pages; mem.maxPages = m_max; mem.shared = 0; mem.futex = 0; mem.futexFree = 0;
  ASSUME(k < MEMSZ);
  ASSUME(addr <= MEMSZ - 4);
  memcpy(old, data, MEMSZ);
  ND(F32, value);
  f32_store(&mem, addr, value);
  OBL(data[k] == spec_after_store(k, addr, 4, (U64)vh_f32bits(value), old[k]), "f32_store: exactly the 4 little-endian bytes of the wrapped value are written, every other byte is unchanged");
  OBL(mem.data == data && mem.size == m_size && mem.pages == m_pages && mem.maxPages == m_max, "f32_store: the memory descriptor is unchanged");
  CANARY("f32_store returns");
}
#ifndef VERIF_NATIVE
void c_f64_store(wasmMemory* mem, U64 addr, F64 value) __CPROVER_requires(1) __CPROVER_ensures(1) __CPROVER_assigns(__CPROVER_object_upto(mem->data + addr, 8));
#endif
void h_f64_store(void) {
  ND_ARR(U8, data, MEMSZ);
  U8 old[MEMSZ];
  wasmMemory mem;
  ND(U64, addr);
  ND(U64, k);
  ND(U32, m_size); ND(U32, m_pages); ND(U32, m_max);
  mem.data = data; mem.size = m_size; mem.pages = m_pages; mem.maxPages = m_max; mem.shared = 0; mem.futex = 0; mem.futexFree = 0;
  ASSUME(k < MEMSZ);
  ASSUME(addr <= MEMSZ - 8);
  memcpy(old, data, MEMSZ);
  ND(F64, value);
  f64_store(&mem, addr, value);
  OBL(data[k] == spec_after_store(k, addr, 8, vh_f64bits(value), old[k]), "f64_store: exactly the 8 little-endian bytes of the wrapped value are written, every other byte is unchanged");
  OBL(mem.data == data && mem.size == m_size && mem.pages == m_pages && mem.maxPages == m_max, "f64_store: the memory descriptor is unchanged");
  CANARY("f64_store returns");
}
#ifndef VERIF_NATIVE
void c_i32_store8(wasmMemory* mem, U64 addr, U32 value) __CPROVER_requires(1) __CPROVER_ensures(1) __CPROVER_assigns(__CPROVER_object_upto(mem->data + addr, 1));
#endif
void h_i32_store8(void) {
  ND_ARR(U8, data, MEMSZ);
  U8 old[MEMSZ];
  wasmMemory mem;
  ND(U64, addr);
  ND(U64, k);
  ND(U32, m_size); ND(U32, m_pages); ND(U32, m_max);
  mem.data = data; mem.size = m_size; mem.pages = m_pages; mem.maxPages = m_max; mem.shared = 0; mem.futex = 0; mem.futexFree = 0;
  ASSUME(k < MEMSZ);
  ASSUME(addr <= MEMSZ - 1);
  memcpy(old, data, MEMSZ);
  ND(U32, value);
  i32_store8(&mem, addr, value);
  OBL(data[k] == spec_after_store(k, addr, 1, (U64)value, old[k]), "i32_store8: exactly the 1 little-endian bytes of the wrapped value are written, every other byte is unchanged");
  OBL(mem.data == data && mem.size == m_size && mem.pages == m_pages && mem.maxPages == m_max, "i32_store8: the memory descriptor is unchanged");
  CANARY("i32_store8 returns");
}
#ifndef VERIF_NATIVE
void c_i32_store16(wasmMemory* mem, U64 addr, U32 value) __CPROVER_requires(1) __CPROVER_ensures(1) __CPROVER_assigns(__CPROVER_object_upto(mem->data + addr, 2));
#endif
void h_i32_store16(void) {
  ND_ARR(U8, data, MEMSZ);
  U8 old[MEMSZ];
  wasmMemory mem;
  ND(U64, addr);
  ND(U64, k);
  ND(U32, m_size); ND(U32, m_pages); ND(U32, m_max);
  mem.data = data; mem.size = m_size; mem.pages = m_pages; mem.maxPages = m_max; mem.shared = 0; mem.futex = 0; mem.futexFree = 0;
  ASSUME(k < MEMSZ);
  ASSUME(addr <= MEMSZ - 2);
  memcpy(old, data, MEMSZ);
  ND(U32, value);
  i32_store16(&mem, addr, value);
  OBL(data[k] == spec_after_store(k, addr, 2, (U64)value, old[k]), "i32_store16: exactly the 2 little-endian bytes of the wrapped value are written, every other byte is unchanged");
  OBL(mem.data == data && mem.size == m_size && mem.pages == m_pages && mem.maxPages == m_max, "i32_store16: the memory descriptor is unchanged");
  CANARY("i32_store16 returns");
}
#ifndef VERIF_NATIVE
void c_i64_store8(wasmMemory* mem, U64 addr, U64 value) __CPROVER_requires(1) __CPROVER_ensures(1) __CPROVER_assigns(__CPROVER_object_upto(mem->data + addr, 1));
#endif
void h_i64_store8(void) {
  ND_ARR(U8, data, MEMSZ);
  U8 old[MEMSZ];
  wasmMemory mem;
  ND(U64, addr);
  ND(U64, k);
  ND(U32, m_size); ND(U32, m_pages); ND(U32, m_max);
  mem.data = data; mem.size = m_size; mem.pages = m_pages; mem.maxPages = m_max; mem.shared = 0; mem.futex = 0; mem.futexFree = 0;
  ASSUME(k < MEMSZ);
  ASSUME(addr <= MEMSZ - 1);
  memcpy(old, data, MEMSZ);
  ND(U64, value);
  i64_store8(&mem, addr, value);
  OBL(data[k] == spec_after_store(k, addr, 1, (U64)value, old[k]), "i64_store8: exactly the 1 little-endian bytes of the wrapped value are written, every other byte is unchanged");
  OBL(mem.data == data && mem.size == m_size && mem.pages == m_pages && mem.maxPages == m_max, "i64_store8: the memory descriptor is unchanged");
  CANARY("i64_store8 returns");
}
#ifndef VERIF_NATIVE
void c_i64_store16(wasmMemory* mem, U64 addr, U64 value) __CPROVER_requires(1) __CPROVER_ensures(1) __CPROVER_assigns(__CPROVER_object_upto(mem->data + addr, 2));
#endif
void h_i64_store16(void) {
  ND_ARR(U8, data, MEMSZ);
  U8 old[MEMSZ];
  wasmMemory mem;
  ND(U64, addr);
  ND(U64, k);
  ND(U32, m_size); ND(U32, m_pages); ND(U32, m_max);
  mem.data = data; mem.size = m_size; mem.pages = m_pages; mem.maxPages = m_max; mem.shared = 0; mem.futex = 0; mem.futexFree = 0;
  ASSUME(k < MEMSZ);
  ASSUME(addr <= MEMSZ - 2);
  memcpy(old, data, MEMSZ);
  ND(U64, value);
  i64_store16(&mem, addr, value);
  OBL(data[k] == spec_after_store(k, addr, 2, (U64)value, old[k]), "i64_store16: exactly the 2 little-endian bytes of the wrapped value are written, every other byte is unchanged");
  OBL(mem.data == data && mem.size == m_size && mem.pages == m_pages && mem.maxPages == m_max, "i64_store16: the memory descriptor is unchanged");
  CANARY("i64_store16 returns");
}
#ifndef VERIF_NATIVE
void c_i64_store32(wasmMemory* mem, U64 addr, U64 value) __CPROVER_requires(1) __CPROVER_ensures(1) __CPROVER_assigns(__CPROVER_object_upto(mem->data + addr, 4));
#endif
void h_i64_store32(void) {
  ND_ARR(U8, data, MEMSZ);
  U8 old[MEMSZ];
  wasmMemory mem;
  ND(U64, addr);
  ND(U64, k);
  ND(U32, m_size); ND(U32, m_pages); ND(U32, m_max);
  mem.data = data; mem.size = m_size; mem.pages = m_pages; mem.maxPages = m_max; mem.shared = 0; mem.futex = 0; mem.futexFree = 0;
  ASSUME(k < MEMSZ);
  ASSUME(addr <= MEMSZ - 4);
  memcpy(old, data, MEMSZ);
  ND(U64, value);
  i64_store32(&mem, addr, value);
  OBL(data[k] == spec_after_store(k, addr, 4, (U64)value, old[k]), "i64_store32: exactly the 4 little-endian bytes of the wrapped value are written, every other byte is unchanged");
  OBL(mem.data == data && mem.size == m_size && mem.pages == m_pages && mem.maxPages == m_max, "i64_store32: the memory descriptor is unchanged");
  CANARY("i64_store32 returns");
}
