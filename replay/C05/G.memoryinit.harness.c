#include "vh.h"
#include "w2c2_base.h"
#include "wasm_int.h"
#include "trapstub.h"
#include "/verif/.work_wt/C05-30205/memrec/memrec.h"
#include "c05mem.c"
#include "wasm_int.h"
#include "libm_markers.h"
#include "trapstub.h"
static c05memInstance inst;
static wasmMemory g_mem;
void h_i32loado0(void) {
  ND(U32, a0);
  U32 r;
  g_mr_calls = 0; g_libm_calls = 0;
  inst.m0 = &g_mem;
  g_spec_trap = SPEC_NOTRAP;
  r = c05mem_i32loado0(&inst, a0);
  OBL(g_spec_trap == SPEC_NOTRAP, "i32loado0: returned normally only if the specification does not trap");
  OBL(g_mr_calls == 1 && g_mr_id == MR_i32_load && g_mr_mem == inst.m0 && g_mr_addr == (U64)a0 + 0ull, "i32loado0: exactly one call of i32_load on memory 0 with effective address base+offset computed in 64 bits");
  OBL((U64)(r) == g_mr_ret, "i32loado0: the loaded value is delivered to the operand stack unchanged");
  CANARY("i32loado0 returns");
}
void h_i32loado1(void) {
  ND(U32, a0);
  U32 r;
  g_mr_calls = 0; g_libm_calls = 0;
  inst.m0 = &g_mem;
  g_spec_trap = SPEC_NOTRAP;
  r = c05mem_i32loado1(&inst, a0);
  OBL(g_spec_trap == SPEC_NOTRAP, "i32loado1: returned normally only if the specification does not trap");
  OBL(g_mr_calls == 1 && g_mr_id == MR_i32_load && g_mr_mem == inst.m0 && g_mr_addr == (U64)a0 + 1ull, "i32loado1: exactly one call of i32_load on memory 0 with effective address base+offset computed in 64 bits");
  OBL((U64)(r) == g_mr_ret, "i32loado1: the loaded value is delivered to the operand stack unchanged");
  CANARY("i32loado1 returns");
}
void h_i32loadoffffffff(void) {
  ND(U32, a0);
  U32 r;
  g_mr_calls = 0; g_libm_calls = 0;
  inst.m0 = &g_mem;
  g_spec_trap = SPEC_NOTRAP;
  r = c05mem_i32loadoffffffff(&inst, a0);
  OBL(g_spec_trap == SPEC_NOTRAP, "i32loadoffffffff: returned normally only if the specification does not trap");
  OBL(g_mr_calls == 1 && g_mr_id == MR_i32_load && g_mr_mem == inst.m0 && g_mr_addr == (U64)a0 + 4294967295ull, "i32loadoffffffff: exactly one call of i32_load on memory 0 with effective address base+offset computed in 64 bits");
  OBL((U64)(r) == g_mr_ret, "i32loadoffffffff: the loaded value is delivered to the operand stack unchanged");
  CANARY("i32loadoffffffff returns");
}
void h_i32loadc1(void) {
  ND(U32, a0);
  ND(U64, a1);
  ND(F32, a2);
  U32 r;
  g_mr_calls = 0; g_libm_calls = 0;
  inst.m0 = &g_mem;
  g_spec_trap = SPEC_NOTRAP;
  r = c05mem_i32loadc1(&inst, a0, a1, a2);
  OBL(g_spec_trap == SPEC_NOTRAP, "i32loadc1: returned normally only if the specification does not trap");
  OBL(g_mr_calls == 1 && g_mr_id == MR_i32_load && g_mr_mem == inst.m0 && g_mr_addr == (U64)a0 + 16ull, "i32loadc1: exactly one call of i32_load with base+offset");
  OBL((U64)(r) == g_mr_ret, "i32loadc1: the loaded value is delivered unchanged");
  OBL((U64)(inst.g1) == (U64)(a1), "i32loadc1: value two below the address survives");
  OBL((U64)vh_f32bits(inst.g2) == (U64)vh_f32bits(a2), "i32loadc1: value below the address survives");
  CANARY("i32loadc1 returns");
}
void h_i64loado0(void) {
  ND(U32, a0);
  U64 r;
  g_mr_calls = 0; g_libm_calls = 0;
  inst.m0 = &g_mem;
  g_spec_trap = SPEC_NOTRAP;
  r = c05mem_i64loado0(&inst, a0);
  OBL(g_spec_trap == SPEC_NOTRAP, "i64loado0: returned normally only if the specification does not trap");
  OBL(g_mr_calls == 1 && g_mr_id == MR_i64_load && g_mr_mem == inst.m0 && g_mr_addr == (U64)a0 + 0ull, "i64loado0: exactly one call of i64_load on memory 0 with effective address base+offset computed in 64 bits");
  OBL((U64)(r) == g_mr_ret, "i64loado0: the loaded value is delivered to the operand stack unchanged");
  CANARY("i64loado0 returns");
}
void h_i64loado1(void) {
  ND(U32, a0);
  U64 r;
  g_mr_calls = 0; g_libm_calls = 0;
  inst.m0 = &g_mem;
  g_spec_trap = SPEC_NOTRAP;
  r = c05mem_i64loado1(&inst, a0);
  OBL(g_spec_trap == SPEC_NOTRAP, "i64loado1: returned normally only if the specification does not trap");
  OBL(g_mr_calls == 1 && g_mr_id == MR_i64_load && g_mr_mem == inst.m0 && g_mr_addr == (U64)a0 + 1ull, "i64loado1: exactly one call of i64_load on memory 0 with effective address base+offset computed in 64 bits");
  OBL((U64)(r) == g_mr_ret, "i64loado1: the loaded value is delivered to the operand stack unchanged");
  CANARY("i64loado1 returns");
}
void h_i64loadoffffffff(void) {
  ND(U32, a0);
  U64 r;
  g_mr_calls = 0; g_libm_calls = 0;
  inst.m0 = &g_mem;
  g_spec_trap = SPEC_NOTRAP;
  r = c05mem_i64loadoffffffff(&inst, a0);
  OBL(g_spec_trap == SPEC_NOTRAP, "i64loadoffffffff: returned normally only if the specification does not trap");
  OBL(g_mr_calls == 1 && g_mr_id == MR_i64_load && g_mr_mem == inst.m0 && g_mr_addr == (U64)a0 + 4294967295ull, "i64loadoffffffff: exactly one call of i64_load on memory 0 with effective address base+offset computed in 64 bits");
  OBL((U64)(r) == g_mr_ret, "i64loadoffffffff: the loaded value is delivered to the operand stack unchanged");
  CANARY("i64loadoffffffff returns");
}
void h_i64loadc1(void) {
  ND(U32, a0);
  ND(U32, a1);
  ND(F64, a2);
  U64 r;
  g_mr_calls = 0; g_libm_calls = 0;
  inst.m0 = &g_mem;
  g_spec_trap = SPEC_NOTRAP;
  r = c05mem_i64loadc1(&inst, a0, a1, a2);
  OBL(g_spec_trap == SPEC_NOTRAP, "i64loadc1: returned normally only if the specification does not trap");
  OBL(g_mr_calls == 1 && g_mr_id == MR_i64_load && g_mr_mem == inst.m0 && g_mr_addr == (U64)a0 + 16ull, "i64loadc1: exactly one call of i64_load with base+offset");
  OBL((U64)(r) == g_mr_ret, "i64loadc1: the loaded value is delivered unchanged");
  OBL((U64)(inst.g0) == (U64)(a1), "i64loadc1: value two below the address survives");
  OBL(vh_f64bits(inst.g3) == vh_f64bits(a2), "i64loadc1: value below the address survives");
  CANARY("i64loadc1 returns");
}
void h_f32loado0(void) {
  ND(U32, a0);
  F32 r;
  g_mr_calls = 0; g_libm_calls = 0;
  inst.m0 = &g_mem;
  g_spec_trap = SPEC_NOTRAP;
  r = c05mem_f32loado0(&inst, a0);
  OBL(g_spec_trap == SPEC_NOTRAP, "f32loado0: returned normally only if the specification does not trap");
  OBL(g_mr_calls == 1 && g_mr_id == MR_f32_load && g_mr_mem == inst.m0 && g_mr_addr == (U64)a0 + 0ull, "f32loado0: exactly one call of f32_load on memory 0 with effective address base+offset computed in 64 bits");
  OBL((U64)vh_f32bits(r) == g_mr_ret, "f32loado0: the loaded value is delivered to the operand stack unchanged");
  CANARY("f32loado0 returns");
}
void h_f32loado1(void) {
  ND(U32, a0);
  F32 r;
  g_mr_calls = 0; g_libm_calls = 0;
  inst.m0 = &g_mem;
  g_spec_trap = SPEC_NOTRAP;
  r = c05mem_f32loado1(&inst, a0);
  OBL(g_spec_trap == SPEC_NOTRAP, "f32loado1: returned normally only if the specification does not trap");
  OBL(g_mr_calls == 1 && g_mr_id == MR_f32_load && g_mr_mem == inst.m0 && g_mr_addr == (U64)a0 + 1ull, "f32loado1: exactly one call of f32_load on memory 0 with effective address base+offset computed in 64 bits");
  OBL((U64)vh_f32bits(r) == g_mr_ret, "f32loado1: the loaded value is delivered to the operand stack unchanged");
  CANARY("f32loado1 returns");
}
void h_f32loadoffffffff(void) {
  ND(U32, a0);
  F32 r;
  g_mr_calls = 0; g_libm_calls = 0;
  inst.m0 = &g_mem;
  g_spec_trap = SPEC_NOTRAP;
  r = c05mem_f32loadoffffffff(&inst, a0);
  OBL(g_spec_trap == SPEC_NOTRAP, "f32loadoffffffff: returned normally only if the specification does not trap");
  OBL(g_mr_calls == 1 && g_mr_id == MR_f32_load && g_mr_mem == inst.m0 && g_mr_addr == (U64)a0 + 4294967295ull, "f32loadoffffffff: exactly one call of f32_load on memory 0 with effective address base+offset computed in 64 bits");
  OBL((U64)vh_f32bits(r) == g_mr_ret, "f32loadoffffffff: the loaded value is delivered to the operand stack unchanged");
  CANARY("f32loadoffffffff returns");
}
void h_f32loadc1(void) {
  ND(U32, a0);
  ND(U64, a1);
  ND(F32, a2);
  F32 r;
  g_mr_calls = 0; g_libm_calls = 0;
  inst.m0 = &g_mem;
  g_spec_trap = SPEC_NOTRAP;
  r = c05mem_f32loadc1(&inst, a0, a1, a2);
  OBL(g_spec_trap == SPEC_NOTRAP, "f32loadc1: returned normally only if the specification does not trap");
  OBL(g_mr_calls == 1 && g_mr_id == MR_f32_load && g_mr_mem == inst.m0 && g_mr_addr == (U64)a0 + 16ull, "f32loadc1: exactly one call of f32_load with base+offset");
  OBL((U64)vh_f32bits(r) == g_mr_ret, "f32loadc1: the loaded value is delivered unchanged");
  OBL((U64)(inst.g1) == (U64)(a1), "f32loadc1: value two below the address survives");
  OBL((U64)vh_f32bits(inst.g2) == (U64)vh_f32bits(a2), "f32loadc1: value below the address survives");
  CANARY("f32loadc1 returns");
}
void h_f64loado0(void) {
  ND(U32, a0);
  F64 r;
  g_mr_calls = 0; g_libm_calls = 0;
  inst.m0 = &g_mem;
  g_spec_trap = SPEC_NOTRAP;
  r = c05mem_f64loado0(&inst, a0);
  OBL(g_spec_trap == SPEC_NOTRAP, "f64loado0: returned normally only if the specification does not trap");
  OBL(g_mr_calls == 1 && g_mr_id == MR_f64_load && g_mr_mem == inst.m0 && g_mr_addr == (U64)a0 + 0ull, "f64loado0: exactly one call of f64_load on memory 0 with effective address base+offset computed in 64 bits");
  OBL(vh_f64bits(r) == g_mr_ret, "f64loado0: the loaded value is delivered to the operand stack unchanged");
  CANARY("f64loado0 returns");
}
void h_f64loado1(void) {
  ND(U32, a0);
  F64 r;
  g_mr_calls = 0; g_libm_calls = 0;
  inst.m0 = &g_mem;
  g_spec_trap = SPEC_NOTRAP;
  r = c05mem_f64loado1(&inst, a0);
  OBL(g_spec_trap == SPEC_NOTRAP, "f64loado1: returned normally only if the specification does not trap");
  OBL(g_mr_calls == 1 && g_mr_id == MR_f64_load && g_mr_mem == inst.m0 && g_mr_addr == (U64)a0 + 1ull, "f64loado1: exactly one call of f64_load on memory 0 with effective address base+offset computed in 64 bits");
  OBL(vh_f64bits(r) == g_mr_ret, "f64loado1: the loaded value is delivered to the operand stack unchanged");
  CANARY("f64loado1 returns");
}
void h_f64loadoffffffff(void) {
  ND(U32, a0);
  F64 r;
  g_mr_calls = 0; g_libm_calls = 0;
  inst.m0 = &g_mem;
  g_spec_trap = SPEC_NOTRAP;
  r = c05mem_f64loadoffffffff(&inst, a0);
  OBL(g_spec_trap == SPEC_NOTRAP, "f64loadoffffffff: returned normally only if the specification does not trap");
  OBL(g_mr_calls == 1 && g_mr_id == MR_f64_load && g_mr_mem == inst.m0 && g_mr_addr == (U64)a0 + 4294967295ull, "f64loadoffffffff: exactly one call of f64_load on memory 0 with effective address base+offset computed in 64 bits");
  OBL(vh_f64bits(r) == g_mr_ret, "f64loadoffffffff: the loaded value is delivered to the operand stack unchanged");
  CANARY("f64loadoffffffff returns");
}
void h_f64loadc1(void) {
  ND(U32, a0);
  ND(U64, a1);
  ND(F32, a2);
  F64 r;
  g_mr_calls = 0; g_libm_calls = 0;
  inst.m0 = &g_mem;
  g_spec_trap = SPEC_NOTRAP;
  r = c05mem_f64loadc1(&inst, a0, a1, a2);
  OBL(g_spec_trap == SPEC_NOTRAP, "f64loadc1: returned normally only if the specification does not trap");
  OBL(g_mr_calls == 1 && g_mr_id == MR_f64_load && g_mr_mem == inst.m0 && g_mr_addr == (U64)a0 + 16ull, "f64loadc1: exactly one call of f64_load with base+offset");
  OBL(vh_f64bits(r) == g_mr_ret, "f64loadc1: the loaded value is delivered unchanged");
  OBL((U64)(inst.g1) == (U64)(a1), "f64loadc1: value two below the address survives");
  OBL((U64)vh_f32bits(inst.g2) == (U64)vh_f32bits(a2), "f64loadc1: value below the address survives");
  CANARY("f64loadc1 returns");
}
void h_i32load8so0(void) {
  ND(U32, a0);
  U32 r;
  g_mr_calls = 0; g_libm_calls = 0;
  inst.m0 = &g_mem;
  g_spec_trap = SPEC_NOTRAP;
  r = c05mem_i32load8so0(&inst, a0);
  OBL(g_spec_trap == SPEC_NOTRAP, "i32load8so0: returned normally only if the specification does not trap");
  OBL(g_mr_calls == 1 && g_mr_id == MR_i32_load8_s && g_mr_mem == inst.m0 && g_mr_addr == (U64)a0 + 0ull, "i32load8so0: exactly one call of i32_load8_s on memory 0 with effective address base+offset computed in 64 bits");
  OBL((U64)(r) == g_mr_ret, "i32load8so0: the loaded value is delivered to the operand stack unchanged");
  CANARY("i32load8so0 returns");
}
void h_i32load8so1(void) {
  ND(U32, a0);
  U32 r;
  g_mr_calls = 0; g_libm_calls = 0;
  inst.m0 = &g_mem;
  g_spec_trap = SPEC_NOTRAP;
  r = c05mem_i32load8so1(&inst, a0);
  OBL(g_spec_trap == SPEC_NOTRAP, "i32load8so1: returned normally only if the specification does not trap");
  OBL(g_mr_calls == 1 && g_mr_id == MR_i32_load8_s && g_mr_mem == inst.m0 && g_mr_addr == (U64)a0 + 1ull, "i32load8so1: exactly one call of i32_load8_s on memory 0 with effective address base+offset computed in 64 bits");
  OBL((U64)(r) == g_mr_ret, "i32load8so1: the loaded value is delivered to the operand stack unchanged");
  CANARY("i32load8so1 returns");
}
void h_i32load8soffffffff(void) {
  ND(U32, a0);
  U32 r;
  g_mr_calls = 0; g_libm_calls = 0;
  inst.m0 = &g_mem;
  g_spec_trap = SPEC_NOTRAP;
  r = c05mem_i32load8soffffffff(&inst, a0);
  OBL(g_spec_trap == SPEC_NOTRAP, "i32load8soffffffff: returned normally only if the specification does not trap");
  OBL(g_mr_calls == 1 && g_mr_id == MR_i32_load8_s && g_mr_mem == inst.m0 && g_mr_addr == (U64)a0 + 4294967295ull, "i32load8soffffffff: exactly one call of i32_load8_s on memory 0 with effective address base+offset computed in 64 bits");
  OBL((U64)(r) == g_mr_ret, "i32load8soffffffff: the loaded value is delivered to the operand stack unchanged");
  CANARY("i32load8soffffffff returns");
}
void h_i32load8sc1(void) {
  ND(U32, a0);
  ND(U64, a1);
  ND(F32, a2);
  U32 r;
  g_mr_calls = 0; g_libm_calls = 0;
  inst.m0 = &g_mem;
  g_spec_trap = SPEC_NOTRAP;
  r = c05mem_i32load8sc1(&inst, a0, a1, a2);
  OBL(g_spec_trap == SPEC_NOTRAP, "i32load8sc1: returned normally only if the specification does not trap");
  OBL(g_mr_calls == 1 && g_mr_id == MR_i32_load8_s && g_mr_mem == inst.m0 && g_mr_addr == (U64)a0 + 16ull, "i32load8sc1: exactly one call of i32_load8_s with base+offset");
  OBL((U64)(r) == g_mr_ret, "i32load8sc1: the loaded value is delivered unchanged");
  OBL((U64)(inst.g1) == (U64)(a1), "i32load8sc1: value two below the address survives");
  OBL((U64)vh_f32bits(inst.g2) == (U64)vh_f32bits(a2), "i32load8sc1: value below the address survives");
  CANARY("i32load8sc1 returns");
}
void h_i32load8uo0(void) {
  ND(U32, a0);
  U32 r;
  g_mr_calls = 0; g_libm_calls = 0;
  inst.m0 = &g_mem;
  g_spec_trap = SPEC_NOTRAP;
  r = c05mem_i32load8uo0(&inst, a0);
  OBL(g_spec_trap == SPEC_NOTRAP, "i32load8uo0: returned normally only if the specification does not trap");
  OBL(g_mr_calls == 1 && g_mr_id == MR_i32_load8_u && g_mr_mem == inst.m0 && g_mr_addr == (U64)a0 + 0ull, "i32load8uo0: exactly one call of i32_load8_u on memory 0 with effective address base+offset computed in 64 bits");
  OBL((U64)(r) == g_mr_ret, "i32load8uo0: the loaded value is delivered to the operand stack unchanged");
  CANARY("i32load8uo0 returns");
}
void h_i32load8uo1(void) {
  ND(U32, a0);
  U32 r;
  g_mr_calls = 0; g_libm_calls = 0;
  inst.m0 = &g_mem;
  g_spec_trap = SPEC_NOTRAP;
  r = c05mem_i32load8uo1(&inst, a0);
  OBL(g_spec_trap == SPEC_NOTRAP, "i32load8uo1: returned normally only if the specification does not trap");
  OBL(g_mr_calls == 1 && g_mr_id == MR_i32_load8_u && g_mr_mem == inst.m0 && g_mr_addr == (U64)a0 + 1ull, "i32load8uo1: exactly one call of i32_load8_u on memory 0 with effective address base+offset computed in 64 bits");
  OBL((U64)(r) == g_mr_ret, "i32load8uo1: the loaded value is delivered to the operand stack unchanged");
  CANARY("i32load8uo1 returns");
}
void h_i32load8uoffffffff(void) {
  ND(U32, a0);
  U32 r;
  g_mr_calls = 0; g_libm_calls = 0;
  inst.m0 = &g_mem;
  g_spec_trap = SPEC_NOTRAP;
  r = c05mem_i32load8uoffffffff(&inst, a0);
  OBL(g_spec_trap == SPEC_NOTRAP, "i32load8uoffffffff: returned normally only if the specification does not trap");
  OBL(g_mr_calls == 1 && g_mr_id == MR_i32_load8_u && g_mr_mem == inst.m0 && g_mr_addr == (U64)a0 + 4294967295ull, "i32load8uoffffffff: exactly one call of i32_load8_u on memory 0 with effective address base+offset computed in 64 bits");
  OBL((U64)(r) == g_mr_ret, "i32load8uoffffffff: the loaded value is delivered to the operand stack unchanged");
  CANARY("i32load8uoffffffff returns");
}
void h_i32load8uc1(void) {
  ND(U32, a0);
  ND(U64, a1);
  ND(F32, a2);
  U32 r;
  g_mr_calls = 0; g_libm_calls = 0;
  inst.m0 = &g_mem;
  g_spec_trap = SPEC_NOTRAP;
  r = c05mem_i32load8uc1(&inst, a0, a1, a2);
  OBL(g_spec_trap == SPEC_NOTRAP, "i32load8uc1: returned normally only if the specification does not trap");
  OBL(g_mr_calls == 1 && g_mr_id == MR_i32_load8_u && g_mr_mem == inst.m0 && g_mr_addr == (U64)a0 + 16ull, "i32load8uc1: exactly one call of i32_load8_u with base+offset");
  OBL((U64)(r) == g_mr_ret, "i32load8uc1: the loaded value is delivered unchanged");
  OBL((U64)(inst.g1) == (U64)(a1), "i32load8uc1: value two below the address survives");
  OBL((U64)vh_f32bits(inst.g2) == (U64)vh_f32bits(a2), "i32load8uc1: value below the address survives");
  CANARY("i32load8uc1 returns");
}
void h_i32load16so0(void) {
  ND(U32, a0);
  U32 r;
  g_mr_calls = 0; g_libm_calls = 0;
  inst.m0 = &g_mem;
  g_spec_trap = SPEC_NOTRAP;
  r = c05mem_i32load16so0(&inst, a0);
  OBL(g_spec_trap == SPEC_NOTRAP, "i32load16so0: returned normally only if the specification does not trap");
  OBL(g_mr_calls == 1 && g_mr_id == MR_i32_load16_s && g_mr_mem == inst.m0 && g_mr_addr == (U64)a0 + 0ull, "i32load16so0: exactly one call of i32_load16_s on memory 0 with effective address base+offset computed in 64 bits");
  OBL((U64)(r) == g_mr_ret, "i32load16so0: the loaded value is delivered to the operand stack unchanged");
  CANARY("i32load16so0 returns");
}
void h_i32load16so1(void) {
  ND(U32, a0);
  U32 r;
  g_mr_calls = 0; g_libm_calls = 0;
  inst.m0 = &g_mem;
  g_spec_trap = SPEC_NOTRAP;
  r = c05mem_i32load16so1(&inst, a0);
  OBL(g_spec_trap == SPEC_NOTRAP, "i32load16so1: returned normally only if the specification does not trap");
  OBL(g_mr_calls == 1 && g_mr_id == MR_i32_load16_s && g_mr_mem == inst.m0 && g_mr_addr == (U64)a0 + 1ull, "i32load16so1: exactly one call of i32_load16_s on memory 0 with effective address base+offset computed in 64 bits");
  OBL((U64)(r) == g_mr_ret, "i32load16so1: the loaded value is delivered to the operand stack unchanged");
  CANARY("i32load16so1 returns");
}
void h_i32load16soffffffff(void) {
  ND(U32, a0);
  U32 r;
  g_mr_calls = 0; g_libm_calls = 0;
  inst.m0 = &g_mem;
  g_spec_trap = SPEC_NOTRAP;
  r = c05mem_i32load16soffffffff(&inst, a0);
  OBL(g_spec_trap == SPEC_NOTRAP, "i32load16soffffffff: returned normally only if the specification does not trap");
  OBL(g_mr_calls == 1 && g_mr_id == MR_i32_load16_s && g_mr_mem == inst.m0 && g_mr_addr == (U64)a0 + 4294967295ull, "i32load16soffffffff: exactly one call of i32_load16_s on memory 0 with effective address base+offset computed in 64 bits");
  OBL((U64)(r) == g_mr_ret, "i32load16soffffffff: the loaded value is delivered to the operand stack unchanged");
  CANARY("i32load16soffffffff returns");
}
void h_i32load16sc1(void) {
  ND(U32, a0);
  ND(U64, a1);
  ND(F32, a2);
  U32 r;
  g_mr_calls = 0; g_libm_calls = 0;
  inst.m0 = &g_mem;
  g_spec_trap = SPEC_NOTRAP;
  r = c05mem_i32load16sc1(&inst, a0, a1, a2);
  OBL(g_spec_trap == SPEC_NOTRAP, "i32load16sc1: returned normally only if the specification does not trap");
  OBL(g_mr_calls == 1 && g_mr_id == MR_i32_load16_s && g_mr_mem == inst.m0 && g_mr_addr == (U64)a0 + 16ull, "i32load16sc1: exactly one call of i32_load16_s with base+offset");
  OBL((U64)(r) == g_mr_ret, "i32load16sc1: the loaded value is delivered unchanged");
  OBL((U64)(inst.g1) == (U64)(a1), "i32load16sc1: value two below the address survives");
  OBL((U64)vh_f32bits(inst.g2) == (U64)vh_f32bits(a2), "i32load16sc1: value below the address survives");
  CANARY("i32load16sc1 returns");
}
void h_i32load16uo0(void) {
  ND(U32, a0);
  U32 r;
  g_mr_calls = 0; g_libm_calls = 0;
  inst.m0 = &g_mem;
  g_spec_trap = SPEC_NOTRAP;
  r = c05mem_i32load16uo0(&inst, a0);
  OBL(g_spec_trap == SPEC_NOTRAP, "i32load16uo0: returned normally only if the specification does not trap");
  OBL(g_mr_calls == 1 && g_mr_id == MR_i32_load16_u && g_mr_mem == inst.m0 && g_mr_addr == (U64)a0 + 0ull, "i32load16uo0: exactly one call of i32_load16_u on memory 0 with effective address base+offset computed in 64 bits");
  OBL((U64)(r) == g_mr_ret, "i32load16uo0: the loaded value is delivered to the operand stack unchanged");
  CANARY("i32load16uo0 returns");
}
void h_i32load16uo1(void) {
  ND(U32, a0);
  U32 r;
  g_mr_calls = 0; g_libm_calls = 0;
  inst.m0 = &g_mem;
  g_spec_trap = SPEC_NOTRAP;
  r = c05mem_i32load16uo1(&inst, a0);
  OBL(g_spec_trap == SPEC_NOTRAP, "i32load16uo1: returned normally only if the specification does not trap");
  OBL(g_mr_calls == 1 && g_mr_id == MR_i32_load16_u && g_mr_mem == inst.m0 && g_mr_addr == (U64)a0 + 1ull, "i32load16uo1: exactly one call of i32_load16_u on memory 0 with effective address base+offset computed in 64 bits");
  OBL((U64)(r) == g_mr_ret, "i32load16uo1: the loaded value is delivered to the operand stack unchanged");
  CANARY("i32load16uo1 returns");
}
void h_i32load16uoffffffff(void) {
  ND(U32, a0);
  U32 r;
  g_mr_calls = 0; g_libm_calls = 0;
  inst.m0 = &g_mem;
  g_spec_trap = SPEC_NOTRAP;
  r = c05mem_i32load16uoffffffff(&inst, a0);
  OBL(g_spec_trap == SPEC_NOTRAP, "i32load16uoffffffff: returned normally only if the specification does not trap");
  OBL(g_mr_calls == 1 && g_mr_id == MR_i32_load16_u && g_mr_mem == inst.m0 && g_mr_addr == (U64)a0 + 4294967295ull, "i32load16uoffffffff: exactly one call of i32_load16_u on memory 0 with effective address base+offset computed in 64 bits");
  OBL((U64)(r) == g_mr_ret, "i32load16uoffffffff: the loaded value is delivered to the operand stack unchanged");
  CANARY("i32load16uoffffffff returns");
}
void h_i32load16uc1(void) {
  ND(U32, a0);
  ND(U64, a1);
  ND(F32, a2);
  U32 r;
  g_mr_calls = 0; g_libm_calls = 0;
  inst.m0 = &g_mem;
  g_spec_trap = SPEC_NOTRAP;
  r = c05mem_i32load16uc1(&inst, a0, a1, a2);
  OBL(g_spec_trap == SPEC_NOTRAP, "i32load16uc1: returned normally only if the specification does not trap");
  OBL(g_mr_calls == 1 && g_mr_id == MR_i32_load16_u && g_mr_mem == inst.m0 && g_mr_addr == (U64)a0 + 16ull, "i32load16uc1: exactly one call of i32_load16_u with base+offset");
  OBL((U64)(r) == g_mr_ret, "i32load16uc1: the loaded value is delivered unchanged");
  OBL((U64)(inst.g1) == (U64)(a1), "i32load16uc1: value two below the address survives");
  OBL((U64)vh_f32bits(inst.g2) == (U64)vh_f32bits(a2), "i32load16uc1: value below the address survives");
  CANARY("i32load16uc1 returns");
}
void h_i64load8so0(void) {
  ND(U32, a0);
  U64 r;
  g_mr_calls = 0; g_libm_calls = 0;
  inst.m0 = &g_mem;
  g_spec_trap = SPEC_NOTRAP;
  r = c05mem_i64load8so0(&inst, a0);
  OBL(g_spec_trap == SPEC_NOTRAP, "i64load8so0: returned normally only if the specification does not trap");
  OBL(g_mr_calls == 1 && g_mr_id == MR_i64_load8_s && g_mr_mem == inst.m0 && g_mr_addr == (U64)a0 + 0ull, "i64load8so0: exactly one call of i64_load8_s on memory 0 with effective address base+offset computed in 64 bits");
  OBL((U64)(r) == g_mr_ret, "i64load8so0: the loaded value is delivered to the operand stack unchanged");
  CANARY("i64load8so0 returns");
}
void h_i64load8so1(void) {
  ND(U32, a0);
  U64 r;
  g_mr_calls = 0; g_libm_calls = 0;
  inst.m0 = &g_mem;
  g_spec_trap = SPEC_NOTRAP;
  r = c05mem_i64load8so1(&inst, a0);
  OBL(g_spec_trap == SPEC_NOTRAP, "i64load8so1: returned normally only if the specification does not trap");
  OBL(g_mr_calls == 1 && g_mr_id == MR_i64_load8_s && g_mr_mem == inst.m0 && g_mr_addr == (U64)a0 + 1ull, "i64load8so1: exactly one call of i64_load8_s on memory 0 with effective address base+offset computed in 64 bits");
  OBL((U64)(r) == g_mr_ret, "i64load8so1: the loaded value is delivered to the operand stack unchanged");
  CANARY("i64load8so1 returns");
}
void h_i64load8soffffffff(void) {
  ND(U32, a0);
  U64 r;
  g_mr_calls = 0; g_libm_calls = 0;
  inst.m0 = &g_mem;
  g_spec_trap = SPEC_NOTRAP;
  r = c05mem_i64load8soffffffff(&inst, a0);
  OBL(g_spec_trap == SPEC_NOTRAP, "i64load8soffffffff: returned normally only if the specification does not trap");
  OBL(g_mr_calls == 1 && g_mr_id == MR_i64_load8_s && g_mr_mem == inst.m0 && g_mr_addr == (U64)a0 + 4294967295ull, "i64load8soffffffff: exactly one call of i64_load8_s on memory 0 with effective address base+offset computed in 64 bits");
  OBL((U64)(r) == g_mr_ret, "i64load8soffffffff: the loaded value is delivered to the operand stack unchanged");
  CANARY("i64load8soffffffff returns");
}
void h_i64load8sc1(void) {
  ND(U32, a0);
  ND(U32, a1);
  ND(F64, a2);
  U64 r;
  g_mr_calls = 0; g_libm_calls = 0;
  inst.m0 = &g_mem;
  g_spec_trap = SPEC_NOTRAP;
  r = c05mem_i64load8sc1(&inst, a0, a1, a2);
  OBL(g_spec_trap == SPEC_NOTRAP, "i64load8sc1: returned normally only if the specification does not trap");
  OBL(g_mr_calls == 1 && g_mr_id == MR_i64_load8_s && g_mr_mem == inst.m0 && g_mr_addr == (U64)a0 + 16ull, "i64load8sc1: exactly one call of i64_load8_s with base+offset");
  OBL((U64)(r) == g_mr_ret, "i64load8sc1: the loaded value is delivered unchanged");
  OBL((U64)(inst.g0) == (U64)(a1), "i64load8sc1: value two below the address survives");
  OBL(vh_f64bits(inst.g3) == vh_f64bits(a2), "i64load8sc1: value below the address survives");
  CANARY("i64load8sc1 returns");
}
void h_i64load8uo0(void) {
  ND(U32, a0);
  U64 r;
  g_mr_calls = 0; g_libm_calls = 0;
  inst.m0 = &g_mem;
  g_spec_trap = SPEC_NOTRAP;
  r = c05mem_i64load8uo0(&inst, a0);
  OBL(g_spec_trap == SPEC_NOTRAP, "i64load8uo0: returned normally only if the specification does not trap");
  OBL(g_mr_calls == 1 && g_mr_id == MR_i64_load8_u && g_mr_mem == inst.m0 && g_mr_addr == (U64)a0 + 0ull, "i64load8uo0: exactly one call of i64_load8_u on memory 0 with effective address base+offset computed in 64 bits");
  OBL((U64)(r) == g_mr_ret, "i64load8uo0: the loaded value is delivered to the operand stack unchanged");
  CANARY("i64load8uo0 returns");
}
void h_i64load8uo1(void) {
  ND(U32, a0);
  U64 r;
  g_mr_calls = 0; g_libm_calls = 0;
  inst.m0 = &g_mem;
  g_spec_trap = SPEC_NOTRAP;
  r = c05mem_i64load8uo1(&inst, a0);
  OBL(g_spec_trap == SPEC_NOTRAP, "i64load8uo1: returned normally only if the specification does not trap");
  OBL(g_mr_calls == 1 && g_mr_id == MR_i64_load8_u && g_mr_mem == inst.m0 && g_mr_addr == (U64)a0 + 1ull, "i64load8uo1: exactly one call of i64_load8_u on memory 0 with effective address base+offset computed in 64 bits");
  OBL((U64)(r) == g_mr_ret, "i64load8uo1: the loaded value is delivered to the operand stack unchanged");
  CANARY("i64load8uo1 returns");
}
void h_i64load8uoffffffff(void) {
  ND(U32, a0);
  U64 r;
  g_mr_calls = 0; g_libm_calls = 0;
  inst.m0 = &g_mem;
  g_spec_trap = SPEC_NOTRAP;
  r = c05mem_i64load8uoffffffff(&inst, a0);
  OBL(g_spec_trap == SPEC_NOTRAP, "i64load8uoffffffff: returned normally only if the specification does not trap");
  OBL(g_mr_calls == 1 && g_mr_id == MR_i64_load8_u && g_mr_mem == inst.m0 && g_mr_addr == (U64)a0 + 4294967295ull, "i64load8uoffffffff: exactly one call of i64_load8_u on memory 0 with effective address base+offset computed in 64 bits");
  OBL((U64)(r) == g_mr_ret, "i64load8uoffffffff: the loaded value is delivered to the operand stack unchanged");
  CANARY("i64load8uoffffffff returns");
}
void h_i64load8uc1(void) {
  ND(U32, a0);
  ND(U32, a1);
  ND(F64, a2);
  U64 r;
  g_mr_calls = 0; g_libm_calls = 0;
  inst.m0 = &g_mem;
  g_spec_trap = SPEC_NOTRAP;
  r = c05mem_i64load8uc1(&inst, a0, a1, a2);
  OBL(g_spec_trap == SPEC_NOTRAP, "i64load8uc1: returned normally only if the specification does not trap");
  OBL(g_mr_calls == 1 && g_mr_id == MR_i64_load8_u && g_mr_mem == inst.m0 && g_mr_addr == (U64)a0 + 16ull, "i64load8uc1: exactly one call of i64_load8_u with base+offset");
  OBL((U64)(r) == g_mr_ret, "i64load8uc1: the loaded value is delivered unchanged");
  OBL((U64)(inst.g0) == (U64)(a1), "i64load8uc1: value two below the address survives");
  OBL(vh_f64bits(inst.g3) == vh_f64bits(a2), "i64load8uc1: value below the address survives");
  CANARY("i64load8uc1 returns");
}
void h_i64load16so0(void) {
  ND(U32, a0);
  U64 r;
  g_mr_calls = 0; g_libm_calls = 0;
  inst.m0 = &g_mem;
  g_spec_trap = SPEC_NOTRAP;
  r = c05mem_i64load16so0(&inst, a0);
  OBL(g_spec_trap == SPEC_NOTRAP, "i64load16so0: returned normally only if the specification does not trap");
  OBL(g_mr_calls == 1 && g_mr_id == MR_i64_load16_s && g_mr_mem == inst.m0 && g_mr_addr == (U64)a0 + 0ull, "i64load16so0: exactly one call of i64_load16_s on memory 0 with effective address base+offset computed in 64 bits");
  OBL((U64)(r) == g_mr_ret, "i64load16so0: the loaded value is delivered to the operand stack unchanged");
  CANARY("i64load16so0 returns");
}
void h_i64load16so1(void) {
  ND(U32, a0);
  U64 r;
  g_mr_calls = 0; g_libm_calls = 0;
  inst.m0 = &g_mem;
  g_spec_trap = SPEC_NOTRAP;
  r = c05mem_i64load16so1(&inst, a0);
  OBL(g_spec_trap == SPEC_NOTRAP, "i64load16so1: returned normally only if the specification does not trap");
  OBL(g_mr_calls == 1 && g_mr_id == MR_i64_load16_s && g_mr_mem == inst.m0 && g_mr_addr == (U64)a0 + 1ull, "i64load16so1: exactly one call of i64_load16_s on memory 0 with effective address base+offset computed in 64 bits");
  OBL((U64)(r) == g_mr_ret, "i64load16so1: the loaded value is delivered to the operand stack unchanged");
  CANARY("i64load16so1 returns");
}
void h_i64load16soffffffff(void) {
  ND(U32, a0);
  U64 r;
  g_mr_calls = 0; g_libm_calls = 0;
  inst.m0 = &g_mem;
  g_spec_trap = SPEC_NOTRAP;
  r = c05mem_i64load16soffffffff(&inst, a0);
  OBL(g_spec_trap == SPEC_NOTRAP, "i64load16soffffffff: returned normally only if the specification does not trap");
  OBL(g_mr_calls == 1 && g_mr_id == MR_i64_load16_s && g_mr_mem == inst.m0 && g_mr_addr == (U64)a0 + 4294967295ull, "i64load16soffffffff: exactly one call of i64_load16_s on memory 0 with effective address base+offset computed in 64 bits");
  OBL((U64)(r) == g_mr_ret, "i64load16soffffffff: the loaded value is delivered to the operand stack unchanged");
  CANARY("i64load16soffffffff returns");
}
void h_i64load16sc1(void) {
  ND(U32, a0);
  ND(U32, a1);
  ND(F64, a2);
  U64 r;
  g_mr_calls = 0; g_libm_calls = 0;
  inst.m0 = &g_mem;
  g_spec_trap = SPEC_NOTRAP;
  r = c05mem_i64load16sc1(&inst, a0, a1, a2);
  OBL(g_spec_trap == SPEC_NOTRAP, "i64load16sc1: returned normally only if the specification does not trap");
  OBL(g_mr_calls == 1 && g_mr_id == MR_i64_load16_s && g_mr_mem == inst.m0 && g_mr_addr == (U64)a0 + 16ull, "i64load16sc1: exactly one call of i64_load16_s with base+offset");
  OBL((U64)(r) == g_mr_ret, "i64load16sc1: the loaded value is delivered unchanged");
  OBL((U64)(inst.g0) == (U64)(a1), "i64load16sc1: value two below the address survives");
  OBL(vh_f64bits(inst.g3) == vh_f64bits(a2), "i64load16sc1: value below the address survives");
  CANARY("i64load16sc1 returns");
}
void h_i64load16uo0(void) {
  ND(U32, a0);
  U64 r;
  g_mr_calls = 0; g_libm_calls = 0;
  inst.m0 = &g_mem;
  g_spec_trap = SPEC_NOTRAP;
  r = c05mem_i64load16uo0(&inst, a0);
  OBL(g_spec_trap == SPEC_NOTRAP, "i64load16uo0: returned normally only if the specification does not trap");
  OBL(g_mr_calls == 1 && g_mr_id == MR_i64_load16_u && g_mr_mem == inst.m0 && g_mr_addr == (U64)a0 + 0ull, "i64load16uo0: exactly one call of i64_load16_u on memory 0 with effective address base+offset computed in 64 bits");
  OBL((U64)(r) == g_mr_ret, "i64load16uo0: the loaded value is delivered to the operand stack unchanged");
  CANARY("i64load16uo0 returns");
}
void h_i64load16uo1(void) {
  ND(U32, a0);
  U64 r;
  g_mr_calls = 0; g_libm_calls = 0;
  inst.m0 = &g_mem;
  g_spec_trap = SPEC_NOTRAP;
  r = c05mem_i64load16uo1(&inst, a0);
  OBL(g_spec_trap == SPEC_NOTRAP, "i64load16uo1: returned normally only if the specification does not trap");
  OBL(g_mr_calls == 1 && g_mr_id == MR_i64_load16_u && g_mr_mem == inst.m0 && g_mr_addr == (U64)a0 + 1ull, "i64load16uo1: exactly one call of i64_load16_u on memory 0 with effective address base+offset computed in 64 bits");
  OBL((U64)(r) == g_mr_ret, "i64load16uo1: the loaded value is delivered to the operand stack unchanged");
  CANARY("i64load16uo1 returns");
}
void h_i64load16uoffffffff(void) {
  ND(U32, a0);
  U64 r;
  g_mr_calls = 0; g_libm_calls = 0;
  inst.m0 = &g_mem;
  g_spec_trap = SPEC_NOTRAP;
  r = c05mem_i64load16uoffffffff(&inst, a0);
  OBL(g_spec_trap == SPEC_NOTRAP, "i64load16uoffffffff: returned normally only if the specification does not trap");
  OBL(g_mr_calls == 1 && g_mr_id == MR_i64_load16_u && g_mr_mem == inst.m0 && g_mr_addr == (U64)a0 + 4294967295ull, "i64load16uoffffffff: exactly one call of i64_load16_u on memory 0 with effective address base+offset computed in 64 bits");
  OBL((U64)(r) == g_mr_ret, "i64load16uoffffffff: the loaded value is delivered to the operand stack unchanged");
  CANARY("i64load16uoffffffff returns");
}
void h_i64load16uc1(void) {
  ND(U32, a0);
  ND(U32, a1);
  ND(F64, a2);
  U64 r;
  g_mr_calls = 0; g_libm_calls = 0;
  inst.m0 = &g_mem;
  g_spec_trap = SPEC_NOTRAP;
  r = c05mem_i64load16uc1(&inst, a0, a1, a2);
  OBL(g_spec_trap == SPEC_NOTRAP, "i64load16uc1: returned normally only if the specification does not trap");
  OBL(g_mr_calls == 1 && g_mr_id == MR_i64_load16_u && g_mr_mem == inst.m0 && g_mr_addr == (U64)a0 + 16ull, "i64load16uc1: exactly one call of i64_load16_u with base+offset");
  OBL((U64)(r) == g_mr_ret, "i64load16uc1: the loaded value is delivered unchanged");
  OBL((U64)(inst.g0) == (U64)(a1), "i64load16uc1: value two below the address survives");
  OBL(vh_f64bits(inst.g3) == vh_f64bits(a2), "i64load16uc1: value below the address survives");
  CANARY("i64load16uc1 returns");
}
void h_i64load32so0(void) {
  ND(U32, a0);
  U64 r;
  g_mr_calls = 0; g_libm_calls = 0;
  inst.m0 = &g_mem;
  g_spec_trap = SPEC_NOTRAP;
  r = c05mem_i64load32so0(&inst, a0);
  OBL(g_spec_trap == SPEC_NOTRAP, "i64load32so0: returned normally only if the specification does not trap");
  OBL(g_mr_calls == 1 && g_mr_id == MR_i64_load32_s && g_mr_mem == inst.m0 && g_mr_addr == (U64)a0 + 0ull, "i64load32so0: exactly one call of i64_load32_s on memory 0 with effective address base+offset computed in 64 bits");
  OBL((U64)(r) == g_mr_ret, "i64load32so0: the loaded value is delivered to the operand stack unchanged");
  CANARY("i64load32so0 returns");
}
void h_i64load32so1(void) {
  ND(U32, a0);
  U64 r;
  g_mr_calls = 0; g_libm_calls = 0;
  inst.m0 = &g_mem;
  g_spec_trap = SPEC_NOTRAP;
  r = c05mem_i64load32so1(&inst, a0);
  OBL(g_spec_trap == SPEC_NOTRAP, "i64load32so1: returned normally only if the specification does not trap");
  OBL(g_mr_calls == 1 && g_mr_id == MR_i64_load32_s && g_mr_mem == inst.m0 && g_mr_addr == (U64)a0 + 1ull, "i64load32so1: exactly one call of i64_load32_s on memory 0 with effective address base+offset computed in 64 bits");
  OBL((U64)(r) == g_mr_ret, "i64load32so1: the loaded value is delivered to the operand stack unchanged");
  CANARY("i64load32so1 returns");
}
void h_i64load32soffffffff(void) {
  ND(U32, a0);
  U64 r;
  g_mr_calls = 0; g_libm_calls = 0;
  inst.m0 = &g_mem;
  g_spec_trap = SPEC_NOTRAP;
  r = c05mem_i64load32soffffffff(&inst, a0);
  OBL(g_spec_trap == SPEC_NOTRAP, "i64load32soffffffff: returned normally only if the specification does not trap");
  OBL(g_mr_calls == 1 && g_mr_id == MR_i64_load32_s && g_mr_mem == inst.m0 && g_mr_addr == (U64)a0 + 4294967295ull, "i64load32soffffffff: exactly one call of i64_load32_s on memory 0 with effective address base+offset computed in 64 bits");
  OBL((U64)(r) == g_mr_ret, "i64load32soffffffff: the loaded value is delivered to the operand stack unchanged");
  CANARY("i64load32soffffffff returns");
}
void h_i64load32sc1(void) {
  ND(U32, a0);
  ND(U32, a1);
  ND(F64, a2);
  U64 r;
  g_mr_calls = 0; g_libm_calls = 0;
  inst.m0 = &g_mem;
  g_spec_trap = SPEC_NOTRAP;
  r = c05mem_i64load32sc1(&inst, a0, a1, a2);
  OBL(g_spec_trap == SPEC_NOTRAP, "i64load32sc1: returned normally only if the specification does not trap");
  OBL(g_mr_calls == 1 && g_mr_id == MR_i64_load32_s && g_mr_mem == inst.m0 && g_mr_addr == (U64)a0 + 16ull, "i64load32sc1: exactly one call of i64_load32_s with base+offset");
  OBL((U64)(r) == g_mr_ret, "i64load32sc1: the loaded value is delivered unchanged");
  OBL((U64)(inst.g0) == (U64)(a1), "i64load32sc1: value two below the address survives");
  OBL(vh_f64bits(inst.g3) == vh_f64bits(a2), "i64load32sc1: value below the address survives");
  CANARY("i64load32sc1 returns");
}
void h_i64load32uo0(void) {
  ND(U32, a0);
  U64 r;
  g_mr_calls = 0; g_libm_calls = 0;
  inst.m0 = &g_mem;
  g_spec_trap = SPEC_NOTRAP;
  r = c05mem_i64load32uo0(&inst, a0);
  OBL(g_spec_trap == SPEC_NOTRAP, "i64load32uo0: returned normally only if the specification does not trap");
  OBL(g_mr_calls == 1 && g_mr_id == MR_i64_load32_u && g_mr_mem == inst.m0 && g_mr_addr == (U64)a0 + 0ull, "i64load32uo0: exactly one call of i64_load32_u on memory 0 with effective address base+offset computed in 64 bits");
  OBL((U64)(r) == g_mr_ret, "i64load32uo0: the loaded value is delivered to the operand stack unchanged");
  CANARY("i64load32uo0 returns");
}
void h_i64load32uo1(void) {
  ND(U32, a0);
  U64 r;
  g_mr_calls = 0; g_libm_calls = 0;
  inst.m0 = &g_mem;
  g_spec_trap = SPEC_NOTRAP;
  r = c05mem_i64load32uo1(&inst, a0);
  OBL(g_spec_trap == SPEC_NOTRAP, "i64load32uo1: returned normally only if the specification does not trap");
  OBL(g_mr_calls == 1 && g_mr_id == MR_i64_load32_u && g_mr_mem == inst.m0 && g_mr_addr == (U64)a0 + 1ull, "i64load32uo1: exactly one call of i64_load32_u on memory 0 with effective address base+offset computed in 64 bits");
  OBL((U64)(r) == g_mr_ret, "i64load32uo1: the loaded value is delivered to the operand stack unchanged");
  CANARY("i64load32uo1 returns");
}
void h_i64load32uoffffffff(void) {
  ND(U32, a0);
  U64 r;
  g_mr_calls = 0; g_libm_calls = 0;
  inst.m0 = &g_mem;
  g_spec_trap = SPEC_NOTRAP;
  r = c05mem_i64load32uoffffffff(&inst, a0);
  OBL(g_spec_trap == SPEC_NOTRAP, "i64load32uoffffffff: returned normally only if the specification does not trap");
  OBL(g_mr_calls == 1 && g_mr_id == MR_i64_load32_u && g_mr_mem == inst.m0 && g_mr_addr == (U64)a0 + 4294967295ull, "i64load32uoffffffff: exactly one call of i64_load32_u on memory 0 with effective address base+offset computed in 64 bits");
  OBL((U64)(r) == g_mr_ret, "i64load32uoffffffff: the loaded value is delivered to the operand stack unchanged");
  CANARY("i64load32uoffffffff returns");
}
void h_i64load32uc1(void) {
  ND(U32, a0);
  ND(U32, a1);
  ND(F64, a2);
  U64 r;
  g_mr_calls = 0; g_libm_calls = 0;
  inst.m0 = &g_mem;
  g_spec_trap = SPEC_NOTRAP;
  r = c05mem_i64load32uc1(&inst, a0, a1, a2);
  OBL(g_spec_trap == SPEC_NOTRAP, "i64load32uc1: returned normally only if the specification does not trap");
  OBL(g_mr_calls == 1 && g_mr_id == MR_i64_load32_u && g_mr_mem == inst.m0 && g_mr_addr == (U64)a0 + 16ull, "i64load32uc1: exactly one call of i64_load32_u with base+offset");
  OBL((U64)(r) == g_mr_ret, "i64load32uc1: the loaded value is delivered unchanged");
  OBL((U64)(inst.g0) == (U64)(a1), "i64load32uc1: value two below the address survives");
  OBL(vh_f64bits(inst.g3) == vh_f64bits(a2), "i64load32uc1: value below the address survives");
  CANARY("i64load32uc1 returns");
}
void h_i32storeo0(void) {
  ND(U32, a0);
  ND(U32, a1);
  g_mr_calls = 0; g_libm_calls = 0;
  inst.m0 = &g_mem;
  g_spec_trap = SPEC_NOTRAP;
  c05mem_i32storeo0(&inst, a0, a1);
  OBL(g_spec_trap == SPEC_NOTRAP, "i32storeo0: returned normally only if the specification does not trap");
  OBL(g_mr_calls == 1 && g_mr_id == MR_i32_store && g_mr_mem == inst.m0 && g_mr_addr == (U64)a0 + 0ull && g_mr_v0 == (U64)(a1), "i32storeo0: exactly one call of i32_store on memory 0: address = base (below) + offset in 64 bits, value = top of stack");
  CANARY("i32storeo0 returns");
}
void h_i32storeo1(void) {
  ND(U32, a0);
  ND(U32, a1);
  g_mr_calls = 0; g_libm_calls = 0;
  inst.m0 = &g_mem;
  g_spec_trap = SPEC_NOTRAP;
  c05mem_i32storeo1(&inst, a0, a1);
  OBL(g_spec_trap == SPEC_NOTRAP, "i32storeo1: returned normally only if the specification does not trap");
  OBL(g_mr_calls == 1 && g_mr_id == MR_i32_store && g_mr_mem == inst.m0 && g_mr_addr == (U64)a0 + 1ull && g_mr_v0 == (U64)(a1), "i32storeo1: exactly one call of i32_store on memory 0: address = base (below) + offset in 64 bits, value = top of stack");
  CANARY("i32storeo1 returns");
}
void h_i32storeoffffffff(void) {
  ND(U32, a0);
  ND(U32, a1);
  g_mr_calls = 0; g_libm_calls = 0;
  inst.m0 = &g_mem;
  g_spec_trap = SPEC_NOTRAP;
  c05mem_i32storeoffffffff(&inst, a0, a1);
  OBL(g_spec_trap == SPEC_NOTRAP, "i32storeoffffffff: returned normally only if the specification does not trap");
  OBL(g_mr_calls == 1 && g_mr_id == MR_i32_store && g_mr_mem == inst.m0 && g_mr_addr == (U64)a0 + 4294967295ull && g_mr_v0 == (U64)(a1), "i32storeoffffffff: exactly one call of i32_store on memory 0: address = base (below) + offset in 64 bits, value = top of stack");
  CANARY("i32storeoffffffff returns");
}
void h_i64storeo0(void) {
  ND(U32, a0);
  ND(U64, a1);
  g_mr_calls = 0; g_libm_calls = 0;
  inst.m0 = &g_mem;
  g_spec_trap = SPEC_NOTRAP;
  c05mem_i64storeo0(&inst, a0, a1);
  OBL(g_spec_trap == SPEC_NOTRAP, "i64storeo0: returned normally only if the specification does not trap");
  OBL(g_mr_calls == 1 && g_mr_id == MR_i64_store && g_mr_mem == inst.m0 && g_mr_addr == (U64)a0 + 0ull && g_mr_v0 == (U64)(a1), "i64storeo0: exactly one call of i64_store on memory 0: address = base (below) + offset in 64 bits, value = top of stack");
  CANARY("i64storeo0 returns");
}
void h_i64storeo1(void) {
  ND(U32, a0);
  ND(U64, a1);
  g_mr_calls = 0; g_libm_calls = 0;
  inst.m0 = &g_mem;
  g_spec_trap = SPEC_NOTRAP;
  c05mem_i64storeo1(&inst, a0, a1);
  OBL(g_spec_trap == SPEC_NOTRAP, "i64storeo1: returned normally only if the specification does not trap");
  OBL(g_mr_calls == 1 && g_mr_id == MR_i64_store && g_mr_mem == inst.m0 && g_mr_addr == (U64)a0 + 1ull && g_mr_v0 == (U64)(a1), "i64storeo1: exactly one call of i64_store on memory 0: address = base (below) + offset in 64 bits, value = top of stack");
  CANARY("i64storeo1 returns");
}
void h_i64storeoffffffff(void) {
  ND(U32, a0);
  ND(U64, a1);
  g_mr_calls = 0; g_libm_calls = 0;
  inst.m0 = &g_mem;
  g_spec_trap = SPEC_NOTRAP;
  c05mem_i64storeoffffffff(&inst, a0, a1);
  OBL(g_spec_trap == SPEC_NOTRAP, "i64storeoffffffff: returned normally only if the specification does not trap");
  OBL(g_mr_calls == 1 && g_mr_id == MR_i64_store && g_mr_mem == inst.m0 && g_mr_addr == (U64)a0 + 4294967295ull && g_mr_v0 == (U64)(a1), "i64storeoffffffff: exactly one call of i64_store on memory 0: address = base (below) + offset in 64 bits, value = top of stack");
  CANARY("i64storeoffffffff returns");
}
void h_f32storeo0(void) {
  ND(U32, a0);
  ND(F32, a1);
  g_mr_calls = 0; g_libm_calls = 0;
  inst.m0 = &g_mem;
  g_spec_trap = SPEC_NOTRAP;
  c05mem_f32storeo0(&inst, a0, a1);
  OBL(g_spec_trap == SPEC_NOTRAP, "f32storeo0: returned normally only if the specification does not trap");
  OBL(g_mr_calls == 1 && g_mr_id == MR_f32_store && g_mr_mem == inst.m0 && g_mr_addr == (U64)a0 + 0ull && g_mr_v0 == (U64)vh_f32bits(a1), "f32storeo0: exactly one call of f32_store on memory 0: address = base (below) + offset in 64 bits, value = top of stack");
  CANARY("f32storeo0 returns");
}
void h_f32storeo1(void) {
  ND(U32, a0);
  ND(F32, a1);
  g_mr_calls = 0; g_libm_calls = 0;
  inst.m0 = &g_mem;
  g_spec_trap = SPEC_NOTRAP;
  c05mem_f32storeo1(&inst, a0, a1);
  OBL(g_spec_trap == SPEC_NOTRAP, "f32storeo1: returned normally only if the specification does not trap");
  OBL(g_mr_calls == 1 && g_mr_id == MR_f32_store && g_mr_mem == inst.m0 && g_mr_addr == (U64)a0 + 1ull && g_mr_v0 == (U64)vh_f32bits(a1), "f32storeo1: exactly one call of f32_store on memory 0: address = base (below) + offset in 64 bits, value = top of stack");
  CANARY("f32storeo1 returns");
}
void h_f32storeoffffffff(void) {
  ND(U32, a0);
  ND(F32, a1);
  g_mr_calls = 0; g_libm_calls = 0;
  inst.m0 = &g_mem;
  g_spec_trap = SPEC_NOTRAP;
  c05mem_f32storeoffffffff(&inst, a0, a1);
  OBL(g_spec_trap == SPEC_NOTRAP, "f32storeoffffffff: returned normally only if the specification does not trap");
  OBL(g_mr_calls == 1 && g_mr_id == MR_f32_store && g_mr_mem == inst.m0 && g_mr_addr == (U64)a0 + 4294967295ull && g_mr_v0 == (U64)vh_f32bits(a1), "f32storeoffffffff: exactly one call of f32_store on memory 0: address = base (below) + offset in 64 bits, value = top of stack");
  CANARY("f32storeoffffffff returns");
}
void h_f64storeo0(void) {
  ND(U32, a0);
  ND(F64, a1);
  g_mr_calls = 0; g_libm_calls = 0;
  inst.m0 = &g_mem;
  g_spec_trap = SPEC_NOTRAP;
  c05mem_f64storeo0(&inst, a0, a1);
  OBL(g_spec_trap == SPEC_NOTRAP, "f64storeo0: returned normally only if the specification does not trap");
  OBL(g_mr_calls == 1 && g_mr_id == MR_f64_store && g_mr_mem == inst.m0 && g_mr_addr == (U64)a0 + 0ull && g_mr_v0 == vh_f64bits(a1), "f64storeo0: exactly one call of f64_store on memory 0: address = base (below) + offset in 64 bits, value = top of stack");
  CANARY("f64storeo0 returns");
}
void h_f64storeo1(void) {
  ND(U32, a0);
  ND(F64, a1);
  g_mr_calls = 0; g_libm_calls = 0;
  inst.m0 = &g_mem;
  g_spec_trap = SPEC_NOTRAP;
  c05mem_f64storeo1(&inst, a0, a1);
  OBL(g_spec_trap == SPEC_NOTRAP, "f64storeo1: returned normally only if the specification does not trap");
  OBL(g_mr_calls == 1 && g_mr_id == MR_f64_store && g_mr_mem == inst.m0 && g_mr_addr == (U64)a0 + 1ull && g_mr_v0 == vh_f64bits(a1), "f64storeo1: exactly one call of f64_store on memory 0: address = base (below) + offset in 64 bits, value = top of stack");
  CANARY("f64storeo1 returns");
}
void h_f64storeoffffffff(void) {
  ND(U32, a0);
  ND(F64, a1);
  g_mr_calls = 0; g_libm_calls = 0;
  inst.m0 = &g_mem;
  g_spec_trap = SPEC_NOTRAP;
  c05mem_f64storeoffffffff(&inst, a0, a1);
  OBL(g_spec_trap == SPEC_NOTRAP, "f64storeoffffffff: returned normally only if the specification does not trap");
  OBL(g_mr_calls == 1 && g_mr_id == MR_f64_store && g_mr_mem == inst.m0 && g_mr_addr == (U64)a0 + 4294967295ull && g_mr_v0 == vh_f64bits(a1), "f64storeoffffffff: exactly one call of f64_store on memory 0: address = base (below) + offset in 64 bits, value = top of stack");
  CANARY("f64storeoffffffff returns");
}
void h_i32store8o0(void) {
  ND(U32, a0);
  ND(U32, a1);
  g_mr_calls = 0; g_libm_calls = 0;
  inst.m0 = &g_mem;
  g_spec_trap = SPEC_NOTRAP;
  c05mem_i32store8o0(&inst, a0, a1);
  OBL(g_spec_trap == SPEC_NOTRAP, "i32store8o0: returned normally only if the specification does not trap");
  OBL(g_mr_calls == 1 && g_mr_id == MR_i32_store8 && g_mr_mem == inst.m0 && g_mr_addr == (U64)a0 + 0ull && g_mr_v0 == (U64)(a1), "i32store8o0: exactly one call of i32_store8 on memory 0: address = base (below) + offset in 64 bits, value = top of stack");
  CANARY("i32store8o0 returns");
}
void h_i32store8o1(void) {
  ND(U32, a0);
  ND(U32, a1);
  g_mr_calls = 0; g_libm_calls = 0;
  inst.m0 = &g_mem;
  g_spec_trap = SPEC_NOTRAP;
  c05mem_i32store8o1(&inst, a0, a1);
  OBL(g_spec_trap == SPEC_NOTRAP, "i32store8o1: returned normally only if the specification does not trap");
  OBL(g_mr_calls == 1 && g_mr_id == MR_i32_store8 && g_mr_mem == inst.m0 && g_mr_addr == (U64)a0 + 1ull && g_mr_v0 == (U64)(a1), "i32store8o1: exactly one call of i32_store8 on memory 0: address = base (below) + offset in 64 bits, value = top of stack");
  CANARY("i32store8o1 returns");
}
void h_i32store8offffffff(void) {
  ND(U32, a0);
  ND(U32, a1);
  g_mr_calls = 0; g_libm_calls = 0;
  inst.m0 = &g_mem;
  g_spec_trap = SPEC_NOTRAP;
  c05mem_i32store8offffffff(&inst, a0, a1);
  OBL(g_spec_trap == SPEC_NOTRAP, "i32store8offffffff: returned normally only if the specification does not trap");
  OBL(g_mr_calls == 1 && g_mr_id == MR_i32_store8 && g_mr_mem == inst.m0 && g_mr_addr == (U64)a0 + 4294967295ull && g_mr_v0 == (U64)(a1), "i32store8offffffff: exactly one call of i32_store8 on memory 0: address = base (below) + offset in 64 bits, value = top of stack");
  CANARY("i32store8offffffff returns");
}
void h_i32store16o0(void) {
  ND(U32, a0);
  ND(U32, a1);
  g_mr_calls = 0; g_libm_calls = 0;
  inst.m0 = &g_mem;
  g_spec_trap = SPEC_NOTRAP;
  c05mem_i32store16o0(&inst, a0, a1);
  OBL(g_spec_trap == SPEC_NOTRAP, "i32store16o0: returned normally only if the specification does not trap");
  OBL(g_mr_calls == 1 && g_mr_id == MR_i32_store16 && g_mr_mem == inst.m0 && g_mr_addr == (U64)a0 + 0ull && g_mr_v0 == (U64)(a1), "i32store16o0: exactly one call of i32_store16 on memory 0: address = base (below) + offset in 64 bits, value = top of stack");
  CANARY("i32store16o0 returns");
}
void h_i32store16o1(void) {
  ND(U32, a0);
  ND(U32, a1);
  g_mr_calls = 0; g_libm_calls = 0;
  inst.m0 = &g_mem;
  g_spec_trap = SPEC_NOTRAP;
  c05mem_i32store16o1(&inst, a0, a1);
  OBL(g_spec_trap == SPEC_NOTRAP, "i32store16o1: returned normally only if the specification does not trap");
  OBL(g_mr_calls == 1 && g_mr_id == MR_i32_store16 && g_mr_mem == inst.m0 && g_mr_addr == (U64)a0 + 1ull && g_mr_v0 == (U64)(a1), "i32store16o1: exactly one call of i32_store16 on memory 0: address = base (below) + offset in 64 bits, value = top of stack");
  CANARY("i32store16o1 returns");
}
void h_i32store16offffffff(void) {
  ND(U32, a0);
  ND(U32, a1);
  g_mr_calls = 0; g_libm_calls = 0;
  inst.m0 = &g_mem;
  g_spec_trap = SPEC_NOTRAP;
  c05mem_i32store16offffffff(&inst, a0, a1);
  OBL(g_spec_trap == SPEC_NOTRAP, "i32store16offffffff: returned normally only if the specification does not trap");
  OBL(g_mr_calls == 1 && g_mr_id == MR_i32_store16 && g_mr_mem == inst.m0 && g_mr_addr == (U64)a0 + 4294967295ull && g_mr_v0 == (U64)(a1), "i32store16offffffff: exactly one call of i32_store16 on memory 0: address = base (below) + offset in 64 bits, value = top of stack");
  CANARY("i32store16offffffff returns");
}
void h_i64store8o0(void) {
  ND(U32, a0);
  ND(U64, a1);
  g_mr_calls = 0; g_libm_calls = 0;
  inst.m0 = &g_mem;
  g_spec_trap = SPEC_NOTRAP;
  c05mem_i64store8o0(&inst, a0, a1);
  OBL(g_spec_trap == SPEC_NOTRAP, "i64store8o0: returned normally only if the specification does not trap");
  OBL(g_mr_calls == 1 && g_mr_id == MR_i64_store8 && g_mr_mem == inst.m0 && g_mr_addr == (U64)a0 + 0ull && g_mr_v0 == (U64)(a1), "i64store8o0: exactly one call of i64_store8 on memory 0: address = base (below) + offset in 64 bits, value = top of stack");
  CANARY("i64store8o0 returns");
}
void h_i64store8o1(void) {
  ND(U32, a0);
  ND(U64, a1);
  g_mr_calls = 0; g_libm_calls = 0;
  inst.m0 = &g_mem;
  g_spec_trap = SPEC_NOTRAP;
  c05mem_i64store8o1(&inst, a0, a1);
  OBL(g_spec_trap == SPEC_NOTRAP, "i64store8o1: returned normally only if the specification does not trap");
  OBL(g_mr_calls == 1 && g_mr_id == MR_i64_store8 && g_mr_mem == inst.m0 && g_mr_addr == (U64)a0 + 1ull && g_mr_v0 == (U64)(a1), "i64store8o1: exactly one call of i64_store8 on memory 0: address = base (below) + offset in 64 bits, value = top of stack");
  CANARY("i64store8o1 returns");
}
void h_i64store8offffffff(void) {
  ND(U32, a0);
  ND(U64, a1);
  g_mr_calls = 0; g_libm_calls = 0;
  inst.m0 = &g_mem;
  g_spec_trap = SPEC_NOTRAP;
  c05mem_i64store8offffffff(&inst, a0, a1);
  OBL(g_spec_trap == SPEC_NOTRAP, "i64store8offffffff: returned normally only if the specification does not trap");
  OBL(g_mr_calls == 1 && g_mr_id == MR_i64_store8 && g_mr_mem == inst.m0 && g_mr_addr == (U64)a0 + 4294967295ull && g_mr_v0 == (U64)(a1), "i64store8offffffff: exactly one call of i64_store8 on memory 0: address = base (below) + offset in 64 bits, value = top of stack");
  CANARY("i64store8offffffff returns");
}
void h_i64store16o0(void) {
  ND(U32, a0);
  ND(U64, a1);
  g_mr_calls = 0; g_libm_calls = 0;
  inst.m0 = &g_mem;
  g_spec_trap = SPEC_NOTRAP;
  c05mem_i64store16o0(&inst, a0, a1);
  OBL(g_spec_trap == SPEC_NOTRAP, "i64store16o0: returned normally only if the specification does not trap");
  OBL(g_mr_calls == 1 && g_mr_id == MR_i64_store16 && g_mr_mem == inst.m0 && g_mr_addr == (U64)a0 + 0ull && g_mr_v0 == (U64)(a1), "i64store16o0: exactly one call of i64_store16 on memory 0: address = base (below) + offset in 64 bits, value = top of stack");
  CANARY("i64store16o0 returns");
}
void h_i64store16o1(void) {
  ND(U32, a0);
  ND(U64, a1);
  g_mr_calls = 0; g_libm_calls = 0;
  inst.m0 = &g_mem;
  g_spec_trap = SPEC_NOTRAP;
  c05mem_i64store16o1(&inst, a0, a1);
  OBL(g_spec_trap == SPEC_NOTRAP, "i64store16o1: returned normally only if the specification does not trap");
  OBL(g_mr_calls == 1 && g_mr_id == MR_i64_store16 && g_mr_mem == inst.m0 && g_mr_addr == (U64)a0 + 1ull && g_mr_v0 == (U64)(a1), "i64store16o1: exactly one call of i64_store16 on memory 0: address = base (below) + offset in 64 bits, value = top of stack");
  CANARY("i64store16o1 returns");
}
void h_i64store16offffffff(void) {
  ND(U32, a0);
  ND(U64, a1);
  g_mr_calls = 0; g_libm_calls = 0;
  inst.m0 = &g_mem;
  g_spec_trap = SPEC_NOTRAP;
  c05mem_i64store16offffffff(&inst, a0, a1);
  OBL(g_spec_trap == SPEC_NOTRAP, "i64store16offffffff: returned normally only if the specification does not trap");
  OBL(g_mr_calls == 1 && g_mr_id == MR_i64_store16 && g_mr_mem == inst.m0 && g_mr_addr == (U64)a0 + 4294967295ull && g_mr_v0 == (U64)(a1), "i64store16offffffff: exactly one call of i64_store16 on memory 0: address = base (below) + offset in 64 bits, value = top of stack");
  CANARY("i64store16offffffff returns");
}
void h_i64store32o0(void) {
  ND(U32, a0);
  ND(U64, a1);
  g_mr_calls = 0; g_libm_calls = 0;
  inst.m0 = &g_mem;
  g_spec_trap = SPEC_NOTRAP;
  c05mem_i64store32o0(&inst, a0, a1);
  OBL(g_spec_trap == SPEC_NOTRAP, "i64store32o0: returned normally only if the specification does not trap");
  OBL(g_mr_calls == 1 && g_mr_id == MR_i64_store32 && g_mr_mem == inst.m0 && g_mr_addr == (U64)a0 + 0ull && g_mr_v0 == (U64)(a1), "i64store32o0: exactly one call of i64_store32 on memory 0: address = base (below) + offset in 64 bits, value = top of stack");
  CANARY("i64store32o0 returns");
}
void h_i64store32o1(void) {
  ND(U32, a0);
  ND(U64, a1);
  g_mr_calls = 0; g_libm_calls = 0;
  inst.m0 = &g_mem;
  g_spec_trap = SPEC_NOTRAP;
  c05mem_i64store32o1(&inst, a0, a1);
  OBL(g_spec_trap == SPEC_NOTRAP, "i64store32o1: returned normally only if the specification does not trap");
  OBL(g_mr_calls == 1 && g_mr_id == MR_i64_store32 && g_mr_mem == inst.m0 && g_mr_addr == (U64)a0 + 1ull && g_mr_v0 == (U64)(a1), "i64store32o1: exactly one call of i64_store32 on memory 0: address = base (below) + offset in 64 bits, value = top of stack");
  CANARY("i64store32o1 returns");
}
void h_i64store32offffffff(void) {
  ND(U32, a0);
  ND(U64, a1);
  g_mr_calls = 0; g_libm_calls = 0;
  inst.m0 = &g_mem;
  g_spec_trap = SPEC_NOTRAP;
  c05mem_i64store32offffffff(&inst, a0, a1);
  OBL(g_spec_trap == SPEC_NOTRAP, "i64store32offffffff: returned normally only if the specification does not trap");
  OBL(g_mr_calls == 1 && g_mr_id == MR_i64_store32 && g_mr_mem == inst.m0 && g_mr_addr == (U64)a0 + 4294967295ull && g_mr_v0 == (U64)(a1), "i64store32offffffff: exactly one call of i64_store32 on memory 0: address = base (below) + offset in 64 bits, value = top of stack");
  CANARY("i64store32offffffff returns");
}
void h_memorysize(void) {
  U32 r;
  g_mr_calls = 0; g_libm_calls = 0;
  inst.m0 = &g_mem;
  ND(U32, m_pages); g_mem.pages = m_pages;
  g_spec_trap = SPEC_NOTRAP;
  r = c05mem_memorysize(&inst);
  OBL(g_spec_trap == SPEC_NOTRAP, "memorysize: returned normally only if the specification does not trap");
  OBL(((r) == (m_pages)), "memorysize: result equals the specified value");
  OBL(g_mr_calls == 0 && g_mem.pages == m_pages, "memorysize: memory.size only reads the page count");
  CANARY("memorysize returns");
}
void h_memorygrow(void) {
  ND(U32, a0);
  U32 r;
  g_mr_calls = 0; g_libm_calls = 0;
  inst.m0 = &g_mem;
  g_spec_trap = SPEC_NOTRAP;
  r = c05mem_memorygrow(&inst, a0);
  OBL(g_spec_trap == SPEC_NOTRAP, "memorygrow: returned normally only if the specification does not trap");
  OBL(g_mr_calls == 1 && g_mr_id == MR_wasmMemoryGrow && g_mr_mem == inst.m0 && g_mr_v0 == a0 && r == (U32)g_mr_ret, "memorygrow: memory.grow calls wasmMemoryGrow(memory 0, delta) once and delivers its result");
  CANARY("memorygrow returns");
}
void h_memorycopy(void) {
  ND(U32, a0);
  ND(U32, a1);
  ND(U32, a2);
  g_mr_calls = 0; g_libm_calls = 0;
  inst.m0 = &g_mem;
  g_spec_trap = SPEC_NOTRAP;
  c05mem_memorycopy(&inst, a0, a1, a2);
  OBL(g_spec_trap == SPEC_NOTRAP, "memorycopy: returned normally only if the specification does not trap");
  OBL(g_mr_calls == 1 && g_mr_id == MR_wasmMemoryCopy && g_mr_mem == inst.m0 && g_mr_mem2 == inst.m0 && g_mr_v0 == a0 && g_mr_v1 == a1 && g_mr_v2 == a2, "memorycopy: memory.copy calls wasmMemoryCopy(m0, m0, destination, source, count) in operand order");
  CANARY("memorycopy returns");
}
void h_memoryfill(void) {
  ND(U32, a0);
  ND(U32, a1);
  ND(U32, a2);
  g_mr_calls = 0; g_libm_calls = 0;
  inst.m0 = &g_mem;
  g_spec_trap = SPEC_NOTRAP;
  c05mem_memoryfill(&inst, a0, a1, a2);
  OBL(g_spec_trap == SPEC_NOTRAP, "memoryfill: returned normally only if the specification does not trap");
  OBL(g_mr_calls == 1 && g_mr_id == MR_wasmMemoryFill && g_mr_mem == inst.m0 && g_mr_v0 == a0 && g_mr_v1 == a1 && g_mr_v2 == a2, "memoryfill: memory.fill calls wasmMemoryFill(m0, destination, value, count) in operand order");
  CANARY("memoryfill returns");
}
void h_memoryinit(void) {
  ND(U32, a0);
  ND(U32, a1);
  ND(U32, a2);
  g_mr_calls = 0; g_libm_calls = 0;
  inst.m0 = &g_mem;
  static U8 g_bytes[8]; g_mem.data = g_bytes;
  ASSUME(a0 < 8);
  g_spec_trap = SPEC_NOTRAP;
  c05mem_memoryinit(&inst, a0, a1, a2);
  OBL(g_spec_trap == SPEC_NOTRAP, "memoryinit: returned normally only if the specification does not trap");
  OBL(g_mr_calls == 1 && g_mr_id == MR_load_data && g_mr_dst == (void*)&g_mem.data[a0] && g_mr_ptr == (const void*)(d1 + a1) && g_mr_v2 == a2, "memoryinit: memory.init copies count bytes from offset s of the designated (passive) segment to address d of memory 0");
  CANARY("memoryinit returns");
}
