/* C05: wasmMemoryCopy / wasmMemoryFill / load_data with CBMC's memmove/memset/memcpy models on a small
 * memory object (functions never read size; lengths bounded by the object) */
#include "w2c2_base.h"
#include "vh.h"
#include "wasm_int.h"
#include "wasm_mem.h"
#include "trapstub.h"
#define MEMSZ 12
#ifndef VERIF_NATIVE
void c_wasmMemoryCopy(const wasmMemory* destinationMemory, const wasmMemory* sourceMemory, const U32 destinationAddress, const U32 sourceAddress, const U32 count)
  __CPROVER_requires(1) __CPROVER_ensures(1) __CPROVER_assigns(__CPROVER_object_upto(destinationMemory->data + destinationAddress, count));
void c_wasmMemoryFill(const wasmMemory* memory, const U32 destinationAddress, const U32 value, const U32 count)
  __CPROVER_requires(1) __CPROVER_ensures(1) __CPROVER_assigns(__CPROVER_object_upto(memory->data + destinationAddress, count));
void c_load_data(void* dest, const void* src, const size_t n)
  __CPROVER_requires(1) __CPROVER_ensures(1) __CPROVER_assigns(__CPROVER_object_upto((char*)dest, n));
#endif
static void mkmem(wasmMemory* m, U8* d) { m->data = d; m->size = MEMSZ; m->pages = 1; m->maxPages = 1; m->shared = 0; m->futex = 0; m->futexFree = 0; }

void h_copy(void) {       /* one memory, overlap in both directions included */
    ND_ARR(U8, data, MEMSZ); U8 old[MEMSZ]; wasmMemory mem;
    ND(U32, d); ND(U32, s); ND(U32, n); ND(U32, k);
    ASSUME(n <= MEMSZ && d <= MEMSZ - n && s <= MEMSZ - n && k < MEMSZ);
    memcpy(old, data, MEMSZ); mkmem(&mem, data);
    wasmMemoryCopy(&mem, &mem, d, s, n);
    OBL(data[k] == ((k >= d && k < d + n) ? old[s + (k - d)] : old[k]),
        "memory.copy: destination range holds the ORIGINAL source bytes (overlap in either direction), every other byte unchanged");
    CANARY("copy returns");
}
void h_fill(void) {
    ND_ARR(U8, data, MEMSZ); U8 old[MEMSZ]; wasmMemory mem;
    ND(U32, d); ND(U32, v); ND(U32, n); ND(U32, k);
    ASSUME(n <= MEMSZ && d <= MEMSZ - n && k < MEMSZ);
    memcpy(old, data, MEMSZ); mkmem(&mem, data);
    wasmMemoryFill(&mem, d, v, n);
    OBL(data[k] == ((k >= d && k < d + n) ? (U8)(v & 0xFF) : old[k]), "memory.fill: exactly count bytes are set to the low 8 bits of the value");
    CANARY("fill returns");
}
void h_load_data(void) {  /* LOAD_DATA(m, o, i, s) as emitted for data segments and memory.init */
    ND_ARR(U8, data, MEMSZ); U8 old[MEMSZ]; ND_ARR(U8, seg, MEMSZ); wasmMemory mem;
    ND(U32, o); ND(U32, so); ND(U32, n); ND(U32, k);
    ASSUME(n <= MEMSZ && o <= MEMSZ - n && so <= MEMSZ - n && k < MEMSZ);
    memcpy(old, data, MEMSZ); mkmem(&mem, data);
    LOAD_DATA(mem, o, seg + so, n);
    OBL(data[k] == ((k >= o && k < o + n) ? seg[so + (k - o)] : old[k]), "load_data: exactly the segment bytes are copied to the offset, every other byte unchanged");
    CANARY("load_data returns");
}
