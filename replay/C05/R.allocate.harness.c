/* C05: wasmMemoryGrow / wasmMemoryAllocate / wasmMemoryCopy / wasmMemoryFill / load_data of the real
 * w2c2_base.h.  Arithmetic group: realloc/memset/calloc are replaced (by macro, so that the same text
 * runs natively) with recording models -> unbounded in pages, delta, maxPages.
 * Content group: CBMC's own realloc/memset models on a memory of <= 2 (tiny) pages is not possible
 * because WASM_PAGE_SIZE is a constant of the header; contents are covered through the recorded
 * (pointer, value, length) triples of the calls instead. */
#include <stddef.h>
#include <stdlib.h>
#include <string.h>
#include "vh.h"

/* ---- recording ENV models ---- */
static void* g_realloc_ptr; static size_t g_realloc_size; static int g_realloc_calls;
static void* g_realloc_result;                 /* what the allocator returns (NULL = failure) */
static void* g_memset_ptr; static int g_memset_val; static size_t g_memset_len; static int g_memset_calls;
static int g_free_calls;
static void* vh_realloc(void* p, size_t n) { g_realloc_calls++; g_realloc_ptr = p; g_realloc_size = n; return g_realloc_result; }
static void* vh_memset(void* p, int c, size_t n) { g_memset_calls++; g_memset_ptr = p; g_memset_val = c; g_memset_len = n; return p; }
static void vh_free(void* p) { (void)p; g_free_calls++; }
static size_t g_calloc_n[2], g_calloc_sz[2]; static int g_calloc_calls; static void* g_calloc_result[2];
static void* vh_calloc(size_t n, size_t sz) { int i = g_calloc_calls++; if (i < 2) { g_calloc_n[i] = n; g_calloc_sz[i] = sz; return g_calloc_result[i]; } return 0; }
#define realloc vh_realloc
#define memset vh_memset
#define free vh_free
#define calloc vh_calloc
#include "w2c2_base.h"
#undef realloc
#undef memset
#undef free
#undef calloc
#include "wasm_int.h"
#include "wasm_mem.h"
#include "trapstub.h"

#ifndef VERIF_NATIVE
U32 c_wasmMemoryGrow(wasmMemory* memory, const U32 delta)
  __CPROVER_requires(1) __CPROVER_ensures(1)
  __CPROVER_assigns(memory->data, memory->size, memory->pages, g_realloc_calls, g_realloc_ptr, g_realloc_size,
                    g_memset_calls, g_memset_ptr, g_memset_val, g_memset_len);
#endif

/* wf(memory): byte size and page count agree, page count within the declared maximum,
 * declared maximum within the WebAssembly limit of 65536 pages */
#define WF(m) ((U64)(m).size == (U64)(m).pages * 65536u && (m).pages <= (m).maxPages && (m).maxPages <= 65536u)

void h_grow(void) {
    wasmMemory mem;
    static U8 oldbuf[8], newbuf[8];     /* stand-ins for the (huge) buffers: only their addresses matter here */
    ND(U32, pages); ND(U32, maxPages); ND(U32, delta); ND(int, alloc_ok);
    U32 r; U64 want;
    mem.data = oldbuf; mem.pages = pages; mem.maxPages = maxPages; mem.size = pages * 65536u; mem.shared = 0;
    mem.futex = 0; mem.futexFree = 0;
    ASSUME(WF(mem));
#ifdef GROW_CLASS_REPRESENTABLE
    /* the class of calls whose new byte size is representable in the descriptor's 32-bit size field */
    ASSUME((U64)pages + (U64)delta <= 65535u || (U64)pages + (U64)delta > (U64)maxPages);
#endif
    g_realloc_calls = g_memset_calls = g_free_calls = 0;
    g_realloc_result = alloc_ok ? (void*)newbuf : (void*)0;
    r = wasmMemoryGrow(&mem, delta);
    want = (U64)pages + (U64)delta;                       /* mathematical new page count */
    if (want > (U64)maxPages || want > 0xFFFFFFFFull) {
        OBL(r == (U32)-1, "grow: -1 when the declared maximum or the 32-bit page count would be exceeded");
        OBL(mem.data == oldbuf && mem.pages == pages && mem.size == pages * 65536u, "grow: a failed grow changes nothing");
        OBL(g_realloc_calls == 0 && g_free_calls == 0 && g_memset_calls == 0, "grow: a rejected grow neither reallocates nor frees nor writes");
    } else if (r == (U32)-1) {
        /* allowed only as an allocation failure (the specification lets memory.grow fail), state intact */
        OBL(mem.data == oldbuf && mem.pages == pages && mem.size == pages * 65536u, "grow: a failed grow changes nothing");
        OBL(g_free_calls == 0 && g_memset_calls == 0, "grow: a failed grow frees and writes nothing");
        OBL(g_realloc_calls == 0 || (g_realloc_result == 0 && g_realloc_size != 0),
            "grow: failure after calling the allocator only if the allocator failed on a non-zero size (realloc(p,0) would free p)");
    } else {
        OBL(r == pages, "grow: a successful grow returns the old size in pages");
        OBL(mem.pages == (U32)want && WF(mem), "grow: new page count = old + delta, descriptor stays well-formed (size = pages * 64KiB <= max)");
        if (delta != 0) {
            OBL(g_realloc_calls == 1 && g_realloc_ptr == (void*)oldbuf && (U64)g_realloc_size == want * 65536u,
                "grow: the buffer is reallocated once to exactly (old+delta) * 64KiB bytes (existing contents kept by realloc)");
            OBL(mem.data == (U8*)newbuf, "grow: the descriptor points to the reallocated buffer");
            OBL(g_memset_calls == 1 && g_memset_ptr == (void*)((U8*)newbuf + (U64)pages * 65536u) && g_memset_val == 0
                && (U64)g_memset_len == (U64)delta * 65536u, "grow: exactly the new pages are zeroed");
        } else {
            OBL(mem.data == (U8*)oldbuf || (g_realloc_calls == 1 && (U64)g_realloc_size == want * 65536u && g_realloc_size != 0),
                "grow: growing by zero keeps the buffer (or reallocates it to the same non-zero size)");
        }
        OBL(g_free_calls == 0, "grow: nothing is freed");
    }
    CANARY("grow returns");
}

void h_allocate(void) {
    ND(U32, initial); ND(U32, maxPages);
    static wasmMemory mstore; static U8 dbuf[8];
    wasmMemory* m;
    ASSUME(initial <= maxPages && maxPages <= 65536u);
#ifdef GROW_CLASS_REPRESENTABLE
    ASSUME(initial <= 65535u);
#endif
#ifdef ALLOC_CLASS_4GIB
    ASSUME(initial == 65536u);          /* exactly the complement class: a declared minimum of 4 GiB */
#endif
    g_calloc_calls = 0; g_calloc_result[0] = &mstore; g_calloc_result[1] = dbuf;
    m = wasmMemoryAllocate(initial, maxPages, false);
    OBL(m == &mstore && g_calloc_calls == 2, "allocate: one descriptor and one zero-initialised buffer are allocated");
    OBL((U64)g_calloc_n[1] * (U64)g_calloc_sz[1] == (U64)initial * 65536u, "allocate: the buffer has exactly initial * 64KiB zeroed bytes");
    OBL(m->pages == initial && m->maxPages == maxPages && m->data == dbuf && !m->shared && WF(*m), "allocate: descriptor reports the declared minimum and is well-formed");
    CANARY("allocate returns");
}
