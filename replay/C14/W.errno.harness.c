/* C12: WASI file I/O entry points of the real wasi/wasi.c against the POSIX recording model. */
#include "wasi_common.h"
#include "wasi_spec.h"

#define LIVE_FILE(d, n) ASSUME((d) < (n) && (g_kind_d == K_FILE || g_kind_d == K_STD))
/* "the translated errno": the translation table itself (wasiErrno) has its own obligation W.errno */
static U32 tr_errno(int e) { int saved = errno; U16 t; errno = e; t = wasiErrno(); errno = saved; return t; }
#define ERR_OK(r, e) ((r) == tr_errno(e))

/* ---------- fd_write / fd_read: scatter/gather marshalling ---------- */
#if defined(OP_WRITE)
#define RW_CALL(abi) wasi_##abi##__fd_write
#define RW_EV EV_writev
#else
#define RW_CALL(abi) wasi_##abi##__fd_read
#define RW_EV EV_readv
#endif
#ifdef ABI_UNSTABLE
#define ABI unstable
#else
#define ABI snapshot_preview1
#endif
#define CAT(a, b) a##b
#define RW_FN2(abi) RW_CALL(abi)
void h_rw(void) {
    ND(size_t, n); ND(U32, d); ND(U32, iovp); ND(U32, cnt); ND(U32, rp); ND(U32, k); ND(U32, j); U32 r; U8 old[GMEM];
    mk_table_sym(n, n, d); LIVE_FILE(d, n); mem_init();
    ASSUME(cnt <= EV_IOV_MAX && iovp <= GMEM - 8 * EV_IOV_MAX && rp <= GMEM - 4 && k < GMEM && (cnt == 0 || j < cnt));
    memcpy(old, g_data, GMEM); ev_reset();
    r = RW_FN2(ABI)(0, d, iovp, cnt, rp);
    if (g_ev_calls == 0) {
        OBL(r == SW_NOMEM, "read/write: without a host call only on allocation failure");
    } else {
        OBL(g_ev_calls == 1 && g_ev_last == RW_EV && g_ev_fd == g_before_d.fd, "read/write: exactly one vectored transfer on the descriptor's native fd");
        OBL(g_ev_cnt == (int)cnt, "read/write: the segment count is passed unchanged (zero segments included)");
        OBL(cnt == 0 || (g_ev_iovcopy[j].iov_base == (void*)(g_data + (U32)spec_le_read(old, iovp + 8 * j, 4))
                         && g_ev_iovcopy[j].iov_len == (size_t)(U32)spec_le_read(old, iovp + 8 * j + 4, 4)),
            "read/write: native segment j = (memory + LE32(iovs + 8j), LE32(iovs + 8j + 4)), in order, zero-length segments kept");
        if (g_ev_result >= 0) {
            OBL(r == SW_SUCCESS, "read/write: success is reported");
            OBL(g_data[k] == ((k >= rp && k < rp + 4) ? spec_le_byte((U64)g_ev_result, k - rp) : old[k]),
                "read/write: the byte count of the transfer is stored as little-endian u32 at the result pointer, nothing else is written by the marshalling");
        } else {
            OBL(ERR_OK(r, g_ev_errno_on_fail), "read/write: a failed transfer reports the translated errno");
            OBL(r != SW_SUCCESS && g_data[k] == old[k], "read/write: a failed transfer stores nothing");
        }
    }
    CANARY("rw returns");
}

/* ---------- fd_pwrite / fd_pread: full 64-bit offset, position restored ---------- */
#if defined(OP_WRITE)
#define PRW_CALL(abi) wasi_##abi##__fd_pwrite
#else
#define PRW_CALL(abi) wasi_##abi##__fd_pread
#endif
#define PRW_FN2(abi) PRW_CALL(abi)
void h_prw(void) {
    ND(size_t, n); ND(U32, d); ND(U32, iovp); ND(U32, cnt); ND(U32, rp); ND(U64, off); U32 r;
    mk_table_sym(n, n, d); LIVE_FILE(d, n); mem_init();
    ASSUME(cnt <= EV_IOV_MAX && iovp <= GMEM - 8 * EV_IOV_MAX && rp <= GMEM - 4);
    /* every 64-bit offset, also those >= 2^63 (a negative off_t: POSIX lseek/pwrite reject them with EINVAL - they are never 'the current position') */
#ifdef OFFSET_CLASS_32BIT
    ASSUME(off <= 0xFFFFFFFFull);
#endif
    ev_reset();
    /* called through the WASI signature (i32 fd, i32 iovs, i32 iovs_len, i64 offset, i32 result) as a generated import declaration does */
    r = PRW_FN2(ABI)(0, d, iovp, cnt, off, rp);
    if (g_ev_calls > 0) {
        OBL(g_ev_seq[0] == EV_lseek && g_ev_seq_whence[0] == SEEK_CUR && g_ev_seq_off[0] == 0 && g_ev_fd == g_before_d.fd, "pread/pwrite: first the current position is queried");
        if (g_ev_seq_res[0] >= 0) {
            OBL(g_ev_calls >= 2 && g_ev_seq[1] == EV_lseek && g_ev_seq_whence[1] == SEEK_SET, "pread/pwrite: then the position is set absolutely");
            OBL(g_ev_calls >= 2 && g_ev_seq_off[1] == (long long)off, "pread/pwrite: the FULL 64-bit guest offset reaches lseek");
            if (off > 0x7FFFFFFFFFFFFFFFull) OBL(r != SW_SUCCESS && g_ev_calls == 2 && g_ev_seq_res[1] < 0, "pread/pwrite: an offset beyond 2^63-1 fails (as pwrite does), nothing is transferred");
            if (g_ev_calls >= 2 && g_ev_seq_res[1] >= 0) {
                OBL(g_ev_calls == 4 && g_ev_seq[2] == RW_EV, "pread/pwrite: one vectored transfer at that position");
                OBL(g_ev_calls == 4 && g_ev_seq[3] == EV_lseek && g_ev_seq_whence[3] == SEEK_SET && g_ev_seq_off[3] == g_ev_seq_res[0],
                    "pread/pwrite: the original file position is restored after the transfer, whether it succeeded or failed");
                if (g_ev_calls == 4 && g_ev_seq_res[2] < 0) OBL(ERR_OK(r, g_ev_seq_errno[2]) && r != SW_SUCCESS, "pread/pwrite: the errno of the failed transfer is the one reported");
                if (g_ev_calls == 4 && g_ev_seq_res[2] >= 0 && g_ev_seq_res[3] >= 0)
                    OBL(r == SW_SUCCESS && (U32)spec_le_read(g_data, rp, 4) == (U32)g_ev_seq_res[2], "pread/pwrite: the byte count is stored on success");
            } else {
                OBL(g_ev_calls == 2 && r != SW_SUCCESS, "pread/pwrite: if positioning fails nothing is transferred");
            }
        } else {
            OBL(g_ev_calls == 1 && r != SW_SUCCESS, "pread/pwrite: if the position cannot be queried nothing is transferred");
        }
    }
    CANARY("prw returns");
}

/* ---------- fd_seek (both generations of whence) and fd_tell ---------- */
void h_seek(void) {
    ND(size_t, n); ND(U32, d); ND(U64, off); ND(U32, whence); ND(U32, rp); ND(U32, k); U32 r; int nw; U8 old[GMEM];
    mk_table_sym(n, n, d); LIVE_FILE(d, n); mem_init();
    ASSUME(rp <= GMEM - 8 && k < GMEM);
    memcpy(old, g_data, GMEM); ev_reset();
#ifdef ABI_UNSTABLE
    r = wasi_unstable__fd_seek(0, d, off, whence, rp); nw = spec_whence_unstable(whence);
#else
    r = wasi_snapshot_preview1__fd_seek(0, d, off, whence, rp); nw = spec_whence_preview1(whence);
#endif
    if (nw == -1) {
        OBL(r == SW_INVAL && g_ev_calls == 0, "seek: an unknown whence yields EINVAL without a host call");
        OBL(g_data[k] == old[k], "seek: nothing is stored");
    } else {
        OBL(g_ev_calls == 1 && g_ev_last == EV_lseek && g_ev_fd == g_before_d.fd && g_ev_whence == nw, "seek: one lseek with the whence of this ABI generation");
        OBL(g_ev_off == (long long)off, "seek: the 64-bit offset is passed unchanged");
        if (g_ev_result >= 0) OBL(r == SW_SUCCESS && g_data[k] == ((k >= rp && k < rp + 8) ? spec_le_byte((U64)g_ev_result, k - rp) : old[k]), "seek: the resulting offset is stored as little-endian u64");
        else OBL(ERR_OK(r, g_ev_errno_on_fail) && r != SW_SUCCESS && g_data[k] == old[k], "seek: failure reports the translated errno and stores nothing");
    }
    CANARY("seek returns");
}
void h_tell(void) {
    ND(size_t, n); ND(U32, d); ND(U32, rp); U32 r;
    mk_table_sym(n, n, d); LIVE_FILE(d, n); mem_init();
    ASSUME(rp <= GMEM - 8); ev_reset();
    r = wasi_snapshot_preview1__fd_tell(0, d, rp);
    OBL(g_ev_calls == 1 && g_ev_last == EV_lseek && g_ev_fd == g_before_d.fd && g_ev_whence == SEEK_CUR && g_ev_off == 0, "tell: lseek(fd, 0, SEEK_CUR)");
    if (g_ev_result >= 0) OBL(r == SW_SUCCESS && spec_le_read(g_data, rp, 8) == (U64)g_ev_result, "tell: the current offset is stored as little-endian u64");
    CANARY("tell returns");
}

/* ---------- path_open ---------- */
void h_path_open(void) {
    ND(size_t, n); ND(U32, d); ND(U32, pp); ND(U32, pl); ND(U32, oflags); ND(U32, fdflags); ND(U64, rights); ND(U64, inh); ND(U32, dirflags); ND(U32, fdp);
    ND(unsigned, st_mode); U32 r; char want[PATH_MAX]; int verdict;
    mk_table_sym(n, n + 1, d); ASSUME(d < n && (g_kind_d == K_PREOPEN || g_kind_d == K_DIR)); mem_init();
    ASSUME(pp <= GMEM - 12 && pl <= 12 && fdp <= GMEM - 4);
    g_ev_stat.st_mode = (mode_t)st_mode;
    verdict = spec_resolve(g_path_d, g_data + pp, pl, want, PATH_MAX);
    ev_reset();
    r = wasi_snapshot_preview1__path_open(0, d, dirflags, pp, pl, oflags, rights, inh, fdflags, fdp);
    if (verdict == 0) OBL(r == SW_INVAL && g_ev_calls == 0, "path_open: an empty path or one that does not fit the host path limit is rejected without a host call");
    if (verdict == 1) OBL(g_ev_calls >= 1, "path_open: a resolvable path is opened");
    if (g_ev_calls >= 1) {
        OBL(g_ev_seq[0] == EV_open && strcmp(g_ev_path, want) == 0, "path_open: opens exactly the path resolved against the directory descriptor");
        OBL(g_ev_flags == spec_open_flags(oflags, fdflags, rights), "path_open: native flags = access mode from the rights + CREAT/DIRECTORY/EXCL/TRUNC + APPEND/DSYNC/NONBLOCK/SYNC");
        OBL(g_ev_mode == 0644, "path_open: files are created with mode 0644");
    }
    if (r == SW_SUCCESS) {
        OBL(wasi.fds.length == n + 1 && g_sym[n].fd == (int)g_ev_seq_res[0] && g_sym[n].path != 0 && strcmp(g_sym[n].path, want) == 0,
            "path_open: the new descriptor is registered with the native fd and the resolved path");
        OBL((U32)spec_le_read(g_data, fdp, 4) == (U32)n, "path_open: the new descriptor number (= old table length, never a live one) is stored at the result pointer");
        if (oflags & 2) OBL(S_ISDIR(g_ev_stat.st_mode), "path_open: with the directory flag only a directory is accepted");
    } else {
        OBL(wasi.fds.length == n, "path_open: a failed open registers nothing");
        if (g_ev_calls >= 1 && g_ev_seq_res[0] < 0) OBL(ERR_OK(r, g_ev_seq_errno[0]), "path_open: the errno of open is translated");
    }
    CANARY("path_open returns");
}

/* ---------- fd_filestat_get: layouts of both generations ---------- */
#ifndef SEC_MAX
#define SEC_MAX 1024
#endif
void h_filestat(void) {
    ND(size_t, n); ND(U32, d); ND(U32, sp); ND(U32, k); U32 r; U8 old[GMEM]; struct stat st; U8 want[64]; unsigned i;
    ND(U64, v_dev); ND(U64, v_ino); ND(unsigned, v_mode); ND(U64, v_nlink); ND(U64, v_size);
    ND(long, a_s); ND(long, a_n); ND(long, m_s); ND(long, m_n); ND(long, c_s); ND(long, c_n);
    mk_table_sym(n, n, d); LIVE_FILE(d, n); mem_init();
    ASSUME(sp <= GMEM - 64 && k < GMEM);
    ASSUME(a_n >= 0 && a_n < 1000000000 && m_n >= 0 && m_n < 1000000000 && c_n >= 0 && c_n < 1000000000);
    ASSUME(a_s >= 0 && a_s < SEC_MAX && m_s >= 0 && m_s < SEC_MAX && c_s >= 0 && c_s < SEC_MAX);
    memset(&st, 0, sizeof st);
    st.st_dev = v_dev; st.st_ino = v_ino; st.st_mode = (mode_t)v_mode; st.st_nlink = v_nlink; st.st_size = (off_t)v_size;
    st.st_atim.tv_sec = a_s; st.st_atim.tv_nsec = a_n; st.st_mtim.tv_sec = m_s; st.st_mtim.tv_nsec = m_n; st.st_ctim.tv_sec = c_s; st.st_ctim.tv_nsec = c_n;
    g_ev_stat = st;
    memcpy(old, g_data, GMEM); ev_reset();
    for (i = 0; i < 64; i++) want[i] = 0;
#define PUT(offs, w, val) { unsigned q_; for (q_ = 0; q_ < (w); q_++) want[(offs) + q_] = spec_le_byte((U64)(val), q_); }
    PUT(0, 8, v_dev) PUT(8, 8, v_ino) PUT(16, 1, spec_filetype((mode_t)v_mode))
#ifdef ABI_UNSTABLE
    /* unstable filestat: dev u64 @0, ino u64 @8, filetype u8 @16, nlink u32 @20, size u64 @24, atim @32, mtim @40, ctim @48 (56 bytes, stored in 64) */
    PUT(20, 4, (U32)v_nlink) PUT(24, 8, v_size) PUT(32, 8, (U64)a_s * 1000000000ull + (U64)a_n) PUT(40, 8, (U64)m_s * 1000000000ull + (U64)m_n) PUT(48, 8, (U64)c_s * 1000000000ull + (U64)c_n)
    r = wasi_unstable__fd_filestat_get(0, d, sp);
#else
    /* preview1 filestat: dev @0, ino @8, filetype u8 @16, nlink u64 @24, size @32, atim @40, mtim @48, ctim @56 */
    PUT(24, 8, v_nlink) PUT(32, 8, v_size) PUT(40, 8, (U64)a_s * 1000000000ull + (U64)a_n) PUT(48, 8, (U64)m_s * 1000000000ull + (U64)m_n) PUT(56, 8, (U64)c_s * 1000000000ull + (U64)c_n)
    r = wasi_snapshot_preview1__fd_filestat_get(0, d, sp);
#endif
    OBL(g_ev_calls == 1 && g_ev_last == EV_fstat && g_ev_fd == g_before_d.fd, "filestat_get: one fstat on the native descriptor");
    if (r == SW_SUCCESS) OBL(g_data[k] == ((k >= sp && k < sp + 64) ? want[k - sp] : old[k]), "filestat_get: every field at its specified offset and width, little-endian, padding zero, nothing else written");
    else OBL(g_data[k] == old[k], "filestat_get: failure stores nothing");
    CANARY("filestat returns");
}

/* ---------- errno translation ---------- */
void h_errno(void) {
    ND(int, e); U16 r;
    ASSUME(e > 0 && e < 134);
    errno = e;
    r = wasiErrno();
    OBL(spec_wasi_errno(e) < 0 || r == (U16)spec_wasi_errno(e), "errno: every POSIX errno of the file/path operations in scope is translated to the WASI errno of the same name");
    OBL(r != SW_SUCCESS, "errno: an error is never reported as success");
    CANARY("errno returns");
}

/* ---------- convertTimespec: nanoseconds = sec * 10^9 + nsec, for all normalised values without overflow ---------- */
void h_convert_timespec(void) {
    struct timespec t; ND(long, s); ND(long, ns); I64 r;
    ASSUME(ns >= 0 && ns < 1000000000L && s >= 0 && s <= 9223372035L);
    t.tv_sec = s; t.tv_nsec = ns;
    r = convertTimespec(t);
    OBL(r == (I64)s * 1000000000LL + (I64)ns, "convertTimespec: seconds * 10^9 + nanoseconds");
    OBL(r >= 0, "convertTimespec: no overflow for times before year 2262");
    CANARY("convertTimespec returns");
}
