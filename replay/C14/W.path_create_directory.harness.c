/* C14: path resolution, path operations and fd_readdir of the real wasi/wasi.c */
#include "wasi_common.h"
#include "wasi_spec.h"

static U32 tr_errno(int e) { int saved = errno; U16 t; errno = e; t = wasiErrno(); errno = saved; return t; }

/* ---------- resolvePath itself: every directory string and every guest path (not NUL terminated) ---------- */
void h_resolve(void) {
    ND_ARR(char, dirbuf, PATH_MAX); ND(U32, dlen); ND(U32, plen); ND(U32, k);
    char result[PATH_MAX]; char want[PATH_MAX]; char* path; char* dir; bool ok; int verdict; U32 i;
    ASSUME(dlen >= 1 && dlen < PATH_MAX && plen <= 2 * PATH_MAX && k < PATH_MAX);
    dir = (char*)malloc(dlen + 1); path = (char*)malloc(plen ? plen : 1);    /* exact-size objects: reading past path[plen-1] is a bounds violation */
    ASSUME(dir != 0 && path != 0);
    for (i = 0; i < dlen; i++) { ASSUME(dirbuf[i] != 0); dir[i] = dirbuf[i]; }
    dir[dlen] = 0;
    { ND_ARR(char, pathbuf, 2 * PATH_MAX); for (i = 0; i < plen; i++) path[i] = pathbuf[i]; }
    for (i = 0; i < PATH_MAX; i++) result[i] = 0x55;
    verdict = spec_resolve(dir, (const unsigned char*)path, plen, want, PATH_MAX);
    ok = resolvePath(dir, path, plen, result);
    if (verdict == 0) OBL(!ok, "resolvePath: an empty path, or a result that does not fit PATH_MAX with its terminator, is rejected");
    if (verdict == 1) OBL(ok, "resolvePath: a result that fits is accepted");
    if (ok) {
        OBL(verdict != 0, "resolvePath: accepts only results that fit");
        OBL(strlen(want) < PATH_MAX && result[strlen(want)] == 0, "resolvePath: the result is NUL-terminated inside the buffer");
        OBL(k > strlen(want) || result[k] == want[k], "resolvePath: absolute path as is; relative path = directory [+ '/'] + path");
    }
    CANARY("resolve returns");
}

/* ---------- path operations: resolved path + exactly the corresponding host call ---------- */
#define PATH_PROLOGUE \
    ND(size_t, n); ND(U32, d); ND(U32, pp); ND(U32, pl); U32 r; char want[PATH_MAX]; int verdict; \
    mk_table_sym(n, n, d); ASSUME(d < n && (g_kind_d == K_PREOPEN || g_kind_d == K_DIR)); mem_init(); \
    ASSUME(pp <= GMEM - 12 && pl <= 12); \
    verdict = spec_resolve(g_path_d, g_data + pp, pl, want, PATH_MAX); ev_reset();
#define PATH_COMMON(name, EV) \
    if (verdict == 0) OBL(r == SW_INVAL && g_ev_calls == 0, name ": an unresolvable path yields EINVAL without a host call"); \
    if (verdict == 1) OBL(g_ev_calls == 1, name ": exactly one host call"); \
    if (g_ev_calls >= 1) { \
        OBL(g_ev_calls == 1 && g_ev_last == EV && strcmp(g_ev_path, want) == 0, name ": exactly the corresponding host operation on the path resolved against the directory descriptor"); \
        OBL(g_ev_result < 0 ? r == tr_errno(g_ev_errno_on_fail) : r == SW_SUCCESS, name ": success, or the translated errno of the host operation"); }

void h_create_directory(void) { PATH_PROLOGUE r = wasi_snapshot_preview1__path_create_directory(0, d, pp, pl);
    PATH_COMMON("path_create_directory", EV_mkdir) if (g_ev_calls) OBL(g_ev_mode == 0755, "path_create_directory: mode 0755"); CANARY("mkdir returns"); }
void h_remove_directory(void) { PATH_PROLOGUE r = wasi_snapshot_preview1__path_remove_directory(0, d, pp, pl); PATH_COMMON("path_remove_directory", EV_rmdir) CANARY("rmdir returns"); }
void h_unlink_file(void) { PATH_PROLOGUE r = wasi_snapshot_preview1__path_unlink_file(0, d, pp, pl); PATH_COMMON("path_unlink_file", EV_unlink) CANARY("unlink returns"); }
void h_path_filestat(void) {
    PATH_PROLOGUE ND(U32, sp); ND(U32, fl); ND(unsigned, v_mode); ND(U64, v_size);
    ASSUME(sp <= GMEM - 64); memset(&g_ev_stat, 0, sizeof g_ev_stat); g_ev_stat.st_mode = (mode_t)v_mode; g_ev_stat.st_size = (off_t)v_size;
#ifdef ABI_UNSTABLE
    r = wasi_unstable__path_filestat_get(0, d, fl, pp, pl, sp);
#else
    r = wasi_snapshot_preview1__path_filestat_get(0, d, fl, pp, pl, sp);
#endif
    if (verdict == 0) OBL(r == SW_INVAL && g_ev_calls == 0, "path_filestat_get: an unresolvable path yields EINVAL without a host call");
    if (g_ev_calls >= 1) {
        OBL(g_ev_calls == 1 && g_ev_last == EV_stat && strcmp(g_ev_path, want) == 0, "path_filestat_get: stat on the resolved path");
        if (r == SW_SUCCESS) {
            OBL(g_data[sp + 16] == (U8)spec_filetype((mode_t)v_mode), "path_filestat_get: file type at offset 16");
#ifdef ABI_UNSTABLE
            OBL(spec_le_read(g_data, sp + 24, 8) == v_size, "path_filestat_get: size as little-endian u64 at offset 24 (unstable layout)");
#else
            OBL(spec_le_read(g_data, sp + 32, 8) == v_size, "path_filestat_get: size as little-endian u64 at offset 32 (preview1 layout)");
#endif
        }
    }
    CANARY("path_filestat returns");
}
void h_readlink(void) {
    PATH_PROLOGUE ND(U32, bp); ND(U32, bl); ND(U32, lp);
    ASSUME(bp <= GMEM - 8 && bl <= 8 && lp <= GMEM - 4);
    r = wasi_snapshot_preview1__path_readlink(0, d, pp, pl, bp, bl, lp);
    PATH_COMMON("path_readlink", EV_readlink)
    if (g_ev_calls) OBL(g_ev_ptr == (void*)(g_data + bp) && g_ev_len == bl, "path_readlink: the link target is read into the guest buffer with its length as limit");
    if (g_ev_calls && g_ev_result >= 0) OBL((U32)spec_le_read(g_data, lp, 4) == (U32)g_ev_result, "path_readlink: the number of bytes is stored as little-endian u32");
    CANARY("readlink returns");
}
/* two-path operations: small two-entry view of the table (both descriptors are directories with paths) */
#ifndef L1MAX
#define L1MAX 8
#endif
#ifndef L2MAX
#define L2MAX 8
#endif
#define TWO_PROLOGUE \
    ND(unsigned, n); ND(U32, d1); ND(U32, d2); ND(U32, p1); ND(U32, l1); ND(U32, p2); ND(U32, l2); U32 r; char want1[PATH_MAX], want2[PATH_MAX]; int v1, v2; \
    ASSUME(n <= TAB_MAX); mk_table(n, TAB_MAX); mem_init(); \
    ASSUME(d1 < n && d2 < n && (g_kind[d1] == K_PREOPEN || g_kind[d1] == K_DIR) && (g_kind[d2] == K_PREOPEN || g_kind[d2] == K_DIR)); \
    ASSUME(p1 <= GMEM - L1MAX && p2 <= GMEM - L2MAX && l1 <= L1MAX && l2 <= L2MAX);
void h_rename(void) {
    TWO_PROLOGUE
    v1 = spec_resolve(g_path[d1], g_data + p1, l1, want1, PATH_MAX); v2 = spec_resolve(g_path[d2], g_data + p2, l2, want2, PATH_MAX); ev_reset();
    r = wasi_snapshot_preview1__path_rename(0, d1, p1, l1, d2, p2, l2);
    if (v1 == 0 || v2 == 0) OBL(r == SW_INVAL && g_ev_calls == 0, "path_rename: an unresolvable old or new path yields EINVAL without a host call");
    if (v1 == 1 && v2 == 1) OBL(g_ev_calls == 1, "path_rename: exactly one host call");
    if (g_ev_calls >= 1) {
        OBL(g_ev_calls == 1 && g_ev_last == EV_rename, "path_rename: one rename");
        OBL(strcmp(g_ev_path, want1) == 0, "path_rename: the old path is resolved against the OLD directory descriptor");
        OBL(strcmp(g_ev_path2, want2) == 0, "path_rename: the new path is resolved against the NEW directory descriptor");
        OBL(g_ev_result < 0 ? r == tr_errno(g_ev_errno_on_fail) : r == SW_SUCCESS, "path_rename: success or the translated errno");
    }
    CANARY("rename returns");
}
void h_symlink(void) {
    TWO_PROLOGUE unsigned i; char old[PATH_MAX];
    v2 = spec_resolve(g_path[d2], g_data + p2, l2, want2, PATH_MAX); ev_reset();
    for (i = 0; i < l1 && i < PATH_MAX - 1; i++) old[i] = (char)g_data[p1 + i];
    old[i] = 0;
    r = wasi_snapshot_preview1__path_symlink(0, p1, l1, d2, p2, l2);
    if (v2 == 0) OBL(r == SW_INVAL && g_ev_calls == 0, "path_symlink: an unresolvable link path yields EINVAL without a host call");
    if (l1 >= PATH_MAX) OBL(r != SW_SUCCESS && g_ev_calls == 0, "path_symlink: a link target that does not fit PATH_MAX with its terminator is refused without a host call (and without writing past the buffer: bounds checks)");
    if (g_ev_calls >= 1) {
        OBL(g_ev_calls == 1 && g_ev_last == EV_symlink, "path_symlink: one symlink");
        OBL(strncmp(g_ev_path, old, EV_PATHMAX) == 0, "path_symlink: the link target is passed verbatim (not resolved)");
        OBL(strcmp(g_ev_path2, want2) == 0, "path_symlink: the link path is resolved against the directory descriptor");
    }
    CANARY("symlink returns");
}

/* ---------- fd_readdir against a ghost directory stream ---------- */
#ifndef RD_GMEM
#define RD_GMEM GMEM
#endif
#define NAMEMAX EV_NAMEMAX
static U32 g_nl[EV_DIR_MAX];     /* name lengths, computed by cases */
static void mk_dir(unsigned count) {
    ND_ARR(unsigned char, dn0, NAMEMAX + 1); ND_ARR(unsigned char, dn1, NAMEMAX + 1); ND_ARR(unsigned char, dn2, NAMEMAX + 1);
    ND(unsigned long, ino0); ND(unsigned long, ino1); ND(unsigned long, ino2); ND(unsigned char, ty0); ND(unsigned char, ty1); ND(unsigned char, ty2);
    unsigned i;
#define MK_DE(j) { for (i = 0; i < NAMEMAX; i++) g_ev_names[j][i] = (char)dn##j[i]; g_ev_names[j][NAMEMAX] = 0; ASSUME(dn##j[0] != 0); \
      g_ev_inos[j] = ino##j; g_nl[j] = dn##j[1] == 0 ? 1u : dn##j[2] == 0 ? 2u : 3u; \
      ASSUME(ty##j == DT_REG || ty##j == DT_DIR || ty##j == DT_LNK || ty##j == DT_CHR || ty##j == DT_BLK); g_ev_types[j] = ty##j; }
    MK_DE(0) MK_DE(1) MK_DE(2)
    g_ev_dirent_count = (int)count;
}
static int spec_dt(unsigned char t) { return t == DT_REG ? 4 : t == DT_DIR ? 3 : t == DT_LNK ? 7 : t == DT_CHR ? 2 : t == DT_BLK ? 1 : 0; }
void h_readdir(void) {
    ND(size_t, n); ND(U32, d); ND(U32, bp); ND(U32, bl); ND(U64, cookie); ND(U32, up); ND(unsigned, count); ND(int, already_open); ND(int, cur); ND(U32, k);
    U32 r, used, pos, e; U8 old[GMEM];
    mk_table_sym(n, n, d); ASSUME(d < n && (g_kind_d == K_DIR || g_kind_d == K_PREOPEN)); mem_init();
    ASSUME(count <= EV_DIR_MAX); mk_dir(count);
    ASSUME(bl <= 40 && bp <= GMEM - 44 && up <= GMEM - 4 && (up + 4 <= bp || bp + bl <= up) && k < GMEM);
    ASSUME(cookie <= count);                              /* 0 = start, or a d_next value returned earlier (entry i has d_next = i+1) */
    /* stream state: either not yet opened (first call on this descriptor) or opened and positioned anywhere (earlier calls) */
    if (g_kind_d == K_DIR && already_open) { ASSUME(cur >= 0 && cur <= (int)count); g_ev_dirstream.pos = cur; g_ev_dirstream.open = 1; }
    else { g_sym[d].dir = 0; ASSUME(cookie == 0); }
    memcpy(old, g_data, GMEM); ev_reset();
    r = wasi_snapshot_preview1__fd_readdir(0, d, bp, bl, cookie, up);
    if (g_ev_n[EV_opendir] && g_ev_n[EV_readdir] == 0 && r != SW_SUCCESS) { CANARY("readdir opendir failed"); return; }
    OBL(r == SW_SUCCESS, "readdir: succeeds");
    used = (U32)spec_le_read(g_data, up, 4);
    OBL(used <= bl, "readdir: the reported size never exceeds the buffer");
    /* expected image: entries cookie, cookie+1, ... back to back, each 24-byte header + name, truncated at the buffer end */
    pos = 0;
    for (e = (U32)cookie; e < count && pos < bl; e++) {
        U32 nl = g_nl[e]; U32 room; U8 hdr[24]; U32 q;
        if (bl - pos < 24) { pos = bl; break; }           /* header does not fit: buffer reported full */
        for (q = 0; q < 24; q++) hdr[q] = 0;
        for (q = 0; q < 8; q++) { hdr[q] = spec_le_byte((U64)(e + 1), q); hdr[8 + q] = spec_le_byte((U64)g_ev_inos[e], q); }
        for (q = 0; q < 4; q++) hdr[16 + q] = spec_le_byte((U64)nl, q);
        hdr[20] = (U8)spec_dt(g_ev_types[e]);
        if (k >= bp + pos && k < bp + pos + 24) OBL(g_data[k] == hdr[k - bp - pos], "readdir: record header = d_next (u64 @0), d_ino (u64 @8), d_namlen (u32 @16, the FULL name length), d_type (u8 @20), padding zero");
        pos += 24; room = bl - pos; if (nl < room) room = nl;
        if (k >= bp + pos && k < bp + pos + room) OBL(g_data[k] == (U8)g_ev_names[e][k - bp - pos], "readdir: the name follows the header, truncated only by the end of the buffer");
        pos += room;
    }
    OBL(used == pos, "readdir: entries are delivered from the cookie position onward, back to back (cookie 0 = from the first entry, a returned d_next = the following entry)");
    OBL((k >= bp && k < bp + bl) || (k >= up && k < up + 4) || g_data[k] == old[k], "readdir: nothing outside the buffer and the size cell is written");
    CANARY("readdir returns");
}
