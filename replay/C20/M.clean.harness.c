/* C20: which files the translator opens for writing and deletes.
 *  h_clean        : cleanImplementationFiles of the real main.c against a glob model (names ending in ".c", any other characters)
 *  h_output_names : wasmCWriteModule of the real c.c: names passed to fopen are the basename of the output path and its .h sibling
 *  h_chdir        : changeToOutputDirectory: chdir(dirname(output path))
 * compat.c (bundled basename/dirname) is the repository's own code (build configuration without libgen.h). */
#include <stdio.h>
#include <stdlib.h>
#include <string.h>
#include <stdarg.h>
#include <limits.h>
#include "vh.h"
/* PATH_MAX is re-defined small (buffers are char[PATH_MAX]; the code is uniform in the macro; paths here are <= 8 characters) */
#undef PATH_MAX
#define PATH_MAX 16
#define NAME_MAX_ 16
/* ---- ENV: file system recorder ---- */
static int g_removed_n = 0; static const char* g_removed[4];
static int vh_remove(const char* p) { if (g_removed_n < 4) g_removed[g_removed_n] = p; g_removed_n++; return 0; }
static int g_open_n = 0; static char g_open_name[4][NAME_MAX_]; static char g_open_mode[4]; static int g_open_fail_at = 0; static FILE* g_dummy;
static void copy_name(char* d, const char* s) { int i = 0; for (; i < NAME_MAX_ - 1 && s[i]; i++) d[i] = s[i]; d[i] = 0; }
static FILE* vh_fopen(const char* name, const char* mode) { if (g_open_n < 4) { copy_name(g_open_name[g_open_n], name); g_open_mode[g_open_n] = mode[0]; } g_open_n++; return (g_open_n > g_open_fail_at) ? (FILE*)0 : g_dummy; }
static int vh_fprintf(FILE* f, const char* fmt, ...) { (void)f; (void)fmt; return 0; }
static int vh_fputs(const char* s, FILE* f) { (void)s; (void)f; return 0; }
static int vh_fputc(int c, FILE* f) { (void)f; return c; }
static int vh_fclose(FILE* f) { (void)f; return 0; }
static size_t vh_fwrite(const void* p, size_t a, size_t b, FILE* f) { (void)p; (void)f; (void)a; return b; }
static char g_chdir_arg[NAME_MAX_]; static int g_chdir_n = 0;
static int g_chdir_fails = 0;
static int vh_chdir(const char* p) { copy_name(g_chdir_arg, p); g_chdir_n++; return g_chdir_fails ? -1 : 0; }
/* strcpy with the C-standard precondition: source and destination must not overlap */
static char* vh_strcpy(char* d, const char* s) {
    size_t n = 0, i; while (s[n]) n++;
#ifdef VERIF_CBMC
#define VH_OVERLAP(d, s, n) (__CPROVER_same_object(d, s) && __CPROVER_POINTER_OFFSET(d) < __CPROVER_POINTER_OFFSET(s) + (n) + 1 && __CPROVER_POINTER_OFFSET(s) < __CPROVER_POINTER_OFFSET(d) + (n) + 1)
#else
#define VH_OVERLAP(d, s, n) ((size_t)(d) < (size_t)(s) + (n) + 1 && (size_t)(s) < (size_t)(d) + (n) + 1)
#endif
    OBL(!VH_OVERLAP(d, s, (long)n), "path handling: strcpy is never applied to overlapping objects (undefined behaviour; observed to corrupt the output file name)");
    for (i = 0; i <= n; i++) d[i] = s[i];
    return d;
}
#define remove vh_remove
#define fopen vh_fopen
#define fprintf vh_fprintf
#define fputs vh_fputs
#define fputc vh_fputc
#define fclose vh_fclose
#define fwrite vh_fwrite
#define chdir vh_chdir
#define strcpy vh_strcpy

#ifdef H_CLEAN
#include <glob.h>
static char g_names[3][NAME_MAX_]; static char* g_pathv[4]; static int g_glob_count;
static int vh_glob(const char* pat, int flags, int (*errf)(const char*, int), glob_t* g) { (void)pat; (void)flags; (void)errf; g->gl_pathc = (size_t)g_glob_count; g->gl_pathv = g_pathv; return g_glob_count ? 0 : GLOB_NOMATCH; }
static void vh_globfree(glob_t* g) { (void)g; }
#define glob vh_glob
#define globfree vh_globfree
#define main w2c2_main
#include "main.c"
#undef main
/* independent spec predicate: ^[sd][0-9]{10}\.c$ */
static int spec_is_impl_file(const char* n) { int i; if (strlen(n) != 13) return 0; if (n[0] != 's' && n[0] != 'd') return 0; for (i = 1; i <= 10; i++) if (n[i] < '0' || n[i] > '9') return 0; return n[11] == '.' && n[12] == 'c'; }
#define MK_NAME(j) { ND_ARR(char, nm##j, NAME_MAX_); ND(unsigned, len##j); unsigned q; ASSUME(len##j >= 2 && len##j < NAME_MAX_); \
    for (q = 0; q < NAME_MAX_; q++) { g_names[j][q] = q < len##j ? nm##j[q] : 0; if (q < len##j) ASSUME(nm##j[q] != 0 && nm##j[q] != '/'); } \
    ASSUME(g_names[j][len##j - 2] == '.' && g_names[j][len##j - 1] == 'c');   /* contract of glob("*.c") */ g_pathv[j] = g_names[j]; }
void h_clean(void) {
    ND(int, count); int j, k, hits;
    ASSUME(count >= 0 && count <= 3); MK_NAME(0) MK_NAME(1) MK_NAME(2) g_pathv[3] = 0; g_glob_count = count; g_removed_n = 0;
    cleanImplementationFiles();
    for (j = 0; j < 3; j++) if (j < count) {
        hits = 0; for (k = 0; k < g_removed_n && k < 4; k++) if (g_removed[k] == g_names[j]) hits++;
        OBL(hits == (spec_is_impl_file(g_names[j]) ? 1 : 0), "clean: a file is deleted exactly if its name is s or d followed by ten digits and .c - never any other name (wrong length, other prefix, a non-digit at ANY of the ten positions)");
    }
    OBL(g_removed_n <= count, "clean: nothing outside the directory listing is deleted");
    OBL(g_open_n == 0, "clean: opens no file");
    CANARY("clean returns");
}
#endif

#ifdef H_NAMES
#include "c.c"
#include "compat.c"
/* POSIX basename on a copy / header sibling, written independently */
static void spec_basename(const char* p, char* out) { int n = (int)strlen(p), e, s, i; if (n == 0) { out[0] = '.'; out[1] = 0; return; }
    e = n; while (e > 1 && p[e - 1] == '/') e--; s = e; while (s > 0 && p[s - 1] != '/') s--; if (e == 1 && p[0] == '/') { out[0] = '/'; out[1] = 0; return; }
    for (i = 0; i < e - s; i++) out[i] = p[s + i]; out[e - s] = 0; }
static void spec_header(const char* base, char* out) { int n = (int)strlen(base), d = -1, i; for (i = 0; i < n; i++) if (base[i] == '.') d = i; if (d < 0) d = n;
    for (i = 0; i < d; i++) out[i] = base[i]; out[d] = '.'; out[d + 1] = 'h'; out[d + 2] = 0; }
void h_output_names(void) {
    ND_ARR(char, pathchars, 9); ND(unsigned, plen); char path[12]; char base[16], hdr[20]; unsigned q; static WasmModule mod; WasmCWriteModuleOptions opt = emptyWasmCWriteModuleOptions; bool ok; static FILE dummyf;
    ASSUME(plen >= 1 && plen <= 8);
    for (q = 0; q < 9; q++) { path[q] = q < plen ? pathchars[q] : 0; if (q < plen) ASSUME(pathchars[q] != 0); }
    ASSUME(path[plen - 1] != '/');                   /* the output path names a file */
    spec_basename(path, base); spec_header(base, hdr);
    opt.outputPath = path; opt.threadCount = 1; g_open_n = 0; g_open_fail_at = 1; g_dummy = &dummyf;      /* header opens, implementation file fails to open */
    ok = wasmCWriteModule(&mod, "m", opt, emptyWasmFunctionIDs, emptyWasmFunctionIDs);
    OBL(!ok && g_open_n == 2, "output: exactly the header and the implementation file are opened (here the second open is made to fail)");
    OBL(strcmp(g_open_name[0], hdr) == 0 && g_open_mode[0] == 'w', "output: the header is the LAST path component with its extension replaced by .h (a dot in a directory component is irrelevant)");
    OBL(strcmp(g_open_name[1], base) == 0 && g_open_mode[1] == 'w', "output: the implementation file is byte-equal to the last component of the requested output path");
    OBL(strchr(g_open_name[0], '/') == 0 && strchr(g_open_name[1], '/') == 0, "output: both names are relative to the (already entered) output directory");
    OBL(g_removed_n == 0, "output: nothing is deleted");
    CANARY("names returns");
}
#endif

#ifdef H_CHDIR
#define main w2c2_main
#include "main.c"
#undef main
#include "compat.c"
static void spec_dirname(const char* p, char* out) { int n = (int)strlen(p), e, i; e = n; while (e > 1 && p[e - 1] == '/') e--; while (e > 0 && p[e - 1] != '/') e--;
    if (e == 0) { out[0] = '.'; out[1] = 0; return; } while (e > 1 && p[e - 1] == '/') e--; for (i = 0; i < e; i++) out[i] = p[i]; out[e] = 0; }
void h_chdir(void) {
    ND_ARR(char, pathchars, 9); ND(unsigned, plen); char path[12]; char want[16]; unsigned q; bool ok;
    ASSUME(plen >= 1 && plen <= 8);
    for (q = 0; q < 9; q++) { path[q] = q < plen ? pathchars[q] : 0; if (q < plen) ASSUME(pathchars[q] != 0); }
    { ND(int, chdir_fails); g_chdir_fails = chdir_fails != 0; }
    spec_dirname(path, want); g_chdir_n = 0;
    ok = changeToOutputDirectory(path);
    OBL(g_chdir_n == 1 && strcmp(g_chdir_arg, want) == 0, "output directory: the translator enters dirname(output path) (all files are then created inside it)");
    OBL(ok == !g_chdir_fails, "output directory: when the directory cannot be entered this is reported to main (which then writes and deletes nothing), otherwise success");
    CANARY("chdir returns");
}
#endif
