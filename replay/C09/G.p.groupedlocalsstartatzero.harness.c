#include "vh.h"
#include "c09p.c"
#include "wasm_int.h"
#include "libm_markers.h"
#include "trapstub.h"
static c09pInstance inst;
static U64 ref_brvalueextrabelow(U64* g, int* trapped, U32 p0, U32 p1) {
    U64 r[5]; U64 l[8];
    l[0] = p0;
    l[1] = p1;
    l[2] = 0;
    l[3] = 0;
    l[4] = 0;
    l[5] = 0;
    l[6] = 0;
    l[7] = 0;
    (void)g; (void)trapped;
    r[0] = l[0];
    r[0] = (U64)(U32)r[0];
    { /* block */
        r[1] = l[1];
        r[2] = 7u;
        r[1] = (U32)((U32)(r[1]) + (U32)(r[2]));
        r[2] = l[0];
        if ((U32)r[2] != 0) { r[1] = r[1]; goto L1; }
        r[1] = 5u;
    } L1: ;
    l[2] = r[1];
    g[1] = r[0];
    r[0] = l[2];
    return (U32)(r[0]);
}
static U64 ref_blockresultconsumedasrhs(U64* g, int* trapped, U32 p0, U32 p1) {
    U64 r[5]; U64 l[8];
    l[0] = p0;
    l[1] = p1;
    l[2] = 0;
    l[3] = 0;
    l[4] = 0;
    l[5] = 0;
    l[6] = 0;
    l[7] = 0;
    (void)g; (void)trapped;
    r[0] = l[0];
    r[1] = l[1];
    r[1] = (U64)(U32)r[1];
    g[1] = r[1];
    { /* block */
        r[1] = 9ull;
        l[3] = r[1];
        r[1] = l[1];
        r[2] = 2u;
        r[1] = (U32)((U32)(r[1]) - (U32)(r[2]));
        { r[1] = r[1]; goto L1; }
    } L1: ;
    r[0] = (U32)((U32)(r[0]) - (U32)(r[1]));
    return (U32)(r[0]);
}
static U64 ref_brcarriespastoperandsinsideblock(U64* g, int* trapped, U32 p0, U32 p1) {
    U64 r[6]; U64 l[8];
    l[0] = p0;
    l[1] = p1;
    l[2] = 0;
    l[3] = 0;
    l[4] = 0;
    l[5] = 0;
    l[6] = 0;
    l[7] = 0;
    (void)g; (void)trapped;
    r[0] = l[0];
    { /* block */
        r[1] = l[3];
        r[2] = 4ull;
        r[1] = (U64)((U64)(r[1]) + (U64)(r[2]));
        r[2] = l[1];
        r[3] = 7u;
        r[2] = (U32)((U32)(r[2]) + (U32)(r[3]));
        { r[1] = r[2]; goto L1; }
    } L1: ;
    r[0] = (U32)((U32)(r[0]) - (U32)(r[1]));
    return (U32)(r[0]);
}
static U64 ref_brifandbrtablecarrypastoperands(U64* g, int* trapped, U32 p0, U32 p1) {
    U64 r[7]; U64 l[8];
    l[0] = p0;
    l[1] = p1;
    l[2] = 0;
    l[3] = 0;
    l[4] = 0;
    l[5] = 0;
    l[6] = 0;
    l[7] = 0;
    (void)g; (void)trapped;
    r[0] = l[1];
    { /* block */
        { /* block */
            r[1] = 1ull;
            r[2] = l[3];
            r[1] = (U64)((U64)(r[1]) + (U64)(r[2]));
            r[2] = l[0];
            r[3] = 100u;
            r[2] = (U32)((U32)(r[2]) + (U32)(r[3]));
            r[3] = l[0];
            r[4] = 1u;
            r[3] = (U32)((U32)(r[3]) & (U32)(r[4]));
            if ((U32)r[3] != 0) { r[1] = r[2]; goto L2; }
            r[3] = l[0];
            r[4] = 3u;
            r[3] = (U32)((U32)(r[3]) & (U32)(r[4]));
            switch ((U32)r[3]) {
              case 0: { r[1] = r[2]; goto L1; }
              case 1: { r[1] = r[2]; goto L2; }
              default: { r[1] = r[2]; goto L1; }
            }
        } L2: ;
        r[2] = 1000u;
        r[1] = (U32)((U32)(r[1]) + (U32)(r[2]));
    } L1: ;
    r[0] = (U32)((U32)(r[0]) ^ (U32)(r[1]));
    return (U32)(r[0]);
}
static U64 ref_nestedbrdepths(U64* g, int* trapped, U32 p0, U32 p1) {
    U64 r[5]; U64 l[8];
    l[0] = p0;
    l[1] = p1;
    l[2] = 0;
    l[3] = 0;
    l[4] = 0;
    l[5] = 0;
    l[6] = 0;
    l[7] = 0;
    (void)g; (void)trapped;
    { /* block */
        { /* block */
            { /* block */
                r[0] = 11u;
                r[1] = l[0];
                r[2] = 1u;
                r[1] = ((U32)(r[1]) == (U32)(r[2])) ? 1u : 0u;
                if ((U32)r[1] != 0) { r[0] = r[0]; goto L1; }
                r[0] = 22u;
                r[1] = l[0];
                r[2] = 2u;
                r[1] = ((U32)(r[1]) == (U32)(r[2])) ? 1u : 0u;
                if ((U32)r[1] != 0) { r[0] = r[0]; goto L2; }
                r[0] = l[0];
                r[1] = 3u;
                r[0] = ((U32)(r[0]) == (U32)(r[1])) ? 1u : 0u;
                if ((U32)r[0] != 0) goto L3;
                r[0] = 1u;
                g[0] = r[0];
            } L3: ;
            r[0] = 33u;
        } L2: ;
        r[1] = 100u;
        r[0] = (U32)((U32)(r[0]) + (U32)(r[1]));
    } L1: ;
    return (U32)(r[0]);
}
static U64 ref_brtableall(U64* g, int* trapped, U32 p0, U32 p1) {
    U64 r[4]; U64 l[8];
    l[0] = p0;
    l[1] = p1;
    l[2] = 0;
    l[3] = 0;
    l[4] = 0;
    l[5] = 0;
    l[6] = 0;
    l[7] = 0;
    (void)g; (void)trapped;
    { /* block */
        { /* block */
            { /* block */
                r[0] = l[1];
                r[1] = 40u;
                r[0] = (U32)((U32)(r[0]) + (U32)(r[1]));
                r[1] = l[0];
                switch ((U32)r[1]) {
                  case 0: { r[0] = r[0]; goto L3; }
                  case 1: { r[0] = r[0]; goto L2; }
                  case 2: { r[0] = r[0]; goto L1; }
                  case 3: { r[0] = r[0]; goto L2; }
                  default: { r[0] = r[0]; goto L1; }
                }
            } L3: ;
            r[1] = 1u;
            r[0] = (U32)((U32)(r[0]) + (U32)(r[1]));
        } L2: ;
        r[1] = 2u;
        r[0] = (U32)((U32)(r[0]) ^ (U32)(r[1]));
    } L1: ;
    return (U32)(r[0]);
}
static U64 ref_loopcounter(U64* g, int* trapped, U32 p0, U32 p1) {
    U64 r[5]; U64 l[8];
    l[0] = p0;
    l[1] = p1;
    l[2] = 0;
    l[3] = 0;
    l[4] = 0;
    l[5] = 0;
    l[6] = 0;
    l[7] = 0;
    (void)g; (void)trapped;
    r[0] = 0u;
    l[2] = r[0];
    L1: ; { /* loop */
        r[0] = l[2];
        r[1] = 1u;
        r[0] = (U32)((U32)(r[0]) + (U32)(r[1]));
        l[2] = r[0];
        r[1] = l[3];
        r[2] = l[2];
        r[2] = (U64)(U32)r[2];
        r[1] = (U64)((U64)(r[1]) + (U64)(r[2]));
        l[3] = r[1];
        r[1] = l[0];
        r[2] = 3u;
        r[1] = (U32)((U32)(r[1]) & (U32)(r[2]));
        r[0] = ((U32)(r[0]) < (U32)(r[1])) ? 1u : 0u;
        if ((U32)r[0] != 0) goto L1;
    }
    r[0] = l[3];
    r[0] = (U32)r[0];
    r[1] = l[2];
    r[0] = (U32)((U32)(r[0]) ^ (U32)(r[1]));
    return (U32)(r[0]);
}
static U64 ref_loopbreakfromnested(U64* g, int* trapped, U32 p0, U32 p1) {
    U64 r[6]; U64 l[8];
    l[0] = p0;
    l[1] = p1;
    l[2] = 0;
    l[3] = 0;
    l[4] = 0;
    l[5] = 0;
    l[6] = 0;
    l[7] = 0;
    (void)g; (void)trapped;
    { /* block */
        L2: ; { /* loop */
            r[0] = l[2];
            r[1] = 1u;
            r[0] = (U32)((U32)(r[0]) + (U32)(r[1]));
            l[2] = r[0];
            r[0] = l[2];
            r[1] = 10u;
            r[0] = (U32)((U32)(r[0]) + (U32)(r[1]));
            r[1] = l[2];
            r[2] = l[0];
            r[3] = 3u;
            r[2] = (U32)((U32)(r[2]) & (U32)(r[3]));
            r[1] = ((U32)(r[1]) > (U32)(r[2])) ? 1u : 0u;
            if ((U32)r[1] != 0) { r[0] = r[0]; goto L1; }
            goto L2;
        }
    } L1: ;
    return (U32)(r[0]);
}
static U64 ref_ifelseresults(U64* g, int* trapped, U32 p0, U32 p1) {
    U64 r[4]; U64 l[8];
    l[0] = p0;
    l[1] = p1;
    l[2] = 0;
    l[3] = 0;
    l[4] = 0;
    l[5] = 0;
    l[6] = 0;
    l[7] = 0;
    (void)g; (void)trapped;
    r[0] = l[0];
    if ((U32)r[0] != 0) { /* if */
        r[0] = l[1];
        r[1] = 1u;
        r[0] = (U32)((U32)(r[0]) + (U32)(r[1]));
    } else {
        r[0] = l[1];
        r[1] = 2u;
        r[0] = (U32)((U32)(r[0]) - (U32)(r[1]));
    } L1: ;
    r[1] = l[1];
    if ((U32)r[1] != 0) { /* if */
        r[1] = 7u;
        g[0] = r[1];
    } L2: ;
    return (U32)(r[0]);
}
static U64 ref_ifthenendsinbrelsemustrun(U64* g, int* trapped, U32 p0, U32 p1) {
    U64 r[3]; U64 l[8];
    l[0] = p0;
    l[1] = p1;
    l[2] = 0;
    l[3] = 0;
    l[4] = 0;
    l[5] = 0;
    l[6] = 0;
    l[7] = 0;
    (void)g; (void)trapped;
    { /* block */
        r[0] = l[0];
        if ((U32)r[0] != 0) { /* if */
            r[0] = 10u;
            l[2] = r[0];
            goto L1;
        } else {
            r[0] = 20u;
            l[2] = r[0];
            r[0] = 5ull;
            g[1] = r[0];
        } L2: ;
        r[0] = 1u;
        g[0] = r[0];
    } L1: ;
    r[0] = l[2];
    return (U32)(r[0]);
}
static U64 ref_ifresultthenreturn(U64* g, int* trapped, U32 p0, U32 p1) {
    U64 r[4]; U64 l[8];
    l[0] = p0;
    l[1] = p1;
    l[2] = 0;
    l[3] = 0;
    l[4] = 0;
    l[5] = 0;
    l[6] = 0;
    l[7] = 0;
    (void)g; (void)trapped;
    r[0] = l[1];
    r[1] = l[0];
    if ((U32)r[1] != 0) { /* if */
        r[1] = 77u;
        return (U32)(r[1]);
    } else {
        r[1] = 3u;
    } L1: ;
    r[0] = (U32)((U32)(r[0]) + (U32)(r[1]));
    return (U32)(r[0]);
}
static U64 ref_deadcodenestedblock(U64* g, int* trapped, U32 p0, U32 p1) {
    U64 r[4]; U64 l[8];
    l[0] = p0;
    l[1] = p1;
    l[2] = 0;
    l[3] = 0;
    l[4] = 0;
    l[5] = 0;
    l[6] = 0;
    l[7] = 0;
    (void)g; (void)trapped;
    { /* block */
        r[0] = l[0];
        r[1] = 1u;
        r[0] = (U32)((U32)(r[0]) + (U32)(r[1]));
        { r[0] = r[0]; goto L1; }
    } L1: ;
    r[1] = 2u;
    r[0] = (U32)((U32)(r[0]) ^ (U32)(r[1]));
    return (U32)(r[0]);
}
static U64 ref_deadcodeafterreturnwithloopandif(U64* g, int* trapped, U32 p0, U32 p1) {
    U64 r[4]; U64 l[8];
    l[0] = p0;
    l[1] = p1;
    l[2] = 0;
    l[3] = 0;
    l[4] = 0;
    l[5] = 0;
    l[6] = 0;
    l[7] = 0;
    (void)g; (void)trapped;
    r[0] = l[0];
    r[1] = l[1];
    r[0] = (U32)((U32)(r[0]) - (U32)(r[1]));
    return (U32)(r[0]);
    return 0; /* not reached */
}
static U64 ref_unreachabletraps(U64* g, int* trapped, U32 p0, U32 p1) {
    U64 r[4]; U64 l[8];
    l[0] = p0;
    l[1] = p1;
    l[2] = 0;
    l[3] = 0;
    l[4] = 0;
    l[5] = 0;
    l[6] = 0;
    l[7] = 0;
    (void)g; (void)trapped;
    r[0] = l[0];
    r[1] = 5u;
    r[0] = ((U32)(r[0]) == (U32)(r[1])) ? 1u : 0u;
    if ((U32)r[0] != 0) { /* if */
        r[0] = 1u;
        g[0] = r[0];
        { *trapped = 1; return 0; }
    } L1: ;
    r[0] = l[1];
    return (U32)(r[0]);
}
static U64 ref_selectdropnoplocals(U64* g, int* trapped, U32 p0, U32 p1) {
    U64 r[5]; U64 l[8];
    l[0] = p0;
    l[1] = p1;
    l[2] = 0;
    l[3] = 0;
    l[4] = 0;
    l[5] = 0;
    l[6] = 0;
    l[7] = 0;
    (void)g; (void)trapped;
    r[0] = l[3];
    r[1] = 1ull;
    r[0] = (U64)((U64)(r[0]) + (U64)(r[1]));
    l[3] = r[0];
    r[1] = l[2];
    r[1] = (U64)(U32)r[1];
    r[2] = l[0];
    r[0] = ((U32)r[2] != 0) ? r[0] : r[1];
    r[0] = (U32)r[0];
    r[1] = l[4];
    r[0] = (U32)((U32)(r[0]) + (U32)(r[1]));
    r[1] = l[1];
    l[4] = r[1];
    r[1] = l[4];
    r[0] = (U32)((U32)(r[0]) ^ (U32)(r[1]));
    r[1] = 3u;
    return (U32)(r[0]);
}
static U64 ref_groupedlocalsstartatzero(U64* g, int* trapped, U32 p0, U32 p1) {
    U64 r[5]; U64 l[8];
    l[0] = p0;
    l[1] = p1;
    l[2] = 0;
    l[3] = 0;
    l[4] = 0;
    l[5] = 0;
    l[6] = 0;
    l[7] = 0;
    (void)g; (void)trapped;
    r[0] = l[4];
    r[1] = l[5];
    r[0] = (U32)((U32)(r[0]) + (U32)(r[1]));
    r[1] = l[6];
    r[2] = l[7];
    r[1] = (U64)((U64)(r[1]) + (U64)(r[2]));
    r[1] = (U32)r[1];
    r[0] = (U32)((U32)(r[0]) + (U32)(r[1]));
    r[1] = l[0];
    l[5] = r[1];
    r[1] = l[1];
    r[1] = (U64)(U32)r[1];
    l[7] = r[1];
    r[1] = l[5];
    r[0] = (U32)((U32)(r[0]) + (U32)(r[1]));
    r[1] = l[7];
    r[1] = (U32)r[1];
    r[0] = (U32)((U32)(r[0]) ^ (U32)(r[1]));
    return (U32)(r[0]);
}
static U64 ref_teeandoverwriteparam(U64* g, int* trapped, U32 p0, U32 p1) {
    U64 r[4]; U64 l[8];
    l[0] = p0;
    l[1] = p1;
    l[2] = 0;
    l[3] = 0;
    l[4] = 0;
    l[5] = 0;
    l[6] = 0;
    l[7] = 0;
    (void)g; (void)trapped;
    r[0] = l[0];
    r[1] = 1u;
    r[0] = (U32)((U32)(r[0]) + (U32)(r[1]));
    l[0] = r[0];
    r[1] = l[0];
    r[0] = (U32)((U32)(r[0]) ^ (U32)(r[1]));
    r[1] = l[1];
    l[0] = r[1];
    r[1] = l[0];
    r[0] = (U32)((U32)(r[0]) - (U32)(r[1]));
    return (U32)(r[0]);
}
static U64 ref_brtableinloopwithvalues(U64* g, int* trapped, U32 p0, U32 p1) {
    U64 r[6]; U64 l[8];
    l[0] = p0;
    l[1] = p1;
    l[2] = 0;
    l[3] = 0;
    l[4] = 0;
    l[5] = 0;
    l[6] = 0;
    l[7] = 0;
    (void)g; (void)trapped;
    { /* block */
        r[0] = 0u;
        l[2] = r[0];
        L2: ; { /* loop */
            r[0] = l[2];
            r[1] = 1u;
            r[0] = (U32)((U32)(r[0]) + (U32)(r[1]));
            l[2] = r[0];
            r[0] = l[2];
            r[1] = 50u;
            r[0] = (U32)((U32)(r[0]) + (U32)(r[1]));
            r[1] = l[2];
            r[2] = l[0];
            r[3] = 3u;
            r[2] = (U32)((U32)(r[2]) & (U32)(r[3]));
            r[1] = ((U32)(r[1]) < (U32)(r[2])) ? 1u : 0u;
            if ((U32)r[1] != 0) { /* if */
                goto L2;
            } L3: ;
            { r[0] = r[0]; goto L1; }
        }
    } L1: ;
    return (U32)(r[0]);
}
static U64 ref_rnd0(U64* g, int* trapped, U32 p0, U32 p1) {
    U64 r[8]; U64 l[8];
    l[0] = p0;
    l[1] = p1;
    l[2] = 0;
    l[3] = 0;
    l[4] = 0;
    l[5] = 0;
    l[6] = 0;
    l[7] = 0;
    (void)g; (void)trapped;
    r[0] = l[3];
    { /* block */
        r[1] = 24u;
        r[2] = l[1];
        r[3] = 1u;
        r[2] = ((U32)(r[2]) < (U32)(r[3])) ? 1u : 0u;
        if ((U32)r[2] != 0) { r[1] = r[1]; goto L1; }
        r[1] = l[0];
        r[2] = 3u;
        r[1] = (U32)((U32)(r[1]) ^ (U32)(r[2]));
        l[4] = r[1];
        r[1] = l[3];
        { /* block */
            r[2] = l[3];
            r[3] = 7ull;
            r[2] = (U64)((U64)(r[2]) + (U64)(r[3]));
            r[3] = 9u;
            r[4] = l[0];
            r[5] = 1u;
            r[4] = ((U32)(r[4]) == (U32)(r[5])) ? 1u : 0u;
            if ((U32)r[4] != 0) { r[2] = r[3]; goto L2; }
            r[2] = l[1];
            r[3] = 5u;
            r[2] = (U32)((U32)(r[2]) - (U32)(r[3]));
            l[2] = r[2];
            r[2] = l[1];
            r[3] = 1u;
            r[2] = (U32)((U32)(r[2]) & (U32)(r[3]));
            if ((U32)r[2] != 0) { /* if */
                r[2] = l[3];
                r[3] = l[1];
                r[3] = (U64)(U32)r[3];
                r[2] = (U64)((U64)(r[2]) + (U64)(r[3]));
                l[3] = r[2];
                r[2] = l[3];
                r[3] = l[1];
                r[3] = (U64)(U32)r[3];
                r[2] = (U64)((U64)(r[2]) + (U64)(r[3]));
                l[3] = r[2];
            } else {
                r[2] = l[2];
                r[3] = 0u;
                r[2] = (U32)((U32)(r[2]) ^ (U32)(r[3]));
                l[4] = r[2];
                r[2] = l[4];
                r[3] = 3u;
                r[2] = (U32)((U32)(r[2]) + (U32)(r[3]));
                l[2] = r[2];
                r[2] = l[1];
                g[0] = r[2];
                r[2] = l[1];
                g[0] = r[2];
                r[2] = l[0];
                g[0] = r[2];
            } L3: ;
            r[2] = l[2];
        } L2: ;
        r[3] = l[1];
        r[2] = (U32)((U32)(r[2]) - (U32)(r[3]));
        l[4] = r[2];
        l[3] = r[1];
        r[1] = l[2];
        { r[1] = r[1]; goto L1; }
    } L1: ;
    r[2] = l[0];
    r[1] = (U32)((U32)(r[1]) - (U32)(r[2]));
    l[4] = r[1];
    l[3] = r[0];
    r[0] = l[2];
    r[1] = l[4];
    r[0] = (U32)((U32)(r[0]) ^ (U32)(r[1]));
    r[1] = l[3];
    r[1] = (U32)r[1];
    r[0] = (U32)((U32)(r[0]) + (U32)(r[1]));
    return (U32)(r[0]);
}
static U64 ref_rnd1(U64* g, int* trapped, U32 p0, U32 p1) {
    U64 r[7]; U64 l[8];
    l[0] = p0;
    l[1] = p1;
    l[2] = 0;
    l[3] = 0;
    l[4] = 0;
    l[5] = 0;
    l[6] = 0;
    l[7] = 0;
    (void)g; (void)trapped;
    r[0] = l[4];
    r[1] = 0u;
    r[0] = (U32)((U32)(r[0]) - (U32)(r[1]));
    l[2] = r[0];
    { /* block */
        r[0] = l[3];
        r[1] = l[0];
        r[1] = (U64)(U32)r[1];
        r[0] = (U64)((U64)(r[0]) + (U64)(r[1]));
        l[3] = r[0];
        r[0] = 0u;
        l[4] = r[0];
        L2: ; { /* loop */
            r[0] = l[4];
            r[1] = 1u;
            r[0] = (U32)((U32)(r[0]) + (U32)(r[1]));
            l[4] = r[0];
            r[0] = l[2];
            r[1] = l[4];
            r[0] = (U32)((U32)(r[0]) + (U32)(r[1]));
            l[2] = r[0];
            r[0] = l[4];
            r[1] = l[0];
            r[2] = 3u;
            r[1] = (U32)((U32)(r[1]) & (U32)(r[2]));
            r[0] = ((U32)(r[0]) < (U32)(r[1])) ? 1u : 0u;
            if ((U32)r[0] != 0) goto L2;
        }
        r[0] = l[1];
        switch ((U32)r[0]) {
          case 0: goto L1;
          default: goto L1;
        }
    } L1: ;
    r[0] = l[4];
    r[1] = 1u;
    r[0] = (U32)((U32)(r[0]) - (U32)(r[1]));
    l[4] = r[0];
    r[0] = l[1];
    r[1] = 1u;
    r[0] = (U32)((U32)(r[0]) & (U32)(r[1]));
    if ((U32)r[0] != 0) { /* if */
        r[0] = l[3];
        { /* block */
            r[1] = 35u;
            r[2] = l[0];
            r[3] = 1u;
            r[2] = ((U32)(r[2]) < (U32)(r[3])) ? 1u : 0u;
            if ((U32)r[2] != 0) { r[1] = r[1]; goto L4; }
            r[1] = l[3];
            { /* block */
                r[2] = 4u;
                r[3] = l[1];
                r[4] = 3u;
                r[3] = ((U32)(r[3]) < (U32)(r[4])) ? 1u : 0u;
                if ((U32)r[3] != 0) { r[2] = r[2]; goto L5; }
                r[2] = l[4];
                r[3] = 8u;
                r[2] = (U32)((U32)(r[2]) - (U32)(r[3]));
                l[4] = r[2];
                r[2] = l[2];
            } L5: ;
            r[3] = l[0];
            r[2] = (U32)((U32)(r[2]) - (U32)(r[3]));
            l[4] = r[2];
            l[3] = r[1];
            r[1] = l[0];
            g[0] = r[1];
            r[1] = l[3];
            { /* block */
                r[2] = 37u;
                r[3] = l[1];
                r[4] = 0u;
                r[3] = ((U32)(r[3]) < (U32)(r[4])) ? 1u : 0u;
                if ((U32)r[3] != 0) { r[2] = r[2]; goto L6; }
                r[2] = l[0];
                g[0] = r[2];
                r[2] = l[3];
                r[3] = l[0];
                r[3] = (U64)(U32)r[3];
                r[2] = (U64)((U64)(r[2]) + (U64)(r[3]));
                l[3] = r[2];
                r[2] = l[2];
            } L6: ;
            r[3] = l[0];
            r[2] = (U32)((U32)(r[2]) - (U32)(r[3]));
            l[4] = r[2];
            l[3] = r[1];
            r[1] = l[2];
        } L4: ;
        r[2] = l[0];
        r[1] = (U32)((U32)(r[1]) - (U32)(r[2]));
        l[4] = r[1];
        l[3] = r[0];
    } else {
    } L3: ;
    r[0] = l[2];
    r[1] = l[4];
    r[0] = (U32)((U32)(r[0]) ^ (U32)(r[1]));
    r[1] = l[3];
    r[1] = (U32)r[1];
    r[0] = (U32)((U32)(r[0]) + (U32)(r[1]));
    return (U32)(r[0]);
}
static U64 ref_rnd2(U64* g, int* trapped, U32 p0, U32 p1) {
    U64 r[7]; U64 l[8];
    l[0] = p0;
    l[1] = p1;
    l[2] = 0;
    l[3] = 0;
    l[4] = 0;
    l[5] = 0;
    l[6] = 0;
    l[7] = 0;
    (void)g; (void)trapped;
    r[0] = l[3];
    { /* block */
        r[1] = l[3];
        r[2] = 1ull;
        r[1] = (U64)((U64)(r[1]) + (U64)(r[2]));
        r[2] = 19u;
        r[3] = l[1];
        r[4] = 1u;
        r[3] = ((U32)(r[3]) == (U32)(r[4])) ? 1u : 0u;
        if ((U32)r[3] != 0) { r[1] = r[2]; goto L1; }
        { /* block */
            r[1] = l[3];
            { /* block */
                r[2] = 14u;
                r[3] = l[0];
                r[4] = 2u;
                r[3] = ((U32)(r[3]) == (U32)(r[4])) ? 1u : 0u;
                if ((U32)r[3] != 0) { r[2] = r[2]; goto L3; }
                r[2] = l[4];
                r[3] = 4u;
                r[2] = (U32)((U32)(r[2]) - (U32)(r[3]));
                l[2] = r[2];
                r[2] = l[0];
                r[3] = 7u;
                r[2] = (U32)((U32)(r[2]) - (U32)(r[3]));
                l[2] = r[2];
                r[2] = l[4];
                r[3] = 1u;
                r[2] = (U32)((U32)(r[2]) ^ (U32)(r[3]));
                l[2] = r[2];
                r[2] = l[2];
                r[3] = 4u;
                r[2] = (U32)((U32)(r[2]) ^ (U32)(r[3]));
                l[4] = r[2];
                r[2] = l[3];
                r[3] = l[0];
                r[3] = (U64)(U32)r[3];
                r[2] = (U64)((U64)(r[2]) + (U64)(r[3]));
                l[3] = r[2];
                r[2] = l[0];
                g[0] = r[2];
                r[2] = l[1];
                r[3] = 1u;
                r[2] = (U32)((U32)(r[2]) - (U32)(r[3]));
                l[4] = r[2];
                r[2] = l[2];
                r[3] = 2u;
                r[2] = (U32)((U32)(r[2]) + (U32)(r[3]));
                l[2] = r[2];
                r[2] = l[2];
                { r[2] = r[2]; goto L3; }
            } L3: ;
            r[3] = l[1];
            r[2] = (U32)((U32)(r[2]) - (U32)(r[3]));
            l[4] = r[2];
            l[3] = r[1];
            r[1] = l[1];
            switch ((U32)r[1]) {
              case 0: goto L2;
              case 1: goto L2;
              default: goto L2;
            }
        } L2: ;
        r[1] = l[2];
    } L1: ;
    r[2] = l[0];
    r[1] = (U32)((U32)(r[1]) - (U32)(r[2]));
    l[4] = r[1];
    l[3] = r[0];
    r[0] = l[2];
    r[1] = l[4];
    r[0] = (U32)((U32)(r[0]) ^ (U32)(r[1]));
    r[1] = l[3];
    r[1] = (U32)r[1];
    r[0] = (U32)((U32)(r[0]) + (U32)(r[1]));
    return (U32)(r[0]);
}
static U64 ref_rnd3(U64* g, int* trapped, U32 p0, U32 p1) {
    U64 r[7]; U64 l[8];
    l[0] = p0;
    l[1] = p1;
    l[2] = 0;
    l[3] = 0;
    l[4] = 0;
    l[5] = 0;
    l[6] = 0;
    l[7] = 0;
    (void)g; (void)trapped;
    r[0] = l[3];
    { /* block */
        r[1] = l[3];
        r[2] = 5ull;
        r[1] = (U64)((U64)(r[1]) + (U64)(r[2]));
        r[2] = 27u;
        r[3] = l[0];
        r[4] = 1u;
        r[3] = ((U32)(r[3]) == (U32)(r[4])) ? 1u : 0u;
        if ((U32)r[3] != 0) { r[1] = r[2]; goto L1; }
        r[1] = 0u;
        l[4] = r[1];
        L2: ; { /* loop */
            r[1] = l[4];
            r[2] = 1u;
            r[1] = (U32)((U32)(r[1]) + (U32)(r[2]));
            l[4] = r[1];
            r[1] = l[2];
            r[2] = l[4];
            r[1] = (U32)((U32)(r[1]) + (U32)(r[2]));
            l[2] = r[1];
            r[1] = l[4];
            r[2] = l[0];
            r[3] = 3u;
            r[2] = (U32)((U32)(r[2]) & (U32)(r[3]));
            r[1] = ((U32)(r[1]) < (U32)(r[2])) ? 1u : 0u;
            if ((U32)r[1] != 0) goto L2;
        }
        r[1] = l[2];
        r[2] = 8u;
        r[1] = (U32)((U32)(r[1]) ^ (U32)(r[2]));
        l[2] = r[1];
        r[1] = l[2];
        r[2] = 8u;
        r[1] = (U32)((U32)(r[1]) + (U32)(r[2]));
        l[4] = r[1];
        r[1] = l[2];
        { r[1] = r[1]; goto L1; }
    } L1: ;
    r[2] = l[1];
    r[1] = (U32)((U32)(r[1]) - (U32)(r[2]));
    l[4] = r[1];
    l[3] = r[0];
    r[0] = l[2];
    r[1] = l[4];
    r[0] = (U32)((U32)(r[0]) ^ (U32)(r[1]));
    r[1] = l[3];
    r[1] = (U32)r[1];
    r[0] = (U32)((U32)(r[0]) + (U32)(r[1]));
    return (U32)(r[0]);
}
static U64 ref_rnd4(U64* g, int* trapped, U32 p0, U32 p1) {
    U64 r[8]; U64 l[8];
    l[0] = p0;
    l[1] = p1;
    l[2] = 0;
    l[3] = 0;
    l[4] = 0;
    l[5] = 0;
    l[6] = 0;
    l[7] = 0;
    (void)g; (void)trapped;
    r[0] = l[4];
    r[1] = 3u;
    r[0] = (U32)((U32)(r[0]) + (U32)(r[1]));
    l[2] = r[0];
    r[0] = l[2];
    r[1] = 7u;
    r[0] = (U32)((U32)(r[0]) ^ (U32)(r[1]));
    l[2] = r[0];
    { /* block */
        r[0] = l[1];
        g[0] = r[0];
        r[0] = l[3];
        { /* block */
            r[1] = l[3];
            r[2] = 2ull;
            r[1] = (U64)((U64)(r[1]) + (U64)(r[2]));
            r[2] = 49u;
            r[3] = l[1];
            r[4] = 1u;
            r[3] = ((U32)(r[3]) == (U32)(r[4])) ? 1u : 0u;
            if ((U32)r[3] != 0) { r[1] = r[2]; goto L2; }
            r[1] = l[2];
            r[2] = 6u;
            r[1] = (U32)((U32)(r[1]) ^ (U32)(r[2]));
            l[4] = r[1];
            r[1] = l[2];
            g[0] = r[1];
            r[1] = l[0];
            g[0] = r[1];
            r[1] = l[3];
            { /* block */
                r[2] = l[3];
                r[3] = 8ull;
                r[2] = (U64)((U64)(r[2]) + (U64)(r[3]));
                r[3] = 26u;
                r[4] = l[1];
                r[5] = 2u;
                r[4] = ((U32)(r[4]) < (U32)(r[5])) ? 1u : 0u;
                if ((U32)r[4] != 0) { r[2] = r[3]; goto L3; }
                r[2] = l[3];
                r[3] = l[0];
                r[3] = (U64)(U32)r[3];
                r[2] = (U64)((U64)(r[2]) + (U64)(r[3]));
                l[3] = r[2];
                r[2] = l[1];
                r[3] = 5u;
                r[2] = (U32)((U32)(r[2]) - (U32)(r[3]));
                l[2] = r[2];
                r[2] = l[3];
                r[3] = l[0];
                r[3] = (U64)(U32)r[3];
                r[2] = (U64)((U64)(r[2]) + (U64)(r[3]));
                l[3] = r[2];
                r[2] = l[4];
                r[3] = 6u;
                r[2] = (U32)((U32)(r[2]) ^ (U32)(r[3]));
                l[4] = r[2];
                r[2] = l[2];
            } L3: ;
            r[3] = l[0];
            r[2] = (U32)((U32)(r[2]) - (U32)(r[3]));
            l[4] = r[2];
            l[3] = r[1];
            r[1] = l[2];
        } L2: ;
        r[2] = l[0];
        r[1] = (U32)((U32)(r[1]) - (U32)(r[2]));
        l[4] = r[1];
        l[3] = r[0];
        r[0] = l[1];
        switch ((U32)r[0]) {
          default: goto L1;
        }
    } L1: ;
    r[0] = l[2];
    r[1] = l[4];
    r[0] = (U32)((U32)(r[0]) ^ (U32)(r[1]));
    r[1] = l[3];
    r[1] = (U32)r[1];
    r[0] = (U32)((U32)(r[0]) + (U32)(r[1]));
    return (U32)(r[0]);
}
static U64 ref_rnd5(U64* g, int* trapped, U32 p0, U32 p1) {
    U64 r[7]; U64 l[8];
    l[0] = p0;
    l[1] = p1;
    l[2] = 0;
    l[3] = 0;
    l[4] = 0;
    l[5] = 0;
    l[6] = 0;
    l[7] = 0;
    (void)g; (void)trapped;
    r[0] = l[3];
    r[1] = l[1];
    r[1] = (U64)(U32)r[1];
    r[0] = (U64)((U64)(r[0]) + (U64)(r[1]));
    l[3] = r[0];
    r[0] = l[0];
    g[0] = r[0];
    r[0] = l[0];
    g[0] = r[0];
    r[0] = l[0];
    g[0] = r[0];
    r[0] = l[2];
    g[0] = r[0];
    r[0] = l[3];
    { /* block */
        r[1] = 34u;
        r[2] = l[1];
        r[3] = 0u;
        r[2] = ((U32)(r[2]) == (U32)(r[3])) ? 1u : 0u;
        if ((U32)r[2] != 0) { r[1] = r[1]; goto L1; }
        r[1] = l[1];
        r[2] = 1u;
        r[1] = (U32)((U32)(r[1]) & (U32)(r[2]));
        if ((U32)r[1] != 0) { /* if */
            r[1] = l[3];
            { /* block */
                r[2] = 46u;
                r[3] = l[0];
                r[4] = 2u;
                r[3] = ((U32)(r[3]) < (U32)(r[4])) ? 1u : 0u;
                if ((U32)r[3] != 0) { r[2] = r[2]; goto L3; }
                r[2] = l[2];
                r[3] = 5u;
                r[2] = (U32)((U32)(r[2]) ^ (U32)(r[3]));
                l[4] = r[2];
                r[2] = l[2];
            } L3: ;
            r[3] = l[0];
            r[2] = (U32)((U32)(r[2]) - (U32)(r[3]));
            l[4] = r[2];
            l[3] = r[1];
            r[1] = l[0];
            r[2] = 0u;
            r[1] = (U32)((U32)(r[1]) - (U32)(r[2]));
            l[4] = r[1];
            r[1] = l[1];
            r[2] = 1u;
            r[1] = (U32)((U32)(r[1]) & (U32)(r[2]));
            if ((U32)r[1] != 0) { /* if */
                r[1] = l[1];
                r[2] = 8u;
                r[1] = (U32)((U32)(r[1]) ^ (U32)(r[2]));
                l[2] = r[1];
            } L4: ;
        } else {
        } L2: ;
        r[1] = l[2];
        { r[1] = r[1]; goto L1; }
    } L1: ;
    r[2] = l[0];
    r[1] = (U32)((U32)(r[1]) - (U32)(r[2]));
    l[4] = r[1];
    l[3] = r[0];
    r[0] = l[2];
    r[1] = l[4];
    r[0] = (U32)((U32)(r[0]) ^ (U32)(r[1]));
    r[1] = l[3];
    r[1] = (U32)r[1];
    r[0] = (U32)((U32)(r[0]) + (U32)(r[1]));
    return (U32)(r[0]);
}
void h_brvalueextrabelow(void) {
  ND(U32, a0); ND(U32, a1); ND(U32, gi0); ND(U64, gi1); U64 g[2]; int trapped = 0; U64 want; U32 r;
  g[0] = gi0; g[1] = gi1; inst.g0 = gi0; inst.g1 = gi1; g_libm_calls = 0;
  want = ref_brvalueextrabelow(g, &trapped, a0, a1);
  g_spec_trap = trapped ? SPEC_TRAP_UNREACHABLE : SPEC_NOTRAP;
  r = c09p_brvalueextrabelow(&inst, a0, a1);
  OBL(g_spec_trap == SPEC_NOTRAP, "brvalueextrabelow: returned normally only if the specification does not trap");
  OBL(r == (U32)want, "brvalueextrabelow: the function result equals the reference semantics (every branch reaches its label and carries its value to its consumer)");
  OBL(inst.g0 == (U32)g[0] && inst.g1 == g[1], "brvalueextrabelow: the observable side effects (globals) equal the reference: unreachable code has no effect, live code is not skipped");
  CANARY("brvalueextrabelow returns");
}
void h_blockresultconsumedasrhs(void) {
  ND(U32, a0); ND(U32, a1); ND(U32, gi0); ND(U64, gi1); U64 g[2]; int trapped = 0; U64 want; U32 r;
  g[0] = gi0; g[1] = gi1; inst.g0 = gi0; inst.g1 = gi1; g_libm_calls = 0;
  want = ref_blockresultconsumedasrhs(g, &trapped, a0, a1);
  g_spec_trap = trapped ? SPEC_TRAP_UNREACHABLE : SPEC_NOTRAP;
  r = c09p_blockresultconsumedasrhs(&inst, a0, a1);
  OBL(g_spec_trap == SPEC_NOTRAP, "blockresultconsumedasrhs: returned normally only if the specification does not trap");
  OBL(r == (U32)want, "blockresultconsumedasrhs: the function result equals the reference semantics (every branch reaches its label and carries its value to its consumer)");
  OBL(inst.g0 == (U32)g[0] && inst.g1 == g[1], "blockresultconsumedasrhs: the observable side effects (globals) equal the reference: unreachable code has no effect, live code is not skipped");
  CANARY("blockresultconsumedasrhs returns");
}
void h_brcarriespastoperandsinsideblock(void) {
  ND(U32, a0); ND(U32, a1); ND(U32, gi0); ND(U64, gi1); U64 g[2]; int trapped = 0; U64 want; U32 r;
  g[0] = gi0; g[1] = gi1; inst.g0 = gi0; inst.g1 = gi1; g_libm_calls = 0;
  want = ref_brcarriespastoperandsinsideblock(g, &trapped, a0, a1);
  g_spec_trap = trapped ? SPEC_TRAP_UNREACHABLE : SPEC_NOTRAP;
  r = c09p_brcarriespastoperandsinsideblock(&inst, a0, a1);
  OBL(g_spec_trap == SPEC_NOTRAP, "brcarriespastoperandsinsideblock: returned normally only if the specification does not trap");
  OBL(r == (U32)want, "brcarriespastoperandsinsideblock: the function result equals the reference semantics (every branch reaches its label and carries its value to its consumer)");
  OBL(inst.g0 == (U32)g[0] && inst.g1 == g[1], "brcarriespastoperandsinsideblock: the observable side effects (globals) equal the reference: unreachable code has no effect, live code is not skipped");
  CANARY("brcarriespastoperandsinsideblock returns");
}
void h_brifandbrtablecarrypastoperands(void) {
  ND(U32, a0); ND(U32, a1); ND(U32, gi0); ND(U64, gi1); U64 g[2]; int trapped = 0; U64 want; U32 r;
  g[0] = gi0; g[1] = gi1; inst.g0 = gi0; inst.g1 = gi1; g_libm_calls = 0;
  want = ref_brifandbrtablecarrypastoperands(g, &trapped, a0, a1);
  g_spec_trap = trapped ? SPEC_TRAP_UNREACHABLE : SPEC_NOTRAP;
  r = c09p_brifandbrtablecarrypastoperands(&inst, a0, a1);
  OBL(g_spec_trap == SPEC_NOTRAP, "brifandbrtablecarrypastoperands: returned normally only if the specification does not trap");
  OBL(r == (U32)want, "brifandbrtablecarrypastoperands: the function result equals the reference semantics (every branch reaches its label and carries its value to its consumer)");
  OBL(inst.g0 == (U32)g[0] && inst.g1 == g[1], "brifandbrtablecarrypastoperands: the observable side effects (globals) equal the reference: unreachable code has no effect, live code is not skipped");
  CANARY("brifandbrtablecarrypastoperands returns");
}
void h_nestedbrdepths(void) {
  ND(U32, a0); ND(U32, a1); ND(U32, gi0); ND(U64, gi1); U64 g[2]; int trapped = 0; U64 want; U32 r;
  g[0] = gi0; g[1] = gi1; inst.g0 = gi0; inst.g1 = gi1; g_libm_calls = 0;
  want = ref_nestedbrdepths(g, &trapped, a0, a1);
  g_spec_trap = trapped ? SPEC_TRAP_UNREACHABLE : SPEC_NOTRAP;
  r = c09p_nestedbrdepths(&inst, a0, a1);
  OBL(g_spec_trap == SPEC_NOTRAP, "nestedbrdepths: returned normally only if the specification does not trap");
  OBL(r == (U32)want, "nestedbrdepths: the function result equals the reference semantics (every branch reaches its label and carries its value to its consumer)");
  OBL(inst.g0 == (U32)g[0] && inst.g1 == g[1], "nestedbrdepths: the observable side effects (globals) equal the reference: unreachable code has no effect, live code is not skipped");
  CANARY("nestedbrdepths returns");
}
void h_brtableall(void) {
  ND(U32, a0); ND(U32, a1); ND(U32, gi0); ND(U64, gi1); U64 g[2]; int trapped = 0; U64 want; U32 r;
  g[0] = gi0; g[1] = gi1; inst.g0 = gi0; inst.g1 = gi1; g_libm_calls = 0;
  want = ref_brtableall(g, &trapped, a0, a1);
  g_spec_trap = trapped ? SPEC_TRAP_UNREACHABLE : SPEC_NOTRAP;
  r = c09p_brtableall(&inst, a0, a1);
  OBL(g_spec_trap == SPEC_NOTRAP, "brtableall: returned normally only if the specification does not trap");
  OBL(r == (U32)want, "brtableall: the function result equals the reference semantics (every branch reaches its label and carries its value to its consumer)");
  OBL(inst.g0 == (U32)g[0] && inst.g1 == g[1], "brtableall: the observable side effects (globals) equal the reference: unreachable code has no effect, live code is not skipped");
  CANARY("brtableall returns");
}
void h_loopcounter(void) {
  ND(U32, a0); ND(U32, a1); ND(U32, gi0); ND(U64, gi1); U64 g[2]; int trapped = 0; U64 want; U32 r;
  g[0] = gi0; g[1] = gi1; inst.g0 = gi0; inst.g1 = gi1; g_libm_calls = 0;
  want = ref_loopcounter(g, &trapped, a0, a1);
  g_spec_trap = trapped ? SPEC_TRAP_UNREACHABLE : SPEC_NOTRAP;
  r = c09p_loopcounter(&inst, a0, a1);
  OBL(g_spec_trap == SPEC_NOTRAP, "loopcounter: returned normally only if the specification does not trap");
  OBL(r == (U32)want, "loopcounter: the function result equals the reference semantics (every branch reaches its label and carries its value to its consumer)");
  OBL(inst.g0 == (U32)g[0] && inst.g1 == g[1], "loopcounter: the observable side effects (globals) equal the reference: unreachable code has no effect, live code is not skipped");
  CANARY("loopcounter returns");
}
void h_loopbreakfromnested(void) {
  ND(U32, a0); ND(U32, a1); ND(U32, gi0); ND(U64, gi1); U64 g[2]; int trapped = 0; U64 want; U32 r;
  g[0] = gi0; g[1] = gi1; inst.g0 = gi0; inst.g1 = gi1; g_libm_calls = 0;
  want = ref_loopbreakfromnested(g, &trapped, a0, a1);
  g_spec_trap = trapped ? SPEC_TRAP_UNREACHABLE : SPEC_NOTRAP;
  r = c09p_loopbreakfromnested(&inst, a0, a1);
  OBL(g_spec_trap == SPEC_NOTRAP, "loopbreakfromnested: returned normally only if the specification does not trap");
  OBL(r == (U32)want, "loopbreakfromnested: the function result equals the reference semantics (every branch reaches its label and carries its value to its consumer)");
  OBL(inst.g0 == (U32)g[0] && inst.g1 == g[1], "loopbreakfromnested: the observable side effects (globals) equal the reference: unreachable code has no effect, live code is not skipped");
  CANARY("loopbreakfromnested returns");
}
void h_ifelseresults(void) {
  ND(U32, a0); ND(U32, a1); ND(U32, gi0); ND(U64, gi1); U64 g[2]; int trapped = 0; U64 want; U32 r;
  g[0] = gi0; g[1] = gi1; inst.g0 = gi0; inst.g1 = gi1; g_libm_calls = 0;
  want = ref_ifelseresults(g, &trapped, a0, a1);
  g_spec_trap = trapped ? SPEC_TRAP_UNREACHABLE : SPEC_NOTRAP;
  r = c09p_ifelseresults(&inst, a0, a1);
  OBL(g_spec_trap == SPEC_NOTRAP, "ifelseresults: returned normally only if the specification does not trap");
  OBL(r == (U32)want, "ifelseresults: the function result equals the reference semantics (every branch reaches its label and carries its value to its consumer)");
  OBL(inst.g0 == (U32)g[0] && inst.g1 == g[1], "ifelseresults: the observable side effects (globals) equal the reference: unreachable code has no effect, live code is not skipped");
  CANARY("ifelseresults returns");
}
void h_ifthenendsinbrelsemustrun(void) {
  ND(U32, a0); ND(U32, a1); ND(U32, gi0); ND(U64, gi1); U64 g[2]; int trapped = 0; U64 want; U32 r;
  g[0] = gi0; g[1] = gi1; inst.g0 = gi0; inst.g1 = gi1; g_libm_calls = 0;
  want = ref_ifthenendsinbrelsemustrun(g, &trapped, a0, a1);
  g_spec_trap = trapped ? SPEC_TRAP_UNREACHABLE : SPEC_NOTRAP;
  r = c09p_ifthenendsinbrelsemustrun(&inst, a0, a1);
  OBL(g_spec_trap == SPEC_NOTRAP, "ifthenendsinbrelsemustrun: returned normally only if the specification does not trap");
  OBL(r == (U32)want, "ifthenendsinbrelsemustrun: the function result equals the reference semantics (every branch reaches its label and carries its value to its consumer)");
  OBL(inst.g0 == (U32)g[0] && inst.g1 == g[1], "ifthenendsinbrelsemustrun: the observable side effects (globals) equal the reference: unreachable code has no effect, live code is not skipped");
  CANARY("ifthenendsinbrelsemustrun returns");
}
void h_ifresultthenreturn(void) {
  ND(U32, a0); ND(U32, a1); ND(U32, gi0); ND(U64, gi1); U64 g[2]; int trapped = 0; U64 want; U32 r;
  g[0] = gi0; g[1] = gi1; inst.g0 = gi0; inst.g1 = gi1; g_libm_calls = 0;
  want = ref_ifresultthenreturn(g, &trapped, a0, a1);
  g_spec_trap = trapped ? SPEC_TRAP_UNREACHABLE : SPEC_NOTRAP;
  r = c09p_ifresultthenreturn(&inst, a0, a1);
  OBL(g_spec_trap == SPEC_NOTRAP, "ifresultthenreturn: returned normally only if the specification does not trap");
  OBL(r == (U32)want, "ifresultthenreturn: the function result equals the reference semantics (every branch reaches its label and carries its value to its consumer)");
  OBL(inst.g0 == (U32)g[0] && inst.g1 == g[1], "ifresultthenreturn: the observable side effects (globals) equal the reference: unreachable code has no effect, live code is not skipped");
  CANARY("ifresultthenreturn returns");
}
void h_deadcodenestedblock(void) {
  ND(U32, a0); ND(U32, a1); ND(U32, gi0); ND(U64, gi1); U64 g[2]; int trapped = 0; U64 want; U32 r;
  g[0] = gi0; g[1] = gi1; inst.g0 = gi0; inst.g1 = gi1; g_libm_calls = 0;
  want = ref_deadcodenestedblock(g, &trapped, a0, a1);
  g_spec_trap = trapped ? SPEC_TRAP_UNREACHABLE : SPEC_NOTRAP;
  r = c09p_deadcodenestedblock(&inst, a0, a1);
  OBL(g_spec_trap == SPEC_NOTRAP, "deadcodenestedblock: returned normally only if the specification does not trap");
  OBL(r == (U32)want, "deadcodenestedblock: the function result equals the reference semantics (every branch reaches its label and carries its value to its consumer)");
  OBL(inst.g0 == (U32)g[0] && inst.g1 == g[1], "deadcodenestedblock: the observable side effects (globals) equal the reference: unreachable code has no effect, live code is not skipped");
  CANARY("deadcodenestedblock returns");
}
void h_deadcodeafterreturnwithloopandif(void) {
  ND(U32, a0); ND(U32, a1); ND(U32, gi0); ND(U64, gi1); U64 g[2]; int trapped = 0; U64 want; U32 r;
  g[0] = gi0; g[1] = gi1; inst.g0 = gi0; inst.g1 = gi1; g_libm_calls = 0;
  want = ref_deadcodeafterreturnwithloopandif(g, &trapped, a0, a1);
  g_spec_trap = trapped ? SPEC_TRAP_UNREACHABLE : SPEC_NOTRAP;
  r = c09p_deadcodeafterreturnwithloopandif(&inst, a0, a1);
  OBL(g_spec_trap == SPEC_NOTRAP, "deadcodeafterreturnwithloopandif: returned normally only if the specification does not trap");
  OBL(r == (U32)want, "deadcodeafterreturnwithloopandif: the function result equals the reference semantics (every branch reaches its label and carries its value to its consumer)");
  OBL(inst.g0 == (U32)g[0] && inst.g1 == g[1], "deadcodeafterreturnwithloopandif: the observable side effects (globals) equal the reference: unreachable code has no effect, live code is not skipped");
  CANARY("deadcodeafterreturnwithloopandif returns");
}
void h_unreachabletraps(void) {
  ND(U32, a0); ND(U32, a1); ND(U32, gi0); ND(U64, gi1); U64 g[2]; int trapped = 0; U64 want; U32 r;
  g[0] = gi0; g[1] = gi1; inst.g0 = gi0; inst.g1 = gi1; g_libm_calls = 0;
  want = ref_unreachabletraps(g, &trapped, a0, a1);
  g_spec_trap = trapped ? SPEC_TRAP_UNREACHABLE : SPEC_NOTRAP;
  r = c09p_unreachabletraps(&inst, a0, a1);
  OBL(g_spec_trap == SPEC_NOTRAP, "unreachabletraps: returned normally only if the specification does not trap");
  OBL(r == (U32)want, "unreachabletraps: the function result equals the reference semantics (every branch reaches its label and carries its value to its consumer)");
  OBL(inst.g0 == (U32)g[0] && inst.g1 == g[1], "unreachabletraps: the observable side effects (globals) equal the reference: unreachable code has no effect, live code is not skipped");
  CANARY("unreachabletraps returns");
}
void h_selectdropnoplocals(void) {
  ND(U32, a0); ND(U32, a1); ND(U32, gi0); ND(U64, gi1); U64 g[2]; int trapped = 0; U64 want; U32 r;
  g[0] = gi0; g[1] = gi1; inst.g0 = gi0; inst.g1 = gi1; g_libm_calls = 0;
  want = ref_selectdropnoplocals(g, &trapped, a0, a1);
  g_spec_trap = trapped ? SPEC_TRAP_UNREACHABLE : SPEC_NOTRAP;
  r = c09p_selectdropnoplocals(&inst, a0, a1);
  OBL(g_spec_trap == SPEC_NOTRAP, "selectdropnoplocals: returned normally only if the specification does not trap");
  OBL(r == (U32)want, "selectdropnoplocals: the function result equals the reference semantics (every branch reaches its label and carries its value to its consumer)");
  OBL(inst.g0 == (U32)g[0] && inst.g1 == g[1], "selectdropnoplocals: the observable side effects (globals) equal the reference: unreachable code has no effect, live code is not skipped");
  CANARY("selectdropnoplocals returns");
}
void h_groupedlocalsstartatzero(void) {
  ND(U32, a0); ND(U32, a1); ND(U32, gi0); ND(U64, gi1); U64 g[2]; int trapped = 0; U64 want; U32 r;
  g[0] = gi0; g[1] = gi1; inst.g0 = gi0; inst.g1 = gi1; g_libm_calls = 0;
  want = ref_groupedlocalsstartatzero(g, &trapped, a0, a1);
  g_spec_trap = trapped ? SPEC_TRAP_UNREACHABLE : SPEC_NOTRAP;
  r = c09p_groupedlocalsstartatzero(&inst, a0, a1);
  OBL(g_spec_trap == SPEC_NOTRAP, "groupedlocalsstartatzero: returned normally only if the specification does not trap");
  OBL(r == (U32)want, "groupedlocalsstartatzero: the function result equals the reference semantics (every branch reaches its label and carries its value to its consumer)");
  OBL(inst.g0 == (U32)g[0] && inst.g1 == g[1], "groupedlocalsstartatzero: the observable side effects (globals) equal the reference: unreachable code has no effect, live code is not skipped");
  CANARY("groupedlocalsstartatzero returns");
}
void h_teeandoverwriteparam(void) {
  ND(U32, a0); ND(U32, a1); ND(U32, gi0); ND(U64, gi1); U64 g[2]; int trapped = 0; U64 want; U32 r;
  g[0] = gi0; g[1] = gi1; inst.g0 = gi0; inst.g1 = gi1; g_libm_calls = 0;
  want = ref_teeandoverwriteparam(g, &trapped, a0, a1);
  g_spec_trap = trapped ? SPEC_TRAP_UNREACHABLE : SPEC_NOTRAP;
  r = c09p_teeandoverwriteparam(&inst, a0, a1);
  OBL(g_spec_trap == SPEC_NOTRAP, "teeandoverwriteparam: returned normally only if the specification does not trap");
  OBL(r == (U32)want, "teeandoverwriteparam: the function result equals the reference semantics (every branch reaches its label and carries its value to its consumer)");
  OBL(inst.g0 == (U32)g[0] && inst.g1 == g[1], "teeandoverwriteparam: the observable side effects (globals) equal the reference: unreachable code has no effect, live code is not skipped");
  CANARY("teeandoverwriteparam returns");
}
void h_brtableinloopwithvalues(void) {
  ND(U32, a0); ND(U32, a1); ND(U32, gi0); ND(U64, gi1); U64 g[2]; int trapped = 0; U64 want; U32 r;
  g[0] = gi0; g[1] = gi1; inst.g0 = gi0; inst.g1 = gi1; g_libm_calls = 0;
  want = ref_brtableinloopwithvalues(g, &trapped, a0, a1);
  g_spec_trap = trapped ? SPEC_TRAP_UNREACHABLE : SPEC_NOTRAP;
  r = c09p_brtableinloopwithvalues(&inst, a0, a1);
  OBL(g_spec_trap == SPEC_NOTRAP, "brtableinloopwithvalues: returned normally only if the specification does not trap");
  OBL(r == (U32)want, "brtableinloopwithvalues: the function result equals the reference semantics (every branch reaches its label and carries its value to its consumer)");
  OBL(inst.g0 == (U32)g[0] && inst.g1 == g[1], "brtableinloopwithvalues: the observable side effects (globals) equal the reference: unreachable code has no effect, live code is not skipped");
  CANARY("brtableinloopwithvalues returns");
}
void h_rnd0(void) {
  ND(U32, a0); ND(U32, a1); ND(U32, gi0); ND(U64, gi1); U64 g[2]; int trapped = 0; U64 want; U32 r;
  g[0] = gi0; g[1] = gi1; inst.g0 = gi0; inst.g1 = gi1; g_libm_calls = 0;
  want = ref_rnd0(g, &trapped, a0, a1);
  g_spec_trap = trapped ? SPEC_TRAP_UNREACHABLE : SPEC_NOTRAP;
  r = c09p_rnd0(&inst, a0, a1);
  OBL(g_spec_trap == SPEC_NOTRAP, "rnd0: returned normally only if the specification does not trap");
  OBL(r == (U32)want, "rnd0: the function result equals the reference semantics (every branch reaches its label and carries its value to its consumer)");
  OBL(inst.g0 == (U32)g[0] && inst.g1 == g[1], "rnd0: the observable side effects (globals) equal the reference: unreachable code has no effect, live code is not skipped");
  CANARY("rnd0 returns");
}
void h_rnd1(void) {
  ND(U32, a0); ND(U32, a1); ND(U32, gi0); ND(U64, gi1); U64 g[2]; int trapped = 0; U64 want; U32 r;
  g[0] = gi0; g[1] = gi1; inst.g0 = gi0; inst.g1 = gi1; g_libm_calls = 0;
  want = ref_rnd1(g, &trapped, a0, a1);
  g_spec_trap = trapped ? SPEC_TRAP_UNREACHABLE : SPEC_NOTRAP;
  r = c09p_rnd1(&inst, a0, a1);
  OBL(g_spec_trap == SPEC_NOTRAP, "rnd1: returned normally only if the specification does not trap");
  OBL(r == (U32)want, "rnd1: the function result equals the reference semantics (every branch reaches its label and carries its value to its consumer)");
  OBL(inst.g0 == (U32)g[0] && inst.g1 == g[1], "rnd1: the observable side effects (globals) equal the reference: unreachable code has no effect, live code is not skipped");
  CANARY("rnd1 returns");
}
void h_rnd2(void) {
  ND(U32, a0); ND(U32, a1); ND(U32, gi0); ND(U64, gi1); U64 g[2]; int trapped = 0; U64 want; U32 r;
  g[0] = gi0; g[1] = gi1; inst.g0 = gi0; inst.g1 = gi1; g_libm_calls = 0;
  want = ref_rnd2(g, &trapped, a0, a1);
  g_spec_trap = trapped ? SPEC_TRAP_UNREACHABLE : SPEC_NOTRAP;
  r = c09p_rnd2(&inst, a0, a1);
  OBL(g_spec_trap == SPEC_NOTRAP, "rnd2: returned normally only if the specification does not trap");
  OBL(r == (U32)want, "rnd2: the function result equals the reference semantics (every branch reaches its label and carries its value to its consumer)");
  OBL(inst.g0 == (U32)g[0] && inst.g1 == g[1], "rnd2: the observable side effects (globals) equal the reference: unreachable code has no effect, live code is not skipped");
  CANARY("rnd2 returns");
}
void h_rnd3(void) {
  ND(U32, a0); ND(U32, a1); ND(U32, gi0); ND(U64, gi1); U64 g[2]; int trapped = 0; U64 want; U32 r;
  g[0] = gi0; g[1] = gi1; inst.g0 = gi0; inst.g1 = gi1; g_libm_calls = 0;
  want = ref_rnd3(g, &trapped, a0, a1);
  g_spec_trap = trapped ? SPEC_TRAP_UNREACHABLE : SPEC_NOTRAP;
  r = c09p_rnd3(&inst, a0, a1);
  OBL(g_spec_trap == SPEC_NOTRAP, "rnd3: returned normally only if the specification does not trap");
  OBL(r == (U32)want, "rnd3: the function result equals the reference semantics (every branch reaches its label and carries its value to its consumer)");
  OBL(inst.g0 == (U32)g[0] && inst.g1 == g[1], "rnd3: the observable side effects (globals) equal the reference: unreachable code has no effect, live code is not skipped");
  CANARY("rnd3 returns");
}
void h_rnd4(void) {
  ND(U32, a0); ND(U32, a1); ND(U32, gi0); ND(U64, gi1); U64 g[2]; int trapped = 0; U64 want; U32 r;
  g[0] = gi0; g[1] = gi1; inst.g0 = gi0; inst.g1 = gi1; g_libm_calls = 0;
  want = ref_rnd4(g, &trapped, a0, a1);
  g_spec_trap = trapped ? SPEC_TRAP_UNREACHABLE : SPEC_NOTRAP;
  r = c09p_rnd4(&inst, a0, a1);
  OBL(g_spec_trap == SPEC_NOTRAP, "rnd4: returned normally only if the specification does not trap");
  OBL(r == (U32)want, "rnd4: the function result equals the reference semantics (every branch reaches its label and carries its value to its consumer)");
  OBL(inst.g0 == (U32)g[0] && inst.g1 == g[1], "rnd4: the observable side effects (globals) equal the reference: unreachable code has no effect, live code is not skipped");
  CANARY("rnd4 returns");
}
void h_rnd5(void) {
  ND(U32, a0); ND(U32, a1); ND(U32, gi0); ND(U64, gi1); U64 g[2]; int trapped = 0; U64 want; U32 r;
  g[0] = gi0; g[1] = gi1; inst.g0 = gi0; inst.g1 = gi1; g_libm_calls = 0;
  want = ref_rnd5(g, &trapped, a0, a1);
  g_spec_trap = trapped ? SPEC_TRAP_UNREACHABLE : SPEC_NOTRAP;
  r = c09p_rnd5(&inst, a0, a1);
  OBL(g_spec_trap == SPEC_NOTRAP, "rnd5: returned normally only if the specification does not trap");
  OBL(r == (U32)want, "rnd5: the function result equals the reference semantics (every branch reaches its label and carries its value to its consumer)");
  OBL(inst.g0 == (U32)g[0] && inst.g1 == g[1], "rnd5: the observable side effects (globals) equal the reference: unreachable code has no effect, live code is not skipped");
  CANARY("rnd5 returns");
}
