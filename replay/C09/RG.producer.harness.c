/* C09: the implementation-file worker pool of the real w2c2/c.c as rely/guarantee obligations.
 * pthread primitives and the few libc calls on the path (sprintf, fopen, fprintf, exit) are models; the heavy callee
 * wasmCWriteImplementationFile is left to fail at fopen, which makes the values it was called with observable. */
#include <stdio.h>
#include <stdlib.h>
#include <string.h>
#include <stdarg.h>
#include <pthread.h>
#include "vh.h"
/* CBMC keeps variadic arguments at their declared type (no default promotion), a native compiler promotes char to int */
#ifdef VERIF_CBMC
#define VA_CHAR(ap) ((int)va_arg(ap, char))
#else
#define VA_CHAR(ap) va_arg(ap, int)
#endif
/* ---- observables ---- */
static int g_sprintf_calls, g_fopen_calls, g_exit_calls, g_report_calls; static int g_sp_prefix; static unsigned g_sp_index; static unsigned g_rp_file, g_rp_func;
static int vh_sprintf(char* out, const char* fmt, ...) { va_list ap; va_start(ap, fmt); g_sp_prefix = VA_CHAR(ap); g_sp_index = va_arg(ap, unsigned); va_end(ap); g_sprintf_calls++; out[0] = 'x'; out[1] = 0; (void)fmt; return 1; }
static FILE* vh_fopen(const char* name, const char* mode) { (void)name; (void)mode; g_fopen_calls++; return 0; }
static int vh_starts(const char* s, const char* p) { size_t i = 0; while (p[i]) { if (s[i] != p[i]) return 0; i++; } return 1; }
static int vh_fprintf(FILE* f, const char* fmt, ...) { va_list ap; (void)f; va_start(ap, fmt);
    if (vh_starts(fmt, "w2c2: failed to write implementation file")) { g_rp_file = va_arg(ap, unsigned); g_rp_func = va_arg(ap, unsigned); g_report_calls++; }
    va_end(ap); return 0; }
static void check_worker_call(void);
static void vh_exit(int code) { (void)code; g_exit_calls++; check_worker_call(); CANARY("worker reached the file writer"); VH_STOP(); for (;;) { } }
#define sprintf vh_sprintf
#define fopen vh_fopen
#define fprintf vh_fprintf
#define exit vh_exit
/* ---- pthread model: mutex monitor + interference of the other side ---- */
static int g_held = 0, g_locks = 0;
static void at_lock(pthread_mutex_t* m);
static void at_unlock(pthread_mutex_t* m);
static void at_wait(pthread_cond_t* c, pthread_mutex_t* m);
int pthread_mutex_lock(pthread_mutex_t* m) { OBL(!g_held, "pool: the mutex is not taken twice"); g_held = 1; g_locks++; at_lock(m); return 0; }
int pthread_mutex_unlock(pthread_mutex_t* m) { OBL(g_held, "pool: the mutex is released only while held"); at_unlock(m); g_held = 0; return 0; }
int pthread_cond_wait(pthread_cond_t* c, pthread_mutex_t* m) { OBL(g_held, "pool: waits on a condition only while holding the mutex"); at_wait(c, m); return 0; }
static int g_signal_consume = 0, g_signal_produce = 0, g_broadcasts = 0;
int pthread_cond_signal(pthread_cond_t* c);
int pthread_cond_broadcast(pthread_cond_t* c) { (void)c; g_broadcasts++; return 0; }
int pthread_mutex_init(pthread_mutex_t* m, const pthread_mutexattr_t* a) { (void)m; (void)a; return 0; }
int pthread_mutex_destroy(pthread_mutex_t* m) { (void)m; return 0; }
int pthread_cond_init(pthread_cond_t* c, const pthread_condattr_t* a) { (void)c; (void)a; return 0; }
int pthread_cond_destroy(pthread_cond_t* c) { (void)c; return 0; }
static int g_threads_created = 0, g_threads_joined = 0;
int pthread_create(pthread_t* t, const pthread_attr_t* a, void* (*fn)(void*), void* arg) { (void)t; (void)a; (void)fn; (void)arg; g_threads_created++; return 0; }
int pthread_join(pthread_t t, void** r) { (void)t; (void)r; g_threads_joined++; return 0; }

#include "c.c"
#undef sprintf
#undef fopen
#undef fprintf
#undef exit
int pthread_cond_signal(pthread_cond_t* c) { (void)c; return 0; }

/* =============== consumer: wasmCImplementationWriterThread =============== */
#ifdef WORKER
static WasmCImplementationConcurrentWriter g_writer; static WasmCImplementationWriterTask g_task; static WasmFunctionID g_ids[4];
static char o_prefix; static U32 o_index, o_start, o_func; static int g_taken = 0, g_waits = 0;
static void fill_task(void) {          /* the producer publishes a task (it holds the mutex while doing so) */
    ND(char, t_prefix); ND(U32, t_index); ND(U32, t_start); ND(U32, t_fid);
    ASSUME((t_prefix == 's' || t_prefix == 'd') && t_start < 4);
    g_ids[t_start].functionIndex = t_fid;
    g_task.filePrefix = t_prefix; g_task.fileIndex = t_index; g_task.startFunctionIDIndex = t_start; g_task.functionsPerFile = 1;
    g_task.functionIDs.functionIDs = g_ids; g_task.functionIDs.length = 4; g_task.functionIDs.capacity = 4;
    g_task.module = 0; g_task.moduleName = "m"; g_task.headerName = "m.h"; g_task.pretty = false; g_task.debug = false; g_task.multipleModules = false; g_task.debugLines = 0;
    g_writer.task = &g_task;
    o_prefix = t_prefix; o_index = t_index; o_start = t_start; o_func = t_fid;     /* what was published */
}
static void interfere(int force) {     /* what the producer may have done before we (re)acquire the mutex */
    ND(int, choice);
    if (g_taken) return;
    if (g_writer.task == 0 && !g_writer.done) {
        if (force) ASSUME(choice == 1 || choice == 2);
        if (choice == 1) fill_task();
        else if (choice == 2) g_writer.done = true;            /* done is only set while the slot is empty */
    }
}
static void at_lock(pthread_mutex_t* m) { (void)m; interfere(0); }
static void at_wait(pthread_cond_t* c, pthread_mutex_t* m) { (void)m; OBL(c == &g_writer.consume, "worker: waits on the consume condition"); OBL(g_writer.task == 0 && !g_writer.done, "worker: blocks only when there is neither a task nor the done flag"); g_waits++; interfere(g_waits >= 2); }
static void at_unlock(pthread_mutex_t* m) { (void)m;
    if (g_writer.task == 0 && !g_writer.done && !g_taken) { /* released without taking anything */ }
    if (g_writer.task == 0 && o_prefix != 0 && !g_taken) {
        /* the worker has emptied the slot: from now on the producer may refill the ONE shared task structure at any time */
        ND(char, h_prefix); ND(U32, h_index); ND(U32, h_start);
        g_taken = 1;
        ASSUME(h_start < 4);
        g_task.filePrefix = h_prefix; g_task.fileIndex = h_index; g_task.startFunctionIDIndex = h_start;
        g_task.functionIDs.functionIDs = 0; g_task.functionIDs.length = 0;
    }
}
static void check_worker_call(void) {
    OBL(g_taken, "worker: writes a file only after it has taken a task out of the slot");
    OBL(!g_held, "worker: the file is written outside the critical section");
    OBL(g_sprintf_calls == 1 && g_sp_prefix == o_prefix && g_sp_index == o_index, "worker: the file is written with the prefix and index that were PUBLISHED (every field is copied before the slot is cleared and the mutex released)");
    OBL(g_report_calls == 1 && g_rp_file == o_index && g_rp_func == o_func, "worker: start index and function list are the published ones");
}
void h_worker(void) {
    g_writer.task = 0; g_writer.done = false; o_prefix = 0; g_taken = 0; g_waits = 0; g_held = 0;
    wasmCImplementationWriterThread(&g_writer);
    /* returns only through the done path */
    OBL(g_writer.done && !g_taken, "worker: terminates only when the producer is done and no task is pending");
    OBL(!g_held, "worker: the mutex is released on exit");
    CANARY("worker returns");
}
#endif

/* =============== producer: wasmCWriteModuleImplementationFiles (file partition + protocol) =============== */
#ifdef PRODUCER
#define MAXFILES 8
static WasmCImplementationConcurrentWriter* g_w = 0; static int g_n = 0; static U32 s_index[MAXFILES], s_start[MAXFILES], s_fpf[MAXFILES]; static char s_prefix[MAXFILES];
static int g_done_seen_with_task = 0, g_last_done = 0, g_last_task_null = 0;
static void consume(void) {            /* a worker takes the published task (it copies the fields under the mutex) */
    if (g_w && g_w->task) { if (g_n < MAXFILES) { s_index[g_n] = g_w->task->fileIndex; s_start[g_n] = g_w->task->startFunctionIDIndex; s_fpf[g_n] = g_w->task->functionsPerFile; s_prefix[g_n] = g_w->task->filePrefix; } g_n++; g_w->task = 0; }
}
static void at_lock(pthread_mutex_t* m) { g_w = (WasmCImplementationConcurrentWriter*)((char*)m - offsetof(WasmCImplementationConcurrentWriter, mutex)); { ND(int, quick); if (quick) consume(); } }
static int g_spurious = 0;
static void at_wait(pthread_cond_t* c, pthread_mutex_t* m) { (void)m; OBL(c == &g_w->produce, "producer: waits on the produce condition"); OBL(g_w->task != 0, "producer: blocks only while the slot is full");
    { ND(int, spurious); if (spurious && g_spurious < 2) { g_spurious++; return; } }      /* POSIX permits spurious wake-ups: the wait returns although no worker took the task */
    consume(); }
static void at_unlock(pthread_mutex_t* m) { (void)m; if (g_w->done && g_w->task != 0) g_done_seen_with_task = 1; g_last_done = g_w->done; g_last_task_null = (g_w->task == 0); }
static void check_worker_call(void) { }
void h_producer(void) {
    static WasmFunctionID ids[MAXFILES]; WasmFunctionIDs fids; WasmCWriteModuleOptions opt = emptyWasmCWriteModuleOptions; static WasmModule mod;
    ND(U32, count); ND(U32, fpf); ND(U32, threads); ND(U32, k); bool ok; int i, owners = 0;
    ASSUME(count >= 1 && count <= 6 && threads >= 1 && threads <= 3 && k < count);
    ASSUME(fpf == 0 || (count - 1) / fpf < MAXFILES);
    fids.functionIDs = ids; fids.length = count; fids.capacity = MAXFILES;
    opt.threadCount = threads; opt.functionsPerFile = fpf;
    g_n = 0; g_held = 0; g_spurious = 0;
    ok = wasmCWriteModuleImplementationFiles(&mod, "m", "m.h", fids, 's', opt);
    OBL(ok, "producer: succeeds");
    { U32 eff = fpf == 0 ? 0xFFFFFFFFu : fpf; U32 files = 1 + (count - 1) / eff;
      OBL((U32)g_n == files, "producer: exactly ceil(count / functionsPerFile) tasks are published (functionsPerFile 0 = one file), none twice");
      for (i = 0; i < MAXFILES; i++) if ((U32)i < files && i < g_n) {
          OBL(s_index[i] == (U32)i && s_prefix[i] == 's' && s_fpf[i] == eff, "producer: task i carries file index i, the prefix and the functions-per-file value");
          OBL((U64)s_start[i] == (U64)i * eff, "producer: task i starts at function i * functionsPerFile");
          if ((U64)k >= (U64)s_start[i] && (U64)k < (U64)s_start[i] + eff) owners++;
      }
      OBL(owners == 1, "partition: every function index belongs to exactly one implementation file"); }
    OBL(g_last_done && g_last_task_null && !g_done_seen_with_task, "producer: sets done only after the last task has been taken");
    OBL(g_threads_created == (int)threads && g_threads_joined == (int)threads && g_broadcasts == 1, "producer: starts and joins the requested number of workers and wakes them all at the end");
    OBL(!g_held, "producer: the mutex is released");
    CANARY("producer returns");
}
#endif
