/* Contract of the growth step of the real w2c2/array.c, which every ARRAY_TYPE (type stack, label stack, declarations, ...) goes
 * through; harness/e_expr.c and friends enter it through this contract.  Element size is a job constant (ISZ), capacities and
 * lengths are symbolic up to CAPMAX elements, the old contents are symbolic (ghost byte k). */
#include <stdlib.h>
#include <string.h>
#include "array.c"
#include "vh.h"
#ifndef ISZ
#define ISZ 4
#endif
#ifndef CAPMAX
#define CAPMAX ((1u << 24) + 8)
#endif
void h_ensure(void) {
    ND(size_t, cap); ND(size_t, len); ND(size_t, k); ND(unsigned char, oldb); ND(int, isnull);
    void* items; size_t c0; bool ok;
    ASSUME(cap <= CAPMAX && len > cap && len <= CAPMAX + 1);
    if (isnull) { items = 0; ASSUME(cap == 0); } else { items = malloc(cap * ISZ + (cap == 0)); ASSUME(items != 0); }
    if (cap > 0) { ASSUME(k < cap * ISZ); ((unsigned char*)items)[k] = oldb; }
    c0 = cap;
    ok = arrayEnsureCapacitySlowPath(&items, len, &cap, ISZ);
    if (ok) {
        OBL(cap >= len && items != 0, "EnsureCapacity: on success the capacity covers the requested length");
#ifndef VERIF_NATIVE
        OBL(__CPROVER_OBJECT_SIZE(items) >= cap * ISZ && __CPROVER_POINTER_OFFSET(items) == 0, "EnsureCapacity: the buffer really has capacity*itemSize bytes");
#endif
        if (c0 > 0) OBL(((unsigned char*)items)[k] == oldb, "EnsureCapacity: every old byte is preserved (ghost index)");
    } else OBL(cap == c0, "EnsureCapacity: on failure the capacity field is unchanged");
    CANARY("ensure");
}
