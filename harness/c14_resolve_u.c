/* C14: resolvePath of the real wasi/wasi.c with the REAL PATH_MAX and strings of EVERY length (no unwinding bound).
 * resolvePath has no loop of its own; its three memcpy calls and its strlen call enter through library contracts:
 *   strlen(s)       : s is the NUL-terminated directory string of ghost length L            -> L
 *   memcpy(d, s, n) : requires n readable bytes at s and n writable bytes at d (CBMC r_ok / w_ok on exact-size objects);
 *                     ensures d[i] = s[i] for i < n - applied to the ghost index G of the result buffer only
 * so the postcondition "result[G] = expected[G]" is checked for an arbitrary position G (ghost index). */
#ifndef VERIF_NATIVE
#include <stddef.h>
static const char* g_gs_ptr; static size_t g_gs_len;
static char* g_res_base; static size_t g_G; static int g_cp_n;
static size_t vh_ghost_strlen(const char* s);
static void* vh_contract_memcpy(void* d, const void* s, size_t n);
#define VH_OWN_STRLEN_MEMCPY 1
#endif
#ifndef VH_PATH_MAX
#define VH_PATH_MAX 4096
#endif
#include "wasi_common.h"
#ifndef VERIF_NATIVE
static size_t vh_ghost_strlen(const char* s) { OBL(s == g_gs_ptr, "resolvePath: strlen is applied to the directory string only"); return g_gs_len; }
static void* vh_contract_memcpy(void* d, const void* s, size_t n) {
    OBL(n == 0 || (__CPROVER_r_ok(s, n) && __CPROVER_w_ok(d, n)), "resolvePath: every copy reads inside its source string and writes inside the PATH_MAX result buffer");
    g_cp_n++;
    if (n > 0 && __CPROVER_same_object(d, g_res_base)) {
        size_t off = (size_t)((char*)d - g_res_base);
        if (g_G >= off && g_G - off < n) g_res_base[g_G] = ((const char*)s)[g_G - off];
    }
    return d; }
#endif
void h_resolve_u(void) {
    ND(size_t, L); ND(U32, pl); ND(size_t, G); ND(char, dlast); ND(char, dG); ND(char, p0); ND(char, pG);
    char result[PATH_MAX]; char* dir; char* path; bool ok; size_t sep, base, total; int absolute, fits; char want;
    ASSUME(L >= 1 && L <= 2 * (size_t)PATH_MAX && pl <= 3u * PATH_MAX && G < PATH_MAX);
    dir = (char*)malloc(L + 1); path = (char*)malloc(pl ? pl : 1); ASSUME(dir != 0 && path != 0);     /* exact-size objects */
    dir[L] = 0; ASSUME(dlast != 0 && dG != 0); dir[L - 1] = dlast; if (G < L - 1) dir[G] = dG; else if (G == L - 1) dG = dlast;
    if (pl > 0) path[0] = p0;
#ifndef VERIF_NATIVE
    g_gs_ptr = dir; g_gs_len = L; g_res_base = result; g_G = G; g_cp_n = 0;
#endif
    absolute = (pl > 0 && p0 == '/');
    sep = (dlast != '/'); base = L + sep;
    /* the one path byte that lands on position G (if any) */
    if (absolute) { if (G < pl && G > 0) path[G] = pG; else if (G == 0) pG = p0; }
    else if (G >= base && G - base < pl) { if (G - base > 0) path[G - base] = pG; else pG = p0; }
    fits = pl > 0 && (absolute ? pl < PATH_MAX : L + pl + 1 < PATH_MAX);
    result[G] = 0x55;
    ok = resolvePath(dir, path, pl, result);
    OBL(ok == (fits != 0), "resolvePath: accepted iff the path is non-empty and the result fits the buffer (absolute: length < PATH_MAX; relative: directory + path + 1 < PATH_MAX)");
    if (ok) {
        total = absolute ? pl : base + pl;
        if (absolute) want = (G < pl) ? pG : 0; else want = (G < L) ? dG : (sep && G == L) ? '/' : (G < base + pl) ? pG : 0;
        OBL(total < PATH_MAX, "resolvePath: the terminator lies inside the buffer");
        if (G <= total) OBL(result[G] == want, "resolvePath: absolute path as is; relative path = directory [+ '/' unless the directory ends in one] + path, NUL-terminated (ghost position G)");
        else OBL(result[G] == 0x55, "resolvePath: nothing is written beyond the terminator");
    }
    CANARY("resolve_u returns");
}
