/* C05: wasmMemoryFill / wasmMemoryCopy of the real w2c2_base.h for EVERY count (also >= 64 KiB): the libc routine is a recorder, so no memory object of
 * that size is needed - the obligations are about the arguments that reach memset / memmove (full 32-bit count, base + address without wrap). */
#include <stddef.h>
#include <string.h>
#include "vh.h"
static int g_ms_calls, g_mm_calls; static void* g_ms_p; static int g_ms_v; static size_t g_ms_n; static void* g_mm_d; static const void* g_mm_s; static size_t g_mm_n;
static void* vh_memset_rec(void* p, int v, size_t n) { g_ms_calls++; g_ms_p = p; g_ms_v = v; g_ms_n = n; return p; }
static void* vh_memmove_rec(void* d, const void* s, size_t n) { g_mm_calls++; g_mm_d = d; g_mm_s = s; g_mm_n = n; return d; }
#define memset vh_memset_rec
#define memmove vh_memmove_rec
#include "w2c2_base.h"
#undef memset
#undef memmove
#include "trapstub.h"
static U8 g_obj[8]; static U8 g_obj2[8];
void h_fill_large(void) { ND(U32, dest); ND(U32, value); ND(U32, count); wasmMemory m;
    m.data = g_obj; m.size = 0xFFFF0000u; m.pages = 65535; m.maxPages = 65535; m.shared = 0; g_ms_calls = 0;
    wasmMemoryFill(&m, dest, value, count);
    OBL(g_ms_calls == 1 && g_ms_n == (size_t)count, "memory.fill: memset receives the FULL 32-bit count (65536 bytes and more are filled, not count mod 2^16)");
    OBL((unsigned char)g_ms_v == (unsigned char)value, "memory.fill: the fill byte is the low byte of the value operand");
#ifndef VERIF_NATIVE
    OBL(__CPROVER_same_object(g_ms_p, g_obj) && __CPROVER_POINTER_OFFSET(g_ms_p) == (__CPROVER_size_t)dest, "memory.fill: the destination is memory base + address");
#endif
    CANARY("fill_large"); }
void h_copy_large(void) { ND(U32, dest); ND(U32, src); ND(U32, count); wasmMemory md, msrc;
    md.data = g_obj; md.size = 0xFFFF0000u; md.pages = 65535; md.maxPages = 65535; md.shared = 0; msrc = md; msrc.data = g_obj2; g_mm_calls = 0;
    wasmMemoryCopy(&md, &msrc, dest, src, count);
    OBL(g_mm_calls == 1 && g_mm_n == (size_t)count, "memory.copy: memmove (overlap-safe) receives the FULL 32-bit count");
#ifndef VERIF_NATIVE
    OBL(__CPROVER_same_object(g_mm_d, g_obj) && __CPROVER_POINTER_OFFSET(g_mm_d) == (__CPROVER_size_t)dest && __CPROVER_same_object(g_mm_s, g_obj2) && __CPROVER_POINTER_OFFSET(g_mm_s) == (__CPROVER_size_t)src,
        "memory.copy: destination and source are their memories' bases + the addresses");
#endif
    CANARY("copy_large"); }
