/* Layer E, further emitters of the real w2c2/c.c at every operand-stack height: global.get / global.set (defined globals, any index),
 * memory.size, memory.grow.  Same machinery as harness/e_expr.c (textually included). */
#include "e_expr.c"
static WasmGlobal* g_globals; static U32 GIDX; static unsigned GTYPE;
static void global_setup(void) { ND(U32, ng); ND(U32, gi); ND(unsigned, gt);
    ASSUME(ng >= 1 && ng <= (1u << 20) && gi < ng && gt <= 3);
    memset(&g_mod, 0, sizeof g_mod); w.module = &g_mod; w.ignore = false;
    g_globals = (WasmGlobal*)malloc(ng * sizeof(WasmGlobal)); ASSUME(g_globals != 0);
    g_globals[gi].type.valueType = (WasmValueType)gt;
    g_mod.globals.globals = g_globals; g_mod.globals.count = ng;
    GIDX = gi; GTYPE = gt;
    g_code[0] = (U8)((gi & 0x7f) | 0x80); g_code[1] = (U8)(((gi >> 7) & 0x7f) | 0x80); g_code[2] = (U8)(((gi >> 14) & 0x7f) | 0x80); g_code[3] = (U8)(((gi >> 21) & 0x7f) | 0x80); g_code[4] = (U8)(gi >> 28);
    g_codebuf.data = g_code; g_codebuf.length = 5; w.code = &g_codebuf; }
void h_global_get(void) { bool ok; setup(0); global_setup();
    X_SLOTREF(H0, GTYPE); X_LITERAL("=i->g"); X_EVENT(SB_U32, GIDX); X_LITERAL(";");
    ok = wasmCWriteGlobalGetExpr(&w);
    SUCCEEDS(ok, "global.get");
    OBL(X_MATCHED, "global.get: writes  s<T><h> = i->g<index>;  with T the global's declared type");
    OBL(g_codebuf.length == 0, "global.get: consumes exactly its immediate");
    post_stack(0, (WasmValueType)GTYPE, "global.get"); CANARY("global_get"); }
void h_global_set(void) { bool ok; setup(1); global_setup(); ASSUME(T[0] == (WasmValueType)GTYPE);
    X_LITERAL("i->g"); X_EVENT(SB_U32, GIDX); X_LITERAL("="); X_SLOTREF(H0 - 1, GTYPE); X_LITERAL(";");
    ok = wasmCWriteGlobalSetExpr(&w);
    SUCCEEDS(ok, "global.set");
    OBL(X_MATCHED, "global.set: writes  i->g<index> = s<T><h-1>;");
    OBL(g_codebuf.length == 0, "global.set: consumes exactly its immediate");
    OBL(ts.length == H0 - 1, "global.set: pops its operand");
    if (H0 > 1) OBL(ts.valueTypes[K] == OLDK, "global.set: entries below are unchanged (ghost index)");
    if (HAS_KD) OBL(decl.valueTypes[KD] == OLDKD, "global.set: no other slot's declarations change (ghost index)");
    CANARY("global_set"); }
static void mem_imm(void) { memset(&g_mod, 0, sizeof g_mod); w.module = &g_mod; w.ignore = false;
    g_code[0] = 0x80; g_code[1] = 0x80; g_code[2] = 0x00; g_codebuf.data = g_code; g_codebuf.length = 3; w.code = &g_codebuf; }   /* memory index 0, padded */
void h_memory_size(void) { bool ok; setup(0); mem_imm();
    X_SLOTREF(H0, wasmValueTypeI32); X_LITERAL("=(*i->m"); X_EVENT(SB_U32, 0); X_LITERAL(").pages;");
    ok = wasmCWriteMemorySizeExpr(&w);
    SUCCEEDS(ok, "memory.size");
    OBL(X_MATCHED, "memory.size: writes  si<h> = (*i->m0).pages;");
    OBL(g_codebuf.length == 0, "memory.size: consumes exactly its (padded) memory index");
    post_stack(0, wasmValueTypeI32, "memory.size"); CANARY("memory_size"); }
void h_memory_grow(void) { bool ok; setup(1); mem_imm(); ASSUME(T[0] == wasmValueTypeI32);
    X_SLOTREF(H0 - 1, wasmValueTypeI32); X_LITERAL("=wasmMemoryGrow(i->m"); X_EVENT(SB_U32, 0); X_LITERAL(","); X_SLOTREF(H0 - 1, T[0]); X_LITERAL(");");
    ok = wasmCWriteMemoryGrowExpr(&w);
    SUCCEEDS(ok, "memory.grow");
    OBL(X_MATCHED, "memory.grow: writes  si<h-1> = wasmMemoryGrow(i->m0, si<h-1>);  the delta is the top slot, the old size (or -1) replaces it");
    OBL(g_codebuf.length == 0, "memory.grow: consumes exactly its (padded) memory index");
    OBL(ts.length == H0 && ts.valueTypes[H0 - 1] == wasmValueTypeI32, "memory.grow: one i32 replaces one i32");
    if (H0 > 1) OBL(ts.valueTypes[K] == OLDK, "memory.grow: entries below are unchanged (ghost index)");
    CANARY("memory_grow"); }

/* br_table: a contract of this form (three arms, each declaring its label's slot in the symbolic-size declaration array) exhausted 10 GB on
 * minisat and 5 minutes on z3; br_table stays with the enumerated G shapes (C03) - its arms are calls of wasmCWriteGoto, which is under
 * contract for every height and label-stack length through E.h.br / E.h.br_if. */

/* ---- (round 7) which opcode is handed to which runtime function with which result type: the four opcode->function tables of c.c
 * (wasmCWriteLoadExpr, wasmCWriteStoreExpr, wasmCWriteAtomicLoadExpr, wasmCWriteAtomicStoreExpr) entered with the memarg immediate in
 * the code buffer (alignment hint: any value < 2^14 in a padded LEB for plain accesses, the natural alignment for atomic ones; offset: any
 * U32 in a padded 5-byte LEB), at every operand-stack height.  The expected function name, result type and natural alignment of each opcode
 * come from the instruction's mnemonic in the specification (table MEMOPS in vlib/eexpr.py), not from c.c. ---- */
#ifdef MEMOP_OPC
#define MEMOP_STR_(x) #x
#define MEMOP_STR(x) MEMOP_STR_(x)
static void memop_setup(WasmMemoryArgumentInstruction* mi) { ND(U32, al); U32 off;
    mem_setup(mi); off = mi->offset;
#if MEMOP_KIND >= 2
    ASSUME(al == MEMOP_ALIGN);
#else
    ASSUME(al < (1u << 14));
#endif
    g_code[0] = (U8)((al & 0x7f) | 0x80); g_code[1] = (U8)(al >> 7);
    g_code[2] = (U8)((off & 0x7f) | 0x80); g_code[3] = (U8)(((off >> 7) & 0x7f) | 0x80); g_code[4] = (U8)(((off >> 14) & 0x7f) | 0x80); g_code[5] = (U8)(((off >> 21) & 0x7f) | 0x80); g_code[6] = (U8)(off >> 28);
    g_codebuf.data = g_code; g_codebuf.length = 7; w.code = &g_codebuf; w.ignore = false; }
void h_memop(void) { bool ok; WasmMemoryArgumentInstruction mi;
#if MEMOP_KIND == 0 || MEMOP_KIND == 2
    setup(1); memop_setup(&mi);
    X_SLOTREF(H0 - 1, MEMOP_RT); X_LITERAL("=" MEMOP_STR(MEMOP_FN)); x_addr(H0 - 1, T[0], mi.offset); X_LITERAL(");");
#if MEMOP_KIND == 0
    ok = wasmCWriteLoadExpr(&w, MEMOP_OPC);
#else
    ok = wasmCWriteAtomicLoadExpr(&w, MEMOP_OPC);
#endif
    SUCCEEDS(ok, "memop load");
    OBL(X_MATCHED, "load opcode: writes  s<R><h-1> = <fn>(i->m0, (U64)s<T0><h-1> [+ <offset>U]);  with <fn> the runtime function and R the result type the mnemonic names, the offset the decoded immediate");
    OBL(g_codebuf.length == 0, "load opcode: consumes exactly its memarg immediate (padded encodings)");
    post_stack(1, (WasmValueType)MEMOP_RT, "memop load");
#else
    setup(2); memop_setup(&mi);
    X_LITERAL(MEMOP_STR(MEMOP_FN)); x_addr(H0 - 2, T[1], mi.offset); X_LITERAL(","); X_SLOTREF(H0 - 1, T[0]); X_LITERAL(");");
#if MEMOP_KIND == 1
    ok = wasmCWriteStoreExpr(&w, MEMOP_OPC);
#else
    ok = wasmCWriteAtomicStoreExpr(&w, MEMOP_OPC);
#endif
    SUCCEEDS(ok, "memop store");
    OBL(X_MATCHED, "store opcode: writes  <fn>(i->m0, (U64)s<T1><h-2> [+ <offset>U], s<T0><h-1>);  with <fn> the runtime function the mnemonic names, the offset the decoded immediate");
    OBL(g_codebuf.length == 0, "store opcode: consumes exactly its memarg immediate (padded encodings)");
    post_stack_n(2, 0, wasmValueTypeI32);
#endif
    CANARY("memop"); }
#endif
