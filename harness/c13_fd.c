/* C13: WASI descriptor table of the real wasi/wasi.c as an abstract data type + EBADF prologue of every
 * descriptor-taking entry point. */
#include "wasi_common.h"

/* ---------- wasiInit: descriptors 0..2 are the host's standard streams ---------- */
void h_init(void) {
    static char a0[] = "prog"; static char* argv[] = { a0, 0 }; static char* envp[] = { 0 };
    bool ok;
    wasi.fds.fds = 0; wasi.fds.length = 0; wasi.fds.capacity = 0;
    ok = wasiInit(1, argv, envp);
    OBL(ok && wasi.fds.length == 3, "init: three descriptors exist");
    OBL(wasi.fds.fds[0].fd == STDIN_FILENO && wasi.fds.fds[1].fd == STDOUT_FILENO && wasi.fds.fds[2].fd == STDERR_FILENO,
        "init: descriptors 0,1,2 denote the host's stdin, stdout, stderr");
    OBL(wasi.fds.fds[0].path == 0 && wasi.fds.fds[1].path == 0 && wasi.fds.fds[2].path == 0 && wasi.fds.fds[0].dir == 0, "init: standard streams are not pre-opened directories");
    OBL(g_ev_calls == 0, "init: no host call");
    CANARY("init returns");
}

/* ---------- wasiFileDescriptorAdd ---------- */
void h_add(void) {
    ND(size_t, n); ND(int, nfd); ND(U32, k); ND_ARR(char, newpath, PLEN);
    WasiFileDescriptor before_k; U32 out = 0xFFFFFFFFu; bool ok;
    ASSUME(k < n && nfd >= 3);
    ASSUME(newpath[0] != 0); newpath[PLEN - 1] = 0;
    mk_table_sym(n, n + 1, k);        /* capacity > length: no reallocation on this path */
    before_k = g_sym[k];
    ok = wasiFileDescriptorAdd(nfd, newpath, &out);
    OBL(ok, "add: succeeds when memory is available and the path is non-empty and shorter than PATH_MAX");
    /* the property fixes that a new descriptor never aliases a LIVE one; it may be the old table length (what the code does) or the slot of a closed one */
    OBL((out == n && wasi.fds.length == n + 1) || (out < n && out != k) || (out == k && g_kind_d == K_CLOSED), "add: the new descriptor number never aliases a live descriptor (it is the old table length, or a closed slot)");
    OBL(out < wasi.fds.length, "add: the returned number denotes an entry of the table");
    if (out != k) OBL(g_sym[k].fd == before_k.fd && g_sym[k].dir == before_k.dir && g_sym[k].path == before_k.path, "add: every other entry is unchanged");
    OBL(g_sym[out].fd == nfd && g_sym[out].dir == 0, "add: the new entry holds the native descriptor and no directory stream");
    OBL(g_sym[out].path != 0 && g_sym[out].path != newpath && strcmp(g_sym[out].path, newpath) == 0, "add: the path is copied into storage owned by the table");
    CANARY("add returns");
}
/* the same contract on a table of <= 6 entries (an implementation may look through the table, e.g. for a closed slot to reuse): entry k symbolic, possibly closed */
void h_add_small(void) {
    ND(size_t, n); ND(int, nfd); ND(U32, k); ND_ARR(char, newpath, PLEN);
    WasiFileDescriptor before_k; U32 out = 0xFFFFFFFFu; bool ok;
    ASSUME(k < n && n <= 6 && nfd >= 3);
    ASSUME(newpath[0] != 0); newpath[PLEN - 1] = 0;
    mk_table_sym(n, n + 1, k);
    before_k = g_sym[k];
    ok = wasiFileDescriptorAdd(nfd, newpath, &out);
    OBL(ok, "add: succeeds when memory is available");
    OBL((out == n && wasi.fds.length == n + 1) || (out < n && out != k) || (out == k && g_kind_d == K_CLOSED), "add: the new descriptor number never aliases a live descriptor (it is the old table length, or a closed slot)");
    OBL(out < wasi.fds.length && g_sym[out].fd == nfd && g_sym[out].dir == 0 && g_sym[out].path != 0 && strcmp(g_sym[out].path, newpath) == 0, "add: the entry the RETURNED number denotes is the one that holds the new descriptor");
    if (out != k) OBL(g_sym[k].fd == before_k.fd && g_sym[k].dir == before_k.dir && g_sym[k].path == before_k.path, "add: every other entry is unchanged");
    CANARY("add small returns");
}
void h_add_oom(void) {                 /* allocation may fail: failure leaves the table unchanged */
    ND(size_t, n); ND(int, nfd); ND_ARR(char, newpath, PLEN); U32 out = 0; bool ok;
    ASSUME(n <= 3 && nfd >= 3); ASSUME(newpath[0] != 0); newpath[PLEN - 1] = 0;
    wasi.fds.fds = (WasiFileDescriptor*)calloc(n ? n : 1, sizeof(WasiFileDescriptor));
    ASSUME(wasi.fds.fds != 0);
    wasi.fds.length = n; wasi.fds.capacity = n;           /* full: adding must grow the storage */
    ok = wasiFileDescriptorAdd(nfd, newpath, &out);
    OBL(ok || wasi.fds.length == n, "add: a failed add leaves the table length unchanged");
    OBL(wasi.fds.length <= wasi.fds.capacity, "add: length never exceeds capacity");
    CANARY("add_oom returns");
}

/* ---------- fd_close ---------- */
void h_close(void) {
    ND(size_t, n); ND(U32, d); ND(U32, k); U32 r; WasiFileDescriptor before_k; int live;
    ASSUME(k < n && k != d);
    mk_table_sym(n, n, d);
    before_k = g_sym[k];
    ev_reset();
#ifdef ABI_UNSTABLE
    r = wasi_unstable__fd_close(0, d);
#else
    r = wasi_snapshot_preview1__fd_close(0, d);
#endif
    live = d < n && g_kind_d != K_CLOSED;
    if (!live) {
        OBL(r == WASI_ERRNO_BADF, "close: a descriptor that was never issued or is already closed yields EBADF");
        OBL(g_ev_calls == 0, "close: EBADF path performs no host call");
    } else if (r == WASI_ERRNO_SUCCESS) {
        OBL(IS_WF_CLOSED(g_sym[d]), "close: after a successful close the entry is Closed: no native descriptor, no directory stream, NO dangling path pointer");
        if (g_kind_d == K_DIR) OBL(g_ev_calls == 1 && g_ev_last == EV_closedir && g_ev_dir == (void*)g_before_d.dir, "close: an open directory stream is closed exactly once with closedir");
        if (g_kind_d == K_FILE || g_kind_d == K_STD) OBL(g_ev_calls == 1 && g_ev_last == EV_close && g_ev_fd == g_before_d.fd, "close: the native descriptor is closed exactly once");
        if (g_kind_d == K_PREOPEN) OBL(g_ev_calls == 0, "close: a pre-opened directory has nothing native to close");
    } else {
        OBL(g_ev_calls == 1 && g_ev_result == -1, "close: fails only if the host close failed");
    }
    OBL(g_sym[k].fd == before_k.fd && g_sym[k].dir == before_k.dir && g_sym[k].path == before_k.path, "close: every other entry is unchanged");
    OBL(wasi.fds.length == n, "close: descriptor numbers are never reused (table length unchanged)");
    CANARY("close returns");
}
/* two closes in a row on the same live descriptor (the history of length 2, without relying on wf induction) */
void h_close_twice(void) {
    ND(size_t, n); ND(U32, d); U32 r1, r2;
    ASSUME(d < n);
    mk_table_sym(n, n, d);
    ASSUME(g_kind_d != K_CLOSED);
    r1 = wasi_snapshot_preview1__fd_close(0, d);
    ASSUME(r1 == WASI_ERRNO_SUCCESS);
    ev_reset();
    r2 = wasi_snapshot_preview1__fd_close(0, d);
    OBL(r2 == WASI_ERRNO_BADF, "close: a second fd_close on the same descriptor fails with EBADF");
    OBL(g_ev_calls == 0, "close: the second close performs no host call (and frees nothing: CBMC double-free check)");
    CANARY("close twice returns");
}

/* ---------- every descriptor-taking entry point on a Closed / never-issued descriptor ---------- */
#define DEAD_PROLOGUE \
    ND(size_t, n); ND(size_t, cap); ND(U32, d); ND(U32, p1); ND(U32, p2); ND(U32, l1); ND(U32, l2); ND(U32, rp); ND(U64, q); ND(U32, fl); U32 r; \
    ASSUME(cap >= n && cap >= 1 && cap <= n + 4);   /* spare capacity beyond the issued descriptors, contents unconstrained */ \
    mk_table_sym(n, cap, d); mem_init(); \
    ASSUME(d >= n || g_kind_d == K_CLOSED); \
    ASSUME(p1 <= GMEM - 16 && p2 <= GMEM - 16 && rp <= GMEM - 24 && l1 <= 8 && l2 <= 8); \
    ev_reset();
#define DEAD_EPILOGUE(name) \
    OBL(r == WASI_ERRNO_BADF, name ": fails with EBADF on a closed or never-issued descriptor"); \
    OBL(g_ev_calls == 0, name ": performs no host call on a closed or never-issued descriptor"); \
    CANARY(name " returns");
#define DEAD(fn, hname, callargs) void h_dead_##hname(void) { DEAD_PROLOGUE r = fn callargs; DEAD_EPILOGUE(#fn) }

DEAD(wasi_snapshot_preview1__fd_read, p1_fd_read, (0, d, p1, 1, rp))
DEAD(wasi_unstable__fd_read, un_fd_read, (0, d, p1, 1, rp))
DEAD(wasi_snapshot_preview1__fd_pread, p1_fd_pread, (0, d, p1, 1, q, rp))
DEAD(wasi_snapshot_preview1__fd_write, p1_fd_write, (0, d, p1, 1, rp))
DEAD(wasi_snapshot_preview1__fd_pwrite, p1_fd_pwrite, (0, d, p1, 1, q, rp))
DEAD(wasi_snapshot_preview1__fd_seek, p1_fd_seek, (0, d, q, 0, rp))
DEAD(wasi_unstable__fd_seek, un_fd_seek, (0, d, q, 0, rp))
DEAD(wasi_snapshot_preview1__fd_tell, p1_fd_tell, (0, d, rp))
DEAD(wasi_snapshot_preview1__fd_readdir, p1_fd_readdir, (0, d, p1, l1, q, rp))
DEAD(wasi_snapshot_preview1__fd_fdstat_get, p1_fd_fdstat_get, (0, d, rp))
DEAD(wasi_snapshot_preview1__fd_filestat_get, p1_fd_filestat_get, (0, d, rp))
DEAD(wasi_unstable__fd_filestat_get, un_fd_filestat_get, (0, d, rp))
DEAD(wasi_snapshot_preview1__fd_datasync, p1_fd_datasync, (0, d))
DEAD(wasi_snapshot_preview1__fd_sync, p1_fd_sync, (0, d))
DEAD(wasi_snapshot_preview1__fd_prestat_get, p1_fd_prestat_get, (0, d, rp))
DEAD(wasi_snapshot_preview1__fd_prestat_dir_name, p1_fd_prestat_dir_name, (0, d, p1, l1))
DEAD(wasi_snapshot_preview1__path_open, p1_path_open, (0, d, fl, p1, l1, fl, q, q, fl, rp))
DEAD(wasi_snapshot_preview1__path_filestat_get, p1_path_filestat_get, (0, d, fl, p1, l1, rp))
DEAD(wasi_unstable__path_filestat_get, un_path_filestat_get, (0, d, fl, p1, l1, rp))
DEAD(wasi_snapshot_preview1__path_unlink_file, p1_path_unlink_file, (0, d, p1, l1))
DEAD(wasi_snapshot_preview1__path_remove_directory, p1_path_remove_directory, (0, d, p1, l1))
DEAD(wasi_snapshot_preview1__path_create_directory, p1_path_create_directory, (0, d, p1, l1))
DEAD(wasi_snapshot_preview1__path_symlink, p1_path_symlink, (0, p1, l1, d, p2, l2))
DEAD(wasi_snapshot_preview1__path_readlink, p1_path_readlink, (0, d, p1, l1, p2, l2, rp))
/* path_rename takes two descriptors: the old one dead => EBADF (the new one is unconstrained) */
void h_dead_p1_path_rename_old(void) { DEAD_PROLOGUE ND(U32, d2); r = wasi_snapshot_preview1__path_rename(0, d, p1, l1, d2, p2, l2); DEAD_EPILOGUE("path_rename(old descriptor dead)") }
/* ... the new one dead, the old one a live pre-opened directory (small two-entry view of the table) */
void h_dead_p1_path_rename_new(void) {
    ND(unsigned, n); ND(U32, d); ND(U32, d2); ND(U32, p1); ND(U32, p2); ND(U32, l1); ND(U32, l2); U32 r;
    ASSUME(n <= TAB_MAX); mk_table(n, TAB_MAX); mem_init();
    ASSUME(d >= n || g_kind[d] == K_CLOSED);
    ASSUME(d2 < n && (g_kind[d2] == K_PREOPEN || g_kind[d2] == K_DIR));
    ASSUME(p1 <= GMEM - 16 && p2 <= GMEM - 16 && l1 >= 1 && l1 <= 8 && l2 <= 8);
    ev_reset();
    r = wasi_snapshot_preview1__path_rename(0, d2, p1, l1, d, p2, l2);
    DEAD_EPILOGUE("path_rename(new descriptor dead)")
}

/* ---------- descriptors 0-2 (the host's standard streams) carry no directory path: every call that would use one as a directory
 * handle fails (EBADF, or ENOTDIR for fd_readdir), performs no host call and dereferences nothing ---------- */
#define NOPATH_PROLOGUE \
    ND(size_t, n); ND(size_t, cap); ND(U32, d); ND(U32, p1); ND(U32, p2); ND(U32, l1); ND(U32, l2); ND(U32, rp); ND(U64, q); ND(U32, fl); U32 r; \
    ASSUME(cap >= n && cap >= 1 && cap <= n + 4); \
    mk_table_sym(n, cap, d); mem_init(); \
    ASSUME(d < n && g_kind_d == K_STD); \
    ASSUME(p1 <= GMEM - 16 && p2 <= GMEM - 16 && rp <= GMEM - 24 && l1 <= 8 && l2 <= 8); \
    ev_reset();
#define NOPATH_EPILOGUE(name) \
    OBL(r == WASI_ERRNO_BADF || r == WASI_ERRNO_NOTDIR, name ": a standard stream used as a directory handle fails (EBADF / ENOTDIR)"); \
    OBL(g_ev_calls == 0, name ": performs no host call when the descriptor has no path"); \
    CANARY(name " returns");
#define NOPATH(fn, hname, callargs) void h_dead_nopath_##hname(void) { NOPATH_PROLOGUE r = fn callargs; NOPATH_EPILOGUE(#fn) }
NOPATH(wasi_snapshot_preview1__path_open, path_open, (0, d, fl, p1, l1, fl, q, q, fl, rp))
NOPATH(wasi_snapshot_preview1__path_filestat_get, path_filestat_get, (0, d, fl, p1, l1, rp))
NOPATH(wasi_unstable__path_filestat_get, un_path_filestat_get, (0, d, fl, p1, l1, rp))
NOPATH(wasi_snapshot_preview1__path_unlink_file, path_unlink_file, (0, d, p1, l1))
NOPATH(wasi_snapshot_preview1__path_remove_directory, path_remove_directory, (0, d, p1, l1))
NOPATH(wasi_snapshot_preview1__path_create_directory, path_create_directory, (0, d, p1, l1))
NOPATH(wasi_snapshot_preview1__path_symlink, path_symlink, (0, p1, l1, d, p2, l2))
NOPATH(wasi_snapshot_preview1__path_readlink, path_readlink, (0, d, p1, l1, p2, l2, rp))
NOPATH(wasi_snapshot_preview1__path_rename, path_rename_old, (0, d, p1, l1, d, p2, l2))
NOPATH(wasi_snapshot_preview1__fd_readdir, fd_readdir, (0, d, p1, l1, q, rp))

/* ---------- fd_readdir refused on its first call (non-zero cookie), then any further use of the descriptor: no directory stream
 * that has been closed is left behind in the table (the ENV model flags every use of a stream after closedir) ---------- */
void h_readdir_refused_then_used(void) {
    ND(size_t, n); ND(U32, d); ND(U32, bp); ND(U32, up); ND(U64, cookie); ND(int, then_close); U32 r1, r2;
    mk_table_sym(n, n, d); mem_init(); g_ev_dirent_count = 0;
    ASSUME(d < n && (g_kind_d == K_PREOPEN || g_kind_d == K_FILE)); g_sym[d].dir = 0;     /* has a path, no stream yet */
    ASSUME(bp <= GMEM - 32 && up <= GMEM - 4 && cookie != 0);
    ev_reset();
    r1 = wasi_snapshot_preview1__fd_readdir(0, d, bp, 24, cookie, up);
    OBL(r1 != WASI_ERRNO_SUCCESS, "fd_readdir: a first call with a cookie that was never handed out is refused");
    OBL(g_sym[d].dir == 0 || ((vh_dirstream*)g_sym[d].dir)->open, "fd_readdir: a refused call leaves no closed directory stream in the descriptor table");
    if (then_close) r2 = wasi_snapshot_preview1__fd_close(0, d); else r2 = wasi_snapshot_preview1__fd_readdir(0, d, bp, 24, 0, up);
    (void)r2;
    CANARY("readdir refused returns");
}

/* ---------- fd_prestat_get / fd_prestat_dir_name on a pre-opened directory ---------- */
void h_prestat(void) {
    ND(unsigned, n); ND(U32, d); ND(U32, rp); ND(U32, pp); ND(U32, plen); ND(U32, k); U32 r1, r2; size_t len; U8 old[GMEM];
    ASSUME(n <= TAB_MAX && d < n); mk_table(n, TAB_MAX); mem_init();
    ASSUME(g_kind[d] == K_PREOPEN);
    ASSUME(rp <= GMEM - 8 && pp <= GMEM - 8 && plen <= 8 && k < GMEM);
    len = strlen(g_path[d]);
    r1 = wasi_snapshot_preview1__fd_prestat_get(0, d, rp);
    OBL(r1 == WASI_ERRNO_SUCCESS && spec_le_read(g_data, rp, 4) == 0 && spec_le_read(g_data, rp + 4, 4) == len,
        "prestat_get: tag 0 (directory) and the length of the pre-opened path, as little-endian u32s");
    memcpy(old, g_data, GMEM);
    r2 = wasi_snapshot_preview1__fd_prestat_dir_name(0, d, pp, plen);
    OBL(r2 == WASI_ERRNO_SUCCESS, "prestat_dir_name: succeeds on a pre-opened directory");
    OBL(g_data[k] == ((k >= pp && k < pp + (plen < len ? plen : len)) ? (U8)g_path[d][k - pp] : old[k]),
        "prestat_dir_name: exactly min(buffer length, path length) bytes of the path are written, nothing else");
    OBL(g_ev_calls == 0, "prestat: no host call");
    CANARY("prestat returns");
}
