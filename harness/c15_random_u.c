/* C15: random_get of the real wasi/wasi.c for EVERY length 0 .. 2^32-1 (no unwinding bound): the chunking loop carries an
 * inductive loop contract (inserted by vlib/props/c15.py at the anchored loop header of a scratch copy; the copy differs from the
 * repository file by the __CPROVER_* clauses only).  ENV: getentropy accepts at most 256 bytes per call and fills exactly that many;
 * ghost variables record that the filled ranges tile the buffer. */
#include "wasi_common.h"
#include "wasi_spec.h"
void h_random_u(void) {
    ND(U32, bp); ND(U32, len); ND(size_t, k); U32 r; U8* buf; U8 before_k;
    /* a guest memory object that contains [bp, bp+len): size symbolic */
    ND(size_t, msz); ASSUME(msz >= (size_t)bp + len && msz >= 1 && msz <= ((size_t)1 << 33));
    buf = (U8*)malloc(msz); ASSUME(buf != 0);
    g_mem.data = buf; g_mem.size = (U32)(msz > 0xFFFFFFFFu ? 0xFFFFFFFFu : msz); g_mem.pages = 1; g_mem.maxPages = 1; g_mem.shared = 0;
    ASSUME(k < msz && !(k >= bp && k - bp < len)); before_k = buf[k]; g_ev_random_calls = 0;
    g_fr_ptr = buf + k; g_fr_val = before_k;     /* frame witness: an arbitrary byte of the guest memory outside [bp, bp+len) */
    ev_reset(); g_ev_entropy_lo = 0; g_ev_entropy_hi = 0; g_ev_entropy_gap = 0; g_ev_entropy_total = 0;
    r = wasi_snapshot_preview1__random_get(0, bp, len);
    OBL(r == SW_SUCCESS, "random_get: succeeds for every length (the host's getentropy accepts at most 256 bytes per call)");
    OBL(g_ev_entropy_total == len && !g_ev_entropy_gap, "random_get: exactly the requested number of bytes is filled by the entropy source, in adjacent chunks");
    OBL(len == 0 || (g_ev_entropy_lo == buf + bp && g_ev_entropy_hi == buf + bp + len), "random_get: exactly the range [buffer, buffer+length) is filled");
    OBL(buf[k] == before_k, "random_get: no byte outside [buffer, buffer+length) is written (ghost index k; carried through the fallback loop as a frame witness in its invariant)");
    CANARY("random_u returns");
}
