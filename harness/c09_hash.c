/* C09 (-r reference module): which bytes identify a function, and how functions are split into static and dynamic ones.
 *  h_code_hash : wasmReadCodeSection of the real reader.c with SHA1 replaced by a recorder: the digest stored for function i is the one
 *                computed over EXACTLY its body as it appears in the binary (locals declarations AND code, not the size field);
 *  h_split     : wasmSplitStaticAndDynamicFunctions of the real main.c on hash-sorted lists with symbolic digests. */
#include <stdio.h>
#include <stdlib.h>
#include <string.h>
#include "vh.h"
#ifdef H_HASH
static const unsigned char* g_sha_ptr[3]; static size_t g_sha_len[3]; static unsigned char* g_sha_out[3]; static int g_sha_n;
void rec_SHA1(const unsigned char* d, size_t n, unsigned char* out) { int i;
    if (g_sha_n < 3) { g_sha_ptr[g_sha_n] = d; g_sha_len[g_sha_n] = n; g_sha_out[g_sha_n] = out; }
    memset(out, 0x40 + g_sha_n, 20);
    g_sha_n++; }
#define SHA1 rec_SHA1
#include "reader.c"
#undef SHA1
#include "instruction.c"
#include "array.c"
#include "debug.c"
#include "section.c"
#include "opcode.c"
#include "valuetype.c"
#include "export.c"
#define BUFSZ 48
static U8 g_b[BUFSZ]; static unsigned g_n;
static void put_u(U32 v, unsigned L) { unsigned i; for (i = 0; i < 3; i++) if (i < L) g_b[g_n++] = (U8)(((v >> (7 * i)) & 0x7F) | (i + 1 < L ? 0x80 : 0)); }
static unsigned BODY_AT[2], BODY_LEN[2], LOCALS_LEN[2];
static void put_body(int f) { ND(unsigned, ng); ND(unsigned, cl); ND(unsigned, L); ND(U8, c0); ND(U8, t0); ND(U8, c1); ND(U8, t1); ND_ARR(U8, code, 3); unsigned size, i;
    ASSUME(ng <= 2 && cl >= 1 && cl <= 3 && L >= 1 && L <= 3 && c0 < 128 && c1 < 128 && t0 >= 0x7C && t0 <= 0x7F && t1 >= 0x7C && t1 <= 0x7F);
    size = 1 + 2 * ng + cl;
    put_u(size, L); BODY_AT[f] = g_n; BODY_LEN[f] = size; LOCALS_LEN[f] = 1 + 2 * ng;
    g_b[g_n++] = (U8)ng; if (ng > 0) { g_b[g_n++] = c0; g_b[g_n++] = t0; } if (ng > 1) { g_b[g_n++] = c1; g_b[g_n++] = t1; }
    for (i = 0; i < 3; i++) if (i < cl) g_b[g_n++] = code[i]; }
void h_code_hash(void) { WasmModuleReader r; WasmModule m; WasmFunction fs[2]; WasmModuleReaderError* err = (WasmModuleReaderError*)1; int f;
    g_n = 0; g_sha_n = 0; put_u(2, 1); put_body(0); put_body(1);
    memset(&r, 0, sizeof r); memset(&m, 0, sizeof m); memset(fs, 0, sizeof fs);
    m.functions.functions = fs; m.functions.count = 2; m.length = g_n; r.module = &m; r.buffer.data = g_b; r.buffer.length = g_n;
    wasmReadCodeSection(&r, g_n, &err);
    OBL(err == 0 && r.buffer.length == 0, "code section: every well-formed body (any locals groups, any code bytes, padded size field) is accepted and consumed");
    OBL(g_sha_n == 2, "code section: one digest per function");
    for (f = 0; f < 2; f++) {
        OBL(g_sha_ptr[f] == g_b + BODY_AT[f] && g_sha_len[f] == BODY_LEN[f], "function identity (-r): the digest covers exactly the body bytes of the binary: the locals declarations AND the code, nothing before or after");
        OBL(g_sha_out[f] == fs[f].hash, "function identity (-r): the digest is stored with its own function");
        OBL(fs[f].code.data == g_b + BODY_AT[f] + LOCALS_LEN[f] && fs[f].code.length == BODY_LEN[f] - LOCALS_LEN[f], "code section: the code buffer of a function starts after its locals and ends with its body");
    }
    CANARY("code_hash"); }
#endif
#ifdef H_SPLIT
#define main w2c2_main
#include "main.c"
#undef main
/* the result arrays have room for every function, so the growth step (contract: A.ensure_capacity) must not be reached */
bool arrayEnsureCapacitySlowPath(void** items, const size_t length, size_t* capacity, const size_t itemSize) { (void)items; (void)length; (void)capacity; (void)itemSize;
    OBL(0, "split (-r): never appends more functions than the module has"); return false; }
/* symbolic digests differing in their first byte only (the comparison is memcmp over all 20 bytes; one byte carries the order) */
static void mk(WasmFunctionID* id, U8 key, U32 idx) { memset(id->hash, 0x11, SHA1_DIGEST_LENGTH); id->hash[0] = key; id->functionIndex = idx; }
void h_split(void) { ND(unsigned, n); ND(unsigned, rn); ND_ARR(U8, k, 3); ND_ARR(U8, rk, 3); ND(unsigned, q);
    WasmFunctionID ids[3], refs[3]; WasmFunctionIDs a, b, st, dy; WasmFunctionID sbuf[3], dbuf[3]; unsigned i, j; int in_st = 0, in_dy = 0, ref_has = 0;
    ASSUME(n <= 3 && rn <= 3 && q < n);
    for (i = 0; i + 1 < 3; i++) { if (i + 1 < n) ASSUME(k[i] <= k[i + 1]); if (i + 1 < rn) ASSUME(rk[i] <= rk[i + 1]); }     /* both lists are sorted by digest (wasmSortedFunctionIDs) */
    for (i = 0; i < 3; i++) { mk(&ids[i], k[i], 10 + i); mk(&refs[i], rk[i], 20 + i); }
    a.functionIDs = ids; a.length = n; a.capacity = 3; b.functionIDs = refs; b.length = rn; b.capacity = 3;
    st.functionIDs = sbuf; st.length = 0; st.capacity = 3; dy.functionIDs = dbuf; dy.length = 0; dy.capacity = 3;   /* room for every function: the array growth step has its own contract (A.ensure_capacity) */
    wasmSplitStaticAndDynamicFunctions(a, b, &st, &dy);
    OBL(st.length + dy.length == n, "split (-r): every function of the module is classified, none twice");
    for (j = 0; j < 3; j++) { if (j < st.length && st.functionIDs[j].functionIndex == 10 + q) in_st++; if (j < dy.length && dy.functionIDs[j].functionIndex == 10 + q) in_dy++; }
    OBL(in_st + in_dy == 1, "split (-r): each function (ghost index q) is emitted in exactly one of the static and dynamic sets");
    for (j = 0; j < 3; j++) if (j < rn && rk[j] == k[q]) ref_has = 1;
    OBL(!in_st || ref_has, "split (-r): a function is classified static ONLY IF the reference module contains a body with the same digest");
    CANARY("split"); }
#endif
