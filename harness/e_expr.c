/* Layer E: contracts on the expression emitters of the real w2c2/c.c (#included whole) for EVERY operand-stack height and
 * EVERY type context below the operands (both symbolic), with the string builder replaced by the ghost recorder.
 * The contract of an emitter of arity n and result type R, on a type stack of height h:
 *   - the C statement it writes assigns to the slot (h-n, R) and reads exactly the slots (h-n+i, type of entry h-n+i),
 *     in operand order, combined by the given operator text (whitespace is not part of the contract);
 *   - afterwards the type stack has height h-n+1, its top is R, every entry below is unchanged (ghost index k);
 *   - the declaration bit (h-n, R) is set and no other declaration entry changes (ghost index kd).
 * This is what makes the per-opcode G-layer contracts (checked in 3 enumerated stack contexts) hold at every height. */
#include "c.c"
#include "vh.h"
#ifndef HMAX
#define HMAX (1u << 24)
#endif
/* array.c's growth step enters through its CONTRACT (discharged on the real array.c by job A.ensure_capacity in harness/array_grow.c):
 * success => capacity >= requested length, a fresh buffer of capacity*itemSize bytes, every old element preserved
 * (here: the ghost elements G_KEEP[], which are the only old elements the postconditions read); failure => nothing changes.
 * The native replay links the real array.c instead. */
#ifdef VERIF_NATIVE
#include "array.c"
static int g_grow_failed;
#else
static size_t G_KEEP[3]; static int G_NKEEP; static int g_grow_failed;
bool arrayEnsureCapacitySlowPath(void** items, const size_t length, size_t* capacity, const size_t itemSize) {
    ND(int, fails); ND(size_t, ncap); unsigned* n; int i;
    OBL(length > *capacity && itemSize == sizeof(unsigned), "call-site precondition of the slow path");
    if (fails) { g_grow_failed = 1; return false; }
    ASSUME(ncap >= length && ncap <= HMAX + 8);
    n = malloc(ncap * sizeof(unsigned)); ASSUME(n != 0);
    for (i = 0; i < G_NKEEP; i++) if (G_KEEP[i] < *capacity) n[G_KEEP[i]] = ((unsigned*)*items)[G_KEEP[i]];
    *items = n; *capacity = ncap;
    return true;
}
#endif
#include "opcode.c"
#include "trapstub.h"
void trap(Trap t);

#ifndef PRETTY
#define PRETTY 0
#endif
#ifndef INDENT
#define INDENT 0
#endif

static void x_event(int kind, const char* s, size_t len, unsigned long long bits);
#define SB_HOOK(kind, s, len, bits) x_event(kind, s, len, bits)
#define SB_MAX 40
#include "sb_recorder.h"

/* ---- ONLINE token matcher: the expected statement is laid down before the call as a list of tokens; every recorder event
 * advances it.  (Matching after the call would make the matcher's control state depend on the merged success/failure paths
 * of the emitter; online, the state is concrete along the emitter's straight-line path and only the verdict is merged.)
 * Blanks and newlines are not part of the contract. ---- */
enum { X_LIT = 1, X_SLOT };
typedef struct Tok { int kind; const char* lit; size_t idx; unsigned t; } Tok;
#define X_MAX 12
static Tok g_exp[X_MAX]; static int g_exp_n, g_ti, g_stage; static size_t g_off; static int g_bad;
static const char slotLetters[4] = { 'i', 'j', 'f', 'd' };
static void x_reset(void) { g_exp_n = 0; g_ti = 0; g_stage = 0; g_off = 0; g_bad = 0; }
static void X_LITERAL(const char* l) { g_exp[g_exp_n].kind = X_LIT; g_exp[g_exp_n].lit = l; g_exp_n++; }
static void X_SLOTREF(size_t idx, unsigned t) { g_exp[g_exp_n].kind = X_SLOT; g_exp[g_exp_n].idx = idx; g_exp[g_exp_n].t = t; g_exp_n++; }
static int isws(unsigned long long c) { return c == ' ' || c == '\n'; }
static void x_char(char ch) {   /* one non-blank character of output text */
    if (g_ti >= g_exp_n) { g_bad = 1; return; }
    if (g_exp[g_ti].kind == X_LIT) {
        if (g_exp[g_ti].lit[g_off] != ch) g_bad = 1;
        g_off++;
        if (g_exp[g_ti].lit[g_off] == 0) { g_ti++; g_off = 0; }
    } else if (g_stage == 0) { if (ch != 's') g_bad = 1; g_stage = 1; }
    else g_bad = 1;
}
static void x_event(int kind, const char* s, size_t len, unsigned long long bits) {
    size_t i;
    if (g_ti < g_exp_n && g_exp[g_ti].kind == X_SLOT && g_stage == 1) {   /* the type letter (symbolic): compared as data, no branching on it */
        g_bad |= !(kind == SB_CHR && g_exp[g_ti].t <= 3 && bits == (unsigned char)slotLetters[g_exp[g_ti].t & 3]); g_stage = 2; return; }
    if (g_ti < g_exp_n && g_exp[g_ti].kind == X_SLOT && g_stage == 2) {   /* the slot number (symbolic) */
        g_bad |= !(kind == SB_U32 && bits == (U32)g_exp[g_ti].idx); g_stage = 0; g_ti++; return; }
    if (kind == SB_STR) { for (i = 0; i < len; i++) if (!isws((unsigned char)s[i])) x_char(s[i]); }
    else if (kind == SB_CHR) { if (!isws(bits)) x_char((char)bits); }
    else g_bad = 1;
}
#define X_MATCHED (!g_bad && g_ti == g_exp_n && g_stage == 0 && g_off == 0 && !g_sb_overflow)

/* ---- the writer under test ---- */
static WasmTypeStack ts, decl;
static WasmLabelStack ls;
static StringBuilder sbuf;
static WasmCFunctionWriter w;
static size_t H0, K, KD, DLEN0; static int HAS_KD;
static WasmValueType T[3], OLDK, OLDKD, OLDD;

static int valid_t(WasmValueType t) { return (unsigned)t <= 3; }

/* n operands on top of a stack of symbolic height h; entry types symbolic; declarations as after any prefix of a function */
static void setup(unsigned n) {
    ND(size_t, h); ND(size_t, cap); ND(size_t, dlen); ND(size_t, dcap); ND(size_t, k); ND(size_t, kd);
    ND(int, haskd); ND(unsigned, t0); ND(unsigned, t1); ND(unsigned, t2); ND(unsigned, oldk); ND(unsigned, oldkd); ND(unsigned, oldd);
    unsigned i;
    ASSUME(h >= n && h <= HMAX && cap >= h && cap >= 1 && cap <= HMAX + 4);
    /* every push declares its slot, so declarations reach at least up to the operands; the destination slot h-n may be new */
    ASSUME(dlen + n >= h && dlen <= HMAX && dcap >= dlen && dcap >= 1 && dcap <= HMAX + 4);
#ifdef NO_GROW
    ASSUME(dcap > h && cap > h);
#endif
    ASSUME(t0 <= 3 && t1 <= 3 && t2 <= 3 && oldkd <= 15 && oldd <= 15);
#ifdef CONST_OBJ   /* objects of constant (maximal) size, symbolic capacity fields */
    ts.valueTypes = malloc((HMAX + 4) * sizeof(WasmValueType)); ASSUME(ts.valueTypes != 0);
    decl.valueTypes = malloc((HMAX + 4) * sizeof(WasmValueType)); ASSUME(decl.valueTypes != 0);
#else
    ts.valueTypes = malloc(cap * sizeof(WasmValueType)); ASSUME(ts.valueTypes != 0);
    decl.valueTypes = malloc(dcap * sizeof(WasmValueType)); ASSUME(decl.valueTypes != 0);
#endif
    ts.length = h; ts.capacity = cap; decl.length = dlen; decl.capacity = dcap;
    T[0] = (WasmValueType)t0; T[1] = (WasmValueType)t1; T[2] = (WasmValueType)t2;
    for (i = 0; i < n; i++) ts.valueTypes[h - 1 - i] = T[i];
    /* ghost entries: one below the operands in the type stack, one anywhere in the declarations, and the destination's old declaration word */
    K = k; KD = kd; H0 = h; DLEN0 = dlen;
#ifndef VERIF_NATIVE
    G_KEEP[0] = k; G_KEEP[1] = kd; G_KEEP[2] = h - n; G_NKEEP = 3;
#endif
    if (h > n) { ASSUME(k < h - n); ts.valueTypes[k] = (WasmValueType)oldk; OLDK = (WasmValueType)oldk; }
    HAS_KD = haskd != 0;
    if (HAS_KD) { ASSUME(kd < dlen && kd != h - n); decl.valueTypes[kd] = (WasmValueType)oldkd; OLDKD = (WasmValueType)oldkd; }
    if (h - n < dlen) { decl.valueTypes[h - n] = (WasmValueType)oldd; OLDD = (WasmValueType)oldd; } else OLDD = (WasmValueType)0;
    memset(&w, 0, sizeof w);
    w.builder = &sbuf; w.typeStack = &ts; w.stackDeclarations = &decl; w.labelStack = &ls;
    w.pretty = PRETTY; w.indent = INDENT;
    g_sb_n = 0; x_reset();
}
/* common postcondition: n operands replaced by one value of type r in slot h-n */
static void post_stack(unsigned n, WasmValueType r, const char* what) {
    (void)what;
    OBL(ts.length == H0 - n + 1 && ts.capacity >= ts.length, "type stack: the n operands are replaced by exactly one entry");
    OBL(ts.valueTypes[H0 - n] == r, "type stack: the new top entry is the result type");
    if (H0 > n) OBL(ts.valueTypes[K] == OLDK, "type stack: every entry below the operands is unchanged (ghost index)");
    OBL(decl.length >= H0 - n + 1 && decl.length >= DLEN0 && decl.capacity >= decl.length, "declarations: cover the destination slot and never shrink");
    OBL(decl.valueTypes[H0 - n] == (WasmValueType)(OLDD | (1u << r)), "declarations: the (slot, result type) variable is declared, earlier declarations of the slot are kept");
    if (HAS_KD) OBL(decl.valueTypes[KD] == OLDKD, "declarations: no other slot's declarations change (ghost index)");
}

#define RT ((WasmValueType)r)
/* the only permitted failure is an allocation failure of the growth step, and then nothing below is claimed */
#define SUCCEEDS(ok, nm) do { OBL((ok) || g_grow_failed, nm ": fails only when an allocation fails"); ASSUME(ok); } while (0)
void h_unary(void) { ND(unsigned, r); bool ok; setup(1); ASSUME(r <= 3);
    X_SLOTREF(H0 - 1, r); X_LITERAL("=OP("); X_SLOTREF(H0 - 1, T[0]); X_LITERAL(");");
    ok = wasmCWriteUnaryExpr(&w, RT, "OP");
    SUCCEEDS(ok, "unary");
    OBL(X_MATCHED, "unary: writes  s<R><h-1> = OP(s<T0><h-1>);  for every height h and operand type");
    post_stack(1, RT, "unary"); CANARY("unary"); }

void h_prefix(void) { ND(unsigned, r); bool ok; setup(2); ASSUME(r <= 3);
    X_SLOTREF(H0 - 2, r); X_LITERAL("=OP("); X_SLOTREF(H0 - 2, T[1]); X_LITERAL(","); X_SLOTREF(H0 - 1, T[0]); X_LITERAL(");");
    ok = wasmCWritePrefixBinaryExpr(&w, RT, "OP");
    SUCCEEDS(ok, "prefix binary");
    OBL(X_MATCHED, "prefix binary: writes  s<R><h-2> = OP(s<T1><h-2>, s<T0><h-1>);  first operand is the deeper one");
    post_stack(2, RT, "prefix"); CANARY("prefix"); }

void h_infix(void) { ND(unsigned, r); bool ok; setup(2); ASSUME(r <= 3);
    X_SLOTREF(H0 - 2, r); X_LITERAL("="); X_SLOTREF(H0 - 2, T[1]); X_LITERAL("OP"); X_SLOTREF(H0 - 1, T[0]); X_LITERAL(";");
    ok = wasmCWriteInfixBinaryExpr(&w, RT, "OP", false);
    SUCCEEDS(ok, "infix binary");
    OBL(X_MATCHED, "infix binary: writes  s<R><h-2> = s<T1><h-2> OP s<T0><h-1>;  left operand is the deeper one");
    post_stack(2, RT, "infix"); CANARY("infix"); }

void h_infix_assign(void) { ND(unsigned, r); bool ok; setup(2); ASSUME(r <= 3);
    /* call-site precondition of the compound form (c.c uses it for add/sub/mul/and/or/xor only): result type = left operand type */
    ASSUME(T[1] == RT);
    X_SLOTREF(H0 - 2, T[1]); X_LITERAL("OP="); X_SLOTREF(H0 - 1, T[0]); X_LITERAL(";");
    ok = wasmCWriteInfixBinaryExpr(&w, RT, "OP", true);
    SUCCEEDS(ok, "infix compound");
    OBL(X_MATCHED, "infix compound: writes  s<T1><h-2> OP= s<T0><h-1>;");
    post_stack(2, RT, "infix="); CANARY("infix_assign"); }

/* opcode-indexed emitters: one job per opcode (OPC/W64 defines), so that the expected text is concrete */
#ifndef OPC
#define OPC wasmOpcodeI32LtS
#define W64 0
#endif
#if W64
#define RW wasmValueTypeI64
#define SU "U64"
#define SI "I64"
#define MASK "63"
#else
#define RW wasmValueTypeI32
#define SU "U32"
#define SI "I32"
#define MASK "31"
#endif
void h_signed_infix(void) { bool ok; setup(2);
    X_SLOTREF(H0 - 2, wasmValueTypeI32); X_LITERAL("=(" SU ")((" SI ")"); X_SLOTREF(H0 - 2, T[1]); X_LITERAL("OP(" SI ")"); X_SLOTREF(H0 - 1, T[0]); X_LITERAL(");");
    ok = wasmCWriteSignedInfixBinaryExpr(&w, OPC, "OP");
    SUCCEEDS(ok, "signed infix");
    OBL(X_MATCHED, "signed comparison: writes  si<h-2> = (Uw)((Iw)s<T1><h-2> OP (Iw)s<T0><h-1>);  both operands reinterpreted as signed of the opcode's width, result an i32");
    post_stack(2, wasmValueTypeI32, "signed"); CANARY("signed_infix"); }

/* shifts keep the left operand's slot: destination type = type of entry h-2 (= the opcode's type in a validated module) */
void h_shl(void) { bool ok; setup(2); ASSUME(T[1] == RW);
    X_SLOTREF(H0 - 2, RW); X_LITERAL("<<=("); X_SLOTREF(H0 - 1, T[0]); X_LITERAL("&" MASK ");");
    ok = wasmCWriteShiftLeftExpr(&w, OPC);
    SUCCEEDS(ok, "shl");
    OBL(X_MATCHED, "shl: writes  s<h-2> <<= (s<h-1> & 31|63);  the count is the top slot masked to the operand width");
    post_stack(2, RW, "shl"); CANARY("shl"); }
void h_shr_u(void) { bool ok; setup(2); ASSUME(T[1] == RW);
    X_SLOTREF(H0 - 2, RW); X_LITERAL(">>=("); X_SLOTREF(H0 - 1, T[0]); X_LITERAL("&" MASK ");");
    ok = wasmCWriteUnsignedShiftRightExpr(&w, OPC);
    SUCCEEDS(ok, "shr_u");
    OBL(X_MATCHED, "shr_u: writes  s<h-2> >>= (s<h-1> & 31|63);  on the unsigned slot variable");
    post_stack(2, RW, "shr_u"); CANARY("shr_u"); }
void h_shr_s(void) { bool ok; setup(2); ASSUME(T[1] == RW);
    X_SLOTREF(H0 - 2, RW); X_LITERAL("=(" SU ")((" SI ")"); X_SLOTREF(H0 - 2, T[1]); X_LITERAL(">>("); X_SLOTREF(H0 - 1, T[0]); X_LITERAL("&" MASK "));");
    ok = wasmCWriteSignedShiftRightExpr(&w, OPC);
    SUCCEEDS(ok, "shr_s");
    OBL(X_MATCHED, "shr_s: writes  s<h-2> = (Uw)((Iw)s<h-2> >> (s<h-1> & 31|63));  arithmetic shift on the signed reinterpretation, count masked");
    post_stack(2, RW, "shr_s"); CANARY("shr_s"); }
