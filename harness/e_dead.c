/* Layer E: instructions with immediates in UNREACHABLE code (writer->ignore): every one still consumes exactly its immediates - whatever
 * their values, e.g. 0x0B (= the `end` opcode) - writes nothing and leaves the stacks alone.  (local.get/set/tee and const: E.h.ignored*.) */
#include "e_expr.c"
#ifndef DEAD_WHICH
#define DEAD_WHICH 0
#endif
static U8 g_dc[16];
static unsigned put5d(unsigned at, U32 v) { g_dc[at] = (U8)((v & 0x7f) | 0x80); g_dc[at + 1] = (U8)(((v >> 7) & 0x7f) | 0x80); g_dc[at + 2] = (U8)(((v >> 14) & 0x7f) | 0x80); g_dc[at + 3] = (U8)(((v >> 21) & 0x7f) | 0x80); g_dc[at + 4] = (U8)(v >> 28); return at + 5; }
void h_dead(void) { ND(U32, a); ND(U32, b); bool ok; size_t len0, dl0; unsigned n = 0; WasmOpcode opc = wasmOpcodeNop; setup(1);
    memset(&g_mod, 0, sizeof g_mod); w.module = &g_mod; w.ignore = true; ls.labels.length = 0; ls.labels.labels = 0; ls.labels.capacity = 0;
    len0 = ts.length; dl0 = decl.length; (void)opc;
#if DEAD_WHICH == 0
    n = put5d(n, a); g_codebuf.data = g_dc; g_codebuf.length = n; w.code = &g_codebuf; ok = wasmCWriteGlobalGetExpr(&w);
#elif DEAD_WHICH == 1
    n = put5d(n, a); g_codebuf.data = g_dc; g_codebuf.length = n; w.code = &g_codebuf; ok = wasmCWriteGlobalSetExpr(&w);
#elif DEAD_WHICH == 2
    n = put5d(n, a); n = put5d(n, b); g_codebuf.data = g_dc; g_codebuf.length = n; w.code = &g_codebuf; ok = wasmCWriteLoadExpr(&w, wasmOpcodeI64Load16S);
#elif DEAD_WHICH == 3
    n = put5d(n, a); n = put5d(n, b); g_codebuf.data = g_dc; g_codebuf.length = n; w.code = &g_codebuf; ok = wasmCWriteStoreExpr(&w, wasmOpcodeF64Store);
#elif DEAD_WHICH == 4
    n = put5d(n, a); g_codebuf.data = g_dc; g_codebuf.length = n; w.code = &g_codebuf; ok = wasmCWriteCallExpr(&w);
#elif DEAD_WHICH == 5
    n = put5d(n, a); n = put5d(n, b); g_codebuf.data = g_dc; g_codebuf.length = n; w.code = &g_codebuf; ok = wasmCWriteCallIndirectExpr(&w);
#elif DEAD_WHICH == 6
    n = put5d(n, a); g_codebuf.data = g_dc; g_codebuf.length = n; w.code = &g_codebuf; ok = wasmCWriteBranchExpr(&w);
#elif DEAD_WHICH == 7
    n = put5d(n, a); g_codebuf.data = g_dc; g_codebuf.length = n; w.code = &g_codebuf; ok = wasmCWriteBranchIfExpr(&w);
#elif DEAD_WHICH == 8      /* br_table with one entry and a default */
    g_dc[n++] = 0x01; n = put5d(n, a); n = put5d(n, b); g_codebuf.data = g_dc; g_codebuf.length = n; w.code = &g_codebuf; ok = wasmCWriteBranchTableExpr(&w);
#elif DEAD_WHICH == 9      /* memory.size / memory.grow: the memory index must still be 0 */
    g_dc[n++] = 0x80; g_dc[n++] = 0x00; g_codebuf.data = g_dc; g_codebuf.length = n; w.code = &g_codebuf; ok = wasmCWriteMemoryGrowExpr(&w);
#endif
    OBL(ok, "dead code: the instruction is accepted whatever its immediates are (indices are not looked up in unreachable code)");
    OBL(g_codebuf.length == 0, "dead code: the immediates are consumed exactly, so the following opcode is decoded at the right byte");
    OBL(g_sb_n == 0, "dead code: nothing is written");
    OBL(ts.length == len0 && decl.length == dl0 && ts.valueTypes[H0 - 1] == T[0] && w.ignore, "dead code: both stacks are untouched and the code stays unreachable");
    CANARY("dead"); }
