/* C17: the timed wait of memory.atomic.wait: wasmCondRelativeWait of the real w2c2_base.h (pthread configuration).  A condition variable that was
 * initialised with NULL attributes (WASM_COND_INIT) measures its absolute timeouts on CLOCK_REALTIME (POSIX default): the deadline must be
 * "now on THAT clock + the relative timeout", normalised; the result is "woken" unless the wait reports ETIMEDOUT. */
#include <time.h>
#include <errno.h>
#include <pthread.h>
#include "vh.h"
static int g_clk_calls, g_clk_id; static struct timespec g_now; static int g_tw_calls; static struct timespec g_abs; static int g_tw_rc; static void* g_tw_cond; static void* g_tw_mutex;
static int vh_clock_gettime(clockid_t id, struct timespec* ts) { g_clk_calls++; g_clk_id = (int)id; *ts = g_now; return 0; }
static int vh_cond_timedwait(pthread_cond_t* c, pthread_mutex_t* m, const struct timespec* a) { g_tw_calls++; g_tw_cond = c; g_tw_mutex = m; g_abs = *a; return g_tw_rc; }
#define clock_gettime vh_clock_gettime
#define pthread_cond_timedwait vh_cond_timedwait
#include "w2c2_base.h"
#undef clock_gettime
#undef pthread_cond_timedwait
#include "trapstub.h"
void h_cond_relative_wait(void) { ND(long, s); ND(long, ns); ND(long long, rel); ND(int, rc); pthread_cond_t c; pthread_mutex_t m; bool woken; long long rs, rn, carry;
    ASSUME(s >= 0 && s <= 4000000000L && ns >= 0 && ns < 1000000000L && rel >= 0 && rel <= 4000000000000000000LL && (rc == 0 || rc == ETIMEDOUT || rc == EINTR));
    g_now.tv_sec = s; g_now.tv_nsec = ns; g_clk_calls = 0; g_tw_calls = 0; g_tw_rc = rc;
    woken = wasmCondRelativeWait(&c, &m, (I64)rel);
    OBL(g_clk_calls == 1 && g_clk_id == (int)CLOCK_REALTIME, "timed wait: the deadline is computed on CLOCK_REALTIME, the clock a default-initialised condition variable waits on (any other clock makes every finite wait time out at once or much too late)");
    OBL(g_tw_calls == 1 && g_tw_cond == (void*)&c && g_tw_mutex == (void*)&m, "timed wait: one pthread_cond_timedwait on the given condition variable and mutex");
    rs = rel / 1000000000LL; rn = rel % 1000000000LL; carry = (ns + rn >= 1000000000LL) ? 1 : 0;
    OBL(g_abs.tv_nsec >= 0 && g_abs.tv_nsec < 1000000000L && (long long)g_abs.tv_sec == (long long)s + rs + carry && (long long)g_abs.tv_nsec == ns + rn - (carry ? 1000000000LL : 0),
        "timed wait: absolute deadline = now + relative timeout (nanoseconds), normalised");
    OBL(woken == (rc != ETIMEDOUT), "timed wait: reports a timeout exactly when the wait timed out");
    CANARY("cond_relative_wait"); }
