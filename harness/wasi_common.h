/* Common part of all wasi.c harnesses: ENV model first, then the real wasi.c is #included whole (so that
 * its static functions and the static `wasi` state are in reach), then a symbolic descriptor table. */
#ifndef WASI_COMMON_H
#define WASI_COMMON_H
static int g_ev_exit_expected = -1;
#include <stdarg.h>
#include "posix_model.h"
/* PATH_MAX is re-defined to a small value: wasi.c is uniform in the macro (every buffer is char[PATH_MAX], every
 * check compares against PATH_MAX); results are parametric-bounded in this dimension and reported as such */
#ifndef VH_PATH_MAX
#define VH_PATH_MAX 16
#endif
#undef PATH_MAX
#define PATH_MAX VH_PATH_MAX
#define stat(p, s) vh_stat_fn(p, s)
#define exit(c) vh_exit_fn(c)
#ifdef VH_OWN_STRLEN_MEMCPY      /* harness/c14_resolve_u.c: strlen / memcpy of wasi.c enter through library contracts */
#define strlen vh_ghost_strlen
#define memcpy vh_contract_memcpy
#endif
#include "wasi.c"
#ifdef VH_OWN_STRLEN_MEMCPY
#undef strlen
#undef memcpy
#endif
#include "wasm_int.h"
#include "wasm_mem.h"
#include "trapstub.h"

#ifndef GMEM
#define GMEM 96
#endif
static U8 g_data[GMEM];
static wasmMemory g_mem;
wasmMemory* wasiMemory(void* instance) { (void)instance; return &g_mem; }
static void mem_init(void) {
    ND_ARR(U8, md, GMEM);
    memcpy(g_data, md, GMEM);
    g_mem.data = g_data; g_mem.size = GMEM; g_mem.pages = 1; g_mem.maxPages = 1; g_mem.shared = 0; g_mem.futex = 0; g_mem.futexFree = 0;
}

/* ---- abstract view of one descriptor-table entry ---- */
enum { K_STD = 0, K_PREOPEN, K_FILE, K_DIR, K_CLOSED, K_KINDS };
#define TAB_MAX 4
#define PLEN 4                        /* descriptor paths: up to PLEN-1 characters */
static WasiFileDescriptor g_tab[TAB_MAX];
static int g_kind[TAB_MAX];
static char* g_path[TAB_MAX];

static char* mk_path(const char* pc) {
    char* p = (char*)malloc(PLEN);
    ASSUME(p != 0);
    memcpy(p, pc, PLEN);
    ASSUME(p[0] != 0);               /* non-empty */
    p[PLEN - 1] = 0;
    return p;
}
/* build a well-formed table of `n` entries with nondeterministic kinds:
 *   wf: Closed  => fd = -1, dir = NULL, path = NULL
 *       Std     => fd = index (0..2), no path;  Preopen => fd = -1, path;  File/Dir => fd >= 3, path (+ dir stream) */
static void mk_entry(int i, int kind, int nfd, const char* pc) {
    g_kind[i] = kind; g_path[i] = 0;
    g_tab[i].fd = -1; g_tab[i].dir = 0; g_tab[i].path = 0;
    if (kind == K_STD) { g_tab[i].fd = i; }
    else if (kind == K_PREOPEN) { g_tab[i].path = g_path[i] = mk_path(pc); }
    else if (kind == K_FILE) { g_tab[i].fd = nfd; g_tab[i].path = g_path[i] = mk_path(pc); }
    else if (kind == K_DIR) { g_tab[i].fd = nfd; g_tab[i].dir = (DIR*)&g_ev_dirstream; g_ev_dirstream.open = 1; g_tab[i].path = g_path[i] = mk_path(pc); }
}
#define MK_SLOT(i, n) { ND(int, kind##i); ND(int, nfd##i); ND_ARR(char, pc##i, PLEN); \
    ASSUME(kind##i >= 0 && kind##i < K_KINDS && nfd##i >= 3); if (kind##i == K_STD) ASSUME(i < 3); \
    if ((unsigned)i < (n)) mk_entry(i, kind##i, nfd##i, pc##i); else { g_kind[i] = -1; g_path[i] = 0; } }
static void mk_table(unsigned n, unsigned capacity) {
    MK_SLOT(0, n) MK_SLOT(1, n) MK_SLOT(2, n) MK_SLOT(3, n)
    wasi.fds.fds = g_tab; wasi.fds.length = n; wasi.fds.capacity = capacity;
}
/* ---- table of SYMBOLIC length (unbounded in the number of descriptors): only the entry under test (d) gets a
 * well-formed symbolic state, every other entry is unconstrained; the table functions never loop over entries ---- */
#define SYM_MAX (1u << 20)
static WasiFileDescriptor* g_sym;
static int g_kind_d; static char* g_path_d; static WasiFileDescriptor g_before_d;
static void mk_table_sym(size_t n, size_t capacity, U32 d) {
    ND(int, kindd); ND(int, nfdd); ND_ARR(char, pcd, PLEN);
    ASSUME(n <= SYM_MAX && capacity >= n && capacity <= SYM_MAX + 1 && capacity >= 1);
    g_sym = (WasiFileDescriptor*)malloc(capacity * sizeof(WasiFileDescriptor));
    ASSUME(g_sym != 0);
    wasi.fds.fds = g_sym; wasi.fds.length = n; wasi.fds.capacity = capacity;
    g_kind_d = -1; g_path_d = 0;
    if (d < n) {
        ASSUME(kindd >= 0 && kindd < K_KINDS && nfdd >= 3);
        if (kindd == K_STD) ASSUME(d < 3);
        g_kind_d = kindd;
        g_sym[d].fd = -1; g_sym[d].dir = 0; g_sym[d].path = 0;
        if (kindd == K_STD) g_sym[d].fd = (int)d;
        else if (kindd == K_PREOPEN) g_sym[d].path = g_path_d = mk_path(pcd);
        else if (kindd == K_FILE) { g_sym[d].fd = nfdd; g_sym[d].path = g_path_d = mk_path(pcd); }
        else if (kindd == K_DIR) { g_sym[d].fd = nfdd; g_sym[d].dir = (DIR*)&g_ev_dirstream; g_ev_dirstream.open = 1; g_sym[d].path = g_path_d = mk_path(pcd); }
        g_before_d = g_sym[d];
    }
}
#define IS_WF_CLOSED(e) ((e).fd == -1 && (e).dir == 0 && (e).path == 0)
#endif
